(* Proofs/Calendar.v — the executable calendar of Spec/Calendar.v satisfies CalendarLaws.
   Structure: an era part (400-year cycles of 146097 days, handled by linear arithmetic) and an
   era-local part (two finite sweeps checked by computation). *)
From Coq Require Import ZArith Bool List Lia.
From Tevec Require Import Spec.Calendar.
From Coq Require Import ZifyBool.
Local Open Scope Z_scope.

(* ---- bounded exhaustive checking ----------------------------------------------------------------- *)

Fixpoint all_from (f : Z -> bool) (z : Z) (n : nat) : bool :=
  match n with
  | O => true
  | S k => if f z then all_from f (z + 1) k else false
  end.

Lemma all_from_spec : forall f n z, all_from f z n = true ->
  forall w, z <= w < z + Z.of_nat n -> f w = true.
Proof.
  intros f n; induction n as [|k IH]; intros z H w Hw.
  - exfalso. change (Z.of_nat 0) with 0 in Hw. lia.
  - cbn [all_from] in H. destruct (f z) eqn:Ez; [|discriminate].
    destruct (Z.eq_dec w z) as [->|Hne]; [exact Ez|].
    apply (IH (z + 1) H). rewrite Nat2Z.inj_succ in Hw. lia.
Qed.

Lemma all_range : forall f lo n, 0 <= n -> all_from f lo (Z.to_nat n) = true ->
  forall w, lo <= w < lo + n -> f w = true.
Proof.
  intros f lo n Hn H w Hw. apply (all_from_spec f (Z.to_nat n) lo H).
  rewrite Z2Nat.id by exact Hn. exact Hw.
Qed.

(* ---- leap years are 400-periodic ------------------------------------------------------------------ *)

Lemma mod4_era : forall a e, (a + e * 400) mod 4 = a mod 4.
Proof. intros a e. Z.div_mod_to_equations. lia. Qed.

Lemma mod100_era : forall a e, (a + e * 400) mod 100 = a mod 100.
Proof. intros a e. Z.div_mod_to_equations. lia. Qed.

Lemma mod400_era : forall a e, (a + e * 400) mod 400 = a mod 400.
Proof. intros a e. Z.div_mod_to_equations. lia. Qed.

Lemma is_leap_era : forall a e, is_leap (a + e * 400) = is_leap a.
Proof.
  intros a e. unfold is_leap. rewrite mod4_era, mod100_era, mod400_era. reflexivity.
Qed.

Lemma is_leap_mod400 : forall y, is_leap (y mod 400) = is_leap y.
Proof.
  intros y. rewrite <- (is_leap_era (y mod 400) (y / 400)).
  f_equal. pose proof (Z.div_mod y 400). lia.
Qed.

Lemma days_in_month_era : forall a e m, days_in_month (a + e * 400) m = days_in_month a m.
Proof. intros a e m. unfold days_in_month. rewrite is_leap_era. reflexivity. Qed.

Lemma days_in_month_mod400 : forall y m, days_in_month (y mod 400) m = days_in_month y m.
Proof. intros y m. unfold days_in_month. rewrite is_leap_mod400. reflexivity. Qed.

Lemma days_in_month_bounds : forall y m, 28 <= days_in_month y m <= 31.
Proof.
  intros y m. unfold days_in_month.
  destruct (m =? 2); [destruct (is_leap y); lia|].
  destruct ((m =? 4) || (m =? 6) || (m =? 9) || (m =? 11)); lia.
Qed.

(* ---- era arithmetic ------------------------------------------------------------------------------- *)

Lemma div_era_400 : forall a e, 0 <= a < 400 -> (a + e * 400) / 400 = e.
Proof. intros a e H. Z.div_mod_to_equations. lia. Qed.

Lemma div_era_days : forall a e, 0 <= a < 146097 -> (e * 146097 + a) / 146097 = e.
Proof. intros a e H. Z.div_mod_to_equations. lia. Qed.

Lemma doe_range : forall z, 0 <= z - z / 146097 * 146097 < 146097.
Proof. intros z. Z.div_mod_to_equations. lia. Qed.

Lemma yoe_range : forall y, 0 <= y - y / 400 * 400 < 400.
Proof. intros y. Z.div_mod_to_equations. lia. Qed.

(* ---- finite sweep A: parts_of_doe is a right inverse and lands on valid era-local dates ---------- *)

Definition year_adj (m : Z) : Z := if m <=? 2 then 1 else 0.

Definition chkA (doe : Z) : bool :=
  let '(yoe, m, d) := parts_of_doe doe in
  (0 <=? yoe) && (yoe <? 400) && (1 <=? m) && (m <=? 12) && (1 <=? d)
  && (d <=? days_in_month (yoe + year_adj m) m)
  && (doe_of_parts yoe m d =? doe).

(* NB: the swept expressions are stated in full (not behind a defined constant): converting a constant
   against its unfolding makes the kernel weak-head reduce it with its slow lazy machine. *)
Lemma sweepA : all_from chkA 0 (Z.to_nat 146097) = true.
Proof. vm_cast_no_check (eq_refl true). Qed.

Lemma partsA : forall doe, 0 <= doe < 146097 ->
  forall yoe m d, parts_of_doe doe = (yoe, m, d) ->
  0 <= yoe < 400 /\ 1 <= m <= 12 /\ 1 <= d /\
  d <= days_in_month (yoe + year_adj m) m /\
  doe_of_parts yoe m d = doe.
Proof.
  intros doe Hdoe yoe m d E.
  assert (H : chkA doe = true).
  { apply (all_range chkA 0 146097); [lia | exact sweepA | lia]. }
  unfold chkA in H. rewrite E in H.
  repeat (apply andb_prop in H; destruct H as [H ?]).
  lia.
Qed.

(* ---- finite sweep B: parts_of_doe is a left inverse on valid era-local dates --------------------- *)

Definition chkB (yoe m d : Z) : bool :=
  if d <=? days_in_month (yoe + year_adj m) m then
    let doe := doe_of_parts yoe m d in
    (0 <=? doe) && (doe <? 146097) &&
    (let '(y', m', d') := parts_of_doe doe in (y' =? yoe) && (m' =? m) && (d' =? d))
  else true.

Lemma sweepB :
  all_from (fun yoe =>
    all_from (fun m =>
      all_from (fun d => chkB yoe m d) 1 (Z.to_nat 31)) 1 (Z.to_nat 12)) 0 (Z.to_nat 400) = true.
Proof. vm_cast_no_check (eq_refl true). Qed.

Lemma partsB : forall yoe m d, 0 <= yoe < 400 -> 1 <= m <= 12 -> 1 <= d ->
  d <= days_in_month (yoe + year_adj m) m ->
  0 <= doe_of_parts yoe m d < 146097 /\ parts_of_doe (doe_of_parts yoe m d) = (yoe, m, d).
Proof.
  intros yoe m d Hy Hm Hd1 Hd.
  pose proof (days_in_month_bounds (yoe + year_adj m) m) as Hb.
  pose proof sweepB as H.
  apply (all_range _ 0 400 ltac:(lia)) with (w := yoe) in H; [|lia].
  apply (all_range _ 1 12 ltac:(lia)) with (w := m) in H; [|lia].
  apply (all_range _ 1 31 ltac:(lia)) with (w := d) in H; [|lia].
  unfold chkB in H.
  destruct (d <=? days_in_month (yoe + year_adj m) m) eqn:Ed; [|lia].
  cbv zeta in H.
  destruct (parts_of_doe (doe_of_parts yoe m d)) as [[y' m'] d'].
  repeat (apply andb_prop in H; destruct H as [H ?]).
  split; [lia|].
  f_equal; [f_equal|]; lia.
Qed.

(* ---- the round trips ------------------------------------------------------------------------------ *)

Lemma days_civil_days : forall z, days_of_civil (civil_of_days z) = z.
Proof.
  intros z. unfold civil_of_days. cbv zeta.
  set (z' := z + 719468).
  pose proof (doe_range z') as Hdoe.
  set (era := z' / 146097) in *.
  set (doe := z' - era * 146097) in *.
  destruct (parts_of_doe doe) as [[yoe m] d] eqn:E.
  destruct (partsA doe Hdoe yoe m d E) as (Hy & Hm & Hd1 & Hd & Hinv).
  unfold days_of_civil. cbv zeta.
  assert (Hyear : (if m <=? 2 then (if m <=? 2 then yoe + era * 400 + 1 else yoe + era * 400) - 1
                   else (if m <=? 2 then yoe + era * 400 + 1 else yoe + era * 400))
                  = yoe + era * 400).
  { destruct (m <=? 2); lia. }
  rewrite Hyear. rewrite (div_era_400 yoe era Hy).
  replace (yoe + era * 400 - era * 400) with yoe by lia.
  rewrite Hinv. unfold doe, z'. lia.
Qed.

Lemma civil_days_civil : forall c, valid_civil c -> civil_of_days (days_of_civil c) = c.
Proof.
  intros [[y0 m] d] Hv. unfold valid_civil, valid_civilb in Hv.
  repeat (apply andb_prop in Hv; destruct Hv as [Hv ?]).
  unfold days_of_civil. cbv zeta.
  set (y := if m <=? 2 then y0 - 1 else y0).
  pose proof (yoe_range y) as Hy.
  set (era := y / 400) in *.
  set (yoe := y - era * 400) in *.
  assert (Hy0 : y0 = yoe + year_adj m + era * 400).
  { unfold yoe, y, year_adj. destruct (m <=? 2); lia. }
  assert (Hd : d <= days_in_month (yoe + year_adj m) m).
  { rewrite <- (days_in_month_era (yoe + year_adj m) era m), <- Hy0. lia. }
  destruct (partsB yoe m d Hy ltac:(lia) ltac:(lia) Hd) as [Hr Hp].
  set (dp := doe_of_parts yoe m d) in *.
  unfold civil_of_days. cbv zeta.
  replace (era * 146097 + dp - 719468 + 719468) with (era * 146097 + dp) by lia.
  rewrite (div_era_days dp era Hr).
  replace (era * 146097 + dp - era * 146097) with dp by lia.
  rewrite Hp.
  f_equal. f_equal. rewrite Hy0. unfold year_adj. destruct (m <=? 2); lia.
Qed.

Lemma civil_of_days_valid : forall z, valid_civil (civil_of_days z).
Proof.
  intros z. unfold civil_of_days. cbv zeta.
  set (z' := z + 719468).
  pose proof (doe_range z') as Hdoe.
  set (era := z' / 146097) in *.
  set (doe := z' - era * 146097) in *.
  destruct (parts_of_doe doe) as [[yoe m] d] eqn:E.
  destruct (partsA doe Hdoe yoe m d E) as (Hy & Hm & Hd1 & Hd & Hinv).
  unfold valid_civil, valid_civilb.
  assert (Hyear : (if m <=? 2 then yoe + era * 400 + 1 else yoe + era * 400)
                  = yoe + year_adj m + era * 400).
  { unfold year_adj. destruct (m <=? 2); lia. }
  rewrite Hyear, days_in_month_era.
  repeat (apply andb_true_intro; split); lia.
Qed.

Theorem calendar_lawful : CalendarLaws civil_of_days days_of_civil.
Proof.
  constructor.
  - exact days_civil_days.
  - exact civil_days_civil.
  - exact civil_of_days_valid.
Qed.

(* ---- month arithmetic ----------------------------------------------------------------------------- *)

Lemma add_months_valid : forall c k, valid_civil c -> valid_civil (add_months c k).
Proof.
  intros [[y m] d] k Hv. unfold valid_civil, valid_civilb in Hv.
  repeat (apply andb_prop in Hv; destruct Hv as [Hv ?]).
  unfold add_months. cbv zeta.
  set (t := y * 12 + (m - 1) + k).
  unfold valid_civil, valid_civilb.
  pose proof (Z.mod_pos_bound t 12 ltac:(lia)) as Hm.
  pose proof (days_in_month_bounds (t / 12) (t mod 12 + 1)) as Hb.
  repeat (apply andb_true_intro; split); lia.
Qed.

Lemma add_months_0 : forall c, valid_civil c -> add_months c 0 = c.
Proof.
  intros [[y m] d] Hv. unfold valid_civil, valid_civilb in Hv.
  repeat (apply andb_prop in Hv; destruct Hv as [Hv ?]).
  unfold add_months. cbv zeta.
  assert (Hq : (y * 12 + (m - 1) + 0) / 12 = y) by (Z.div_mod_to_equations; lia).
  assert (Hr : (y * 12 + (m - 1) + 0) mod 12 + 1 = m) by (Z.div_mod_to_equations; lia).
  rewrite Hq, Hr.
  f_equal. lia.
Qed.

Print Assumptions calendar_lawful.
