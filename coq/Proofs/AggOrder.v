(* Proofs/AggOrder.v — vmin / vmax / vargmin / vargmax (and the plain min / max / argmin / argmax) for
   every carrier whose comparison `nltb` is a strict total order on the valid values (reals inside XR,
   integers): the result is the least / greatest valid element; the arg-result is the index IN THE INPUT
   (nulls counted) of the FIRST occurrence of the extreme.  Axiom-free.                               *)
From Coq Require Import Lia List Permutation Bool.
From Tevec Require Import Base.Prelude Base.Num Model.Agg Proofs.AggGeneric.
Import ListNotations.
Set Implicit Arguments.

(* the same carrier with the comparison flipped: max is min in the flipped order *)
Definition NumFlip {A} (N : Num A) : Num A := {|
  nzero := @nzero _ N; none := @none _ N;
  nadd := @nadd _ N; nsub := @nsub _ N; nmul := @nmul _ N; ndiv := @ndiv _ N;
  nneg := @nneg _ N; nabs := @nabs _ N; nsqrt := @nsqrt _ N; nofZ := @nofZ _ N;
  nltb := fun a b => @nltb _ N b a; nleb := fun a b => @nleb _ N b a; neqb := @neqb _ N;
  nisnan := @nisnan _ N; nnan := @nnan _ N; neps := @neps _ N; ntwo := @ntwo _ N |}.

Lemma vmax_flip {A} (N : Num A) {T} {DT : IsNone T A} (xs : list T) :
  vmax (NA := N) xs = vmin (NA := NumFlip N) xs.
Proof. reflexivity. Qed.
Lemma vargmax_flip {A} (N : Num A) {T} {DT : IsNone T A} (xs : list T) :
  vargmax (NA := N) xs = vargmin (NA := NumFlip N) xs.
Proof. reflexivity. Qed.

Lemma fold_left_ext {X S} (f g : S -> X -> S) (l : list X) (s : S) :
  (forall s x, f s x = g s x) -> fold_left f l s = fold_left g l s.
Proof. intros H. revert s. induction l as [|x l IH]; intros s; cbn; [reflexivity|]. rewrite H. apply IH. Qed.

(* plain arg-extrema = the valid ones under the never-null dictionary *)
Lemma parg_is_varg {A} (better : A -> A -> bool) (xs : list A) :
  parg better xs = varg (DT := IsNone_plain) better xs.
Proof.
  unfold parg, varg.
  rewrite (fold_left_ext (parg_step better) (arg_step (DT := IsNone_plain) better)); [reflexivity|].
  intros [[e i] c] x. reflexivity.
Qed.
Lemma vals_plain {A} (xs : list A) : vals (DT := IsNone_plain) xs = xs.
Proof.
  unfold vals, valid_elems. cbn. induction xs as [|x xs IH]; [reflexivity|]. cbn. rewrite IH. reflexivity.
Qed.

Section Order.
  Context {A : Type} {NA : Num A}.
  Variable ok : A -> Prop.
  Hypothesis lt_irrefl : forall a, ok a -> nltb a a = false.
  Hypothesis lt_trans : forall a b c, ok a -> ok b -> ok c -> nltb a b = true -> nltb b c = true -> nltb a c = true.
  Hypothesis lt_total : forall a b, ok a -> ok b -> nltb a b = false -> nltb b a = false -> a = b.

  Definition le (a b : A) : Prop := nltb b a = false.

  Lemma lt_asym a b : ok a -> ok b -> nltb a b = true -> nltb b a = false.
  Proof.
    intros Ha Hb H. destruct (nltb b a) eqn:E; [|reflexivity].
    pose proof (lt_trans Ha Hb Ha H E) as C. rewrite (lt_irrefl Ha) in C. discriminate.
  Qed.
  Lemma le_refl a : ok a -> le a a.
  Proof. intros Ha. apply lt_irrefl, Ha. Qed.
  Lemma lt_le_trans a b c : ok a -> ok b -> ok c -> nltb a b = true -> le b c -> nltb a c = true.
  Proof.
    intros Ha Hb Hc Hab Hbc. unfold le in Hbc. destruct (nltb a c) eqn:E; [reflexivity|].
    destruct (nltb c a) eqn:E2.
    - rewrite (lt_trans Hc Ha Hb E2 Hab) in Hbc. discriminate.
    - pose proof (lt_total Ha Hc E E2) as ->. rewrite Hab in Hbc. discriminate.
  Qed.
  Lemma le_trans a b c : ok a -> ok b -> ok c -> le a b -> le b c -> le a c.
  Proof.
    intros Ha Hb Hc Hab Hbc. unfold le in *. destruct (nltb c a) eqn:E; [|reflexivity].
    rewrite (lt_le_trans Hc Ha Hb E Hab) in Hbc. discriminate.
  Qed.
  Lemma le_antisym a b : ok a -> ok b -> le a b -> le b a -> a = b.
  Proof. intros Ha Hb H1 H2. apply lt_total; assumption. Qed.

  (* ---- min over a list of valid values ---- *)
  Definition is_min (l : list A) (m : A) : Prop := In m l /\ forall x, In x l -> le m x.

  Lemma min_fold l v :
    ok v -> Forall ok l ->
    exists m, fold_left (fun acc x => match acc with None => Some x | Some v => Some (min_with v x) end) l (Some v)
              = Some m /\ (m = v \/ In m l) /\ le m v /\ (forall x, In x l -> le m x) /\ ok m.
  Proof.
    revert v. induction l as [|x l IH]; intros v Hv Hl.
    - exists v. cbn. repeat split; auto using le_refl. intros x [].
    - inversion Hl as [|? ? Hx Hl']; subst. cbn [fold_left].
      assert (Hv' : ok (min_with v x)) by (unfold min_with; destruct (nltb x v); assumption).
      assert (L1 : le (min_with v x) v).
      { unfold min_with. destruct (nltb x v) eqn:E; [apply (lt_asym Hx Hv E)|apply le_refl, Hv]. }
      assert (L2 : le (min_with v x) x).
      { unfold min_with. destruct (nltb x v) eqn:E; [apply le_refl, Hx|exact E]. }
      destruct (IH _ Hv' Hl') as (m & Hm & Hin & Hle & Hall & Hokm). exists m. split; [exact Hm|].
      repeat split.
      + destruct Hin as [->|Hin]; [|right; right; exact Hin].
        unfold min_with. destruct (nltb x v); [right; left; reflexivity|left; reflexivity].
      + eapply le_trans; [| | |exact Hle|exact L1]; assumption.
      + intros y [<-|Hy]; [|apply Hall, Hy]. eapply le_trans; [| | |exact Hle|exact L2]; assumption.
      + exact Hokm.
  Qed.

  Theorem pmin_spec (l : list A) :
    Forall ok l ->
    match pmin l with None => l = [] | Some m => is_min l m end.
  Proof.
    intros Hl. unfold pmin. destruct l as [|v l]; [reflexivity|]. cbn [fold_left].
    inversion Hl as [|? ? Hv Hl']; subst.
    destruct (min_fold Hv Hl') as (m & -> & Hin & Hle & Hall & _). split.
    - destruct Hin as [->|Hin]; [left; reflexivity|right; exact Hin].
    - intros x [<-|Hx]; [exact Hle|apply Hall, Hx].
  Qed.

  Lemma is_min_unique l m1 m2 : Forall ok l -> is_min l m1 -> is_min l m2 -> m1 = m2.
  Proof.
    intros Hl [I1 L1] [I2 L2]. rewrite Forall_forall in Hl.
    apply le_antisym; auto.
  Qed.

  Lemma pmin_perm l1 l2 : Forall ok l1 -> Permutation l1 l2 -> pmin l1 = pmin l2.
  Proof.
    intros H1 HP. assert (H2 : Forall ok l2) by (eapply Permutation_Forall; eassumption).
    pose proof (pmin_spec H1) as S1. pose proof (pmin_spec H2) as S2.
    destruct (pmin l1) as [m1|], (pmin l2) as [m2|].
    - f_equal. apply (is_min_unique H2); [|exact S2]. destruct S1 as [I L]. split.
      + eapply Permutation_in; eassumption.
      + intros x Hx. apply L. eapply Permutation_in; [apply Permutation_sym|]; eassumption.
    - subst l2. apply Permutation_sym, Permutation_nil in HP. subst l1. destruct S1 as [[] _].
    - subst l1. apply Permutation_nil in HP. subst l2. destruct S2 as [[] _].
    - reflexivity.
  Qed.

  (* ---- first arg-min with an index that counts nulls ---- *)
  Context {T : Type} {DT : IsNone T A}.

  (* i is the position of a valid element that is <= every valid element and < every EARLIER valid element *)
  Definition first_argmin (xs : list T) (i : nat) : Prop :=
    exists v, nth_error xs i = Some v /\ not_none v = true /\
      (forall j w, nth_error xs j = Some w -> not_none w = true -> le (unwrap v) (unwrap w)) /\
      (forall j w, j < i -> nth_error xs j = Some w -> not_none w = true -> nltb (unwrap v) (unwrap w) = true).

  Definition all_ok (xs : list T) : Prop := forall v, In v xs -> not_none v = true -> ok (unwrap v).

  Definition arg_inv (pre : list T) (st : option A * option nat * nat) : Prop :=
    let '(ext, idx, cur) := st in
    cur = length pre /\
    match ext, idx with
    | None, None => forall v, In v pre -> not_none v = false
    | Some m, Some i => exists v, nth_error pre i = Some v /\ not_none v = true /\ unwrap v = m /\ ok m /\
        (forall j w, nth_error pre j = Some w -> not_none w = true -> le m (unwrap w)) /\
        (forall j w, j < i -> nth_error pre j = Some w -> not_none w = true -> nltb m (unwrap w) = true)
    | _, _ => False
    end.

  Lemma nth_error_snoc_cases (pre : list T) v j w :
    nth_error (pre ++ [v]) j = Some w -> (j < length pre /\ nth_error pre j = Some w) \/ (j = length pre /\ w = v).
  Proof.
    intros H. destruct (Nat.lt_ge_cases j (length pre)) as [L|L].
    - left. split; [exact L|]. rewrite nth_error_app1 in H by exact L. exact H.
    - right. rewrite nth_error_app2 in H by exact L. destruct (j - length pre) as [|k] eqn:E.
      + cbn in H. injection H as <-. split; [lia|reflexivity].
      + cbn in H. destruct k; discriminate.
  Qed.

  Lemma arg_inv_step pre st v :
    all_ok (pre ++ [v]) ->
    arg_inv pre st -> arg_inv (pre ++ [v]) (arg_step (fun e x => nltb x e) st v).
  Proof.
    intros Hok.
    assert (Hokpre : forall j w, nth_error pre j = Some w -> not_none w = true -> ok (unwrap w)).
    { intros j w Hj Hw. apply Hok; [|exact Hw]. apply in_or_app. left. eapply nth_error_In; eassumption. }
    assert (Hokv : not_none v = true -> ok (unwrap v)).
    { intros Hv. apply Hok; [|exact Hv]. apply in_or_app. right. left. reflexivity. }
    destruct st as [[ext idx] cur]. intros [Hcur Hinv]. unfold arg_step.
    destruct (not_none v) eqn:Ev.
    - specialize (Hokv eq_refl). destruct ext as [m|], idx as [i|]; cbn beta iota in Hinv; try contradiction.
      + destruct Hinv as (u & Hu & Hun & Hum & Hokm & Hall & Hbefore).
        assert (Hi : i < length pre) by (apply nth_error_Some; rewrite Hu; discriminate).
        destruct (nltb (unwrap v) m) eqn:Eb; unfold arg_inv.
        * (* strictly better: the new element becomes the extreme *)
          split; [rewrite app_length; cbn; lia|]. exists v.
          split; [rewrite nth_error_app2 by lia; replace (cur - length pre) with 0 by lia; reflexivity|].
          split; [exact Ev|]. split; [reflexivity|]. split; [exact Hokv|]. split.
          -- intros j w Hj Hw. destruct (nth_error_snoc_cases _ _ _ Hj) as [[_ Hj']|[_ ->]].
             ++ eapply le_trans; [exact Hokv|exact Hokm|eapply Hokpre; eassumption| |eapply Hall; eassumption].
                apply (lt_asym Hokv Hokm Eb).
             ++ apply le_refl, Hokv.
          -- intros j w Hlt Hj Hw. destruct (nth_error_snoc_cases _ _ _ Hj) as [[_ Hj']|[Hj' _]]; [|lia].
             eapply lt_le_trans; [exact Hokv|exact Hokm|eapply Hokpre; eassumption|exact Eb|eapply Hall; eassumption].
        * (* not better: the cached extreme stays, so ties keep the FIRST occurrence *)
          split; [rewrite app_length; cbn; lia|]. exists u.
          split; [rewrite nth_error_app1 by exact Hi; exact Hu|].
          split; [exact Hun|]. split; [exact Hum|]. split; [exact Hokm|]. split.
          -- intros j w Hj Hw. destruct (nth_error_snoc_cases _ _ _ Hj) as [[_ Hj']|[_ ->]].
             ++ eapply Hall; eassumption.
             ++ exact Eb.
          -- intros j w Hlt Hj Hw. destruct (nth_error_snoc_cases _ _ _ Hj) as [[_ Hj']|[Hj' _]]; [|lia].
             eapply Hbefore; eassumption.
      + (* first valid element *)
        unfold arg_inv. split; [rewrite app_length; cbn; lia|]. exists v.
        split; [rewrite nth_error_app2 by lia; replace (cur - length pre) with 0 by lia; reflexivity|].
        split; [exact Ev|]. split; [reflexivity|]. split; [exact Hokv|]. split.
        -- intros j w Hj Hw. destruct (nth_error_snoc_cases _ _ _ Hj) as [[_ Hj']|[_ ->]].
           ++ rewrite (Hinv w) in Hw; [discriminate|eapply nth_error_In; eassumption].
           ++ apply le_refl, Hokv.
        -- intros j w Hlt Hj Hw. destruct (nth_error_snoc_cases _ _ _ Hj) as [[_ Hj']|[Hj' _]]; [|lia].
           rewrite (Hinv w) in Hw; [discriminate|eapply nth_error_In; eassumption].
    - (* null element: only the running index moves *)
      unfold arg_inv. split; [rewrite app_length; cbn; lia|].
      destruct ext as [m|], idx as [i|]; cbn beta iota in Hinv; try contradiction.
      + destruct Hinv as (u & Hu & Hun & Hum & Hokm & Hall & Hbefore).
        assert (Hi : i < length pre) by (apply nth_error_Some; rewrite Hu; discriminate).
        exists u. split; [rewrite nth_error_app1 by exact Hi; exact Hu|].
        split; [exact Hun|]. split; [exact Hum|]. split; [exact Hokm|]. split.
        -- intros j w Hj Hw. destruct (nth_error_snoc_cases _ _ _ Hj) as [[_ Hj']|[_ ->]].
           ++ eapply Hall; eassumption.
           ++ rewrite Ev in Hw. discriminate.
        -- intros j w Hlt Hj Hw. destruct (nth_error_snoc_cases _ _ _ Hj) as [[_ Hj']|[Hj' _]]; [|lia].
           eapply Hbefore; eassumption.
      + intros w Hw. apply in_app_or in Hw. destruct Hw as [Hw|[<-|[]]]; [apply Hinv, Hw|exact Ev].
  Qed.

  Lemma arg_inv_fold xs pre st :
    all_ok (pre ++ xs) -> arg_inv pre st ->
    arg_inv (pre ++ xs) (fold_left (arg_step (fun e x => nltb x e)) xs st).
  Proof.
    revert pre st. induction xs as [|v xs IH]; intros pre st Hok Hinv; cbn [fold_left].
    - rewrite app_nil_r. exact Hinv.
    - replace (pre ++ v :: xs) with ((pre ++ [v]) ++ xs) by (rewrite <- app_assoc; reflexivity).
      apply IH.
      + rewrite <- app_assoc. exact Hok.
      + apply arg_inv_step; [|exact Hinv]. intros w Hw. apply Hok.
        rewrite in_app_iff in *. cbn [In] in *. tauto.
  Qed.

  Lemma no_valid_vals (xs : list T) : (forall v, In v xs -> not_none v = false) -> vals xs = [].
  Proof.
    intros H. unfold vals, valid_elems. induction xs as [|v xs IH]; [reflexivity|]. cbn [filter].
    rewrite (H v) by (left; reflexivity). apply IH. intros w Hw. apply H. right. exact Hw.
  Qed.

  Theorem vargmin_spec xs :
    all_ok xs ->
    match vargmin xs with None => vals xs = [] | Some i => first_argmin xs i end.
  Proof.
    intros Hok. unfold vargmin, varg.
    pose proof (@arg_inv_fold xs [] (None, None, 0) Hok) as H. cbn [app] in H.
    specialize (H (conj eq_refl (fun v (Hv : In v []) => match Hv with end))).
    destruct (fold_left _ xs (None, None, 0)) as [[ext idx] cur]. cbn [fst snd].
    destruct H as [_ H]. destruct ext as [m|], idx as [i|]; try contradiction.
    - destruct H as (v & Hv & Hn & Hm & _ & Hall & Hbefore). exists v. subst m. repeat split; assumption.
    - apply no_valid_vals, H.
  Qed.

  Lemma all_ok_vals xs : all_ok xs -> Forall ok (vals xs).
  Proof.
    intros H. unfold vals, valid_elems. apply Forall_forall. intros a Ha. apply in_map_iff in Ha.
    destruct Ha as (v & <- & Hv). apply filter_In in Hv. apply H; tauto.
  Qed.

  Theorem vmin_spec xs :
    all_ok xs -> match vmin xs with None => vals xs = [] | Some m => is_min (vals xs) m end.
  Proof. intros H. rewrite vmin_is_plain_min. apply pmin_spec, all_ok_vals, H. Qed.

  Lemma all_ok_perm xs ys : Permutation xs ys -> all_ok xs -> all_ok ys.
  Proof. intros HP H v Hv. apply H. eapply Permutation_in; [apply Permutation_sym|]; eassumption. Qed.

  Theorem vmin_perm xs ys : all_ok xs -> Permutation xs ys -> vmin xs = vmin ys.
  Proof.
    intros H HP. rewrite !vmin_is_plain_min. apply pmin_perm; [apply all_ok_vals, H|apply vals_perm, HP].
  Qed.

  (* the arg-min points at the minimum *)
  Theorem vargmin_points_at_vmin xs i :
    all_ok xs -> vargmin xs = Some i ->
    exists v, nth_error xs i = Some v /\ not_none v = true /\ vmin xs = Some (unwrap v).
  Proof.
    intros Hok Hi. pose proof (vargmin_spec Hok) as S. rewrite Hi in S.
    destruct S as (v & Hv & Hn & Hall & _). exists v. split; [exact Hv|]. split; [exact Hn|].
    pose proof (vmin_spec Hok) as M.
    assert (Hin : In (unwrap v) (vals xs)).
    { unfold vals, valid_elems. apply in_map, filter_In. split; [eapply nth_error_In; eassumption|exact Hn]. }
    destruct (vmin xs) as [m|]; [|rewrite M in Hin; destruct Hin].
    f_equal. apply (is_min_unique (all_ok_vals Hok) M). split; [exact Hin|].
    intros x Hx. unfold vals, valid_elems in Hx. apply in_map_iff in Hx. destruct Hx as (w & <- & Hw).
    apply filter_In in Hw. destruct Hw as [Hw Hwn]. apply In_nth_error in Hw. destruct Hw as [j Hj].
    eapply Hall; eassumption.
  Qed.

End Order.

(* ---- the plain family (AggBasic) on a list of ordinary values ---- *)
Theorem plain_argmin_spec {A : Type} {NA : Num A} (ok : A -> Prop)
  (Hirr : forall a, ok a -> nltb a a = false)
  (Htr : forall a b c, ok a -> ok b -> ok c -> nltb a b = true -> nltb b c = true -> nltb a c = true)
  (Htot : forall a b, ok a -> ok b -> nltb a b = false -> nltb b a = false -> a = b)
  (l : list A) :
  Forall ok l ->
  match argmin l with
  | None => l = []
  | Some i => exists m, nth_error l i = Some m /\
      (forall j x, nth_error l j = Some x -> le m x) /\
      (forall j x, j < i -> nth_error l j = Some x -> nltb m x = true)
  end.
Proof.
  intros Hl. unfold argmin. rewrite parg_is_varg. fold (vargmin (DT := IsNone_plain) l).
  assert (Hok : all_ok (DT := IsNone_plain) ok l).
  { intros v Hv _. rewrite Forall_forall in Hl. apply Hl, Hv. }
  pose proof (vargmin_spec Hirr Htr Htot Hok) as S.
  destruct (vargmin (DT := IsNone_plain) l) as [i|].
  - destruct S as (v & Hv & _ & Hall & Hbefore). exists v. split; [exact Hv|]. split.
    + intros j x Hj. apply (Hall j x Hj). reflexivity.
    + intros j x Hlt Hj. apply (Hbefore j x Hlt Hj). reflexivity.
  - rewrite vals_plain in S. exact S.
Qed.
