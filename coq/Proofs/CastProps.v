(* Proofs/CastProps.v — the statements of property C15 in their final form (assembled from Proofs/Cast.v,
   CastLattice.v, CastOrder.v); Props/C15.v only restates them.                                          *)
From Coq Require Import ZArith List Bool Lia.
From Tevec Require Import Base.Prelude Model.Cast Proofs.Cast Proofs.CastLattice Proofs.CastOrder Proofs.CastWitness.
Import ListNotations.
Local Open Scope Z_scope.

Section Final.
  Context {F : Type} (X : Ext F).

  Lemma predicates_coherent (t : ty) (v : val t) :
    not_none X t v = negb (is_none X t v) /\
    (to_opt X t v = None <-> is_none X t v = true) /\
    as_opt X t v = to_opt X t v /\
    (forall x, to_opt X t v = Some x -> unwrap t v = Ok x) /\
    (is_none X t v = false -> exists x, to_opt X t v = Some x).
  Proof.
    split; [apply not_none_negb|]. split; [apply to_opt_none_iff|]. split; [apply as_opt_to_opt|].
    split; [intros x; apply unwrap_to_opt|].
    intros H. destruct (to_opt X t v) as [x|] eqn:E; [exists x; reflexivity|].
    apply to_opt_none_iff in E. congruence.
  Qed.

  Context (L : ExtLaws X).

  Lemma none_is_null (t : ty) :
    (forall w, none X t = Ok w -> is_none X t w = true) /\
    (can_null t = true <-> exists w, none X t = Ok w).
  Proof. split; [intros w; apply none_is_none; exact L|apply none_defined]. Qed.

  Lemma wrap_unwrap (t : ty) (x : inner t) :
    (b_is_none X (base t) x = false ->
       to_opt X t (from_inner X t x) = Some x /\ unwrap t (from_inner X t x) = Ok x /\
       is_none X t (from_inner X t x) = false) /\
    (b_is_none X (base t) x = true -> is_none X t (from_inner X t x) = true).
  Proof. split; [apply from_inner_nonnull|apply from_inner_null]. Qed.

  Lemma opt_roundtrip (t : ty) (v : val t) :
    (canonical X t v = true -> is_none X t v = false -> from_opt X t (to_opt X t v) = Ok v) /\
    (forall w, is_none X t v = true -> from_opt X t (to_opt X t v) = Ok w -> is_none X t w = true).
  Proof. split; [apply from_opt_to_opt|intros w; apply from_opt_null; exact L]. Qed.

  Lemma cast_null_to_option (s : ty) (b : bt) (v : val s) (w : val (Opt b)) :
    implemented s (Opt b) = true -> is_none X s v = true -> cast X s (Opt b) v = Ok w -> w = None.
  Proof.
    intros Hi Hn Hw.
    assert (H : is_none X (Opt b) w = true).
    { eapply cast_null_preserved; try eassumption; try reflexivity.
      destruct s as [[[]| | | | |]|[[]| | | | |]]; reflexivity. }
    destruct w; [discriminate|reflexivity].
  Qed.

  (* the order theorems for both comparators *)
  Lemma sort_cmp_preorder (t : ty) (a b c : val t) :
    canonical X t a = true -> canonical X t b = true -> canonical X t c = true ->
    sort_cmp X t a a = Ok Eq /\
    (exists o, sort_cmp X t a b = Ok o /\ sort_cmp X t b a = Ok (CompOpp o)) /\
    (le_res (sort_cmp X t a b) \/ le_res (sort_cmp X t b a)) /\
    (le_res (sort_cmp X t a b) -> le_res (sort_cmp X t b c) -> le_res (sort_cmp X t a c)).
  Proof.
    intros Ha Hb Hc.
    pose proof (sort_cmp_ocmp X) as IS. pose proof (b_pcmp_good X L) as G.
    split; [eapply either_refl; eassumption|]. split; [eapply either_anti; eassumption|].
    split; [eapply either_total; eassumption|]. eapply either_trans; eassumption.
  Qed.

  Lemma sort_cmp_rev_preorder (t : ty) (a b c : val t) :
    canonical X t a = true -> canonical X t b = true -> canonical X t c = true ->
    sort_cmp_rev X t a a = Ok Eq /\
    (exists o, sort_cmp_rev X t a b = Ok o /\ sort_cmp_rev X t b a = Ok (CompOpp o)) /\
    (le_res (sort_cmp_rev X t a b) \/ le_res (sort_cmp_rev X t b a)) /\
    (le_res (sort_cmp_rev X t a b) -> le_res (sort_cmp_rev X t b c) -> le_res (sort_cmp_rev X t a c)).
  Proof.
    intros Ha Hb Hc.
    pose proof (sort_cmp_rev_is X) as IS. pose proof (rev_pc_good X L) as G.
    split; [eapply either_refl; eassumption|]. split; [eapply either_anti; eassumption|].
    split; [eapply either_total; eassumption|]. eapply either_trans; eassumption.
  Qed.

  (* non-null values are ordered by the inner type's partial_cmp, resp. its reverse *)
  Lemma sort_cmp_values (t : ty) (a b : val t) (x y : inner t) :
    canonical X t a = true -> canonical X t b = true ->
    to_opt X t a = Some x -> to_opt X t b = Some y ->
    exists o, b_pcmp X (base t) x y = Some o /\ sort_cmp X t a b = Ok o /\ sort_cmp_rev X t a b = Ok (CompOpp o).
  Proof.
    intros Ha Hb Ea Eb.
    destruct (either_values X (sort_cmp X) (b_pcmp X) (sort_cmp_ocmp X) (b_pcmp_good X L) t a b x y Ha Hb Ea Eb)
      as (o & E1 & E2).
    destruct (either_values X (sort_cmp_rev X) (rev_pc X) (sort_cmp_rev_is X) (rev_pc_good X L) t a b x y Ha Hb Ea Eb)
      as (o' & E1' & E2').
    exists o. split; [exact E1|]. split; [exact E2|]. rewrite E2'. f_equal.
    unfold rev_pc, flip_pc in E1'. rewrite E1 in E1'. cbn in E1'. congruence.
  Qed.

  (* on the integer and time types the inner comparison is the integer order (`<`), on bool false < true,
     on strings the bytewise lexicographic order *)
  Lemma pcmp_concrete (x y : Z) (p q : bool) (s1 s2 : str) :
    b_pcmp X (N I32) x y = Some (x ?= y) /\ b_pcmp X (N I64) x y = Some (x ?= y) /\
    b_pcmp X (N U8) x y = Some (x ?= y) /\ b_pcmp X (N U64) x y = Some (x ?= y) /\
    b_pcmp X (N Usize) x y = Some (x ?= y) /\ b_pcmp X (N Isize) x y = Some (x ?= y) /\
    b_pcmp X DT x y = Some (x ?= y) /\ b_pcmp X TM x y = Some (x ?= y) /\
    b_pcmp X Bool p q = Some (bool_cmp p q) /\ b_pcmp X Str s1 s2 = Some (lex_cmp s1 s2).
  Proof. repeat split. Qed.

  Lemma sort_cmp_nulls_last (t : ty) (a b : val t) :
    is_none X t a = true ->
    (is_none X t b = false ->
       sort_cmp X t a b = Ok Gt /\ sort_cmp X t b a = Ok Lt /\
       sort_cmp_rev X t a b = Ok Gt /\ sort_cmp_rev X t b a = Ok Lt) /\
    (is_none X t b = true -> sort_cmp X t a b = Ok Eq /\ sort_cmp_rev X t a b = Ok Eq).
  Proof.
    intros Ha.
    destruct (either_nulls_last X (sort_cmp X) (b_pcmp X) (sort_cmp_ocmp X) t a b Ha) as [A1 A2].
    destruct (either_nulls_last X (sort_cmp_rev X) (rev_pc X) (sort_cmp_rev_is X) t a b Ha) as [B1 B2].
    split; intros Hb.
    - destruct (A1 Hb), (B1 Hb). auto.
    - auto.
  Qed.
End Final.

(* the known-finding class really fails: a null float is cast to a non-null String, and a non-null String to a null float *)
Lemma kf_text_null_witness :
  (exists (v : val (Plain (N F64))) (w : val (Plain Str)),
      implemented (Plain (N F64)) (Plain Str) = true /\ can_null (Plain Str) = true /\
      is_none XZ (Plain (N F64)) v = true /\ cast XZ (Plain (N F64)) (Plain Str) v = Ok w /\
      is_none XZ (Plain Str) w = false) /\
  (exists (v : val (Plain Str)) (w : val (Plain (N F64))),
      implemented (Plain Str) (Plain (N F64)) = true /\ can_null (Plain (N F64)) = true /\
      is_none XZ (Plain Str) v = false /\ cast XZ (Plain Str) (Plain (N F64)) v = Ok w /\
      is_none XZ (Plain (N F64)) w = true).
Proof.
  split.
  - exists None, [78; 97; 78]. repeat split.
  - exists [78; 97; 78], None. repeat split.
Qed.
