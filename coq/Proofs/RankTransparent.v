(* Proofs/RankTransparent.v — C08: `vrank` (Model/Rank.v, tea-map/src/vec_map.rs:112-276) under insertion / deletion
   of nulls at a GENERIC carrier: every `Num A`, every null dictionary `IsNone T A`, every `IsNoneX T A` (so an
   arbitrary `==`), NO order law on the comparison of two non-null values, and the single arithmetic law

        nofnat 1 / nofnat 1 = none                     (`1 as f64 / 1 as f64 == 1.0`)

   which is what reconciles the length-1 early return (the literal `1.0`) with the loop (`sum_rank / repeat_num`
   for a lone valid element followed by nulls).  No axiom is used.

   Plan (notes/C08.md, "Still partial" of extension X4), carried out:
   (1) `isort_split_abs`: for an abstract comparator with a null predicate (null vs non-null = Gt, null vs null = Eq,
       non-null vs null = Lt — nothing about two non-nulls) the insertion sort is the sort of the non-nulls followed
       by the nulls; on index vectors: `argsort ys = map phi (argsort V) ++ npos ys`, V = filter not_none ys,
       phi k = position of the k-th valid element (`argsort_split`);
   (2) `loop_rel`: the run-length loop on ys along `map phi pV ++ nl` and the loop on V along `pV` take the same
       branches on the first nn - 1 sorted positions and keep `out_y[phi k] = out_V[k]`, null slots untouched;
   (3) at sorted position nn - 1 the run on ys either ends too (no null) or breaks and writes the last tie group with
       `write_run` where the run on V writes it in `rank_finish` — same slots, same value; then the null slots get NaN;
   (4) `vrank_scatter`: vrank ys = scatter ys (vrank (filter not_none ys)), and `scatter` commutes with `insert_pat`
       (`vrank_insert_pat_generic`) and with the inductive `NullInsert` (`vrank_null_insert_generic`).           *)
From Coq Require Import List Bool Arith Lia ZArith Permutation.
From Tevec Require Import Base.Prelude Base.Num Model.NullView Model.SortCmp Model.Rank
     Proofs.SortCmp Proofs.Partition Proofs.Rank Proofs.TransQuantile.
Import ListNotations.

(* ---- (1) the sort puts the nulls last, whatever the comparator does on two non-nulls ------------------------- *)
Section AbsSplit.
  Context {X : Type} (cmp : X -> X -> comparison) (nul : X -> bool) (Dom : X -> Prop).
  Hypothesis Hnv : forall x y, Dom x -> Dom y -> nul x = true -> nul y = false -> cmp x y = Gt.
  Hypothesis Hnn : forall x y, Dom x -> Dom y -> nul x = true -> nul y = true -> cmp x y = Eq.
  Hypothesis Hvn : forall x y, Dom x -> Dom y -> nul x = false -> nul y = true -> cmp x y = Lt.

  Lemma insert_null_split_abs x N Z :
    Dom x -> nul x = true -> Forall (fun y => Dom y /\ nul y = false) N -> Forall (fun y => Dom y /\ nul y = true) Z ->
    insert cmp x (N ++ Z) = N ++ x :: Z.
  Proof.
    intros Dx Hx HN HZ. induction HN as [|y N [Dy Hy] _ IH]; cbn [app insert].
    - destruct HZ as [|z Z [Dz Hz] _]; [reflexivity|]. cbn [insert]. unfold cle. rewrite (Hnn _ _ Dx Dz Hx Hz). reflexivity.
    - unfold cle. rewrite (Hnv _ _ Dx Dy Hx Hy). f_equal. exact IH.
  Qed.

  Lemma insert_valid_split_abs x N Z :
    Dom x -> nul x = false -> Forall (fun y => Dom y /\ nul y = true) Z ->
    insert cmp x (N ++ Z) = insert cmp x N ++ Z.
  Proof.
    intros Dx Hx HZ. induction N as [|y N IH]; cbn [app insert].
    - destruct HZ as [|z Z [Dz Hz] _]; [reflexivity|]. cbn [insert]. unfold cle. rewrite (Hvn _ _ Dx Dz Hx Hz). reflexivity.
    - destruct (cle cmp x y); [reflexivity|]. cbn [app]. f_equal. exact IH.
  Qed.

  Theorem isort_split_abs l :
    Forall Dom l -> isort cmp l = isort cmp (filter (fun x => negb (nul x)) l) ++ filter nul l.
  Proof.
    induction l as [|x l IH]; intros HD; [reflexivity|].
    pose proof (Forall_inv HD) as Dx. pose proof (Forall_inv_tail HD) as HD'. specialize (IH HD').
    rewrite Forall_forall in HD'.
    change (isort cmp (x :: l)) with (insert cmp x (isort cmp l)). rewrite IH. cbn [filter].
    destruct (nul x) eqn:Hx; cbn [negb].
    - apply insert_null_split_abs; [exact Dx|exact Hx| |].
      + apply Forall_forall. intros y Hy.
        apply (Permutation_in _ (isort_perm cmp _)) in Hy. apply filter_In in Hy. destruct Hy as [Hy Hn].
        split; [apply HD'; exact Hy|]. destruct (nul y); [discriminate|reflexivity].
      + apply Forall_forall. intros y Hy. apply filter_In in Hy. destruct Hy as [Hy Hn]. split; [apply HD'; exact Hy|exact Hn].
    - change (isort cmp (x :: filter (fun x0 => negb (nul x0)) l))
        with (insert cmp x (isort cmp (filter (fun x0 => negb (nul x0)) l))).
      apply insert_valid_split_abs; [exact Dx|exact Hx|].
      apply Forall_forall. intros y Hy. apply filter_In in Hy. destruct Hy as [Hy Hn]. split; [apply HD'; exact Hy|exact Hn].
  Qed.
End AbsSplit.

(* ---- small list facts ------------------------------------------------------------------------------------------- *)
Lemma filter_map_S (f : nat -> bool) l : filter f (map S l) = map S (filter (fun j => f (S j)) l).
Proof. induction l as [|x l IH]; [reflexivity|]. cbn [map filter]. destruct (f (S x)); cbn [map]; rewrite IH; reflexivity. Qed.

Lemma map_nth_seq {X} (d : X) (l : list X) : map (fun k => nth k l d) (seq 0 (length l)) = l.
Proof.
  induction l as [|x l IH]; [reflexivity|]. cbn [length seq map nth]. f_equal.
  rewrite <- seq_shift, map_map. exact IH.
Qed.

Lemma nth_map_lt {X Y} (f : X -> Y) l t dx dy : t < length l -> nth t (map f l) dy = f (nth t l dx).
Proof. intros Ht. rewrite (nth_indep _ dy (f dx)) by (rewrite map_length; exact Ht). apply map_nth. Qed.

(* ---- positions of the valid / of the null elements -------------------------------------------------------------- *)
Section Pos.
  Context {A : Type} {NA : Num A} {T : Type} {DT : IsNone T A}.

  Fixpoint vpos (ys : list T) : list nat :=
    match ys with [] => [] | y :: r => if is_none y then map S (vpos r) else 0 :: map S (vpos r) end.
  Fixpoint npos (ys : list T) : list nat :=
    match ys with [] => [] | y :: r => if is_none y then 0 :: map S (npos r) else map S (npos r) end.

  Lemma vpos_filter ys : filter (fun j => negb (get_is_none ys j)) (seq 0 (length ys)) = vpos ys.
  Proof.
    induction ys as [|y r IH]; [reflexivity|]. cbn [length seq filter vpos].
    rewrite <- seq_shift, filter_map_S.
    change (filter (fun j => negb (get_is_none (y :: r) (S j))) (seq 0 (length r)))
      with (filter (fun j => negb (get_is_none r j)) (seq 0 (length r))).
    rewrite IH. unfold get_is_none at 1. cbn [nth_error]. destruct (is_none y); reflexivity.
  Qed.
  Lemma npos_filter ys : filter (get_is_none ys) (seq 0 (length ys)) = npos ys.
  Proof.
    induction ys as [|y r IH]; [reflexivity|]. cbn [length seq filter npos].
    rewrite <- seq_shift, filter_map_S.
    change (filter (fun j => get_is_none (y :: r) (S j)) (seq 0 (length r)))
      with (filter (get_is_none r) (seq 0 (length r))).
    rewrite IH. unfold get_is_none at 1. cbn [nth_error]. destruct (is_none y); reflexivity.
  Qed.

  Lemma vpos_nth ys : map (nth_error ys) (vpos ys) = map Some (filter not_none ys).
  Proof.
    induction ys as [|y r IH]; [reflexivity|]. cbn [vpos filter]. unfold not_none at 1.
    destruct (is_none y); cbn [negb map]; rewrite map_map;
      change (map (fun x => nth_error (y :: r) (S x)) (vpos r)) with (map (nth_error r) (vpos r));
      rewrite IH; reflexivity.
  Qed.
  Lemma vpos_length ys : length (vpos ys) = count_valid ys.
  Proof. unfold count_valid. rewrite <- (map_length (nth_error ys)), vpos_nth, map_length. reflexivity. Qed.

  Lemma vpos_In ys j : In j (vpos ys) <-> j < length ys /\ get_is_none ys j = false.
  Proof.
    rewrite <- vpos_filter, filter_In, in_seq. destruct (get_is_none ys j); cbn [negb]; split; intros [H1 H2]; split;
      try lia; try reflexivity; try discriminate.
  Qed.
  Lemma npos_In ys j : In j (npos ys) <-> j < length ys /\ get_is_none ys j = true.
  Proof. rewrite <- npos_filter, filter_In, in_seq. split; intros [H1 H2]; split; try lia; exact H2. Qed.
  Lemma vpos_NoDup ys : NoDup (vpos ys).
  Proof. rewrite <- vpos_filter. apply NoDup_filter. apply seq_NoDup. Qed.

  Definition vphi (ys : list T) (k : nat) : nat := nth k (vpos ys) 0.

  Lemma vphi_nth_error ys k : k < count_valid ys -> nth_error (vpos ys) k = Some (vphi ys k).
  Proof. intros Hk. apply nth_error_nth'. rewrite vpos_length. exact Hk. Qed.
  Lemma vphi_get ys k : k < count_valid ys -> nth_error ys (vphi ys k) = nth_error (filter not_none ys) k.
  Proof.
    intros Hk. pose proof (f_equal (fun l => nth_error l k) (vpos_nth ys)) as E. cbn beta in E.
    rewrite !nth_error_map, (vphi_nth_error ys k Hk) in E. cbn [option_map] in E.
    destruct (nth_error (filter not_none ys) k) eqn:E2; cbn [option_map] in E; [injection E as E; exact E|].
    apply nth_error_None in E2. unfold count_valid in Hk. lia.
  Qed.
  Lemma vphi_In ys k : k < count_valid ys -> In (vphi ys k) (vpos ys).
  Proof. intros Hk. apply nth_In. rewrite vpos_length. exact Hk. Qed.
  Lemma vphi_inj ys a b : a < count_valid ys -> b < count_valid ys -> vphi ys a = vphi ys b -> a = b.
  Proof. intros Ha Hb E. apply (proj1 (NoDup_nth (vpos ys) 0) (vpos_NoDup ys)); rewrite ?vpos_length; assumption. Qed.
  Lemma vpos_map_vphi ys : vpos ys = map (vphi ys) (seq 0 (count_valid ys)).
  Proof. rewrite <- vpos_length. symmetry. apply map_nth_seq. Qed.

  Lemma filter_valid_all_valid ys k v : nth_error (filter not_none ys) k = Some v -> is_none v = false.
  Proof.
    intros E. apply nth_error_In, filter_In in E. destruct E as [_ E]. unfold not_none in E.
    destruct (is_none v); [discriminate|reflexivity].
  Qed.
  Lemma filter_valid_idem ys : filter not_none (filter not_none ys) = filter not_none ys.
  Proof.
    induction ys as [|y r IH]; [reflexivity|]. cbn [filter]. destruct (not_none y) eqn:E; [|exact IH].
    cbn [filter]. rewrite E, IH. reflexivity.
  Qed.

  (* ---- the sorted index vector of ys = the sorted index vector of its valid elements, re-indexed, then the
          null positions in input order ------------------------------------------------------------------------- *)
  Lemma argsort_split rev ys :
    isort (cmp_idx (cmp_dir rev) ys) (seq 0 (length ys))
    = map (vphi ys) (isort (cmp_idx (cmp_dir rev) (filter not_none ys)) (seq 0 (count_valid ys))) ++ npos ys.
  Proof.
    rewrite (isort_split_abs (cmp_idx (cmp_dir rev) ys) (get_is_none ys) (fun j => j < length ys)).
    - rewrite vpos_filter, npos_filter. f_equal.
      rewrite vpos_map_vphi at 1. rewrite <- isort_map. f_equal.
      apply isort_ext_in. intros a b Ha Hb. apply in_seq in Ha. apply in_seq in Hb.
      unfold cmp_idx. rewrite !vphi_get by lia. reflexivity.
    - intros x y Dx Dy Hx Hy. unfold cmp_idx, get_is_none in *.
      destruct (nth_error ys x) as [vx|] eqn:Ex; [|apply nth_error_None in Ex; lia].
      destruct (nth_error ys y) as [vy|] eqn:Ey; [|apply nth_error_None in Ey; lia].
      apply cmp_null_valid; assumption.
    - intros x y Dx Dy Hx Hy. unfold cmp_idx, get_is_none in *.
      destruct (nth_error ys x) as [vx|] eqn:Ex; [|apply nth_error_None in Ex; lia].
      destruct (nth_error ys y) as [vy|] eqn:Ey; [|apply nth_error_None in Ey; lia].
      apply cmp_null_null; assumption.
    - intros x y Dx Dy Hx Hy. unfold cmp_idx, get_is_none in *.
      destruct (nth_error ys x) as [vx|] eqn:Ex; [|apply nth_error_None in Ex; lia].
      destruct (nth_error ys y) as [vy|] eqn:Ey; [|apply nth_error_None in Ey; lia].
      apply cmp_valid_null; assumption.
    - apply Forall_forall. intros j Hj. apply in_seq in Hj. lia.
  Qed.
End Pos.

(* ---- (2), (3) the run-length loop along the embedding ---------------------------------------------------------- *)
Section Loop.
  Context {A : Type} {NA : Num A} {T : Type} {DT : IsNone T A} {DX : IsNoneX T A}.
  Variables (pct : bool) (nn len : nat) (ys V : list T) (phi : nat -> nat) (pV nl : list nat).
  Let pY := map phi pV ++ nl.
  Hypothesis HpVlen : length pV = nn.
  Hypothesis HpVr : forall a, In a pV -> a < nn.
  Hypothesis Hlen : nn + length nl = len.
  Hypothesis Hphi : forall k, k < nn -> nth_error ys (phi k) = nth_error V k.
  Hypothesis HVlen : length V = nn.
  Hypothesis HVvalid : forall k v, nth_error V k = Some v -> is_none v = false.
  Hypothesis Hphir : forall k, k < nn -> phi k < len.
  Hypothesis Hphiinj : forall a b, a < nn -> b < nn -> phi a = phi b -> a = b.
  Hypothesis Hnl : forall j, In j nl -> j < len /\ get_is_none ys j = true.

  Lemma pV_nth_r t : t < nn -> nth t pV 0 < nn.
  Proof. intros Ht. apply HpVr. apply nth_In. lia. Qed.
  Lemma pY_nth t : t < nn -> nth t pY 0 = phi (nth t pV 0).
  Proof. intros Ht. unfold pY. rewrite app_nth1 by (rewrite map_length; lia). apply nth_map_lt. lia. Qed.
  Lemma pY_nth_hi t : nn <= t < len -> In (nth t pY 0) nl.
  Proof. intros Ht. unfold pY. rewrite app_nth2 by (rewrite map_length; lia). rewrite map_length. apply nth_In. lia. Qed.
  Lemma pY_nth_range t : t < len -> nth t pY 0 < len.
  Proof.
    intros Ht. destruct (lt_dec t nn) as [H|H].
    - rewrite pY_nth by exact H. apply Hphir. apply pV_nth_r. exact H.
    - apply Hnl. apply pY_nth_hi. lia.
  Qed.

  Lemma gin_phi k : k < nn -> get_is_none ys (phi k) = false /\ get_is_none V k = false.
  Proof.
    intros Hk. unfold get_is_none. rewrite (Hphi _ Hk).
    destruct (nth_error V k) as [v|] eqn:E; [|apply nth_error_None in E; lia].
    rewrite (HVvalid _ _ E). split; reflexivity.
  Qed.
  Lemma geq_phi a b : a < nn -> b < nn -> get_eq ys (phi a) (phi b) = get_eq V a b.
  Proof. intros Ha Hb. unfold get_eq. rewrite (Hphi _ Ha), (Hphi _ Hb). reflexivity. Qed.
  Lemma phi_not_nl k : k < nn -> ~ In (phi k) nl.
  Proof. intros Hk Hin. destruct (Hnl _ Hin) as [_ Hn]. rewrite (proj1 (gin_phi _ Hk)) in Hn. discriminate. Qed.

  Definition Rel (oY oV : list (option A)) : Prop :=
    length oY = len /\ length oV = nn /\ (forall k, k < nn -> nth_error oY (phi k) = nth_error oV k) /\
    (forall j, In j nl -> nth_error oY j = Some None).
  Definition FinalRel (oY oV : list (option A)) : Prop :=
    length oY = len /\ length oV = nn /\ (forall k, k < nn -> nth_error oY (phi k) = nth_error oV k) /\
    (forall j, In j nl -> nth_error oY j = Some (Some nnan)).

  Lemma rel_uset a (v : A) oY oV : a < nn -> Rel oY oV -> Rel (uset (phi a) v oY) (uset a v oV).
  Proof.
    intros Ha (H1 & H2 & H3 & H4). split; [rewrite uset_length; exact H1|]. split; [rewrite uset_length; exact H2|]. split.
    - intros k Hk. rewrite !uset_nth, H1, H2.
      replace (phi a <? len) with true by (symmetry; apply Nat.ltb_lt; apply Hphir; exact Ha).
      replace (a <? nn) with true by (symmetry; apply Nat.ltb_lt; exact Ha). rewrite !andb_true_r.
      destruct (k =? a) eqn:E.
      + apply Nat.eqb_eq in E. subst k. rewrite Nat.eqb_refl. reflexivity.
      + apply Nat.eqb_neq in E. replace (phi k =? phi a) with false; [apply H3; exact Hk|].
        symmetry. apply Nat.eqb_neq. intros E'. apply Hphiinj in E'; [contradiction|exact Hk|exact Ha].
    - intros j Hj. rewrite uset_nth. replace (j =? phi a) with false; [cbn [andb]; apply H4; exact Hj|].
      symmetry. apply Nat.eqb_neq. intros ->. exact (phi_not_nl _ Ha Hj).
  Qed.

  Lemma rel_fold (g : nat -> nat) (v : A) js : (forall j, In j js -> g j < nn) -> forall oY oV, Rel oY oV ->
    Rel (fold_left (fun o j => uset (nth (g j) pY 0) v o) js oY) (fold_left (fun o j => uset (nth (g j) pV 0) v o) js oV).
  Proof.
    induction js as [|j js IH]; intros Hg oY oV HR; [exact HR|]. cbn [fold_left].
    apply IH; [intros j' Hj'; apply Hg; right; exact Hj'|].
    rewrite pY_nth by (apply Hg; left; reflexivity).
    apply rel_uset; [apply pV_nth_r; apply Hg; left; reflexivity|exact HR].
  Qed.

  Lemma loop_rel m : forall i rep cur sum oY oV,
    i + m = nn - 1 -> 1 <= nn -> rep <= S i -> Rel oY oV ->
    FinalRel
      (rank_finish pct nn pY len (rank_loop pct nn ys pY (seq i (m + (len - nn)))
          {| r_rep := rep; r_cur := cur; r_sum := sum; r_out := oY |}))
      (rank_finish pct nn pV nn (rank_loop pct nn V pV (seq i m)
          {| r_rep := rep; r_cur := cur; r_sum := sum; r_out := oV |})).
  Proof.
    induction m as [|m IH]; intros i rep cur sum oY oV Him Hnn Hrep HR.
    - (* the last valid sorted position i = nn - 1: the run on V ends; the run on ys ends too or breaks *)
      cbn [seq rank_loop rank_finish Nat.add r_rep r_cur r_sum r_out].
      destruct (len - nn) as [|d] eqn:Ed.
      + cbn [seq rank_loop rank_finish r_rep r_cur r_sum r_out].
        assert (Eln : len = nn) by lia. rewrite Eln at 1.
        pose proof (rel_fold (fun t => t) (rk_avg pct nn (sum + cur) rep) (seq (nn - rep) rep)) as HF.
        cbn beta in HF. specialize (HF ltac:(intros j Hj; apply in_seq in Hj; lia) oY oV HR).
        destruct HF as (H1 & H2 & H3 & H4). split; [exact H1|]. split; [exact H2|]. split; [exact H3|].
        intros j Hj. apply In_nth with (d := 0) in Hj. destruct Hj as (u & Hu & _). lia.
      + assert (Hgn : get_is_none ys (nth (S i) pY 0) = true) by (apply Hnl; apply pY_nth_hi; lia).
        cbn [seq rank_loop]. rewrite Hgn. cbn [rank_finish r_rep r_cur r_sum r_out].
        set (v := rk_avg pct nn (sum + cur) rep).
        destruct HR as (H1 & H2 & H3 & H4).
        assert (HwL : length (write_run pY i rep v oY) = len) by (unfold write_run; rewrite fold_uset_length; exact H1).
        split; [rewrite fold_uset_length; exact HwL|]. split; [rewrite fold_uset_length; exact H2|]. split.
        * intros k Hk. rewrite (fold_uset_nth (fun t => nth t pY 0)).
          2:{ intros j Hj. apply in_seq in Hj. rewrite HwL. apply pY_nth_range. lia. }
          replace (existsb (fun j => phi k =? nth j pY 0) (seq (S i) (len - S i))) with false.
          2:{ symmetry. apply not_true_iff_false. intros HE. apply existsb_exists in HE. destruct HE as (t & Ht & E).
              apply in_seq in Ht. apply Nat.eqb_eq in E. apply (phi_not_nl _ Hk). rewrite E. apply pY_nth_hi. lia. }
          unfold write_run. rewrite (fold_uset_nth (fun j => nth (i - j) pY 0)).
          2:{ intros j Hj. apply in_seq in Hj. rewrite H1. apply pY_nth_range. lia. }
          rewrite (fold_uset_nth (fun t => nth t pV 0)).
          2:{ intros j Hj. apply in_seq in Hj. rewrite H2. apply pV_nth_r. lia. }
          rewrite (H3 k Hk). cond_eq. rewrite !existsb_exists. split.
          -- intros (j & Hj & E). apply in_seq in Hj. apply Nat.eqb_eq in E. rewrite pY_nth in E by lia.
             apply Hphiinj in E; [|lia|apply pV_nth_r; lia].
             exists (i - j). split; [apply in_seq; lia|apply Nat.eqb_eq; exact E].
          -- intros (t & Ht & E). apply in_seq in Ht. apply Nat.eqb_eq in E.
             exists (i - t). split; [apply in_seq; lia|]. apply Nat.eqb_eq.
             replace (i - (i - t)) with t by lia. rewrite pY_nth by lia. f_equal. exact E.
        * intros j Hj. rewrite (fold_uset_nth (fun t => nth t pY 0)).
          2:{ intros j' Hj'. apply in_seq in Hj'. rewrite HwL. apply pY_nth_range. lia. }
          replace (existsb (fun j0 => j =? nth j0 pY 0) (seq (S i) (len - S i))) with true; [reflexivity|].
          symmetry. apply existsb_exists. destruct (In_nth nl j 0 Hj) as (u & Hu & Eu).
          exists (nn + u). split; [apply in_seq; lia|]. apply Nat.eqb_eq. unfold pY.
          rewrite app_nth2 by (rewrite map_length; lia). rewrite map_length, HpVlen.
          replace (nn + u - nn) with u by lia. symmetry. exact Eu.
    - (* a sorted position i < nn - 1: both runs look at two valid elements and take the same branch *)
      assert (Hi : S i < nn) by lia.
      cbn [seq rank_loop Nat.add r_rep r_cur r_sum r_out].
      rewrite !pY_nth by lia.
      destruct (gin_phi _ (pV_nth_r _ Hi)) as [G1 G2]. rewrite G1, G2.
      rewrite geq_phi by (apply pV_nth_r; lia).
      destruct (get_eq V (nth i pV 0) (nth (S i) pV 0)).
      + apply IH; [lia|exact Hnn|lia|exact HR].
      + destruct (rep =? 1).
        * apply IH; [lia|exact Hnn|lia|]. apply rel_uset; [apply pV_nth_r; lia|exact HR].
        * apply IH; [lia|exact Hnn|lia|]. unfold write_run.
          apply (rel_fold (fun j => i - j)); [intros j Hj; lia|exact HR].
  Qed.

  Lemma loop_rel_start : 1 <= nn ->
    FinalRel
      (rank_finish pct nn pY len (rank_loop pct nn ys pY (seq 0 (len - 1))
          {| r_rep := 1; r_cur := 1; r_sum := 0; r_out := repeat None len |}))
      (rank_finish pct nn pV nn (rank_loop pct nn V pV (seq 0 (nn - 1))
          {| r_rep := 1; r_cur := 1; r_sum := 0; r_out := repeat None nn |})).
  Proof.
    intros Hnn. replace (len - 1) with ((nn - 1) + (len - nn)) by lia.
    apply loop_rel; [lia|exact Hnn|lia|].
    split; [apply repeat_length|]. split; [apply repeat_length|]. split.
    - intros k Hk. rewrite !nth_error_repeat.
      replace (phi k <? len) with true by (symmetry; apply Nat.ltb_lt; apply Hphir; exact Hk).
      replace (k <? nn) with true by (symmetry; apply Nat.ltb_lt; exact Hk). reflexivity.
    - intros j Hj. rewrite nth_error_repeat.
      replace (j <? len) with true by (symmetry; apply Nat.ltb_lt; apply Hnl; exact Hj). reflexivity.
  Qed.
End Loop.

(* ---- (4) vrank = the ranks of the valid elements, scattered back; the null slots get NaN ------------------------ *)
Section Scatter.
  Context {A : Type} {NA : Num A} {T : Type} {DT : IsNone T A} {DX : IsNoneX T A}.

  (* walk ys: a null gets the null rank, a valid element consumes the next rank of rs *)
  Fixpoint scatter (ys : list T) (rs : list (option A)) : list (option A) :=
    match ys with
    | [] => []
    | y :: r => if is_none y then Some nnan :: scatter r rs else hd (Some nnan) rs :: scatter r (tl rs)
    end.

  Lemma count_valid_cons y (r : list T) :
    count_valid (y :: r) = if is_none y then count_valid r else S (count_valid r).
  Proof. unfold count_valid. cbn [filter]. unfold not_none at 1. destruct (is_none y); reflexivity. Qed.

  Lemma scatter_char : forall ys oY oV,
    length oY = length ys -> length oV = count_valid ys ->
    (forall k j, nth_error (vpos ys) k = Some j -> nth_error oY j = nth_error oV k) ->
    (forall j, In j (npos ys) -> nth_error oY j = Some (Some nnan)) ->
    oY = scatter ys oV.
  Proof.
    induction ys as [|y r IH]; intros oY oV H1 H2 H3 H4.
    - destruct oY; [reflexivity|discriminate].
    - destruct oY as [|o oY]; [discriminate|]. rewrite count_valid_cons in H2.
      cbn [scatter vpos npos] in *. destruct (is_none y) eqn:Hy.
      + f_equal.
        * specialize (H4 0 (or_introl eq_refl)). cbn [nth_error] in H4. congruence.
        * apply IH; [cbn [length] in H1; lia|exact H2| |].
          -- intros k j E. apply (H3 k (S j)). apply map_nth_error. exact E.
          -- intros j Hj. apply (H4 (S j)). right. apply in_map. exact Hj.
      + destruct oV as [|v oV]; [discriminate|]. cbn [hd tl]. f_equal.
        * specialize (H3 0 0 eq_refl). cbn [nth_error] in H3. congruence.
        * apply IH; [cbn [length] in H1; lia|cbn [length] in H2; lia| |].
          -- intros k j E. apply (H3 (S k) (S j)). cbn [nth_error]. apply map_nth_error. exact E.
          -- intros j Hj. apply (H4 (S j)). apply in_map. exact Hj.
  Qed.

  Lemma scatter_all_null ys rs : count_valid ys = 0 -> scatter ys rs = repeat (Some nnan) (length ys).
  Proof.
    induction ys as [|y r IH]; intros H; [reflexivity|]. rewrite count_valid_cons in H. cbn [scatter length repeat].
    destruct (is_none y); [|discriminate]. f_equal. apply IH. exact H.
  Qed.

  Hypothesis Hlaw : ndiv (nofnat (A := A) 1) (nofnat 1) = none.

  (* a series without nulls, at least one element: the early return of length 1 agrees with the loop (the law) *)
  Lemma vrank_all_valid pct rev (V : list T) :
    (forall k v, nth_error V k = Some v -> is_none v = false) -> 1 <= length V ->
    vrank pct rev V
    = rank_finish pct (length V) (isort (cmp_idx (cmp_dir rev) V) (seq 0 (length V))) (length V)
        (rank_loop pct (length V) V (isort (cmp_idx (cmp_dir rev) V) (seq 0 (length V))) (seq 0 (length V - 1))
           {| r_rep := 1; r_cur := 1; r_sum := 0; r_out := repeat None (length V) |}).
  Proof.
    intros HV HL. destruct V as [|v [|v' V']]; [cbn in HL; lia| |].
    - pose proof (HV 0 v eq_refl) as Hv. unfold vrank, get_is_none.
      cbn [length Nat.eqb nth_error seq isort fold_right insert Nat.sub rank_loop rank_finish
           r_rep r_cur r_sum r_out Nat.add fold_left nth uset firstn skipn app repeat].
      rewrite Hv. unfold rk_avg. cbn [Nat.mul Nat.add]. rewrite Hlaw. destruct pct; reflexivity.
    - set (W := v :: v' :: V') in *. unfold vrank. cbv zeta.
      replace (length W =? 0) with false by (symmetry; apply Nat.eqb_neq; lia).
      replace (length W =? 1) with false by (symmetry; apply Nat.eqb_neq; cbn; lia).
      set (pV := isort (cmp_idx (cmp_dir rev) W) (seq 0 (length W))).
      assert (Hh : get_is_none W (nth 0 pV 0) = false).
      { assert (Hin : In (nth 0 pV 0) pV) by (apply nth_In; unfold pV; rewrite isort_length, seq_length; lia).
        apply (Permutation_in _ (isort_perm _ _)) in Hin. apply in_seq in Hin. unfold get_is_none.
        destruct (nth_error W (nth 0 pV 0)) as [u|] eqn:E; [apply (HV _ _ E)|apply nth_error_None in E; lia]. }
      rewrite Hh.
      assert (Hc : count_valid W = length W).
      { unfold count_valid. f_equal. clear -HV. induction W as [|u W IH]; [reflexivity|]. cbn [filter].
        unfold not_none at 1. rewrite (HV 0 u eq_refl). cbn [negb]. f_equal. apply IH.
        intros k x E. apply (HV (S k) x E). }
      rewrite Hc. reflexivity.
  Qed.

  Theorem vrank_scatter pct rev (ys : list T) :
    vrank pct rev ys = scatter ys (vrank pct rev (filter not_none ys)).
  Proof.
    destruct (le_lt_dec 2 (length ys)) as [HL|HL].
    2:{ destruct ys as [|y0 [|y1 r]]; [reflexivity| |cbn in HL; lia].
        unfold vrank at 1. unfold get_is_none. cbn [length Nat.eqb nth_error filter scatter]. unfold not_none.
        destruct (is_none y0) eqn:Hy; cbn [negb]; [reflexivity|].
        unfold vrank, get_is_none. cbn [length Nat.eqb nth_error hd]. rewrite Hy. reflexivity. }
    set (V := filter not_none ys). set (nn := count_valid ys).
    assert (HVvalid : forall k v, nth_error V k = Some v -> is_none v = false) by (apply filter_valid_all_valid).
    pose proof (argsort_split rev ys) as Hsplit. fold V nn in Hsplit.
    set (pV := isort (cmp_idx (cmp_dir rev) V) (seq 0 nn)) in *.
    assert (HpVlen : length pV = nn) by (unfold pV; rewrite isort_length; apply seq_length).
    assert (HpVr : forall a, In a pV -> a < nn).
    { intros a Ha. apply (Permutation_in _ (isort_perm _ _)) in Ha. apply in_seq in Ha. lia. }
    assert (Hlen : nn + length (npos ys) = length ys).
    { pose proof (f_equal (@length nat) Hsplit) as E.
      rewrite isort_length, seq_length, app_length, map_length, HpVlen in E. lia. }
    unfold vrank at 1. cbv zeta.
    replace (length ys =? 0) with false by (symmetry; apply Nat.eqb_neq; lia).
    replace (length ys =? 1) with false by (symmetry; apply Nat.eqb_neq; lia).
    rewrite Hsplit. fold nn.
    destruct (Nat.eq_dec nn 0) as [H0|H0].
    - (* no valid element *)
      assert (EV : V = []) by (apply length_zero_iff_nil; exact H0).
      assert (EpV : pV = []) by (apply length_zero_iff_nil; lia).
      rewrite EpV, EV. cbn [map app].
      assert (Hin : In (nth 0 (npos ys) 0) (npos ys)) by (apply nth_In; lia).
      apply npos_In in Hin. rewrite (proj2 Hin). rewrite scatter_all_null by exact H0. reflexivity.
    - assert (Hnn : 1 <= nn) by lia.
      assert (Hh : get_is_none ys (nth 0 (map (vphi ys) pV ++ npos ys) 0) = false).
      { rewrite app_nth1 by (rewrite map_length; lia). rewrite (nth_map_lt (vphi ys) pV 0 0) by lia.
        assert (Hp0 : nth 0 pV 0 < nn) by (apply HpVr; apply nth_In; lia).
        apply (vpos_In ys). apply vphi_In. exact Hp0. }
      rewrite Hh.
      assert (HF : FinalRel nn (length ys) (vphi ys) (npos ys)
                (rank_finish pct nn (map (vphi ys) pV ++ npos ys) (length ys)
                   (rank_loop pct nn ys (map (vphi ys) pV ++ npos ys) (seq 0 (length ys - 1))
                      {| r_rep := 1; r_cur := 1; r_sum := 0; r_out := repeat None (length ys) |}))
                (rank_finish pct nn pV nn
                   (rank_loop pct nn V pV (seq 0 (nn - 1))
                      {| r_rep := 1; r_cur := 1; r_sum := 0; r_out := repeat None nn |}))).
      { apply loop_rel_start; try assumption.
        - intros k Hk. apply vphi_get. exact Hk.
        - reflexivity.
        - intros k Hk. apply (vpos_In ys). apply vphi_In. exact Hk.
        - intros a b Ha Hb E. apply (vphi_inj ys); assumption.
        - intros j Hj. apply npos_In. exact Hj. }
      rewrite (vrank_all_valid pct rev V HVvalid) by (change (length V) with nn; exact Hnn).
      change (length V) with nn. fold pV.
      destruct HF as (F1 & F2 & F3 & F4).
      apply scatter_char; [exact F1|exact F2| |exact F4].
      intros k j E.
      assert (Hk : k < nn) by (unfold nn; rewrite <- vpos_length; apply nth_error_Some; congruence).
      rewrite (vphi_nth_error ys k Hk) in E. injection E as <-. apply F3. exact Hk.
  Qed.

  (* ---- insertion of nulls ---------------------------------------------------------------------------------- *)
  Lemma filter_insert_pat (nl : T) p : is_none nl = true ->
    forall xs, filter not_none (insert_pat nl p xs) = filter not_none xs.
  Proof.
    intros Hn. induction p as [|b p IH]; intros xs; [reflexivity|]. destruct b; cbn [insert_pat].
    - cbn [filter]. unfold not_none at 1. rewrite Hn. cbn [negb]. apply IH.
    - destruct xs as [|x xs]; [apply (IH [])|]. cbn [filter]. rewrite IH. reflexivity.
  Qed.

  Lemma scatter_insert_pat (nl : T) p : is_none nl = true ->
    forall xs rs, scatter (insert_pat nl p xs) rs = insert_pat (Some nnan) p (scatter xs rs).
  Proof.
    intros Hn. induction p as [|b p IH]; intros xs rs; [reflexivity|]. destruct b; cbn [insert_pat].
    - cbn [scatter]. rewrite Hn. f_equal. apply IH.
    - destruct xs as [|x xs]; [apply (IH [] rs)|]. cbn [scatter].
      destruct (is_none x); cbn [insert_pat]; f_equal; apply IH.
  Qed.

  (* the statement recorded by extension X4 as C08_transparent_rank_generic_full_statement *)
  Theorem vrank_insert_pat_generic pct rev (nl : T) p xs : is_none nl = true ->
    vrank pct rev (insert_pat nl p xs) = insert_pat (Some nnan) p (vrank pct rev xs).
  Proof.
    intros Hn. rewrite (vrank_scatter pct rev (insert_pat nl p xs)), (vrank_scatter pct rev xs).
    rewrite (filter_insert_pat nl p Hn). apply scatter_insert_pat. exact Hn.
  Qed.

  (* the inductive insertion (the inserted nulls may be different null elements of T) *)
  Lemma scatter_null_insert xs ys : NullInsert xs ys ->
    exists p, map (to_opt (H := DT)) ys = insert_pat None p (map (to_opt (H := DT)) xs) /\
              forall rs, scatter ys rs = insert_pat (Some nnan) p (scatter xs rs).
  Proof.
    induction 1 as [|x xs ys _ [p [IH1 IH2]]|v xs ys Hv _ [p [IH1 IH2]]].
    - exists []. split; [reflexivity|intros rs; reflexivity].
    - exists (false :: p). split.
      + cbn [map insert_pat]. rewrite IH1. reflexivity.
      + intros rs. cbn [scatter]. destruct (is_none x); cbn [insert_pat]; rewrite IH2; reflexivity.
    - exists (true :: p). split.
      + cbn [map insert_pat]. rewrite IH1. unfold to_opt at 1. rewrite Hv. reflexivity.
      + intros rs. cbn [scatter insert_pat]. rewrite Hv, IH2. reflexivity.
  Qed.

  Theorem vrank_null_insert_generic pct rev xs ys : NullInsert xs ys ->
    exists p, map (to_opt (H := DT)) ys = insert_pat None p (map (to_opt (H := DT)) xs) /\
              vrank pct rev ys = insert_pat (Some nnan) p (vrank pct rev xs).
  Proof.
    intros H. destruct (scatter_null_insert xs ys H) as (p & H1 & H2). exists p. split; [exact H1|].
    rewrite (vrank_scatter pct rev ys), (vrank_scatter pct rev xs), (filter_valid_insert _ _ H). apply H2.
  Qed.

  (* deleting every null: the ranks of a series are the ranks of its valid elements at the valid slots *)
  Corollary vrank_delete_nulls pct rev ys :
    vrank pct rev ys = scatter ys (vrank pct rev (filter not_none ys)) /\
    length (vrank pct rev (filter not_none ys)) = count_valid ys.
  Proof.
    split; [apply vrank_scatter|].
    pose proof (f_equal (@length _) (vrank_scatter pct rev (filter not_none ys))) as E.
    rewrite filter_valid_idem in E.
    assert (HS : forall (l : list T) rs, (forall v, In v l -> is_none v = false) -> length (scatter l rs) = length l).
    { induction l as [|v l IH]; intros rs Hl; [reflexivity|]. cbn [scatter]. rewrite (Hl v (or_introl eq_refl)).
      cbn [length]. f_equal. apply IH. intros u Hu. apply Hl. right. exact Hu. }
    rewrite HS in E; [exact E|].
    intros v Hv. apply filter_In in Hv. destruct Hv as [_ Hv]. unfold not_none in Hv. destruct (is_none v); [discriminate|reflexivity].
  Qed.
End Scatter.

(* ---- the law `1 as f64 / 1 as f64 = 1.0` at the carriers in use, and a carrier where it fails --------------------- *)
From Coq Require Floats.
From Coq Require Import Reals Lra.
From Tevec Require Base.XR Base.F64 Model.Cmp.

Definition RankUnitLaw (A : Type) {NA : Num A} : Prop := ndiv (nofnat (A := A) 1) (nofnat 1) = none.

Lemma rank_unit_law_Z : RankUnitLaw Z (NA := Cmp.NumZ).
Proof. reflexivity. Qed.
Lemma rank_unit_law_f64 : RankUnitLaw PrimFloat.float (NA := F64.NumF64).
Proof. vm_compute. reflexivity. Qed.
Lemma rank_unit_law_xr : RankUnitLaw XR.XR (NA := XR.NumXR).
Proof.
  unfold RankUnitLaw. rewrite XR.xofnat. cbn [INR]. rewrite XR.xdiv_some by lra.
  change (@none XR.XR XR.NumXR) with (Some 1%R). f_equal. field.
Qed.

(* the integers with a division that returns 0: every other field as NumZ.  The law fails, and so does the
   transparency: the lone valid element gets `1.0` from the early return and `1 / 1 = 0` from the loop. *)
Definition NumZ_baddiv : Num Z :=
  {| nzero := 0%Z; none := 1%Z; nadd := Z.add; nsub := Z.sub; nmul := Z.mul; ndiv := fun _ _ => 0%Z;
     nneg := Z.opp; nabs := Z.abs; nsqrt := Z.sqrt; nofZ := fun z => z;
     nltb := Z.ltb; nleb := Z.leb; neqb := Z.eqb; nisnan := fun _ => false; nnan := 0%Z; neps := 0%Z; ntwo := 2%Z |}.

Lemma rank_unit_law_necessary :
  ~ RankUnitLaw Z (NA := NumZ_baddiv) /\
  vrank (NA := NumZ_baddiv) (DT := IsNone_option (H := NumZ_baddiv)) (DX := IsNoneX_option (H := NumZ_baddiv))
        false false (insert_pat None [true] [Some 5%Z])
  <> insert_pat (Some (nnan (Num := NumZ_baddiv))) [true]
       (vrank (NA := NumZ_baddiv) (DT := IsNone_option (H := NumZ_baddiv)) (DX := IsNoneX_option (H := NumZ_baddiv))
              false false [Some 5%Z]).
Proof. split; [intros H; vm_compute in H; discriminate H|vm_compute; intros H; discriminate H]. Qed.

(* ---- re-encoding and insertion composed ------------------------------------------------------------------------ *)
From Tevec Require Proofs.NullView Proofs.EncRank.

Theorem vrank_insert_across_encodings {A : Type} {NA : Num A} {T1 T2 : Type} (D1 : IsNone T1 A) (D2 : IsNone T2 A)
        (X1 : IsNoneX T1 A) (X2 : IsNoneX T2 A) (pct rev : bool) (xs : list T1) (xs' ys : list T2) :
  RankUnitLaw A -> EncRank.EqbView D1 D2 X1 X2 -> SameView D1 D2 xs xs' -> NullInsert (D := D2) xs' ys ->
  exists p, opt_view (D := D2) ys = insert_pat None p (opt_view (D := D1) xs) /\
            vrank (DT := D2) (DX := X2) pct rev ys
            = insert_pat (Some nnan) p (vrank (DT := D1) (DX := X1) pct rev xs).
Proof.
  intros HL HE HS HI.
  destruct (vrank_null_insert_generic (DX := X2) HL pct rev xs' ys HI) as (p & H1 & H2).
  exists p. split.
  - unfold opt_view. rewrite H1. f_equal. symmetry. apply (proj1 (Tevec.Proofs.NullView.same_view_opt_view D1 D2 xs xs') HS).
  - rewrite H2. f_equal. symmetry. apply EncRank.vrank_view; assumption.
Qed.
