(* Proofs/RollRank.v — ts_vrank (Model/Cmp.v) with integer elements and the output arithmetic in XR = option R:
   for every series, window, min_periods, pct / rev flag, position and both driver bodies the output is the
   average rank of the current element among the valid elements of its window,
       #{a in V' : a < x} + 1 + #{a in V' : a = x} / 2        (V' = valid window without the current element)
   in the reversed form (n + 1) - that, divided by n = |V'| + 1 with pct; null when x is null or the mask applies. *)
From Coq Require Import ZArith List Lia Bool Reals Lra.
From Tevec Require Import Base.Prelude Base.Num Base.XR Model.Driver Proofs.Driver Model.Cmp Proofs.IdxRun
     Spec.Extrema Proofs.Cmp.
Import ListNotations.

Lemma count_lt_app x l1 l2 : count_lt x (l1 ++ l2) = count_lt x l1 + count_lt x l2.
Proof. unfold count_lt. rewrite filter_app, app_length. reflexivity. Qed.
Lemma count_eq_app x l1 l2 : count_eq x (l1 ++ l2) = count_eq x l1 + count_eq x l2.
Proof. unfold count_eq. rewrite filter_app, app_length. reflexivity. Qed.

(* smaller + equal + greater = all *)
Lemma count_partition x l : count_lt x l + count_eq x l + count_gt x l = length l.
Proof.
  unfold count_lt, count_eq, count_gt. induction l as [|a l IH]; [reflexivity|]. cbn [filter length].
  destruct (Z.ltb_spec a x), (Z.eqb_spec a x), (Z.ltb_spec x a); cbn [length]; lia.
Qed.

Section RankZ.
  Context {T : Type} {DT : IsNone T Z}.
  Variable xs : list T.
  Notation ov := (ov xs).
  Notation ovs := (ovs xs).
  Notation count := (count xs).

  Lemma to_opt_valid (v : T) : not_none v = true -> to_opt v = Some (unwrap v).
  Proof. unfold not_none, to_opt. destruct (is_none v); [discriminate|reflexivity]. Qed.
  Lemma to_opt_null (v : T) : not_none v = false -> to_opt v = None.
  Proof. unfold not_none, to_opt. destruct (is_none v); [reflexivity|discriminate]. Qed.

  (* the recount loop over positions [i, i + cnt) *)
  Lemma rank_loop_spec (x : Z) : forall cnt i (r : R) nrep,
    i + cnt <= length xs ->
    rank_loop (B := XR) xs x i cnt (Some r) nrep =
    Ok (Some (r + INR (count_lt x (validZ (seg i (i + cnt) ovs))))%R,
        nrep + count_eq x (validZ (seg i (i + cnt) ovs))).
  Proof.
    induction cnt as [|cnt IH]; intros i r nrep Hlen.
    - rewrite Nat.add_0_r, seg_nil. cbn. rewrite Rplus_0_r, Nat.add_0_r. reflexivity.
    - destruct (nth_error_Some_lt xs i) as [v Hv]; [lia|].
      assert (Hseg : validZ (seg i (i + S cnt) ovs) = validZ [to_opt v] ++ validZ (seg (S i) (S i + cnt) ovs)).
      { rewrite (@seg_cons _ i (i + S cnt) ovs (to_opt v)); [|lia|rewrite ovs_nth, Hv; reflexivity].
        replace (i + S cnt) with (S i + cnt) by lia.
        change (to_opt v :: seg (S i) (S i + cnt) ovs) with ([to_opt v] ++ seg (S i) (S i + cnt) ovs).
        apply validZ_app. }
      rewrite Hseg, count_lt_app, count_eq_app.
      cbn [rank_loop]. rewrite (uget_ok xs i v Hv). cbn [bind].
      destruct (not_none v) eqn:Ev.
      + rewrite (to_opt_valid v Ev). cbn [validZ flat_map app].
        unfold count_lt at 1, count_eq at 1. cbn [filter]. cbn [nltb neqb NumZ].
        destruct (Z.ltb_spec (unwrap v) x) as [Hlt|Hge].
        * change (@nadd XR NumXR (Some r) (@none XR NumXR)) with (Some (r + 1)%R). rewrite IH by lia.
          replace (unwrap v =? x)%Z with false by (symmetry; apply Z.eqb_neq; lia).
          cbn [length]. rewrite plus_INR. f_equal. apply f_equal2; [f_equal; cbn [INR]; lra|lia].
        * destruct (Z.eqb_spec (unwrap v) x) as [Heq|Hne].
          -- rewrite IH by lia. cbn [length]. f_equal. apply f_equal2; [f_equal; cbn [INR]; lra|lia].
          -- rewrite IH by lia. cbn [length]. f_equal.
      + rewrite (to_opt_null v Ev). cbn [validZ flat_map app]. rewrite IH by lia.
        unfold count_lt at 2, count_eq at 2. cbn. reflexivity.
  Qed.

  Variable wd : nat.
  Hypothesis Hwd : 1 <= wd.
  Variables (mp : nat) (pct rev : bool).

  (* what the closure computes at position k, as a function of the window *)
  Definition rank_at (k : nat) : XR :=
    match ov k with
    | Some x =>
        let V' := validZ (seg (wstart wd k) k ovs) in
        rank_out (B := XR) mp pct rev (count (wstart wd k) (S k))
                 (Some (1 + INR (count_lt x V'))%R) (1 + count_eq x V')
    | None => rank_out (B := XR) mp pct rev (count (wstart wd k) (S k)) None 1
    end.

  Lemma vrank_cb_step k v n :
    nth_error xs k = Some v -> n = count (wstart wd k) k ->
    exists n' o, vrank_cb (B := XR) mp (wd - 1) pct rev xs n (start_of wd k, k, v) = Ok (n', o) /\
                 n' = count (wstart wd (S k)) (S k) /\ o = rank_at k.
  Proof.
    intros Hv Hn.
    assert (Hk : k < length xs) by (apply nth_error_Some; congruence).
    assert (Hcnt : count (wstart wd k) (S k) = count (wstart wd k) k + isv v)
      by (apply count_snoc; [unfold wstart; lia|exact Hv]).
    assert (Hfrom : match start_of wd k with Some st => st | None => 0 end = wstart wd k).
    { rewrite (start_of_wstart wd Hwd). destruct (k <? wd - 1) eqn:E; [|reflexivity].
      apply Nat.ltb_lt in E. unfold wstart. lia. }
    unfold vrank_cb. rewrite Hfrom.
    (* the post step, for any n1 = count of the full window *)
    assert (Hpost : forall o : XR, exists n',
              (do n2 <- (if wd - 1 <=? k then
                           match start_of wd k with
                           | None => Panic UnwrapNone
                           | Some st => do v0 <- uget xs st;
                                        if not_none v0 then usub (count (wstart wd k) (S k)) 1
                                        else Ok (count (wstart wd k) (S k))
                           end
                         else Ok (count (wstart wd k) (S k)));
               Ok (n2, o)) = Ok (n', o) /\ n' = count (wstart wd (S k)) (S k)).
    { intros o. rewrite (start_of_wstart wd Hwd).
      destruct (k <? wd - 1) eqn:E.
      - apply Nat.ltb_lt in E. replace (wd - 1 <=? k) with false by (symmetry; apply Nat.leb_gt; lia).
        cbn [bind]. eexists. split; [reflexivity|]. f_equal. unfold wstart. lia.
      - apply Nat.ltb_ge in E. replace (wd - 1 <=? k) with true by (symmetry; apply Nat.leb_le; lia).
        destruct (nth_error_Some_lt xs (wstart wd k)) as [v0 Hv0]; [unfold wstart; lia|].
        rewrite (uget_ok xs _ _ Hv0). cbn [bind].
        assert (Hc : count (wstart wd k) (S k) = isv v0 + count (wstart wd (S k)) (S k)).
        { replace (wstart wd (S k)) with (S (wstart wd k)) by (unfold wstart; lia).
          apply count_cons; [unfold wstart; lia|exact Hv0]. }
        unfold isv in Hc. destruct (not_none v0).
        + unfold usub. replace (1 <=? count (wstart wd k) (S k)) with true
            by (symmetry; apply Nat.leb_le; lia).
          cbn [bind]. eexists. split; [reflexivity|]. lia.
        + cbn [bind]. eexists. split; [reflexivity|]. lia. }
    unfold rank_at. rewrite (ov_nth xs k v Hv).
    destruct (not_none v) eqn:Ev.
    - rewrite (to_opt_valid v Ev).
      pose proof (rank_loop_spec (unwrap v) (k - wstart wd k) (wstart wd k) 1 1) as HL.
      replace (wstart wd k + (k - wstart wd k)) with k in HL by (unfold wstart; lia).
      change (@none XR NumXR) with (Some 1%R). rewrite HL by lia. cbn [bind fst snd].
      unfold isv in Hcnt. rewrite Ev in Hcnt.
      replace (S n) with (count (wstart wd k) (S k)) by lia.
      destruct (Hpost (rank_out mp pct rev (count (wstart wd k) (S k))
                         (Some (1 + INR (count_lt (unwrap v) (validZ (seg (wstart wd k) k ovs))))%R)
                         (1 + count_eq (unwrap v) (validZ (seg (wstart wd k) k ovs))))) as (n' & H1 & H2).
      exists n'. eexists. split; [exact H1|]. split; [exact H2|reflexivity].
    - rewrite (to_opt_null v Ev). cbn [bind].
      unfold isv in Hcnt. rewrite Ev in Hcnt.
      replace n with (count (wstart wd k) (S k)) by lia.
      destruct (Hpost (rank_out (B := XR) mp pct rev (count (wstart wd k) (S k)) nnan 1)) as (n' & H1 & H2).
      exists n'. eexists. split; [exact H1|]. split; [exact H2|reflexivity].
  Qed.
End RankZ.

(* ---- the closed form ------------------------------------------------------------------------------ *)
(* average rank of x among V' ∪ {x}: ascending, descending, as a fraction of n = |V'| + 1 *)
Definition avg_rank (pct rev : bool) (x : Z) (V' : list Z) : R :=
  let n := S (length V') in
  let asc := (1 + INR (count_lt x V') + INR (count_eq x V') / 2)%R in
  let r := if rev then (INR (n + 1) - asc)%R else asc in
  if pct then (r / INR n)%R else r.

Lemma rank_out_valid mp pct rev n (lt eq : nat) :
  1 <= n ->
  rank_out (B := XR) mp pct rev n (Some (1 + INR lt)%R) (1 + eq) =
  if mp <=? n then
    Some (let asc := (1 + INR lt + INR eq / 2)%R in
          let r := if rev then (INR (n + 1) - asc)%R else asc in
          if pct then (r / INR n)%R else r)
  else None.
Proof.
  intros Hn. unfold rank_out. destruct (mp <=? n); [|reflexivity].
  assert (Hhalf : @half XR NumXR = Some (1 / 2)%R).
  { unfold half. change (@none XR NumXR) with (Some 1%R). change (@ntwo XR NumXR) with (Some 2%R).
    apply xdiv_some. lra. }
  rewrite Hhalf. replace (1 + eq - 1) with eq by lia. rewrite !xofnat.
  assert (Hn0 : INR n <> 0%R) by (apply not_0_INR; lia).
  destruct rev; cbn [negb]; rewrite ?xmul_some, ?xadd_some, ?xsub_some;
    destruct pct; rewrite ?(xdiv_some _ _ Hn0); f_equal; cbv zeta; lra.
Qed.

Lemma rank_out_null mp pct rev n nrep : rank_out (B := XR) mp pct rev n None nrep = None.
Proof. unfold rank_out. destruct (mp <=? n); [|reflexivity]. destruct rev, pct; reflexivity. Qed.

Section RankFinal.
  Context {T : Type} {DT : IsNone T Z}.

  Theorem ts_vrank_spec body w mp pct rev (xs : list T) :
    1 <= w -> 1 <= length xs ->
    exists out, ts_vrank (B := XR) body w mp pct rev xs = Done out /\ length out = length xs /\
      forall i, i < length xs ->
        nth_error out i =
        Some (match nth_error (map to_opt xs) i with
              | Some (Some x) =>
                  let V' := validZ (seg (wstart w i) i (map to_opt xs)) in
                  if cmp_mp mp (cmp_window w xs) <=? S (length V') then Some (avg_rank pct rev x V')
                  else None
              | _ => None
              end).
  Proof.
    intros Hw Hlen. unfold ts_vrank. set (wd := cmp_window w xs). set (m := cmp_mp mp wd).
    assert (Hwd : 1 <= wd) by (unfold wd, cmp_window; lia).
    assert (Heff : eff_window body wd (length xs) = wd)
      by (unfold eff_window, wd, cmp_window; destruct body; lia).
    destruct (@idx_run_spec T nat XR (vrank_cb m (wd - 1) pct rev xs) xs body wd
                (fun k n => n = count xs (wstart wd k) k)
                (fun k o => o = rank_at xs wd m pct rev k) 0 Hwd) as (out & H1 & H2 & H3).
    { assert (H0 : wstart wd 0 = 0) by (unfold wstart; lia). rewrite H0, count_nil. reflexivity. }
    { intros k v n Hv Hn. rewrite Heff. apply vrank_cb_step; assumption. }
    exists out. split; [exact H1|]. split; [exact H2|].
    apply nth_from_rel with (P := fun k o => o = rank_at xs wd m pct rev k); [exact H2|exact H3|].
    intros i o Hi ->. unfold rank_at. fold (ovs xs). rewrite ovs_nth.
    unfold wd, cmp_window. rewrite wstart_clamp by exact Hi. fold (cmp_window w xs). fold wd.
    unfold ov. destruct (nth_error xs i) as [v|] eqn:Ev; [|apply nth_error_None in Ev; lia].
    cbn [option_map]. destruct (to_opt v) as [x|] eqn:Ex.
    - assert (Hc : count xs (wstart w i) (S i) = S (length (validZ (seg (wstart w i) i (ovs xs))))).
      { rewrite (count_snoc xs (wstart w i) i v); [|unfold wstart; lia|exact Ev].
        unfold count, isv. rewrite to_opt_not_none, Ex. lia. }
      rewrite Hc, rank_out_valid by lia. reflexivity.
    - apply rank_out_null.
  Qed.
End RankFinal.

(* the descending form is the ascending rank from the other end: #greater + 1 + #equal / 2 *)
Lemma avg_rank_rev_gt x V' :
  avg_rank false true x V' = (1 + INR (count_gt x V') + INR (count_eq x V') / 2)%R.
Proof.
  unfold avg_rank. pose proof (count_partition x V') as HP.
  replace (S (length V') + 1) with (count_lt x V' + count_eq x V' + count_gt x V' + 2) by lia.
  rewrite !plus_INR. cbn [INR]. lra.
Qed.
