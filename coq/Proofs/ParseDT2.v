(* Proofs/ParseDT2.v — C18, the remaining pieces of the date-time text round trip:
     (b) signed years: chrono renders a year outside 0000..9999 as "{:+05}" (`+12345`, `-0001`); the %Y
         parser reads a signed year with unbounded width, so the round trip holds for the whole year range
         chrono represents whenever %Y is not directly followed by digits (formats 0 1 2 5 6 9 10);
     (a) rule-list unambiguity: for a text rendered with listed format k, every EARLIER rule j < k of
         TIME_RULE_VEC either rejects the text (53 pairs) or reads the same instant (the pairs (4,7) and
         (6,8), where the earlier rule's space matches no character).  Rejection is proved through a
         sound abstraction of the parser to character classes (digit / white space / - + : / . / other):
         the class string of a rendered text depends only on the format and on the shape of the year
         (7 shapes), so the 53 x shapes syntactic checks are a finite computation whose bound is in the
         statement (`all_pairs_checked`), lifted to all instants by `parse_items_csyn`.
     => the full statement of Props/C18.v (`dt_full_roundtrip`).
   Axiom-free. *)
From Coq Require Import List ZArith Lia Bool.
From Tevec Require Import Base.Prelude Model.Parse Spec.CalendarC18 Model.ParseDT Proofs.CalendarC18 Proofs.ParseDT.
Import ListNotations.
Local Open Scope Z_scope.

Local Ltac zdm := Z.div_mod_to_equations; lia.

(* ================================================================== (b) signed years *)

(* minimal decimal rendering = fixed-width rendering at the number's own width (5 and 6 digits: the years
   chrono represents have at most 6) *)
Lemma dec_step_big f v : 10 <= v -> dec_digits (S f) v = dec_digits f (v / 10) ++ [48 + v mod 10].
Proof. intros H. cbn [dec_digits]. replace (v <? 10) with false by (symmetry; apply Z.ltb_ge; lia). reflexivity. Qed.

Lemma dec_step_small f v : 0 <= v < 10 -> dec_digits (S f) v = [48 + v mod 10].
Proof.
  intros H. cbn [dec_digits]. replace (v <? 10) with true by (symmetry; apply Z.ltb_lt; lia).
  rewrite Z.mod_small by lia. reflexivity.
Qed.

Lemma dec_digits_5 a : 10000 <= a < 100000 -> dec_digits 20 a = fixed_digits 5 a.
Proof.
  intros H. do 4 (rewrite dec_step_big by zdm). rewrite dec_step_small by zdm. reflexivity.
Qed.

Lemma dec_digits_6 a : 100000 <= a < 1000000 -> dec_digits 20 a = fixed_digits 6 a.
Proof.
  intros H. do 5 (rewrite dec_step_big by zdm). rewrite dec_step_small by zdm. reflexivity.
Qed.

Definition year_in_range (y : Z) : Prop := cr_min_year <= y <= cr_max_year.

(* the sign character of a year chrono writes with a sign *)
Definition sign_char (y : Z) : Z := if y <? 0 then 45 else 43.

Lemma render_year_shape y :
  year_in_range y ->
  (0 <= y <= 9999 /\ render_year y = fixed_digits 4 y)
  \/ (~ (0 <= y <= 9999) /\ exists w, (4 <= w <= 6)%nat /\ Z.abs y < 10 ^ Z.of_nat w
                                      /\ render_year y = sign_char y :: fixed_digits w (Z.abs y)).
Proof.
  unfold year_in_range, cr_min_year, cr_max_year. intros Hy. unfold render_year.
  destruct ((0 <=? y) && (y <=? 9999)) eqn:E.
  - left. apply andb_true_iff in E. destruct E as [E1 E2]. apply Z.leb_le in E1, E2. auto.
  - right. split.
    { intros [H1 H2]. apply Z.leb_le in H1, H2. rewrite H1, H2 in E. discriminate. }
    fold (sign_char y). destruct (Z.abs y <=? 9999) eqn:Ea.
    + apply Z.leb_le in Ea. exists 4%nat. change (10 ^ Z.of_nat 4) with 10000. repeat split; lia.
    + apply Z.leb_gt in Ea. destruct (Z_lt_le_dec (Z.abs y) 100000) as [H5|H5].
      * exists 5%nat. change (10 ^ Z.of_nat 5) with 100000. repeat split; try lia.
        f_equal. apply dec_digits_5. lia.
      * exists 6%nat. change (10 ^ Z.of_nat 6) with 1000000. repeat split; try lia.
        f_equal. apply dec_digits_6. lia.
Qed.

(* what may follow a signed year: the end of the text or a character that is not a digit *)
Definition nondigit_head (rest : str) : Prop :=
  match rest with [] => True | c :: _ => is_digit c = false end.

Lemma take_digits_stop k rest acc n : nondigit_head rest -> take_digits k rest acc n = (acc, n, rest).
Proof.
  destruct k as [|k], rest as [|c r]; cbn [take_digits nondigit_head]; try reflexivity.
  intros ->. reflexivity.
Qed.

(* a run of w digits followed by a non-digit is read whole whatever the maximal width >= w *)
Lemma scan_fixed_more w k v rest : (0 < w)%nat -> 0 <= v < 10 ^ Z.of_nat w -> v <= i64_max ->
  nondigit_head rest ->
  scan_number (fixed_digits w v ++ rest) (w + k) = Some (v, rest).
Proof.
  intros Hw Hv Hm Hr. unfold scan_number.
  pose proof (take_digits_app (fixed_digits w v) k rest 0 0 (fixed_digits_dg w v)) as H.
  rewrite fixed_digits_length in H. rewrite H. clear H.
  rewrite take_digits_stop by exact Hr.
  rewrite fixed_digits_val by lia. rewrite Z.mod_small by lia. cbn [Z.mul Z.add plus].
  replace (w =? 0)%nat with false by (symmetry; apply Nat.eqb_neq; lia).
  replace (in_i64 v) with true; [reflexivity|].
  symmetry. unfold in_i64, i64_min. apply andb_true_iff. split; apply Z.leb_le; lia.
Qed.

(* %Y on a rendered year, any year chrono represents *)
Lemma pi_Y_gen y rest mo d h mi s ns :
  year_in_range y /\ (0 <= y <= 9999 \/ nondigit_head rest) ->
  parse_item IY (render_year y ++ rest) (mk_parsed None mo d h mi s ns)
  = Some (rest, mk_parsed (Some y) mo d h mi s ns).
Proof.
  intros [Hr Hc].
  destruct (render_year_shape y Hr) as [[H4 _]|[Hn4 (w & Hw & Ha & E)]]; [apply pi_Y; exact H4|].
  destruct Hc as [Hc|Hc]; [contradiction|].
  unfold year_in_range, cr_min_year, cr_max_year in Hr.
  rewrite E. cbn [app parse_item trim_start].
  assert (Hlen : length (fixed_digits w (Z.abs y) ++ rest) = (w + length rest)%nat)
    by (rewrite app_length, fixed_digits_length; reflexivity).
  assert (Hscan : scan_number (fixed_digits w (Z.abs y) ++ rest) (length (fixed_digits w (Z.abs y) ++ rest))
                  = Some (Z.abs y, rest)).
  { rewrite Hlen. apply scan_fixed_more; [lia|lia|unfold i64_max; lia|exact Hc]. }
  unfold sign_char. destruct (y <? 0) eqn:Es.
  - apply Z.ltb_lt in Es. change (is_ws 45) with false. cbv iota. change (45 =? 45) with true. cbv iota.
    rewrite Hscan. cbn [option_map fst snd p_y p_mo p_d p_h p_mi p_s p_ns].
    rewrite set_field_none by (unfold i32_min, i32_max; lia).
    replace (0 - Z.abs y) with y by lia. reflexivity.
  - apply Z.ltb_ge in Es. change (is_ws 43) with false. cbv iota.
    change (43 =? 45) with false. change (43 =? 43) with true. cbv iota.
    rewrite Hscan. cbn [p_y p_mo p_d p_h p_mi p_s p_ns].
    rewrite set_field_none by (unfold i32_min, i32_max; lia).
    replace (Z.abs y) with y by lia. reflexivity.
Qed.

(* formats whose %Y is directly followed by digits: only a 4-digit year can be read back *)
Definition y4 (k : nat) : bool := match k with 3%nat | 4%nat | 7%nat | 8%nat => true | _ => false end.

Definition fields_ok2 (f : dtf) : Prop :=
  year_in_range (f_y f) /\ 1 <= f_mo f <= 12 /\ 1 <= f_d f <= 31 /\ 0 <= f_h f <= 23 /\
  0 <= f_mi f <= 59 /\ 0 <= f_s f <= 59 /\ 0 <= f_ns f <= 999999999.

Lemma pi_sp0 w v rest p : (0 < w)%nat ->
  parse_item ISp (fixed_digits w v ++ rest) p = Some (fixed_digits w v ++ rest, p).
Proof. intros Hw. cbn [parse_item]. rewrite trim_fixed by exact Hw. reflexivity. Qed.

Local Ltac year_side Hy4 :=
  split; [assumption | first [ left; exact Hy4 | right; exact I | right; reflexivity ]].

Local Ltac run_items Hy4 :=
  repeat (cbn [parse_items];
          first [ rewrite pi_lit | rewrite pi_sp by lia | rewrite pi_sp0 by lia
                | rewrite pi_Y_gen by (year_side Hy4) | rewrite pi_mon by lia
                | rewrite pi_day by lia | rewrite pi_H by lia | rewrite pi_M by lia
                | rewrite pi_S by lia | rewrite pi_f by lia ]).

Lemma parse_items_listed2 k f : (k < 11)%nat -> fields_ok2 f -> (y4 k = true -> 0 <= f_y f <= 9999) ->
  parse_items (fmt_k k) (render (fmt_k k) f) parsed0
  = Some (mk_parsed (Some (f_y f)) (Some (f_mo f)) (Some (f_d f))
                    (if date_only k then None else Some (f_h f))
                    (if date_only k then None else Some (f_mi f))
                    (if date_only k then None else Some (f_s f))
                    (if has_frac k then Some (f_ns f) else None)).
Proof.
  intros Hk (Hy & Hmo & Hd & Hh & Hmi & Hs & Hns) Hy4.
  do 11 (destruct k as [|k]; [
    cbn [y4] in Hy4;
    try (pose proof (Hy4 eq_refl) as Hy4');
    unfold fmt_k, rules, fmt_default, render, parsed0, dash, colon, slash, dot;
    cbn [nth flat_map render_item app date_only has_frac];
    repeat (rewrite <- app_assoc; cbn [app]);
    first [ run_items Hy4' | run_items I ];
    reflexivity |]).
  lia.
Qed.

(* the same-meaning pairs: rule 4 on a text of format 7 and rule 6 on a text of format 8 — the rule's
   space matches the empty string in front of the hour digits *)
Lemma parse_items_same_4_7 f : fields_ok2 f -> 0 <= f_y f <= 9999 ->
  parse_items (fmt_k 4) (render (fmt_k 7) f) parsed0 = parse_items (fmt_k 7) (render (fmt_k 7) f) parsed0.
Proof.
  intros Hok Hy4. rewrite (parse_items_listed2 7 f ltac:(lia) Hok (fun _ => Hy4)).
  destruct Hok as (Hy & Hmo & Hd & Hh & Hmi & Hs & Hns).
  unfold fmt_k, rules, fmt_default, render, parsed0, dash, colon, slash, dot.
  cbn [nth flat_map render_item app date_only has_frac].
  repeat (rewrite <- app_assoc; cbn [app]).
  run_items Hy4. reflexivity.
Qed.

Lemma parse_items_same_6_8 f : fields_ok2 f -> 0 <= f_y f <= 9999 ->
  parse_items (fmt_k 6) (render (fmt_k 8) f) parsed0 = parse_items (fmt_k 8) (render (fmt_k 8) f) parsed0.
Proof.
  intros Hok Hy4. rewrite (parse_items_listed2 8 f ltac:(lia) Hok (fun _ => Hy4)).
  destruct Hok as (Hy & Hmo & Hd & Hh & Hmi & Hs & Hns).
  unfold fmt_k, rules, fmt_default, render, parsed0, dash, colon, slash, dot.
  cbn [nth flat_map render_item app date_only has_frac].
  repeat (rewrite <- app_assoc; cbn [app]).
  run_items Hy4. reflexivity.
Qed.

(* fields of a representable instant *)
Lemma fields_of_instant_ok u x f : unit_code u -> fields_of_instant u x = Some f ->
  fields_ok2 f
  /\ f = (let secs := x / per_sec u in let sod := secs mod 86400 in
          let '(y, m, d) := civil_from_days (secs / 86400) in
          mk_dtf y m d (sod / 3600) (sod / 60 mod 60) (sod mod 60) ((x mod per_sec u) * (giga / per_sec u)))
  /\ valid_date (f_y f) (f_mo f) (f_d f) = true
  /\ days_from_civil (f_y f) (f_mo f) (f_d f) = x / per_sec u / 86400.
Proof.
  intros Hu Hf. unfold fields_of_instant in Hf. cbv zeta in *.
  set (secs := x / per_sec u) in *. set (days := secs / 86400) in *. set (sod := secs mod 86400) in *.
  pose proof (civil_roundtrip days) as HC.
  destruct (civil_from_days days) as [[y m] d]. destruct HC as [Hv Hd].
  destruct ((cr_min_year <=? y) && (y <=? cr_max_year)) eqn:Hyr; [|discriminate].
  injection Hf as <-. cbn [f_y f_mo f_d].
  assert (Hsod : 0 <= sod < 86400) by (subst sod; apply Z.mod_pos_bound; lia).
  destruct (sod_fields sod Hsod) as (Hh & Hmi & Hs & Hsum).
  pose proof (valid_date_bounds y m d Hv) as [Hm Hdd].
  pose proof (nanos_bound u x Hu) as Hns.
  apply andb_true_iff in Hyr. destruct Hyr as [Hy1 Hy2]. apply Z.leb_le in Hy1, Hy2.
  split; [|auto].
  unfold fields_ok2, year_in_range. cbn [f_y f_mo f_d f_h f_mi f_s f_ns]. tauto.
Qed.

(* (b) the explicit-format round trip for every listed format and every year chrono represents *)
Theorem dt_listed_roundtrip_signed u k x f :
  unit_code u -> (k < 11)%nat -> in_i64 x = true -> x <> i64_min ->
  fields_of_instant u x = Some f ->
  (y4 k = true -> 0 <= f_y f <= 9999) ->
  (has_frac k = false -> x mod per_sec u = 0) ->
  (date_only k = true -> x mod (86400 * per_sec u) = 0) ->
  dt_format u (fmt_k k) x = Ok (render (fmt_k k) f) /\
  parse_with u (fmt_k k) (render (fmt_k k) f) = Some x.
Proof.
  intros Hu Hk Hx Hnat Hf Hy Hsec Hday.
  split.
  { unfold dt_format. replace (x =? i64_min) with false by (symmetry; apply Z.eqb_neq; exact Hnat).
    rewrite Hf. reflexivity. }
  destruct (fields_of_instant_ok u x f Hu Hf) as (Hok & Ef & Hv & Hd).
  unfold parse_with. rewrite parse_items_listed2 by assumption.
  unfold to_naive_date, to_naive_time. cbn [p_y p_mo p_d p_h p_mi p_s p_ns].
  assert (Hyr : (cr_min_year <=? f_y f) && (f_y f <=? cr_max_year) = true).
  { destruct Hok as [[H1 H2] _]. apply andb_true_iff. split; apply Z.leb_le; assumption. }
  rewrite Hyr, Hv, Hd. cbn [andb].
  cbv zeta in Ef.
  set (secs := x / per_sec u) in *. set (sod := secs mod 86400) in *.
  assert (Hsod : 0 <= sod < 86400) by (subst sod; apply Z.mod_pos_bound; lia).
  destruct (sod_fields sod Hsod) as (Hh & Hmi & Hs & Hsum).
  assert (Efs : f_h f = sod / 3600 /\ f_mi f = sod / 60 mod 60 /\ f_s f = sod mod 60
                /\ f_ns f = (x mod per_sec u) * (giga / per_sec u)).
  { rewrite Ef. destruct (civil_from_days (secs / 86400)) as [[y0 m0] d0]. cbn. auto. }
  destruct Efs as (E1 & E2 & E3 & E4).
  destruct (date_only k) eqn:Edo.
  - f_equal. subst secs. apply instant_back_day; auto.
  - rewrite E1, E2, E3, E4.
    replace (sod mod 60 =? 60) with false by (symmetry; apply Z.eqb_neq; lia).
    rewrite Hsum. destruct (has_frac k) eqn:Ehf.
    + f_equal. subst sod secs. apply instant_back; assumption.
    + f_equal. subst sod secs. apply instant_back_sec; auto.
Qed.

(* ================================================================== (a) character classes *)

Inductive cls := CD | CW | CMinus | CPlus | CColon | CSlash | CDot | CO.

Definition cls_eqb (a b : cls) : bool :=
  match a, b with
  | CD, CD | CW, CW | CMinus, CMinus | CPlus, CPlus | CColon, CColon | CSlash, CSlash | CDot, CDot | CO, CO => true
  | _, _ => false
  end.

Definition cls_of (c : Z) : cls :=
  if is_digit c then CD else if is_ws c then CW else if c =? 45 then CMinus else if c =? 43 then CPlus
  else if c =? 58 then CColon else if c =? 47 then CSlash else if c =? 46 then CDot else CO.

Fixpoint ctrim (l : list cls) : list cls :=
  match l with CW :: r => ctrim r | _ => l end.

Fixpoint ctake (maxw : nat) (l : list cls) (n : nat) : nat * list cls :=
  match maxw, l with
  | S w, CD :: r => ctake w r (S n)
  | _, _ => (n, l)
  end.

(* scan::number on classes (the i64 range check is dropped: it can only reject more) *)
Definition cscan (l : list cls) (maxw : nat) : option (list cls) :=
  let '(n, r) := ctake maxw l 0%nat in if (n =? 0)%nat then None else Some r.

(* one item on classes: the remainder if the item can match at all (Parsed::set_* checks are dropped) *)
Definition citem (it : item) (l : list cls) : option (list cls) :=
  match it with
  | ILit c => match l with
              | x :: r => if cls_eqb (cls_of c) x then Some r else None
              | [] => None
              end
  | ISp => Some (ctrim l)
  | IY => match ctrim l with
          | CMinus :: r => cscan r (length r)
          | CPlus :: r => cscan r (length r)
          | x :: r => cscan (x :: r) 4
          | [] => None
          end
  | Imon | Iday | IH | IM | IS => cscan (ctrim l) 2
  | If => cscan (ctrim l) 9
  end.

Fixpoint csyn (items : list item) (l : list cls) : bool :=
  match items with
  | [] => match l with [] => true | _ :: _ => false end
  | it :: rest => match citem it l with Some l' => csyn rest l' | None => false end
  end.

Lemma digit_not_ws c : is_digit c = true -> is_ws c = false.
Proof. exact (dg_not_ws c). Qed.

Lemma cls_of_digit c : cls_of c = CD <-> is_digit c = true.
Proof.
  unfold cls_of. destruct (is_digit c); [tauto|].
  split; [|discriminate].
  destruct (is_ws c); [discriminate|]. destruct (c =? 45); [discriminate|]. destruct (c =? 43); [discriminate|].
  destruct (c =? 58); [discriminate|]. destruct (c =? 47); [discriminate|]. destruct (c =? 46); discriminate.
Qed.

Lemma cls_of_ws c : cls_of c = CW <-> is_ws c = true.
Proof.
  unfold cls_of. destruct (is_digit c) eqn:Ed.
  - rewrite (digit_not_ws c Ed). split; discriminate.
  - destruct (is_ws c); [tauto|]. split; [|discriminate].
    destruct (c =? 45); [discriminate|]. destruct (c =? 43); [discriminate|].
    destruct (c =? 58); [discriminate|]. destruct (c =? 47); [discriminate|]. destruct (c =? 46); discriminate.
Qed.

Lemma cls_of_minus c : cls_of c = CMinus -> c = 45.
Proof.
  unfold cls_of. destruct (is_digit c); [discriminate|]. destruct (is_ws c); [discriminate|].
  destruct (Z.eqb_spec c 45); [auto|]. destruct (c =? 43); [discriminate|].
  destruct (c =? 58); [discriminate|]. destruct (c =? 47); [discriminate|]. destruct (c =? 46); discriminate.
Qed.

Lemma cls_of_plus c : cls_of c = CPlus -> c = 43.
Proof.
  unfold cls_of. destruct (is_digit c); [discriminate|]. destruct (is_ws c); [discriminate|].
  destruct (c =? 45); [discriminate|]. destruct (Z.eqb_spec c 43); [auto|].
  destruct (c =? 58); [discriminate|]. destruct (c =? 47); [discriminate|]. destruct (c =? 46); discriminate.
Qed.

Lemma cls_eqb_refl a : cls_eqb a a = true.
Proof. destruct a; reflexivity. Qed.

Lemma map_trim s : map cls_of (trim_start s) = ctrim (map cls_of s).
Proof.
  induction s as [|c r IH]; [reflexivity|]. cbn [trim_start map ctrim].
  destruct (is_ws c) eqn:E.
  - rewrite (proj2 (cls_of_ws c) E). exact IH.
  - cbn [map]. destruct (cls_of c) eqn:Ec; try reflexivity.
    apply cls_of_ws in Ec. congruence.
Qed.

Lemma take_digits_cls : forall maxw s acc n v n' r,
  take_digits maxw s acc n = (v, n', r) -> ctake maxw (map cls_of s) n = (n', map cls_of r).
Proof.
  induction maxw as [|w IH]; intros s acc n v n' r H.
  - cbn [take_digits] in H. injection H as _ <- <-. reflexivity.
  - destruct s as [|c s']; cbn [take_digits] in H.
    + injection H as _ <- <-. reflexivity.
    + cbn [map ctake]. destruct (is_digit c) eqn:E.
      * rewrite (proj2 (cls_of_digit c) E). exact (IH _ _ _ _ _ _ H).
      * injection H as _ <- <-. cbn [map]. destruct (cls_of c) eqn:Ec; try reflexivity.
        apply cls_of_digit in Ec. congruence.
Qed.

Lemma scan_number_cls s w v r :
  scan_number s w = Some (v, r) -> cscan (map cls_of s) w = Some (map cls_of r).
Proof.
  unfold scan_number, cscan. destruct (take_digits w s 0 0) as [[v0 n0] r0] eqn:E.
  rewrite (take_digits_cls _ _ _ _ _ _ _ E).
  destruct (n0 =? 0)%nat; [discriminate|]. destruct (in_i64 v0); [|discriminate].
  intros [= _ <-]. reflexivity.
Qed.

Local Ltac num_cls H :=
  cbn [parse_item citem] in *;
  match type of H with
  | match scan_number ?s ?w with _ => _ end = _ =>
    destruct (scan_number s w) as [[v r]|] eqn:Esc; [|discriminate H];
    match type of H with
    | match ?sf with _ => _ end = _ => destruct sf; [|discriminate H]
    end;
    injection H as <- _;
    rewrite <- map_trim; exact (scan_number_cls _ _ _ _ Esc)
  end.

(* soundness of the abstraction, one item *)
Lemma parse_item_cls it s p s' p' :
  parse_item it s p = Some (s', p') -> citem it (map cls_of s) = Some (map cls_of s').
Proof.
  intros H. destruct it.
  - (* %Y *)
    cbn [parse_item citem] in *. rewrite <- map_trim.
    destruct (trim_start s) as [|c r] eqn:Et; [discriminate|]. cbn [map].
    destruct (Z.eqb_spec c 45) as [->|N45].
    + change (cls_of 45) with CMinus. cbv iota.
      destruct (scan_number r (length r)) as [[v r1]|] eqn:Esc; [|discriminate].
      cbn [option_map fst snd] in H.
      destruct (set_field _ _ _ _); [|discriminate]. injection H as <- _.
      rewrite map_length. exact (scan_number_cls _ _ _ _ Esc).
    + destruct (Z.eqb_spec c 43) as [->|N43].
      * change (cls_of 43) with CPlus. cbv iota.
        destruct (scan_number r (length r)) as [[v r1]|] eqn:Esc; [|discriminate].
        destruct (set_field _ _ _ _); [|discriminate]. injection H as <- _.
        rewrite map_length. exact (scan_number_cls _ _ _ _ Esc).
      * destruct (scan_number (c :: r) 4) as [[v r1]|] eqn:Esc; [|discriminate].
        destruct (set_field _ _ _ _); [|discriminate]. injection H as <- _.
        apply scan_number_cls in Esc. cbn [map] in Esc.
        destruct (cls_of c) eqn:Ec; try exact Esc.
        -- apply cls_of_minus in Ec. contradiction.
        -- apply cls_of_plus in Ec. contradiction.
  - num_cls H.
  - num_cls H.
  - num_cls H.
  - num_cls H.
  - num_cls H.
  - num_cls H.
  - (* literal *)
    cbn [parse_item citem] in *. destruct s as [|x r]; [discriminate|]. cbn [map].
    destruct (Z.eqb_spec x c) as [->|]; [|discriminate]. injection H as <- _.
    rewrite cls_eqb_refl. reflexivity.
  - (* space *)
    cbn [parse_item citem] in *. injection H as <- _. rewrite map_trim. reflexivity.
Qed.

(* soundness: a text some rule accepts is accepted syntactically on classes *)
Lemma parse_items_csyn : forall items s p p',
  parse_items items s p = Some p' -> csyn items (map cls_of s) = true.
Proof.
  induction items as [|it rest IH]; intros s p p' H.
  - destruct s; [reflexivity|discriminate].
  - cbn [parse_items] in H. destruct (parse_item it s p) as [[s1 p1]|] eqn:E; [|discriminate].
    cbn [csyn]. rewrite (parse_item_cls _ _ _ _ _ E). exact (IH _ _ _ H).
Qed.

Corollary csyn_false_rejects items s p :
  csyn items (map cls_of s) = false -> parse_items items s p = None.
Proof.
  intros H. destruct (parse_items items s p) eqn:E; [|reflexivity].
  rewrite (parse_items_csyn _ _ _ _ E) in H. discriminate.
Qed.

(* ------------------------------------------------------------------ the class string of a rendered text *)
Definition item_shape (ys : list cls) (it : item) : list cls :=
  match it with
  | IY => ys
  | Imon | Iday | IH | IM | IS => [CD; CD]
  | If => repeat CD 9
  | ILit c => [cls_of c]
  | ISp => [CW]
  end.
Definition shape (ys : list cls) (items : list item) : list cls := flat_map (item_shape ys) items.

Lemma map_digits l : Forall dg l -> map cls_of l = repeat CD (length l).
Proof.
  induction 1 as [|c l Hc _ IH]; [reflexivity|].
  cbn [map repeat length]. rewrite (proj2 (cls_of_digit c) Hc), IH. reflexivity.
Qed.

Lemma map_fixed_digits w v : map cls_of (fixed_digits w v) = repeat CD w.
Proof. rewrite (map_digits _ (fixed_digits_dg w v)), fixed_digits_length. reflexivity. Qed.

Lemma map_render items f :
  map cls_of (render items f) = shape (map cls_of (render_year (f_y f))) items.
Proof.
  unfold render, shape. induction items as [|it rest IH]; [reflexivity|].
  cbn [flat_map]. rewrite map_app, IH. f_equal.
  destruct it; cbn [render_item item_shape map]; try apply map_fixed_digits; reflexivity.
Qed.

Definition year_shapes : list (list cls) :=
  [ repeat CD 4;
    CMinus :: repeat CD 4; CMinus :: repeat CD 5; CMinus :: repeat CD 6;
    CPlus :: repeat CD 4; CPlus :: repeat CD 5; CPlus :: repeat CD 6 ].

Lemma year_shape_in y : year_in_range y ->
  In (map cls_of (render_year y)) year_shapes /\
  (0 <= y <= 9999 -> map cls_of (render_year y) = repeat CD 4).
Proof.
  intros Hy. destruct (render_year_shape y Hy) as [[H4 E]|[Hn4 (w & Hw & _ & E)]].
  - rewrite E, map_fixed_digits. split; [left; reflexivity|reflexivity].
  - split; [|intros H; contradiction].
    rewrite E. cbn [map]. rewrite map_fixed_digits. unfold sign_char, year_shapes.
    assert (Hc : w = 4%nat \/ w = 5%nat \/ w = 6%nat) by lia.
    destruct (y <? 0); [change (cls_of 45) with CMinus | change (cls_of 43) with CPlus];
      destruct Hc as [->|[-> | ->]]; cbn [In]; tauto.
Qed.

(* ------------------------------------------------------------------ the finite check *)
Definition same_pair (j k : nat) : bool :=
  ((j =? 4)%nat && (k =? 7)%nat) || ((j =? 6)%nat && (k =? 8)%nat).

Definition shapes_for (k : nat) : list (list cls) := if y4 k then [repeat CD 4] else year_shapes.

Definition check_pair (j k : nat) : bool :=
  same_pair j k || forallb (fun ys => negb (csyn (fmt_k j) (shape ys (fmt_k k)))) (shapes_for k).

(* 55 rule pairs j < k < 11, each against every year shape format k can produce *)
Lemma all_pairs_checked :
  forallb (fun k => forallb (fun j => check_pair j k) (seq 0 k)) (seq 0 11) = true.
Proof. vm_compute. reflexivity. Qed.

(* sanity of the abstraction: every format accepts the shape of its own text, and the two excluded pairs
   are exactly the pairs the syntactic check cannot reject *)
Lemma own_shape_accepted :
  forallb (fun k => forallb (fun ys => csyn (fmt_k k) (shape ys (fmt_k k))) (shapes_for k)) (seq 0 11) = true.
Proof. vm_compute. reflexivity. Qed.

Lemma same_pairs_accepted :
  csyn (fmt_k 4) (shape (repeat CD 4) (fmt_k 7)) = true /\ csyn (fmt_k 6) (shape (repeat CD 4) (fmt_k 8)) = true.
Proof. vm_compute. auto. Qed.

Lemma earlier_rule_rejects j k f p :
  (j < k)%nat -> (k < 11)%nat -> same_pair j k = false ->
  year_in_range (f_y f) -> (y4 k = true -> 0 <= f_y f <= 9999) ->
  parse_items (fmt_k j) (render (fmt_k k) f) p = None.
Proof.
  intros Hj Hk Hs Hy Hy4. apply csyn_false_rejects. rewrite map_render.
  pose proof all_pairs_checked as H. rewrite forallb_forall in H.
  specialize (H k ltac:(apply in_seq; lia)). rewrite forallb_forall in H.
  specialize (H j ltac:(apply in_seq; lia)). unfold check_pair in H. rewrite Hs in H. cbn [orb] in H.
  rewrite forallb_forall in H.
  destruct (year_shape_in (f_y f) Hy) as [Hin H4].
  assert (Hin' : In (map cls_of (render_year (f_y f))) (shapes_for k)).
  { unfold shapes_for. destruct (y4 k); [|exact Hin]. left. symmetry. apply H4. apply Hy4. reflexivity. }
  specialize (H _ Hin'). apply negb_true_iff in H. exact H.
Qed.

(* ------------------------------------------------------------------ through the rule list *)
Lemma parse_rules_first u s x : forall rs k,
  (k < length rs)%nat ->
  (forall j, (j < k)%nat -> parse_with u (nth j rs fmt_default) s = None
                            \/ parse_with u (nth j rs fmt_default) s = Some x) ->
  parse_with u (nth k rs fmt_default) s = Some x ->
  parse_rules u rs s = Some x.
Proof.
  induction rs as [|r rs IH]; intros k Hk Hj Hx; [cbn in Hk; lia|].
  cbn [parse_rules]. destruct k as [|k].
  - cbn [nth] in Hx. rewrite Hx. reflexivity.
  - destruct (Hj 0%nat ltac:(lia)) as [H0|H0]; cbn [nth] in H0; rewrite H0; [|reflexivity].
    apply (IH k); [cbn [length] in Hk; lia| |exact Hx].
    intros j Hjk. exact (Hj (S j) ltac:(lia)).
Qed.

(* every earlier rule rejects the text or reads the same instant *)
Theorem earlier_rule_unambiguous u j k x f :
  unit_code u -> (j < k)%nat -> (k < 11)%nat ->
  fields_of_instant u x = Some f -> (y4 k = true -> 0 <= f_y f <= 9999) ->
  parse_with u (fmt_k k) (render (fmt_k k) f) = Some x ->
  parse_with u (fmt_k j) (render (fmt_k k) f) = None
  \/ parse_with u (fmt_k j) (render (fmt_k k) f) = Some x.
Proof.
  intros Hu Hj Hk Hf Hy4 Hx.
  destruct (fields_of_instant_ok u x f Hu Hf) as (Hok & _).
  destruct (same_pair j k) eqn:Es.
  - right. unfold same_pair in Es. apply orb_true_iff in Es.
    destruct Es as [Es|Es]; apply andb_true_iff in Es; destruct Es as [E1 E2];
      apply Nat.eqb_eq in E1, E2; subst j k.
    + rewrite <- Hx. unfold parse_with. rewrite parse_items_same_4_7; [reflexivity|exact Hok|auto].
    + rewrite <- Hx. unfold parse_with. rewrite parse_items_same_6_8; [reflexivity|exact Hok|auto].
  - left. unfold parse_with.
    rewrite (earlier_rule_rejects j k f parsed0 Hj Hk Es (proj1 Hok) Hy4). reflexivity.
Qed.

(* the full statement of Props/C18.v *)
Theorem dt_full_roundtrip u k x f :
  unit_code u -> (k < 11)%nat -> in_i64 x = true -> x <> i64_min ->
  fields_of_instant u x = Some f ->
  (has_frac k = false -> x mod per_sec u = 0) ->
  (date_only k = true -> x mod (86400 * per_sec u) = 0) ->
  (In k [3; 4; 7; 8]%nat -> 0 <= f_y f <= 9999) ->
  dt_format u (fmt_k k) x = Ok (render (fmt_k k) f) /\
  parse_with u (fmt_k k) (render (fmt_k k) f) = Some x /\
  dt_parse u (render (fmt_k k) f) = Some x.
Proof.
  intros Hu Hk Hx Hnat Hf Hsec Hday Hy.
  assert (Hy4 : y4 k = true -> 0 <= f_y f <= 9999).
  { intros E. apply Hy. do 11 (destruct k as [|k]; [cbn in E |- *; try discriminate; tauto|]). lia. }
  destruct (dt_listed_roundtrip_signed u k x f Hu Hk Hx Hnat Hf Hy4 Hsec Hday) as [Hfmt Hpw].
  split; [exact Hfmt|]. split; [exact Hpw|].
  unfold dt_parse. apply (parse_rules_first u _ x rules k).
  - exact Hk.
  - intros j Hj. apply (earlier_rule_unambiguous u j k x f); assumption.
  - exact Hpw.
Qed.

(* the chrono-representable years at the coarse units really leave 0000..9999: the signed branch is inhabited *)
Lemma signed_year_example :
  fields_of_instant 0 (-62198755200) = Some (mk_dtf (-1) 1 1 0 0 0 0) /\
  render (fmt_k 2) (mk_dtf (-1) 1 1 0 0 0 0) = [45;48;48;48;49;45;48;49;45;48;49] /\
  dt_parse 0 [45;48;48;48;49;45;48;49;45;48;49] = Some (-62198755200) /\
  fields_of_instant 1 253402300800000 = Some (mk_dtf 10000 1 1 0 0 0 0) /\
  render (fmt_k 9) (mk_dtf 10000 1 1 0 0 0 0) = [43;49;48;48;48;48;47;48;49;47;48;49] /\
  dt_parse 1 [43;49;48;48;48;48;47;48;49;47;48;49] = Some 253402300800000.
Proof. vm_compute. repeat split. Qed.

Print Assumptions dt_full_roundtrip.
