(* Proofs/Binning.v — lemmas behind Props/C14.v.  Everything at Z, axiom-free. *)
From Coq Require Import ZArith List Lia Bool ZifyBool.
From Tevec Require Import Base.Prelude Model.Binning Spec.Binning.
Import ListNotations.
Local Open Scope Z_scope.

(* the model at Z *)
Definition cut1Z {L} (tmin tmax : Z) := @cut1 Z L Z.ltb Z.leb tmin tmax.
Definition vcutZ {L} (tmin tmax : Z) := @vcut Z L Z.ltb Z.leb tmin tmax.
Definition scanZ {L} := @scan Z L Z.ltb Z.leb.
Definition testZ := @bin_test Z Z.ltb Z.leb.

(* ------------------------------------------------------------------ *)
(* order on ext *)

Lemma xlt_irrefl x : ~ xlt x x.
Proof. destruct x; cbn; lia. Qed.
Lemma xlt_trans a b c : xlt a b -> xlt b c -> xlt a c.
Proof. destruct a, b, c; cbn; try tauto; lia. Qed.
Lemma xle_lt_trans a b c : xle a b -> xlt b c -> xlt a c.
Proof. destruct a, b, c; cbn; try tauto; lia. Qed.
Lemma xlt_le_trans a b c : xlt a b -> xle b c -> xlt a c.
Proof. destruct a, b, c; cbn; try tauto; lia. Qed.
Lemma xlt_xle a b : xlt a b -> xle a b.
Proof. destruct a, b; cbn; try tauto; lia. Qed.
Lemma xle_refl a : xle a a.
Proof. destruct a; cbn; try tauto; lia. Qed.
Lemma xle_or_xlt a b : xle a b \/ xlt b a.
Proof. destruct a, b; cbn; try tauto; lia. Qed.
Lemma xlt_or_xle a b : xlt a b \/ xle b a.
Proof. destruct a, b; cbn; try tauto; lia. Qed.

(* ------------------------------------------------------------------ *)
(* tuple_windows, positions *)

Lemma nth_error_windows {A} (l : list A) i :
  nth_error (windows l) i =
  match nth_error l i, nth_error l (S i) with Some a, Some b => Some (a, b) | _, _ => None end.
Proof.
  revert i; induction l as [|a l IH]; intros i.
  - destruct i; reflexivity.
  - destruct l as [|b r].
    + destruct i as [|[|i]]; reflexivity.
    + change (windows (a :: b :: r)) with ((a, b) :: windows (b :: r)).
      destruct i as [|i]; [reflexivity|].
      cbn [nth_error]. rewrite IH. reflexivity.
Qed.

Lemma windows_length {A} (l : list A) : length (windows l) = (length l - 1)%nat.
Proof.
  induction l as [|a l IH]; [reflexivity|].
  destruct l as [|b r]; [reflexivity|].
  change (windows (a :: b :: r)) with ((a, b) :: windows (b :: r)).
  cbn [length] in *. lia.
Qed.

(* positions of the two edge sequences (materialised / extended) *)
Lemma mat_bins_nth tmin tmax (ab : bool) (edges : list Z) k :
  nth_error (mat_bins tmin tmax ab edges) k =
  if ab then
    if (k =? 0)%nat then Some tmin
    else if (k <=? length edges)%nat then nth_error edges (k - 1)
    else if (k =? S (length edges))%nat then Some tmax else None
  else nth_error edges k.
Proof.
  unfold mat_bins. destruct ab; [|reflexivity].
  destruct k as [|k]; [reflexivity|].
  cbn [nth_error Nat.eqb]. rewrite Nat.sub_succ, Nat.sub_0_r.
  rewrite Prelude.nth_error_app.
  destruct (k <? length edges)%nat eqn:E.
  - apply Nat.ltb_lt in E. replace (S k <=? length edges)%nat with true by (symmetry; apply Nat.leb_le; lia).
    reflexivity.
  - apply Nat.ltb_ge in E. replace (S k <=? length edges)%nat with false by (symmetry; apply Nat.leb_gt; lia).
    destruct (k =? length edges)%nat eqn:E2.
    + apply Nat.eqb_eq in E2. replace (k - length edges)%nat with 0%nat by lia. reflexivity.
    + apply Nat.eqb_neq in E2. destruct (k - length edges)%nat as [|d] eqn:Ed; [lia|].
      cbn. destruct d; reflexivity.
Qed.

Lemma ext_edges_nth (ab : bool) (edges : list Z) k :
  nth_error (ext_edges ab edges) k =
  if ab then
    if (k =? 0)%nat then Some NegInf
    else if (k <=? length edges)%nat then option_map Fin (nth_error edges (k - 1))
    else if (k =? S (length edges))%nat then Some PosInf else None
  else option_map Fin (nth_error edges k).
Proof.
  unfold ext_edges. destruct ab; [|apply nth_error_map].
  destruct k as [|k]; [reflexivity|].
  cbn [nth_error Nat.eqb]. rewrite Nat.sub_succ, Nat.sub_0_r.
  rewrite Prelude.nth_error_app, map_length.
  destruct (k <? length edges)%nat eqn:E.
  - apply Nat.ltb_lt in E. replace (S k <=? length edges)%nat with true by (symmetry; apply Nat.leb_le; lia).
    apply nth_error_map.
  - apply Nat.ltb_ge in E. replace (S k <=? length edges)%nat with false by (symmetry; apply Nat.leb_gt; lia).
    destruct (k =? length edges)%nat eqn:E2.
    + apply Nat.eqb_eq in E2. replace (k - length edges)%nat with 0%nat by lia. reflexivity.
    + apply Nat.eqb_neq in E2. destruct (k - length edges)%nat as [|d] eqn:Ed; [lia|].
      cbn. destruct d; reflexivity.
Qed.

Lemma ext_edges_length ab edges :
  length (ext_edges ab edges) = if ab then (length edges + 2)%nat else length edges.
Proof.
  unfold ext_edges. destruct ab; [|apply map_length].
  cbn [length]. rewrite app_length, map_length. cbn. lia.
Qed.

Lemma mat_bins_length tmin tmax ab (edges : list Z) :
  length (mat_bins tmin tmax ab edges) = if ab then (length edges + 2)%nat else length edges.
Proof.
  unfold mat_bins. destruct ab; [|reflexivity].
  cbn [length]. rewrite app_length. cbn. lia.
Qed.

(* ------------------------------------------------------------------ *)
(* the scan: first match *)

Lemma scan_some {L} right ab nlab v (ws : list ((Z * Z) * L)) : forall i lab,
  scanZ right ab nlab v i ws = Some lab ->
  exists k w, nth_error ws k = Some (w, lab) /\ testZ right ab nlab (i + k) w v = true
              /\ forall k' w' lab', (k' < k)%nat -> nth_error ws k' = Some (w', lab') ->
                                    testZ right ab nlab (i + k') w' v = false.
Proof.
  induction ws as [|[w l0] r IH]; intros i lab H; [discriminate|].
  cbn [scanZ scan] in H. fold (@scanZ L) in H.
  destruct (bin_test Z.ltb Z.leb right ab nlab i w v) eqn:E.
  - injection H as <-. exists 0%nat, w. rewrite Nat.add_0_r. repeat split; [exact E|].
    intros k' w' lab' Hk. lia.
  - destruct (IH _ _ H) as (k & w1 & Hn & Ht & Hmin).
    exists (S k), w1. replace (i + S k)%nat with (S i + k)%nat by lia. repeat split; [exact Hn|exact Ht|].
    intros [|k'] w' lab' Hk Hn'.
    + cbn in Hn'. injection Hn' as <- <-. rewrite Nat.add_0_r. exact E.
    + replace (i + S k')%nat with (S i + k')%nat by lia. apply (Hmin k' w' lab'); [lia|exact Hn'].
Qed.

Lemma scan_none {L} right ab nlab v (ws : list ((Z * Z) * L)) : forall i,
  scanZ right ab nlab v i ws = None ->
  forall k w lab, nth_error ws k = Some (w, lab) -> testZ right ab nlab (i + k) w v = false.
Proof.
  induction ws as [|[w l0] r IH]; intros i H k w1 lab Hn; [destruct k; discriminate|].
  cbn [scanZ scan] in H. fold (@scanZ L) in H.
  destruct (bin_test Z.ltb Z.leb right ab nlab i w v) eqn:E; [discriminate|].
  destruct k as [|k].
  - cbn in Hn. injection Hn as <- <-. rewrite Nat.add_0_r. exact E.
  - replace (i + S k)%nat with (S i + k)%nat by lia. apply (IH _ H k w1 lab). exact Hn.
Qed.

(* ------------------------------------------------------------------ *)
(* the test at position k = membership in interval k of the extended edges *)

Lemma count_ok_true {L} ab (edges : list Z) (labels : list L) :
  count_ok ab edges labels = true ->
  if ab then length labels = (length edges + 1)%nat else (length labels + 1)%nat = length edges.
Proof. unfold count_ok. destruct ab; intros H; apply Nat.eqb_eq in H; exact H. Qed.

Lemma ws_nth {L} tmin tmax ab (edges : list Z) (labels : list L) k w lab :
  nth_error (combine (windows (mat_bins tmin tmax ab edges)) labels) k = Some (w, lab) ->
  nth_error (mat_bins tmin tmax ab edges) k = Some (fst w)
  /\ nth_error (mat_bins tmin tmax ab edges) (S k) = Some (snd w)
  /\ nth_error labels k = Some lab.
Proof.
  rewrite nth_error_combine, nth_error_windows.
  destruct (nth_error (mat_bins tmin tmax ab edges) k) as [lo|]; [|discriminate].
  destruct (nth_error (mat_bins tmin tmax ab edges) (S k)) as [hi|]; [|discriminate].
  destruct (nth_error labels k) as [l|]; [|discriminate].
  intros H. injection H as <- <-. auto.
Qed.

Lemma ws_nth_inv {L} tmin tmax ab (edges : list Z) (labels : list L) k lo hi lab :
  nth_error (mat_bins tmin tmax ab edges) k = Some lo ->
  nth_error (mat_bins tmin tmax ab edges) (S k) = Some hi ->
  nth_error labels k = Some lab ->
  nth_error (combine (windows (mat_bins tmin tmax ab edges)) labels) k = Some ((lo, hi), lab).
Proof.
  intros H1 H2 H3. rewrite nth_error_combine, nth_error_windows, H1, H2, H3. reflexivity.
Qed.

(* the key bridge: under a matching label count, for every position k of the zipped windows *)
Lemma test_contains {L} tmin tmax right ab (edges : list Z) (labels : list L) k lo hi v :
  count_ok ab edges labels = true ->
  (k < length labels)%nat ->
  nth_error (mat_bins tmin tmax ab edges) k = Some lo ->
  nth_error (mat_bins tmin tmax ab edges) (S k) = Some hi ->
  (testZ right ab (length labels) k (lo, hi) v = true <-> contains right ab edges k v).
Proof.
  intros Hc Hk Hlo Hhi. apply count_ok_true in Hc.
  unfold contains. rewrite !ext_edges_nth. rewrite mat_bins_nth in Hlo, Hhi.
  unfold testZ, bin_test. cbn [fst snd].
  destruct ab.
  - (* open outer bounds: k <= length edges *)
    rewrite Hc in *.
    replace (length edges + 1)%nat with (S (length edges)) in * by lia.
    change (S k =? S (length edges))%nat with (k =? length edges)%nat in *.
    change (S k =? 0)%nat with false in *.
    rewrite Nat.sub_succ, Nat.sub_0_r in *.
    replace (k <=? length edges)%nat with true in * by (symmetry; apply Nat.leb_le; lia).
    destruct (Nat.eqb_spec k 0) as [K0|K0]; destruct (Nat.leb_spec (S k) (length edges)) as [K1|K1];
      [ replace (k =? length edges)%nat with false in * by (symmetry; apply Nat.eqb_neq; lia)
      | replace (k =? length edges)%nat with true in * by (symmetry; apply Nat.eqb_eq; lia)
      | replace (k =? length edges)%nat with false in * by (symmetry; apply Nat.eqb_neq; lia)
      | replace (k =? length edges)%nat with true in * by (symmetry; apply Nat.eqb_eq; lia) ];
      cbn [andb orb]; try rewrite Hlo; try rewrite Hhi; cbn [option_map];
      (split;
       [ intros H; do 2 eexists; split; [reflexivity|split; [reflexivity|]];
         unfold in_bin; destruct right; cbn; lia
       | intros (lo' & hi' & E1 & E2 & Hin); injection E1 as <-; injection E2 as <-;
         unfold in_bin in Hin; destruct right; cbn in Hin; lia ]).
  - (* explicit edges only *)
    cbn [andb orb]. rewrite Hlo, Hhi. cbn [option_map]. split.
    + intros H. exists (Fin lo), (Fin hi). repeat split. unfold in_bin.
      destruct right; cbn; lia.
    + intros (lo' & hi' & E1 & E2 & Hin). injection E1 as <-. injection E2 as <-.
      unfold in_bin in Hin. destruct right; cbn in Hin; lia.
Qed.

(* interval j exists (both edges) -> j is a position of the zipped windows *)
Lemma contains_in_range {L} right ab (edges : list Z) (labels : list L) j v :
  count_ok ab edges labels = true -> contains right ab edges j v -> (j < length labels)%nat.
Proof.
  intros Hc (lo & hi & _ & H2 & _). apply count_ok_true in Hc.
  assert (Hl : (S j < length (ext_edges ab edges))%nat) by (apply nth_error_Some; congruence).
  rewrite ext_edges_length in Hl. destruct ab; lia.
Qed.

Lemma in_range_ws {L} tmin tmax ab (edges : list Z) (labels : list L) j :
  count_ok ab edges labels = true -> (j < length labels)%nat ->
  exists lo hi lab, nth_error (mat_bins tmin tmax ab edges) j = Some lo
                 /\ nth_error (mat_bins tmin tmax ab edges) (S j) = Some hi
                 /\ nth_error labels j = Some lab.
Proof.
  intros Hc Hj. apply count_ok_true in Hc.
  assert (H1 : (j < length (mat_bins tmin tmax ab edges))%nat) by (rewrite mat_bins_length; destruct ab; lia).
  assert (H2 : (S j < length (mat_bins tmin tmax ab edges))%nat) by (rewrite mat_bins_length; destruct ab; lia).
  apply nth_error_Some in H1, H2, Hj.
  destruct (nth_error (mat_bins tmin tmax ab edges) j) as [lo|]; [|congruence].
  destruct (nth_error (mat_bins tmin tmax ab edges) (S j)) as [hi|]; [|congruence].
  destruct (nth_error labels j) as [lab|]; [|congruence].
  exists lo, hi, lab. auto.
Qed.

(* ------------------------------------------------------------------ *)
(* ascending edges: the extended edge sequence is strictly increasing position-wise *)

Lemma ascending_head_lt a l : ascending (a :: l) -> forall b, In b l -> a < b.
Proof.
  revert a; induction l as [|c l IH]; intros a H b Hb; [destruct Hb|].
  cbn in H. destruct H as [Hac Hl]. destruct Hb as [<-|Hb]; [exact Hac|].
  specialize (IH c Hl b Hb). lia.
Qed.

Lemma ascending_tail a l : ascending (a :: l) -> ascending l.
Proof. destruct l as [|b r]; [intros; exact I|]. intros [_ H]. exact H. Qed.

Lemma ascending_nth l : ascending l -> forall i j a b, (i < j)%nat ->
  nth_error l i = Some a -> nth_error l j = Some b -> a < b.
Proof.
  induction l as [|c l IH]; intros H i j a b Hij Hi Hj; [destruct i; discriminate|].
  destruct j as [|j]; [lia|]. cbn in Hj.
  destruct i as [|i].
  - cbn in Hi. injection Hi as <-. eapply ascending_head_lt; [exact H|]. eapply nth_error_In; eassumption.
  - cbn in Hi. apply (IH (ascending_tail _ _ H) i j); [lia|assumption|assumption].
Qed.

Lemma ext_edges_ascending ab edges : ascending edges -> forall i j x y, (i < j)%nat ->
  nth_error (ext_edges ab edges) i = Some x -> nth_error (ext_edges ab edges) j = Some y -> xlt x y.
Proof.
  intros Ha i j x y Hij. rewrite !ext_edges_nth. destruct ab.
  - destruct (i =? 0)%nat eqn:I0.
    + intros Hx. injection Hx as <-.
      replace (j =? 0)%nat with false by (symmetry; apply Nat.eqb_neq; lia).
      destruct (j <=? length edges)%nat.
      * destruct (nth_error edges (j - 1)); [|discriminate]. intros Hy. injection Hy as <-. exact I.
      * destruct (j =? S (length edges))%nat; [|discriminate]. intros Hy. injection Hy as <-. exact I.
    + apply Nat.eqb_neq in I0.
      replace (j =? 0)%nat with false by (symmetry; apply Nat.eqb_neq; lia).
      destruct (i <=? length edges)%nat eqn:I1.
      * destruct (nth_error edges (i - 1)) as [a|] eqn:Ea; [|discriminate]. intros Hx. injection Hx as <-.
        destruct (j <=? length edges)%nat.
        -- destruct (nth_error edges (j - 1)) as [b|] eqn:Eb; [|discriminate]. intros Hy. injection Hy as <-.
           cbn. apply (ascending_nth _ Ha (i - 1)%nat (j - 1)%nat); [lia|assumption|assumption].
        -- destruct (j =? S (length edges))%nat; [|discriminate]. intros Hy. injection Hy as <-. exact I.
      * apply Nat.leb_gt in I1.
        destruct (i =? S (length edges))%nat eqn:I2; [|discriminate]. apply Nat.eqb_eq in I2.
        intros _.
        replace (j <=? length edges)%nat with false by (symmetry; apply Nat.leb_gt; lia).
        replace (j =? S (length edges))%nat with false by (symmetry; apply Nat.eqb_neq; lia).
        discriminate.
  - destruct (nth_error edges i) as [a|] eqn:Ea; [|discriminate]. intros Hx. injection Hx as <-.
    destruct (nth_error edges j) as [b|] eqn:Eb; [|discriminate]. intros Hy. injection Hy as <-.
    cbn. apply (ascending_nth _ Ha i j); assumption.
Qed.

(* uniqueness of the enclosing interval *)
Lemma contains_lt_absurd right ab edges j j' v :
  ascending edges -> (j < j')%nat -> contains right ab edges j v -> contains right ab edges j' v -> False.
Proof.
  intros Ha Hjj (lo & hi & _ & Hhi & Hin) (lo' & hi' & Hlo' & _ & Hin').
  assert (Hle : xle hi lo').
  { destruct (Nat.eq_dec (S j) j') as [E|E].
    - subst j'. rewrite Hhi in Hlo'. injection Hlo' as <-. apply xle_refl.
    - apply xlt_xle. apply (ext_edges_ascending ab edges Ha (S j) j'); [lia|assumption|assumption]. }
  unfold in_bin in *. destruct right.
  - destruct Hin as [_ H1]. destruct Hin' as [H2 _].
    apply (xlt_irrefl (Fin v)). eapply xle_lt_trans; [exact H1|].
    eapply xle_lt_trans; [exact Hle|exact H2].
  - destruct Hin as [_ H1]. destruct Hin' as [H2 _].
    apply (xlt_irrefl (Fin v)). eapply xlt_le_trans; [exact H1|].
    destruct (xle_or_xlt hi (Fin v)) as [H|H].
    + exfalso. apply (xlt_irrefl (Fin v)). eapply xlt_le_trans; [exact H1|exact H].
    + exfalso. apply (xlt_irrefl hi). eapply xle_lt_trans; [exact Hle|].
      eapply xle_lt_trans; [exact H2|exact H1].
Qed.

Lemma contains_unique right ab edges j j' v :
  ascending edges -> contains right ab edges j v -> contains right ab edges j' v -> j = j'.
Proof.
  intros Ha H H'. destruct (Nat.lt_trichotomy j j') as [Hl|[He|Hl]]; [|exact He|].
  - exfalso. exact (contains_lt_absurd _ _ _ _ _ _ Ha Hl H H').
  - exfalso. exact (contains_lt_absurd _ _ _ _ _ _ Ha Hl H' H).
Qed.

(* ------------------------------------------------------------------ *)
(* the element closure *)

Lemma cut1_some_inv {L} tmin tmax right ab (edges : list Z) (labels : list L) v l :
  count_ok ab edges labels = true ->
  cut1Z tmin tmax right ab edges labels (Some v) = Lab l ->
  exists j, contains right ab edges j v /\ nth_error labels j = Some l
            /\ forall j', (j' < j)%nat -> ~ contains right ab edges j' v.
Proof.
  intros Hc H. unfold cut1Z, cut1 in H.
  destruct (scan Z.ltb Z.leb right ab (length labels) v 0 _) as [lab|] eqn:E; [|discriminate].
  injection H as ->.
  destruct (scan_some _ _ _ _ _ _ _ E) as (k & [lo hi] & Hn & Ht & Hmin). cbn [plus] in Ht.
  destruct (ws_nth _ _ _ _ _ _ _ _ Hn) as (Hlo & Hhi & Hlab). cbn [fst snd] in Hlo, Hhi.
  assert (Hk : (k < length labels)%nat) by (apply nth_error_Some; congruence).
  exists k. split; [|split; [exact Hlab|]].
  - apply (test_contains tmin tmax right ab edges labels k lo hi v Hc Hk Hlo Hhi).
    exact Ht.
  - intros j' Hj' Hcj'.
    assert (Hr : (j' < length labels)%nat) by lia.
    destruct (in_range_ws tmin tmax ab edges labels _ Hc Hr) as (lo' & hi' & lab' & H1 & H2 & H3).
    pose proof (ws_nth_inv _ _ _ _ _ _ _ _ _ H1 H2 H3) as Hw.
    specialize (Hmin j' (lo', hi') lab' Hj' Hw). cbn [plus] in Hmin.
    apply (test_contains tmin tmax right ab edges labels j' lo' hi' v Hc Hr H1 H2) in Hcj'.
    congruence.
Qed.

Lemma cut1_err_inv {L} tmin tmax right ab (edges : list Z) (labels : list L) v :
  count_ok ab edges labels = true ->
  cut1Z tmin tmax right ab edges labels (Some v) = ErrItem ->
  forall j, ~ contains right ab edges j v.
Proof.
  intros Hc H j Hcj. unfold cut1Z, cut1 in H.
  destruct (scan Z.ltb Z.leb right ab (length labels) v 0 _) as [lab|] eqn:E; [discriminate|].
  pose proof (contains_in_range _ _ _ labels _ _ Hc Hcj) as Hr.
  destruct (in_range_ws tmin tmax ab edges labels _ Hc Hr) as (lo & hi & lab & H1 & H2 & H3).
  pose proof (ws_nth_inv _ _ _ _ _ _ _ _ _ H1 H2 H3) as Hw.
  pose proof (scan_none _ _ _ _ _ _ E _ _ _ Hw) as Hf. cbn [plus] in Hf.
  apply (test_contains tmin tmax right ab edges labels j lo hi v Hc Hr H1 H2) in Hcj.
  congruence.
Qed.

Lemma cut1_cases {L} tmin tmax right ab (edges : list Z) (labels : list L) v :
  (exists l, cut1Z tmin tmax right ab edges labels (Some v) = Lab l)
  \/ cut1Z tmin tmax right ab edges labels (Some v) = ErrItem.
Proof.
  unfold cut1Z, cut1. destruct (scan _ _ _ _ _ _ _ _); [left; eauto|right; reflexivity].
Qed.

(* label j iff interval j contains v *)
Lemma cut1_label_iff {L} tmin tmax right ab (edges : list Z) (labels : list L) v l :
  ascending edges -> count_ok ab edges labels = true ->
  (cut1Z tmin tmax right ab edges labels (Some v) = Lab l
   <-> exists j, contains right ab edges j v /\ nth_error labels j = Some l).
Proof.
  intros Ha Hc. split.
  - intros H. destruct (cut1_some_inv _ _ _ _ _ _ _ _ Hc H) as (j & H1 & H2 & _). eauto.
  - intros (j & Hj & Hl).
    destruct (cut1_cases tmin tmax right ab edges labels v) as [[l' H]|H].
    + destruct (cut1_some_inv _ _ _ _ _ _ _ _ Hc H) as (k & H1 & H2 & _).
      assert (k = j) by (eapply contains_unique; eassumption). subst k.
      rewrite H. congruence.
    + exfalso. exact (cut1_err_inv _ _ _ _ _ _ _ Hc H _ Hj).
Qed.

Lemma cut1_err_iff {L} tmin tmax right ab (edges : list Z) (labels : list L) v :
  count_ok ab edges labels = true ->
  (cut1Z tmin tmax right ab edges labels (Some v) = ErrItem <-> forall j, ~ contains right ab edges j v).
Proof.
  intros Hc. split; [apply cut1_err_inv; exact Hc|].
  intros Hno. destruct (cut1_cases tmin tmax right ab edges labels v) as [[l H]|H]; [|exact H].
  destruct (cut1_some_inv _ _ _ _ _ _ _ _ Hc H) as (j & H1 & _). exfalso. exact (Hno j H1).
Qed.

(* first match wins, for arbitrary (also unsorted) edges *)
Lemma cut1_first_match {L} tmin tmax right ab (edges : list Z) (labels : list L) v l :
  count_ok ab edges labels = true ->
  (cut1Z tmin tmax right ab edges labels (Some v) = Lab l
   <-> exists j, contains right ab edges j v /\ nth_error labels j = Some l
                 /\ forall j', (j' < j)%nat -> ~ contains right ab edges j' v).
Proof.
  intros Hc. split; [apply cut1_some_inv; exact Hc|].
  intros (j & Hj & Hl & Hmin).
  destruct (cut1_cases tmin tmax right ab edges labels v) as [[l' H]|H].
  - destruct (cut1_some_inv _ _ _ _ _ _ _ _ Hc H) as (k & H1 & H2 & Hmin').
    destruct (Nat.lt_trichotomy k j) as [Hlt|[->|Hlt]].
    + exfalso. exact (Hmin k Hlt H1).
    + rewrite H. congruence.
    + exfalso. exact (Hmin' j Hlt Hj).
  - exfalso. exact (cut1_err_inv _ _ _ _ _ _ _ Hc H _ Hj).
Qed.

(* ------------------------------------------------------------------ *)
(* open outer bounds: some interval always contains v *)

Lemma exists_bin_gen (P Q : ext -> Prop) (tot : forall b, Q b \/ P b) :
  forall (l : list ext) (a : ext), P a -> l <> [] -> (forall d, Q (last l d)) ->
  exists j lo hi, nth_error (a :: l) j = Some lo /\ nth_error (a :: l) (S j) = Some hi /\ P lo /\ Q hi.
Proof.
  induction l as [|b r IH]; intros a Pa Hne Hq; [congruence|].
  destruct (tot b) as [Qb|Pb].
  - exists 0%nat, a, b. cbn. auto.
  - destruct r as [|c r'].
    + specialize (Hq a). cbn in Hq. exists 0%nat, a, b. cbn. auto.
    + destruct (IH b Pb ltac:(discriminate)) as (j & lo & hi & H1 & H2 & H3 & H4).
      { intros d. specialize (Hq d). cbn [last] in Hq |- *. exact Hq. }
      exists (S j), lo, hi. cbn [nth_error]. auto.
Qed.

Lemma open_bounds_contains right edges v : exists j, contains right true edges j v.
Proof.
  unfold contains, ext_edges.
  destruct right.
  - destruct (@exists_bin_gen (fun b => xlt b (Fin v)) (fun b => xle (Fin v) b)
                (fun b => xle_or_xlt (Fin v) b) (map Fin edges ++ [PosInf]) NegInf) as (j & lo & hi & H1 & H2 & H3 & H4).
    + exact I.
    + destruct (map Fin edges); discriminate.
    + intros d. rewrite last_last. exact I.
    + exists j, lo, hi. unfold in_bin. auto.
  - destruct (@exists_bin_gen (fun b => xle b (Fin v)) (fun b => xlt (Fin v) b)
                (fun b => xlt_or_xle (Fin v) b) (map Fin edges ++ [PosInf]) NegInf)
      as (j & lo & hi & H1 & H2 & H3 & H4).
    + exact I.
    + destruct (map Fin edges); discriminate.
    + intros d. rewrite last_last. exact I.
    + exists j, lo, hi. unfold in_bin. auto.
Qed.

Lemma cut1_open_total {L} tmin tmax right (edges : list Z) (labels : list L) v :
  count_ok true edges labels = true ->
  exists l, cut1Z tmin tmax right true edges labels (Some v) = Lab l.
Proof.
  intros Hc. destruct (cut1_cases tmin tmax right true edges labels v) as [H|H]; [exact H|].
  exfalso. destruct (open_bounds_contains right edges v) as [j Hj].
  exact (cut1_err_inv _ _ _ _ _ _ _ Hc H _ Hj).
Qed.

(* the entry point *)
Lemma vcut_err_iff {L} tmin tmax right ab (edges : list Z) (labels : list L) xs :
  vcutZ tmin tmax right ab edges labels xs = None <-> count_ok ab edges labels = false.
Proof.
  unfold vcutZ, vcut. destruct (count_ok ab edges labels); split; congruence.
Qed.

Lemma vcut_items {L} tmin tmax right ab (edges : list Z) (labels : list L) xs :
  count_ok ab edges labels = true ->
  vcutZ tmin tmax right ab edges labels xs = Some (map (cut1Z tmin tmax right ab edges labels) xs).
Proof. unfold vcutZ, vcut, cut1Z. intros ->. reflexivity. Qed.

Lemma count_ok_spec {L} ab (edges : list Z) (labels : list L) :
  count_ok ab edges labels = true <->
  (if ab then length labels = (length edges + 1)%nat else (length labels + 1)%nat = length edges).
Proof. unfold count_ok. destruct ab; apply Nat.eqb_eq. Qed.
