(* Proofs/HalfLifeProbes.v — C20: WHICH lags half_life probes, and when the probed correlation is defined.
   1. `doubling_tr` / `bisect_tr` / `half_life_tr` are the two loops of Model/HalfLife.v with the list of the lags at
      which the oracle is evaluated recorded next to the result (same control flow; `*_tr_fst`: erasing the trace gives
      the model back, for every oracle, fuel and state).
   2. For every oracle that is false beyond the length (the executable one is: Proofs/HalfLifeExec.v) the doubling
      phase probes EXACTLY 2^0, 2^1, .., 2^j where j is the first exponent at which the oracle is false — no lag is
      skipped for any other reason, in particular not because of min_periods — and hands the bracket
      (2^(j-1) or 0, 2^j capped at len-1) to the bisection; the bisection probes exactly the midpoints determined by
      the answers (`mids`), each strictly inside the current bracket; the result r is the cap len-1 or a genuine
      down-crossing: oracle false at r and true at r-1 (or r = 1).
   3. The executable oracle: autocorr mp nv xs lag = Pearson's r of the complete pairs (x[i+lag], x[i]); it is null
      iff fewer than max(mp, 2) such pairs or no spread — so a lag that leaves exactly min_periods pairs IS evaluated.
   Sections 1-2 are axiom-free.                                                                                *)
From Coq Require Import Reals Lra Lia List ZArith Bool.
From Tevec Require Import Base.Prelude Model.MapOps Spec.MapOps Proofs.MapOps.
From Tevec Require Import Base.Num Base.XR Spec.Stats Spec.Stats2 Model.SortCmp Model.Quantile Model.Agg Model.HalfLife
     Model.Composite Model.NullView Proofs.Quantile Proofs.AggGeneric Proofs.AggXR Proofs.Agg Proofs.ViewBase Proofs.NullView
     Proofs.HalfLife Proofs.HalfLifeExec.
Import ListNotations.

(* ================================================================================================ *)
(* 1. the traced loops *)
Section Traced.
  Variable above : nat -> bool.
  Variable len : nat.

  Fixpoint doubling_tr (fuel n last_n i : nat) : option (nat * nat) * list nat :=
    match fuel with
    | O => (None, [])
    | S fuel' =>
        if n <? len then
          let n' := 2 ^ i in
          if above n' then let rt := doubling_tr fuel' n' n' (S i) in (fst rt, n' :: snd rt)
          else (Some (n', last_n), [n'])
        else (Some (n, last_n), [])
    end.

  Fixpoint bisect_tr (fuel n last_n : nat) : option (res nat) * list nat :=
    match fuel with
    | O => (None, [])
    | S fuel' =>
        match usub n last_n with
        | Panic k => (Some (Panic k), [])
        | Ok d =>
            if 1 <? d then
              let life := (n + last_n) / 2 in
              let rt := if above life then bisect_tr fuel' n life else bisect_tr fuel' life last_n in
              (fst rt, life :: snd rt)
            else (Some (Ok n), [])
        end
    end.

  Definition half_life_tr : option (res nat) * list nat :=
    if len =? 0 then (Some (Ok 0), [])
    else
      let d := doubling_tr (S (S len)) 0 0 0 in
      match fst d with
      | None => (None, snd d)
      | Some (n, last_n) => let b := bisect_tr (S len) (Nat.min n (len - 1)) last_n in (fst b, snd d ++ snd b)
      end.

  Lemma doubling_tr_fst fuel : forall n last i, fst (doubling_tr fuel n last i) = doubling above len fuel n last i.
  Proof.
    induction fuel as [|fuel IH]; intros n last i; [reflexivity|]. cbn [doubling_tr doubling].
    destruct (n <? len); [|reflexivity]. destruct (above (2 ^ i)); [|reflexivity]. cbn [fst]. apply IH.
  Qed.
  Lemma bisect_tr_fst fuel : forall n last, fst (bisect_tr fuel n last) = bisect above fuel n last.
  Proof.
    induction fuel as [|fuel IH]; intros n last; [reflexivity|]. cbn [bisect_tr bisect].
    destruct (usub n last) as [d|k]; [|reflexivity]. destruct (1 <? d); [|reflexivity].
    cbn [fst]. destruct (above ((n + last) / 2)); apply IH.
  Qed.
  Theorem half_life_tr_fst : fst half_life_tr = half_life above len.
  Proof.
    unfold half_life_tr, half_life. destruct (len =? 0); [reflexivity|].
    rewrite doubling_tr_fst. destruct (doubling above len (S (S len)) 0 0 0) as [[n last]|]; [|reflexivity].
    cbn [fst]. apply bisect_tr_fst.
  Qed.

  (* the spec of the bisection phase: the midpoints determined by the answers, and the bracket end it stops at;
     k bounds the number of steps (k = n - last is always enough) *)
  Fixpoint mids (k n last : nat) : list nat :=
    match k with
    | O => []
    | S k' => if 1 <? n - last then
                let m := (n + last) / 2 in m :: (if above m then mids k' n m else mids k' m last)
              else []
    end.
  Fixpoint bis_end (k n last : nat) : nat :=
    match k with
    | O => n
    | S k' => if 1 <? n - last then
                let m := (n + last) / 2 in if above m then bis_end k' n m else bis_end k' m last
              else n
    end.

  Lemma mid_between n last : 1 < n - last -> last < (n + last) / 2 < n.
  Proof.
    intros H. pose proof (Nat.div_mod (n + last) 2 ltac:(lia)) as Hd.
    pose proof (Nat.mod_upper_bound (n + last) 2 ltac:(lia)). lia.
  Qed.

  Lemma bis_fuel_irrelevant : forall k1 k2 n last,
    n - last <= k1 -> n - last <= k2 ->
    bis_end k1 n last = bis_end k2 n last /\ mids k1 n last = mids k2 n last.
  Proof.
    induction k1 as [|k1 IH]; intros k2 n last H1 H2.
    - destruct k2 as [|k2]; [split; reflexivity|]. cbn [bis_end mids].
      replace (1 <? n - last) with false by (symmetry; apply Nat.ltb_ge; lia). split; reflexivity.
    - destruct k2 as [|k2]; cbn [bis_end mids].
      + replace (1 <? n - last) with false by (symmetry; apply Nat.ltb_ge; lia). split; reflexivity.
      + destruct (1 <? n - last) eqn:E; [|split; reflexivity].
        apply Nat.ltb_lt in E. pose proof (mid_between n last E) as Hm.
        destruct (above ((n + last) / 2)).
        * destruct (IH k2 n ((n + last) / 2) ltac:(lia) ltac:(lia)) as [G1 G2]. rewrite G1, G2. split; reflexivity.
        * destruct (IH k2 ((n + last) / 2) last ltac:(lia) ltac:(lia)) as [G1 G2]. rewrite G1, G2. split; reflexivity.
  Qed.

  Lemma bisect_tr_unfold fuel n last :
    bisect_tr (S fuel) n last =
    match usub n last with
    | Panic k => (Some (Panic k), [])
    | Ok d => if 1 <? d then
                let life := (n + last) / 2 in
                let rt := if above life then bisect_tr fuel n life else bisect_tr fuel life last in
                (fst rt, life :: snd rt)
              else (Some (Ok n), [])
    end.
  Proof. reflexivity. Qed.

  (* the traced bisection IS the spec: never out of fuel, never an underflow (any oracle) *)
  Lemma bisect_tr_spec fuel : forall n last,
    last <= n -> n - last <= fuel ->
    bisect_tr (S fuel) n last = (Some (Ok (bis_end (n - last) n last)), mids (n - last) n last).
  Proof.
    induction fuel as [|fuel IH]; intros n last Hle Hf.
    - assert (n = last) by lia. subst n. rewrite bisect_tr_unfold. unfold usub.
      replace (last <=? last) with true by (symmetry; apply Nat.leb_le; lia).
      rewrite Nat.sub_diag. reflexivity.
    - rewrite bisect_tr_unfold. unfold usub. replace (last <=? n) with true by (symmetry; apply Nat.leb_le; lia).
      destruct (n - last) as [|k] eqn:Ek.
      { reflexivity. }
      cbn [mids bis_end]. rewrite Ek.
      destruct (1 <? S k) eqn:E; [|reflexivity].
      apply Nat.ltb_lt in E. pose proof (mid_between n last ltac:(lia)) as Hm.
      set (m := (n + last) / 2) in *.
      destruct (above m).
      + rewrite (IH n m) by lia. cbn [fst snd].
        destruct (bis_fuel_irrelevant (n - m) k n m ltac:(lia) ltac:(lia)) as [G1 G2]. rewrite G1, G2. reflexivity.
      + rewrite (IH m last) by lia. cbn [fst snd].
        destruct (bis_fuel_irrelevant (m - last) k m last ltac:(lia) ltac:(lia)) as [G1 G2]. rewrite G1, G2. reflexivity.
  Qed.
  (* what the bisection ends at, for a bracket whose lower end is 0 or a lag at which the oracle is true *)
  Lemma bis_end_spec k : forall n last,
    last <= n -> n - last <= k ->
    exists l', l' <= bis_end k n last <= l' + 1 /\ last <= l' /\ bis_end k n last <= n /\
               (l' = last \/ above l' = true) /\
               (bis_end k n last = n \/ above (bis_end k n last) = false) /\
               (last < n -> l' < bis_end k n last).
  Proof.
    induction k as [|k IH]; intros n last Hle Hk.
    - cbn [bis_end]. exists last. repeat split; try lia; auto.
    - cbn [bis_end]. destruct (1 <? n - last) eqn:E.
      + apply Nat.ltb_lt in E. pose proof (mid_between n last E) as Hm. set (m := (n + last) / 2) in *.
        destruct (above m) eqn:Ea.
        * destruct (IH n m ltac:(lia) ltac:(lia)) as (l' & H1 & H2 & H3 & H4 & H5 & H6).
          exists l'. split; [exact H1|]. split; [lia|]. split; [exact H3|].
          split; [destruct H4 as [->|H4]; [right; exact Ea|right; exact H4]|]. split; [exact H5|]. intros _. apply H6. lia.
        * destruct (IH m last ltac:(lia) ltac:(lia)) as (l' & H1 & H2 & H3 & H4 & H5 & H6).
          exists l'. split; [exact H1|]. split; [exact H2|]. split; [lia|]. split; [exact H4|].
          split; [destruct H5 as [->|H5]; [right; exact Ea|right; exact H5]|]. intros _. apply H6. lia.
      + apply Nat.ltb_ge in E. exists last. repeat split; try lia; auto.
  Qed.

  (* every bisection probe is strictly inside the bracket it was handed *)
  Lemma mids_inside k : forall n last, Forall (fun m => last < m < n) (mids k n last).
  Proof.
    induction k as [|k IH]; intros n last; cbn [mids]; [constructor|].
    destruct (1 <? n - last) eqn:E; [|constructor].
    apply Nat.ltb_lt in E. pose proof (mid_between n last E) as Hm. set (m := (n + last) / 2) in *.
    constructor; [exact Hm|].
    destruct (above m).
    - eapply Forall_impl; [|apply IH]. intros a Ha. cbv beta in *. lia.
    - eapply Forall_impl; [|apply IH]. intros a Ha. cbv beta in *. lia.
  Qed.

End Traced.

(* ================================================================================================ *)
(* 2. the exact probe sequence and what the result is, for an oracle that is false beyond the length *)
Lemma pow2_gt i : i < 2 ^ i.
Proof. apply Nat.pow_gt_lin_r. lia. Qed.
Lemma pow2_pos i : 1 <= 2 ^ i.
Proof. pose proof (Nat.pow_nonzero 2 i). lia. Qed.

Lemma least_false (f : nat -> bool) (n : nat) :
  f n = false -> exists j, j <= n /\ f j = false /\ forall i, i < j -> f i = true.
Proof.
  assert (H : forall n, (forall i, i < n -> f i = true) \/
                        exists j, j < n /\ f j = false /\ forall i, i < j -> f i = true).
  { induction n0 as [|m IH]; [left; intros i Hi; lia|].
    destruct IH as [IH|(j & Hj & Hf & Hb)].
    - destruct (f m) eqn:E.
      + left. intros i Hi. destruct (Nat.eq_dec i m) as [->|Hne]; [exact E|apply IH; lia].
      + right. exists m. split; [lia|]. split; [exact E|exact IH].
    - right. exists j. split; [lia|]. split; assumption. }
  intros Hn. destruct (H n) as [Hall|(j & Hj & Hf & Hb)].
  - exists n. split; [lia|]. split; assumption.
  - exists j. split; [lia|]. split; assumption.
Qed.

Section Exact.
  Variable above : nat -> bool.
  Variable len : nat.
  Hypothesis above_out : forall k, len <= k -> above k = false.
  Hypothesis Hlen : 1 <= len.

  (* j is the first exponent at which the oracle is false *)
  Definition first_fail (j : nat) : Prop := above (2 ^ j) = false /\ forall i, i < j -> above (2 ^ i) = true.
  (* the lower end of the bracket: the last power of two at which the oracle was true, 0 if none *)
  Definition prev_pow (j : nat) : nat := match j with O => 0 | S j' => 2 ^ j' end.
  Definition pows (i k : nat) : list nat := map (Nat.pow 2) (seq i k).

  Lemma first_fail_exists : exists j, first_fail j.
  Proof.
    assert (H : above (2 ^ len) = false) by (apply above_out; pose proof (pow2_gt len); lia).
    destruct (least_false (fun i => above (2 ^ i)) len H) as (j & _ & Hf & Hb).
    exists j. split; assumption.
  Qed.
  Lemma first_fail_unique j j' : first_fail j -> first_fail j' -> j = j'.
  Proof.
    intros [F1 B1] [F2 B2]. destruct (Nat.lt_trichotomy j j') as [L|[E|L]]; [|exact E|].
    - rewrite (B2 j L) in F1. discriminate.
    - rewrite (B1 j' L) in F2. discriminate.
  Qed.
  Lemma prev_pow_lt j : prev_pow j < 2 ^ j.
  Proof.
    destruct j as [|j]; cbn [prev_pow]; [cbn; lia|]. rewrite Nat.pow_succ_r'. pose proof (pow2_pos j). lia.
  Qed.
  Lemma prev_pow_above j : first_fail j -> prev_pow j = 0 \/ above (prev_pow j) = true.
  Proof. intros [_ B]. destruct j as [|j]; [left; reflexivity|right]. cbn [prev_pow]. apply B. lia. Qed.
  Lemma prev_pow_in j : first_fail j -> prev_pow j <= len - 1.
  Proof.
    intros F. destruct (prev_pow_above j F) as [->|Ha]; [lia|].
    destruct (Nat.lt_ge_cases (prev_pow j) len) as [L|L]; [lia|]. rewrite (above_out _ L) in Ha. discriminate.
  Qed.
  Lemma first_fail_le j : first_fail j -> j <= len.
  Proof.
    intros F. pose proof (prev_pow_in j F) as H. destruct j as [|j]; [lia|]. cbn [prev_pow] in H.
    pose proof (pow2_gt j). lia.
  Qed.

  (* the doubling phase from any reachable state: it probes 2^i, .., 2^j and nothing else *)
  Lemma doubling_tr_exact j (F : first_fail j) fuel : forall n last i,
    i <= j -> j - i < fuel ->
    (i = 0 /\ n = 0 /\ last = 0) \/ (exists i', i = S i' /\ n = 2 ^ i' /\ last = n) ->
    doubling_tr above len fuel n last i = (Some (2 ^ j, if j =? i then last else prev_pow j), pows i (S j - i)).
  Proof.
    destruct F as [Ff Fb].
    induction fuel as [|fuel IH]; intros n last i Hij Hf Hinv; [lia|].
    cbn [doubling_tr].
    assert (Hn : n < len).
    { destruct Hinv as [(_ & -> & _)|(i' & -> & -> & _)]; [lia|].
      destruct (Nat.lt_ge_cases (2 ^ i') len) as [L|L]; [exact L|].
      specialize (Fb i' ltac:(lia)). rewrite (above_out _ L) in Fb. discriminate. }
    replace (n <? len) with true by (symmetry; apply Nat.ltb_lt; exact Hn).
    destruct (Nat.eq_dec i j) as [->|Hne].
    - rewrite Ff, Nat.eqb_refl. replace (S j - j) with 1 by lia. reflexivity.
    - rewrite (Fb i ltac:(lia)). rewrite (IH (2 ^ i) (2 ^ i) (S i)) by (try lia; right; exists i; auto).
      cbn [fst snd]. replace (j =? i) with false by (symmetry; apply Nat.eqb_neq; lia).
      replace (S j - i) with (S (S j - S i)) by lia. unfold pows. cbn [seq map]. f_equal. f_equal. f_equal.
      destruct (j =? S i) eqn:E; [|reflexivity]. apply Nat.eqb_eq in E. subst j. reflexivity.
  Qed.

  (* ---- the whole search ---- *)
  Theorem half_life_tr_exact j :
    first_fail j ->
    let n := Nat.min (2 ^ j) (len - 1) in let last := prev_pow j in
    half_life_tr above len = (Some (Ok (bis_end above (n - last) n last)), pows 0 (S j) ++ mids above (n - last) n last).
  Proof.
    intros F n last. unfold half_life_tr.
    replace (len =? 0) with false by (symmetry; apply Nat.eqb_neq; lia).
    pose proof (first_fail_le j F) as Hj.
    rewrite (doubling_tr_exact j F (S (S len)) 0 0 0) by (try lia; left; auto).
    cbn [fst snd]. rewrite Nat.sub_0_r.
    replace (if j =? 0 then 0 else prev_pow j) with (prev_pow j).
    2:{ destruct (j =? 0) eqn:E; [apply Nat.eqb_eq in E; subst j|]; reflexivity. }
    fold n last.
    pose proof (prev_pow_in j F) as Hl. pose proof (prev_pow_lt j) as Hp.
    rewrite (bisect_tr_spec above len n last) by (unfold n, last; lia).
    reflexivity.
  Qed.

  Theorem half_life_exact j :
    first_fail j ->
    let n := Nat.min (2 ^ j) (len - 1) in let last := prev_pow j in
    half_life above len = Some (Ok (bis_end above (n - last) n last)).
  Proof. intros F n last. rewrite <- half_life_tr_fst, (half_life_tr_exact j F). reflexivity. Qed.

  (* the result: inside the bracket left by the doubling phase, and the cap or a genuine down-crossing *)
  Theorem half_life_crossing j r :
    first_fail j -> half_life above len = Some (Ok r) ->
    prev_pow j <= r <= Nat.min (2 ^ j) (len - 1) /\ (prev_pow j < len - 1 -> prev_pow j < r) /\
    (r = len - 1 \/ (above r = false /\ (r = 1 \/ above (r - 1) = true))).
  Proof.
    intros F Hr. rewrite (half_life_exact j F) in Hr. injection Hr as Hr.
    pose proof (prev_pow_in j F) as Hl. pose proof (prev_pow_lt j) as Hp.
    set (n := Nat.min (2 ^ j) (len - 1)) in *. set (last := prev_pow j) in *.
    destruct (bis_end_spec above (n - last) n last ltac:(unfold n; lia) ltac:(lia)) as (l' & H1 & H2 & H3 & H4 & H5 & H6).
    rewrite Hr in *. split; [lia|]. split; [intros Hc; apply Nat.lt_le_trans with (m := S l'); [lia|apply H6; unfold n; lia]|].
    destruct (Nat.eq_dec r (len - 1)) as [E|Hne]; [left; exact E|right].
    assert (Hn : n = 2 ^ j \/ n = len - 1) by (unfold n; lia).
    assert (Ha : above r = false).
    { destruct H5 as [H5|H5]; [|exact H5]. destruct Hn as [Hn|Hn]; [|lia]. rewrite H5, Hn. apply F. }
    split; [exact Ha|].
    assert (Hlt : last < n).
    { destruct (Nat.eq_dec last n) as [E|Hd]; [|lia]. exfalso. destruct Hn as [Hn|Hn]; lia. }
    specialize (H6 Hlt). assert (El : l' = r - 1) by lia.
    destruct H4 as [H4|H4].
    - destruct (prev_pow_above j F) as [P0|Pa].
      + left. fold last in P0. lia.
      + right. rewrite <- El, H4. exact Pa.
    - right. rewrite <- El. exact H4.
  Qed.
End Exact.

(* ================================================================================================ *)
(* 3. the executable oracle: which pairs the correlation at lag L is taken over, and when it is defined *)
Lemma combine_firstn_l {X Y} (l : list X) : forall l' : list Y, combine l (firstn (length l) l') = combine l l'.
Proof. induction l as [|a l IH]; intros [|b l']; cbn [length firstn combine]; try reflexivity. rewrite IH. reflexivity. Qed.

Section ExecOracle.
  Context {T : Type} {DT : IsNone T XR}.
  Variable nv : T.
  Hypothesis Hnv : Num.is_none nv = true.

  Lemma lagged_eq (lag : nat) (xs : list T) :
    lag < length xs -> lagged nv lag xs = repeat nv lag ++ firstn (length xs - lag) xs.
  Proof.
    intros H. unfold lagged, shift.
    replace (Z.of_nat (length xs) <=? Z.abs (Z.of_nat lag))%Z with false by (symmetry; apply Z.leb_gt; lia).
    rewrite Z.abs_eq by lia. rewrite Nat2Z.id.
    destruct lag as [|lag].
    - cbn [Z.of_nat Z.ltb Z.compare repeat app]. rewrite Nat.sub_0_r, firstn_all. reflexivity.
    - replace (0 <? Z.of_nat (S lag))%Z with true by (symmetry; apply Z.ltb_lt; lia).
      unfold usub. replace (S lag <=? length xs) with true by (symmetry; apply Nat.leb_le; lia).
      reflexivity.
  Qed.

  (* the first `lag` pairs have the fill on the lagged side: pairwise deletion drops them *)
  Lemma rp_lag : forall (lag : nat) (xs ys : list T),
    lag <= length xs ->
    rp (DT := DT) (DT2 := DT) (@idA XR) (combine xs (repeat nv lag ++ ys))
    = rp (DT := DT) (DT2 := DT) (@idA XR) (combine (skipn lag xs) ys).
  Proof.
    induction lag as [|lag IH]; intros xs ys H; [reflexivity|].
    destruct xs as [|x xs]; [cbn in H; lia|]. cbn [repeat app combine skipn].
    unfold rp at 1. cbn [flat_map fst snd]. fold (rp (DT := DT) (DT2 := DT) (@idA XR) (combine xs (repeat nv lag ++ ys))).
    unfold not_none at 2. rewrite Hnv. cbn [negb]. rewrite andb_false_r. cbn [app].
    apply IH. cbn in H. lia.
  Qed.

  (* the complete pairs (x[i + lag], x[i]) *)
  Definition lag_pairs (xs : list T) (lag : nat) : list (R * R) :=
    rpairs (DT := DT) (DT2 := DT) (@idA XR) (skipn lag xs) xs.

  Lemma rpairs_lagged (xs : list T) (lag : nat) :
    rpairs (DT := DT) (DT2 := DT) (@idA XR) xs (lagged nv lag xs) = lag_pairs xs lag.
  Proof.
    unfold lag_pairs, rpairs. destruct (Nat.lt_ge_cases lag (length xs)) as [L|L].
    - rewrite (lagged_eq lag xs L), rp_lag by lia.
      rewrite <- (combine_firstn_l (skipn lag xs) xs), skipn_length. reflexivity.
    - rewrite (lagged_out nv lag xs L). rewrite <- (app_nil_r (repeat nv (length xs))), rp_lag by lia.
      rewrite !skipn_all2 by lia. reflexivity.
  Qed.

  Lemma canonical_lagged (xs : list T) (lag : nat) :
    canonical (@idA XR) xs -> canonical (@idA XR) (lagged nv lag xs).
  Proof.
    intros Hc v Hv Hn. destruct (Nat.lt_ge_cases lag (length xs)) as [L|L].
    - rewrite (lagged_eq lag xs L) in Hv. apply in_app_or in Hv. destruct Hv as [Hv|Hv].
      + apply repeat_spec in Hv. subst v. unfold not_none in Hn. rewrite Hnv in Hn. discriminate.
      + apply Hc; [|exact Hn]. rewrite <- (firstn_skipn (length xs - lag) xs). apply in_or_app. left. exact Hv.
    - rewrite (lagged_out nv lag xs L) in Hv. apply repeat_spec in Hv. subst v.
      unfold not_none in Hn. rewrite Hnv in Hn. discriminate.
  Qed.

  Local Open Scope R_scope.

  (* the autocorrelation at lag L is Pearson's r of the complete pairs (x[i + L], x[i]), null below max(mp, 2) pairs
     or on zero spread — every series, every lag (also 0 and >= len), every min_periods (also 0 and 1) *)
  Theorem autocorr_textbook (mp : nat) (xs : list T) (lag : nat) :
    canonical (@idA XR) xs ->
    let P := lag_pairs xs lag in
    autocorr (DT := DT) mp nv xs lag
    = if (length P <? Nat.max mp 2)%nat then None
      else if Rlt_dec EPS (popvarR (xs_of P)) then
             (if Rlt_dec EPS (popvarR (ys_of P)) then Some (corrR P) else None)
           else None.
  Proof.
    intros Hc P. unfold autocorr.
    rewrite (vcorr_textbook mp Hc (canonical_lagged xs lag Hc)), rpairs_lagged. reflexivity.
  Qed.

  Theorem autocorr_defined_iff (mp : nat) (xs : list T) (lag : nat) :
    canonical (@idA XR) xs ->
    let P := lag_pairs xs lag in
    autocorr (DT := DT) mp nv xs lag = None <->
    (length P < Nat.max mp 2)%nat \/ ~ EPS < popvarR (xs_of P) \/ ~ EPS < popvarR (ys_of P).
  Proof.
    intros Hc P. unfold autocorr.
    rewrite (vcorr_null mp Hc (canonical_lagged xs lag Hc)), rpairs_lagged. reflexivity.
  Qed.

  (* the test of both loops: true exactly when the correlation is defined and exceeds 1/2 *)
  Theorem above_half_iff (mp : nat) (xs : list T) (lag : nat) :
    canonical (@idA XR) xs ->
    let P := lag_pairs xs lag in
    above_half (DT := DT) mp nv xs lag = true <->
    (Nat.max mp 2 <= length P)%nat /\ EPS < popvarR (xs_of P) /\ EPS < popvarR (ys_of P) /\ 1 / 2 < corrR P.
  Proof.
    intros Hc P. unfold above_half. rewrite (autocorr_textbook mp xs lag Hc). fold P. rewrite nhalf_xr.
    destruct (length P <? Nat.max mp 2)%nat eqn:E.
    { apply Nat.ltb_lt in E. split; [discriminate|]. intros (H & _). lia. }
    apply Nat.ltb_ge in E.
    destruct (Rlt_dec EPS (popvarR (xs_of P))) as [Ga|Ga]; [|split; [discriminate|tauto]].
    destruct (Rlt_dec EPS (popvarR (ys_of P))) as [Gb|Gb]; [|split; [discriminate|tauto]].
    change (nisnan (Some (corrR P))) with false. rewrite orb_false_r.
    destruct (Rle_dec (corrR P) (1 / 2)) as [L|L].
    - rewrite xleb_true by exact L. split; [discriminate|]. intros (_ & _ & _ & H). lra.
    - rewrite xleb_false by exact L. split; [|reflexivity]. intros _. repeat split; try assumption. lra.
  Qed.
End ExecOracle.

(* a series without nulls (f64 dictionary): the lag-L pairs are ALL len - L overlapping pairs, so the correlation at
   lag L is defined iff len - L >= max(mp, 2) and the spread is not zero — a lag leaving exactly min_periods pairs
   (>= 2) is evaluated *)
Lemma lag_pairs_all_valid (rs : list R) (lag : nat) :
  lag_pairs (DT := IsNoneXR) (map Some rs) lag = combine (skipn lag rs) rs.
Proof.
  unfold lag_pairs, rpairs. rewrite skipn_map.
  generalize (skipn lag rs) as l. intros l. revert rs.
  induction l as [|a l IH]; intros [|b rs]; try reflexivity.
  cbn [map combine]. unfold rp. cbn [flat_map]. fold (rp (DT := IsNoneXR) (DT2 := IsNoneXR) (@idA XR) (combine (map Some l) (map Some rs))).
  rewrite IH. reflexivity.
Qed.
Lemma lag_pairs_all_valid_length (rs : list R) (lag : nat) :
  length (lag_pairs (DT := IsNoneXR) (map Some rs) lag) = length rs - lag.
Proof. rewrite lag_pairs_all_valid, combine_length, skipn_length. lia. Qed.

Theorem autocorr_all_valid_defined_iff (mp : nat) (rs : list R) (lag : nat) :
  let P := combine (skipn lag rs) rs in
  autocorr (DT := IsNoneXR) mp None (map Some rs) lag = None <->
  (length rs - lag < Nat.max mp 2)%nat \/ ~ (EPS < popvarR (xs_of P))%R \/ ~ (EPS < popvarR (ys_of P))%R.
Proof.
  intros P.
  rewrite (autocorr_defined_iff (DT := IsNoneXR) None eq_refl mp (map Some rs) lag (canonical_float _)).
  rewrite lag_pairs_all_valid_length, lag_pairs_all_valid. reflexivity.
Qed.

(* ================================================================================================ *)
(* 4. the executable half_life: probe sequence and result, for every element type whose T::none() is a null, every
      series, EVERY min_periods *)
Section ExecProbes.
  Context {T : Type} {DT : IsNone T XR}.
  Variable dm : NullDict T XR.

  Theorem half_life_exec_probes (mp : option nat) (nv : T) (xs : list T) :
    MapOps.none dm = Ok nv -> Num.is_none nv = true -> xs <> [] ->
    let len := length xs in
    let ab := above_half (DT := DT) (mp_default mp len) nv xs in
    exists j r,
      first_fail ab j /\
      half_life_exec (DT := DT) dm mp xs = Some (Ok r) /\
      (let n := Nat.min (2 ^ j) (len - 1) in let last := prev_pow j in
       half_life_tr ab len = (Some (Ok r), pows 0 (S j) ++ mids ab (n - last) n last) /\
       Forall (fun m => last < m < n) (mids ab (n - last) n last)) /\
      prev_pow j <= r <= Nat.min (2 ^ j) (len - 1) /\ (prev_pow j < len - 1 -> prev_pow j < r) /\
      (r = len - 1 \/ (ab r = false /\ (r = 1 \/ ab (r - 1) = true))).
  Proof.
    intros Hn Hnv Hne len ab.
    assert (Hlen : 1 <= len) by (unfold len; destruct xs; [contradiction|cbn; lia]).
    assert (Hout : forall k, len <= k -> ab k = false) by (intros k Hk; apply above_half_out; assumption).
    destruct (first_fail_exists ab len Hout Hlen) as (j & F).
    pose proof (half_life_exact ab len Hout Hlen j F) as Hr.
    set (r := bis_end ab (Nat.min (2 ^ j) (len - 1) - prev_pow j) (Nat.min (2 ^ j) (len - 1)) (prev_pow j)) in *.
    exists j, r. split; [exact F|].
    assert (He : half_life_exec (DT := DT) dm mp xs = Some (Ok r)).
    { unfold half_life_exec. fold len. replace (len =? 0) with false by (symmetry; apply Nat.eqb_neq; lia).
      rewrite Hn. exact Hr. }
    split; [exact He|]. split.
    - split; [apply (half_life_tr_exact ab len Hout Hlen j F)|apply mids_inside].
    - apply (half_life_crossing ab len Hout Hlen j r F Hr).
  Qed.
End ExecProbes.

(* ================================================================================================ *)
(* 5. half_life is encoding independent: two series with the same option view, two dictionaries whose T::none() is
      a null — the same probes get the same answers, so the same half-life (f64 vs Option<f64>) *)
Lemma Forall2_repeat {X Y} (R : X -> Y -> Prop) a b n : R a b -> Forall2 R (repeat a n) (repeat b n).
Proof. intros H. induction n; cbn [repeat]; constructor; assumption. Qed.
Lemma Forall2_firstn {X Y} (R : X -> Y -> Prop) l1 l2 : Forall2 R l1 l2 -> forall n, Forall2 R (firstn n l1) (firstn n l2).
Proof. induction 1 as [|a b r1 r2 Hab _ IH]; intros [|n]; cbn [firstn]; constructor; auto. Qed.

Section ExecEnc.
  Context {T1 T2 : Type} (D1 : IsNone T1 XR) (D2 : IsNone T2 XR).
  Variables (dm1 : NullDict T1 XR) (dm2 : NullDict T2 XR) (nv1 : T1) (nv2 : T2).
  Hypothesis Hn1 : MapOps.none dm1 = Ok nv1.
  Hypothesis Hn2 : MapOps.none dm2 = Ok nv2.
  Hypothesis Hnv1 : Num.is_none (IsNone := D1) nv1 = true.
  Hypothesis Hnv2 : Num.is_none (IsNone := D2) nv2 = true.

  Lemma nv_same_view : same_view D1 D2 nv1 nv2.
  Proof. unfold same_view, to_opt. rewrite Hnv1, Hnv2. reflexivity. Qed.

  Lemma lagged_view xs1 xs2 lag :
    SameView D1 D2 xs1 xs2 -> SameView D1 D2 (lagged nv1 lag xs1) (lagged nv2 lag xs2).
  Proof.
    intros HS. pose proof (same_view_length HS) as HL. unfold SameView.
    destruct (Nat.lt_ge_cases lag (length xs1)) as [L|L].
    - rewrite (lagged_eq (DT := D1) nv1 Hnv1 lag xs1 L), (lagged_eq (DT := D2) nv2 Hnv2 lag xs2) by lia.
      apply Forall2_app; [apply Forall2_repeat, nv_same_view|]. rewrite HL. apply Forall2_firstn. exact HS.
    - rewrite (lagged_out nv1 lag xs1 L), (lagged_out nv2 lag xs2) by lia. rewrite HL.
      apply Forall2_repeat, nv_same_view.
  Qed.

  Lemma above_half_view mp xs1 xs2 lag :
    SameView D1 D2 xs1 xs2 -> above_half (DT := D1) mp nv1 xs1 lag = above_half (DT := D2) mp nv2 xs2 lag.
  Proof.
    intros HS. unfold above_half, autocorr.
    rewrite (vcorr_pairs (@idA XR) xs1 (lagged nv1 lag xs1) xs2 (lagged nv2 lag xs2)
               (vpairs_same_view HS (lagged_view xs1 xs2 lag HS)) mp).
    reflexivity.
  Qed.

  Theorem half_life_exec_view mp xs1 xs2 :
    SameView D1 D2 xs1 xs2 -> half_life_exec (DT := D1) dm1 mp xs1 = half_life_exec (DT := D2) dm2 mp xs2.
  Proof.
    intros HS. unfold half_life_exec. rewrite (same_view_length HS), Hn1, Hn2.
    destruct (length xs2 =? 0); [reflexivity|].
    apply half_life_ext. intros k _. apply above_half_view. exact HS.
  Qed.
End ExecEnc.

(* the concrete reading against an "optimisation" that skips a lag because it leaves only min_periods pairs: on a series
   without nulls the test at lag L is true iff len - L >= max(mp, 2), both spreads exceed the floor and r > 1/2 *)
Theorem above_half_all_valid_iff (mp : nat) (rs : list R) (lag : nat) :
  let P := combine (skipn lag rs) rs in
  above_half (DT := IsNoneXR) mp None (map Some rs) lag = true <->
  (Nat.max mp 2 <= length rs - lag)%nat /\ (EPS < popvarR (xs_of P))%R /\ (EPS < popvarR (ys_of P))%R /\ (1 / 2 < corrR P)%R.
Proof.
  intros P.
  rewrite (above_half_iff (DT := IsNoneXR) None eq_refl mp (map Some rs) lag (canonical_float _)).
  rewrite lag_pairs_all_valid_length, lag_pairs_all_valid. reflexivity.
Qed.

(* f64 vs the canonical Option<f64> rendering *)
Lemma half_life_exec_opt (mp : option nat) (xs : list XR) :
  half_life_exec (DT := IsNone_option) (dict_opt (nisnan (A := XR))) mp
                 (map (fun x : XR => match x with Some r => Some (Some r) | None => None end) xs)
  = half_life_exec (DT := IsNoneXR) (fdict (A := XR)) mp xs.
Proof.
  apply (half_life_exec_view IsNone_option IsNoneXR (dict_opt (nisnan (A := XR))) (fdict (A := XR)) None None);
    try reflexivity.
  unfold SameView. induction xs as [|[r|] xs IH]; cbn [map]; constructor; try exact IH; reflexivity.
Qed.
