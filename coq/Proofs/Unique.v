(* Proofs/Unique.v — vsorted_unique_idx (Keep::First / Keep::Last) and vsorted_unique on
   run-structured inputs, and positionally.  At Z, axiom-free.                              *)
From Coq Require Import ZArith List Lia Bool Sorted.
From Tevec Require Import Base.Prelude Model.Binning Spec.Binning.
Import ListNotations.

Definition firstZ := @uidx_first Z Z.eqb.
Definition lastZ := @uidx_last Z Z.eqb.
Definition uniqZ := @vsorted_unique Z Z.eqb.
Definition first_go := @uidx_first_go Z Z.eqb.
Definition last_go := @uidx_last_go Z Z.eqb.
Definition uniq_goZ := @uniq_go Z Z.eqb.

Lemma last_is_true last v : last_is Z.eqb last v = true <-> last = Some v.
Proof.
  unfold last_is. destruct last as [u|]; [|split; discriminate].
  rewrite Z.eqb_eq. split; [intros ->; reflexivity|intros H; injection H; auto].
Qed.

Lemma last_is_refl v : last_is Z.eqb (Some v) v = true.
Proof. apply last_is_true. reflexivity. Qed.

Lemma last_is_false last v : last <> Some v -> last_is Z.eqb last v = false.
Proof.
  intros H. destruct (last_is Z.eqb last v) eqn:E; [|reflexivity].
  apply last_is_true in E. contradiction.
Qed.

Lemma repeat_snoc {A} (x : A) n : repeat x n ++ [x] = repeat x (S n).
Proof. induction n as [|n IH]; [reflexivity|]. cbn [repeat app]. rewrite IH. reflexivity. Qed.

(* ------------------------------------------------------------------ *)
(* Keep::First on blocks *)

Lemma first_go_nulls last a : forall i r,
  first_go last i (repeat None a ++ r) = first_go last (a + i) r.
Proof.
  induction a as [|a IH]; intros i r; [reflexivity|].
  cbn [repeat app first_go uidx_first_go]. fold first_go. rewrite IH. f_equal. lia.
Qed.

Lemma first_go_same v n : forall i r,
  first_go (Some v) i (repeat (Some v) n ++ r) = first_go (Some v) (n + i) r.
Proof.
  induction n as [|n IH]; intros i r; [reflexivity|].
  cbn [repeat app first_go uidx_first_go]. fold first_go. rewrite last_is_refl, IH. f_equal. lia.
Qed.

Lemma first_go_only_nulls last b : forall i, first_go last i (repeat None b) = [].
Proof.
  induction b as [|b IH]; intros i; [reflexivity|].
  cbn [repeat first_go uidx_first_go]. fold first_go. apply IH.
Qed.

Definition head_differs (last : option Z) (runs : list (Z * nat)) : Prop :=
  match runs with r :: _ => last <> Some (fst r) | [] => True end.

Lemma first_go_runs b : forall runs last i,
  adjacent_distinct runs -> head_differs last runs ->
  first_go last i (flat_map run_cells runs ++ repeat None b) = starts i runs.
Proof.
  induction runs as [|[v n] rs IH]; intros last i Had Hh.
  - cbn [flat_map app starts]. apply first_go_only_nulls.
  - cbn [flat_map]. unfold run_cells at 1. cbn [fst snd repeat].
    rewrite <- !app_assoc. cbn [app first_go uidx_first_go]. fold first_go.
    cbn in Hh. rewrite (last_is_false _ _ Hh).
    rewrite first_go_same. cbn [starts snd]. f_equal.
    replace (n + S i) with (i + S n) by lia.
    apply IH.
    + destruct rs as [|r2 rs']; [exact I|]. destruct Had as [_ H]. exact H.
    + destruct rs as [|r2 rs']; [exact I|]. destruct Had as [H _]. cbn in H |- *. congruence.
Qed.

Lemma first_runs a runs b :
  adjacent_distinct runs -> firstZ (expand a runs b) = starts a runs.
Proof.
  intros Had. unfold firstZ, uidx_first, expand. fold first_go.
  rewrite first_go_nulls, Nat.add_0_r. apply first_go_runs; [exact Had|].
  destruct runs; cbn; [exact I|discriminate].
Qed.

(* ------------------------------------------------------------------ *)
(* Keep::Last on blocks *)

Lemma last_go_nulls a : forall i r,
  last_go None i (repeat None a ++ r) = last_go None (a + i) r.
Proof.
  induction a as [|a IH]; intros i r; [reflexivity|].
  cbn [repeat app last_go uidx_last_go is_some]. fold last_go. rewrite IH. f_equal. lia.
Qed.

Lemma last_go_same v n : forall i r,
  last_go (Some v) i (repeat (Some v) n ++ r) = last_go (Some v) (n + i) r.
Proof.
  induction n as [|n IH]; intros i r; [reflexivity|].
  cbn [repeat app last_go uidx_last_go]. fold last_go. rewrite last_is_refl, IH. f_equal. lia.
Qed.

Lemma last_go_only_nulls b : forall i, last_go None i (repeat None b) = [].
Proof.
  induction b as [|b IH]; intros i; [reflexivity|].
  cbn [repeat last_go uidx_last_go is_some app]. fold last_go. apply IH.
Qed.

(* the remembered element sits at index i and is the first cell of the run (v, n) *)
Lemma last_go_runs b : forall rs v n i,
  adjacent_distinct ((v, n) :: rs) ->
  last_go (Some v) i (repeat (Some v) n ++ flat_map run_cells rs ++ repeat None (S b))
  = ends i ((v, n) :: rs).
Proof.
  induction rs as [|[v' n'] rs IH]; intros v n i Had.
  - cbn [flat_map app]. rewrite last_go_same.
    cbn [repeat last_go uidx_last_go is_some app]. fold last_go.
    rewrite last_go_only_nulls. cbn [ends snd]. f_equal. lia.
  - rewrite last_go_same. cbn [flat_map]. unfold run_cells at 1. cbn [fst snd repeat].
    rewrite <- !app_assoc. cbn [app last_go uidx_last_go]. fold last_go.
    destruct Had as [Hne Had]. cbn in Hne.
    rewrite last_is_false by congruence. cbn [is_some app].
    cbn [ends snd]. f_equal; [lia|].
    replace (S (n + i)) with (i + S n) by lia.
    apply IH. exact Had.
Qed.

Lemma last_runs a runs b :
  adjacent_distinct runs -> lastZ (expand a runs b) = ends a runs.
Proof.
  intros Had. unfold lastZ, expand.
  destruct a as [|a].
  - cbn [repeat app]. destruct runs as [|[v n] rs].
    + cbn [flat_map app ends]. destruct b as [|b]; [reflexivity|].
      cbn [repeat uidx_last]. fold last_go. rewrite repeat_snoc. apply last_go_only_nulls.
    + cbn [flat_map]. unfold run_cells at 1. cbn [fst snd repeat].
      rewrite <- !app_assoc. cbn [app uidx_last]. fold last_go.
      rewrite <- !app_assoc. rewrite repeat_snoc.
      apply last_go_runs. exact Had.
  - cbn [repeat app uidx_last]. fold last_go.
    rewrite <- !app_assoc. rewrite repeat_snoc, last_go_nulls, Nat.add_0_r.
    destruct runs as [|[v n] rs].
    + cbn [flat_map app ends]. apply last_go_only_nulls.
    + cbn [flat_map]. unfold run_cells at 1. cbn [fst snd repeat].
      rewrite <- !app_assoc. cbn [app last_go uidx_last_go last_is is_some]. fold last_go.
      apply last_go_runs. exact Had.
Qed.

(* ------------------------------------------------------------------ *)
(* vsorted_unique on blocks *)

Lemma uniq_go_nulls value a : forall r, uniq_goZ value (repeat None a ++ r) = uniq_goZ value r.
Proof.
  induction a as [|a IH]; intros r; [reflexivity|].
  cbn [repeat app uniq_goZ uniq_go]. fold uniq_goZ. apply IH.
Qed.

Lemma uniq_go_same v n : forall r, uniq_goZ (Some v) (repeat (Some v) n ++ r) = uniq_goZ (Some v) r.
Proof.
  induction n as [|n IH]; intros r; [reflexivity|].
  cbn [repeat app uniq_goZ uniq_go]. fold uniq_goZ. rewrite Z.eqb_refl. cbn [negb]. apply IH.
Qed.

Lemma uniq_go_runs b : forall runs value,
  adjacent_distinct runs -> head_differs value runs ->
  uniq_goZ value (flat_map run_cells runs ++ repeat None b) = map fst runs.
Proof.
  induction runs as [|[v n] rs IH]; intros value Had Hh.
  - cbn [flat_map app map]. rewrite <- (app_nil_r (repeat None b)). rewrite uniq_go_nulls. reflexivity.
  - cbn [flat_map]. unfold run_cells at 1. cbn [fst snd repeat].
    rewrite <- !app_assoc. cbn [app uniq_goZ uniq_go]. fold uniq_goZ.
    cbn in Hh.
    assert (Hstep : forall rest, match value with
              | Some lv => if negb (v =? lv)%Z then v :: uniq_goZ (Some v) rest else uniq_goZ value rest
              | None => v :: uniq_goZ (Some v) rest end = v :: uniq_goZ (Some v) rest).
    { intros rest. destruct value as [lv|]; [|reflexivity].
      destruct (Z.eqb_spec v lv) as [->|Hne]; [congruence|reflexivity]. }
    rewrite Hstep. rewrite uniq_go_same. cbn [map fst]. f_equal.
    apply IH.
    + destruct rs as [|r2 rs']; [exact I|]. destruct Had as [_ H]. exact H.
    + destruct rs as [|r2 rs']; [exact I|]. destruct Had as [H _]. cbn in H |- *. congruence.
Qed.

Lemma uniq_runs a runs b :
  adjacent_distinct runs -> uniqZ (expand a runs b) = map fst runs.
Proof.
  intros Had. unfold uniqZ, vsorted_unique, expand. fold uniq_goZ.
  rewrite uniq_go_nulls. apply uniq_go_runs; [exact Had|].
  destruct runs; cbn; [exact I|discriminate].
Qed.

(* ------------------------------------------------------------------ *)
(* facts about starts / ends: ascending, inside the runs, never a null *)

Lemma expand_length a runs b :
  length (expand a runs b) = a + fold_right (fun r s => S (snd r) + s) 0 runs + b.
Proof.
  unfold expand. rewrite !app_length, !repeat_length.
  assert (H : length (flat_map run_cells runs) = fold_right (fun r s => S (snd r) + s) 0 runs).
  { induction runs as [|r rs IH]; [reflexivity|].
    cbn [flat_map fold_right]. rewrite app_length. unfold run_cells at 1. rewrite repeat_length. lia. }
  lia.
Qed.

(* the cell at a start / end index is the run's value *)
Lemma nth_flat_runs_start b : forall runs i0 k r,
  nth_error runs k = Some r ->
  nth_error (flat_map run_cells runs ++ repeat None b)
            (nth k (starts i0 runs) 0 - i0) = Some (Some (fst r))
  /\ nth_error (flat_map run_cells runs ++ repeat None b)
            (nth k (ends i0 runs) 0 - i0) = Some (Some (fst r))
  /\ i0 <= nth k (starts i0 runs) 0 <= nth k (ends i0 runs) 0.
Proof.
  induction runs as [|[v n] rs IH]; intros i0 k r Hk; [destruct k; discriminate|].
  destruct k as [|k].
  - cbn in Hk. injection Hk as <-. cbn [starts ends nth fst snd flat_map].
    unfold run_cells at 1 3. cbn [fst snd].
    rewrite <- !app_assoc. rewrite Nat.sub_diag.
    split; [reflexivity|]. split; [|lia].
    replace (i0 + n - i0) with n by lia.
    rewrite nth_error_app1 by (rewrite repeat_length; lia).
    rewrite nth_error_repeat. replace (n <? S n) with true by (symmetry; apply Nat.ltb_lt; lia). reflexivity.
  - cbn in Hk. cbn [starts ends nth snd flat_map].
    destruct (IH (i0 + S n) k r Hk) as (H1 & H2 & H3).
    unfold run_cells at 1 3. cbn [fst snd]. rewrite <- !app_assoc.
    split; [|split; [|lia]].
    + rewrite nth_error_app2 by (rewrite repeat_length; lia). rewrite repeat_length.
      replace (nth k (starts (i0 + S n) rs) 0 - i0 - S n) with (nth k (starts (i0 + S n) rs) 0 - (i0 + S n)) by lia.
      exact H1.
    + rewrite nth_error_app2 by (rewrite repeat_length; lia). rewrite repeat_length.
      replace (nth k (ends (i0 + S n) rs) 0 - i0 - S n) with (nth k (ends (i0 + S n) rs) 0 - (i0 + S n)) by lia.
      exact H2.
Qed.

Lemma starts_length i runs : length (starts i runs) = length runs.
Proof. revert i; induction runs as [|r rs IH]; intros i; cbn; [reflexivity|]. f_equal. apply IH. Qed.
Lemma ends_length i runs : length (ends i runs) = length runs.
Proof. revert i; induction runs as [|r rs IH]; intros i; cbn; [reflexivity|]. f_equal. apply IH. Qed.

(* the k-th reported index holds the value of the k-th run: never a null *)
Lemma starts_value a runs b k r :
  nth_error runs k = Some r ->
  nth_error (expand a runs b) (nth k (starts a runs) 0) = Some (Some (fst r)).
Proof.
  intros Hk. destruct (nth_flat_runs_start b runs a k r Hk) as (H1 & _ & H3).
  unfold expand. rewrite nth_error_app2 by (rewrite repeat_length; lia).
  rewrite repeat_length. exact H1.
Qed.

Lemma ends_value a runs b k r :
  nth_error runs k = Some r ->
  nth_error (expand a runs b) (nth k (ends a runs) 0) = Some (Some (fst r)).
Proof.
  intros Hk. destruct (nth_flat_runs_start b runs a k r Hk) as (_ & H2 & H3).
  unfold expand. rewrite nth_error_app2 by (rewrite repeat_length; lia).
  rewrite repeat_length. exact H2.
Qed.

(* strictly ascending *)
Lemma starts_lower i runs : forall x, In x (starts i runs) -> i <= x.
Proof.
  revert i; induction runs as [|r rs IH]; intros i x Hx; [destruct Hx|].
  cbn in Hx. destruct Hx as [<-|Hx]; [lia|]. specialize (IH _ _ Hx). lia.
Qed.
Lemma ends_lower i runs : forall x, In x (ends i runs) -> i <= x.
Proof.
  revert i; induction runs as [|r rs IH]; intros i x Hx; [destruct Hx|].
  cbn in Hx. destruct Hx as [<-|Hx]; [lia|]. specialize (IH _ _ Hx). lia.
Qed.

Lemma starts_sorted i runs : StronglySorted lt (starts i runs).
Proof.
  revert i; induction runs as [|r rs IH]; intros i; cbn; constructor; [apply IH|].
  apply Forall_forall. intros x Hx. apply starts_lower in Hx. lia.
Qed.
Lemma ends_sorted i runs : StronglySorted lt (ends i runs).
Proof.
  revert i; induction runs as [|r rs IH]; intros i; cbn; constructor; [apply IH|].
  apply Forall_forall. intros x Hx. apply ends_lower in Hx. lia.
Qed.

(* ------------------------------------------------------------------ *)
(* positional characterisation of Keep::Last, for EVERY series (no precondition) *)

Definition opt_eqb (x y : option Z) : bool :=
  match x, y with Some a, Some b => Z.eqb a b | None, None => true | _, _ => false end.

(* i is the last index of a run: non-null and the next cell (if any) is not the same value *)
Definition last_of_run_b (xs : list (option Z)) (i : nat) : bool :=
  match nth_error xs i with
  | Some (Some v) => negb (match nth_error xs (S i) with Some (Some u) => Z.eqb v u | _ => false end)
  | _ => false
  end.

Lemma last_of_run_b_spec xs i : last_of_run_b xs i = true <-> last_of_run xs i.
Proof.
  unfold last_of_run_b, last_of_run. destruct (nth_error xs i) as [[v|]|] eqn:E.
  - destruct (nth_error xs (S i)) as [[u|]|] eqn:E2.
    + destruct (Z.eqb_spec v u) as [->|Hne]; cbn [negb]; split; try discriminate.
      * intros (w & Hw & Hn). injection Hw as <-. contradiction.
      * intros _. exists v. split; [reflexivity|]. intros H. injection H. auto.
      * intros _. reflexivity.
    + cbn. split; [intros _; exists v; split; [reflexivity|discriminate]|reflexivity].
    + cbn. split; [intros _; exists v; split; [reflexivity|discriminate]|reflexivity].
  - split; [discriminate|]. intros (w & Hw & _). discriminate.
  - split; [discriminate|]. intros (w & Hw & _). discriminate.
Qed.

(* scan over adjacent pairs: prev sits at index i *)
Fixpoint pair_scan (i : nat) (prev : option Z) (ys : list (option Z)) : list nat :=
  match ys with
  | [] => []
  | y :: r => (if is_some prev && negb (opt_eqb prev y) then [i] else []) ++ pair_scan (S i) y r
  end.

Lemma last_go_pair_scan : forall ys last i, last_go last i ys = pair_scan i last ys.
Proof.
  induction ys as [|y r IH]; intros last i; [reflexivity|].
  cbn [last_go uidx_last_go pair_scan]. fold last_go. destruct y as [v|].
  - destruct (last_is Z.eqb last v) eqn:E.
    + apply last_is_true in E. subst last. cbn [is_some opt_eqb andb]. rewrite Z.eqb_refl. cbn [negb app].
      apply IH.
    + destruct last as [u|]; cbn [is_some opt_eqb andb negb last_is] in *.
      * rewrite E. cbn [negb app]. f_equal. apply IH.
      * cbn [app]. apply IH.
  - destruct last as [u|]; cbn [is_some opt_eqb andb negb app]; [f_equal|]; apply IH.
Qed.

Lemma filter_seq_shift (p : nat -> bool) : forall n a,
  filter p (seq (S a) n) = map S (filter (fun k => p (S k)) (seq a n)).
Proof.
  induction n as [|n IH]; intros a; [reflexivity|].
  cbn [seq filter]. rewrite IH. destruct (p (S a)); reflexivity.
Qed.

(* the boolean of pair_scan at offset k of the list prev :: ys *)
Definition pair_b (zs : list (option Z)) (k : nat) : bool :=
  match nth_error zs k, nth_error zs (S k) with
  | Some p, Some y => is_some p && negb (opt_eqb p y)
  | _, _ => false
  end.

Lemma pair_scan_filter : forall ys prev i,
  pair_scan i prev ys = map (Nat.add i) (filter (pair_b (prev :: ys)) (seq 0 (length ys))).
Proof.
  induction ys as [|y r IH]; intros prev i; [reflexivity|].
  cbn [pair_scan length]. change (seq 0 (S (length r))) with (0 :: seq 1 (length r)).
  cbn [filter]. unfold pair_b at 1. cbn [nth_error].
  rewrite filter_seq_shift, IH.
  assert (Hext : filter (fun k => pair_b (prev :: y :: r) (S k)) (seq 0 (length r))
                 = filter (pair_b (y :: r)) (seq 0 (length r))).
  { apply filter_ext. intros k. reflexivity. }
  rewrite Hext.
  assert (Hm : map (Nat.add i) (map S (filter (pair_b (y :: r)) (seq 0 (length r))))
               = map (Nat.add (S i)) (filter (pair_b (y :: r)) (seq 0 (length r)))).
  { rewrite map_map. apply map_ext. intros k. lia. }
  destruct (is_some prev && negb (opt_eqb prev y)); cbn [app map]; rewrite Hm;
    [rewrite Nat.add_0_r|]; reflexivity.
Qed.

Lemma pair_b_last xs k : (k < length xs)%nat -> pair_b (xs ++ [None]) k = last_of_run_b xs k.
Proof.
  intros Hk. unfold pair_b, last_of_run_b.
  rewrite nth_error_app1 by exact Hk.
  destruct (nth_error xs k) as [p|] eqn:E; [|apply nth_error_None in E; lia].
  destruct (Nat.eq_dec (S k) (length xs)) as [He|Hne].
  - assert (Hn : nth_error xs (S k) = None) by (apply nth_error_None; lia). rewrite Hn.
    rewrite nth_error_app2 by lia. replace (S k - length xs) with 0 by lia.
    change (nth_error [@None Z] 0) with (Some (@None Z)).
    destruct p; reflexivity.
  - rewrite nth_error_app1 by lia.
    destruct (nth_error xs (S k)) as [y|] eqn:E2; [|apply nth_error_None in E2; lia].
    destruct p as [v|]; [|reflexivity]. destruct y as [u|]; reflexivity.
Qed.

Lemma filter_ext_in_seq (p q : nat -> bool) n :
  (forall k, (k < n)%nat -> p k = q k) -> filter p (seq 0 n) = filter q (seq 0 n).
Proof.
  intros H. apply filter_ext_in. intros k Hk. apply in_seq in Hk. apply H. lia.
Qed.

Theorem last_positional xs :
  lastZ xs = filter (last_of_run_b xs) (seq 0 (length xs)).
Proof.
  unfold lastZ, uidx_last. fold last_go. destruct xs as [|x r].
  - reflexivity.
  - rewrite last_go_pair_scan, pair_scan_filter.
    rewrite app_length. cbn [length]. rewrite Nat.add_1_r.
    change (x :: r ++ [None]) with ((x :: r) ++ [None]).
    rewrite (filter_ext_in_seq (pair_b ((x :: r) ++ [None])) (last_of_run_b (x :: r)))
      by (intros k Hk; apply pair_b_last; cbn [length]; exact Hk).
    rewrite map_ext with (g := fun k => k) by reflexivity. apply map_id.
Qed.

(* ------------------------------------------------------------------ *)
(* positional characterisation of Keep::First when nulls are only a prefix and/or suffix *)

Definition first_of_run_b (xs : list (option Z)) (i : nat) : bool :=
  match nth_error xs i with
  | Some (Some v) =>
      match i with
      | 0 => true
      | S j => negb (match nth_error xs j with Some (Some u) => Z.eqb u v | _ => false end)
      end
  | _ => false
  end.

Lemma first_of_run_b_spec xs i : first_of_run_b xs i = true <-> first_of_run xs i.
Proof.
  unfold first_of_run_b, first_of_run. destruct (nth_error xs i) as [[v|]|] eqn:E.
  - destruct i as [|j].
    + split; [intros _; exists v; auto|reflexivity].
    + cbn [Nat.sub]. rewrite Nat.sub_0_r.
      destruct (nth_error xs j) as [[u|]|] eqn:E2.
      * destruct (Z.eqb_spec u v) as [->|Hne]; cbn [negb]; split; try discriminate.
        -- intros (w & Hw & [Hz|Hn]); [discriminate|]. injection Hw as <-. contradiction.
        -- intros _. exists v. split; [reflexivity|]. right. intros H. injection H. auto.
        -- intros _. reflexivity.
      * cbn. split; [intros _; exists v; split; [reflexivity|right; discriminate]|reflexivity].
      * cbn. split; [intros _; exists v; split; [reflexivity|right; discriminate]|reflexivity].
  - split; [discriminate|]. intros (w & Hw & _). discriminate.
  - split; [discriminate|]. intros (w & Hw & _). discriminate.
Qed.

(* on a null-free stretch followed by nulls the remembered value is the previous cell *)
Fixpoint first_scan (i : nat) (prev : option Z) (vs : list Z) : list nat :=
  match vs with
  | [] => []
  | v :: r => (if last_is Z.eqb prev v then [] else [i]) ++ first_scan (S i) (Some v) r
  end.

Lemma first_go_values b : forall vs last i,
  first_go last i (map Some vs ++ repeat None b) = first_scan i last vs.
Proof.
  induction vs as [|v r IH]; intros last i.
  - cbn [map app first_scan]. apply first_go_only_nulls.
  - cbn [map app first_go uidx_first_go first_scan]. fold first_go.
    destruct (last_is Z.eqb last v) eqn:E.
    + apply last_is_true in E. subst last. cbn [app]. apply IH.
    + cbn [app]. f_equal. apply IH.
Qed.

Definition first_b (zs : list (option Z)) (k : nat) : bool :=
  match nth_error zs k, nth_error zs (S k) with
  | Some p, Some (Some v) => negb (last_is Z.eqb p v)
  | _, _ => false
  end.

Lemma first_scan_filter : forall vs prev i,
  first_scan i prev vs = map (Nat.add i) (filter (first_b (prev :: map Some vs)) (seq 0 (length vs))).
Proof.
  induction vs as [|v r IH]; intros prev i; [reflexivity|].
  cbn [first_scan length]. change (seq 0 (S (length r))) with (0 :: seq 1 (length r)).
  cbn [filter map]. unfold first_b at 1. cbn [nth_error].
  rewrite filter_seq_shift, IH.
  assert (Hext : filter (fun k => first_b (prev :: Some v :: map Some r) (S k)) (seq 0 (length r))
                 = filter (first_b (Some v :: map Some r)) (seq 0 (length r))).
  { apply filter_ext. intros k. reflexivity. }
  rewrite Hext.
  assert (Hm : map (Nat.add i) (map S (filter (first_b (Some v :: map Some r)) (seq 0 (length r))))
               = map (Nat.add (S i)) (filter (first_b (Some v :: map Some r)) (seq 0 (length r)))).
  { rewrite map_map. apply map_ext. intros k. lia. }
  destruct (last_is Z.eqb prev v); cbn [negb app map]; rewrite Hm;
    [|rewrite Nat.add_0_r]; reflexivity.
Qed.

(* ------------------------------------------------------------------ *)
(* every series whose nulls form a prefix and/or suffix is run-structured *)

Fixpoint rle (vs : list Z) : list (Z * nat) :=
  match vs with
  | [] => []
  | v :: r =>
      match rle r with
      | (u, n) :: t => if Z.eqb v u then (u, S n) :: t else (v, 0) :: (u, n) :: t
      | [] => [(v, 0)]
      end
  end.

Lemma rle_expand vs : flat_map run_cells (rle vs) = map Some vs.
Proof.
  induction vs as [|v r IH]; [reflexivity|].
  cbn [rle map]. destruct (rle r) as [|[u n] t].
  - cbn in IH |- *. rewrite <- IH. reflexivity.
  - destruct (Z.eqb_spec v u) as [->|Hne].
    + rewrite <- IH. cbn [flat_map]. unfold run_cells at 1 3. cbn [fst snd repeat app]. reflexivity.
    + rewrite <- IH. reflexivity.
Qed.

Lemma rle_adjacent vs : adjacent_distinct (rle vs).
Proof.
  induction vs as [|v r IH]; [exact I|].
  cbn [rle]. destruct (rle r) as [|[u n] t]; [exact I|].
  destruct (Z.eqb_spec v u) as [->|Hne].
  - destruct t as [|r2 t']; [exact I|]. exact IH.
  - split; [exact Hne|exact IH].
Qed.

Lemma runs_decomposition xs :
  nulls_at_ends xs -> exists a runs b, xs = expand a runs b /\ adjacent_distinct runs.
Proof.
  intros (a & vs & b & ->). exists a, (rle vs), b. split; [|apply rle_adjacent].
  unfold expand. rewrite rle_expand. reflexivity.
Qed.

(* the non-null values of a run-structured series are the run values *)
Lemma In_expand a runs b v : In (Some v) (expand a runs b) <-> In v (map fst runs).
Proof.
  unfold expand. rewrite !in_app_iff, in_flat_map, in_map_iff. split.
  - intros [H|[(r & Hr & Hv)|H]].
    + apply repeat_spec in H. discriminate.
    + unfold run_cells in Hv. apply repeat_spec in Hv. injection Hv as ->. exists r. auto.
    + apply repeat_spec in H. discriminate.
  - intros (r & <- & Hr). right. left. exists r. split; [exact Hr|].
    unfold run_cells. cbn [repeat]. left. reflexivity.
Qed.

(* ------------------------------------------------------------------ *)
(* Keep::First positionally, when nulls are only a prefix and/or suffix *)

Lemma filter_none {A} (p : A -> bool) l : (forall x, In x l -> p x = false) -> filter p l = [].
Proof.
  induction l as [|x l IH]; intros H; [reflexivity|].
  cbn [filter]. rewrite (H x (or_introl eq_refl)). apply IH. intros y Hy. apply H. right. exact Hy.
Qed.

Lemma filter_map_comm {A B} (f : A -> B) (p : B -> bool) l :
  filter p (map f l) = map f (filter (fun x => p (f x)) l).
Proof.
  induction l as [|x l IH]; [reflexivity|]. cbn [map filter]. rewrite IH. destruct (p (f x)); reflexivity.
Qed.

Lemma seq_add a n : seq a n = map (Nat.add a) (seq 0 n).
Proof.
  revert a; induction n as [|n IH]; intros a; [reflexivity|].
  cbn [seq map]. rewrite Nat.add_0_r. f_equal. rewrite (IH (S a)), (IH 1), map_map.
  apply map_ext. intros k. lia.
Qed.

Definition mk (a : nat) (vs : list Z) (b : nat) : list (option Z) :=
  repeat (@None Z) a ++ map Some vs ++ repeat None b.

Section Pos.
  Variables (b : nat) (vs : list Z).
  Notation xs a := (mk a vs b).

  Lemma xs_null_lo a k : k < a -> nth_error (xs a) k = Some None.
  Proof.
    intros H. unfold mk. rewrite nth_error_app1 by (rewrite repeat_length; lia).
    rewrite nth_error_repeat. replace (k <? a) with true by (symmetry; apply Nat.ltb_lt; lia). reflexivity.
  Qed.

  Lemma xs_mid a k : k < length vs -> nth_error (xs a) (a + k) = option_map Some (nth_error vs k).
  Proof.
    intros H. unfold mk. rewrite nth_error_app2 by (rewrite repeat_length; lia).
    rewrite repeat_length. replace (a + k - a) with k by lia.
    rewrite nth_error_app1 by (rewrite map_length; lia). apply nth_error_map.
  Qed.

  Lemma xs_null_hi a k : a + length vs <= k -> k < a + length vs + b -> nth_error (xs a) k = Some None.
  Proof.
    intros H1 H2. unfold mk. rewrite nth_error_app2 by (rewrite repeat_length; lia).
    rewrite repeat_length. rewrite nth_error_app2 by (rewrite map_length; lia).
    rewrite map_length, nth_error_repeat.
    replace (k - a - length vs <? b) with true by (symmetry; apply Nat.ltb_lt; lia). reflexivity.
  Qed.

  Lemma first_b_pointwise a k : k < length vs ->
    first_of_run_b (xs a) (a + k) = first_b (None :: map Some vs) k.
  Proof.
    intros Hk. unfold first_of_run_b, first_b.
    rewrite (xs_mid a k Hk). cbn [nth_error]. rewrite nth_error_map.
    destruct (nth_error vs k) as [v|] eqn:Ev; [|apply nth_error_None in Ev; lia].
    cbn [option_map].
    destruct k as [|k'].
    - cbn [nth_error]. rewrite Nat.add_0_r. destruct a as [|a']; [reflexivity|].
      rewrite xs_null_lo by lia. reflexivity.
    - replace (a + S k') with (S (a + k')) by lia.
      rewrite (xs_mid a k') by lia. cbn [nth_error]. rewrite nth_error_map.
      destruct (nth_error vs k') as [u|] eqn:Eu; [|apply nth_error_None in Eu; lia].
      reflexivity.
  Qed.

  Lemma first_positional_aux a :
    firstZ (xs a) = filter (first_of_run_b (xs a)) (seq 0 (length (xs a))).
  Proof.
    unfold firstZ, uidx_first. fold first_go. unfold mk at 1.
    rewrite first_go_nulls, Nat.add_0_r, first_go_values, first_scan_filter.
    assert (Hl : length (xs a) = a + (length vs + b))
      by (unfold mk; rewrite !app_length, !repeat_length, map_length; reflexivity).
    rewrite Hl, !seq_app, !filter_app. cbn [plus].
    rewrite (filter_none (first_of_run_b (xs a)) (seq 0 a)).
    2:{ intros k Hk. apply in_seq in Hk. unfold first_of_run_b. rewrite xs_null_lo by lia. reflexivity. }
    rewrite (filter_none (first_of_run_b (xs a)) (seq (a + length vs) b)).
    2:{ intros k Hk. apply in_seq in Hk. unfold first_of_run_b. rewrite xs_null_hi by lia. reflexivity. }
    rewrite app_nil_r. cbn [app].
    rewrite (seq_add a (length vs)), filter_map_comm. f_equal.
    apply filter_ext_in_seq. intros k Hk. symmetry. apply first_b_pointwise. exact Hk.
  Qed.
End Pos.

Theorem first_positional xs :
  nulls_at_ends xs -> firstZ xs = filter (first_of_run_b xs) (seq 0 (length xs)).
Proof. intros (a & vs & b & ->). apply (first_positional_aux b vs a). Qed.
