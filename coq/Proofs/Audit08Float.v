(* Proofs/Audit08Float.v — the C08 aggregation theorems instantiated at binary64 (Coq's primitive float, instance
   NumF64 — what the correspondence run evaluates): a Vec<f64> with NaN against its Vec<Option<f64>> rendering, and NaN
   insertion into a float series, for the whole aggregation family, bit for bit.  No float axiom: the theorems use no
   law of the numeric class, so these are plain instances (Print Assumptions lists the primitive operations only). *)
From Coq Require Import Floats List.
From Tevec Require Import Base.Prelude Base.Num Base.F64 Model.Agg Model.NullView Proofs.AggGeneric Proofs.ViewBase
     Proofs.NullView Proofs.Audit08.
Import ListNotations.

Definition opt_of_f64 (x : float) : option float := if PrimFloat.is_nan x then None else Some x.

Lemma f64_float_vs_option (xs : list float) : SameView IsNoneF64 IsNoneOptF64 xs (map opt_of_f64 xs).
Proof.
  unfold SameView. induction xs as [|x xs IH]; [constructor|]. cbn [map]. constructor; [|exact IH].
  unfold same_view, to_opt, opt_of_f64. cbn. destruct (PrimFloat.is_nan x); reflexivity.
Qed.

Theorem f64_encoding_aggregations (xs : list float) :
  let ys := map opt_of_f64 xs in
  count_valid xs = count_valid ys /\ count_none xs = count_none ys /\ vsum xs = vsum ys
  /\ vmean (fun x : float => x) xs = vmean (fun x : float => x) ys /\ vmin xs = vmin ys /\ vmax xs = vmax ys
  /\ vargmin xs = vargmin ys /\ vargmax xs = vargmax ys
  /\ (forall mp, vmean_var (fun x : float => x) mp xs = vmean_var (fun x : float => x) mp ys
                 /\ vstd (fun x : float => x) mp xs = vstd (fun x : float => x) mp ys
                 /\ vskew (fun x : float => x) mp xs = vskew (fun x : float => x) mp ys
                 /\ vkurt (fun x : float => x) mp xs = vkurt (fun x : float => x) mp ys).
Proof.
  intros ys. pose proof (f64_float_vs_option xs) as HS. fold ys in HS. pose proof (vals_same_view HS) as HV.
  split; [apply count_valid_vals; exact HV|]. split; [apply count_none_same_view; exact HS|].
  split; [apply vsum_vals; exact HV|]. split; [apply vmean_vals; exact HV|].
  split; [apply vmin_vals; exact HV|]. split; [apply vmax_vals; exact HV|].
  split; [apply vargmin_same_view; exact HS|]. split; [apply vargmax_same_view; exact HS|].
  intros mp. split; [apply vmean_var_vals; exact HV|]. split; [apply vstd_vals; exact HV|].
  split; [apply vskew_vals; exact HV|apply vkurt_vals; exact HV].
Qed.

(* NaN inserted at any positions of a float series (and None into an optional one) *)
Theorem f64_nan_insertion (p : list bool) (xs : list float) :
  let ys := insert_pat nan p xs in
  count_valid ys = count_valid xs /\ vsum ys = vsum xs /\ vmean (fun x : float => x) ys = vmean (fun x : float => x) xs
  /\ vmin ys = vmin xs /\ vmax ys = vmax xs
  /\ (forall mp, vmean_var (fun x : float => x) mp ys = vmean_var (fun x : float => x) mp xs
                 /\ vstd (fun x : float => x) mp ys = vstd (fun x : float => x) mp xs
                 /\ vskew (fun x : float => x) mp ys = vskew (fun x : float => x) mp xs
                 /\ vkurt (fun x : float => x) mp ys = vkurt (fun x : float => x) mp xs)
  /\ count_none ys = (count_none xs + (length ys - length xs))%nat.
Proof.
  intros ys. assert (HI : NullInsert (D := IsNoneF64) xs ys) by (apply insert_pat_insert; reflexivity).
  pose proof (vals_null_insert HI) as HV.
  split; [apply count_valid_vals; exact HV|]. split; [apply vsum_vals; exact HV|]. split; [apply vmean_vals; exact HV|].
  split; [apply vmin_vals; exact HV|]. split; [apply vmax_vals; exact HV|].
  split.
  - intros mp. split; [apply vmean_var_vals; exact HV|]. split; [apply vstd_vals; exact HV|].
    split; [apply vskew_vals; exact HV|apply vkurt_vals; exact HV].
  - destruct (insert_counts HI) as (_ & _ & E & _). exact E.
Qed.

(* the canonical-null assumption at binary64: Some(NaN) is counted as a valid element *)
Theorem f64_some_nan_is_not_null :
  ~ same_view IsNoneF64 IsNoneOptF64 nan (Some nan)
  /\ count_valid (DT := IsNoneF64) [nan] = 0%nat /\ count_valid (DT := IsNoneOptF64) [Some nan] = 1%nat.
Proof.
  split; [exact (@some_nan_not_same_view float NumF64 eq_refl)|].
  destruct (@some_nan_counts_as_valid float NumF64 eq_refl) as (H1 & H2 & _). split; [exact H1|exact H2].
Qed.
