(* Proofs/LooseEnds.v — loose ends found by the coverage measurement and the mutation campaign:
   (1) UninitVec::set (uninit.rs:32-40), the checked single-slot write — Model/Collect.v `uninit_set`;
   (2) MapValidBasic::drop_none (valid_iter.rs) = std Filter with the predicate `not_none` — Model/IterAudit.v;
   (3) the chunked (Polars) view laws at an arbitrary element type.                          Axiom-free. *)
From Coq Require Import ZArith Lia Permutation.
From Tevec Require Import Base.Prelude Model.Driver Proofs.Driver Model.Create Model.Collect Proofs.Collect
     Proofs.Audit07.

(* ================================================================================================= *)
(* (1) UninitVec::set                                                                                 *)
(* ================================================================================================= *)
Section UninitSet.
  Context {A : Type}.

  Lemma uninit_set_in (len idx : nat) (v : A) : idx < len -> uninit_set len idx v = (WOk, [(idx, v)]).
  Proof. intros H. unfold uninit_set. apply Nat.ltb_lt in H. rewrite H. reflexivity. Qed.

  Lemma uninit_set_out (len idx : nat) (v : A) : len <= idx -> uninit_set len idx v = (WErr, []).
  Proof. intros H. unfold uninit_set. apply Nat.ltb_ge in H. rewrite H. reflexivity. Qed.

  (* the guard is `idx < len` and nothing else: status, the uset calls made, the buffer afterwards *)
  Lemma uninit_set_total (buf : list (option A)) (idx : nat) (v : A) :
    let len := length buf in
    (idx < len ->
       uninit_set len idx v = (WOk, [(idx, v)])
       /\ fst (uninit_set_buf buf idx v) = WOk
       /\ length (snd (uninit_set_buf buf idx v)) = len
       /\ forall j, nth_error (snd (uninit_set_buf buf idx v)) j
                    = if j =? idx then Some (Some v) else nth_error buf j)
    /\ (len <= idx ->
          uninit_set len idx v = (WErr, []) /\ uninit_set_buf buf idx v = (WErr, buf))
    /\ (fst (uninit_set len idx v) = WOk <-> idx < len)
    /\ (fst (uninit_set len idx v) <> WOk -> fst (uninit_set len idx v) = WErr)
    /\ (forall w, In w (snd (uninit_set len idx v)) -> w = (idx, v) /\ fst w < len).
  Proof.
    cbv zeta. repeat split.
    - apply uninit_set_in; assumption.
    - unfold uninit_set_buf. rewrite uninit_set_in by assumption. reflexivity.
    - unfold uninit_set_buf. rewrite uninit_set_in by assumption. cbn. apply set_nth_length.
    - intros j. unfold uninit_set_buf. rewrite uninit_set_in by assumption. cbn [fst snd apply_writes fold_left].
      rewrite set_nth_nth. apply Nat.ltb_lt in H. rewrite H, Bool.andb_true_r. reflexivity.
    - apply uninit_set_out; assumption.
    - unfold uninit_set_buf. rewrite uninit_set_out by assumption. reflexivity.
    - unfold uninit_set. destruct (idx <? length buf) eqn:E; [intros _; apply Nat.ltb_lt; exact E|discriminate].
    - intros H. rewrite uninit_set_in by assumption. reflexivity.
    - unfold uninit_set. destruct (idx <? length buf); [intros H; exfalso; apply H; reflexivity|reflexivity].
    - unfold uninit_set in H. destruct (idx <? length buf); cbn in H; [destruct H as [<-|[]]; reflexivity|destruct H].
    - unfold uninit_set in H. destruct (idx <? length buf) eqn:E; cbn in H; [|destruct H].
      destruct H as [<-|[]]. apply Nat.ltb_lt. exact E.
  Qed.

  (* the buffer never changes length; an Err leaves it as it was *)
  Lemma uninit_set_buf_length (buf : list (option A)) idx v : length (snd (uninit_set_buf buf idx v)) = length buf.
  Proof. unfold uninit_set_buf. cbn [snd]. apply apply_writes_length. Qed.

  Lemma uninit_set_buf_err (buf : list (option A)) idx v :
    fst (uninit_set_buf buf idx v) = WErr -> snd (uninit_set_buf buf idx v) = buf.
  Proof.
    unfold uninit_set_buf, uninit_set. destruct (idx <? length buf); cbn; [discriminate|reflexivity].
  Qed.

  (* ---- successive calls: each call is judged on its own index; the accepted ones are the uset calls, in order ---- *)
  Definition set_status (len : nat) (c : nat * A) : wstatus := if fst c <? len then WOk else WErr.

  Lemma uninit_set_seq_length (calls : list (nat * A)) : forall buf,
    length (snd (uninit_set_seq buf calls)) = length buf.
  Proof.
    induction calls as [|c r IH]; intros buf; [reflexivity|].
    cbn [uninit_set_seq snd]. rewrite IH. apply uninit_set_buf_length.
  Qed.

  Lemma uninit_set_seq_closed (calls : list (nat * A)) : forall buf,
    uninit_set_seq buf calls
    = (map (set_status (length buf)) calls,
       apply_writes (filter (fun c => fst c <? length buf) calls) buf).
  Proof.
    induction calls as [|c r IH]; intros buf; [reflexivity|].
    cbn [uninit_set_seq map filter]. rewrite IH. rewrite uninit_set_buf_length.
    unfold uninit_set_buf, uninit_set, set_status. destruct c as [i v]. cbn [fst snd].
    destruct (i <? length buf); reflexivity.
  Qed.

  Lemma filter_all {B} (f : B -> bool) (l : list B) : (forall x, In x l -> f x = true) -> filter f l = l.
  Proof.
    induction l as [|x l IH]; intros H; [reflexivity|]. cbn. rewrite (H x (or_introl eq_refl)).
    f_equal. apply IH. intros y Hy. apply H. right. exact Hy.
  Qed.

  (* every index in range: every call Ok, the buffer is the buffer after those uset calls *)
  Lemma uninit_set_seq_in_range (calls : list (nat * A)) buf :
    (forall c, In c calls -> fst c < length buf) ->
    uninit_set_seq buf calls = (repeat WOk (length calls), apply_writes calls buf).
  Proof.
    intros H. rewrite uninit_set_seq_closed. f_equal.
    - clear -H. induction calls as [|c r IH]; [reflexivity|]. cbn [map length repeat]. f_equal.
      + unfold set_status. specialize (H c (or_introl eq_refl)). apply Nat.ltb_lt in H. rewrite H. reflexivity.
      + apply IH. intros c' Hc. apply H. right. exact Hc.
    - f_equal. apply filter_all. intros c Hc. apply Nat.ltb_lt. apply H. exact Hc.
  Qed.

  (* `len` successive sets at 0, 1, ..., len-1 over ANY previous content: all Ok, the buffer is exposable and is the
     written values *)
  Lemma uninit_set_fill (old : list (option A)) (items : list A) :
    length items = length old ->
    uninit_set_seq old (combine (seq 0 (length old)) items) = (repeat WOk (length old), map Some items)
    /\ assume_init (snd (uninit_set_seq old (combine (seq 0 (length old)) items))) = Some items
    /\ finish (snd (uninit_set_seq old (combine (seq 0 (length old)) items))) = Done items.
  Proof.
    intros Hlen.
    assert (E : uninit_set_seq old (combine (seq 0 (length old)) items) = (repeat WOk (length old), map Some items)).
    { rewrite uninit_set_seq_in_range.
      - rewrite combine_length, seq_length, Hlen, Nat.min_id. f_equal.
        rewrite <- Hlen. apply (apply_writes_in_order items [] old). symmetry. exact Hlen.
      - intros [i v] Hc. apply in_combine_l in Hc. apply in_seq in Hc. cbn [fst]. lia. }
    rewrite E. cbn [snd]. split; [reflexivity|]. unfold finish. rewrite assume_init_map_Some. split; reflexivity.
  Qed.

  (* in ANY order, each slot once, on a fresh buffer: all Ok, a complete output, slot j = the value set at j *)
  Lemma uninit_set_fill_any_order (calls : list (nat * A)) (n : nat) :
    Permutation (map fst calls) (seq 0 n) ->
    fst (uninit_set_seq (repeat None n) calls) = repeat WOk n
    /\ exists l, finish (snd (uninit_set_seq (repeat None n) calls)) = Done l /\ length l = n
                 /\ forall j v, In (j, v) calls -> nth_error l j = Some v.
  Proof.
    intros Hp.
    assert (Hr : forall c, In c calls -> fst c < length (repeat (@None A) n)).
    { intros c Hc. rewrite repeat_length. apply (in_map fst) in Hc.
      apply (Permutation_in _ Hp) in Hc. apply in_seq in Hc. lia. }
    rewrite (uninit_set_seq_in_range calls _ Hr). cbn [fst snd]. split.
    - f_equal. rewrite <- (map_length fst calls), (Permutation_length Hp). apply seq_length.
    - apply writes_permutation. exact Hp.
  Qed.

  (* a slot that no call names keeps the buffer from being exposable, whatever else was set *)
  Lemma uninit_set_missing_slot (calls : list (nat * A)) (n j : nat) :
    j < n -> ~ In j (map fst calls) ->
    assume_init (snd (uninit_set_seq (repeat None n) calls)) = None.
  Proof.
    intros Hj Hn. rewrite uninit_set_seq_closed. cbn [snd]. rewrite repeat_length.
    apply assume_init_None_iff. exists j. rewrite apply_writes_nth.
    rewrite last_write_not_In.
    - rewrite nth_error_repeat. apply Nat.ltb_lt in Hj. rewrite Hj. reflexivity.
    - intros Hin. apply Hn. apply in_map_iff in Hin. destruct Hin as [c [Hc Hf]]. apply filter_In in Hf.
      apply in_map_iff. exists c. split; [exact Hc|apply Hf].
  Qed.
End UninitSet.

(* ================================================================================================= *)
(* (2) MapValidBasic::drop_none = std Filter with the predicate not_none                              *)
(* ================================================================================================= *)
From Tevec Require Import Model.Iter Proofs.Iter Model.IterAudit Proofs.Audit09.

Lemma drop_none_elems s : f_elems (drop_none s) = filter not_none (elems s).
Proof. unfold drop_none. cbn [f_elems]. apply flat_map_keep_valid. Qed.

Lemma drop_none_wf s : wfb false s -> f_wf (drop_none s).
Proof. intros H. exact H. Qed.

(* the inner iterator after one next() of the filter *)
Lemma find_valid_rest : forall fuel i o i', wfb false i -> length (elems i) < fuel ->
  find_map_n keep_valid fuel i = (o, i') -> elems i' = after_first_valid (elems i).
Proof.
  induction fuel as [|fuel IH]; intros i o i' Hw Hl E; [lia|]. cbn [find_map_n] in E.
  destruct (next i) as [o1 i1] eqn:E1.
  destruct (nextd_sound false false i o1 i1 (dir_front false) Hw E1) as (Hs & Hw1 & _). unfold spec in Hs.
  destruct o1 as [x|].
  - rewrite Hs. cbn [after_first_valid]. unfold keep_valid in E. destruct (not_none x).
    + injection E as _ <-. reflexivity.
    + apply (IH i1 o i' Hw1); [|exact E]. rewrite Hs in Hl. cbn [length] in Hl. lia.
  - injection E as _ <-. destruct Hs as [-> ->]. reflexivity.
Qed.

Lemma after_first_valid_suffix xs : exists pre, xs = pre ++ after_first_valid xs.
Proof.
  induction xs as [|x r [pre IH]]; [exists []; reflexivity|]. cbn [after_first_valid].
  destruct (not_none x); [exists [x]; reflexivity|]. exists (x :: pre). cbn [app]. rewrite <- IH. reflexivity.
Qed.

Lemma after_valid_suffix k : forall xs, exists pre, xs = pre ++ after_valid k xs.
Proof.
  induction k as [|k IH]; intros xs; [exists []; reflexivity|]. cbn [after_valid].
  destruct (after_first_valid_suffix xs) as [p1 H1]. destruct (IH (after_first_valid xs)) as [p2 H2].
  exists (p1 ++ p2). rewrite <- app_assoc, <- H2. exact H1.
Qed.

Lemma filter_after_first_valid xs : filter not_none (after_first_valid xs) = tl (filter not_none xs).
Proof.
  induction xs as [|x r IH]; [reflexivity|]. cbn [after_first_valid filter].
  destruct (not_none x); [reflexivity|exact IH].
Qed.

Lemma skipn_tl {A} k (l : list A) : skipn k (tl l) = skipn (S k) l.
Proof. destruct l; [destruct k; reflexivity|reflexivity]. Qed.

Lemma filter_after_valid k : forall xs, filter not_none (after_valid k xs) = skipn k (filter not_none xs).
Proof.
  induction k as [|k IH]; intros xs; [reflexivity|]. cbn [after_valid].
  rewrite IH, filter_after_first_valid. apply skipn_tl.
Qed.

(* the state after k calls of next(): still a bare filter, around the source advanced behind the k-th non-null item *)
Lemma drop_none_consume : forall k s, wfb false s ->
  exists s', f_consume k (drop_none s) = drop_none s' /\ wfb false s'
             /\ elems s' = after_valid k (elems s).
Proof.
  induction k as [|k IH]; intros s Hw; [exists s; auto|].
  cbn [f_consume]. unfold drop_none at 1. cbn [f_next].
  destruct (find_map_n keep_valid (S (length (elems s))) s) as [o s1] eqn:E. cbn [snd].
  destruct (find_map_n_sound keep_valid _ s o s1 Hw (Nat.lt_succ_diag_r _) E) as [Hw1 _].
  pose proof (find_valid_rest _ s o s1 Hw (Nat.lt_succ_diag_r _) E) as Hr.
  destruct (IH s1 Hw1) as (s' & E' & Hw' & He'). exists s'. split; [exact E'|]. split; [exact Hw'|].
  rewrite He', Hr. reflexivity.
Qed.

(* ---- items ---- *)
Lemma drop_none_items s : wfb false s -> f_drain (drop_none s) = filter not_none (elems s).
Proof. intros Hw. rewrite (f_drain_elems _ (drop_none_wf s Hw)). apply drop_none_elems. Qed.

Lemma drop_none_items_consume k s : wfb false s ->
  f_drain (f_consume k (drop_none s)) = skipn k (filter not_none (elems s)).
Proof.
  intros Hw. destruct (drop_none_consume k s Hw) as (s' & -> & Hw' & He).
  rewrite (drop_none_items s' Hw'), He. apply filter_after_valid.
Qed.

(* one call: the first non-null item that is left, or None when there is none (and None ever after) *)
Lemma drop_none_next s : wfb false s ->
  fst (f_next (drop_none s)) = hd_error (filter not_none (elems s))
  /\ f_drain (snd (f_next (drop_none s))) = tl (filter not_none (elems s)).
Proof.
  intros Hw. pose proof (drop_none_items_consume 1 s Hw) as H1. cbn [f_consume] in H1.
  destruct (f_next (drop_none s)) as [o t'] eqn:E. cbn [fst snd] in *.
  destruct (f_next_sound _ o t' (drop_none_wf s Hw) E) as (Hs & _ & _). unfold f_spec in Hs.
  rewrite drop_none_elems in Hs. split.
  - destruct o as [x|]; [rewrite Hs; reflexivity|]. destruct Hs as [-> _]. reflexivity.
  - rewrite H1. destruct (filter not_none (elems s)); reflexivity.
Qed.

(* the filter characterisation spelled out: the yielded items are a subsequence of the source (same order), every one of
   them non-null, and no non-null item of the source is missing *)
Inductive subseq {A} : list A -> list A -> Prop :=
| sub_nil : subseq [] []
| sub_skip x l m : subseq l m -> subseq l (x :: m)
| sub_take x l m : subseq l m -> subseq (x :: l) (x :: m).

Lemma filter_subseq {A} (p : A -> bool) (l : list A) : subseq (filter p l) l.
Proof. induction l as [|x l IH]; [constructor|]. cbn. destruct (p x); constructor; exact IH. Qed.

Lemma subseq_length {A} {l m : list A} : subseq l m -> length l <= length m.
Proof. induction 1; cbn; lia. Qed.

Lemma subseq_all_le_filter {A} (p : A -> bool) (l m : list A) :
  subseq l m -> (forall x, In x l -> p x = true) -> length l <= length (filter p m).
Proof.
  induction 1 as [|y l m Hs IH|y l m Hs IH]; intros Hall; [auto| |]; cbn [filter].
  - specialize (IH Hall). destruct (p y); cbn [length]; lia.
  - rewrite (Hall y (or_introl eq_refl)). cbn [length].
    assert (length l <= length (filter p m)) by (apply IH; intros z Hz; apply Hall; right; exact Hz). lia.
Qed.

(* a subsequence whose items all satisfy p and that is as long as the filter IS the filter: the specification is not the
   implementation restated *)
Lemma subseq_filter_unique {A} (p : A -> bool) (l m : list A) :
  subseq l m -> (forall x, In x l -> p x = true) -> length l = length (filter p m) -> l = filter p m.
Proof.
  induction 1 as [|x l m Hs IH|x l m Hs IH]; intros Hall Hlen; [reflexivity| |].
  - cbn [filter] in *. destruct (p x) eqn:Ex; [|apply IH; assumption].
    exfalso. cbn [length] in Hlen. pose proof (subseq_all_le_filter p l m Hs Hall). lia.
  - cbn [filter] in *. rewrite (Hall x (or_introl eq_refl)) in *. f_equal. apply IH.
    + intros z Hz. apply Hall. right. exact Hz.
    + cbn [length] in Hlen. lia.
Qed.

Lemma drop_none_spec s : wfb false s ->
  subseq (f_drain (drop_none s)) (elems s)
  /\ (forall x, In x (f_drain (drop_none s)) <-> In x (elems s) /\ not_none x = true)
  /\ length (f_drain (drop_none s)) = count_valid (elems s).
Proof.
  intros Hw. rewrite (drop_none_items s Hw). split; [apply filter_subseq|]. split; [|reflexivity].
  intros x. apply filter_In.
Qed.

(* ---- the size hint at every point of the consumption ---- *)
Lemma drop_none_hint k s : wfb false s ->
  f_size_hint (f_consume k (drop_none s)) = (0, Some (length (after_valid k (elems s))))
  /\ (exists pre, elems s = pre ++ after_valid k (elems s))
  /\ length (f_drain (f_consume k (drop_none s))) <= length (after_valid k (elems s))
  /\ (length (f_drain (f_consume k (drop_none s))) = length (after_valid k (elems s))
      <-> forall x, In x (after_valid k (elems s)) -> not_none x = true).
Proof.
  intros Hw. destruct (drop_none_consume k s Hw) as (s' & E & Hw' & He). rewrite E.
  split; [|split; [apply after_valid_suffix|]].
  - unfold drop_none. cbn [f_size_hint]. rewrite (wfb_exact s' Hw'), He. reflexivity.
  - rewrite (drop_none_items s' Hw'), He. set (l := after_valid k (elems s)). clearbody l.
    split; [apply subseq_length, filter_subseq|]. split.
    + intros Hl x Hx. induction l as [|y l IH]; [destruct Hx|]. cbn [filter length] in Hl.
      pose proof (subseq_length (filter_subseq not_none l)) as Hb.
      destruct (not_none y) eqn:Ey; cbn [length] in Hl; [|lia].
      destruct Hx as [<-|Hx]; [exact Ey|]. apply IH; [lia|exact Hx].
    + intros Hall. rewrite filter_all; [reflexivity|exact Hall].
Qed.

(* ---- idempotence (through a collection: the result is not a TrustedLen, so it has to be collected - or wrapped -
        before drop_none can be called again) and identity on a null-free source ---- *)
Lemma filter_idem {A} (p : A -> bool) (l : list A) : filter p (filter p l) = filter p l.
Proof. apply filter_all. intros x Hx. apply filter_In in Hx. apply Hx. Qed.

Lemma drop_none_idempotent s : wfb false s ->
  f_drain (drop_none (IList (f_drain (drop_none s)))) = f_drain (drop_none s).
Proof.
  intros Hw. rewrite (drop_none_items (IList _)) by exact I. cbn [elems].
  rewrite (drop_none_items s Hw). apply filter_idem.
Qed.

Lemma drop_none_null_free s : wfb false s -> (forall x, In x (elems s) -> not_none x = true) ->
  f_drain (drop_none s) = elems s
  /\ forall k, f_drain (f_consume k (drop_none s)) = skipn k (elems s)
               /\ f_size_hint (f_consume k (drop_none s)) = (0, Some (length (skipn k (elems s)))).
Proof.
  intros Hw Hall. assert (Hf : filter not_none (elems s) = elems s) by (apply filter_all; exact Hall).
  split; [rewrite (drop_none_items s Hw); exact Hf|]. intros k.
  pose proof (drop_none_items_consume k s Hw) as Hd. rewrite Hf in Hd. split; [exact Hd|].
  destruct (drop_none_hint k s Hw) as (Hh & [pre Hp] & _ & _). rewrite Hh. do 2 f_equal.
  (* the source is advanced by exactly one item per call *)
  clear -Hall. revert Hall. generalize (elems s) as l. intros l.
  revert l. induction k as [|k IH]; intros l Hall; [reflexivity|]. cbn [after_valid].
  destruct l as [|x l]; cbn [after_first_valid skipn].
  - clear. induction k as [|k IH]; [reflexivity|exact IH].
  - rewrite (Hall x (or_introl eq_refl)). apply IH. intros y Hy. apply Hall. right. exact Hy.
Qed.

(* ================================================================================================= *)
(* (3) the chunked (Polars) accessors at an ARBITRARY element type: naturality in the element          *)
(*     (the string impl `Vec1View<Option<&str>> for &ChunkedArray<StringType>` is observed by          *)
(*     harness-pl c07pl.rs `observe_str` through a rendering str -> f64 of its elements)               *)
(* ================================================================================================= *)
From Coq Require Import Floats.
From Tevec Require Import Model.Containers Proofs.Containers.
From Tevec Require Run.Codec Run.RunC07.

(* the same array with every (non-null) element rendered through f; layout and validity untouched *)
Definition chunked_map {A B} (f : A -> B) (c : chunked A) : chunked B := map (map (option_map f)) c.

Section ChunkedNatural.
  Context {A B : Type} (f : A -> B).

  Lemma nth_error_map' {X Y} (g : X -> Y) (l : list X) i : nth_error (map g l) i = option_map g (nth_error l i).
  Proof. revert i. induction l as [|x l IH]; intros [|i]; try reflexivity. cbn. apply IH. Qed.

  Lemma seg_map {X Y} (g : X -> Y) a b (l : list X) : seg a b (map g l) = map g (seg a b l).
  Proof. unfold seg. rewrite skipn_map, firstn_map. reflexivity. Qed.

  Lemma chunked_map_to_list (c : chunked A) :
    chunked_to_list (chunked_map f c) = map (option_map f) (chunked_to_list c).
  Proof. unfold chunked_to_list, chunked_map. rewrite concat_map. reflexivity. Qed.

  Lemma chunked_map_len (c : chunked A) : chunked_len (chunked_map f c) = chunked_len c.
  Proof. rewrite !chunked_len_spec, chunked_map_to_list. apply map_length. Qed.

  Lemma chunked_map_get (c : chunked A) i :
    chunked_get (chunked_map f c) i = option_map (option_map f) (chunked_get c i).
  Proof. rewrite !chunked_get_spec, chunked_map_to_list. apply nth_error_map'. Qed.

  Lemma chunked_map_slice (c : chunked A) a b :
    chunked_slice (chunked_map f c) a b = map (option_map f) (chunked_slice c a b).
  Proof. unfold chunked_slice. rewrite chunked_map_to_list. apply seg_map. Qed.

  Lemma chunked_map_skip (c : chunked A) : forall a,
    chunked_skip (chunked_map f c) a = chunked_map f (chunked_skip c a).
  Proof.
    induction c as [|ch rest IH]; intros a; [reflexivity|].
    cbn [chunked_map map chunked_skip]. rewrite map_length. destruct (a <? length ch).
    - cbn [map]. rewrite skipn_map. reflexivity.
    - apply IH.
  Qed.

  Lemma chunked_map_take (c : chunked A) : forall n,
    chunked_take (chunked_map f c) n = chunked_map f (chunked_take c n).
  Proof.
    induction c as [|ch rest IH]; intros n; [reflexivity|].
    cbn [chunked_map map chunked_take]. rewrite map_length. destruct (n <=? length ch).
    - cbn [map]. rewrite firstn_map. reflexivity.
    - cbn [map]. f_equal. apply IH.
  Qed.

  (* slicing keeps the chunk layout, also under the rendering *)
  Lemma chunked_map_slice_chunks (c : chunked A) a b :
    chunked_slice_chunks (chunked_map f c) a b = chunked_map f (chunked_slice_chunks c a b).
  Proof. unfold chunked_slice_chunks. rewrite chunked_map_skip, chunked_map_take. reflexivity. Qed.
End ChunkedNatural.

(* ---- the observation of Run/RunC07.v under a rendering of the elements ---- *)
Lemma flat_map_map {X Y Z} (g : X -> Y) (c : Y -> list Z) (l : list X) :
  flat_map c (map g l) = flat_map (fun x => c (g x)) l.
Proof. induction l as [|x l IH]; [reflexivity|]. cbn. rewrite IH. reflexivity. Qed.

Lemma observe_map {X Y} (g : X -> Y) (c : Y -> list Z) (l : list X) :
  Run.RunC07.observe c (map g l) None = Run.RunC07.observe (fun x => c (g x)) l None.
Proof.
  unfold Run.RunC07.observe. cbv zeta. rewrite map_length. unfold Run.Codec.cells.
  f_equal. f_equal.
  { apply flat_map_ext. intros i. rewrite nth_error_map'. destruct (nth_error l i); reflexivity. }
  f_equal. rewrite flat_map_map. f_equal. f_equal. rewrite <- map_rev, flat_map_map. f_equal. f_equal. f_equal.
  apply flat_map_ext. intros a. apply flat_map_ext. intros b. rewrite seg_map, flat_map_map. reflexivity.
Qed.

Lemma observe_ext {X} (c1 c2 : X -> list Z) (l : list X) :
  (forall x, c1 x = c2 x) -> Run.RunC07.observe c1 l None = Run.RunC07.observe c2 l None.
Proof.
  intros H. unfold Run.RunC07.observe. cbv zeta. unfold Run.Codec.cells.
  f_equal. f_equal.
  { apply flat_map_ext. intros i. destruct (nth_error l i); [apply H|reflexivity]. }
  f_equal. rewrite (flat_map_ext _ _ H). f_equal. f_equal. rewrite (flat_map_ext _ _ H). f_equal. f_equal. f_equal.
  apply flat_map_ext. intros a. apply flat_map_ext. intros b. rewrite (flat_map_ext _ _ H). reflexivity.
Qed.

(* what the run computes for an array whose elements were rendered as floats by `enc` IS the observation of the array
   itself, cell encoder `c_float o enc` - for every element type and every rendering *)
Lemma run_chunked_rendered {A} (enc : A -> float) (c : chunked A) :
  Run.RunC07.run_chunked (chunked_map enc c)
  = Run.RunC07.observe (Run.Codec.c_opt (fun x => Run.Codec.c_float (enc x))) (chunked_to_list c) None.
Proof.
  unfold Run.RunC07.run_chunked. rewrite chunked_map_to_list, observe_map.
  apply observe_ext. intros [x|]; reflexivity.
Qed.
