(* Proofs/LooseEnds.v — loose ends found by the coverage measurement and the mutation campaign:
   (1) UninitVec::set (uninit.rs:32-40), the checked single-slot write — Model/Collect.v `uninit_set`;
   (2) MapValidBasic::drop_none (valid_iter.rs) = std Filter with the predicate `not_none` — Model/IterAudit.v;
   (3) the chunked (Polars) view laws at an arbitrary element type.                          Axiom-free. *)
From Coq Require Import ZArith Lia Permutation.
From Tevec Require Import Base.Prelude Model.Driver Proofs.Driver Model.Create Model.Collect Proofs.Collect
     Proofs.Audit07.

(* ================================================================================================= *)
(* (1) UninitVec::set                                                                                 *)
(* ================================================================================================= *)
Section UninitSet.
  Context {A : Type}.

  Lemma uninit_set_in (len idx : nat) (v : A) : idx < len -> uninit_set len idx v = (WOk, [(idx, v)]).
  Proof. intros H. unfold uninit_set. apply Nat.ltb_lt in H. rewrite H. reflexivity. Qed.

  Lemma uninit_set_out (len idx : nat) (v : A) : len <= idx -> uninit_set len idx v = (WErr, []).
  Proof. intros H. unfold uninit_set. apply Nat.ltb_ge in H. rewrite H. reflexivity. Qed.

  (* the guard is `idx < len` and nothing else: status, the uset calls made, the buffer afterwards *)
  Lemma uninit_set_total (buf : list (option A)) (idx : nat) (v : A) :
    let len := length buf in
    (idx < len ->
       uninit_set len idx v = (WOk, [(idx, v)])
       /\ fst (uninit_set_buf buf idx v) = WOk
       /\ length (snd (uninit_set_buf buf idx v)) = len
       /\ forall j, nth_error (snd (uninit_set_buf buf idx v)) j
                    = if j =? idx then Some (Some v) else nth_error buf j)
    /\ (len <= idx ->
          uninit_set len idx v = (WErr, []) /\ uninit_set_buf buf idx v = (WErr, buf))
    /\ (fst (uninit_set len idx v) = WOk <-> idx < len)
    /\ (fst (uninit_set len idx v) <> WOk -> fst (uninit_set len idx v) = WErr)
    /\ (forall w, In w (snd (uninit_set len idx v)) -> w = (idx, v) /\ fst w < len).
  Proof.
    cbv zeta. repeat split.
    - apply uninit_set_in; assumption.
    - unfold uninit_set_buf. rewrite uninit_set_in by assumption. reflexivity.
    - unfold uninit_set_buf. rewrite uninit_set_in by assumption. cbn. apply set_nth_length.
    - intros j. unfold uninit_set_buf. rewrite uninit_set_in by assumption. cbn [fst snd apply_writes fold_left].
      rewrite set_nth_nth. apply Nat.ltb_lt in H. rewrite H, Bool.andb_true_r. reflexivity.
    - apply uninit_set_out; assumption.
    - unfold uninit_set_buf. rewrite uninit_set_out by assumption. reflexivity.
    - unfold uninit_set. destruct (idx <? length buf) eqn:E; [intros _; apply Nat.ltb_lt; exact E|discriminate].
    - intros H. rewrite uninit_set_in by assumption. reflexivity.
    - unfold uninit_set. destruct (idx <? length buf); [intros H; exfalso; apply H; reflexivity|reflexivity].
    - unfold uninit_set in H. destruct (idx <? length buf); cbn in H; [destruct H as [<-|[]]; reflexivity|destruct H].
    - unfold uninit_set in H. destruct (idx <? length buf) eqn:E; cbn in H; [|destruct H].
      destruct H as [<-|[]]. apply Nat.ltb_lt. exact E.
  Qed.

  (* the buffer never changes length; an Err leaves it as it was *)
  Lemma uninit_set_buf_length (buf : list (option A)) idx v : length (snd (uninit_set_buf buf idx v)) = length buf.
  Proof. unfold uninit_set_buf. cbn [snd]. apply apply_writes_length. Qed.

  Lemma uninit_set_buf_err (buf : list (option A)) idx v :
    fst (uninit_set_buf buf idx v) = WErr -> snd (uninit_set_buf buf idx v) = buf.
  Proof.
    unfold uninit_set_buf, uninit_set. destruct (idx <? length buf); cbn; [discriminate|reflexivity].
  Qed.

  (* ---- successive calls: each call is judged on its own index; the accepted ones are the uset calls, in order ---- *)
  Definition set_status (len : nat) (c : nat * A) : wstatus := if fst c <? len then WOk else WErr.

  Lemma uninit_set_seq_length (calls : list (nat * A)) : forall buf,
    length (snd (uninit_set_seq buf calls)) = length buf.
  Proof.
    induction calls as [|c r IH]; intros buf; [reflexivity|].
    cbn [uninit_set_seq snd]. rewrite IH. apply uninit_set_buf_length.
  Qed.

  Lemma uninit_set_seq_closed (calls : list (nat * A)) : forall buf,
    uninit_set_seq buf calls
    = (map (set_status (length buf)) calls,
       apply_writes (filter (fun c => fst c <? length buf) calls) buf).
  Proof.
    induction calls as [|c r IH]; intros buf; [reflexivity|].
    cbn [uninit_set_seq map filter]. rewrite IH. rewrite uninit_set_buf_length.
    unfold uninit_set_buf, uninit_set, set_status. destruct c as [i v]. cbn [fst snd].
    destruct (i <? length buf); reflexivity.
  Qed.

  Lemma filter_all {B} (f : B -> bool) (l : list B) : (forall x, In x l -> f x = true) -> filter f l = l.
  Proof.
    induction l as [|x l IH]; intros H; [reflexivity|]. cbn. rewrite (H x (or_introl eq_refl)).
    f_equal. apply IH. intros y Hy. apply H. right. exact Hy.
  Qed.

  (* every index in range: every call Ok, the buffer is the buffer after those uset calls *)
  Lemma uninit_set_seq_in_range (calls : list (nat * A)) buf :
    (forall c, In c calls -> fst c < length buf) ->
    uninit_set_seq buf calls = (repeat WOk (length calls), apply_writes calls buf).
  Proof.
    intros H. rewrite uninit_set_seq_closed. f_equal.
    - clear -H. induction calls as [|c r IH]; [reflexivity|]. cbn [map length repeat]. f_equal.
      + unfold set_status. specialize (H c (or_introl eq_refl)). apply Nat.ltb_lt in H. rewrite H. reflexivity.
      + apply IH. intros c' Hc. apply H. right. exact Hc.
    - f_equal. apply filter_all. intros c Hc. apply Nat.ltb_lt. apply H. exact Hc.
  Qed.

  (* `len` successive sets at 0, 1, ..., len-1 over ANY previous content: all Ok, the buffer is exposable and is the
     written values *)
  Lemma uninit_set_fill (old : list (option A)) (items : list A) :
    length items = length old ->
    uninit_set_seq old (combine (seq 0 (length old)) items) = (repeat WOk (length old), map Some items)
    /\ assume_init (snd (uninit_set_seq old (combine (seq 0 (length old)) items))) = Some items
    /\ finish (snd (uninit_set_seq old (combine (seq 0 (length old)) items))) = Done items.
  Proof.
    intros Hlen.
    assert (E : uninit_set_seq old (combine (seq 0 (length old)) items) = (repeat WOk (length old), map Some items)).
    { rewrite uninit_set_seq_in_range.
      - rewrite combine_length, seq_length, Hlen, Nat.min_id. f_equal.
        rewrite <- Hlen. apply (apply_writes_in_order items [] old). symmetry. exact Hlen.
      - intros [i v] Hc. apply in_combine_l in Hc. apply in_seq in Hc. cbn [fst]. lia. }
    rewrite E. cbn [snd]. split; [reflexivity|]. unfold finish. rewrite assume_init_map_Some. split; reflexivity.
  Qed.

  (* in ANY order, each slot once, on a fresh buffer: all Ok, a complete output, slot j = the value set at j *)
  Lemma uninit_set_fill_any_order (calls : list (nat * A)) (n : nat) :
    Permutation (map fst calls) (seq 0 n) ->
    fst (uninit_set_seq (repeat None n) calls) = repeat WOk n
    /\ exists l, finish (snd (uninit_set_seq (repeat None n) calls)) = Done l /\ length l = n
                 /\ forall j v, In (j, v) calls -> nth_error l j = Some v.
  Proof.
    intros Hp.
    assert (Hr : forall c, In c calls -> fst c < length (repeat (@None A) n)).
    { intros c Hc. rewrite repeat_length. apply (in_map fst) in Hc.
      apply (Permutation_in _ Hp) in Hc. apply in_seq in Hc. lia. }
    rewrite (uninit_set_seq_in_range calls _ Hr). cbn [fst snd]. split.
    - f_equal. rewrite <- (map_length fst calls), (Permutation_length Hp). apply seq_length.
    - apply writes_permutation. exact Hp.
  Qed.

  (* a slot that no call names keeps the buffer from being exposable, whatever else was set *)
  Lemma uninit_set_missing_slot (calls : list (nat * A)) (n j : nat) :
    j < n -> ~ In j (map fst calls) ->
    assume_init (snd (uninit_set_seq (repeat None n) calls)) = None.
  Proof.
    intros Hj Hn. rewrite uninit_set_seq_closed. cbn [snd]. rewrite repeat_length.
    apply assume_init_None_iff. exists j. rewrite apply_writes_nth.
    rewrite last_write_not_In.
    - rewrite nth_error_repeat. apply Nat.ltb_lt in Hj. rewrite Hj. reflexivity.
    - intros Hin. apply Hn. apply in_map_iff in Hin. destruct Hin as [c [Hc Hf]]. apply filter_In in Hf.
      apply in_map_iff. exists c. split; [exact Hc|apply Hf].
  Qed.
End UninitSet.
