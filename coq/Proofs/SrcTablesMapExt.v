(* Proofs/SrcTablesMapExt.v — translator tie (DESIGN 10.2) for C03: conformance of Model/Cmp.v and Model/Norm.v with the
   decision tables GENERATED from the text of tea-rolling/src/cmp.rs and norm.rs (coq/Gen/SrcTables.v, section (d), written by
   tools/gen_tables_map.py on every run of the C03 check).

   ts_vmin / ts_vmax / ts_vargmin / ts_vargmax: the rescan condition `min_idx < start`, the inclusive range of the rescan loop,
   the comparator (sort_cmp / sort_cmp_rev) and the Ordering patterns (`Less | Equal`: a tie moves the cached extreme to the
   LATER position) in the rescan and in the update with the entering element, the guard `n >= min_periods`, the output
   `idx - start.unwrap_or(0) + 1` of the arg functions.  ts_vrank: the two comparisons of the recount, the increments, the start
   values, `0.5 * (n_repeat - 1)`, `(n + 1)`, the guard, the removal test `end >= w_m1`, `saturating_sub(1)`.  ts_vminmaxnorm: the
   sentinels, the expiry tests, the comparison of each re-search arm and of the update (`>=` / `<=`: ties move to the later
   position), the guard `(n >= min_periods) & (max != min)`.  ts_vzscore: `n >= min_periods`, `var > EPS`, `n - 1`.

   Every theorem: FOR ALL carriers, null dictionaries, series, states, windows — the model callback IS the callback read out
   of the source table.  Dropping `| Ordering::Equal`, `<` -> `<=` in the rescan condition, `+ 1` -> `+ 0`, `v >= max` -> `v > max`,
   `var > EPS` -> `var >= EPS`: the table changes and the theorem named in the error message no longer compiles.  Axiom-free. *)
From Coq Require Import ZArith List String PeanoNat Bool.
From Tevec Require Import Base.Prelude Base.Num Model.Driver Model.Features Model.Cmp Model.Norm Gen.SrcTables
                          Proofs.SrcTablesMapBase.
Import ListNotations.
Local Open Scope string_scope.
Local Open Scope nat_scope.

Definition ext_entry (name : string) : src_cmp * src_rng * src_sortcmp * list src_ord * src_sortcmp * list src_ord * src_cmp :=
  match slookup name src_ext_kernels with Some e => e | None => (CNe, RgExcl, SrcSortCmp, [], SrcSortCmp, [], CNe) end.
Definition arg_entry (name : string) : nat * nat :=
  match slookup name src_arg_output with Some e => e | None => (7, 7) end.

Ltac eval_ext_tables :=
  repeat match goal with
         | |- context [ext_entry ?n] => let v := eval vm_compute in (ext_entry n) in change (ext_entry n) with v
         | |- context [arg_entry ?n] => let v := eval vm_compute in (arg_entry n) in change (arg_entry n) with v
         | |- context [src_ts_vrank_loop] => let v := eval vm_compute in src_ts_vrank_loop in change src_ts_vrank_loop with v
         | |- context [src_ts_vrank_out] => let v := eval vm_compute in src_ts_vrank_out in change src_ts_vrank_out with v
         | |- context [src_mmnorm_init] => let v := eval vm_compute in src_mmnorm_init in change src_mmnorm_init with v
         | |- context [src_mmnorm_expiry] => let v := eval vm_compute in src_mmnorm_expiry in change src_mmnorm_expiry with v
         | |- context [src_mmnorm_research] => let v := eval vm_compute in src_mmnorm_research in change src_mmnorm_research with v
         | |- context [src_mmnorm_update] => let v := eval vm_compute in src_mmnorm_update in change src_mmnorm_update with v
         | |- context [src_zscore] => let v := eval vm_compute in src_zscore in change src_zscore with v
         end.

(* `match x.sort_cmp(&y) { <patterns> => take, _ => {} }` *)
Definition ord_matches (o : src_ord) (c : comparison) : bool :=
  match o, c with OrdLess, Lt | OrdEqual, Eq | OrdGreater, Gt => true | _, _ => false end.
Definition takes_tbl (l : list src_ord) (c : comparison) : bool := existsb (fun o => ord_matches o c) l.

(* Option<usize> comparisons: None < Some _ *)
Definition opt_cmp (c : src_cmp) (a b : option nat) : bool :=
  match c with
  | CLt => opt_lt a b | CGt => opt_lt b a | CLe => negb (opt_lt b a) | CGe => negb (opt_lt a b)
  | CEq => negb (opt_lt a b) && negb (opt_lt b a) | CNe => opt_lt a b || opt_lt b a
  end.

Section NumCmp.
  Context {A : Type} `{NA : Num A}.
  (* Rust's comparison operators on T::Inner / f64 *)
  Definition ncmp (c : src_cmp) (a b : A) : bool :=
    match c with
    | CLt => nltb a b | CLe => nleb a b | CGt => nltb b a | CGe => nleb b a | CEq => neqb a b | CNe => negb (neqb a b)
    end.
End NumCmp.

(* ---- cmp.rs: the four extrema kernels ------------------------------------------------------------------------------------ *)
Section ExtConf.
  Context {A : Type} `{NA : Num A} {T : Type} `{DT : IsNone T A}.

  Definition scmp_of (s : src_sortcmp) : option A -> option A -> comparison :=
    sortcmp_pick s (sort_cmp (A := A)) (sort_cmp_rev (A := A)).

  Fixpoint src_rescan (sc : src_sortcmp) (ords : list src_ord) (xs : list T) (i cnt : nat) (m : option A) (mi : option nat)
    : res (option A * option nat) :=
    match cnt with
    | 0 => Ok (m, mi)
    | S c => do v <- uget xs i;
             let v_ := to_opt v in
             if takes_tbl ords (scmp_of sc v_ m) then src_rescan sc ords xs (S i) c v_ (Some i)
             else src_rescan sc ords xs (S i) c m mi
    end.
  Lemma src_rescan_takes : forall sc ords, (forall c, takes_tbl ords c = takes c) ->
    forall xs cnt i m mi, src_rescan sc ords xs i cnt m mi = rescan (scmp_of sc) xs i cnt m mi.
  Proof.
    intros sc ords H xs cnt; induction cnt as [|c IH]; intros i m mi; [reflexivity|].
    cbn [src_rescan rescan]. destruct (uget xs i) as [v|k]; [|reflexivity]. cbn [bind]. rewrite H, !IH. reflexivity.
  Qed.

  Definition src_ext_step (name : string) (xs : list T) (s : ext (A := A)) (start : option nat) (e : nat) (v : T)
    : res (ext (A := A)) :=
    let '(rs, rng, sc1, ords1, sc2, ords2, _) := ext_entry name in
    let v := to_opt v in
    let s1 := match v with
              | Some _ =>
                  match x_idx s with
                  | None => {| x_val := v; x_idx := Some e; x_n := S (x_n s) |}
                  | Some _ => {| x_val := x_val s; x_idx := x_idx s; x_n := S (x_n s) |}
                  end
              | None => s
              end in
    if opt_cmp rs (x_idx s1) start then
      match start with
      | None => Panic UnwrapNone
      | Some st =>
          do v0 <- uget xs st;
          do r <- src_rescan sc1 ords1 xs st (rng_count rng st e) (to_opt v0) (x_idx s1);
          Ok {| x_val := fst r; x_idx := snd r; x_n := x_n s1 |}
      end
    else if takes_tbl ords2 (scmp_of sc2 v (x_val s1)) then Ok {| x_val := v; x_idx := Some e; x_n := x_n s1 |}
    else Ok s1.

  (* the comparator the MODEL gives each entry point (Model/Cmp.v: ts_vmin := ts_vext sort_cmp, ...) *)
  Definition model_scmp (name : string) : option A -> option A -> comparison :=
    if String.eqb name "ts_vmin" || String.eqb name "ts_vargmin" then sort_cmp (A := A) else sort_cmp_rev (A := A).

  Ltac ext_step_tac :=
    unfold src_ext_step, ext_step; eval_ext_tables;
    cbv beta iota zeta delta [model_scmp scmp_of sortcmp_pick String.eqb Ascii.eqb Bool.eqb orb opt_cmp];
    match goal with |- (if ?c then _ else _) = _ => destruct c end;
    [ match goal with |- match ?st with _ => _ end = _ => destruct st as [st'|]; [|reflexivity] end;
      match goal with |- bind ?u _ = _ => destruct u as [v0|k]; [|reflexivity] end;
      cbn [bind]; rewrite src_rescan_takes by (intros c; destruct c; reflexivity); reflexivity
    | match goal with |- context [takes_tbl _ ?c] => destruct c end; reflexivity ].

  Theorem src_ext_step_conforms : forall name, In name ["ts_vmin"; "ts_vmax"; "ts_vargmin"; "ts_vargmax"] ->
    forall xs s start e v, src_ext_step name xs s start e v = ext_step (model_scmp name) xs s start e v.
  Proof.
    conformance "src_ext_step_conforms"
      (intros name Hin; repeat (destruct Hin as [<- | Hin]); [.. | destruct Hin]; intros xs s start e v; ext_step_tac).
  Qed.

  (* ts_vmin / ts_vmax: `if n <op> min_periods { min.cast() } else { None.cast() }` *)
  Definition src_vext_cb (name : string) (mp : nat) (xs : list T) (s : ext (A := A)) (a : option nat * nat * T)
    : res (ext (A := A) * option A) :=
    let '(start, e, v) := a in
    do s1 <- src_ext_step name xs s start e v;
    let out := if mcmp_nat (snd (ext_entry name)) (x_n s1) mp then x_val s1 else None in
    do s2 <- ext_post xs s1 start;
    Ok (s2, out).

  (* ts_vargmin / ts_vargmax: `if n <op> min_periods && min.is_some() { min_idx.map(|i| i - start.unwrap_or(d) + p) } else NaN` *)
  Definition src_varg_cb (name : string) (mp : nat) (xs : list T) (s : ext (A := A)) (a : option nat * nat * T)
    : res (ext (A := A) * option nat) :=
    let '(start, e, v) := a in
    do s1 <- src_ext_step name xs s start e v;
    do out <- (if mcmp_nat (snd (ext_entry name)) (x_n s1) mp && (match x_val s1 with Some _ => true | None => false end) then
                 match x_idx s1 with
                 | Some mi => do d <- usub mi (match start with Some st => st | None => fst (arg_entry name) end);
                              Ok (Some (d + snd (arg_entry name)))
                 | None => Ok None
                 end
               else Ok None);
    do s2 <- ext_post xs s1 start;
    Ok (s2, out).

  Theorem src_ts_vmin_conforms :
    (forall body w mp (xs : list T), ts_vmin body w mp xs =
       idx_run body (cmp_window w xs) (vext_cb (sort_cmp (A := A)) (cmp_mp mp (cmp_window w xs)) xs) ext0 xs) /\
    (forall mp (xs : list T) s a, src_vext_cb "ts_vmin" mp xs s a = vext_cb (sort_cmp (A := A)) mp xs s a).
  Proof.
    conformance "src_ts_vmin_conforms"
      (split; [reflexivity|]; intros mp xs s [[start e] v]; unfold src_vext_cb, vext_cb;
       rewrite (src_ext_step_conforms "ts_vmin") by (cbn; tauto); eval_ext_tables; reflexivity).
  Qed.
  Theorem src_ts_vmax_conforms :
    (forall body w mp (xs : list T), ts_vmax body w mp xs =
       idx_run body (cmp_window w xs) (vext_cb (sort_cmp_rev (A := A)) (cmp_mp mp (cmp_window w xs)) xs) ext0 xs) /\
    (forall mp (xs : list T) s a, src_vext_cb "ts_vmax" mp xs s a = vext_cb (sort_cmp_rev (A := A)) mp xs s a).
  Proof.
    conformance "src_ts_vmax_conforms"
      (split; [reflexivity|]; intros mp xs s [[start e] v]; unfold src_vext_cb, vext_cb;
       rewrite (src_ext_step_conforms "ts_vmax") by (cbn; tauto); eval_ext_tables; reflexivity).
  Qed.
  Theorem src_ts_vargmin_conforms :
    (forall body w mp (xs : list T), ts_vargmin body w mp xs =
       idx_run body (cmp_window w xs) (varg_cb (sort_cmp (A := A)) (cmp_mp mp (cmp_window w xs)) xs) ext0 xs) /\
    (forall mp (xs : list T) s a, src_varg_cb "ts_vargmin" mp xs s a = varg_cb (sort_cmp (A := A)) mp xs s a).
  Proof.
    conformance "src_ts_vargmin_conforms"
      (split; [reflexivity|]; intros mp xs s [[start e] v]; unfold src_varg_cb, varg_cb;
       rewrite (src_ext_step_conforms "ts_vargmin") by (cbn; tauto); eval_ext_tables; reflexivity).
  Qed.
  Theorem src_ts_vargmax_conforms :
    (forall body w mp (xs : list T), ts_vargmax body w mp xs =
       idx_run body (cmp_window w xs) (varg_cb (sort_cmp_rev (A := A)) (cmp_mp mp (cmp_window w xs)) xs) ext0 xs) /\
    (forall mp (xs : list T) s a, src_varg_cb "ts_vargmax" mp xs s a = varg_cb (sort_cmp_rev (A := A)) mp xs s a).
  Proof.
    conformance "src_ts_vargmax_conforms"
      (split; [reflexivity|]; intros mp xs s [[start e] v]; unfold src_varg_cb, varg_cb;
       rewrite (src_ext_step_conforms "ts_vargmax") by (cbn; tauto); eval_ext_tables; reflexivity).
  Qed.
End ExtConf.

(* ---- cmp.rs: ts_vrank ---------------------------------------------------------------------------------------------------------- *)
Section TsRankConf.
  Context {A : Type} `{NA : Num A} {T : Type} `{DT : IsNone T A} {B : Type} `{NB : Num B}.
  Local Open Scope num_scope.

  (* the float literals of the closure *)
  Definition lit_eval (s : string) : B :=
    if String.eqb s "1" then none else if String.eqb s "0.5" then half else if String.eqb s "0" then nzero else nnan.

  Fixpoint src_rank_loop (c1 : src_cmp) (inc : string) (c2 : src_cmp) (rinc : nat) (xs : list T) (x : A) (i cnt : nat)
           (rank : B) (nrep : nat) : res (B * nat) :=
    match cnt with
    | 0%nat => Ok (rank, nrep)
    | S c => do a <- uget xs i;
             if not_none a then
               let a' := unwrap a in
               if ncmp c1 a' x then src_rank_loop c1 inc c2 rinc xs x (S i) c (rank + lit_eval inc) nrep
               else if ncmp c2 a' x then src_rank_loop c1 inc c2 rinc xs x (S i) c rank (rinc + nrep)%nat
               else src_rank_loop c1 inc c2 rinc xs x (S i) c rank nrep
             else src_rank_loop c1 inc c2 rinc xs x (S i) c rank nrep
    end.
  (* the instance the source spells out is the loop of the model *)
  Lemma src_rank_loop_model : forall xs x cnt i rank nrep,
    src_rank_loop CLt "1" CEq 1 xs x i cnt rank nrep = rank_loop xs x i cnt rank nrep.
  Proof.
    intros xs x cnt; induction cnt as [|c IH]; intros i rank nrep; [reflexivity|].
    cbn [src_rank_loop rank_loop]. destruct (uget xs i) as [a|k]; [|reflexivity]. cbn [bind].
    destruct (not_none a); [|apply IH]. cbn [ncmp]. destruct (nltb (unwrap a) x); [apply IH|].
    destruct (neqb (unwrap a) x); apply IH.
  Qed.

  Definition src_rank_out (mp : nat) (pct rev : bool) (n : nat) (rank : B) (nrep : nat) : B :=
    let '(ge, h1, m1, p, h2, m2, _, _) := src_ts_vrank_out in
    if mcmp_nat ge n mp then
      let res := if negb rev then rank + lit_eval h1 * nofnat (nrep - m1)%nat
                 else nofnat (n + p)%nat - rank - lit_eval h2 * nofnat (nrep - m2)%nat in
      if pct then res / nofnat n else res
    else nnan.
  Theorem src_ts_vrank_out_conforms : forall mp pct rev n rank nrep,
    src_rank_out mp pct rev n rank nrep = rank_out mp pct rev n rank nrep.
  Proof.
    conformance "src_ts_vrank_out_conforms"
      (intros mp pct rev n rank nrep; unfold src_rank_out, rank_out; eval_ext_tables; reflexivity).
  Qed.

  Definition src_vrank_cb (mp w_m1 : nat) (pct rev : bool) (xs : list T) (n : nat) (a : option nat * nat * T) : res (nat * B) :=
    let '(c1, inc, c2, rinc, rk0, r0, d, rng, ninc) := src_ts_vrank_loop in
    let '(_, _, _, _, _, _, we, _) := src_ts_vrank_out in
    let '(start, e, v) := a in
    do r <- (if not_none v then
               let from := match start with Some st => st | None => d end in
               do rr <- src_rank_loop c1 inc c2 rinc xs (unwrap v) from (rng_count rng from e) (lit_eval rk0) r0;
               Ok ((ninc + n)%nat, fst rr, snd rr)
             else Ok (n, nnan, r0));
    let '(n1, rank, nrep) := r in
    let out := src_rank_out mp pct rev n1 rank nrep in
    do n2 <- (if mcmp_nat we e w_m1 then
                match start with
                | None => Panic UnwrapNone
                | Some st => do v0 <- uget xs st; if not_none v0 then usub n1 1 else Ok n1
                end
              else Ok n1);
    Ok (n2, out).

  Theorem src_ts_vrank_conforms :
    (forall body w mp pct rev (xs : list T), ts_vrank (B := B) body w mp pct rev xs =
       let w' := cmp_window w xs in
       idx_run body w' (vrank_cb (B := B) (cmp_mp mp w') (w' - snd src_ts_vrank_out)%nat pct rev xs) 0%nat xs) /\
    (forall mp w_m1 pct rev (xs : list T) n a, src_vrank_cb mp w_m1 pct rev xs n a = vrank_cb mp w_m1 pct rev xs n a).
  Proof.
    conformance "src_ts_vrank_conforms"
      (split; [intros; eval_ext_tables; reflexivity|];
       intros mp w_m1 pct rev xs n [[start e] v]; unfold src_vrank_cb, vrank_cb; eval_ext_tables; cbv beta iota zeta;
       destruct (not_none v); [rewrite src_rank_loop_model|]; rewrite ?src_ts_vrank_out_conforms; reflexivity).
  Qed.
End TsRankConf.

(* ---- norm.rs: ts_vminmaxnorm, ts_vzscore -------------------------------------------------------------------------------------- *)
Section NormConf.
  Context {A : Type} `{NA : Num A} {T : Type} `{DT : IsNone T A}.
  Local Open Scope num_scope.
  Variables tmin tmax : A.

  Definition sentinel (s : string) : A := if String.eqb s "min_" then tmin else if String.eqb s "max_" then tmax else nnan.

  Fixpoint src_scan_max (c : src_cmp) (xs : list T) (i cnt : nat) (mx : A) (mxi : nat) : res (A * nat) :=
    match cnt with
    | 0%nat => Ok (mx, mxi)
    | S k => do v <- uget xs i;
             if not_none v then
               let x := unwrap v in
               if ncmp c x mx then src_scan_max c xs (S i) k x i else src_scan_max c xs (S i) k mx mxi
             else src_scan_max c xs (S i) k mx mxi
    end.
  Fixpoint src_scan_min (c : src_cmp) (xs : list T) (i cnt : nat) (mn : A) (mni : nat) : res (A * nat) :=
    match cnt with
    | 0%nat => Ok (mn, mni)
    | S k => do v <- uget xs i;
             if not_none v then
               let x := unwrap v in
               if ncmp c x mn then src_scan_min c xs (S i) k x i else src_scan_min c xs (S i) k mn mni
             else src_scan_min c xs (S i) k mn mni
    end.
  Fixpoint src_scan_both (c1 c2 : src_cmp) (xs : list T) (i cnt : nat) (mx : A) (mxi : nat) (mn : A) (mni : nat)
    : res (A * nat * (A * nat)) :=
    match cnt with
    | 0%nat => Ok (mx, mxi, (mn, mni))
    | S k => do v <- uget xs i;
             if not_none v then
               let x := unwrap v in
               let '(mx', mxi') := if ncmp c1 x mx then (x, i) else (mx, mxi) in
               let '(mn', mni') := if ncmp c2 x mn then (x, i) else (mn, mni) in
               src_scan_both c1 c2 xs (S i) k mx' mxi' mn' mni'
             else src_scan_both c1 c2 xs (S i) k mx mxi mn mni
    end.
  Lemma src_scan_max_model : forall xs cnt i mx mxi, src_scan_max CGe xs i cnt mx mxi = scan_max xs i cnt mx mxi.
  Proof.
    intros xs cnt; induction cnt as [|k IH]; intros i mx mxi; [reflexivity|].
    cbn [src_scan_max scan_max]. destruct (uget xs i) as [v|p]; [|reflexivity]. cbn [bind ncmp].
    destruct (not_none v); [|apply IH]. destruct (nleb mx (unwrap v)); apply IH.
  Qed.
  Lemma src_scan_min_model : forall xs cnt i mn mni, src_scan_min CLe xs i cnt mn mni = scan_min xs i cnt mn mni.
  Proof.
    intros xs cnt; induction cnt as [|k IH]; intros i mn mni; [reflexivity|].
    cbn [src_scan_min scan_min]. destruct (uget xs i) as [v|p]; [|reflexivity]. cbn [bind ncmp].
    destruct (not_none v); [|apply IH]. destruct (nleb (unwrap v) mn); apply IH.
  Qed.
  Lemma src_scan_both_model : forall xs cnt i mx mxi mn mni,
    src_scan_both CGe CLe xs i cnt mx mxi mn mni = scan_both xs i cnt mx mxi mn mni.
  Proof.
    intros xs cnt; induction cnt as [|k IH]; intros i mx mxi mn mni; [reflexivity|].
    cbn [src_scan_both scan_both]. destruct (uget xs i) as [v|p]; [|reflexivity]. cbn [bind ncmp].
    destruct (not_none v); [|apply IH]. destruct (nleb mx (unwrap v)); destruct (nleb (unwrap v) mn); apply IH.
  Qed.

  Definition src_mm_research (xs : list T) (s : mm (A := A)) (start : option nat) (e : nat) : res (mm (A := A)) :=
    let '(x1, x2) := src_mmnorm_expiry in
    let '((r1, g1, s1), (r2, g2, s2), (r3, r4, g3, s3, s4)) := src_mmnorm_research in
    match start with
    | None => Ok s
    | Some st =>
        match mcmp_nat x1 (mm_maxi s) st, mcmp_nat x2 (mm_mini s) st with
        | true, false =>
            do r <- src_scan_max s1 xs st (rng_count g1 st e) (sentinel r1) (mm_maxi s);
            Ok {| mm_max := fst r; mm_maxi := snd r; mm_min := mm_min s; mm_mini := mm_mini s; mm_n := mm_n s |}
        | false, true =>
            do r <- src_scan_min s2 xs st (rng_count g2 st e) (sentinel r2) (mm_mini s);
            Ok {| mm_max := mm_max s; mm_maxi := mm_maxi s; mm_min := fst r; mm_mini := snd r; mm_n := mm_n s |}
        | true, true =>
            do r <- src_scan_both s3 s4 xs st (rng_count g3 st e) (sentinel r3) (mm_maxi s) (sentinel r4) (mm_mini s);
            Ok {| mm_max := fst (fst r); mm_maxi := snd (fst r); mm_min := fst (snd r); mm_mini := snd (snd r); mm_n := mm_n s |}
        | false, false => Ok s
        end
    end.
  Theorem src_mm_research_conforms : forall xs s start e, src_mm_research xs s start e = mm_research tmin tmax xs s start e.
  Proof.
    conformance "src_mm_research_conforms"
      (intros xs s start e; unfold src_mm_research, mm_research; eval_ext_tables; cbv beta iota zeta; cbn [mcmp_nat];
       destruct start as [st|]; [|reflexivity];
       destruct (mm_maxi s <? st)%nat; destruct (mm_mini s <? st)%nat;
       rewrite ?src_scan_max_model, ?src_scan_min_model, ?src_scan_both_model; reflexivity).
  Qed.

  Definition src_mmnorm_cb (mp : nat) (xs : list T) (s : mm (A := A)) (a : option nat * nat * T) : res (mm (A := A) * A) :=
    let '(u1, u2, ge, ne) := src_mmnorm_update in
    let '(start, e, v) := a in
    do s1 <- src_mm_research xs s start e;
    let '(s2, out) :=
      if not_none v then
        let x := unwrap v in
        let n := S (mm_n s1) in
        let '(mx, mxi) := if ncmp u1 x (mm_max s1) then (x, e) else (mm_max s1, mm_maxi s1) in
        let '(mn, mni) := if ncmp u2 x (mm_min s1) then (x, e) else (mm_min s1, mm_mini s1) in
        ({| mm_max := mx; mm_maxi := mxi; mm_min := mn; mm_mini := mni; mm_n := n |},
         if mcmp_nat ge n mp && ncmp ne mx mn then (x - mn) / (mx - mn) else nnan)
      else (s1, nnan) in
    do s3 <- (match start with
              | None => Ok s2
              | Some st =>
                  do v0 <- uget xs st;
                  if not_none v0 then
                    do n' <- usub (mm_n s2) 1;
                    Ok {| mm_max := mm_max s2; mm_maxi := mm_maxi s2; mm_min := mm_min s2; mm_mini := mm_mini s2; mm_n := n' |}
                  else Ok s2
              end);
    Ok (s3, out).
  Theorem src_ts_vminmaxnorm_conforms :
    (mm0 tmin tmax = {| mm_max := sentinel (fst src_mmnorm_init); mm_maxi := 0; mm_min := sentinel (snd src_mmnorm_init);
                        mm_mini := 0; mm_n := 0 |}) /\
    (forall mp xs s a, src_mmnorm_cb mp xs s a = mmnorm_cb tmin tmax mp xs s a).
  Proof.
    conformance "src_ts_vminmaxnorm_conforms"
      (split; [eval_ext_tables; reflexivity|];
       intros mp xs s [[start e] v]; unfold src_mmnorm_cb, mmnorm_cb; rewrite src_mm_research_conforms; eval_ext_tables;
       reflexivity).
  Qed.

  (* ts_vzscore *)
  Definition src_zs_emit (mp : nat) (s : zs (A := A)) : A :=
    let '(ge, eps, dof) := src_zscore in
    match z_cur s with
    | Some x =>
        if mcmp_nat ge (z_n s) mp then
          let nf := nofnat (z_n s) in
          let var := z_s2 s / nf in
          let mean := z_s1 s / nf in
          let var := var - powi mean 2 in
          if ncmp eps var neps then (x - mean) / nsqrt (var * nf / nofnat (z_n s - dof)%nat) else nnan
        else nnan
    | None => nnan
    end.
  Theorem src_ts_vzscore_conforms : forall mp s, src_zs_emit mp s = zs_emit mp s.
  Proof. conformance "src_ts_vzscore_conforms" (intros mp s; unfold src_zs_emit, zs_emit; eval_ext_tables; reflexivity). Qed.
End NormConf.

(* nothing is left unread, and the tie-breaking decisions as plain facts about the table *)
Theorem src_ext_table_shape :
  map fst src_ext_kernels = ["ts_vmin"; "ts_vmax"; "ts_vargmin"; "ts_vargmax"] /\
  map fst src_arg_output = ["ts_vargmin"; "ts_vargmax"].
Proof. conformance "src_ext_table_shape" (vm_compute; split; reflexivity). Qed.

(* non-vacuity: the table semantics at the integer carrier — a tie moves the cached minimum to the later index, and an expired
   minimum is found again by the inclusive rescan *)
Example src_ext_examples :
  src_ext_step (A := Z) (T := option Z) (DT := IsNone_option) "ts_vmin" [Some 3; Some 3]%Z {| x_val := Some 3%Z; x_idx := Some 0; x_n := 1 |} None 1 (Some 3%Z)
    = Ok {| x_val := Some 3%Z; x_idx := Some 1; x_n := 2 |} /\
  src_ext_step (A := Z) (T := option Z) (DT := IsNone_option) "ts_vmin" [Some 1; Some 5; Some 4]%Z {| x_val := Some 1%Z; x_idx := Some 0; x_n := 2 |} (Some 1) 2 (Some 4%Z)
    = Ok {| x_val := Some 4%Z; x_idx := Some 2; x_n := 3 |} /\
  takes_tbl [OrdLess; OrdEqual] Gt = false /\ opt_cmp CLt None (Some 0) = true.
Proof. vm_compute. repeat split; reflexivity. Qed.

Print Assumptions src_ext_step_conforms.
Print Assumptions src_ts_vmin_conforms.
Print Assumptions src_ts_vmax_conforms.
Print Assumptions src_ts_vargmin_conforms.
Print Assumptions src_ts_vargmax_conforms.
Print Assumptions src_ts_vrank_conforms.
Print Assumptions src_mm_research_conforms.
Print Assumptions src_ts_vminmaxnorm_conforms.
Print Assumptions src_ts_vzscore_conforms.
