(* Proofs/Kernels3.v — C10: the index-form kernels never panic inside the callback and never expose an
   unwritten slot, at EVERY carrier: `uget` of Model/Cmp.v is a CHECKED read (out of range = Panic OtherPanic),
   `n -= 1` is `usub` (Panic Underflow), `start.unwrap()` is Panic UnwrapNone; a result `Done out` therefore
   says that none of them happened.  The only invariant needed is the carrier-generic COUNTING invariant
   "the counter equals the number of non-null elements of the positions the state has seen and not yet
   removed" (it uses `not_none` only, never the order).  For the arg-extrema the offset `min_idx - start` needs
   in addition that the comparison is reflexive on the elements of the series (false only for `Some(NaN)` in
   an optional float series, DESIGN 5.4).   Stdlib only, axiom-free.                                       *)
From Coq Require Import ZArith Lia List.
From Tevec Require Import Base.Prelude Base.Num Model.Driver Proofs.Driver Model.Features Model.Cmp
     Model.Norm Model.Binary Model.Reg Model.Kernels Proofs.Kernels Proofs.IdxRun Proofs.IdxPrefix
     Proofs.Kernels2.
Import ListNotations.

(* ---- checked reads ----------------------------------------------------------------------------------- *)
Lemma uget_ok {T} (xs : list T) i v : nth_error xs i = Some v -> uget xs i = Ok v.
Proof. intros H. unfold uget. rewrite H. reflexivity. Qed.
Lemma uget_lt {T} (xs : list T) i : i < length xs -> exists v, nth_error xs i = Some v /\ uget xs i = Ok v.
Proof. intros H. destruct (nth_error_Some_lt xs i H) as [v Hv]. exists v. split; [exact Hv|apply uget_ok; exact Hv]. Qed.
Lemma uget_inv {T} (xs : list T) i v : uget xs i = Ok v -> nth_error xs i = Some v.
Proof. unfold uget. destruct (nth_error xs i); intros H; [injection H as ->; reflexivity|discriminate]. Qed.

(* ---- the counting invariant ---------------------------------------------------------------------------- *)
Definition b2n (b : bool) : nat := if b then 1 else 0.

Section Count.
  Context {T : Type}.
  Variable p : T -> bool.
  Definition cntp (l : list T) : nat := length (filter p l).
  Lemma cntp_snoc l v : cntp (l ++ [v]) = cntp l + b2n (p v).
  Proof. unfold cntp. rewrite filter_app, app_length. cbn. destruct (p v); reflexivity. Qed.
  Lemma cntp_cons v l : cntp (v :: l) = b2n (p v) + cntp l.
  Proof. unfold cntp. cbn. destruct (p v); reflexivity. Qed.

  Variable xs : list T.
  Variable W : nat.
  (* valid elements among the positions seen and not yet removed before step k *)
  Definition cnt_at (k : nat) : nat := cntp (seg (k - (W - 1)) k xs).
  Lemma cnt_at_0 : cnt_at 0 = 0.
  Proof. unfold cnt_at. cbn [Nat.sub]. rewrite seg_nil. reflexivity. Qed.
  Lemma cnt_add k v : nth_error xs k = Some v -> cntp (seg (k - (W - 1)) (S k) xs) = cnt_at k + b2n (p v).
  Proof. intros Hv. rewrite (@seg_snoc _ (k - (W - 1)) k xs v) by (try lia; exact Hv). apply cntp_snoc. Qed.
  Lemma cnt_next_none k : start_of W k = None -> cnt_at (S k) = cntp (seg (k - (W - 1)) (S k) xs).
  Proof.
    unfold start_of. destruct (k <? W - 1) eqn:E; [|discriminate]. intros _. apply Nat.ltb_lt in E.
    unfold cnt_at. replace (S k - (W - 1)) with (k - (W - 1)) by lia. reflexivity.
  Qed.
  Lemma cnt_next_some k j v0 : start_of W k = Some j -> nth_error xs j = Some v0 ->
    j <= k /\ cntp (seg (k - (W - 1)) (S k) xs) = b2n (p v0) + cnt_at (S k).
  Proof.
    unfold start_of. destruct (k <? W - 1) eqn:E; [discriminate|]. intros H. injection H as <-.
    apply Nat.ltb_ge in E. intros Hv0. split; [lia|].
    rewrite (@seg_cons _ (k - (W - 1)) (S k) xs v0) by (try lia; exact Hv0). rewrite cntp_cons.
    unfold cnt_at. replace (S k - (W - 1)) with (S (k - (W - 1))) by lia. reflexivity.
  Qed.
End Count.

(* ---- the shape of the result of an index-form kernel ------------------------------------------------- *)
Lemma idx_run_w0 {T St O} body (cb : St -> option nat * nat * T -> res (St * O)) s0 (xs : list T) :
  xs <> [] -> idx_run body 0 cb s0 xs = Panicked AssertFail.
Proof.
  intros H. destruct xs as [|x xs]; [contradiction|]. unfold idx_run. destruct body; reflexivity.
Qed.

(* a complete result, or the documented rejection of window 0 on a non-empty series — never a panic inside
   the callback (OtherPanic = out-of-range read, Underflow, UnwrapNone), never `Uninit` *)
Definition kernel_safe {T O} (w : nat) (xs : list T) (r : outcome O) : Prop :=
  (exists out, r = Done out /\ length out = length xs) \/
  (w = 0 /\ xs <> [] /\ r = Panicked AssertFail).

Theorem idx_run_safe {T St O} body w (cb : St -> option nat * nat * T -> res (St * O)) s0 (xs : list T)
        (Pre : nat -> St -> Prop) :
  Pre 0 s0 ->
  (forall k v s, nth_error xs k = Some v -> Pre k s ->
     exists s' o, cb s (start_of (eff_window body w (length xs)) k, k, v) = Ok (s', o) /\ Pre (S k) s') ->
  kernel_safe w xs (idx_run body w cb s0 xs).
Proof.
  intros H0 Hstep. destruct w as [|w].
  - destruct xs as [|x xs].
    + left. exists []. split; [apply idx_run_nil_any|reflexivity].
    + right. split; [reflexivity|]. split; [discriminate|]. apply idx_run_w0. discriminate.
  - left. destruct (idx_run_spec cb xs body (S w) Pre (fun _ _ => True) s0) as (outs & H1 & H2 & _);
      [lia|exact H0| |eauto].
    intros k v s Hv HP. destruct (Hstep k v s Hv HP) as (s' & o & E & HP'). eauto.
Qed.

(* the cmp family clamps its window to the length first *)
Lemma cmp_window_eff {T} body w (xs : list T) :
  eff_window body (cmp_window w xs) (length xs) = cmp_window w xs.
Proof. unfold eff_window, cmp_window. destruct body; lia. Qed.
Lemma kernel_safe_cmp {T O} w (xs : list T) (r : outcome O) :
  kernel_safe (cmp_window w xs) xs r -> kernel_safe w xs r.
Proof.
  unfold kernel_safe, cmp_window. intros [H|(H1 & H2 & H3)]; [left; exact H|right].
  split; [|split; assumption]. destruct xs; [contradiction|cbn [length] in H1; lia].
Qed.

(* ---- cmp.rs: extrema ------------------------------------------------------------------------------------ *)
Section CmpSafe.
  Context {A : Type} {NA : Num A} {T : Type} {DT : IsNone T A}.
  Variable scmp : option A -> option A -> comparison.
  Variable xs : list T.
  Variable W : nat.
  Notation cnt := (cnt_at (@not_none T A DT) xs W).

  Lemma rescan_ok : forall c i m mi, i + c <= length xs -> exists r, rescan scmp xs i c m mi = Ok r.
  Proof.
    induction c as [|c IH]; intros i m mi H; [eexists; reflexivity|]. cbn [rescan].
    destruct (uget_lt xs i) as (v & _ & ->); [lia|]. cbn [bind].
    destruct (takes (scmp (to_opt v) m)); apply IH; lia.
  Qed.

  Lemma ext_step_ok s st e v : start_le st e -> nth_error xs e = Some v ->
    exists s1, ext_step scmp xs s st e v = Ok s1 /\ x_n s1 = x_n s + b2n (not_none v).
  Proof.
    intros Hs Hv. assert (He : e < length xs) by (apply nth_error_Some; congruence).
    unfold ext_step. cbv zeta.
    match goal with |- context [opt_lt (x_idx ?t) st] => set (s1 := t) end.
    assert (Hn : x_n s1 = x_n s + b2n (not_none v)).
    { unfold s1, to_opt, not_none. destruct (is_none v); cbn [negb b2n]; [lia|].
      destruct (x_idx s); cbn [x_n]; lia. }
    destruct (opt_lt (x_idx s1) st) eqn:El.
    - destruct st as [j|]; [|rewrite opt_lt_none in El; discriminate]. cbn [start_le] in Hs.
      destruct (uget_lt xs j) as (v0 & _ & ->); [lia|]. cbn [bind].
      destruct (rescan_ok (S e - j) j (to_opt v0) (x_idx s1)) as [r ->]; [lia|]. cbn [bind].
      eexists. split; [reflexivity|exact Hn].
    - match goal with |- context [takes ?c] => destruct (takes c) end;
        (eexists; split; [reflexivity|exact Hn]).
  Qed.

  (* the removal after the emission: `n -= 1` never underflows *)
  Lemma ext_post_ok s1 k v : nth_error xs k = Some v ->
    x_n s1 = cntp (@not_none T A DT) (seg (k - (W - 1)) (S k) xs) ->
    exists s2, ext_post xs s1 (start_of W k) = Ok s2 /\ x_n s2 = cnt (S k).
  Proof.
    intros Hv N1. assert (He : k < length xs) by (apply nth_error_Some; congruence).
    unfold ext_post. destruct (start_of W k) as [j|] eqn:Es.
    - pose proof (start_of_le W k) as Hj. rewrite Es in Hj. cbn [start_le] in Hj.
      destruct (uget_lt xs j) as (v0 & Hv0 & ->); [lia|]. cbn [bind].
      destruct (cnt_next_some (@not_none T A DT) xs W k j v0 Es Hv0) as [_ Hc]. rewrite Hc in N1.
      destruct (not_none v0); cbn [b2n] in N1.
      + unfold usub. replace (1 <=? x_n s1) with true by (symmetry; apply Nat.leb_le; lia). cbn [bind].
        eexists. split; [reflexivity|]. cbn [x_n]. lia.
      + eexists. split; [reflexivity|]. lia.
    - eexists. split; [reflexivity|]. rewrite (cnt_next_none _ _ _ _ Es). exact N1.
  Qed.

  Lemma vext_step mp k v s : nth_error xs k = Some v -> x_n s = cnt k ->
    exists s' o, vext_cb scmp mp xs s (start_of W k, k, v) = Ok (s', o) /\ x_n s' = cnt (S k).
  Proof.
    intros Hv Hn. destruct (ext_step_ok s (start_of W k) k v (start_of_le W k) Hv) as (s1 & E1 & N1).
    unfold vext_cb. rewrite E1. cbn [bind].
    destruct (ext_post_ok s1 k v Hv) as (s2 & E2 & N2).
    { rewrite N1, Hn. symmetry. apply cnt_add. exact Hv. }
    rewrite E2. cbn [bind]. eauto.
  Qed.

  (* arg-extrema: the cached index is never left behind the window start when the comparison is reflexive
     on the elements of the series *)
  Definition scmp_refl_on : Prop :=
    forall i v, nth_error xs i = Some v -> takes (scmp (to_opt v) (to_opt v)) = true.
  Hypothesis Hrefl : scmp_refl_on.

  Lemma rescan_idx : forall c i m mi r, rescan scmp xs i c m mi = Ok r ->
    r = (m, mi) \/ (exists i', snd r = Some i' /\ i <= i').
  Proof.
    induction c as [|c IH]; intros i m mi r H; cbn [rescan] in H; [left; congruence|].
    destruct (uget xs i) as [v|pk]; [|discriminate]. cbn [bind] in H.
    destruct (takes (scmp (to_opt v) m)); apply IH in H.
    - right. destruct H as [->|(i' & H1 & H2)]; [exists i; split; [reflexivity|lia]|exists i'; split; [exact H1|lia]].
    - destruct H as [->|(i' & H1 & H2)]; [left; reflexivity|right; exists i'; split; [exact H1|lia]].
  Qed.

  Lemma ext_step_idx s j e v s1 : j <= e -> ext_step scmp xs s (Some j) e v = Ok s1 ->
    exists i, x_idx s1 = Some i /\ j <= i.
  Proof.
    intros Hj H. unfold ext_step in H. cbv zeta in H.
    match type of H with context [opt_lt (x_idx ?t) (Some j)] => set (sb := t) in H end.
    destruct (opt_lt (x_idx sb) (Some j)) eqn:El.
    - destruct (uget xs j) as [v0|pk] eqn:Eu; [|discriminate]. apply uget_inv in Eu. cbn [bind] in H.
      replace (S e - j) with (S (e - j)) in H by lia. cbn [rescan] in H.
      rewrite (uget_ok _ _ _ Eu) in H. cbn [bind] in H. rewrite (Hrefl j v0 Eu) in H.
      destruct (rescan scmp xs (S j) (e - j) (to_opt v0) (Some j)) as [r|pk] eqn:Er; [|discriminate].
      cbn [bind] in H. injection H as <-. cbn [x_idx]. apply rescan_idx in Er.
      destruct Er as [->|(i' & H1 & H2)]; [exists j; split; [reflexivity|lia]|exists i'; split; [exact H1|lia]].
    - destruct (x_idx sb) as [i|] eqn:Ei; [|discriminate]. cbn [opt_lt] in El. apply Nat.ltb_ge in El.
      match type of H with context [takes ?c] => destruct (takes c) end; injection H as <-; cbn [x_idx].
      + exists e. split; [reflexivity|lia].
      + exists i. split; [exact Ei|lia].
  Qed.

  Lemma varg_step mp k v s : nth_error xs k = Some v -> x_n s = cnt k ->
    exists s' o, varg_cb scmp mp xs s (start_of W k, k, v) = Ok (s', o) /\ x_n s' = cnt (S k).
  Proof.
    intros Hv Hn. destruct (ext_step_ok s (start_of W k) k v (start_of_le W k) Hv) as (s1 & E1 & N1).
    unfold varg_cb. rewrite E1. cbn [bind].
    assert (Hout : exists o, (if (mp <=? x_n s1) && match x_val s1 with Some _ => true | None => false end
                              then match x_idx s1 with
                                   | Some mi => do d <- usub mi match start_of W k with Some st => st | None => 0 end;
                                                Ok (Some (d + 1))
                                   | None => Ok None
                                   end
                              else Ok None) = Ok o).
    { destruct ((mp <=? x_n s1) && _); [|eauto]. destruct (x_idx s1) as [mi|] eqn:Ei; [|eauto].
      destruct (start_of W k) as [j|] eqn:Es.
      - pose proof (start_of_le W k) as Hj. rewrite Es in Hj. cbn [start_le] in Hj.
        destruct (ext_step_idx s j k v s1 Hj E1) as (i & Hi & Hji). rewrite Ei in Hi. injection Hi as ->.
        unfold usub. replace (j <=? i) with true by (symmetry; apply Nat.leb_le; exact Hji). cbn [bind]. eauto.
      - unfold usub. cbn [Nat.leb bind]. eauto. }
    destruct Hout as [o ->]. cbn [bind].
    destruct (ext_post_ok s1 k v Hv) as (s2 & E2 & N2).
    { rewrite N1, Hn. symmetry. apply cnt_add. exact Hv. }
    rewrite E2. cbn [bind]. eauto.
  Qed.
End CmpSafe.

Section CmpEntrySafe.
  Context {A : Type} {NA : Num A} {T : Type} {DT : IsNone T A}.
  Variable scmp : option A -> option A -> comparison.

  Theorem ts_vext_safe body w mp (xs : list T) : kernel_safe w xs (ts_vext scmp body w mp xs).
  Proof.
    apply kernel_safe_cmp. unfold ts_vext.
    apply (idx_run_safe body (cmp_window w xs) _ ext0 xs
             (fun k s => x_n s = cnt_at (@not_none T A DT) xs (cmp_window w xs) k)).
    - rewrite cnt_at_0. reflexivity.
    - intros k v s Hv HP. rewrite cmp_window_eff. apply vext_step; assumption.
  Qed.

  Theorem ts_varg_safe body w mp (xs : list T) :
    scmp_refl_on scmp xs -> kernel_safe w xs (ts_varg scmp body w mp xs).
  Proof.
    intros Hr. apply kernel_safe_cmp. unfold ts_varg.
    apply (idx_run_safe body (cmp_window w xs) _ ext0 xs
             (fun k s => x_n s = cnt_at (@not_none T A DT) xs (cmp_window w xs) k)).
    - rewrite cnt_at_0. reflexivity.
    - intros k v s Hv HP. rewrite cmp_window_eff. apply varg_step; assumption.
  Qed.
End CmpEntrySafe.

(* every non-null element of the series equals itself (every integer, every non-NaN float, every exact real;
   false only for Some(NaN) in an optional float series) *)
Definition self_eq_on {A T} {NA : Num A} {DT : IsNone T A} (xs : list T) : Prop :=
  forall i v, nth_error xs i = Some v -> is_none v = false ->
    nltb (unwrap v) (unwrap v) = false /\ neqb (unwrap v) (unwrap v) = true.

Section ArgEntrySafe.
  Context {A : Type} {NA : Num A} {T : Type} {DT : IsNone T A}.

  Lemma sort_cmp_refl_on (xs : list T) : self_eq_on xs -> scmp_refl_on sort_cmp xs.
  Proof.
    intros H i v Hv. unfold to_opt. destruct (is_none v) eqn:E; [reflexivity|].
    destruct (H i v Hv E) as [H1 H2]. unfold sort_cmp, pcmp. rewrite H1, H2. reflexivity.
  Qed.
  Lemma sort_cmp_rev_refl_on (xs : list T) : self_eq_on xs -> scmp_refl_on sort_cmp_rev xs.
  Proof.
    intros H i v Hv. unfold to_opt. destruct (is_none v) eqn:E; [reflexivity|].
    destruct (H i v Hv E) as [H1 H2]. unfold sort_cmp_rev, pcmp. rewrite H1, H2. reflexivity.
  Qed.

  Theorem ts_vmin_safe body w mp (xs : list T) : kernel_safe w xs (ts_vmin body w mp xs).
  Proof. apply ts_vext_safe. Qed.
  Theorem ts_vmax_safe body w mp (xs : list T) : kernel_safe w xs (ts_vmax body w mp xs).
  Proof. apply ts_vext_safe. Qed.
  Theorem ts_vargmin_safe body w mp (xs : list T) : self_eq_on xs -> kernel_safe w xs (ts_vargmin body w mp xs).
  Proof. intros H. apply ts_varg_safe. apply sort_cmp_refl_on. exact H. Qed.
  Theorem ts_vargmax_safe body w mp (xs : list T) : self_eq_on xs -> kernel_safe w xs (ts_vargmax body w mp xs).
  Proof. intros H. apply ts_varg_safe. apply sort_cmp_rev_refl_on. exact H. Qed.
End ArgEntrySafe.

Lemma self_eq_on_Z {T} {DT : IsNone T Z} (xs : list T) : self_eq_on xs.
Proof. intros i v _ _. cbn. split; [apply Z.ltb_irrefl|apply Z.eqb_refl]. Qed.

(* ---- cmp.rs: ts_vrank -------------------------------------------------------------------------------- *)
Section RankSafe.
  Context {A : Type} {NA : Num A} {T : Type} {DT : IsNone T A} {B : Type} {NB : Num B}.
  Variable xs : list T.
  Variable W : nat.
  Notation cnt := (cnt_at (@not_none T A DT) xs W).

  Lemma rank_loop_ok x : forall c i (rank : B) nrep, i + c <= length xs ->
    exists r, Cmp.rank_loop xs x i c rank nrep = Ok r.
  Proof.
    induction c as [|c IH]; intros i rank nrep H; [eexists; reflexivity|]. cbn [Cmp.rank_loop].
    destruct (uget_lt xs i) as (a & _ & ->); [lia|]. cbn [bind].
    destruct (not_none a); [|apply IH; lia].
    destruct (nltb (unwrap a) x); [apply IH; lia|]. destruct (neqb (unwrap a) x); apply IH; lia.
  Qed.

  Lemma rank_head_ok mp pct rev m st k v : start_le st k -> nth_error xs k = Some v ->
    exists h, rank_head (B := B) xs mp pct rev m st k v = Ok h /\ fst h = m + b2n (not_none v).
  Proof.
    intros Hs Hv. assert (He : k < length xs) by (apply nth_error_Some; congruence).
    unfold rank_head. destruct (not_none v); cbn [b2n].
    - destruct (rank_loop_ok (unwrap v) (k - match st with Some j => j | None => 0 end)
                             match st with Some j => j | None => 0 end none 1) as [rr ->].
      { destruct st; cbn [start_le] in Hs; lia. }
      cbn [bind]. eexists. split; [reflexivity|]. cbn [fst]. lia.
    - cbn [bind]. eexists. split; [reflexivity|]. cbn [fst]. lia.
  Qed.

  (* `end >= w_m1` holds exactly when the driver passes Some start: start.unwrap() never panics *)
  Lemma vrank_step mp pct rev k v n : nth_error xs k = Some v -> n = cnt k ->
    exists n' o, vrank_cb (B := B) mp (W - 1) pct rev xs n (start_of W k, k, v) = Ok (n', o) /\ n' = cnt (S k).
  Proof.
    intros Hv Hn. assert (He : k < length xs) by (apply nth_error_Some; congruence).
    rewrite vrank_cb_head.
    destruct (rank_head_ok mp pct rev n (start_of W k) k v (start_of_le W k) Hv) as (h & -> & Hh). cbn [bind].
    assert (N1 : fst h = cntp (@not_none T A DT) (seg (k - (W - 1)) (S k) xs)).
    { rewrite Hh, Hn. symmetry. apply cnt_add. exact Hv. }
    destruct (start_of W k) as [j|] eqn:Es.
    - assert (Ew : (W - 1 <=? k) = true).
      { unfold start_of in Es. destruct (k <? W - 1) eqn:E; [discriminate|]. apply Nat.ltb_ge in E.
        apply Nat.leb_le. exact E. }
      rewrite Ew. pose proof (start_of_le W k) as Hj. rewrite Es in Hj. cbn [start_le] in Hj.
      destruct (uget_lt xs j) as (v0 & Hv0 & ->); [lia|]. cbn [bind].
      destruct (cnt_next_some (@not_none T A DT) xs W k j v0 Es Hv0) as [_ Hc]. rewrite Hc in N1.
      destruct (not_none v0); cbn [b2n] in N1.
      + unfold usub. replace (1 <=? fst h) with true by (symmetry; apply Nat.leb_le; lia). cbn [bind].
        eexists _, _. split; [reflexivity|]. lia.
      + cbn [bind]. eexists _, _. split; [reflexivity|]. lia.
    - assert (Ew : (W - 1 <=? k) = false).
      { unfold start_of in Es. destruct (k <? W - 1) eqn:E; [|discriminate]. apply Nat.ltb_lt in E.
        apply Nat.leb_gt. exact E. }
      rewrite Ew. cbn [bind]. eexists _, _. split; [reflexivity|].
      rewrite (cnt_next_none _ _ _ _ Es). exact N1.
  Qed.
End RankSafe.

Theorem ts_vrank_safe {A T B : Type} {NA : Num A} {DT : IsNone T A} {NB : Num B}
        body w mp pct rev (xs : list T) :
  kernel_safe w xs (ts_vrank (B := B) body w mp pct rev xs).
Proof.
  apply kernel_safe_cmp. unfold ts_vrank.
  apply (idx_run_safe body (cmp_window w xs) _ 0 xs
           (fun k n => n = cnt_at (@not_none T A DT) xs (cmp_window w xs) k)).
  - rewrite cnt_at_0. reflexivity.
  - intros k v n Hv HP. rewrite cmp_window_eff. apply vrank_step; assumption.
Qed.

(* ---- norm.rs: ts_vminmaxnorm -------------------------------------------------------------------------- *)
Section NormSafe.
  Context {A : Type} {NA : Num A} {T : Type} {DT : IsNone T A}.
  Variables tmin tmax : A.
  Variable xs : list T.
  Variable W : nat.
  Notation cnt := (cnt_at (@not_none T A DT) xs W).

  Lemma scan_max_ok : forall c i mx mxi, i + c <= length xs -> exists r, scan_max xs i c mx mxi = Ok r.
  Proof.
    induction c as [|c IH]; intros i mx mxi H; [eexists; reflexivity|]. cbn [scan_max].
    destruct (uget_lt xs i) as (a & _ & ->); [lia|]. cbn [bind].
    destruct (not_none a); [|apply IH; lia]. destruct (nleb mx (unwrap a)); apply IH; lia.
  Qed.
  Lemma scan_min_ok : forall c i mn mni, i + c <= length xs -> exists r, scan_min xs i c mn mni = Ok r.
  Proof.
    induction c as [|c IH]; intros i mn mni H; [eexists; reflexivity|]. cbn [scan_min].
    destruct (uget_lt xs i) as (a & _ & ->); [lia|]. cbn [bind].
    destruct (not_none a); [|apply IH; lia]. destruct (nleb (unwrap a) mn); apply IH; lia.
  Qed.
  Lemma scan_both_ok : forall c i mx mxi mn mni, i + c <= length xs ->
    exists r, scan_both xs i c mx mxi mn mni = Ok r.
  Proof.
    induction c as [|c IH]; intros i mx mxi mn mni H; [eexists; reflexivity|]. cbn [scan_both].
    destruct (uget_lt xs i) as (a & _ & ->); [lia|]. cbn [bind].
    destruct (not_none a); [|apply IH; lia].
    destruct (nleb mx (unwrap a)), (nleb (unwrap a) mn); apply IH; lia.
  Qed.

  Lemma mm_research_ok s st e : start_le st e -> e <= length xs ->
    exists s1, mm_research tmin tmax xs s st e = Ok s1 /\ mm_n s1 = mm_n s.
  Proof.
    intros Hs He. unfold mm_research. destruct st as [j|]; [|eauto]. cbn [start_le] in Hs.
    destruct (mm_maxi s <? j), (mm_mini s <? j); try (eexists; split; reflexivity).
    - destruct (scan_both_ok (e - j) j tmin (mm_maxi s) tmax (mm_mini s)) as [r ->]; [lia|].
      cbn [bind]. eexists. split; reflexivity.
    - destruct (scan_max_ok (e - j) j tmin (mm_maxi s)) as [r ->]; [lia|].
      cbn [bind]. eexists. split; reflexivity.
    - destruct (scan_min_ok (e - j) j tmax (mm_mini s)) as [r ->]; [lia|].
      cbn [bind]. eexists. split; reflexivity.
  Qed.

  (* the closure after the re-search, in terms of IdxPrefix.mm_head (update by the current element + output) *)
  Lemma mmnorm_cb_unfold mp s st e v :
    mmnorm_cb tmin tmax mp xs s (st, e, v) =
    do s1 <- mm_research tmin tmax xs s st e;
    let h := mm_head mp s1 e v in
    do s3 <- (match st with
              | None => Ok (fst h)
              | Some j =>
                  do v0 <- uget xs j;
                  if not_none v0 then
                    do n' <- usub (mm_n (fst h)) 1;
                    Ok {| mm_max := mm_max (fst h); mm_maxi := mm_maxi (fst h); mm_min := mm_min (fst h);
                          mm_mini := mm_mini (fst h); mm_n := n' |}
                  else Ok (fst h)
              end);
    Ok (s3, snd h).
  Proof.
    unfold mmnorm_cb. destruct (mm_research tmin tmax xs s st e) as [s1|pk]; [|reflexivity]. cbn [bind].
    unfold mm_head. destruct (not_none v); [|reflexivity].
    destruct (nleb (mm_max s1) (unwrap v)), (nleb (unwrap v) (mm_min s1)); reflexivity.
  Qed.

  Lemma mm_head_n_eq mp (s1 : @mm A) e v : mm_n (fst (mm_head mp s1 e v)) = mm_n s1 + b2n (not_none v).
  Proof.
    unfold mm_head. destruct (not_none v); cbn [b2n].
    - destruct (nleb (mm_max s1) (unwrap v)), (nleb (unwrap v) (mm_min s1)); cbn [fst mm_n]; lia.
    - cbn [fst]. lia.
  Qed.

  Lemma mmnorm_step mp k v s : nth_error xs k = Some v -> mm_n s = cnt k ->
    exists s' o, mmnorm_cb tmin tmax mp xs s (start_of W k, k, v) = Ok (s', o) /\ mm_n s' = cnt (S k).
  Proof.
    intros Hv Hn. assert (He : k < length xs) by (apply nth_error_Some; congruence).
    rewrite mmnorm_cb_unfold.
    destruct (mm_research_ok s (start_of W k) k (start_of_le W k) ltac:(lia)) as (s1 & -> & N0). cbn [bind].
    cbv zeta. set (h := mm_head mp s1 k v).
    assert (N1 : mm_n (fst h) = cntp (@not_none T A DT) (seg (k - (W - 1)) (S k) xs)).
    { unfold h. rewrite mm_head_n_eq, N0, Hn. symmetry. apply cnt_add. exact Hv. }
    destruct (start_of W k) as [j|] eqn:Es.
    - pose proof (start_of_le W k) as Hj. rewrite Es in Hj. cbn [start_le] in Hj.
      destruct (uget_lt xs j) as (v0 & Hv0 & ->); [lia|]. cbn [bind].
      destruct (cnt_next_some (@not_none T A DT) xs W k j v0 Es Hv0) as [_ Hc]. rewrite Hc in N1.
      destruct (not_none v0); cbn [b2n] in N1.
      + unfold usub. replace (1 <=? mm_n (fst h)) with true by (symmetry; apply Nat.leb_le; lia). cbn [bind].
        eexists _, _. split; [reflexivity|]. cbn [mm_n]. lia.
      + cbn [bind]. eexists _, _. split; [reflexivity|]. lia.
    - cbn [bind]. eexists _, _. split; [reflexivity|]. rewrite (cnt_next_none _ _ _ _ Es). exact N1.
  Qed.
End NormSafe.

Theorem ts_vminmaxnorm_safe {A T : Type} {NA : Num A} {DT : IsNone T A} (tmin tmax : A)
        body w mp (xs : list T) :
  kernel_safe w xs (ts_vminmaxnorm tmin tmax body w mp xs).
Proof.
  unfold ts_vminmaxnorm.
  apply (idx_run_safe body w _ (mm0 tmin tmax) xs
           (fun k s => mm_n s = cnt_at (@not_none T A DT) xs (eff_window body w (length xs)) k)).
  - rewrite cnt_at_0. reflexivity.
  - intros k v s Hv HP. apply mmnorm_step; assumption.
Qed.

(* ---- reg.rs: the checked residual callback never panics under the drivers and equals the pure model ---- *)
Lemma idx_run_refine {T St O} body w (cb1 : St -> option nat * nat * T -> res (St * O))
      (cb2 : St -> option nat * nat * T -> St * O) s0 (xs : list T) (Pre : nat -> St -> Prop) :
  1 <= w -> Pre 0 s0 ->
  (forall k v s, nth_error xs k = Some v -> Pre k s ->
     cb1 s (start_of (eff_window body w (length xs)) k, k, v)
     = Ok (cb2 s (start_of (eff_window body w (length xs)) k, k, v)) /\
     Pre (S k) (fst (cb2 s (start_of (eff_window body w (length xs)) k, k, v)))) ->
  idx_run body w cb1 s0 xs = idx_run body w (fun s a => Ok (cb2 s a)) s0 xs.
Proof.
  intros Hw H0 Hstep. rewrite !idx_run_unfold by exact Hw. do 2 f_equal. unfold idx_args.
  set (sf := start_of (eff_window body w (length xs))) in *.
  assert (G : forall l k s, skipn k xs = l -> Pre k s ->
             run (lift_cb cb1) (Ok s) (map (fun p => (sf (fst p), fst p, snd p)) (combine (seq k (length l)) l))
             = run (lift_cb (fun s a => Ok (cb2 s a))) (Ok s)
                   (map (fun p => (sf (fst p), fst p, snd p)) (combine (seq k (length l)) l))).
  { induction l as [|v l IH]; intros k s Hl HP; [reflexivity|].
    destruct (@skipn_cons_nth T k xs v l Hl) as [Hv Hl'].
    destruct (Hstep k v s Hv HP) as [E HP'].
    cbn [length seq combine map run fst snd lift_cb]. rewrite E.
    destruct (cb2 s (sf k, k, v)) as [s' o] eqn:E2. cbn [fst] in HP'. f_equal. apply IH; assumption. }
  unfold mapi. exact (G xs 0 s0 eq_refl H0).
Qed.

Lemma snd_if {X} (c : bool) (a b : tr X) :
  snd (match c return tr X with true => a | false => b end) = if c then snd a else snd b.
Proof. destruct c; reflexivity. Qed.
Lemma if_Ok {X} (c : bool) (a b : X) : (if c then Ok a else Ok b) = Ok (if c then a else b).
Proof. destruct c; reflexivity. Qed.

Section ResidSafe.
  Context {A : Type} {NA : Num A} {T1 : Type} {D1 : IsNone T1 A} {T2 : Type} {D2 : IsNone T2 A}.
  Variable zs : list (T1 * T2).
  Variable W : nat.
  Let bothp : T1 * T2 -> bool := both.
  Notation cnt := (cnt_at bothp zs W).

  Lemma read_pairs_tr_ok : forall c i, i + c <= length zs ->
    snd (read_pairs_tr zs i c) = Ok (seg i (i + c) zs).
  Proof.
    induction c as [|c IH]; intros i H.
    - rewrite Nat.add_0_r, seg_nil. reflexivity.
    - cbn [read_pairs_tr]. rewrite snd_tbind, snd_tget2.
      destruct (uget_lt zs i) as (p & Hp & ->); [lia|]. cbn [bind].
      rewrite snd_tbind, IH by lia. cbn [bind snd tret].
      replace (i + S c) with (S i + c) by lia.
      rewrite (@seg_cons _ i (S i + c) zs p) by (try lia; exact Hp). reflexivity.
  Qed.

  Lemma resid_step (K : rstat) mp k v (s : @csum A) : nth_error zs k = Some v -> c_n s = cnt k ->
    snd (resid_cb_tr K mp zs s (start_of W k, k, v)) = Ok (resid_cb K mp zs s (start_of W k, k, v)) /\
    c_n (fst (resid_cb K mp zs s (start_of W k, k, v))) = cnt (S k).
  Proof.
    intros Hv Hn. assert (He : k < length zs) by (apply nth_error_Some; congruence).
    pose proof (start_of_le W k) as Hj.
    unfold resid_cb_tr, resid_cb, resid_emit, resid_post. cbv zeta. set (s1 := csum_pre s v).
    assert (N1 : c_n s1 = cntp bothp (seg (k - (W - 1)) (S k) zs)).
    { rewrite (cnt_add bothp zs W k v Hv), <- Hn. unfold s1, csum_pre, bothp.
      destruct (both v); cbn [b2n c_n csum_add]; lia. }
    rewrite snd_tbind.
    assert (Hs0 : start_or_0 (start_of W k) <= k) by (destruct (start_of W k); cbn [start_le start_or_0] in *; lia).
    rewrite snd_if, snd_tbind, read_pairs_tr_ok by lia. cbn [bind snd tret].
    replace (start_or_0 (start_of W k) + (S k - start_or_0 (start_of W k))) with (S k) by lia.
    rewrite if_Ok. cbn [bind]. change (start_or_0 (start_of W k)) with match start_of W k with Some j => j | None => 0 end.
    rewrite snd_tbind.
    destruct (start_of W k) as [j|] eqn:Es.
    - cbn [start_le] in Hj. rewrite snd_tbind, snd_tget2.
      destruct (uget_lt zs j) as (p & Hp & ->); [lia|]. cbn [bind]. rewrite Hp. cbn [csum_post].
      destruct (cnt_next_some bothp zs W k j p Es Hp) as [_ Hc]. rewrite Hc in N1. change (bothp p) with (both p) in N1.
      destruct (both p); cbn [b2n] in N1.
      + rewrite snd_tbind, snd_tpure. unfold usub.
        replace (1 <=? c_n s1) with true by (symmetry; apply Nat.leb_le; lia). cbn [bind snd tret].
        split; [reflexivity|]. cbn [fst csum_sub c_n]. lia.
      + cbn [snd tret bind]. split; [reflexivity|]. cbn [fst]. lia.
    - cbn [snd tret bind]. split; [reflexivity|]. cbn [fst]. rewrite (cnt_next_none _ _ _ _ Es). exact N1.
  Qed.
End ResidSafe.

Section ResidEntry.
  Context {A : Type} {NA : Num A} {T1 : Type} {D1 : IsNone T1 A} {T2 : Type} {D2 : IsNone T2 A}.

  (* every window (0 included), every pair of lengths, both bodies: the checked text (reads through `uget`,
     `n -= 1` through `usub`) returns exactly what the pure model returns — it never panics in the callback *)
  Theorem ts_vregx_resid_chk_eq (K : rstat) body w mp (xs : list T1) (ys : list T2) :
    ts_vregx_resid_chk K body w mp xs ys = ts_vregx_resid K body w mp xs ys.
  Proof.
    unfold ts_vregx_resid_chk, ts_vregx_resid. cbv zeta. rewrite rolling2_apply_idx_default_unfold.
    unfold rolling2_apply_idx_to.
    destruct body; cbn [andb].
    2: destruct (bad_window w xs); [reflexivity|].
    1: destruct (length ys <? length xs) eqn:E; [reflexivity|]; apply Nat.ltb_ge in E;
       destruct (bad_window w xs) eqn:Hb;
       [unfold rolling_apply_idx_to; rewrite bad_window_combine_le, Hb by exact E; reflexivity|].
    all: set (zs := combine xs ys); set (m := mp_eff mp w 0).
    - destruct w as [|w].
      + destruct zs as [|z zs']; [rewrite idx_run_nil_any; symmetry; apply empty_input_idx|].
        rewrite idx_run_w0 by discriminate. reflexivity.
      + rewrite (idx_run_refine true (S w) _ (resid_cb K m zs) csum0 zs
                   (fun k s => c_n s = cnt_at both zs (eff_window true (S w) (length zs)) k)); try lia.
        * rewrite idx_run_pure by lia. reflexivity.
        * rewrite cnt_at_0. reflexivity.
        * intros k v s Hv HP. apply resid_step; assumption.
    - destruct w as [|w].
      + destruct zs as [|z zs']; [rewrite idx_run_nil_any; symmetry; apply empty_input_idx|].
        rewrite idx_run_w0 by discriminate. reflexivity.
      + rewrite (idx_run_refine false (S w) _ (resid_cb K m zs) csum0 zs
                   (fun k s => c_n s = cnt_at both zs (eff_window false (S w) (length zs)) k)); try lia.
        * rewrite idx_run_pure by lia. reflexivity.
        * rewrite cnt_at_0. reflexivity.
        * intros k v s Hv HP. apply resid_step; assumption.
  Qed.

  (* the shape of the result: complete, or one of the two documented rejections *)
  Theorem ts_vregx_resid_safe (K : rstat) body w mp (xs : list T1) (ys : list T2) :
    (exists out, ts_vregx_resid K body w mp xs ys = Done out /\
                 length out = Nat.min (length xs) (length ys)) \/
    ts_vregx_resid K body w mp xs ys = Panicked AssertFail.
  Proof.
    unfold ts_vregx_resid. cbv zeta. destruct body.
    - rewrite rolling2_apply_idx_to_total. destruct (length ys <? length xs); [right; reflexivity|].
      destruct (bad_window w xs); [right; reflexivity|]. left. eexists. split; [reflexivity|].
      unfold args_to_idx. rewrite run_length, mapi_length, combine_length. reflexivity.
    - rewrite rolling2_apply_idx_default_total. destruct (bad_window w xs); [right; reflexivity|].
      left. eexists. split; [reflexivity|]. rewrite run_length, mapi_length, combine_length. reflexivity.
  Qed.
End ResidEntry.

(* ---- the entry points as traces: in bounds for every input, each slot once whenever the call returns ---- *)
Lemma acc_ok_mono len len2 len' len2' a : len <= len' -> len2 <= len2' -> acc_ok len len2 a -> acc_ok len' len2' a.
Proof.
  intros H1 H2. destruct a as [view i|view a b|view a b|i]; cbn; try destruct view; lia.
Qed.

Lemma safe_done_writes {T St O} two w (cbt : St -> option nat * nat * T -> tr (St * O))
      (cb : St -> option nat * nat * T -> res (St * O)) s0 (xs : list T) :
  (forall s st e v, start_le st e -> reads_within (start_or_0 st) e (fst (cbt s (st, e, v)))) ->
  (forall s a, snd (cbt s a) = cb s a) ->
  kernel_safe w xs (idx_run true w cb s0 xs) -> bad_window w xs = false ->
  writes_of (kernel_trace true two w cbt s0 xs) = seq 0 (length xs).
Proof.
  intros Hcb He [(out & Hd & _)|(-> & Hx & _)] Hb.
  - apply (kernel_trace_writes cbt Hcb cb He two w s0 xs out Hd).
  - unfold bad_window in Hb. destruct xs; [contradiction|discriminate].
Qed.

Lemma bad_window_cmp {T} w (xs : list T) : bad_window (cmp_window w xs) xs = bad_window w xs.
Proof.
  unfold bad_window, cmp_window. destruct xs as [|x xs]; [cbn; rewrite !Bool.andb_false_r; reflexivity|].
  cbn [length Nat.eqb negb]. rewrite !Bool.andb_true_r. destruct w; reflexivity.
Qed.

Section EntryTraceFacts.
  Context {A : Type} {NA : Num A} {T : Type} {DT : IsNone T A}.

  Theorem trace_ts_vext_ok scmp body w mp (xs : list T) len2 : length xs <= len2 ->
    Forall (acc_ok (length xs) len2) (trace_ts_vext scmp body w mp xs).
  Proof. intros H. apply kernel_trace_ok; [|exact H]. intros. apply vext_cb_tr_reads. assumption. Qed.
  Theorem trace_ts_varg_ok scmp body w mp (xs : list T) len2 : length xs <= len2 ->
    Forall (acc_ok (length xs) len2) (trace_ts_varg scmp body w mp xs).
  Proof. intros H. apply kernel_trace_ok; [|exact H]. intros. apply varg_cb_tr_reads. assumption. Qed.
  Theorem trace_ts_vrank_ok {B : Type} {NB : Num B} body w mp pct rev (xs : list T) len2 : length xs <= len2 ->
    Forall (acc_ok (length xs) len2) (trace_ts_vrank (B := B) body w mp pct rev xs).
  Proof. intros H. apply kernel_trace_ok; [|exact H]. intros. apply vrank_cb_tr_reads. assumption. Qed.
  Theorem trace_ts_vminmaxnorm_ok (tmin tmax : A) body w mp (xs : list T) len2 : length xs <= len2 ->
    Forall (acc_ok (length xs) len2) (trace_ts_vminmaxnorm tmin tmax body w mp xs).
  Proof. intros H. apply kernel_trace_ok; [|exact H]. intros. apply mmnorm_cb_tr_reads. assumption. Qed.

  Theorem trace_ts_vext_writes scmp w mp (xs : list T) : bad_window w xs = false ->
    writes_of (trace_ts_vext scmp true w mp xs) = seq 0 (length xs).
  Proof.
    intros Hb. unfold trace_ts_vext.
    apply (safe_done_writes false (cmp_window w xs) _ (vext_cb scmp (cmp_mp mp (cmp_window w xs)) xs)).
    - intros. apply vext_cb_tr_reads. assumption.
    - intros. apply vext_cb_tr_erase.
    - pose proof (ts_vext_safe scmp true w mp xs) as H. unfold ts_vext in H.
      destruct H as [H|(-> & Hx & _)]; [left; exact H|]. unfold bad_window in Hb. destruct xs; [contradiction|discriminate].
    - rewrite bad_window_cmp. exact Hb.
  Qed.
  Theorem trace_ts_varg_writes scmp w mp (xs : list T) : scmp_refl_on scmp xs -> bad_window w xs = false ->
    writes_of (trace_ts_varg scmp true w mp xs) = seq 0 (length xs).
  Proof.
    intros Hr Hb. unfold trace_ts_varg.
    apply (safe_done_writes false (cmp_window w xs) _ (varg_cb scmp (cmp_mp mp (cmp_window w xs)) xs)).
    - intros. apply varg_cb_tr_reads. assumption.
    - intros. apply varg_cb_tr_erase.
    - pose proof (ts_varg_safe scmp true w mp xs Hr) as H. unfold ts_varg in H.
      destruct H as [H|(-> & Hx & _)]; [left; exact H|]. unfold bad_window in Hb. destruct xs; [contradiction|discriminate].
    - rewrite bad_window_cmp. exact Hb.
  Qed.
  Theorem trace_ts_vrank_writes {B : Type} {NB : Num B} w mp pct rev (xs : list T) : bad_window w xs = false ->
    writes_of (trace_ts_vrank (B := B) true w mp pct rev xs) = seq 0 (length xs).
  Proof.
    intros Hb. unfold trace_ts_vrank.
    apply (safe_done_writes false (cmp_window w xs) _
             (vrank_cb (B := B) (cmp_mp mp (cmp_window w xs)) (cmp_window w xs - 1) pct rev xs)).
    - intros. apply vrank_cb_tr_reads. assumption.
    - intros. apply vrank_cb_tr_erase.
    - pose proof (ts_vrank_safe (B := B) true w mp pct rev xs) as H. unfold ts_vrank in H.
      destruct H as [H|(-> & Hx & _)]; [left; exact H|]. unfold bad_window in Hb. destruct xs; [contradiction|discriminate].
    - rewrite bad_window_cmp. exact Hb.
  Qed.
  Theorem trace_ts_vminmaxnorm_writes (tmin tmax : A) w mp (xs : list T) : bad_window w xs = false ->
    writes_of (trace_ts_vminmaxnorm tmin tmax true w mp xs) = seq 0 (length xs).
  Proof.
    intros Hb. unfold trace_ts_vminmaxnorm.
    apply (safe_done_writes false w _ (mmnorm_cb tmin tmax (mp_eff mp w 0) xs)).
    - intros. apply mmnorm_cb_tr_reads. assumption.
    - intros. apply mmnorm_cb_tr_erase.
    - exact (ts_vminmaxnorm_safe tmin tmax true w mp xs).
    - exact Hb.
  Qed.
End EntryTraceFacts.

Section EntryTraceFacts2.
  Context {A : Type} {NA : Num A} {T1 : Type} {D1 : IsNone T1 A} {T2 : Type} {D2 : IsNone T2 A}.

  (* both series: every read of `self` is < len xs and every read of `other` is < len ys — for EVERY pair of
     lengths (a shorter second series is rejected by the index body before anything is read, and the iterator
     body stops at the shorter one) *)
  Theorem trace_ts_vregx_resid_ok (K : rstat) body w mp (xs : list T1) (ys : list T2) :
    Forall (acc_ok (length xs) (length ys)) (trace_ts_vregx_resid (A := A) K body w mp xs ys).
  Proof.
    unfold trace_ts_vregx_resid. destruct (body && (length ys <? length xs)); [constructor|].
    set (zs := combine xs ys).
    assert (Hz : length zs = Nat.min (length xs) (length ys)) by apply combine_length.
    eapply Forall_impl; [|apply (kernel_trace_ok _ (fun s st e v => resid_cb_tr_reads zs K _ s st e v) body true w csum0 zs (length zs)); lia].
    intros a Ha. eapply acc_ok_mono; [| |exact Ha]; lia.
  Qed.

  Theorem trace_ts_vregx_resid_writes (K : rstat) w mp (xs : list T1) (ys : list T2) :
    length xs <= length ys -> bad_window w xs = false ->
    writes_of (trace_ts_vregx_resid (A := A) K true w mp xs ys) = seq 0 (length xs).
  Proof.
    intros Hl Hb. unfold trace_ts_vregx_resid. cbn [andb].
    replace (length ys <? length xs) with false by (symmetry; apply Nat.ltb_ge; exact Hl).
    set (zs := combine xs ys).
    assert (Hz : length zs = length xs) by (unfold zs; rewrite combine_length; lia).
    rewrite <- Hz.
    apply (safe_done_writes true w _ (fun s a => snd (resid_cb_tr K (mp_eff mp w 0) zs s a))).
    - intros. apply resid_cb_tr_reads. assumption.
    - reflexivity.
    - pose proof (ts_vregx_resid_chk_eq (A := A) K true w mp xs ys) as E.
      unfold ts_vregx_resid_chk in E. cbn [andb] in E.
      replace (length ys <? length xs) with false in E by (symmetry; apply Nat.ltb_ge; exact Hl).
      rewrite Hb in E. fold zs in E. rewrite E.
      destruct (ts_vregx_resid_safe (A := A) K true w mp xs ys) as [(out & Hd & Ho)|Hp].
      + left. exists out. split; [exact Hd|]. rewrite Ho, Hz. lia.
      + right. unfold bad_window in Hb. destruct w as [|w].
        * destruct xs as [|x xs']; [|discriminate]. exfalso.
          unfold ts_vregx_resid, rolling2_apply_idx_to in Hp. cbn in Hp. discriminate.
        * exfalso. unfold ts_vregx_resid, rolling2_apply_idx_to in Hp.
          replace (length ys <? length xs) with false in Hp by (symmetry; apply Nat.ltb_ge; exact Hl).
          rewrite rolling_apply_idx_to_eq in Hp by lia. discriminate.
    - unfold bad_window in *. rewrite Hz. exact Hb.
  Qed.
End EntryTraceFacts2.
