(* Proofs/Audit06.v — audit of property C06 (notes/C06.md, "Audit matrix").
   (A) the prefix law at the level of the OUTCOME of the call, for every window (0 included): whenever the call on the
       whole series returns, the call on any prefix returns the prefix of its result (in particular it does not panic);
       the hypothesis `1 <= w` of C06_prefix_every_feature is dropped.
   (B) two-series entry points (ts_run2: with the length assertion of the index body and the silent truncation of the
       iterator body) on series of ANY lengths: prefix law, window-only law; the `out_of` form is refuted when the whole
       call is rejected.
   (C) the fractional differences as named instances; rejected fill values of vshift / vdiff.                      *)
From Coq Require Import ZArith Reals Lia List Bool.
From Tevec Require Import Base.Prelude Base.Num Base.XR Model.Driver Proofs.Driver Model.Features Model.Cmp
     Model.Binary Model.Reg Model.Norm Model.Fdiff Model.MapOps Proofs.Generic Proofs.NoLookahead Proofs.NoLookahead2
     Proofs.Binary Proofs.Audit01 Proofs.Audit04 Proofs.Audit05.
Import ListNotations.

(* ---- (A) one-series add-emit-remove entry points, every window ---- *)
Section AnyFeature.
  Context {T St O : Type}.
  Variable F : feat T St O.

  Theorem ts_run_prefix_outcome body (w : nat) (xs : list T) (k : nat) (out : list O) :
    ts_run F body w xs = Done out -> ts_run F body w (firstn k xs) = Done (firstn k out).
  Proof.
    intros H. destruct w as [|w].
    - rewrite Audit01.ts_run_window0 in H. destruct xs; [|discriminate]. injection H as <-.
      rewrite !firstn_nil. apply Audit01.ts_run_empty.
    - pose proof (ts_out_prefix F (S w) xs body k ltac:(lia)) as P. unfold ts_out in P. rewrite H in P.
      destruct (Generic.ts_run_total F (S w) (firstn k xs) body ltac:(lia)) as (o' & E & _). rewrite E in P |- *.
      rewrite P. reflexivity.
  Qed.

  (* the `ts_out` form for every window: at window 0 both sides are empty (the call is rejected or the series empty) *)
  Theorem ts_out_prefix_any_window body (w : nat) (xs : list T) (k : nat) :
    ts_out F body w (firstn k xs) = firstn k (ts_out F body w xs).
  Proof.
    destruct w as [|w]; [|apply ts_out_prefix; lia].
    unfold ts_out. rewrite !Audit01.ts_run_window0.
    destruct xs as [|x xs]; [rewrite !firstn_nil; reflexivity|]. rewrite firstn_nil.
    destruct (firstn k (x :: xs)); reflexivity.
  Qed.
End AnyFeature.

(* ---- (B) two-series entry points ---- *)
Section TwoSeries.
  Context {T1 T2 St O : Type}.
  Variable F : feat (T1 * T2) St O.

  Theorem ts_run2_prefix_outcome body (w : nat) (xs : list T1) (ys : list T2) (k : nat) (out : list O) :
    ts_run2 F body w xs ys = Done out ->
    ts_run2 F body w (firstn k xs) (firstn k ys) = Done (firstn k out).
  Proof.
    intros H. destruct w as [|w].
    - rewrite ts_run2_window0 in H. destruct xs; [|discriminate]. injection H as <-.
      rewrite !firstn_nil. rewrite ts_run2_window0. reflexivity.
    - rewrite ts_run2_as_ts_run in H |- * by lia. rewrite !firstn_length.
      destruct (body && (length ys <? length xs)) eqn:E; [discriminate|].
      replace (body && (Nat.min k (length ys) <? Nat.min k (length xs))) with false.
      + rewrite combine_firstn. apply ts_run_prefix_outcome. exact H.
      + symmetry. destruct body; [|reflexivity]. cbn [andb] in E |- *. apply Nat.ltb_ge in E. apply Nat.ltb_ge. lia.
  Qed.

  (* window-only at the entry level follows from the one-series law over the zipped series *)
  Lemma ts_run2_done_ts_out body (w : nat) (xs : list T1) (ys : list T2) :
    1 <= w -> (body = false \/ length xs <= length ys) ->
    ts_run2 F body w xs ys = Done (ts_out F body w (combine xs ys)).
  Proof.
    intros Hw Hb. rewrite ts_run2_as_ts_run by exact Hw.
    replace (body && (length ys <? length xs)) with false.
    - unfold ts_out. destruct (Generic.ts_run_total F w (combine xs ys) body Hw) as (o & E & _). rewrite E. reflexivity.
    - symmetry. destruct Hb as [->|Hb]; [reflexivity|]. replace (length ys <? length xs) with false
        by (symmetry; apply Nat.ltb_ge; exact Hb). apply andb_false_r.
  Qed.
End TwoSeries.

(* cov, corr, regression-on-x alpha / beta / all (any emit of the cross-sum accumulator), exact reals: two PAIRS of series
   of any lengths and histories, each run with either body: equal windows of both series give the same output *)
Theorem two_series_window_only_entry {O} (emit : @csum XR -> O) (bx by_ : bool) (w : nat)
        (xs ys xs' ys' : list XR) (i j : nat) :
  1 <= w -> (bx = false \/ length xs <= length ys) -> (by_ = false \/ length xs' <= length ys') ->
  i < Nat.min (length xs) (length ys) -> j < Nat.min (length xs') (length ys') ->
  win w i xs = win w j xs' -> win w i ys = win w j ys' ->
  exists ox oy o, ts_run2 (csum_feat emit) bx w xs ys = Done ox /\ ts_run2 (csum_feat emit) by_ w xs' ys' = Done oy /\
                  nth_error ox i = Some o /\ nth_error oy j = Some o.
Proof.
  intros Hw Hbx Hby Hi Hj W1 W2.
  rewrite (ts_run2_done_ts_out (csum_feat emit) bx w xs ys Hw Hbx),
          (ts_run2_done_ts_out (csum_feat emit) by_ w xs' ys' Hw Hby).
  assert (Hl : i < length (combine xs ys)) by (rewrite combine_length; exact Hi).
  assert (Hl' : j < length (combine xs' ys')) by (rewrite combine_length; exact Hj).
  assert (Eb : forall zs, ts_out (csum_feat emit) by_ w zs = ts_out (csum_feat emit) bx w zs).
  { intros zs. unfold ts_out. destruct bx, by_; try reflexivity;
      [rewrite (Audit01.ts_run_bodies_agree (csum_feat emit) w zs)|rewrite <- (Audit01.ts_run_bodies_agree (csum_feat emit) w zs)];
      reflexivity. }
  pose proof (csum_window_only emit bx w (combine xs ys) (combine xs' ys') i j Hw Hl Hl'
                ltac:(rewrite !win_combine, W1, W2; reflexivity)) as P.
  destruct (nth_error (ts_out (csum_feat emit) bx w (combine xs ys)) i) as [o|] eqn:Eo.
  - eexists _, _, o. split; [reflexivity|]. split; [reflexivity|]. split; [exact Eo|]. rewrite Eb. symmetry. exact P.
  - exfalso. apply nth_error_None in Eo. unfold ts_out in Eo.
    destruct (Generic.ts_run_total (csum_feat emit) w (combine xs ys) bx Hw) as (o' & E & L). rewrite E in Eo. lia.
Qed.

(* the `out_of` form of the prefix law is FALSE for a whole call that is rejected: the index body refuses a shorter
   second series, a prefix that fits into it is accepted *)
Lemma two_series_prefix_needs_accepted_whole :
  out_of (ts_run2 (ts_vcov_f (A := Z) (D1 := IsNone_option) (D2 := IsNone_option) 1 (Some 0)) true 1
                  (firstn 1 [Some 1%Z; Some 2%Z]) (firstn 1 [Some 3%Z]))
  <> firstn 1 (out_of (ts_run2 (ts_vcov_f (A := Z) (D1 := IsNone_option) (D2 := IsNone_option) 1 (Some 0)) true 1
                               [Some 1%Z; Some 2%Z] [Some 3%Z])).
Proof. vm_compute. discriminate. Qed.

(* ---- (C) named instances and rejected inputs ---- *)
Section FdiffPrefix.
  Context {A : Type} {NA : Num A} {T : Type} {DT : IsNone T A}.

  Theorem fdiff_prefix body (d : A) (w : nat) (cast : T -> A) (mp : option nat) (xs : list T) (k : nat) :
    1 <= w ->
    out_of (ts_fdiff body d w cast (firstn k xs)) = firstn k (out_of (ts_fdiff body d w cast xs)) /\
    out_of (ts_vfdiff body d w mp (firstn k xs)) = firstn k (out_of (ts_vfdiff body d w mp xs)).
  Proof.
    intros Hw. split.
    - exact (custom_out_prefix body w (ts_fdiff_cb d w cast) tt xs k Hw).
    - exact (custom_out_prefix body w (ts_vfdiff_cb d w (mp_eff mp w 0)) tt xs k Hw).
  Qed.
End FdiffPrefix.

(* a fill value that the element type cannot provide (`value = None` on a type whose `none()` panics) is rejected before
   anything is read: the same panic on the series and on every prefix *)
Lemma vshift_rejected {X I} (d : NullDict X I) (n : Z) (value : option X) (xs : list X) (k : panic_kind) :
  or_none d value = Panic k -> vshift d n value xs = Panic k.
Proof. intros H. unfold vshift. rewrite H. reflexivity. Qed.
Lemma vdiff_rejected {X I} (d : NullDict X I) (sub : X -> X -> X) (n : Z) (value : option X) (xs : list X) (k : panic_kind) :
  or_none d value = Panic k -> vdiff d sub n value xs = Panic k.
Proof. intros H. unfold vdiff. cbv zeta. rewrite H. reflexivity. Qed.
