(* Proofs/Audit04.v — audit of property C04 (notes/C04.md, "Audit matrix").
   (A) the two hypotheses of every two-series entry theorem (`1 <= w`, `length xs = length ys`) are
       replaced by what the code does on ALL inputs: which check fires first, with which panic, in which
       body; window 0; series of unequal length (index body: assert; iterator body: silently the common
       prefix); and the value theorems on every accepted input.
   (B) the pairwise-complete selection, positionally.
   (C) the count of pairwise-complete observations (and hence "null below min_periods") at EVERY numeric
       carrier and every pair of null dictionaries — binary64 included: no law of the arithmetic is used.
   (D) a perfect linear window end to end on the two-series model.                                   *)
From Coq Require Import Reals Lra Lia List.
From Tevec Require Import Base.Prelude Base.Num Base.XR Spec.Stats Spec.Ols Model.Driver Proofs.Driver
     Model.Features Proofs.Sliding Proofs.Generic Model.Binary Model.Reg Proofs.Ols Proofs.Binary
     Proofs.Trend Proofs.Resid.
Import ListNotations.

(* ================================================================================================ *)
(* (A) every input                                                                                    *)
(* ================================================================================================ *)
Definition common (X Y : Type) (xs : list X) (ys : list Y) : nat := Nat.min (length xs) (length ys).
Arguments common {X Y} xs ys.

Lemma combine_common {X Y} (xs : list X) (ys : list Y) :
  combine xs ys = combine (firstn (common xs ys) xs) (firstn (common xs ys) ys).
Proof.
  rewrite <- combine_firstn. symmetry. apply firstn_all2. rewrite combine_length. unfold common. lia.
Qed.

Lemma firstn_common_lengths {X Y} (xs : list X) (ys : list Y) :
  length (firstn (common xs ys) xs) = common xs ys /\ length (firstn (common xs ys) ys) = common xs ys.
Proof. unfold common. rewrite !firstn_length. lia. Qed.

Lemma win_firstn {X} w i k (xs : list X) : i < k -> win w i (firstn k xs) = win w i xs.
Proof. intros H. rewrite !win_seg. apply seg_firstn. lia. Qed.

(* the positions of a window: max(0, i+1-w) ..= i *)
Lemma win_positions {X} w i (xs : list X) :
  i < length xs ->
  length (win w i xs) = S i - (S i - w) /\
  forall j, j < S i - (S i - w) -> nth_error (win w i xs) j = nth_error xs (S i - w + j).
Proof.
  intros Hi. rewrite win_seg. unfold wstart. split.
  - apply seg_length. lia.
  - intros j Hj. rewrite nth_error_seg. replace (j <? S i - (S i - w)) with true by (symmetry; apply Nat.ltb_lt; lia).
    reflexivity.
Qed.

Section AllInputs.
  Context {T1 T2 St O : Type}.
  Variable F : feat (T1 * T2) St O.

  (* which check stops a two-series run, in the order of the code *)
  Definition check2 (body : bool) (w : nat) (xs : list T1) (ys : list T2) : option guard :=
    if body then check2_to w xs ys else check2_default w xs ys.

  Lemma check2_none_iff body w (xs : list T1) (ys : list T2) :
    check2 body w xs ys = None <-> (body = false \/ length xs <= length ys) /\ (1 <= w \/ xs = []).
  Proof.
    unfold check2, check2_to, check2_default.
    destruct (bad_window_cases w xs) as [(Hb & H0 & Hx)|(Hb & H)]; rewrite Hb; destruct body.
    - destruct (length ys <? length xs); split; try discriminate; intros (_ & [H|H]); try lia; contradiction.
    - split; try discriminate. intros (_ & [H|H]); try lia; contradiction.
    - destruct (length ys <? length xs) eqn:E.
      + apply Nat.ltb_lt in E. split; [discriminate|]. intros ([H1|H1] & _); [discriminate|lia].
      + apply Nat.ltb_ge in E. split; auto.
    - split; auto.
  Qed.

  Lemma ts_run2_by_check body w xs ys :
    match check2 body w xs ys with
    | Some g => ts_run2 F body w xs ys = Panicked (guard_kind g)
    | None => exists l, ts_run2 F body w xs ys = Done l /\ length l = common xs ys
    end.
  Proof.
    unfold check2, ts_run2. destruct body.
    - pose proof (rolling2_apply_to_by_check w (feat_cb F) (f_init F) xs ys) as H.
      destruct (check2_to w xs ys) eqn:E; [exact H|].
      destruct H as (l & Hl & Hn). exists l. split; [exact Hl|].
      unfold check2_to in E. destruct (length ys <? length xs) eqn:E2; [discriminate|].
      apply Nat.ltb_ge in E2. unfold common. lia.
    - apply rolling2_apply_default_by_check.
  Qed.

  (* past the checks, with a positive window, a run on series of any lengths is the run on their common prefix *)
  Lemma ts_run2_common body w xs ys :
    1 <= w -> (body = false \/ length xs <= length ys) ->
    ts_run2 F body w xs ys = ts_run2 F body w (firstn (common xs ys) xs) (firstn (common xs ys) ys).
  Proof.
    intros Hw Hb. destruct (firstn_common_lengths xs ys) as [L1 L2].
    unfold ts_run2. destruct body.
    - destruct Hb as [Hb|Hb]; [discriminate|]. unfold rolling2_apply_to. rewrite L1, L2, Nat.ltb_irrefl.
      replace (length ys <? length xs) with false by (symmetry; apply Nat.ltb_ge; exact Hb).
      rewrite <- combine_common. reflexivity.
    - rewrite !rolling2_apply_default_pos by exact Hw. rewrite <- combine_common. reflexivity.
  Qed.

  (* window 0: the assertion unless the FIRST series is empty (then nothing is evaluated), in both bodies; in the
     index body a shorter second series is reported first — by an assertion as well *)
  Lemma ts_run2_window0 body xs ys :
    ts_run2 F body 0 xs ys =
    match xs with
    | [] => Done []
    | _ :: _ => Panicked AssertFail
    end.
  Proof.
    pose proof (ts_run2_by_check body 0 xs ys) as H. unfold check2, check2_to, check2_default in H.
    destruct xs as [|x xs].
    - cbn [length bad_window Nat.eqb negb andb] in H. replace (length ys <? 0) with false in H by reflexivity.
      destruct body; destruct H as (l & Hl & Hn); unfold common in Hn; cbn [length Nat.min] in Hn;
        destruct l; try discriminate; exact Hl.
    - cbn [bad_window Nat.eqb length negb andb] in H. destruct body; [|exact H].
      destruct (length ys <? S (length xs)); exact H.
  Qed.

  Lemma ts_run2_shorter_second w xs ys :
    length ys < length xs -> ts_run2 F true w xs ys = Panicked AssertFail.
  Proof.
    intros H. unfold ts_run2, rolling2_apply_to.
    replace (length ys <? length xs) with true by (symmetry; apply Nat.ltb_lt; exact H). reflexivity.
  Qed.
End AllInputs.

(* the value theorem of the cross-sum family on every accepted input *)
Lemma csum_entry_any_lengths {O} (emit : @csum XR -> O) (G : list (R * R) -> O) body (w : nat)
      (xs ys : list XR) :
  1 <= w -> (body = false \/ length xs <= length ys) ->
  (forall s W, csum_abs s W -> emit s = G (vpairs W)) ->
  exists out, ts_run2 (csum_feat emit) body w xs ys = Done out /\ length out = common xs ys /\
    forall i, i < common xs ys -> nth_error out i = Some (G (pairs (win w i xs) (win w i ys))).
Proof.
  intros Hw Hb HG. rewrite ts_run2_common by assumption.
  destruct (firstn_common_lengths xs ys) as [L1 L2].
  destruct (csum_entry emit G body w (firstn (common xs ys) xs) (firstn (common xs ys) ys) Hw
              ltac:(congruence) HG) as (out & Hrun & Hl & Hout).
  exists out. split; [exact Hrun|]. split; [rewrite Hl; exact L1|].
  intros i Hi. rewrite (Hout i) by (rewrite L1; exact Hi). rewrite !win_firstn by exact Hi. reflexivity.
Qed.

(* ---- the residual family (rolling2_apply_idx) ---- *)
Section ResidAllInputs.
  Context {A : Type} `{NA : Num A} {T1 : Type} {D1 : IsNone T1 A} {T2 : Type} {D2 : IsNone T2 A}.

  Lemma resid_by_check k body w mp (xs : list T1) (ys : list T2) :
    match check2 body w xs ys with
    | Some g => ts_vregx_resid k body w mp xs ys = Panicked (guard_kind g)
    | None => exists l, ts_vregx_resid k body w mp xs ys = Done l /\ length l = common xs ys
    end.
  Proof.
    unfold check2, ts_vregx_resid. cbv zeta. destruct body.
    - pose proof (rolling2_apply_idx_to_by_check w (resid_cb k (mp_eff mp w 0) (combine xs ys)) csum0 xs ys) as H.
      destruct (check2_to w xs ys) eqn:E; [exact H|].
      destruct H as (l & Hl & Hn). exists l. split; [exact Hl|].
      unfold check2_to in E. destruct (length ys <? length xs) eqn:E2; [discriminate|].
      apply Nat.ltb_ge in E2. unfold common. lia.
    - apply rolling2_apply_idx_default_by_check.
  Qed.

  Lemma resid_common k body w mp (xs : list T1) (ys : list T2) :
    1 <= w -> (body = false \/ length xs <= length ys) ->
    ts_vregx_resid k body w mp xs ys =
    ts_vregx_resid k body w mp (firstn (common xs ys) xs) (firstn (common xs ys) ys).
  Proof.
    intros Hw Hb. destruct (firstn_common_lengths xs ys) as [L1 L2].
    unfold ts_vregx_resid. cbv zeta. rewrite <- combine_common. destruct body.
    - destruct Hb as [Hb|Hb]; [discriminate|]. unfold rolling2_apply_idx_to. rewrite L1, L2, Nat.ltb_irrefl.
      replace (length ys <? length xs) with false by (symmetry; apply Nat.ltb_ge; exact Hb).
      rewrite <- combine_common. reflexivity.
    - rewrite !rolling2_apply_idx_default_pos by exact Hw. rewrite <- combine_common. reflexivity.
  Qed.

  Lemma resid_window0 k body mp (xs : list T1) (ys : list T2) :
    ts_vregx_resid k body 0 mp xs ys = match xs with [] => Done [] | _ :: _ => Panicked AssertFail end.
  Proof.
    pose proof (resid_by_check k body 0 mp xs ys) as H. unfold check2, check2_to, check2_default in H.
    destruct xs as [|x xs].
    - cbn [length bad_window Nat.eqb negb andb] in H. replace (length ys <? 0) with false in H by reflexivity.
      destruct body; destruct H as (l & Hl & Hn); unfold common in Hn; cbn [length Nat.min] in Hn;
        destruct l; try discriminate; exact Hl.
    - cbn [bad_window Nat.eqb length negb andb] in H. destruct body; [|exact H].
      destruct (length ys <? S (length xs)); exact H.
  Qed.
End ResidAllInputs.

Theorem resid_entry_any_lengths k body (w : nat) (mp : option nat) (xs ys : list XR) :
  1 <= w -> (body = false \/ length xs <= length ys) ->
  exists out, ts_vregx_resid k body w mp xs ys = Done out /\ length out = common xs ys /\
    forall i, i < common xs ys ->
      nth_error out i = Some (resid_stat_x k (mp_eff mp w 0) (pairs (win w i xs) (win w i ys))).
Proof.
  intros Hw Hb. rewrite resid_common by assumption.
  destruct (firstn_common_lengths xs ys) as [L1 L2].
  destruct (resid_entry k body w mp (firstn (common xs ys) xs) (firstn (common xs ys) ys) Hw
              ltac:(congruence)) as (out & Hrun & Hl & Hout).
  exists out. split; [exact Hrun|]. split; [rewrite Hl; exact L1|].
  intros i Hi. rewrite (Hout i) by (rewrite L1; exact Hi). rewrite !win_firstn by exact Hi. reflexivity.
Qed.

(* ---- the one-series (time-trend) family: window 0 ---- *)
Lemma ts_run_window0 {T St O} (F : feat T St O) body (xs : list T) :
  ts_run F body 0 xs = match xs with [] => Done [] | _ :: _ => Panicked AssertFail end.
Proof.
  destruct xs as [|x xs]; [apply ts_run_empty|].
  unfold ts_run, rolling_apply_to, rolling_apply_default. cbn [bad_window Nat.eqb length negb andb].
  destruct body; reflexivity.
Qed.

(* ================================================================================================ *)
(* (B) the pairwise-complete selection, positionally                                                  *)
(* ================================================================================================ *)
Lemma vpairs_In a b (l : list (XR * XR)) : In (a, b) (vpairs l) <-> In (Some a, Some b) l.
Proof.
  unfold vpairs. rewrite in_flat_map. split.
  - intros (p & Hp & Hin). destruct p as [[a'|] [b'|]]; cbn in Hin; try contradiction.
    destruct Hin as [E|[]]. injection E as <- <-. exact Hp.
  - intros H. exists (Some a, Some b). split; [exact H|left; reflexivity].
Qed.

Theorem pairs_positional (W1 W2 : list XR) a b :
  In (a, b) (pairs W1 W2) <->
  exists j, nth_error W1 j = Some (Some a) /\ nth_error W2 j = Some (Some b).
Proof.
  unfold pairs. rewrite vpairs_In. split.
  - intros H. apply In_nth_error in H. destruct H as (j & Hj). exists j.
    rewrite nth_error_combine in Hj.
    destruct (nth_error W1 j) as [x|], (nth_error W2 j) as [y|]; try discriminate.
    injection Hj as -> ->. split; reflexivity.
  - intros (j & H1 & H2). apply (nth_error_In _ j). rewrite nth_error_combine, H1, H2. reflexivity.
Qed.

(* the number of observations is the number of positions at which BOTH series are non-null; a null in either
   series removes the position from BOTH coordinates *)
Definition both_some (p : XR * XR) : bool :=
  match p with (Some _, Some _) => true | _ => false end.

Lemma vpairs_length (l : list (XR * XR)) : length (vpairs l) = length (filter both_some l).
Proof.
  induction l as [|[[a|] [b|]] l IH]; cbn [vpairs flat_map filter both_some app length] in *;
    try (fold (vpairs l)); try rewrite IH; reflexivity.
Qed.

Lemma vpairs_map_fst (l : list (XR * XR)) :
  map (fun p => Some (fst p)) (vpairs l) = map fst (filter both_some l) /\
  map (fun p => Some (snd p)) (vpairs l) = map snd (filter both_some l).
Proof.
  induction l as [|[[a|] [b|]] l [IH1 IH2]]; cbn [vpairs flat_map filter both_some app map fst snd] in *;
    try (fold (vpairs l)); try rewrite IH1; try rewrite IH2; split; reflexivity.
Qed.

(* ================================================================================================ *)
(* (C) the observation count at every carrier                                                         *)
(* ================================================================================================ *)
Section AnyCarrier.
  Context {A : Type} `{NA : Num A} {T1 : Type} {D1 : IsNone T1 A} {T2 : Type} {D2 : IsNone T2 A}.

  Definition npairs (l : list (T1 * T2)) : nat := length (filter (@both A T1 D1 T2 D2) l).

  Definition cnt_abs (s : @csum A) (l : list (T1 * T2)) : Prop := c_n s = npairs l.

  Lemma cnt_abs_init : cnt_abs csum0 [].
  Proof. reflexivity. Qed.
  Lemma cnt_abs_pre s l v : cnt_abs s l -> cnt_abs (csum_pre s v) (l ++ [v]).
  Proof.
    unfold cnt_abs, npairs, csum_pre. intros H. rewrite filter_app, app_length. cbn [filter].
    destruct (both v); cbn [length csum_add c_n]; lia.
  Qed.
  Lemma cnt_abs_post s x l : cnt_abs s (x :: l) -> cnt_abs (csum_post s (Some x)) l.
  Proof.
    unfold cnt_abs, npairs, csum_post. cbn [filter]. intros H.
    destruct (both x); cbn [length csum_sub c_n] in *; lia.
  Qed.

  Theorem count_tracks_window {O} (emit : @csum A -> O) body (w : nat) (xs : list T1) (ys : list T2) :
    1 <= w -> (body = false \/ length xs <= length ys) ->
    exists out, ts_run2 (csum_feat emit) body w xs ys = Done out /\ length out = common xs ys /\
      forall i, i < common xs ys ->
        exists s, nth_error out i = Some (emit s) /\ c_n s = npairs (combine (win w i xs) (win w i ys)).
  Proof.
    intros Hw Hb. rewrite ts_run2_common by assumption.
    destruct (firstn_common_lengths xs ys) as [L1 L2].
    set (xs' := firstn (common xs ys) xs) in *. set (ys' := firstn (common xs ys) ys) in *.
    rewrite ts_run2_combine by congruence.
    destruct (sliding_ts_run (csum_feat emit) cnt_abs cnt_abs_init cnt_abs_pre cnt_abs_post
                (fun s => eq_refl) w Hw (combine xs' ys') body) as (out & Hrun & Hl & Hout).
    exists out. split; [exact Hrun|]. split; [rewrite Hl, combine_length; lia|].
    intros i Hi.
    destruct (nth_error (combine xs' ys') i) as [v|] eqn:Hv;
      [|apply nth_error_None in Hv; rewrite combine_length in Hv; lia].
    destruct (Hout i v Hv) as (s & Habs & Hnth). exists s. split; [exact Hnth|].
    unfold cnt_abs in Habs. rewrite Habs, win_combine. unfold xs', ys'. rewrite !win_firstn by exact Hi. reflexivity.
  Qed.

  (* hence: an output computed by an emit function that is null below mp is null wherever the window holds fewer
     than mp pairwise-complete observations — for cov, corr, regx alpha / beta / (alpha, beta, SSE) *)
  Theorem below_min_periods_null {O} (emit : @csum A -> O) (nul : O) (mp : nat) body (w : nat)
          (xs : list T1) (ys : list T2) :
    (forall s, c_n s < mp -> emit s = nul) ->
    1 <= w -> (body = false \/ length xs <= length ys) ->
    exists out, ts_run2 (csum_feat emit) body w xs ys = Done out /\ length out = common xs ys /\
      forall i, i < common xs ys -> npairs (combine (win w i xs) (win w i ys)) < mp -> nth_error out i = Some nul.
  Proof.
    intros He Hw Hb. destruct (count_tracks_window emit body w xs ys Hw Hb) as (out & Hrun & Hl & Hout).
    exists out. split; [exact Hrun|]. split; [exact Hl|]. intros i Hi Hn.
    destruct (Hout i Hi) as (s & Hs & Hc). rewrite Hs. f_equal. apply He. rewrite Hc. exact Hn.
  Qed.

  Lemma leb_lt_false a b : b < a -> (a <=? b) = false.
  Proof. intros H. apply Nat.leb_gt. exact H. Qed.

  Lemma emit_cov_below mp (s : @csum A) : c_n s < mp -> emit_cov mp s = nnan.
  Proof. intros H. unfold emit_cov. rewrite leb_lt_false by exact H. reflexivity. Qed.
  Lemma emit_corr_below mp (s : @csum A) : c_n s < mp -> emit_corr mp s = nnan.
  Proof. intros H. unfold emit_corr. rewrite leb_lt_false by exact H. reflexivity. Qed.
  Lemma emit_regx_alpha_below mp (s : @csum A) : c_n s < mp -> emit_regx_alpha mp s = nnan.
  Proof. intros H. unfold emit_regx_alpha. rewrite leb_lt_false by exact H. reflexivity. Qed.
  Lemma emit_regx_beta_below mp (s : @csum A) : c_n s < mp -> emit_regx_beta mp s = nnan.
  Proof. intros H. unfold emit_regx_beta. rewrite leb_lt_false by exact H. reflexivity. Qed.
  Lemma emit_regx_all_below mp (s : @csum A) : c_n s < mp -> emit_regx_all mp s = (nnan, nnan, nnan).
  Proof. intros H. unfold emit_regx_all. rewrite leb_lt_false by exact H. reflexivity. Qed.
End AnyCarrier.

(* at XR the generic count is the length of the list of observations of the specification *)
Lemma npairs_XR (l : list (XR * XR)) : npairs (D1 := IsNoneXR) (D2 := IsNoneXR) l = length (vpairs l).
Proof.
  rewrite vpairs_length. unfold npairs. f_equal. apply filter_ext. intros [[a|] [b|]]; reflexivity.
Qed.

(* the time-trend family: the count of non-null values at every carrier *)
Section TrendAnyCarrier.
  Context {A : Type} `{NA : Num A} {T : Type} {DT : IsNone T A}.

  Definition nvalid (l : list T) : nat := length (filter (fun v => not_none v) l).
  Definition tcnt_abs (s : @tr_st A) (l : list T) : Prop := t_n s = nvalid l.

  Lemma tcnt_abs_pre s l v : tcnt_abs s l -> tcnt_abs (tr_pre s v) (l ++ [v]).
  Proof.
    unfold tcnt_abs, nvalid, tr_pre. intros H. rewrite filter_app, app_length. cbn [filter].
    destruct (not_none v); cbn [length t_n]; lia.
  Qed.
  Lemma tcnt_abs_post s x l : tcnt_abs s (x :: l) -> tcnt_abs (tr_post s (Some x)) l.
  Proof.
    unfold tcnt_abs, nvalid, tr_post. cbn [filter]. intros H.
    destruct (not_none x); cbn [length t_n] in *; lia.
  Qed.

  Theorem trend_count_tracks_window (emit : @tr_st A -> A) body (w : nat) (xs : list T) :
    1 <= w ->
    exists out, ts_run (tr_feat emit) body w xs = Done out /\ length out = length xs /\
      forall i, i < length xs ->
        exists s, nth_error out i = Some (emit s) /\ t_n s = nvalid (win w i xs).
  Proof.
    intros Hw.
    destruct (sliding_ts_run (tr_feat emit) tcnt_abs (eq_refl : tcnt_abs tr0 []) tcnt_abs_pre tcnt_abs_post
                (fun s => eq_refl) w Hw xs body) as (out & Hrun & Hl & Hout).
    exists out. split; [exact Hrun|]. split; [exact Hl|]. intros i Hi.
    destruct (nth_error xs i) as [v|] eqn:Hv; [|apply nth_error_None in Hv; lia].
    destruct (Hout i v Hv) as (s & Habs & Hnth). exists s. split; [exact Hnth|exact Habs].
  Qed.

  Theorem trend_below_min_periods_null (emit : @tr_st A -> A) (mp : nat) body (w : nat) (xs : list T) :
    (forall s, t_n s < mp -> emit s = nnan) -> 1 <= w ->
    exists out, ts_run (tr_feat emit) body w xs = Done out /\ length out = length xs /\
      forall i, i < length xs -> nvalid (win w i xs) < mp -> nth_error out i = Some nnan.
  Proof.
    intros He Hw. destruct (trend_count_tracks_window emit body w xs Hw) as (out & Hrun & Hl & Hout).
    exists out. split; [exact Hrun|]. split; [exact Hl|]. intros i Hi Hn.
    destruct (Hout i Hi) as (s & Hs & Hc). rewrite Hs. f_equal. apply He. rewrite Hc. exact Hn.
  Qed.

  Lemma trend_emits_below mp (s : @tr_st A) :
    t_n s < mp ->
    emit_reg mp s = nnan /\ emit_tsf mp s = nnan /\ emit_slope mp s = nnan /\ emit_intercept mp s = nnan /\
    emit_resid_mean mp s = nnan.
  Proof.
    intros H. unfold emit_reg, emit_tsf, emit_slope, emit_intercept, emit_resid_mean.
    rewrite (proj2 (Nat.leb_gt _ _) H). repeat split; reflexivity.
  Qed.
End TrendAnyCarrier.

(* ================================================================================================ *)
(* (D) a perfect linear window, end to end on the two-series model                                    *)
(* ================================================================================================ *)
Theorem perfect_window_regx body (w : nat) (mp : option nat) (xs ys : list XR) (i : nat) (c d : R) :
  1 <= w -> length xs = length ys -> i < length xs ->
  let P := pairs (win w i xs) (win w i ys) in
  detB P <> 0%R -> Forall (fun p => fst p = c + d * snd p)%R P -> mp_eff mp w 0 <= length P ->
  (exists out, ts_run2 (ts_vregx_all_f w mp) body w xs ys = Done out /\
               nth_error out i = Some (Some c, Some d, Some 0%R)) /\
  (exists out, ts_run2 (ts_vregx_alpha_f w mp) body w xs ys = Done out /\ nth_error out i = Some (Some c)) /\
  (exists out, ts_run2 (ts_vregx_beta_f w mp) body w xs ys = Done out /\ nth_error out i = Some (Some d)) /\
  (forall k, (k = RSkew -> 3 <= length P) ->
     exists out, ts_vregx_resid k body w mp xs ys = Done out /\ nth_error out i = Some (Some 0%R)).
Proof.
  intros Hw Hlen Hi P HD HL Hmp.
  destruct (perfect_fit c d P HD HL) as (Ha & Hb & Hs & _).
  assert (Hmpb : (mp_eff mp w 0 <=? length P) = true) by (apply Nat.leb_le; exact Hmp).
  split; [|split; [|split]].
  - destruct (csum_entry (emit_regx_all (mp_eff mp w 0))
                (fun P => if mp_eff mp w 0 <=? length P then
                            (if Req_EM_T (detB P) 0 then (None, None, None)
                             else (Some (ols_alpha P), Some (ols_beta P), Some (sse (ols_alpha P) (ols_beta P) P)))
                          else (None, None, None)) body w xs ys Hw Hlen
                (fun s W HA => emit_regx_all_spec s W HA (mp_eff mp w 0))) as (out & Hrun & _ & Hout).
    exists out. split; [exact Hrun|]. rewrite (Hout i Hi). fold P. rewrite Hmpb.
    destruct (Req_EM_T (detB P) 0); [contradiction|]. rewrite Hs, Ha, Hb. reflexivity.
  - destruct (csum_entry (emit_regx_alpha (mp_eff mp w 0))
                (fun P => if mp_eff mp w 0 <=? length P then ols_x P (fun al _ => al) else None) body w xs ys Hw Hlen
                (fun s W HA => emit_regx_alpha_spec s W HA (mp_eff mp w 0))) as (out & Hrun & _ & Hout).
    exists out. split; [exact Hrun|]. rewrite (Hout i Hi). fold P. rewrite Hmpb. unfold ols_x.
    destruct (Req_EM_T (detB P) 0); [contradiction|]. rewrite Ha. reflexivity.
  - destruct (csum_entry (emit_regx_beta (mp_eff mp w 0))
                (fun P => if mp_eff mp w 0 <=? length P then ols_x P (fun _ be => be) else None) body w xs ys Hw Hlen
                (fun s W HA => emit_regx_beta_spec s W HA (mp_eff mp w 0))) as (out & Hrun & _ & Hout).
    exists out. split; [exact Hrun|]. rewrite (Hout i Hi). fold P. rewrite Hmpb. unfold ols_x.
    destruct (Req_EM_T (detB P) 0); [contradiction|]. rewrite Hb. reflexivity.
  - intros k Hk. destruct (resid_entry k body w mp xs ys Hw Hlen) as (out & Hrun & _ & Hout).
    exists out. split; [exact Hrun|]. rewrite (Hout i Hi). fold P. f_equal.
    unfold resid_stat_x. apply (perfect_resid_stats k (mp_eff mp w 0) c d P HD HL Hmp Hk).
Qed.

(* ================================================================================================ *)
(* (C') the residual family (rolling2_apply_idx) at every carrier: count and null below min_periods   *)
(* ================================================================================================ *)
Section ResidAnyCarrier.
  Context {A : Type} `{NA : Num A} {T1 : Type} {D1 : IsNone T1 A} {T2 : Type} {D2 : IsNone T2 A}.

  Lemma resid_emit_below k mp zs (s : @csum A) st e : c_n s < mp -> resid_emit (D1 := D1) (D2 := D2) k mp zs s st e = nnan.
  Proof. intros H. unfold resid_emit. rewrite (proj2 (Nat.leb_gt _ _) H). reflexivity. Qed.

  Theorem resid_below_min_periods_null k body (w : nat) (mp : option nat) (xs : list T1) (ys : list T2) :
    1 <= w -> (body = false \/ length xs <= length ys) ->
    exists out, ts_vregx_resid k body w mp xs ys = Done out /\ length out = common xs ys /\
      forall i, i < common xs ys ->
        npairs (D1 := D1) (D2 := D2) (combine (win w i xs) (win w i ys)) < mp_eff mp w 0 ->
        nth_error out i = Some nnan.
  Proof.
    intros Hw Hb. rewrite resid_common by assumption.
    destruct (firstn_common_lengths xs ys) as [L1 L2].
    set (xs' := firstn (common xs ys) xs) in *. set (ys' := firstn (common xs ys) ys) in *.
    unfold ts_vregx_resid. set (zs := combine xs' ys'). set (m := mp_eff mp w 0).
    assert (Hzl : length zs = common xs ys) by (unfold zs; rewrite combine_length; lia).
    change (resid_cb k m zs) with (idx_cb zs csum_pre csum_post (resid_emit k m zs)).
    assert (Hgen : forall sf : nat -> option nat,
               (forall j, S j < length zs -> sf j = start_of w j) ->
               let out := run (idx_cb zs csum_pre csum_post (resid_emit k m zs)) csum0
                              (mapi (fun i v => (sf i, i, v)) zs) in
               length out = common xs ys /\
               forall i, i < common xs ys ->
                 npairs (D1 := D1) (D2 := D2) (combine (win w i xs) (win w i ys)) < m ->
                 nth_error out i = Some nnan).
    { intros sf H1 out. split; [unfold out; rewrite run_length, mapi_length; exact Hzl|].
      intros i Hi Hn. rewrite <- Hzl in Hi.
      destruct (@idx_sliding_emit _ _ _ zs csum_pre csum_post (resid_emit k m zs) csum0 cnt_abs
                  cnt_abs_init cnt_abs_pre cnt_abs_post w Hw sf H1 i Hi) as (s & Habs & Hnth).
      unfold out. rewrite Hnth. f_equal. apply resid_emit_below.
      unfold cnt_abs in Habs. rewrite Habs. unfold zs. rewrite win_combine. unfold xs', ys'.
      rewrite Hzl in Hi. rewrite !win_firstn by exact Hi. exact Hn. }
    destruct body.
    - unfold rolling2_apply_idx_to.
      replace (length ys' <? length xs') with false by (symmetry; apply Nat.ltb_ge; lia).
      fold zs. rewrite rolling_apply_idx_to_eq by exact Hw. unfold args_to_idx.
      destruct (Hgen (start_of (Nat.min w (length zs)))) as [HL HO].
      + intros j Hj. apply start_of_to_inner. exact Hj.
      + eexists. split; [reflexivity|]. split; [exact HL|exact HO].
    - rewrite rolling2_apply_idx_default_pos by exact Hw. fold zs. rewrite rolling_apply_idx_default_eq by exact Hw.
      destruct (Hgen (start_of w)) as [HL HO].
      + intros j Hj. reflexivity.
      + eexists. split; [reflexivity|]. split; [exact HL|exact HO].
  Qed.
End ResidAnyCarrier.

(* a window at least as long as the prefix (in particular w > len) is the whole prefix 0..=i *)
Lemma win_covers_prefix {X} w i (xs : list X) : S i <= w -> win w i xs = firstn (S i) xs.
Proof.
  intros H. rewrite win_seg. unfold wstart, seg. replace (S i - w) with 0 by lia.
  rewrite Nat.sub_0_r. reflexivity.
Qed.
