(* Proofs/EncMaps.v — C08 for the maps of Model/MapOps.v: re-encoding the input re-encodes the output and
   changes nothing else.  The maps return ELEMENTS (not numbers), so the conclusion is a relation: the two
   results have the same length and are element-wise `mrel`-related (same nullness, same unwrapped value on
   non-null elements); a panic (integer `none()`) happens in both or in neither.  vpct_change returns f64 and
   is an equality.  vdiff needs `Sub` on the element type, which Option<_> does not have: it exists under one
   encoding only and is not part of this file.  Axiom-free.                                                   *)
From Coq Require Import List Bool ZArith Lia.
From Tevec Require Import Base.Prelude Model.MapOps.
Import ListNotations.

Section Rel.
  Context {T1 T2 I : Type} (d1 : NullDict T1 I) (d2 : NullDict T2 I).

  Definition mrel (a : T1) (b : T2) : Prop :=
    is_none d1 a = is_none d2 b /\ (is_none d2 b = false -> unwrap d1 a = unwrap d2 b).
  Definition opt_mrel (v1 : option T1) (v2 : option T2) : Prop :=
    match v1, v2 with Some a, Some b => mrel a b | None, None => True | _, _ => False end.
  Definition res1_rel (r1 : res T1) (r2 : res T2) : Prop :=
    match r1, r2 with Ok a, Ok b => mrel a b | Panic k1, Panic k2 => k1 = k2 | _, _ => False end.
  Definition res_rel (r1 : res (list T1)) (r2 : res (list T2)) : Prop :=
    match r1, r2 with Ok l1, Ok l2 => Forall2 mrel l1 l2 | Panic k1, Panic k2 => k1 = k2 | _, _ => False end.
  (* T::none() of the two dictionaries: related nulls, or the same panic *)
  Definition none_rel : Prop := res1_rel (none d1) (none d2).
  (* Cast<f64> of the elements: equal on non-null elements, NaN on null ones *)
  Definition cast_rel {F} (o : FOps F) (cast1 : T1 -> F) (cast2 : T2 -> F) : Prop :=
    forall a b, mrel a b ->
      (is_none d2 b = false -> cast1 a = cast2 b) /\
      (is_none d2 b = true -> fisnan o (cast1 a) = true /\ fisnan o (cast2 b) = true).

  Lemma F2_len {X Y} (R : X -> Y -> Prop) l1 l2 : Forall2 R l1 l2 -> length l1 = length l2.
  Proof. induction 1; cbn [length]; congruence. Qed.
  Lemma F2_repeat {X Y} (R : X -> Y -> Prop) a b n : R a b -> Forall2 R (repeat a n) (repeat b n).
  Proof. intros H. induction n; cbn [repeat]; constructor; assumption. Qed.
  Lemma F2_firstn {X Y} (R : X -> Y -> Prop) n l1 l2 : Forall2 R l1 l2 -> Forall2 R (firstn n l1) (firstn n l2).
  Proof. intros HF. revert n. induction HF; intros [|n]; cbn [firstn]; constructor; auto. Qed.
  Lemma F2_skipn {X Y} (R : X -> Y -> Prop) n l1 l2 : Forall2 R l1 l2 -> Forall2 R (skipn n l1) (skipn n l2).
  Proof. intros HF. revert n. induction HF as [|a b r1 r2 Hab HF IH]; intros [|n]; cbn [skipn]; try constructor; auto. Qed.
  Lemma F2_rev {X Y} (R : X -> Y -> Prop) l1 l2 : Forall2 R l1 l2 -> Forall2 R (rev l1) (rev l2).
  Proof.
    induction 1 as [|a b r1 r2 Hab _ IH]; [constructor|]. cbn [rev].
    apply Forall2_app; [exact IH|repeat constructor; exact Hab].
  Qed.
  Lemma F2_combine {X1 X2 Y1 Y2} (R : X1 -> X2 -> Prop) (Q : Y1 -> Y2 -> Prop) xs1 xs2 ys1 ys2 :
    Forall2 R xs1 xs2 -> Forall2 Q ys1 ys2 ->
    Forall2 (fun p q => R (fst p) (fst q) /\ Q (snd p) (snd q)) (combine xs1 ys1) (combine xs2 ys2).
  Proof.
    intros HX. revert ys1 ys2. induction HX as [|a b r1 r2 Hab _ IH]; intros ys1 ys2 HY; [constructor|].
    destruct HY as [|c d s1 s2 Hcd HY]; [constructor|]. cbn [combine]. constructor; [split; assumption|].
    apply IH. exact HY.
  Qed.
  Lemma map_rel' {X Y Z} (R : X -> Y -> Prop) (f : X -> Z) (g : Y -> Z) l1 l2 :
    (forall a b, R a b -> f a = g b) -> Forall2 R l1 l2 -> map f l1 = map g l2.
  Proof. intros H HF. induction HF as [|a b r1 r2 Hab _ IH]; cbn [map]; [reflexivity|]. rewrite (H a b Hab), IH. reflexivity. Qed.

  (* ---- shift-like: elements are only moved ---- *)
  Lemma shift_rel {X Y} (R : X -> Y -> Prop) n (v1 : X) (v2 : Y) xs1 xs2 :
    R v1 v2 -> Forall2 R xs1 xs2 ->
    match shift n v1 xs1, shift n v2 xs2 with
    | Ok l1, Ok l2 => Forall2 R l1 l2 | Panic k1, Panic k2 => k1 = k2 | _, _ => False end.
  Proof.
    intros Hv HF. unfold shift. rewrite (F2_len _ _ _ HF).
    destruct (Z.of_nat (length xs2) <=? Z.abs n)%Z; [apply F2_repeat; exact Hv|].
    destruct (0 <? n)%Z.
    - destruct (usub (length xs2) (Z.to_nat (Z.abs n))) as [m|k]; cbn [bind]; [|reflexivity].
      apply Forall2_app; [apply F2_repeat; exact Hv|apply F2_firstn; exact HF].
    - destruct (n <? 0)%Z; [|exact HF].
      apply Forall2_app; [apply F2_skipn; exact HF|apply F2_repeat; exact Hv].
  Qed.

  Hypothesis Hnone : none_rel.

  Lemma or_none_rel v1 v2 : opt_mrel v1 v2 -> res1_rel (or_none d1 v1) (or_none d2 v2).
  Proof. destruct v1, v2; cbn [opt_mrel or_none]; intros H; try contradiction; [exact H|exact Hnone]. Qed.

  Theorem vshift_rel n v1 v2 xs1 xs2 :
    Forall2 mrel xs1 xs2 -> opt_mrel v1 v2 -> res_rel (vshift d1 n v1 xs1) (vshift d2 n v2 xs2).
  Proof.
    intros HF Hv. unfold vshift. pose proof (or_none_rel _ _ Hv) as Ho.
    destruct (or_none d1 v1) as [a|k1], (or_none d2 v2) as [b|k2]; cbn [res1_rel] in Ho; try contradiction;
      cbn [bind res_rel]; [|exact Ho].
    exact (shift_rel mrel n a b xs1 xs2 Ho HF).
  Qed.

  (* ---- fills ---- *)
  Lemma sequence_rel l1 l2 : Forall2 res1_rel l1 l2 -> res_rel (sequence l1) (sequence l2).
  Proof.
    induction 1 as [|r1 r2 t1 t2 Hr _ IH]; [constructor|]. cbn [sequence].
    destruct r1 as [a|k1], r2 as [b|k2]; cbn [res1_rel] in Hr; try contradiction; cbn [bind]; [|exact Hr].
    destruct (sequence t1) as [s1|k1], (sequence t2) as [s2|k2]; cbn [res_rel] in IH; try contradiction;
      cbn [bind res_rel]; [constructor; assumption|exact IH].
  Qed.

  Lemma ffill_run_rel v1 v2 xs1 xs2 :
    opt_mrel v1 v2 -> Forall2 mrel xs1 xs2 -> forall last1 last2, opt_mrel last1 last2 ->
    Forall2 res1_rel (run (ffill_step d1 (is_none d1) v1) last1 xs1) (run (ffill_step d2 (is_none d2) v2) last2 xs2).
  Proof.
    intros Hv HF. induction HF as [|a b r1 r2 Hab _ IH]; intros last1 last2 Hl; [constructor|].
    cbn [run]. unfold ffill_step at 1 3. pose proof Hab as [Hn _]. rewrite Hn.
    destruct (is_none d2 b) eqn:Eb.
    - constructor; [|apply IH; exact Hl].
      destruct last1 as [l1|], last2 as [l2|]; cbn [opt_mrel] in Hl; try contradiction; [exact Hl|].
      destruct v1 as [x1|], v2 as [x2|]; cbn [opt_mrel] in Hv; try contradiction; [exact Hv|exact Hnone].
    - constructor; [exact Hab|]. apply IH. exact Hab.
  Qed.

  Theorem ffill_rel v1 v2 xs1 xs2 :
    Forall2 mrel xs1 xs2 -> opt_mrel v1 v2 -> res_rel (ffill d1 v1 xs1) (ffill d2 v2 xs2).
  Proof. intros HF Hv. unfold ffill, ffill_mask. apply sequence_rel, ffill_run_rel; [exact Hv|exact HF|exact Logic.I]. Qed.

  Theorem bfill_rel v1 v2 xs1 xs2 :
    Forall2 mrel xs1 xs2 -> opt_mrel v1 v2 -> res_rel (bfill d1 v1 xs1) (bfill d2 v2 xs2).
  Proof.
    intros HF Hv. unfold bfill, bfill_mask.
    assert (H : res_rel (sequence (run (ffill_step d1 (is_none d1) v1) None (rev xs1)))
                        (sequence (run (ffill_step d2 (is_none d2) v2) None (rev xs2)))).
    { apply sequence_rel, ffill_run_rel; [exact Hv|apply F2_rev; exact HF|exact Logic.I]. }
    destruct (sequence (run (ffill_step d1 (is_none d1) v1) None (rev xs1))) as [l1|k1],
             (sequence (run (ffill_step d2 (is_none d2) v2) None (rev xs2))) as [l2|k2];
      cbn [res_rel] in H; try contradiction; cbn [bind res_rel]; [apply F2_rev; exact H|exact H].
  Qed.

  Theorem fill_rel v1 v2 xs1 xs2 :
    Forall2 mrel xs1 xs2 -> mrel v1 v2 -> Forall2 mrel (fill d1 v1 xs1) (fill d2 v2 xs2).
  Proof.
    intros HF Hv. unfold fill, fill_mask. induction HF as [|a b r1 r2 Hab _ IH]; cbn [map]; constructor; [|exact IH].
    pose proof Hab as [Hn _]. rewrite Hn. destruct (is_none d2 b) eqn:Eb; [exact Hv|exact Hab].
  Qed.

  (* ---- vclip ---- *)
  Lemma mapM_rel (f1 : T1 -> res T1) (f2 : T2 -> res T2) xs1 xs2 :
    (forall a b, mrel a b -> res1_rel (f1 a) (f2 b)) -> Forall2 mrel xs1 xs2 -> res_rel (mapM f1 xs1) (mapM f2 xs2).
  Proof.
    intros Hf HF. unfold mapM. apply sequence_rel. induction HF as [|a b r1 r2 Hab _ IH]; cbn [map]; constructor; auto.
  Qed.

  Theorem vclip_rel (ltb : I -> I -> bool) lo1 lo2 hi1 hi2 xs1 xs2 :
    Forall2 mrel xs1 xs2 -> mrel lo1 lo2 -> mrel hi1 hi2 ->
    res_rel (vclip d1 ltb lo1 hi1 xs1) (vclip d2 ltb lo2 hi2 xs2).
  Proof.
    intros HF Hlo Hhi. pose proof Hlo as [Hln Hlu]. pose proof Hhi as [Hhn Hhu]. unfold vclip. rewrite Hln, Hhn.
    assert (Hel : forall (g1 : I -> T1 -> T1) (g2 : I -> T2 -> T2),
              (forall vi a b, mrel a b -> mrel (g1 vi a) (g2 vi b)) ->
              forall a b, mrel a b ->
                res1_rel (if negb (is_none d1 a) then do vi <- unwrap d1 a; Ok (g1 vi a) else Ok a)
                         (if negb (is_none d2 b) then do vi <- unwrap d2 b; Ok (g2 vi b) else Ok b)).
    { intros g1 g2 Hg a b Hab. pose proof Hab as [Hn Hu]. rewrite Hn. destruct (is_none d2 b) eqn:Eb; cbn [negb].
      - exact Hab.
      - rewrite (Hu eq_refl). destruct (unwrap d2 b) as [vi|k]; cbn [bind res1_rel]; [|reflexivity].
        apply Hg. exact Hab. }
    destruct (is_none d2 lo2) eqn:El, (is_none d2 hi2) eqn:Eh; cbn [negb].
    - exact HF.
    - rewrite (Hhu eq_refl). destruct (unwrap d2 hi2) as [hi|k]; cbn [bind res_rel]; [|reflexivity].
      apply mapM_rel; [|exact HF]. intros a b Hab. unfold clip_hi.
      apply (Hel (fun vi v => if ltb hi vi then hi1 else v) (fun vi v => if ltb hi vi then hi2 else v)); [|exact Hab].
      intros vi x y Hxy. destruct (ltb hi vi); [exact Hhi|exact Hxy].
    - rewrite (Hlu eq_refl). destruct (unwrap d2 lo2) as [lo|k]; cbn [bind res_rel]; [|reflexivity].
      apply mapM_rel; [|exact HF]. intros a b Hab. unfold clip_lo.
      apply (Hel (fun vi v => if ltb vi lo then lo1 else v) (fun vi v => if ltb vi lo then lo2 else v)); [|exact Hab].
      intros vi x y Hxy. destruct (ltb vi lo); [exact Hlo|exact Hxy].
    - rewrite (Hlu eq_refl). destruct (unwrap d2 lo2) as [lo|k]; cbn [bind res_rel]; [|reflexivity].
      rewrite (Hhu eq_refl). destruct (unwrap d2 hi2) as [hi|k]; cbn [bind res_rel]; [|reflexivity].
      apply mapM_rel; [|exact HF]. intros a b Hab. unfold clip2.
      apply (Hel (fun vi v => if ltb vi lo then lo1 else if ltb hi vi then hi1 else v)
                 (fun vi v => if ltb vi lo then lo2 else if ltb hi vi then hi2 else v)); [|exact Hab].
      intros vi x y Hxy. destruct (ltb vi lo); [exact Hlo|].
      destruct (ltb hi vi); [exact Hhi|exact Hxy].
  Qed.

  (* ---- vabs = map(IsNone::map(|v| v.abs())): the two dictionaries' `imap` must be related ---- *)
  Definition imap_rel (f : I -> I) : Prop := forall a b, mrel a b -> res1_rel (imap d1 f a) (imap d2 f b).
  Theorem vabs_rel (iabs : I -> I) xs1 xs2 :
    imap_rel iabs -> Forall2 mrel xs1 xs2 -> res_rel (vabs d1 iabs xs1) (vabs d2 iabs xs2).
  Proof. intros Hi HF. unfold vabs. apply mapM_rel; assumption. Qed.

  (* ---- vpct_change: an f64 result, hence an equality ---- *)
  Section Pct.
    Context {F : Type} (o : FOps F) (cast1 : T1 -> F) (cast2 : T2 -> F).
    Hypothesis Hcast : cast_rel o cast1 cast2.

    Definition frel (x y : F) : Prop := x = y \/ (fisnan o x = true /\ fisnan o y = true).

    Lemma pct_pos_rel x y a b : frel x y -> mrel a b -> pct_pos d1 o cast1 x a = pct_pos d2 o cast2 y b.
    Proof.
      intros Hxy Hab. unfold pct_pos. destruct (Hcast a b Hab) as [Hc1 Hc2]. destruct Hab as [Hn Hu]. rewrite Hn.
      destruct Hxy as [->|[Hx Hy]].
      - destruct (fisnan o y); [reflexivity|]. cbn [negb andb].
        destruct (is_none d2 b) eqn:Eb; [reflexivity|]. cbn [negb andb]. rewrite (Hc1 eq_refl). reflexivity.
      - rewrite Hx, Hy. reflexivity.
    Qed.
    Lemma pct_neg_rel a b a' b' : mrel a b -> mrel a' b' -> pct_neg d1 o cast1 a a' = pct_neg d2 o cast2 b b'.
    Proof.
      intros Hab Hab'. unfold pct_neg. destruct (Hcast a b Hab) as [Hc1 _]. destruct (Hcast a' b' Hab') as [Hc1' _].
      destruct Hab as [Hn _], Hab' as [Hn' _]. rewrite Hn, Hn'.
      destruct (is_none d2 b) eqn:Eb; [reflexivity|]. destruct (is_none d2 b') eqn:Eb'; [reflexivity|].
      cbn [negb andb]. rewrite (Hc1 eq_refl), (Hc1' eq_refl). reflexivity.
    Qed.

    Theorem vpct_rel n xs1 xs2 : Forall2 mrel xs1 xs2 -> vpct_change d1 o cast1 n xs1 = vpct_change d2 o cast2 n xs2.
    Proof.
      intros HF. unfold vpct_change. rewrite (F2_len _ _ _ HF).
      destruct (Z.of_nat (length xs2) <=? Z.abs n)%Z; [reflexivity|].
      destruct (0 <? n)%Z.
      - destruct (usub (length xs2) (Z.to_nat (Z.abs n))) as [m|k]; cbn [bind]; [|reflexivity]. f_equal.
        apply (map_rel' (fun (p : F * T1) (q : F * T2) => frel (fst p) (fst q) /\ mrel (snd p) (snd q))).
        + intros [x a] [y b] [H1 H2]. cbn [fst snd] in *. apply pct_pos_rel; assumption.
        + apply F2_combine; [|exact HF]. apply Forall2_app; [apply F2_repeat; left; reflexivity|].
          pose proof (F2_firstn mrel m _ _ HF) as HFm.
          induction HFm as [|a b r1 r2 Hab _ IH]; cbn [map]; constructor; [|exact IH].
          destruct (Hcast a b Hab) as [Hc1 Hc2]. unfold frel. destruct (is_none d2 b); [right; apply Hc2|left; apply Hc1]; reflexivity.
      - f_equal. f_equal.
        apply (map_rel' (fun (p : T1 * T1) (q : T2 * T2) => mrel (fst p) (fst q) /\ mrel (snd p) (snd q))).
        + intros [a a'] [b b'] [H1 H2]. cbn [fst snd] in *. apply pct_neg_rel; assumption.
        + apply F2_combine; [apply F2_skipn; exact HF|exact HF].
    Qed.
  End Pct.
End Rel.

(* ---- the two real dictionaries: f64 (NaN null) against Option<f64> ------------------------------------------ *)
Section FloatOpt.
  Context {A : Type} (inan : A -> bool) (nanv : A).
  Hypothesis Hnan : inan nanv = true.

  Lemma none_rel_float_opt : none_rel (dict_float inan nanv) (dict_opt inan).
  Proof. unfold none_rel. cbn. split; [exact Hnan|intros C; discriminate]. Qed.

  (* IsNone::map for f64 and for Option<f64> (from_inner canonicalises) are related for every function that
     maps null to null (abs does: ExtLaws.abs_nan) *)
  Lemma imap_rel_float_opt (f : A -> A) :
    (forall x, inan x = true -> inan (f x) = true) -> imap_rel (dict_float inan nanv) (dict_opt inan) f.
  Proof.
    intros Hf a b [Hn Hu]. cbn in Hn, Hu |- *. destruct b as [y|].
    - specialize (Hu eq_refl). injection Hu as ->. unfold mrel. cbn. destruct (inan (f y)); split; try reflexivity;
        intros C; try discriminate; reflexivity.
    - unfold mrel. cbn. split; [apply Hf; exact Hn|intros C; discriminate].
  Qed.

  Lemma mrel_float_opt (xs : list A) :
    Forall2 (mrel (dict_float inan nanv) (dict_opt inan)) xs (map (fun x => if inan x then None else Some x) xs).
  Proof.
    induction xs as [|x xs IH]; [constructor|]. cbn [map]. constructor; [|exact IH].
    unfold mrel. cbn. destruct (inan x); split; try reflexivity; intros C; try discriminate; reflexivity.
  Qed.
End FloatOpt.
