(* Proofs/NullView.v — C08 for the aggregations of Model/Agg.v, for EVERY carrier and EVERY pair of null
   dictionaries (no law of the numeric class is used: the statements hold bit for bit at binary64):
     * every valid aggregation is a function of `vals xs` (the unwrapped non-null elements, in order);
     * `vals` is invariant under re-encoding (SameView) and under null insertion (NullInsert);
     * the two-series aggregations are functions of the pairwise-complete observations `vpairs`, which are
       invariant under re-encoding of either series and under pairwise insertion (PairInsert);
     * the positional aggregations (arg-extrema, count_none, counting the null value) are invariant under
       re-encoding (they are not, and are not claimed to be, invariant under insertion).
   Axiom-free.                                                                                          *)
From Coq Require Import Lia List Bool.
From Tevec Require Import Base.Prelude Base.Num Model.Agg Model.NullView Proofs.AggGeneric Proofs.ViewBase.
Import ListNotations.
Set Implicit Arguments.

Section View.
  Context {A T1 T2 : Type} (D1 : IsNone T1 A) (D2 : IsNone T2 A).

  Lemma vals_same_view xs1 xs2 : SameView D1 D2 xs1 xs2 -> vals xs1 = vals xs2.
  Proof.
    induction 1 as [|a b r1 r2 Hab _ IH]; [reflexivity|]. rewrite !vals_cons, (sv_not_none Hab).
    destruct (not_none b) eqn:E; [|exact IH]. rewrite (sv_unwrap Hab E), IH. reflexivity.
  Qed.

  Lemma same_view_length xs1 xs2 : SameView D1 D2 xs1 xs2 -> length xs1 = length xs2.
  Proof. induction 1; cbn [length]; congruence. Qed.

  (* the option views coincide, and conversely *)
  Lemma same_view_opt_view xs1 xs2 : SameView D1 D2 xs1 xs2 <-> opt_view xs1 = opt_view xs2.
  Proof.
    unfold SameView, opt_view. split.
    - induction 1 as [|a b r1 r2 Hab _ IH]; [reflexivity|]. cbn [map]. rewrite IH. f_equal. exact Hab.
    - revert xs2. induction xs1 as [|a r1 IH]; intros [|b r2] E; try discriminate; [constructor|].
      cbn [map] in E. injection E as E1 E2. constructor; [exact E1|apply IH; exact E2].
  Qed.
End View.

(* the option view of a series, read with the view's own dictionary, encodes the same series *)
Lemma view_same_view {A T} (D : IsNone T A) (dflt : A) (xs : list T) :
  SameView D (IsNone_view dflt) xs (opt_view xs).
Proof.
  unfold SameView, opt_view. induction xs as [|v xs IH]; [constructor|]. cbn [map]. constructor; [|exact IH].
  unfold same_view, to_opt at 2. cbn [is_none unwrap IsNone_view]. destruct (to_opt v); reflexivity.
Qed.

(* ---- null insertion ------------------------------------------------------------------------------------- *)
Section Insert.
  Context {A T : Type} {D : IsNone T A}.

  Lemma vals_null_insert xs ys : NullInsert xs ys -> vals ys = vals xs.
  Proof.
    induction 1 as [|x xs ys _ IH|v xs ys Hv _ IH]; [reflexivity| |].
    - rewrite !vals_cons, IH. reflexivity.
    - rewrite vals_cons. unfold not_none. rewrite Hv. exact IH.
  Qed.

  Lemma null_insert_refl xs : NullInsert xs xs.
  Proof. induction xs; constructor; assumption. Qed.

  (* insertion by pattern is an insertion *)
  Lemma insert_pat_insert (nl : T) p xs : is_none nl = true -> NullInsert xs (insert_pat nl p xs).
  Proof.
    intros Hn. revert xs. induction p as [|b p IH]; intros xs; [apply null_insert_refl|].
    destruct b; cbn [insert_pat]; [apply ni_null; [exact Hn|apply IH]|].
    destruct xs as [|x xs]; [apply IH|apply ni_keep, IH].
  Qed.
  (* deleting all nulls is the extreme case: the valid elements themselves *)
  Lemma null_insert_valid_elems xs : NullInsert (valid_elems xs) xs.
  Proof.
    induction xs as [|v xs IH]; [constructor|]. unfold valid_elems in *. cbn [filter].
    unfold not_none at 1. destruct (is_none v) eqn:E; cbn [negb]; [apply ni_null; assumption|apply ni_keep, IH].
  Qed.
End Insert.

(* ---- every valid aggregation is a function of `vals` ----------------------------------------------------- *)
Section AggVals.
  Context {A : Type} {NA : Num A} {T1 T2 : Type} {D1 : IsNone T1 A} {D2 : IsNone T2 A}
          {F : Type} {NF : Num F}.
  Variable tof : A -> F.
  Variables (xs1 : list T1) (xs2 : list T2).
  Hypothesis HV : vals xs1 = vals xs2.

  Lemma count_valid_vals : count_valid xs1 = count_valid xs2.
  Proof. rewrite !count_valid_spec, HV. reflexivity. Qed.
  Lemma vsum_vals : vsum xs1 = vsum xs2.
  Proof. rewrite !vsum_is_plain_sum, HV. reflexivity. Qed.
  Lemma vmean_vals : vmean tof xs1 = vmean tof xs2.
  Proof. rewrite !(vmean_is_plain_mean tof), HV. reflexivity. Qed.
  Lemma vmax_vals : vmax xs1 = vmax xs2.
  Proof. rewrite !vmax_is_plain_max, HV. reflexivity. Qed.
  Lemma vmin_vals : vmin xs1 = vmin xs2.
  Proof. rewrite !vmin_is_plain_min, HV. reflexivity. Qed.
  Lemma vmean_var_vals mp : vmean_var tof mp xs1 = vmean_var tof mp xs2.
  Proof. unfold vmean_var. rewrite !vapply_n_spec, HV. reflexivity. Qed.
  Lemma vvar_vals mp : vvar tof mp xs1 = vvar tof mp xs2.
  Proof. unfold vvar. rewrite vmean_var_vals. reflexivity. Qed.
  Lemma vstd_vals mp : vstd tof mp xs1 = vstd tof mp xs2.
  Proof. unfold vstd. rewrite vvar_vals. reflexivity. Qed.
  Lemma vskew_vals mp : vskew tof mp xs1 = vskew tof mp xs2.
  Proof. unfold vskew. rewrite !vapply_n_spec, HV. reflexivity. Qed.
  Lemma vkurt_vals mp : vkurt tof mp xs1 = vkurt tof mp xs2.
  Proof. unfold vkurt. rewrite !vapply_n_spec, HV. reflexivity. Qed.

  (* first / last valid element, as values *)
  Lemma vfirst_unwrap (T : Type) (D : IsNone T A) (xs : list T) : option_map unwrap (vfirst xs) = hd_error (vals xs).
  Proof. rewrite vfirst_spec. unfold vals. rewrite hd_error_map. reflexivity. Qed.
  Lemma vlast_unwrap (T : Type) (D : IsNone T A) (xs : list T) : option_map unwrap (vlast xs) = hd_error (rev (vals xs)).
  Proof. rewrite vlast_spec. unfold vals. rewrite <- map_rev, hd_error_map. reflexivity. Qed.
  Lemma vfirst_vals : option_map unwrap (vfirst xs1) = option_map unwrap (vfirst xs2).
  Proof. rewrite !vfirst_unwrap, HV. reflexivity. Qed.
  Lemma vlast_vals : option_map unwrap (vlast xs1) = option_map unwrap (vlast xs2).
  Proof. rewrite !vlast_unwrap, HV. reflexivity. Qed.

  (* counting a non-null value *)
  Lemma vcount_value_vals (v1 : T1) (v2 : T2) :
    same_view D1 D2 v1 v2 -> not_none v2 = true -> vcount_value v1 xs1 = vcount_value v2 xs2.
  Proof.
    intros E Hn. rewrite !vcount_value_spec, (sv_not_none E), Hn, (sv_unwrap E Hn), HV. reflexivity.
  Qed.
End AggVals.

(* ---- positional aggregations: invariant under re-encoding --------------------------------------------- *)
Section Positional.
  Context {A : Type} {NA : Num A} {T1 T2 : Type} {D1 : IsNone T1 A} {D2 : IsNone T2 A}.
  Variables (xs1 : list T1) (xs2 : list T2).
  Hypothesis HS : SameView D1 D2 xs1 xs2.

  Lemma varg_same_view better : varg better xs1 = varg better xs2.
  Proof.
    unfold varg. f_equal. f_equal. apply (fold_left_rel (R := same_view D1 D2)); [|exact HS].
    intros [[ext idx] cur] a b E. unfold arg_step. rewrite (sv_not_none E).
    destruct (not_none b) eqn:Hb; [|reflexivity]. rewrite (sv_unwrap E Hb). reflexivity.
  Qed.
  Lemma vargmax_same_view : vargmax xs1 = vargmax xs2.
  Proof. apply varg_same_view. Qed.
  Lemma vargmin_same_view : vargmin xs1 = vargmin xs2.
  Proof. apply varg_same_view. Qed.

  Lemma count_none_same_view : count_none xs1 = count_none xs2.
  Proof.
    unfold count_none. apply (fold_left_rel (R := same_view D1 D2)); [|exact HS].
    intros n a b E. rewrite (sv_is_none E). reflexivity.
  Qed.

  (* any value, null or not *)
  Lemma vcount_value_same_view (v1 : T1) (v2 : T2) :
    same_view D1 D2 v1 v2 -> vcount_value v1 xs1 = vcount_value v2 xs2.
  Proof.
    intros E. destruct (not_none v2) eqn:Hn.
    - apply vcount_value_vals; [apply vals_same_view; exact HS|exact E|exact Hn].
    - rewrite !vcount_value_spec, (sv_not_none E), Hn. exact count_none_same_view.
  Qed.

  (* first / last valid element, as elements: related, hence equal option views *)
  Lemma find_same_view l1 l2 :
    SameView D1 D2 l1 l2 ->
    option_map (to_opt (H := D1)) (find (fun v => not_none v) l1) =
    option_map (to_opt (H := D2)) (find (fun v => not_none v) l2).
  Proof.
    induction 1 as [|a b r1 r2 Hab _ IH]; [reflexivity|]. cbn [find]. rewrite (sv_not_none Hab).
    destruct (not_none b); [cbn [option_map]; f_equal; exact Hab|exact IH].
  Qed.
  Lemma vfirst_same_view : option_map (to_opt (H := D1)) (vfirst xs1) = option_map (to_opt (H := D2)) (vfirst xs2).
  Proof. apply find_same_view. exact HS. Qed.
  Lemma vlast_same_view : option_map (to_opt (H := D1)) (vlast xs1) = option_map (to_opt (H := D2)) (vlast xs2).
  Proof. apply find_same_view. apply Forall2_rev. exact HS. Qed.
End Positional.

(* ---- two series: functions of the pairwise-complete observations -------------------------------------------- *)
Section Pairs.
  Context {A T1 T2 : Type} {D1 : IsNone T1 A} {D2 : IsNone T2 A}.

  Definition vpairs (zs : list (T1 * T2)) : list (A * A) :=
    flat_map (fun p => if complete p then [(unwrap (fst p), unwrap (snd p))] else []) zs.

  Lemma vpairs_cons p zs :
    vpairs (p :: zs) = if complete p then (unwrap (fst p), unwrap (snd p)) :: vpairs zs else vpairs zs.
  Proof. unfold vpairs. cbn [flat_map]. destruct (complete p); reflexivity. Qed.

  Lemma vpairs_pair_insert zs zs' : PairInsert zs zs' -> vpairs zs' = vpairs zs.
  Proof.
    induction 1 as [|p zs zs' _ IH|p zs zs' Hp _ IH]; [reflexivity| |].
    - rewrite !vpairs_cons, IH. reflexivity.
    - rewrite vpairs_cons, Hp. exact IH.
  Qed.
End Pairs.

Section PairsView.
  Context {A T1 T2 U1 U2 : Type} (D1 : IsNone T1 A) (D2 : IsNone T2 A) (E1 : IsNone U1 A) (E2 : IsNone U2 A).

  (* re-encoding either series (independently) keeps the pairwise-complete observations *)
  Lemma vpairs_same_view xs ys xs' ys' :
    SameView D1 E1 xs xs' -> SameView D2 E2 ys ys' ->
    vpairs (D1 := D1) (D2 := D2) (combine xs ys) = vpairs (D1 := E1) (D2 := E2) (combine xs' ys').
  Proof.
    intros HX HY. pose proof (Forall2_combine HX HY) as HZ.
    induction HZ as [|p q r1 r2 [Hp Hq] _ IH]; [reflexivity|].
    rewrite !vpairs_cons. unfold complete. rewrite (sv_not_none Hp), (sv_not_none Hq).
    destruct (not_none (fst q)) eqn:Ea, (not_none (snd q)) eqn:Eb; cbn [andb]; try exact IH.
    rewrite (sv_unwrap Hp Ea), (sv_unwrap Hq Eb), IH. reflexivity.
  Qed.
End PairsView.

Section TwoSeries.
  Context {A : Type} {NA : Num A} {F : Type} {NF : Num F}.
  Variable tof : A -> F.
  Local Open Scope num_scope.

  Definition cov_add (s : nat * F * F * F) (p : A * A) : nat * F * F * F :=
    let '(n, sa, sb, sab) := s in
    let va := tof (fst p) in let vb := tof (snd p) in (S n, sa + va, sb + vb, sab + va * vb).
  Definition corr_add (s : nat * F * F * F * F * F) (p : A * A) : nat * F * F * F * F * F :=
    let '(n, sa, s2a, sb, s2b, sab) := s in
    let va := tof (fst p) in let vb := tof (snd p) in
    (S n, sa + va, s2a + va * va, sb + vb, s2b + vb * vb, sab + va * vb).

  Context {T1 T2 : Type} {D1 : IsNone T1 A} {D2 : IsNone T2 A}.

  Lemma cov_fold (zs : list (T1 * T2)) s :
    fold_left (cov_step tof) zs s = fold_left cov_add (vpairs zs) s.
  Proof.
    revert s. induction zs as [|p zs IH]; intros s; [reflexivity|]. cbn [fold_left]. rewrite vpairs_cons.
    destruct s as [[[n sa] sb] sab]. unfold cov_step at 2. unfold complete.
    destruct (not_none (fst p) && not_none (snd p)); [cbn [fold_left cov_add fst snd]|]; apply IH.
  Qed.
  Lemma corr_fold (zs : list (T1 * T2)) s :
    fold_left (corr_step tof) zs s = fold_left corr_add (vpairs zs) s.
  Proof.
    revert s. induction zs as [|p zs IH]; intros s; [reflexivity|]. cbn [fold_left]. rewrite vpairs_cons.
    destruct s as [[[[[n sa] s2a] sb] s2b] sab]. unfold corr_step at 2. unfold complete.
    destruct (not_none (fst p) && not_none (snd p)); [cbn [fold_left corr_add fst snd]|]; apply IH.
  Qed.
End TwoSeries.

Section TwoSeriesVals.
  Context {A : Type} {NA : Num A} {F : Type} {NF : Num F}.
  Variable tof : A -> F.
  Context {T1 T2 U1 U2 : Type} {D1 : IsNone T1 A} {D2 : IsNone T2 A} {E1 : IsNone U1 A} {E2 : IsNone U2 A}.
  Variables (xs : list T1) (ys : list T2) (xs' : list U1) (ys' : list U2).
  Hypothesis HP : vpairs (D1 := D1) (D2 := D2) (combine xs ys) = vpairs (D1 := E1) (D2 := E2) (combine xs' ys').

  Lemma vcov_pairs mp : vcov tof mp xs ys = vcov tof mp xs' ys'.
  Proof. unfold vcov. rewrite !cov_fold, HP. reflexivity. Qed.
  Lemma vcorr_pairs mp : vcorr_pearson tof mp xs ys = vcorr_pearson tof mp xs' ys'.
  Proof. unfold vcorr_pearson. rewrite !corr_fold, HP. reflexivity. Qed.
End TwoSeriesVals.
