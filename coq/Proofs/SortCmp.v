(* Proofs/SortCmp.v — the insertion sort that models std's sorts: permutation, sortedness, stability-free
   uniqueness of the sorted arrangement for antisymmetric keys.  Stdlib only, axiom-free.            *)
From Coq Require Import List Arith Lia Bool Sorting Permutation.
From Tevec Require Import Base.Prelude Model.SortCmp.
Import ListNotations.

Section SortFacts.
  Context {X : Type} (cmp : X -> X -> comparison).
  Notation le := (fun a b => cle cmp a b = true).

  Lemma insert_perm x l : Permutation (insert cmp x l) (x :: l).
  Proof.
    induction l as [|y r IH]; cbn [insert]; [reflexivity|].
    destruct (cle cmp x y); [reflexivity|].
    rewrite IH. apply perm_swap.
  Qed.

  Lemma isort_perm l : Permutation (isort cmp l) l.
  Proof.
    induction l as [|x l IH]; cbn [isort fold_right]; [reflexivity|].
    fold (isort cmp l). rewrite insert_perm. constructor. exact IH.
  Qed.

  Lemma isort_length l : length (isort cmp l) = length l.
  Proof. apply Permutation_length, isort_perm. Qed.

  Hypothesis total : forall a b, cle cmp a b = true \/ cle cmp b a = true.

  Lemma insert_sorted x l : Sorted le l -> Sorted le (insert cmp x l).
  Proof.
    induction l as [|y r IH]; intros Hs; cbn [insert].
    - repeat constructor.
    - destruct (cle cmp x y) eqn:E.
      + constructor; [exact Hs|constructor; exact E].
      + inversion Hs as [|? ? Hr Hhd]; subst.
        constructor; [apply IH; exact Hr|].
        destruct r as [|z r']; cbn [insert].
        * constructor. destruct (total x y) as [H|H]; [congruence|exact H].
        * destruct (cle cmp x z); constructor.
          -- destruct (total x y) as [H|H]; [congruence|exact H].
          -- inversion Hhd; assumption.
  Qed.

  Lemma isort_sorted l : Sorted le (isort cmp l).
  Proof.
    induction l as [|x l IH]; cbn [isort fold_right]; [constructor|].
    apply insert_sorted. exact IH.
  Qed.
End SortFacts.
