(* Proofs/SrcTablesMapBase.v — what the four conformance files of the translator tie for binning / unique (C14,
   SrcTablesMapBin.v), the generators (C19, SrcTablesMapGen.v), partition / rank (C12, SrcTablesMapPart.v) and the extrema
   kernels (C03, SrcTablesMapExt.v) share: the `conformance` tactic that names a broken theorem in the error message, table
   lookups, and the reading of a comparison operator on nat.  Deliberately independent of Proofs/SrcTablesAgg.v, so that a
   changed aggregation table does not break the obligations of these four properties.  Axiom-free.                       *)
From Coq Require Import List String PeanoNat Bool.
From Tevec Require Import Gen.SrcTables.
Import ListNotations.
Local Open Scope string_scope.
Local Open Scope nat_scope.

(* A failing conformance proof names the theorem in the error message (the check's replay quotes the tail of the log). *)
Tactic Notation "conformance" constr(name) tactic3(t) :=
  first [ solve [ t ] | fail 1 "SOURCE TABLE NO LONGER CONFORMS TO THE MODEL:" name ].

Fixpoint slookup {V : Type} (n : string) (l : list (string * V)) : option V :=
  match l with
  | [] => None
  | (k, v) :: r => if String.eqb n k then Some v else slookup n r
  end.

Fixpoint blookup {V : Type} (b : bool) (l : list (bool * V)) : option V :=
  match l with
  | [] => None
  | (k, v) :: r => if Bool.eqb b k then Some v else blookup b r
  end.

(* Rust's comparison operators on usize *)
Definition mcmp_nat (c : src_cmp) (a b : nat) : bool :=
  match c with
  | CLt => a <? b | CLe => a <=? b | CGt => b <? a | CGe => b <=? a | CEq => a =? b | CNe => negb (a =? b)
  end.

(* ... and on bool (`(x > 0) == (y > 0)`) *)
Definition mcmp_bool (c : src_cmp) (a b : bool) : bool :=
  match c with CEq => Bool.eqb a b | CNe => negb (Bool.eqb a b) | _ => false end.

(* `a..b` / `a..=b`: the number of iterations of `for i in a..b` *)
Definition rng_count (r : src_rng) (a b : nat) : nat := match r with RgExcl => b - a | RgIncl => S b - a end.

Definition sortcmp_pick {X} (s : src_sortcmp) (fwd rev : X) : X := match s with SrcSortCmp => fwd | SrcSortCmpRev => rev end.
