(* Proofs/SrcTablesAgg.v — the translator tie (DESIGN 10.2) extended to the aggregation family (C11 / C12), the rolling
   closures (C04 / C01) and the map family (C13): conformance of the hand-written models with the decision tables
   GENERATED from the Rust source text (coq/Gen/SrcTables.v, written by tools/gen_tables.py from the repo's working tree
   on every run of those checks).

   The generated tables hold no arithmetic, only DECISIONS: which comparison operator, which constant, which side EPS is
   on, which count guards an emission, which interpolation arm returns which of vi / vj, which sign arm of `match n` builds
   which skip / take / chain pipeline.  Identifiers of the source are resolved to roles by the translator, so that renaming
   a local or moving an independent `let` leaves a table unchanged.

   Here every table is given a semantics (`guard_eval`, `qexpr_eval`, `pipe_T`, ...) and, for every model function the
   table belongs to, a theorem states FOR ALL INPUTS (series, min_periods, windows, carriers, null dictionaries) that the
   model function equals the function obtained by reading its decisions out of the SOURCE table.  The proofs evaluate the
   table lookups (`vm_compute` on the closed lookup only) and then need nothing but conversion: they go through exactly
   as long as the source spells out the decisions the model makes.  `n < 2` -> `n < 1` in vmean_var, `>` -> `>=` against
   EPS in ts_vcorr, the Lower arm of vquantile returning vj, `n > 0` -> `n >= 0` in vshift: the generated table changes and
   the theorem named in the error message no longer compiles — the proof obligation breaks before any input is run.

   Axiom-free, except `src_eps_conforms_XR` (a statement about a real number: the stdlib Reals axioms).               *)
From Coq Require Import ZArith List String Lia PeanoNat Bool Floats Reals Lra.
From Tevec Require Import Base.Prelude Base.Num Base.XR Base.F64 Gen.SrcTables.
From Tevec Require Model.Driver Model.Features Model.Binary Model.Norm Model.Reg Model.Cmp Model.Fdiff Model.Agg
                          Model.SortCmp Model.Quantile Model.MapOps.
Import ListNotations.
Local Open Scope string_scope.
Local Open Scope nat_scope.

(* A failing conformance proof names the theorem in the error message (the check's replay quotes the tail of the log). *)
Tactic Notation "conformance" constr(name) tactic3(t) :=
  first [ solve [ t ] | fail 1 "SOURCE TABLE NO LONGER CONFORMS TO THE MODEL:" name ].

(* ---- 0. lookups ------------------------------------------------------------------------------------------------------- *)
Fixpoint lookup {V : Type} (n : string) (l : list (string * V)) : option V :=
  match l with
  | [] => None
  | (k, v) :: r => if String.eqb n k then Some v else lookup n r
  end.

(* the i-th guard of a function; a missing function / guard is the unsatisfiable guard, under which nothing conforms *)
Definition no_guard : src_guard := [AIsSome TCount].
Definition guard_in (tbl : list (string * list src_guard)) (f : string) (i : nat) : src_guard :=
  match lookup f tbl with Some l => nth i l no_guard | None => no_guard end.
Definition agg_guard : string -> nat -> src_guard := guard_in src_agg_guards.
Definition emit_guard (f : string) : src_guard := guard_in src_emit_guards f 0.
Definition eps_guard (f : string) : src_guard := guard_in src_eps_guards f 0.
Definition n_guards (tbl : list (string * list src_guard)) (f : string) : nat :=
  match lookup f tbl with Some l => length l | None => 0 end.

(* `let min_periods = min_periods.max_with(K);` — K = 0: there is no such line *)
Definition apply_floor (k mp : nat) : nat := match k with 0 => mp | _ => Nat.max mp k end.
Definition agg_floor (f : string) : nat := match lookup f src_agg_mp_floor with Some k => k | None => 0 end.

Ltac eval_tables :=
  repeat match goal with
         | |- context [agg_guard ?f ?i] => let v := eval vm_compute in (agg_guard f i) in change (agg_guard f i) with v
         | |- context [emit_guard ?f] => let v := eval vm_compute in (emit_guard f) in change (emit_guard f) with v
         | |- context [eps_guard ?f] => let v := eval vm_compute in (eps_guard f) in change (eps_guard f) with v
         | |- context [agg_floor ?f] => let v := eval vm_compute in (agg_floor f) in change (agg_floor f) with v
         end.

(* ---- 1. semantics of a guard --------------------------------------------------------------------------------------------- *)
Definition cmp_nat (c : src_cmp) (a b : nat) : bool :=
  match c with
  | CLt => a <? b | CLe => a <=? b | CGt => b <? a | CGe => b <=? a | CEq => a =? b | CNe => negb (a =? b)
  end.

(* a conjunction, associated as the source writes it: a && b && c = (a && b) && c *)
Fixpoint conj_from (acc : bool) (l : list bool) : bool :=
  match l with [] => acc | b :: r => conj_from (acc && b) r end.
Definition conj (l : list bool) : bool := match l with [] => true | b :: r => conj_from b r end.

Section GuardSem.
  Context {F : Type} {NF : Num F}.

  (* Rust's comparison operators on f64: every one is false on NaN except `!=`, which is the negation of `==` *)
  Definition cmp_num (c : src_cmp) (a b : F) : bool :=
    match c with
    | CLt => nltb a b | CLe => nleb a b | CGt => nltb b a | CGe => nleb b a | CEq => neqb a b | CNe => negb (neqb a b)
    end.

  (* what the roles stand for at one evaluation of a guard *)
  Record genv := {
    g_count : nat;                 (* TCount *)
    g_mp : nat;                    (* TMinPeriods (after the `.max_with(K)` rebinding, if any) *)
    g_var : nat -> F;              (* TVar i: the population variance(s) as computed *)
    g_res : F;                     (* TRes *)
    g_nn : nat -> bool;            (* TElem i: `not_none()` of the i-th element tested *)
    g_some : nat -> bool;          (* TOther i under `.is_some()` *)
    g_other : nat -> F;            (* TOther i in a comparison *)
  }.

  Inductive tval := VN (n : nat) | VF (x : F) | VBad.
  Definition term_val (e : genv) (t : src_term) : tval :=
    match t with
    | TCount => VN (g_count e) | TMinPeriods => VN (g_mp e) | TNat k => VN k
    | TEps => VF neps | TZero => VF nzero | TVar i => VF (g_var e i) | TRes => VF (g_res e)
    | TOther i => VF (g_other e i)
    | TElem _ => VBad
    end.
  Definition atom_eval (e : genv) (a : src_atom) : bool :=
    match a with
    | ACmp l c r => match term_val e l, term_val e r with
                    | VN x, VN y => cmp_nat c x y
                    | VF x, VF y => cmp_num c x y
                    | _, _ => false
                    end
    | ANotNone TRes => negb (nisnan (g_res e))
    | ANotNone (TElem i) => g_nn e i
    | AIsNone (TElem i) => negb (g_nn e i)
    | AIsSome (TOther i) => g_some e i
    | _ => false
    end.
  Definition guard_eval (e : genv) (g : src_guard) : bool := conj (map (atom_eval e) g).

  (* environments *)
  Definition env0 : genv :=
    {| g_count := 0; g_mp := 0; g_var := fun _ => nnan; g_res := nnan; g_nn := fun _ => false;
       g_some := fun _ => false; g_other := fun _ => nnan |}.
  Definition env_n (n mp : nat) : genv :=
    {| g_count := n; g_mp := mp; g_var := fun _ => nnan; g_res := nnan; g_nn := fun _ => false;
       g_some := fun _ => false; g_other := fun _ => nnan |}.
  Definition env_var (v0 v1 : F) : genv :=
    {| g_count := 0; g_mp := 0; g_var := fun i => match i with 0 => v0 | _ => v1 end; g_res := nnan;
       g_nn := fun _ => false; g_some := fun _ => false; g_other := fun _ => nnan |}.
  Definition env_res (r : F) : genv :=
    {| g_count := 0; g_mp := 0; g_var := fun _ => nnan; g_res := r; g_nn := fun _ => false;
       g_some := fun _ => false; g_other := fun _ => nnan |}.
  Definition env_nn (a b : bool) : genv :=
    {| g_count := 0; g_mp := 0; g_var := fun _ => nnan; g_res := nnan; g_nn := fun i => match i with 0 => a | _ => b end;
       g_some := fun _ => false; g_other := fun _ => nnan |}.
  (* count guard with further conjuncts: `.is_some()` of a state variable, a comparison of two state variables *)
  Definition env_n_some (n mp : nat) (s0 : bool) : genv :=
    {| g_count := n; g_mp := mp; g_var := fun _ => nnan; g_res := nnan; g_nn := fun _ => false;
       g_some := fun _ => s0; g_other := fun _ => nnan |}.
  Definition env_n_other (n mp : nat) (o0 o1 : F) : genv :=
    {| g_count := n; g_mp := mp; g_var := fun _ => nnan; g_res := nnan; g_nn := fun _ => false;
       g_some := fun _ => false; g_other := fun i => match i with 0 => o0 | _ => o1 end |}.
End GuardSem.

(* the guard `n >= min_periods` as every rolling closure writes it *)
Lemma guard_eval_count_ge : forall {F} {NF : Num F} (n mp : nat),
  guard_eval (env_n (F := F) n mp) [ACmp TCount CGe TMinPeriods] = (mp <=? n).
Proof. reflexivity. Qed.

(* ---- 2. the constant EPS ------------------------------------------------------------------------------------------------ *)
(* binary64: the literal of the source denotes the float the execution instance uses ... *)
Theorem src_eps_conforms_float : src_eps_float = neps (Num := NumF64).
Proof. conformance "src_eps_conforms_float" (vm_compute; reflexivity). Qed.

(* ... and, read as a decimal, the real number the proof instance uses *)
Definition dec_R (d : Z * Z) : R :=
  if (snd d <? 0)%Z then (IZR (fst d) / IZR (10 ^ (- snd d)))%R else IZR (fst d * 10 ^ snd d).
Theorem src_eps_conforms_XR : neps (Num := NumXR) = Some (dec_R src_eps_dec).
Proof.
  conformance "src_eps_conforms_XR"
    (let v := eval vm_compute in src_eps_dec in change src_eps_dec with v;
     unfold dec_R; cbn [fst snd Z.ltb Z.compare Z.opp]; cbn [neps NumXR]; unfold EPS; f_equal;
     let p := eval vm_compute in (10 ^ 14)%Z in change (10 ^ 14)%Z with p; lra).
Qed.

(* ---- 3. tea-core/src/agg.rs, tea-agg/src/lib.rs (Model/Agg.v; C11, and the aggregations C04's definitions rest on) --------- *)
(* For each function: `src_<f>` is the function whose DECISIONS are read from the source tables (guards by position in
   source order, the min_periods floor, EPS through TEps) around the arithmetic of the model; `src_<f>_conforms` states
   that it is the model function, for every input.                                                                        *)
Section AggConf.
  Context {A : Type} {NA : Num A} {T : Type} {DT : IsNone T A} {F : Type} {NF : Num F}.
  Variable tof : A -> F.
  Local Open Scope num_scope.
  Notation G := agg_guard.

  (* vsum / vmean: `if n >= 1` *)
  Definition src_vsum (xs : list T) : option A :=
    let ns := Agg.vfold_n (fun acc x => acc + x) nzero xs in
    if guard_eval (env_n (F := F) (fst ns) 0) (G "vsum" 0) then Some (snd ns) else None.
  Theorem src_vsum_conforms : forall xs, src_vsum xs = Agg.vsum xs.
  Proof. conformance "src_vsum_conforms" (intros; unfold src_vsum, Agg.vsum; eval_tables; reflexivity). Qed.

  Definition src_vmean (xs : list T) : F :=
    let ns := Agg.vfold_n (fun acc x => acc + x) nzero xs in
    if guard_eval (env_n (F := F) (fst ns) 0) (G "vmean" 0) then tof (snd ns) / nofnat (fst ns) else nnan.
  Theorem src_vmean_conforms : forall xs, src_vmean xs = Agg.vmean tof xs.
  Proof. conformance "src_vmean_conforms" (intros; unfold src_vmean, Agg.vmean; eval_tables; reflexivity). Qed.

  (* vmean_var: `n < min_periods` -> (NaN, NaN); `n < 2` -> (m1, NaN); `m2 <= EPS` -> (m1, 0.) — in this order *)
  Definition src_vmean_var (mp : nat) (xs : list T) : F * F :=
    let mp := apply_floor (agg_floor "vmean_var") mp in
    let ns := Agg.vapply_n (Agg.mv_step tof) (nzero, nzero) xs in
    let n := fst ns in
    if guard_eval (env_n (F := F) n mp) (G "vmean_var" 0) then (nnan, nnan) else
    let nf := nofnat n in
    let m1 := fst (snd ns) / nf in
    let m2 := snd (snd ns) / nf in
    let m2 := m2 - powi m1 2 in
    if guard_eval (env_n (F := F) n mp) (G "vmean_var" 1) then (m1, nnan)
    else if guard_eval (env_var m2 m2) (G "vmean_var" 2) then (m1, nzero)
    else (m1, m2 * nf / nofnat (n - 1)%nat).
  Theorem src_vmean_var_conforms : forall mp xs, src_vmean_var mp xs = Agg.vmean_var tof mp xs.
  Proof. conformance "src_vmean_var_conforms" (intros; unfold src_vmean_var, Agg.vmean_var; eval_tables; reflexivity). Qed.

  (* the wrappers vvar = vmean_var(min_periods).1 and vstd = vvar(min_periods).sqrt() *)
  Definition wrap_eval (w : src_wrap) (mp : nat) (xs : list T) : option F :=
    match w with
    | WSnd c => if String.eqb c "vmean_var" then Some (snd (src_vmean_var mp xs)) else None
    | WSqrt c => if String.eqb c "vvar" then Some (nsqrt (snd (src_vmean_var mp xs))) else None
    end.
  Definition wrapper (f : string) : src_wrap := match lookup f src_agg_wrappers with Some w => w | None => WSnd "" end.
  Theorem src_vvar_conforms : forall mp xs, wrap_eval (wrapper "vvar") mp xs = Some (Agg.vvar tof mp xs).
  Proof.
    conformance "src_vvar_conforms"
      (intros; let v := eval vm_compute in (wrapper "vvar") in change (wrapper "vvar") with v;
       cbn [wrap_eval String.eqb Ascii.eqb Bool.eqb]; rewrite src_vmean_var_conforms; reflexivity).
  Qed.
  Theorem src_vstd_conforms : forall mp xs, wrap_eval (wrapper "vstd") mp xs = Some (Agg.vstd tof mp xs).
  Proof.
    conformance "src_vstd_conforms"
      (intros; let v := eval vm_compute in (wrapper "vstd") in change (wrapper "vstd") with v;
       cbn [wrap_eval String.eqb Ascii.eqb Bool.eqb]; rewrite src_vmean_var_conforms; reflexivity).
  Qed.

  (* vskew: `n < min_periods`; the intrinsic minimum `n >= 3`; `var <= EPS` -> 0.; the adjustment under
     `res.not_none() && res != 0.` *)
  Definition src_vskew (mp : nat) (xs : list T) : F :=
    let mp := apply_floor (agg_floor "vskew") mp in
    let ns := Agg.vapply_n (Agg.sk_step tof) (nzero, nzero, nzero) xs in
    let n := fst ns in
    let '(m1, m2, m3) := snd ns in
    if guard_eval (env_n (F := F) n mp) (G "vskew" 0) then nnan else
    let res :=
      if guard_eval (env_n (F := F) n mp) (G "vskew" 1) then
        let nf := nofnat n in
        let m1 := m1 / nf in
        let m2 := m2 / nf in
        let var := m2 - powi m1 2 in
        if guard_eval (env_var var var) (G "vskew" 2) then nzero
        else
          let std := nsqrt var in
          let m3 := m3 / nf in
          let mean_std := m1 / std in
          m3 / powi std 3 - Agg.three * mean_std - powi mean_std 3
      else nnan in
    if guard_eval (env_res res) (G "vskew" 3) then
      let adjust := nsqrt (nofnat (n * (n - 1))%nat) / nofnat (n - 2)%nat in
      res * adjust
    else res.
  Theorem src_vskew_conforms : forall mp xs, src_vskew mp xs = Agg.vskew tof mp xs.
  Proof. conformance "src_vskew_conforms" (intros; unfold src_vskew, Agg.vskew; eval_tables; reflexivity). Qed.

  (* vkurt: the same with the intrinsic minimum 4 *)
  Definition src_vkurt (mp : nat) (xs : list T) : F :=
    let mp := apply_floor (agg_floor "vkurt") mp in
    let ns := Agg.vapply_n (Agg.ku_step tof) (nzero, nzero, nzero, nzero) xs in
    let n := fst ns in
    let '(m1, m2, m3, m4) := snd ns in
    if guard_eval (env_n (F := F) n mp) (G "vkurt" 0) then nnan else
    let res :=
      if guard_eval (env_n (F := F) n mp) (G "vkurt" 1) then
        let nf := nofnat n in
        let m1 := m1 / nf in
        let m2 := m2 / nf in
        let var := m2 - powi m1 2 in
        if guard_eval (env_var var var) (G "vkurt" 2) then nzero
        else
          let var2 := powi var 2 in
          let m4 := m4 / nf in
          let m3 := m3 / nf in
          let mean2_var := powi m1 2 / var in
          (m4 - Agg.four * m1 * m3) / var2 + Agg.six * mean2_var + Agg.three * powi mean2_var 2
      else nnan in
    if guard_eval (env_res res) (G "vkurt" 3) then
      none / nofnat ((n - 2) * (n - 3))%nat
      * (nofnat (n * n - 1)%nat * res - nofnat (3 * ((n - 1) * (n - 1)))%nat)
    else res.
  Theorem src_vkurt_conforms : forall mp xs, src_vkurt mp xs = Agg.vkurt tof mp xs.
  Proof. conformance "src_vkurt_conforms" (intros; unfold src_vkurt, Agg.vkurt; eval_tables; reflexivity). Qed.

  (* two series *)
  Context {T2 : Type} {DT2 : IsNone T2 A}.

  (* vcov: a pair counts when `va.not_none() && vb.not_none()`; min_periods.max_with(2); `n >= min_periods` *)
  Definition src_cov_step (s : nat * F * F * F) (p : T * T2) : nat * F * F * F :=
    let '(n, sa, sb, sab) := s in
    if guard_eval (env_nn (F := F) (not_none (fst p)) (not_none (snd p))) (G "vcov" 0) then
      let va := tof (unwrap (fst p)) in let vb := tof (unwrap (snd p)) in
      (S n, sa + va, sb + vb, sab + va * vb)
    else s.
  Definition src_vcov (mp : nat) (xs : list T) (ys : list T2) : F :=
    let mp := apply_floor (agg_floor "vcov") mp in
    let '(n, sa, sb, sab) := fold_left src_cov_step (combine xs ys) (0%nat, nzero, nzero, nzero) in
    if guard_eval (env_n (F := F) n mp) (G "vcov" 1) then (sab - (sa * sb) / nofnat n) / nofnat (n - 1)%nat else nnan.
  Lemma src_cov_step_conforms : forall s p, src_cov_step s p = Agg.cov_step tof s p.
  Proof. conformance "src_cov_step_conforms" (intros; unfold src_cov_step, Agg.cov_step; eval_tables; reflexivity). Qed.
  Theorem src_vcov_conforms : forall mp xs ys, src_vcov mp xs ys = Agg.vcov tof mp xs ys.
  Proof.
    conformance "src_vcov_conforms"
      (intros; unfold src_vcov, Agg.vcov, src_cov_step, Agg.cov_step; eval_tables; reflexivity).
  Qed.

  (* vcorr_pearson: pairwise-complete pairs; min_periods.max_with(2); `n >= min_periods`; BOTH variances `> EPS` *)
  Definition src_corr_step (s : nat * F * F * F * F * F) (p : T * T2) : nat * F * F * F * F * F :=
    let '(n, sa, s2a, sb, s2b, sab) := s in
    if guard_eval (env_nn (F := F) (not_none (fst p)) (not_none (snd p))) (G "vcorr_pearson" 0) then
      let va := tof (unwrap (fst p)) in let vb := tof (unwrap (snd p)) in
      (S n, sa + va, s2a + va * va, sb + vb, s2b + vb * vb, sab + va * vb)
    else s.
  Definition src_vcorr_pearson (mp : nat) (xs : list T) (ys : list T2) : F :=
    let mp := apply_floor (agg_floor "vcorr_pearson") mp in
    let '(n, sa, s2a, sb, s2b, sab) :=
      fold_left src_corr_step (combine xs ys) (0%nat, nzero, nzero, nzero, nzero, nzero) in
    if guard_eval (env_n (F := F) n mp) (G "vcorr_pearson" 1) then
      let nf := nofnat n in
      let mean_a := sa / nf in
      let var_a := s2a / nf in
      let mean_b := sb / nf in
      let var_b := s2b / nf in
      let var_a := var_a - powi mean_a 2 in
      let var_b := var_b - powi mean_b 2 in
      if guard_eval (env_var var_a var_b) (G "vcorr_pearson" 2) then
        let exy := sab / nf in
        let exey := sa * sb / (nf * nf) in
        (exy - exey) / nsqrt (var_a * var_b)
      else nnan
    else nnan.
  Theorem src_vcorr_pearson_conforms : forall mp xs ys, src_vcorr_pearson mp xs ys = Agg.vcorr_pearson tof mp xs ys.
  Proof.
    conformance "src_vcorr_pearson_conforms"
      (intros; unfold src_vcorr_pearson, Agg.vcorr_pearson, src_corr_step, Agg.corr_step; eval_tables; reflexivity).
  Qed.

  (* the masked sum / mean of tea-agg: `n > 0`, `n >= min_periods` *)
  Context {U : Type} {DU : IsNone U bool}.
  Definition src_n_sum_filter (xs : list T) (mask : list U) : option A :=
    let ns := Agg.n_vsum_filter xs mask in
    if guard_eval (env_n (F := F) (fst ns) 0) (G "n_sum_filter" 0) then Some (snd ns) else None.
  Theorem src_n_sum_filter_conforms : forall xs mask, src_n_sum_filter xs mask = Agg.n_sum_filter xs mask.
  Proof. conformance "src_n_sum_filter_conforms" (intros; unfold src_n_sum_filter, Agg.n_sum_filter; eval_tables; reflexivity). Qed.

  Definition src_vmean_filter (mp : nat) (xs : list T) (mask : list U) : F :=
    let mp := apply_floor (agg_floor "vmean_filter") mp in
    let ns := Agg.n_vsum_filter xs mask in
    if guard_eval (env_n (F := F) (fst ns) mp) (G "vmean_filter" 0) then tof (snd ns) / nofnat (fst ns) else nnan.
  Theorem src_vmean_filter_conforms : forall mp xs mask, src_vmean_filter mp xs mask = Agg.vmean_filter tof mp xs mask.
  Proof. conformance "src_vmean_filter_conforms" (intros; unfold src_vmean_filter, Agg.vmean_filter; eval_tables; reflexivity). Qed.
End AggConf.

(* ---- 4. vquantile / vpercentile_of (Model/Quantile.v; C12) -------------------------------------------------------------------- *)
Section QuantileConf.
  Context {A : Type} {NA : Num A} {NFl : SortCmp.NumFloor A} {T : Type} {DT : IsNone T A}.
  Local Open Scope num_scope.

  Definition qmethod_src (m : Quantile.qmethod) : src_qmethod :=
    match m with
    | Quantile.Linear => SrcLinear | Quantile.Lower => SrcLower | Quantile.Higher => SrcHigher | Quantile.MidPoint => SrcMidPoint
    end.
  Definition qmethod_eqb (a b : src_qmethod) : bool :=
    match a, b with
    | SrcLinear, SrcLinear | SrcLower, SrcLower | SrcHigher, SrcHigher | SrcMidPoint, SrcMidPoint => true
    | _, _ => false
    end.
  Definition qlookup (m : src_qmethod) (l : list (src_qmethod * src_qexpr)) : option src_qexpr :=
    option_map snd (find (fun e => qmethod_eqb (fst e) m) l).

  (* what an interpolation expression computes from the two neighbours vi (position i) and vj (position j) of the
     fractional index (n-1) q — `q` is the probability of the branch: q itself ascending, 1 - q descending *)
  Definition qexpr_eval (e : src_qexpr) (vi vj : A) (i j : nat) (len_1 q : A) : A :=
    match e with
    | QVi => vi
    | QVj => vj
    | QMid => (vi + vj) / ntwo
    | QLinear =>
        let qi := nofnat i / len_1 in
        let qj := nofnat j / len_1 in
        let fraction := (q - qi) / (qj - qi) in
        vi + (vj - vi) * fraction
    end.

  (* the arm a method takes: an early return of the branch if the branch has one for it, the final match otherwise *)
  Definition qarm (early : list (src_qmethod * src_qexpr)) (m : src_qmethod) : option src_qexpr :=
    match qlookup m early with Some e => Some e | None => qlookup m src_quantile_final end.

  Definition sortcmp_sem (c : src_sortcmp) : T -> T -> comparison :=
    match c with SrcSortCmp => SortCmp.sort_cmp | SrcSortCmpRev => SortCmp.sort_cmp_rev end.
  Definition headagg_sem (h : src_headagg) : list T -> option A :=
    match h with HeadVmax => SortCmp.vmax | HeadVmin => SortCmp.vmin end.
  Definition qbranch (k : nat) : src_sortcmp * src_headagg := nth k src_quantile_branches (SrcSortCmp, HeadVmin).
  Definition qguard (k : nat) : src_guard := nth k src_quantile_guards no_guard.

  (* one branch: select the j-th element under the branch's comparator, vi from the head, then the method's arm *)
  Definition src_qbranch (k : nat) (early : list (src_qmethod * src_qexpr)) (method : Quantile.qmethod)
             (len_1 q : A) (xs : list T) : res (option A) :=
    let q_idx := len_1 * q in
    let i := Z.to_nat (SortCmp.nfloorZ q_idx) in
    let j := Z.to_nat (SortCmp.nceilZ q_idx) in
    do hm <- Quantile.select_nth (sortcmp_sem (fst (qbranch k))) j xs;
    let '(head, m) := hm in
    if negb (i =? j)%nat then
      let vi := SortCmp.opt_cast (headagg_sem (snd (qbranch k)) head) in
      let vj := SortCmp.tcast m in
      match qarm early (qmethod_src method) with
      | Some e => Ok (Some (qexpr_eval e vi vj i j len_1 q))
      | None => Panic OtherPanic
      end
    else Ok (Some (SortCmp.tcast m)).

  Definition src_vquantile (q : A) (method : Quantile.qmethod) (xs : list T) : res (option A) :=
    if negb (nleb nzero q && nleb q none) then Ok None else
    let n := SortCmp.count_valid xs in
    if guard_eval (env_n (F := A) n 0) (qguard 0) then Ok (Some nnan) else
    if guard_eval (env_n (F := A) n 0) (qguard 1) then
      match SortCmp.vfirst xs with Some v => Ok (Some (SortCmp.tcast v)) | None => Panic UnwrapNone end
    else
    let len_1 := nofnat (n - 1)%nat in
    if cmp_num src_quantile_branch_test q Quantile.nhalf then src_qbranch 0 [] method len_1 q xs
    else src_qbranch 1 src_quantile_desc_early method len_1 (none - q) xs.

  Theorem src_vquantile_conforms : forall q method xs, src_vquantile q method xs = Quantile.vquantile q method xs.
  Proof.
    conformance "src_vquantile_conforms"
      (intros q method xs; unfold src_vquantile, Quantile.vquantile, src_qbranch;
       repeat match goal with
              | |- context [qguard ?k] => let v := eval vm_compute in (qguard k) in change (qguard k) with v
              | |- context [qbranch ?k] => let v := eval vm_compute in (qbranch k) in change (qbranch k) with v
              end;
       let v := eval vm_compute in src_quantile_branch_test in change src_quantile_branch_test with v;
       destruct method;
       repeat match goal with
              | |- context [qarm ?e ?m] => let v := eval vm_compute in (qarm e m) in change (qarm e m) with v
              end;
       reflexivity).
  Qed.

  (* table shape: the final match has the four methods, each once; the early returns are for Lower and Higher only *)
  Theorem src_quantile_table_shape :
    map fst src_quantile_final = [SrcLinear; SrcLower; SrcHigher; SrcMidPoint] /\
    length src_quantile_branches = 2 /\ length src_quantile_guards = 2 /\
    forallb (fun e => match fst e with SrcLower | SrcHigher => true | _ => false end) src_quantile_desc_early = true.
  Proof. conformance "src_quantile_table_shape" (vm_compute; repeat split; reflexivity). Qed.

  (* ---- vpercentile_of ---- *)
  Definition pmethod_src (m : Quantile.pmethod) : src_pkind :=
    match m with Quantile.PRank => SrcRank | Quantile.PWeak => SrcWeak | Quantile.PStrict => SrcStrict end.
  Definition pkind_eqb (a b : src_pkind) : bool :=
    match a, b with SrcRank, SrcRank | SrcWeak, SrcWeak | SrcStrict, SrcStrict => true | _, _ => false end.
  Definition pkind_arm (k : src_pkind) : option (src_pnum * option (src_cmp * nat)) :=
    option_map (fun e => (snd (fst e), snd e)) (find (fun e => pkind_eqb (fst (fst e)) k) src_percentile_kinds).

  Definition bump (c : src_counter) (s : nat * nat * nat) : nat * nat * nat :=
    let '(l, e, t) := s in match c with CntLess => (S l, e, t) | CntEqual => (l, S e, t) end.
  (* `if value <c1> score { k1 += 1 } else if value <c2> score { k2 += 1 }` after `total_count += 1` *)
  Fixpoint count_arms (arms : list (src_cmp * src_counter)) (x sc : A) (s : nat * nat * nat) : nat * nat * nat :=
    match arms with
    | [] => s
    | (c, k) :: r => if cmp_num c x sc then bump k s else count_arms r x sc s
    end.
  Definition src_pct_counts (sc : A) (xs : list T) : nat * nat * nat :=
    fold_left (fun (c : nat * nat * nat) v =>
                 let '(l, e, t) := c in
                 if is_none v then c else
                 count_arms src_percentile_counting (unwrap v) sc (l, e, S t)) xs (0, 0, 0)%nat.

  Definition src_vpercentile_of (score : T) (method : Quantile.pmethod) (xs : list T) : A :=
    if is_none score then nnan else
    let '(lt, eq, tot) := src_pct_counts (unwrap score) xs in
    if (tot =? 0)%nat then nnan else
    match pkind_arm (pmethod_src method) with
    | Some (PNLess, None) => nofnat lt / nofnat tot
    | Some (PNLessEqual, None) => nofnat (lt + eq)%nat / nofnat tot
    | Some (PNRankAvg, Some (c, k)) =>
        if cmp_nat c eq k then
          let rank_start := (lt + 1)%nat in
          let rank_end := (rank_start + (eq - 1))%nat in
          (nofnat (rank_start + rank_end)%nat * Quantile.nhalf) / nofnat tot
        else nofnat (lt + eq)%nat / nofnat tot
    | _ => nnan
    end.

  Lemma src_pct_counts_conforms : forall sc xs, src_pct_counts sc xs = Quantile.pct_counts sc xs.
  Proof.
    conformance "src_pct_counts_conforms"
      (intros sc xs; unfold src_pct_counts, Quantile.pct_counts;
       let v := eval vm_compute in src_percentile_counting in change src_percentile_counting with v;
       apply (f_equal (fun f => fold_left f xs (0, 0, 0)%nat));
       reflexivity).
  Qed.
  Theorem src_vpercentile_of_conforms : forall score method xs,
    src_vpercentile_of score method xs = Quantile.vpercentile_of score method xs.
  Proof.
    conformance "src_vpercentile_of_conforms"
      (intros score method xs; unfold src_vpercentile_of, Quantile.vpercentile_of;
       rewrite src_pct_counts_conforms; destruct method;
       repeat match goal with
              | |- context [pkind_arm ?k] => let v := eval vm_compute in (pkind_arm k) in change (pkind_arm k) with v
              end;
       reflexivity).
  Qed.
End QuantileConf.

(* ---- 5. the rolling closures (Model/Features.v, Binary.v, Reg.v, Norm.v, Fdiff.v, Cmp.v; C01 / C04, and C03 / C02) ----------- *)
(* The intrinsic minimum of every statistic is the `.max(k)` of its min_periods line: Proofs/SrcTablesRoll.v.  Here: the
   guard INSIDE the closure that compares the running count with the effective min_periods (operator and sides), and every
   comparison with EPS.  Each theorem is stated for every source function that the model function stands for (the null-aware
   function and its plain twin have separate source texts, hence separate table entries) and for every accumulator state.   *)
Section RollConf.
  Context {A : Type} {NA : Num A}.
  Local Open Scope num_scope.
  Notation GE := (fun name n mp => guard_eval (env_n (F := A) n mp) (emit_guard name)).
  Notation EPS1 := (fun name var => guard_eval (env_var (F := A) var var) (eps_guard name)).

  Ltac names H := repeat (destruct H as [<- | H]); [.. | destruct H].
  Ltac roll_conf := intros name Hin; names Hin; intros; eval_tables; cbv beta; reflexivity.

  (* ---- features.rs ---- *)
  Theorem src_emit_sum_conforms : forall name, In name ["ts_vsum"; "ts_sum"] -> forall mp (s : Features.mom),
    Features.emit_sum mp s = if GE name (Features.m_n s) mp then Features.m_s1 s else nnan.
  Proof. conformance "src_emit_sum_conforms" roll_conf. Qed.

  Theorem src_emit_mean_conforms : forall name, In name ["ts_vmean"; "ts_mean"] -> forall mp (s : Features.mom),
    Features.emit_mean mp s =
    if GE name (Features.m_n s) mp then Features.m_s1 s / nofnat (Features.m_n s) else nnan.
  Proof. conformance "src_emit_mean_conforms" roll_conf. Qed.

  (* var / std: the sample variance when `var > EPS`, 0. otherwise *)
  Theorem src_emit_var_conforms : forall name, In name ["ts_vvar"; "ts_var"] -> forall mp (s : Features.mom),
    Features.emit_var mp s =
    if GE name (Features.m_n s) mp then
      let var := Features.popvar_of s in
      if EPS1 name var then var * nofnat (Features.m_n s) / nofnat (Features.m_n s - 1)%nat else nzero
    else nnan.
  Proof. conformance "src_emit_var_conforms" roll_conf. Qed.

  Theorem src_emit_std_conforms : forall name, In name ["ts_vstd"; "ts_std"] -> forall mp (s : Features.mom),
    Features.emit_std mp s =
    if GE name (Features.m_n s) mp then
      let var := Features.popvar_of s in
      if EPS1 name var then nsqrt (var * nofnat (Features.m_n s) / nofnat (Features.m_n s - 1)%nat) else nzero
    else nnan.
  Proof. conformance "src_emit_std_conforms" roll_conf. Qed.

  (* skew / kurt: 0. when `var <= EPS`, the closed form otherwise (the closed forms are those of the model) *)
  Definition skew_closed_form (s : Features.mom) : A :=
    let n := Features.m_n s in let nf := nofnat n in
    let var := Features.popvar_of s in
    let mean := Features.m_s1 s / nf in
    let std := nsqrt var in
    let res := Features.m_s3 s / nf in
    let mean' := mean / std in
    let adjust := nsqrt (nofnat (n * (n - 1))%nat) / nofnat (n - 2)%nat in
    adjust * (res / powi std 3 - Features.three * mean' - powi mean' 3).
  Theorem src_emit_skew_conforms : forall name, In name ["ts_vskew"; "ts_skew"] -> forall mp (s : Features.mom),
    Features.emit_skew mp s =
    if GE name (Features.m_n s) mp then
      if EPS1 name (Features.popvar_of s) then nzero else skew_closed_form s
    else nnan.
  Proof. conformance "src_emit_skew_conforms" roll_conf. Qed.

  Definition kurt_closed_form (s : Features.mom) : A :=
    let n := Features.m_n s in let nf := nofnat n in
    let var := Features.popvar_of s in
    let mean := Features.m_s1 s / nf in
    let var2 := var * var in
    let ex4 := Features.m_s4 s / nf in
    let ex3 := Features.m_s3 s / nf in
    let mean2_var := mean * mean / var in
    let out := (ex4 - Features.four * mean * ex3) / var2 + Features.six * mean2_var + Features.three * powi mean2_var 2 in
    none / nofnat ((n - 2) * (n - 3))%nat * (nofnat (n * n - 1)%nat * out - nofnat (3 * ((n - 1) * (n - 1)))%nat).
  Theorem src_emit_kurt_conforms : forall name, In name ["ts_vkurt"; "ts_kurt"] -> forall mp (s : Features.mom),
    Features.emit_kurt mp s =
    if GE name (Features.m_n s) mp then
      if EPS1 name (Features.popvar_of s) then nzero else kurt_closed_form s
    else nnan.
  Proof. conformance "src_emit_kurt_conforms" roll_conf. Qed.

  Theorem src_ewm_emit_conforms : forall name, In name ["ts_vewm"; "ts_ewm"] -> forall w mp (s : Features.ewm_st),
    Features.ewm_emit w mp s =
    if GE name (Features.e_n s) mp then
      Features.e_q s * Features.ewm_alpha w / (none - powi (Features.ewm_oma w) (Features.e_n s))
    else nnan.
  Proof. conformance "src_ewm_emit_conforms" roll_conf. Qed.

  Theorem src_wma_emit_conforms : forall name, In name ["ts_vwma"; "ts_wma"] -> forall mp (s : Features.wma_st),
    Features.wma_emit mp s =
    if GE name (Features.w_n s) mp then
      Features.w_xt s / nofnat ((Features.w_n s * (Features.w_n s + 1)) / 2)%nat
    else nnan.
  Proof. conformance "src_wma_emit_conforms" roll_conf. Qed.

  (* the functions of features.rs have no further guard on min_periods and no further use of EPS *)
  Theorem src_features_guard_counts :
    forallb (fun f => Nat.eqb (n_guards src_emit_guards f) 1)
            ["ts_vsum"; "ts_sum"; "ts_vmean"; "ts_mean"; "ts_vvar"; "ts_var"; "ts_vstd"; "ts_std"; "ts_vskew"; "ts_skew";
             "ts_vkurt"; "ts_kurt"; "ts_vewm"; "ts_ewm"; "ts_vwma"; "ts_wma"] = true /\
    forallb (fun f => Nat.eqb (n_guards src_eps_guards f) 1)
            ["ts_vvar"; "ts_var"; "ts_vstd"; "ts_std"; "ts_vskew"; "ts_skew"; "ts_vkurt"; "ts_kurt"] = true /\
    forallb (fun f => Nat.eqb (n_guards src_eps_guards f) 0)
            ["ts_vsum"; "ts_sum"; "ts_vmean"; "ts_mean"; "ts_vewm"; "ts_ewm"; "ts_vwma"; "ts_wma"] = true.
  Proof. conformance "src_features_guard_counts" (vm_compute; repeat split; reflexivity). Qed.

  (* ---- binary.rs ---- *)
  Theorem src_emit_cov_conforms : forall mp (s : Binary.csum (A := A)),
    Binary.emit_cov mp s =
    if GE "ts_vcov" (Binary.c_n s) mp then
      (Binary.c_ab s - (Binary.c_a s * Binary.c_b s) / nofnat (Binary.c_n s)) / nofnat (Binary.c_n s - 1)%nat
    else nnan.
  Proof. conformance "src_emit_cov_conforms" (intros; eval_tables; reflexivity). Qed.

  (* ts_vcorr: BOTH variances strictly above EPS, else NaN *)
  Theorem src_emit_corr_conforms : forall mp (s : Binary.csum (A := A)),
    Binary.emit_corr mp s =
    if GE "ts_vcorr" (Binary.c_n s) mp then
      let nf := nofnat (Binary.c_n s) in
      let mean_a := Binary.c_a s / nf in
      let mean_b := Binary.c_b s / nf in
      let var_a := Binary.c_a2 s / nf - powi mean_a 2 in
      let var_b := Binary.c_b2 s / nf - powi mean_b 2 in
      if guard_eval (env_var var_a var_b) (eps_guard "ts_vcorr") then
        (Binary.c_ab s / nf - Binary.c_a s * Binary.c_b s / powi nf 2) / nsqrt (var_a * var_b)
      else nnan
    else nnan.
  Proof. conformance "src_emit_corr_conforms" (intros; eval_tables; reflexivity). Qed.

  (* ---- norm.rs: ts_vzscore — NaN (not 0.) when the variance is not above EPS ---- *)
  Theorem src_zs_emit_conforms : forall mp (s : Norm.zs (A := A)),
    Norm.zs_emit mp s =
    match Norm.z_cur s with
    | Some x =>
        if GE "ts_vzscore" (Norm.z_n s) mp then
          let nf := nofnat (Norm.z_n s) in
          let mean := Norm.z_s1 s / nf in
          let var := Norm.z_s2 s / nf - powi mean 2 in
          if EPS1 "ts_vzscore" var then (x - mean) / nsqrt (var * nf / nofnat (Norm.z_n s - 1)%nat) else nnan
        else nnan
    | None => nnan
    end.
  Proof. conformance "src_zs_emit_conforms" (intros; eval_tables; reflexivity). Qed.

  (* ---- reg.rs: the time-trend family and the regressions on a second series; no EPS anywhere ---- *)
  Theorem src_trend_emit_conforms : forall mp (s : Reg.tr_st (A := A)),
    Reg.emit_reg mp s = (if GE "ts_vreg" (Reg.t_n s) mp then Reg.emit_reg 0 s else nnan) /\
    Reg.emit_tsf mp s = (if GE "ts_vtsf" (Reg.t_n s) mp then Reg.emit_tsf 0 s else nnan) /\
    Reg.emit_slope mp s = (if GE "ts_vreg_slope" (Reg.t_n s) mp then Reg.tr_slope s else nnan) /\
    Reg.emit_intercept mp s = (if GE "ts_vreg_intercept" (Reg.t_n s) mp then Reg.tr_intercept s else nnan) /\
    Reg.emit_resid_mean mp s = (if GE "ts_vreg_resid_mean" (Reg.t_n s) mp then Reg.emit_resid_mean 0 s else nnan).
  Proof. conformance "src_trend_emit_conforms" (intros; eval_tables; repeat split; reflexivity). Qed.

  Theorem src_regx_emit_conforms : forall mp (s : Binary.csum (A := A)),
    Reg.emit_regx_alpha mp s = (if GE "ts_vregx_alpha" (Binary.c_n s) mp then Reg.regx_alpha s else nnan) /\
    Reg.emit_regx_beta mp s = (if GE "ts_vregx_beta" (Binary.c_n s) mp then Reg.regx_beta s else nnan) /\
    Reg.emit_regx_all mp s = (if GE "ts_vregx_all" (Binary.c_n s) mp then Reg.emit_regx_all 0 s else (nnan, nnan, nnan)).
  Proof. conformance "src_regx_emit_conforms" (intros; eval_tables; repeat split; reflexivity). Qed.

  Theorem src_reg_no_eps :
    forallb (fun f => Nat.eqb (n_guards src_eps_guards f) 0 && Nat.eqb (n_guards src_emit_guards f) 1)
            ["ts_vreg"; "ts_vtsf"; "ts_vreg_slope"; "ts_vreg_intercept"; "ts_vreg_resid_mean"; "ts_vregx_alpha"; "ts_vregx_beta";
             "ts_vregx_all"; "ts_vregx_resid_mean"; "ts_vregx_resid_std"; "ts_vregx_resid_skew"; "ts_vcov"] = true /\
    n_guards src_eps_guards "ts_vcorr" = 1 /\ n_guards src_emit_guards "ts_vcorr" = 1 /\
    n_guards src_eps_guards "ts_vzscore" = 1 /\ n_guards src_emit_guards "ts_vzscore" = 1.
  Proof. conformance "src_reg_no_eps" (vm_compute; repeat split; reflexivity). Qed.
End RollConf.

(* the residual statistics of reg.rs, ts_vfdiff, and the extrema / rank / min-max-normalisation closures *)
Definition resid_fn (k : Reg.rstat) : string :=
  match k with
  | Reg.RMean => "ts_vregx_resid_mean" | Reg.RStd => "ts_vregx_resid_std" | Reg.RSkew => "ts_vregx_resid_skew"
  end.

Section RollConf2.
  Context {A : Type} {NA : Num A} {T1 : Type} {D1 : IsNone T1 A} {T2 : Type} {D2 : IsNone T2 A}.
  Local Open Scope num_scope.

  (* which aggregation, with which literal min_periods, the closure ends with: `.vmean()`, `.vstd(2)`, `.vskew(3)` *)
  Definition agg_call_sem (c : string * nat) (l : list A) : option A :=
    if String.eqb (fst c) "vmean" then (if Nat.eqb (snd c) 0 then Some (Reg.agg_vmean l) else None)
    else if String.eqb (fst c) "vstd" then Some (Reg.agg_vstd (snd c) l)
    else if String.eqb (fst c) "vskew" then Some (Reg.agg_vskew (snd c) l)
    else None.
  Definition resid_call (k : Reg.rstat) : string * nat :=
    match lookup (resid_fn k) src_resid_calls with Some c => c | None => ("", 0) end.
  Theorem src_rstat_apply_conforms : forall k (l : list A), agg_call_sem (resid_call k) l = Some (Reg.rstat_apply k l).
  Proof.
    conformance "src_rstat_apply_conforms"
      (intros k l; destruct k;
       match goal with |- context [resid_call ?k] => let v := eval vm_compute in (resid_call k) in change (resid_call k) with v end;
       reflexivity).
  Qed.

  Theorem src_resid_emit_conforms : forall k mp (zs : list (T1 * T2)) (s : Binary.csum (A := A)) st e,
    Reg.resid_emit k mp zs s st e =
    if guard_eval (env_n (F := A) (Binary.c_n s) mp) (emit_guard (resid_fn k)) then Reg.resid_emit k 0 zs s st e else nnan.
  Proof. conformance "src_resid_emit_conforms" (intros k; destruct k; intros; cbn [resid_fn]; eval_tables; reflexivity). Qed.
End RollConf2.

Section RollConf3.
  Context {A : Type} {NA : Num A} {T : Type} {DT : IsNone T A}.
  Local Open Scope num_scope.

  (* tevec/src/rolling.rs ts_vfdiff: `n == window` first, then `n >= min_periods` *)
  Theorem src_ts_vfdiff_cb_conforms : forall (d : A) w mp (u : unit) (arr : list T),
    Fdiff.ts_vfdiff_cb d w mp u arr =
    let n := length (filter not_none arr) in
    (u, if n =? w then Fdiff.vdot arr (Fdiff.fdiff_coef d w)
        else if guard_eval (env_n (F := A) n mp) (emit_guard "ts_vfdiff") then
               Fdiff.vdot (filter not_none arr) (Fdiff.fdiff_coef d n)
        else nnan).
  Proof. conformance "src_ts_vfdiff_cb_conforms" (intros; eval_tables; reflexivity). Qed.

  (* cmp.rs: ts_vmin / ts_vmax emit under `n >= min_periods`; ts_vargmin / ts_vargmax under
     `n >= min_periods && min.is_some()` *)
  Theorem src_vext_cb_conforms : forall name, In name ["ts_vmin"; "ts_vmax"] ->
    forall scmp mp (xs : list T) (s : Cmp.ext (A := A)) (a : option nat * nat * T),
    Cmp.vext_cb scmp mp xs s a =
    let '(start, e, v) := a in
    do s1 <- Cmp.ext_step scmp xs s start e v;
    let out := if guard_eval (env_n (F := A) (Cmp.x_n s1) mp) (emit_guard name) then Cmp.x_val s1 else None in
    do s2 <- Cmp.ext_post xs s1 start;
    Ok (s2, out).
  Proof.
    conformance "src_vext_cb_conforms"
      (intros name Hin; repeat (destruct Hin as [<- | Hin]); [.. | destruct Hin]; intros; eval_tables; reflexivity).
  Qed.

  Theorem src_varg_cb_conforms : forall name, In name ["ts_vargmin"; "ts_vargmax"] ->
    forall scmp mp (xs : list T) (s : Cmp.ext (A := A)) (a : option nat * nat * T),
    Cmp.varg_cb scmp mp xs s a =
    let '(start, e, v) := a in
    do s1 <- Cmp.ext_step scmp xs s start e v;
    do out <- (if guard_eval (env_n_some (F := A) (Cmp.x_n s1) mp (match Cmp.x_val s1 with Some _ => true | None => false end))
                             (emit_guard name) then
                 match Cmp.x_idx s1 with
                 | Some mi => do d <- usub mi (match start with Some st => st | None => 0 end);
                              Ok (Some (d + 1)%nat)
                 | None => Ok None
                 end
               else Ok None);
    do s2 <- Cmp.ext_post xs s1 start;
    Ok (s2, out).
  Proof.
    conformance "src_varg_cb_conforms"
      (intros name Hin; repeat (destruct Hin as [<- | Hin]); [.. | destruct Hin]; intros; eval_tables; reflexivity).
  Qed.

  Theorem src_rank_out_conforms : forall {B : Type} {NB : Num B} mp pct rev n (rank : B) nrep,
    Cmp.rank_out mp pct rev n rank nrep =
    if guard_eval (env_n (F := B) n mp) (emit_guard "ts_vrank") then Cmp.rank_out 0 pct rev n rank nrep else nnan.
  Proof. conformance "src_rank_out_conforms" (intros; eval_tables; reflexivity). Qed.

  (* norm.rs ts_vminmaxnorm: `(n >= min_periods) & (max != min)` around the normalised value *)
  Theorem src_mmnorm_cb_conforms : forall (tmin tmax : A) mp (xs : list T) (s : Norm.mm (A := A)) (a : option nat * nat * T),
    Norm.mmnorm_cb tmin tmax mp xs s a =
    let '(start, e, v) := a in
    do s1 <- Norm.mm_research tmin tmax xs s start e;
    let '(s2, out) :=
      if not_none v then
        let x := unwrap v in
        let n := S (Norm.mm_n s1) in
        let '(mx, mxi) := if nleb (Norm.mm_max s1) x then (x, e) else (Norm.mm_max s1, Norm.mm_maxi s1) in
        let '(mn, mni) := if nleb x (Norm.mm_min s1) then (x, e) else (Norm.mm_min s1, Norm.mm_mini s1) in
        ({| Norm.mm_max := mx; Norm.mm_maxi := mxi; Norm.mm_min := mn; Norm.mm_mini := mni; Norm.mm_n := n |},
         if guard_eval (env_n_other n mp mx mn) (emit_guard "ts_vminmaxnorm") then (x - mn) / (mx - mn) else nnan)
      else (s1, nnan) in
    do s3 <- (match start with
              | None => Ok s2
              | Some st =>
                  do v0 <- Cmp.uget xs st;
                  if not_none v0 then
                    do n' <- usub (Norm.mm_n s2) 1;
                    Ok {| Norm.mm_max := Norm.mm_max s2; Norm.mm_maxi := Norm.mm_maxi s2; Norm.mm_min := Norm.mm_min s2;
                          Norm.mm_mini := Norm.mm_mini s2; Norm.mm_n := n' |}
                  else Ok s2
              end);
    Ok (s3, out).
  Proof. conformance "src_mmnorm_cb_conforms" (intros; eval_tables; reflexivity). Qed.
End RollConf3.

(* every entry point of the rolling family with a min_periods has exactly ONE guard that mentions it (37 = the 38 of
   Proofs/SrcTablesRoll.v minus ts_fdiff), and EPS is compared only in the ten functions named above *)
Theorem src_rolling_guard_table_shape :
  length src_emit_guards = 37 /\
  forallb (fun e => Nat.eqb (length (snd e)) 1) src_emit_guards = true /\
  map fst (filter (fun e => negb (Nat.eqb (length (snd e)) 0)) src_eps_guards) =
    ["ts_kurt"; "ts_skew"; "ts_std"; "ts_var"; "ts_vcorr"; "ts_vkurt"; "ts_vskew"; "ts_vstd"; "ts_vvar"; "ts_vzscore"] /\
  forallb (fun e => Nat.leb (length (snd e)) 1) src_eps_guards = true.
Proof. conformance "src_rolling_guard_table_shape" (vm_compute; repeat split; reflexivity). Qed.

(* ---- 6. tea-map: shift, vshift, vdiff, vpct_change (Model/MapOps.v; C13) ---------------------------------------------------------- *)
(* The sign-convention tables: the early guard `len <= n_abs`, and per arm of `match n` (in source order: `n if n > 0`,
   `n if n < 0`, `_`) the iterator pipeline — which of repeat_n / take / skip / chain / zip / map, with which count
   (`n_abs`, `len - n_abs`, `len`).  A pipeline is evaluated on lists exactly as the model evaluates the iterator
   constructions (`len - n_abs` on usize is `usub`).                                                                       *)
Definition cmp_Z (c : src_cmp) (a b : Z) : bool :=
  match c with
  | CLt => (a <? b)%Z | CLe => (a <=? b)%Z | CGt => (b <? a)%Z | CGe => (b <=? a)%Z | CEq => (a =? b)%Z | CNe => negb (a =? b)%Z
  end.
Definition sign_holds (s : src_sign) (n : Z) : bool :=
  match s with SgnCmp c => cmp_Z c n 0%Z | SgnLit z => (n =? z)%Z | SgnRest => true end.
Fixpoint pick_arm (arms : list (src_sign * src_pipe)) (n : Z) : option src_pipe :=
  match arms with
  | [] => None
  | (s, p) :: r => if sign_holds s n then Some p else pick_arm r n
  end.

Definition map_entry (f : string) : src_fill * src_cmp * src_pipe * list (src_sign * src_pipe) :=
  match lookup f src_map_arms with Some e => e | None => (FillNan, CNe, PSelf, []) end.
Definition map_fill (f : string) : src_fill := fst (fst (fst (map_entry f))).
Definition map_early_op (f : string) : src_cmp := snd (fst (fst (map_entry f))).
Definition map_early (f : string) : src_pipe := snd (fst (map_entry f)).
Definition map_arms (f : string) : list (src_sign * src_pipe) := snd (map_entry f).

Ltac eval_map_tables :=
  repeat match goal with
         | |- context [map_fill ?f] => let v := eval vm_compute in (map_fill f) in change (map_fill f) with v
         | |- context [map_early_op ?f] => let v := eval vm_compute in (map_early_op f) in change (map_early_op f) with v
         | |- context [map_early ?f] => let v := eval vm_compute in (map_early f) in change (map_early f) with v
         | |- context [map_arms ?f] => let v := eval vm_compute in (map_arms f) in change (map_arms f) with v
         end.

Section MapConf.
  Context {T : Type}.

  Section Pipe.
    Variables (xs : list T) (fill : option T) (k : nat) (sub : T -> T -> T).
    Definition cnt_eval (c : src_cnt) : res nat :=
      match c with CntLen => Ok (length xs) | CntNAbs => Ok k | CntLenMinusNAbs => usub (length xs) k end.
    (* a pipeline whose items are elements of the series *)
    Fixpoint pipe_T (p : src_pipe) : res (list T) :=
      match p with
      | PSelf => Ok xs
      | PRepeat c => match fill with
                     | Some v => do m <- cnt_eval c; Ok (repeat v m)
                     | None => Panic OtherPanic
                     end
      | PTake q c => do l <- pipe_T q; do m <- cnt_eval c; Ok (firstn m l)
      | PSkip q c => do l <- pipe_T q; do m <- cnt_eval c; Ok (skipn m l)
      | PChain a b => do x <- pipe_T a; do y <- pipe_T b; Ok (app x y)
      | PMap CloSubBA (PZip a b) =>
          do x <- pipe_T a; do y <- pipe_T b; Ok (map (fun pr => sub (snd pr) (fst pr)) (combine x y))
      | PMap CloSubAB (PZip a b) =>
          do x <- pipe_T a; do y <- pipe_T b; Ok (map (fun pr => sub (fst pr) (snd pr)) (combine x y))
      | _ => Panic OtherPanic
      end.
  End Pipe.

  (* the body shared by shift / vshift / vdiff once the fill value is known *)
  Definition src_shift_like (f : string) (sub : T -> T -> T) (n : Z) (v : T) (xs : list T) : res (list T) :=
    let len := length xs in
    let n_abs := Z.abs n in
    if cmp_Z (map_early_op f) (Z.of_nat len) n_abs then pipe_T xs (Some v) (Z.to_nat n_abs) sub (map_early f)
    else match pick_arm (map_arms f) n with
         | Some p => pipe_T xs (Some v) (Z.to_nat n_abs) sub p
         | None => Panic OtherPanic
         end.

  (* where the fill value comes from: the parameter itself, or `value.unwrap_or_else(|| T::none())` BEFORE the guard *)
  Definition fill_sem {I} (fk : src_fill) (d : MapOps.NullDict T I) (value : option T) : res T :=
    match fk with
    | FillValueOrNone => MapOps.or_none d value
    | FillValue => match value with Some v => Ok v | None => Panic OtherPanic end
    | FillNan => Panic OtherPanic
    end.

  Ltac shift_case :=
    match goal with |- context [usub ?a ?b] => destruct (usub a b) end; reflexivity.

  Theorem src_shift_conforms : forall sub (n : Z) (value : T) (xs : list T),
    map_fill "shift" = FillValue /\ src_shift_like "shift" sub n value xs = MapOps.shift n value xs.
  Proof.
    conformance "src_shift_conforms"
      (intros; split; [vm_compute; reflexivity|];
       unfold src_shift_like, MapOps.shift; eval_map_tables; cbv [cmp_Z];
       destruct (Z.of_nat (length xs) <=? Z.abs n)%Z; [reflexivity|];
       cbv [pick_arm sign_holds cmp_Z];
       destruct (0 <? n)%Z; [cbn; shift_case|]; destruct (n <? 0)%Z; reflexivity).
  Qed.

  Theorem src_vshift_conforms : forall {I} (d : MapOps.NullDict T I) sub (n : Z) (value : option T) (xs : list T),
    (do v <- fill_sem (map_fill "vshift") d value; src_shift_like "vshift" sub n v xs) = MapOps.vshift d n value xs.
  Proof.
    conformance "src_vshift_conforms"
      (intros; unfold MapOps.vshift, src_shift_like, MapOps.shift; eval_map_tables; cbv [cmp_Z fill_sem];
       destruct (MapOps.or_none d value) as [v|]; [|reflexivity]; cbn [bind];
       destruct (Z.of_nat (length xs) <=? Z.abs n)%Z; [reflexivity|];
       cbv [pick_arm sign_holds cmp_Z];
       destruct (0 <? n)%Z; [cbn; shift_case|]; destruct (n <? 0)%Z; reflexivity).
  Qed.

  Theorem src_vdiff_conforms : forall {I} (d : MapOps.NullDict T I) sub (n : Z) (value : option T) (xs : list T),
    (do v <- fill_sem (map_fill "vdiff") d value; src_shift_like "vdiff" sub n v xs) = MapOps.vdiff d sub n value xs.
  Proof.
    conformance "src_vdiff_conforms"
      (intros; unfold MapOps.vdiff, src_shift_like; eval_map_tables; cbv [cmp_Z fill_sem];
       destruct (MapOps.or_none d value) as [v|]; [|reflexivity]; cbn [bind];
       destruct (Z.of_nat (length xs) <=? Z.abs n)%Z; [reflexivity|];
       cbv [pick_arm sign_holds cmp_Z];
       destruct (0 <? n)%Z; [cbn; shift_case|]; reflexivity).
  Qed.

  (* ---- vpct_change: items are f64 ---- *)
  Section Pct.
    Context {I F : Type} (d : MapOps.NullDict T I) (o : MapOps.FOps F) (cast : T -> F).

    Definition pct_guard (c : src_clo) (i : nat) : src_guard :=
      match find (fun e => String.eqb (fst (fst e)) "vpct_change" &&
                           match snd (fst e), c with CloPctPos, CloPctPos | CloPctNeg, CloPctNeg => true | _, _ => false end)
                 src_pct_closures with
      | Some e => nth i (snd e) no_guard
      | None => no_guard
      end.
    (* TElem 0 = a (the lagged side), TElem 1 = b *)
    Definition pct_atom (nn_a nn_b a_is0 : bool) (a : src_atom) : bool :=
      match a with
      | ANotNone (TElem 0) => nn_a
      | ANotNone (TElem 1) => nn_b
      | ACmp (TElem 0) CNe TZero => negb a_is0
      | _ => false
      end.
    Definition pct_guard_eval (nn_a nn_b a_is0 : bool) (g : src_guard) : bool := conj (map (pct_atom nn_a nn_b a_is0) g).

    (* n > 0: `a` is already an f64 (the lagged side was cast before the zip) *)
    Definition src_pct_pos (a : F) (b : T) : F :=
      if pct_guard_eval (negb (MapOps.fisnan o a)) (negb (MapOps.is_none d b)) (MapOps.fis0 o a) (pct_guard CloPctPos 0)
      then MapOps.fsub o (MapOps.fdiv o (cast b) a) (MapOps.fone o) else MapOps.fnanv o.
    (* the other arm: both sides tested as T, then `a` cast and tested for zero *)
    Definition src_pct_neg (a b : T) : F :=
      if pct_guard_eval (negb (MapOps.is_none d a)) (negb (MapOps.is_none d b)) false (pct_guard CloPctNeg 0)
      then let a' := cast a in
           if pct_guard_eval true true (MapOps.fis0 o a') (pct_guard CloPctNeg 1)
           then MapOps.fsub o (MapOps.fdiv o (cast b) a') (MapOps.fone o) else MapOps.fnanv o
      else MapOps.fnanv o.

    Section PipeF.
      Variables (xs : list T) (k : nat).
      Let pT := pipe_T xs None k (fun a _ => a).
      Fixpoint pipe_F (p : src_pipe) : res (list F) :=
        match p with
        | PRepeat c => do m <- cnt_eval xs k c; Ok (repeat (MapOps.fnanv o) m)
        | PChain a b => do x <- pipe_F a; do y <- pipe_F b; Ok (app x y)
        | PMap CloCast q => do l <- pT q; Ok (map cast l)
        | PMap CloPctPos (PZip a b) =>
            do x <- pipe_F a; do y <- pT b; Ok (map (fun pr => src_pct_pos (fst pr) (snd pr)) (combine x y))
        | PMap CloPctNeg (PZip a b) =>
            do x <- pT a; do y <- pT b; Ok (map (fun pr => src_pct_neg (fst pr) (snd pr)) (combine x y))
        | _ => Panic OtherPanic
        end.
    End PipeF.

    Definition src_vpct_change (n : Z) (xs : list T) : res (list F) :=
      let len := length xs in
      let n_abs := Z.abs n in
      if cmp_Z (map_early_op "vpct_change") (Z.of_nat len) n_abs then pipe_F xs (Z.to_nat n_abs) (map_early "vpct_change")
      else match pick_arm (map_arms "vpct_change") n with
           | Some p => pipe_F xs (Z.to_nat n_abs) p
           | None => Panic OtherPanic
           end.

    Lemma src_pct_closures_conform :
      (forall a b, src_pct_pos a b = MapOps.pct_pos d o cast a b) /\ (forall a b, src_pct_neg a b = MapOps.pct_neg d o cast a b).
    Proof.
      conformance "src_pct_closures_conform"
        (split; intros a b; unfold src_pct_pos, src_pct_neg, MapOps.pct_pos, MapOps.pct_neg;
         repeat match goal with
                | |- context [pct_guard ?c ?i] => let v := eval vm_compute in (pct_guard c i) in change (pct_guard c i) with v
                end; reflexivity).
    Qed.

    Theorem src_vpct_change_conforms : forall (n : Z) (xs : list T),
      map_fill "vpct_change" = FillNan /\ src_vpct_change n xs = MapOps.vpct_change d o cast n xs.
    Proof.
      conformance "src_vpct_change_conforms"
        (intros; split; [vm_compute; reflexivity|];
         unfold src_vpct_change, MapOps.vpct_change; eval_map_tables; cbv [cmp_Z];
         destruct (Z.of_nat (length xs) <=? Z.abs n)%Z; [reflexivity|];
         cbv [pick_arm sign_holds cmp_Z];
         unfold src_pct_pos, src_pct_neg, MapOps.pct_pos, MapOps.pct_neg;
         repeat match goal with
                | |- context [pct_guard ?c ?i] => let v := eval vm_compute in (pct_guard c i) in change (pct_guard c i) with v
                end;
         destruct (0 <? n)%Z; [cbn [pipe_F pipe_T cnt_eval bind]; shift_case|]; reflexivity).
    Qed.
  End Pct.
End MapConf.

(* the four functions are the whole table; vdiff and vpct_change treat n = 0 in the catch-all arm (as a negative lag) *)
Theorem src_map_table_shape :
  map fst src_map_arms = ["shift"; "vshift"; "vdiff"; "vpct_change"] /\
  map (fun e => map fst (snd (snd e))) src_map_arms =
    [[SgnCmp CGt; SgnCmp CLt; SgnRest]; [SgnCmp CGt; SgnCmp CLt; SgnRest]; [SgnCmp CGt; SgnRest]; [SgnCmp CGt; SgnRest]] /\
  length src_pct_closures = 2.
Proof. conformance "src_map_table_shape" (vm_compute; repeat split; reflexivity). Qed.

(* Model remark.  Model/Reg.v `agg_vvar` (the variance the residual statistics of reg.rs call through `.vstd(2)`) still has the
   branch order of vmean_var BEFORE the repair of defect #9 (EPS floor first, `n >= 2` second).  It is only applied with
   min_periods = 2 (src_rstat_apply_conforms: the source says `.vstd(2)`), and from min_periods 2 on the two orders agree:
   agg_vvar is then the function whose decisions are those of the SOURCE's vmean_var.                                    *)
Section RegAggVvar.
  Context {A : Type} {NA : Num A}.
  Local Open Scope num_scope.
  Definition agg_vvar_repaired (mp : nat) (l : list A) : A :=
    let st := Reg.acc3_of l in let n := Reg.a_n st in
    if guard_eval (env_n (F := A) n mp) (agg_guard "vmean_var" 0) then nnan else
      let nf := nofnat n in
      let m1 := Reg.a_m1 st / nf in
      let m2 := Reg.a_m2 st / nf in
      let m2 := m2 - powi m1 2 in
      if guard_eval (env_n (F := A) n mp) (agg_guard "vmean_var" 1) then nnan
      else if guard_eval (env_var m2 m2) (agg_guard "vmean_var" 2) then nzero
      else m2 * nf / nofnat (n - 1)%nat.
  Theorem reg_agg_vvar_is_repaired_order : forall mp (l : list A), 2 <= mp -> Reg.agg_vvar mp l = agg_vvar_repaired mp l.
  Proof.
    conformance "reg_agg_vvar_is_repaired_order"
      (intros mp l Hmp; unfold Reg.agg_vvar, agg_vvar_repaired; eval_tables;
       set (n := Reg.a_n (Reg.acc3_of l));
       change (guard_eval (env_n (F := A) n mp) [ACmp TCount CLt TMinPeriods]) with (n <? mp);
       change (guard_eval (env_n (F := A) n mp) [ACmp TCount CLt (TNat 2)]) with (n <? 2);
       destruct (n <? mp) eqn:E; [reflexivity|];
       apply Nat.ltb_ge in E;
       assert (H1 : (n <? 2) = false) by (apply Nat.ltb_ge; lia);
       assert (H2 : (2 <=? n) = true) by (apply Nat.leb_le; lia);
       rewrite H1; cbv zeta; rewrite H2; reflexivity).
  Qed.
End RegAggVvar.

(* ---- 7. nothing is left over: every guard of the aggregation table is read by one of the functions of section 3 ---------------- *)
Theorem src_agg_table_shape :
  map (fun e => (fst e, length (snd e))) src_agg_guards =
    [("vsum", 1); ("vmean", 1); ("vmean_var", 3); ("vskew", 4); ("vcov", 2); ("vcorr_pearson", 3);
     ("n_sum_filter", 1); ("vmean_filter", 1); ("vkurt", 4)] /\
  map fst src_agg_mp_floor = ["vmean_var"; "vskew"; "vcov"; "vcorr_pearson"; "vmean_filter"; "vkurt"] /\
  map fst src_agg_wrappers = ["vvar"; "vstd"] /\
  map fst src_resid_calls = ["ts_vregx_resid_mean"; "ts_vregx_resid_skew"; "ts_vregx_resid_std"].
Proof. conformance "src_agg_table_shape" (vm_compute; repeat split; reflexivity). Qed.

(* the intrinsic minimums, read off the source: vcov / vcorr_pearson raise min_periods to 2; the others test the count
   against a literal (vmean_var: n < 2, vskew: n >= 3, vkurt: n >= 4) *)
Theorem src_agg_intrinsic_minimums :
  agg_floor "vcov" = 2 /\ agg_floor "vcorr_pearson" = 2 /\
  agg_guard "vmean_var" 1 = [ACmp TCount CLt (TNat 2)] /\
  agg_guard "vskew" 1 = [ACmp TCount CGe (TNat 3)] /\
  agg_guard "vkurt" 1 = [ACmp TCount CGe (TNat 4)].
Proof. conformance "src_agg_intrinsic_minimums" (vm_compute; repeat split; reflexivity). Qed.

(* non-vacuity: the semantics computes on concrete guards, and the unsatisfiable guard really is *)
Example guard_eval_examples :
  guard_eval (env_n (F := float) 3 2) (agg_guard "vmean_var" 0) = false /\
  guard_eval (env_n (F := float) 1 2) (agg_guard "vmean_var" 0) = true /\
  guard_eval (env_n (F := float) 1 0) (agg_guard "vmean_var" 1) = true /\
  guard_eval (env_var (F := float) 0x1p-50%float 0%float) (agg_guard "vmean_var" 2) = true /\
  guard_eval (env_var (F := float) 0x1p-40%float 0%float) (agg_guard "vmean_var" 2) = false /\
  guard_eval (env_var (F := float) 1%float 0%float) (eps_guard "ts_vcorr") = false /\
  guard_eval (env_var (F := float) 1%float 1%float) (eps_guard "ts_vcorr") = true /\
  guard_eval (env_n (F := float) 5 5) no_guard = false /\
  pick_arm (map_arms "vshift") 3 = Some (PChain (PRepeat CntNAbs) (PTake PSelf CntLenMinusNAbs)) /\
  pick_arm (map_arms "vshift") (-3) = Some (PChain (PSkip PSelf CntNAbs) (PRepeat CntNAbs)) /\
  pick_arm (map_arms "vshift") 0 = Some PSelf /\
  pipe_T [1; 2; 3; 4] (Some 0) 1 Nat.sub (PChain (PRepeat CntNAbs) (PTake PSelf CntLenMinusNAbs)) = Ok [0; 1; 2; 3].
Proof. vm_compute. repeat split; reflexivity. Qed.

Print Assumptions src_eps_conforms_float.
Print Assumptions src_eps_conforms_XR.
Print Assumptions src_vsum_conforms.
Print Assumptions src_vmean_conforms.
Print Assumptions src_vmean_var_conforms.
Print Assumptions src_vvar_conforms.
Print Assumptions src_vstd_conforms.
Print Assumptions src_vskew_conforms.
Print Assumptions src_vkurt_conforms.
Print Assumptions src_vcov_conforms.
Print Assumptions src_vcorr_pearson_conforms.
Print Assumptions src_n_sum_filter_conforms.
Print Assumptions src_vmean_filter_conforms.
Print Assumptions src_vquantile_conforms.
Print Assumptions src_vpercentile_of_conforms.
Print Assumptions src_emit_sum_conforms.
Print Assumptions src_emit_var_conforms.
Print Assumptions src_emit_skew_conforms.
Print Assumptions src_emit_kurt_conforms.
Print Assumptions src_emit_cov_conforms.
Print Assumptions src_emit_corr_conforms.
Print Assumptions src_zs_emit_conforms.
Print Assumptions src_trend_emit_conforms.
Print Assumptions src_regx_emit_conforms.
Print Assumptions src_resid_emit_conforms.
Print Assumptions src_rstat_apply_conforms.
Print Assumptions reg_agg_vvar_is_repaired_order.
Print Assumptions src_ts_vfdiff_cb_conforms.
Print Assumptions src_varg_cb_conforms.
Print Assumptions src_mmnorm_cb_conforms.
Print Assumptions src_shift_conforms.
Print Assumptions src_vshift_conforms.
Print Assumptions src_vdiff_conforms.
Print Assumptions src_vpct_change_conforms.
