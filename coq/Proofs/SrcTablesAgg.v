(* Proofs/SrcTablesAgg.v — the translator tie (DESIGN 10.2) extended to the aggregation family (C11 / C12), the rolling
   closures (C04 / C01) and the map family (C13): conformance of the hand-written models with the decision tables
   GENERATED from the Rust source text (coq/Gen/SrcTables.v, written by tools/gen_tables.py from the repo's working tree
   on every run of those checks).

   The generated tables hold no arithmetic, only DECISIONS: which comparison operator, which constant, which side EPS is
   on, which count guards an emission, which interpolation arm returns which of vi / vj, which sign arm of `match n` builds
   which skip / take / chain pipeline.  Identifiers of the source are resolved to roles by the translator, so that renaming
   a local or moving an independent `let` leaves a table unchanged.

   Here every table is given a semantics (`guard_eval`, `qexpr_eval`, `pipe_T`, ...) and, for every model function the
   table belongs to, a theorem states FOR ALL INPUTS (series, min_periods, windows, carriers, null dictionaries) that the
   model function equals the function obtained by reading its decisions out of the SOURCE table.  The proofs evaluate the
   table lookups (`vm_compute` on the closed lookup only) and then need nothing but conversion: they go through exactly
   as long as the source spells out the decisions the model makes.  `n < 2` -> `n < 1` in vmean_var, `>` -> `>=` against
   EPS in ts_vcorr, the Lower arm of vquantile returning vj, `n > 0` -> `n >= 0` in vshift: the generated table changes and
   the theorem named in the error message no longer compiles — the proof obligation breaks before any input is run.

   Axiom-free, except `src_eps_conforms_XR` (a statement about a real number: the stdlib Reals axioms).               *)
From Coq Require Import ZArith List String Lia PeanoNat Bool Floats Reals Lra.
From Tevec Require Import Base.Prelude Base.Num Base.XR Base.F64 Gen.SrcTables.
From Tevec Require Model.Driver Model.Features Model.Binary Model.Norm Model.Reg Model.Cmp Model.Fdiff Model.Agg
                          Model.SortCmp Model.Quantile Model.MapOps.
Import ListNotations.
Local Open Scope string_scope.
Local Open Scope nat_scope.

(* A failing conformance proof names the theorem in the error message (the check's replay quotes the tail of the log). *)
Tactic Notation "conformance" constr(name) tactic3(t) :=
  first [ solve [ t ] | fail 1 "SOURCE TABLE NO LONGER CONFORMS TO THE MODEL:" name ].

(* ---- 0. lookups ------------------------------------------------------------------------------------------------------- *)
Fixpoint lookup {V : Type} (n : string) (l : list (string * V)) : option V :=
  match l with
  | [] => None
  | (k, v) :: r => if String.eqb n k then Some v else lookup n r
  end.

(* the i-th guard of a function; a missing function / guard is the unsatisfiable guard, under which nothing conforms *)
Definition no_guard : src_guard := [AIsSome TCount].
Definition guard_in (tbl : list (string * list src_guard)) (f : string) (i : nat) : src_guard :=
  match lookup f tbl with Some l => nth i l no_guard | None => no_guard end.
Definition agg_guard : string -> nat -> src_guard := guard_in src_agg_guards.
Definition emit_guard (f : string) : src_guard := guard_in src_emit_guards f 0.
Definition eps_guard (f : string) : src_guard := guard_in src_eps_guards f 0.
Definition n_guards (tbl : list (string * list src_guard)) (f : string) : nat :=
  match lookup f tbl with Some l => length l | None => 0 end.

(* `let min_periods = min_periods.max_with(K);` — K = 0: there is no such line *)
Definition apply_floor (k mp : nat) : nat := match k with 0 => mp | _ => Nat.max mp k end.
Definition agg_floor (f : string) : nat := match lookup f src_agg_mp_floor with Some k => k | None => 0 end.

Ltac eval_tables :=
  repeat match goal with
         | |- context [agg_guard ?f ?i] => let v := eval vm_compute in (agg_guard f i) in change (agg_guard f i) with v
         | |- context [emit_guard ?f] => let v := eval vm_compute in (emit_guard f) in change (emit_guard f) with v
         | |- context [eps_guard ?f] => let v := eval vm_compute in (eps_guard f) in change (eps_guard f) with v
         | |- context [agg_floor ?f] => let v := eval vm_compute in (agg_floor f) in change (agg_floor f) with v
         end.

(* ---- 1. semantics of a guard --------------------------------------------------------------------------------------------- *)
Definition cmp_nat (c : src_cmp) (a b : nat) : bool :=
  match c with
  | CLt => a <? b | CLe => a <=? b | CGt => b <? a | CGe => b <=? a | CEq => a =? b | CNe => negb (a =? b)
  end.

(* a conjunction, associated as the source writes it: a && b && c = (a && b) && c *)
Fixpoint conj_from (acc : bool) (l : list bool) : bool :=
  match l with [] => acc | b :: r => conj_from (acc && b) r end.
Definition conj (l : list bool) : bool := match l with [] => true | b :: r => conj_from b r end.

Section GuardSem.
  Context {F : Type} {NF : Num F}.

  (* Rust's comparison operators on f64: every one is false on NaN except `!=`, which is the negation of `==` *)
  Definition cmp_num (c : src_cmp) (a b : F) : bool :=
    match c with
    | CLt => nltb a b | CLe => nleb a b | CGt => nltb b a | CGe => nleb b a | CEq => neqb a b | CNe => negb (neqb a b)
    end.

  (* what the roles stand for at one evaluation of a guard *)
  Record genv := {
    g_count : nat;                 (* TCount *)
    g_mp : nat;                    (* TMinPeriods (after the `.max_with(K)` rebinding, if any) *)
    g_var : nat -> F;              (* TVar i: the population variance(s) as computed *)
    g_res : F;                     (* TRes *)
    g_nn : nat -> bool;            (* TElem i: `not_none()` of the i-th element tested *)
    g_some : nat -> bool;          (* TOther i under `.is_some()` *)
    g_other : nat -> F;            (* TOther i in a comparison *)
  }.

  Inductive tval := VN (n : nat) | VF (x : F) | VBad.
  Definition term_val (e : genv) (t : src_term) : tval :=
    match t with
    | TCount => VN (g_count e) | TMinPeriods => VN (g_mp e) | TNat k => VN k
    | TEps => VF neps | TZero => VF nzero | TVar i => VF (g_var e i) | TRes => VF (g_res e)
    | TOther i => VF (g_other e i)
    | TElem _ => VBad
    end.
  Definition atom_eval (e : genv) (a : src_atom) : bool :=
    match a with
    | ACmp l c r => match term_val e l, term_val e r with
                    | VN x, VN y => cmp_nat c x y
                    | VF x, VF y => cmp_num c x y
                    | _, _ => false
                    end
    | ANotNone TRes => negb (nisnan (g_res e))
    | ANotNone (TElem i) => g_nn e i
    | AIsNone (TElem i) => negb (g_nn e i)
    | AIsSome (TOther i) => g_some e i
    | _ => false
    end.
  Definition guard_eval (e : genv) (g : src_guard) : bool := conj (map (atom_eval e) g).

  (* environments *)
  Definition env0 : genv :=
    {| g_count := 0; g_mp := 0; g_var := fun _ => nnan; g_res := nnan; g_nn := fun _ => false;
       g_some := fun _ => false; g_other := fun _ => nnan |}.
  Definition env_n (n mp : nat) : genv :=
    {| g_count := n; g_mp := mp; g_var := fun _ => nnan; g_res := nnan; g_nn := fun _ => false;
       g_some := fun _ => false; g_other := fun _ => nnan |}.
  Definition env_var (v0 v1 : F) : genv :=
    {| g_count := 0; g_mp := 0; g_var := fun i => match i with 0 => v0 | _ => v1 end; g_res := nnan;
       g_nn := fun _ => false; g_some := fun _ => false; g_other := fun _ => nnan |}.
  Definition env_res (r : F) : genv :=
    {| g_count := 0; g_mp := 0; g_var := fun _ => nnan; g_res := r; g_nn := fun _ => false;
       g_some := fun _ => false; g_other := fun _ => nnan |}.
  Definition env_nn (a b : bool) : genv :=
    {| g_count := 0; g_mp := 0; g_var := fun _ => nnan; g_res := nnan; g_nn := fun i => match i with 0 => a | _ => b end;
       g_some := fun _ => false; g_other := fun _ => nnan |}.
  (* count guard with further conjuncts: `.is_some()` of a state variable, a comparison of two state variables *)
  Definition env_n_some (n mp : nat) (s0 : bool) : genv :=
    {| g_count := n; g_mp := mp; g_var := fun _ => nnan; g_res := nnan; g_nn := fun _ => false;
       g_some := fun _ => s0; g_other := fun _ => nnan |}.
  Definition env_n_other (n mp : nat) (o0 o1 : F) : genv :=
    {| g_count := n; g_mp := mp; g_var := fun _ => nnan; g_res := nnan; g_nn := fun _ => false;
       g_some := fun _ => false; g_other := fun i => match i with 0 => o0 | _ => o1 end |}.
End GuardSem.

(* the guard `n >= min_periods` as every rolling closure writes it *)
Lemma guard_eval_count_ge : forall {F} {NF : Num F} (n mp : nat),
  guard_eval (env_n (F := F) n mp) [ACmp TCount CGe TMinPeriods] = (mp <=? n).
Proof. reflexivity. Qed.

(* ---- 2. the constant EPS ------------------------------------------------------------------------------------------------ *)
(* binary64: the literal of the source denotes the float the execution instance uses ... *)
Theorem src_eps_conforms_float : src_eps_float = neps (Num := NumF64).
Proof. conformance "src_eps_conforms_float" (vm_compute; reflexivity). Qed.

(* ... and, read as a decimal, the real number the proof instance uses *)
Definition dec_R (d : Z * Z) : R :=
  if (snd d <? 0)%Z then (IZR (fst d) / IZR (10 ^ (- snd d)))%R else IZR (fst d * 10 ^ snd d).
Theorem src_eps_conforms_XR : neps (Num := NumXR) = Some (dec_R src_eps_dec).
Proof.
  conformance "src_eps_conforms_XR"
    (let v := eval vm_compute in src_eps_dec in change src_eps_dec with v;
     unfold dec_R; cbn [fst snd Z.ltb Z.compare Z.opp]; cbn [neps NumXR]; unfold EPS; f_equal;
     let p := eval vm_compute in (10 ^ 14)%Z in change (10 ^ 14)%Z with p; lra).
Qed.

(* ---- 3. tea-core/src/agg.rs, tea-agg/src/lib.rs (Model/Agg.v; C11, and the aggregations C04's definitions rest on) --------- *)
(* For each function: `src_<f>` is the function whose DECISIONS are read from the source tables (guards by position in
   source order, the min_periods floor, EPS through TEps) around the arithmetic of the model; `src_<f>_conforms` states
   that it is the model function, for every input.                                                                        *)
Section AggConf.
  Context {A : Type} {NA : Num A} {T : Type} {DT : IsNone T A} {F : Type} {NF : Num F}.
  Variable tof : A -> F.
  Local Open Scope num_scope.
  Notation G := agg_guard.

  (* vsum / vmean: `if n >= 1` *)
  Definition src_vsum (xs : list T) : option A :=
    let ns := Agg.vfold_n (fun acc x => acc + x) nzero xs in
    if guard_eval (env_n (F := F) (fst ns) 0) (G "vsum" 0) then Some (snd ns) else None.
  Theorem src_vsum_conforms : forall xs, src_vsum xs = Agg.vsum xs.
  Proof. conformance "src_vsum_conforms" (intros; unfold src_vsum, Agg.vsum; eval_tables; reflexivity). Qed.

  Definition src_vmean (xs : list T) : F :=
    let ns := Agg.vfold_n (fun acc x => acc + x) nzero xs in
    if guard_eval (env_n (F := F) (fst ns) 0) (G "vmean" 0) then tof (snd ns) / nofnat (fst ns) else nnan.
  Theorem src_vmean_conforms : forall xs, src_vmean xs = Agg.vmean tof xs.
  Proof. conformance "src_vmean_conforms" (intros; unfold src_vmean, Agg.vmean; eval_tables; reflexivity). Qed.

  (* vmean_var: `n < min_periods` -> (NaN, NaN); `n < 2` -> (m1, NaN); `m2 <= EPS` -> (m1, 0.) — in this order *)
  Definition src_vmean_var (mp : nat) (xs : list T) : F * F :=
    let mp := apply_floor (agg_floor "vmean_var") mp in
    let ns := Agg.vapply_n (Agg.mv_step tof) (nzero, nzero) xs in
    let n := fst ns in
    if guard_eval (env_n (F := F) n mp) (G "vmean_var" 0) then (nnan, nnan) else
    let nf := nofnat n in
    let m1 := fst (snd ns) / nf in
    let m2 := snd (snd ns) / nf in
    let m2 := m2 - powi m1 2 in
    if guard_eval (env_n (F := F) n mp) (G "vmean_var" 1) then (m1, nnan)
    else if guard_eval (env_var m2 m2) (G "vmean_var" 2) then (m1, nzero)
    else (m1, m2 * nf / nofnat (n - 1)%nat).
  Theorem src_vmean_var_conforms : forall mp xs, src_vmean_var mp xs = Agg.vmean_var tof mp xs.
  Proof. conformance "src_vmean_var_conforms" (intros; unfold src_vmean_var, Agg.vmean_var; eval_tables; reflexivity). Qed.

  (* the wrappers vvar = vmean_var(min_periods).1 and vstd = vvar(min_periods).sqrt() *)
  Definition wrap_eval (w : src_wrap) (mp : nat) (xs : list T) : option F :=
    match w with
    | WSnd c => if String.eqb c "vmean_var" then Some (snd (src_vmean_var mp xs)) else None
    | WSqrt c => if String.eqb c "vvar" then Some (nsqrt (snd (src_vmean_var mp xs))) else None
    end.
  Definition wrapper (f : string) : src_wrap := match lookup f src_agg_wrappers with Some w => w | None => WSnd "" end.
  Theorem src_vvar_conforms : forall mp xs, wrap_eval (wrapper "vvar") mp xs = Some (Agg.vvar tof mp xs).
  Proof.
    conformance "src_vvar_conforms"
      (intros; let v := eval vm_compute in (wrapper "vvar") in change (wrapper "vvar") with v;
       cbn [wrap_eval String.eqb Ascii.eqb Bool.eqb]; rewrite src_vmean_var_conforms; reflexivity).
  Qed.
  Theorem src_vstd_conforms : forall mp xs, wrap_eval (wrapper "vstd") mp xs = Some (Agg.vstd tof mp xs).
  Proof.
    conformance "src_vstd_conforms"
      (intros; let v := eval vm_compute in (wrapper "vstd") in change (wrapper "vstd") with v;
       cbn [wrap_eval String.eqb Ascii.eqb Bool.eqb]; rewrite src_vmean_var_conforms; reflexivity).
  Qed.

  (* vskew: `n < min_periods`; the intrinsic minimum `n >= 3`; `var <= EPS` -> 0.; the adjustment under
     `res.not_none() && res != 0.` *)
  Definition src_vskew (mp : nat) (xs : list T) : F :=
    let mp := apply_floor (agg_floor "vskew") mp in
    let ns := Agg.vapply_n (Agg.sk_step tof) (nzero, nzero, nzero) xs in
    let n := fst ns in
    let '(m1, m2, m3) := snd ns in
    if guard_eval (env_n (F := F) n mp) (G "vskew" 0) then nnan else
    let res :=
      if guard_eval (env_n (F := F) n mp) (G "vskew" 1) then
        let nf := nofnat n in
        let m1 := m1 / nf in
        let m2 := m2 / nf in
        let var := m2 - powi m1 2 in
        if guard_eval (env_var var var) (G "vskew" 2) then nzero
        else
          let std := nsqrt var in
          let m3 := m3 / nf in
          let mean_std := m1 / std in
          m3 / powi std 3 - Agg.three * mean_std - powi mean_std 3
      else nnan in
    if guard_eval (env_res res) (G "vskew" 3) then
      let adjust := nsqrt (nofnat (n * (n - 1))%nat) / nofnat (n - 2)%nat in
      res * adjust
    else res.
  Theorem src_vskew_conforms : forall mp xs, src_vskew mp xs = Agg.vskew tof mp xs.
  Proof. conformance "src_vskew_conforms" (intros; unfold src_vskew, Agg.vskew; eval_tables; reflexivity). Qed.

  (* vkurt: the same with the intrinsic minimum 4 *)
  Definition src_vkurt (mp : nat) (xs : list T) : F :=
    let mp := apply_floor (agg_floor "vkurt") mp in
    let ns := Agg.vapply_n (Agg.ku_step tof) (nzero, nzero, nzero, nzero) xs in
    let n := fst ns in
    let '(m1, m2, m3, m4) := snd ns in
    if guard_eval (env_n (F := F) n mp) (G "vkurt" 0) then nnan else
    let res :=
      if guard_eval (env_n (F := F) n mp) (G "vkurt" 1) then
        let nf := nofnat n in
        let m1 := m1 / nf in
        let m2 := m2 / nf in
        let var := m2 - powi m1 2 in
        if guard_eval (env_var var var) (G "vkurt" 2) then nzero
        else
          let var2 := powi var 2 in
          let m4 := m4 / nf in
          let m3 := m3 / nf in
          let mean2_var := powi m1 2 / var in
          (m4 - Agg.four * m1 * m3) / var2 + Agg.six * mean2_var + Agg.three * powi mean2_var 2
      else nnan in
    if guard_eval (env_res res) (G "vkurt" 3) then
      none / nofnat ((n - 2) * (n - 3))%nat
      * (nofnat (n * n - 1)%nat * res - nofnat (3 * ((n - 1) * (n - 1)))%nat)
    else res.
  Theorem src_vkurt_conforms : forall mp xs, src_vkurt mp xs = Agg.vkurt tof mp xs.
  Proof. conformance "src_vkurt_conforms" (intros; unfold src_vkurt, Agg.vkurt; eval_tables; reflexivity). Qed.

  (* two series *)
  Context {T2 : Type} {DT2 : IsNone T2 A}.

  (* vcov: a pair counts when `va.not_none() && vb.not_none()`; min_periods.max_with(2); `n >= min_periods` *)
  Definition src_cov_step (s : nat * F * F * F) (p : T * T2) : nat * F * F * F :=
    let '(n, sa, sb, sab) := s in
    if guard_eval (env_nn (F := F) (not_none (fst p)) (not_none (snd p))) (G "vcov" 0) then
      let va := tof (unwrap (fst p)) in let vb := tof (unwrap (snd p)) in
      (S n, sa + va, sb + vb, sab + va * vb)
    else s.
  Definition src_vcov (mp : nat) (xs : list T) (ys : list T2) : F :=
    let mp := apply_floor (agg_floor "vcov") mp in
    let '(n, sa, sb, sab) := fold_left src_cov_step (combine xs ys) (0%nat, nzero, nzero, nzero) in
    if guard_eval (env_n (F := F) n mp) (G "vcov" 1) then (sab - (sa * sb) / nofnat n) / nofnat (n - 1)%nat else nnan.
  Lemma src_cov_step_conforms : forall s p, src_cov_step s p = Agg.cov_step tof s p.
  Proof. conformance "src_cov_step_conforms" (intros; unfold src_cov_step, Agg.cov_step; eval_tables; reflexivity). Qed.
  Theorem src_vcov_conforms : forall mp xs ys, src_vcov mp xs ys = Agg.vcov tof mp xs ys.
  Proof.
    conformance "src_vcov_conforms"
      (intros; unfold src_vcov, Agg.vcov, src_cov_step, Agg.cov_step; eval_tables; reflexivity).
  Qed.

  (* vcorr_pearson: pairwise-complete pairs; min_periods.max_with(2); `n >= min_periods`; BOTH variances `> EPS` *)
  Definition src_corr_step (s : nat * F * F * F * F * F) (p : T * T2) : nat * F * F * F * F * F :=
    let '(n, sa, s2a, sb, s2b, sab) := s in
    if guard_eval (env_nn (F := F) (not_none (fst p)) (not_none (snd p))) (G "vcorr_pearson" 0) then
      let va := tof (unwrap (fst p)) in let vb := tof (unwrap (snd p)) in
      (S n, sa + va, s2a + va * va, sb + vb, s2b + vb * vb, sab + va * vb)
    else s.
  Definition src_vcorr_pearson (mp : nat) (xs : list T) (ys : list T2) : F :=
    let mp := apply_floor (agg_floor "vcorr_pearson") mp in
    let '(n, sa, s2a, sb, s2b, sab) :=
      fold_left src_corr_step (combine xs ys) (0%nat, nzero, nzero, nzero, nzero, nzero) in
    if guard_eval (env_n (F := F) n mp) (G "vcorr_pearson" 1) then
      let nf := nofnat n in
      let mean_a := sa / nf in
      let var_a := s2a / nf in
      let mean_b := sb / nf in
      let var_b := s2b / nf in
      let var_a := var_a - powi mean_a 2 in
      let var_b := var_b - powi mean_b 2 in
      if guard_eval (env_var var_a var_b) (G "vcorr_pearson" 2) then
        let exy := sab / nf in
        let exey := sa * sb / (nf * nf) in
        (exy - exey) / nsqrt (var_a * var_b)
      else nnan
    else nnan.
  Theorem src_vcorr_pearson_conforms : forall mp xs ys, src_vcorr_pearson mp xs ys = Agg.vcorr_pearson tof mp xs ys.
  Proof.
    conformance "src_vcorr_pearson_conforms"
      (intros; unfold src_vcorr_pearson, Agg.vcorr_pearson, src_corr_step, Agg.corr_step; eval_tables; reflexivity).
  Qed.

  (* the masked sum / mean of tea-agg: `n > 0`, `n >= min_periods` *)
  Context {U : Type} {DU : IsNone U bool}.
  Definition src_n_sum_filter (xs : list T) (mask : list U) : option A :=
    let ns := Agg.n_vsum_filter xs mask in
    if guard_eval (env_n (F := F) (fst ns) 0) (G "n_sum_filter" 0) then Some (snd ns) else None.
  Theorem src_n_sum_filter_conforms : forall xs mask, src_n_sum_filter xs mask = Agg.n_sum_filter xs mask.
  Proof. conformance "src_n_sum_filter_conforms" (intros; unfold src_n_sum_filter, Agg.n_sum_filter; eval_tables; reflexivity). Qed.

  Definition src_vmean_filter (mp : nat) (xs : list T) (mask : list U) : F :=
    let mp := apply_floor (agg_floor "vmean_filter") mp in
    let ns := Agg.n_vsum_filter xs mask in
    if guard_eval (env_n (F := F) (fst ns) mp) (G "vmean_filter" 0) then tof (snd ns) / nofnat (fst ns) else nnan.
  Theorem src_vmean_filter_conforms : forall mp xs mask, src_vmean_filter mp xs mask = Agg.vmean_filter tof mp xs mask.
  Proof. conformance "src_vmean_filter_conforms" (intros; unfold src_vmean_filter, Agg.vmean_filter; eval_tables; reflexivity). Qed.
End AggConf.

(* ---- 4. vquantile / vpercentile_of (Model/Quantile.v; C12) -------------------------------------------------------------------- *)
Section QuantileConf.
  Context {A : Type} {NA : Num A} {NFl : SortCmp.NumFloor A} {T : Type} {DT : IsNone T A}.
  Local Open Scope num_scope.

  Definition qmethod_src (m : Quantile.qmethod) : src_qmethod :=
    match m with
    | Quantile.Linear => SrcLinear | Quantile.Lower => SrcLower | Quantile.Higher => SrcHigher | Quantile.MidPoint => SrcMidPoint
    end.
  Definition qmethod_eqb (a b : src_qmethod) : bool :=
    match a, b with
    | SrcLinear, SrcLinear | SrcLower, SrcLower | SrcHigher, SrcHigher | SrcMidPoint, SrcMidPoint => true
    | _, _ => false
    end.
  Definition qlookup (m : src_qmethod) (l : list (src_qmethod * src_qexpr)) : option src_qexpr :=
    option_map snd (find (fun e => qmethod_eqb (fst e) m) l).

  (* what an interpolation expression computes from the two neighbours vi (position i) and vj (position j) of the
     fractional index (n-1) q — `q` is the probability of the branch: q itself ascending, 1 - q descending *)
  Definition qexpr_eval (e : src_qexpr) (vi vj : A) (i j : nat) (len_1 q : A) : A :=
    match e with
    | QVi => vi
    | QVj => vj
    | QMid => (vi + vj) / ntwo
    | QLinear =>
        let qi := nofnat i / len_1 in
        let qj := nofnat j / len_1 in
        let fraction := (q - qi) / (qj - qi) in
        vi + (vj - vi) * fraction
    end.

  (* the arm a method takes: an early return of the branch if the branch has one for it, the final match otherwise *)
  Definition qarm (early : list (src_qmethod * src_qexpr)) (m : src_qmethod) : option src_qexpr :=
    match qlookup m early with Some e => Some e | None => qlookup m src_quantile_final end.

  Definition sortcmp_sem (c : src_sortcmp) : T -> T -> comparison :=
    match c with SrcSortCmp => SortCmp.sort_cmp | SrcSortCmpRev => SortCmp.sort_cmp_rev end.
  Definition headagg_sem (h : src_headagg) : list T -> option A :=
    match h with HeadVmax => SortCmp.vmax | HeadVmin => SortCmp.vmin end.
  Definition qbranch (k : nat) : src_sortcmp * src_headagg := nth k src_quantile_branches (SrcSortCmp, HeadVmin).
  Definition qguard (k : nat) : src_guard := nth k src_quantile_guards no_guard.

  (* one branch: select the j-th element under the branch's comparator, vi from the head, then the method's arm *)
  Definition src_qbranch (k : nat) (early : list (src_qmethod * src_qexpr)) (method : Quantile.qmethod)
             (len_1 q : A) (xs : list T) : res (option A) :=
    let q_idx := len_1 * q in
    let i := Z.to_nat (SortCmp.nfloorZ q_idx) in
    let j := Z.to_nat (SortCmp.nceilZ q_idx) in
    do hm <- Quantile.select_nth (sortcmp_sem (fst (qbranch k))) j xs;
    let '(head, m) := hm in
    if negb (i =? j)%nat then
      let vi := SortCmp.opt_cast (headagg_sem (snd (qbranch k)) head) in
      let vj := SortCmp.tcast m in
      match qarm early (qmethod_src method) with
      | Some e => Ok (Some (qexpr_eval e vi vj i j len_1 q))
      | None => Panic OtherPanic
      end
    else Ok (Some (SortCmp.tcast m)).

  Definition src_vquantile (q : A) (method : Quantile.qmethod) (xs : list T) : res (option A) :=
    if negb (nleb nzero q && nleb q none) then Ok None else
    let n := SortCmp.count_valid xs in
    if guard_eval (env_n (F := A) n 0) (qguard 0) then Ok (Some nnan) else
    if guard_eval (env_n (F := A) n 0) (qguard 1) then
      match SortCmp.vfirst xs with Some v => Ok (Some (SortCmp.tcast v)) | None => Panic UnwrapNone end
    else
    let len_1 := nofnat (n - 1)%nat in
    if cmp_num src_quantile_branch_test q Quantile.nhalf then src_qbranch 0 [] method len_1 q xs
    else src_qbranch 1 src_quantile_desc_early method len_1 (none - q) xs.

  Theorem src_vquantile_conforms : forall q method xs, src_vquantile q method xs = Quantile.vquantile q method xs.
  Proof.
    conformance "src_vquantile_conforms"
      (intros q method xs; unfold src_vquantile, Quantile.vquantile, src_qbranch;
       repeat match goal with
              | |- context [qguard ?k] => let v := eval vm_compute in (qguard k) in change (qguard k) with v
              | |- context [qbranch ?k] => let v := eval vm_compute in (qbranch k) in change (qbranch k) with v
              end;
       let v := eval vm_compute in src_quantile_branch_test in change src_quantile_branch_test with v;
       destruct method;
       repeat match goal with
              | |- context [qarm ?e ?m] => let v := eval vm_compute in (qarm e m) in change (qarm e m) with v
              end;
       reflexivity).
  Qed.

  (* table shape: the final match has the four methods, each once; the early returns are for Lower and Higher only *)
  Theorem src_quantile_table_shape :
    map fst src_quantile_final = [SrcLinear; SrcLower; SrcHigher; SrcMidPoint] /\
    length src_quantile_branches = 2 /\ length src_quantile_guards = 2 /\
    forallb (fun e => match fst e with SrcLower | SrcHigher => true | _ => false end) src_quantile_desc_early = true.
  Proof. conformance "src_quantile_table_shape" (vm_compute; repeat split; reflexivity). Qed.

  (* ---- vpercentile_of ---- *)
  Definition pmethod_src (m : Quantile.pmethod) : src_pkind :=
    match m with Quantile.PRank => SrcRank | Quantile.PWeak => SrcWeak | Quantile.PStrict => SrcStrict end.
  Definition pkind_eqb (a b : src_pkind) : bool :=
    match a, b with SrcRank, SrcRank | SrcWeak, SrcWeak | SrcStrict, SrcStrict => true | _, _ => false end.
  Definition pkind_arm (k : src_pkind) : option (src_pnum * option (src_cmp * nat)) :=
    option_map (fun e => (snd (fst e), snd e)) (find (fun e => pkind_eqb (fst (fst e)) k) src_percentile_kinds).

  Definition bump (c : src_counter) (s : nat * nat * nat) : nat * nat * nat :=
    let '(l, e, t) := s in match c with CntLess => (S l, e, t) | CntEqual => (l, S e, t) end.
  (* `if value <c1> score { k1 += 1 } else if value <c2> score { k2 += 1 }` after `total_count += 1` *)
  Fixpoint count_arms (arms : list (src_cmp * src_counter)) (x sc : A) (s : nat * nat * nat) : nat * nat * nat :=
    match arms with
    | [] => s
    | (c, k) :: r => if cmp_num c x sc then bump k s else count_arms r x sc s
    end.
  Definition src_pct_counts (sc : A) (xs : list T) : nat * nat * nat :=
    fold_left (fun (c : nat * nat * nat) v =>
                 let '(l, e, t) := c in
                 if is_none v then c else
                 count_arms src_percentile_counting (unwrap v) sc (l, e, S t)) xs (0, 0, 0)%nat.

  Definition src_vpercentile_of (score : T) (method : Quantile.pmethod) (xs : list T) : A :=
    if is_none score then nnan else
    let '(lt, eq, tot) := src_pct_counts (unwrap score) xs in
    if (tot =? 0)%nat then nnan else
    match pkind_arm (pmethod_src method) with
    | Some (PNLess, None) => nofnat lt / nofnat tot
    | Some (PNLessEqual, None) => nofnat (lt + eq)%nat / nofnat tot
    | Some (PNRankAvg, Some (c, k)) =>
        if cmp_nat c eq k then
          let rank_start := (lt + 1)%nat in
          let rank_end := (rank_start + (eq - 1))%nat in
          (nofnat (rank_start + rank_end)%nat * Quantile.nhalf) / nofnat tot
        else nofnat (lt + eq)%nat / nofnat tot
    | _ => nnan
    end.

  Lemma src_pct_counts_conforms : forall sc xs, src_pct_counts sc xs = Quantile.pct_counts sc xs.
  Proof.
    conformance "src_pct_counts_conforms"
      (intros sc xs; unfold src_pct_counts, Quantile.pct_counts;
       let v := eval vm_compute in src_percentile_counting in change src_percentile_counting with v;
       apply (f_equal (fun f => fold_left f xs (0, 0, 0)%nat));
       reflexivity).
  Qed.
  Theorem src_vpercentile_of_conforms : forall score method xs,
    src_vpercentile_of score method xs = Quantile.vpercentile_of score method xs.
  Proof.
    conformance "src_vpercentile_of_conforms"
      (intros score method xs; unfold src_vpercentile_of, Quantile.vpercentile_of;
       rewrite src_pct_counts_conforms; destruct method;
       repeat match goal with
              | |- context [pkind_arm ?k] => let v := eval vm_compute in (pkind_arm k) in change (pkind_arm k) with v
              end;
       reflexivity).
  Qed.
End QuantileConf.
