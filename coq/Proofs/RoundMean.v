(* Proofs/RoundMean.v — rounding, continued (Proofs/RoundSum.v is the first part):
     (1) the MEANS at binary64: one more rounding, the division  sum / (n as f64).  `n as f64` is exact for
         n < 2^53; binary64 division CAN underflow, so the standard model of a correctly rounded operation is
              |fl(x) - x| <= u |x| + eta,      u = 2^-53,  eta = 2^-1075  (half the smallest subnormal)
         (Flocq: relative_error_N_FLT'_ex), and  eta  disappears when |x| >= 2^-1022 (relative_error_N_FLT).
         Hence   |vmean_float xs - mean (valid xs)| <= ((1+u)^(n+1) - 1) * (sum |x|) / n + eta
         for the one-pass `vmean` (Model/Agg.v) and, with the drift bound of the rolling sum carried through the
         division, for the rolling `ts_vmean_f` (Model/Features.v, `emit_mean`), and the quantitative history
         independence of the rolling mean.
     (2) exactness on a dyadic grid for ALL FOUR power sums of the rolling moment accumulator (`mom_add` /
         `mom_sub`): when every valid element is a multiple of 2^e and every window's fourth-power sum stays below
         2^(4e+53), no product and no addition / subtraction ever rounds; the float state IS the exact state
         (window-local premise: the history does not enter at all).
   Only executable premises about finiteness; no overflow premise (a finite output certifies it).          *)
From Coq Require Import Reals Lra Lia ZArith List Floats Psatz.
From Flocq Require Import Core Relative Plus_error BinarySingleNaN.
From Flocq Require PrimFloat.
From Coq Require Import Permutation.
From Tevec Require Import Base.Prelude Base.Num Base.XR Base.F64 Spec.Stats Spec.Stats2 Model.Driver Proofs.Driver
     Model.Features Proofs.Generic Model.Agg Proofs.AggGeneric Proofs.Sliding Proofs.Features Proofs.RoundSum
     Proofs.QIdxFloat.
Import ListNotations.
Local Open Scope R_scope.

Module FP := Flocq.IEEE754.PrimFloat.
Module CF := Coq.Floats.PrimFloat.

(* ===================================================================================================== *)
(* (1a) real level: a quotient of an approximate sum, rounded once more                                  *)
(* ===================================================================================================== *)
Lemma gam_S_prod u m : (1 + u) * (1 + gam u m) - 1 = gam u (S m).
Proof. unfold gam. cbn [pow]. ring. Qed.

(* s approximates S within g*H, |S| <= H, q is s/d rounded with relative error u and absolute error eta *)
Lemma quotient_error (u eta g s S0 H d q : R) :
  0 <= u -> 0 <= g -> 0 < d ->
  Rabs (s - S0) <= g * H -> Rabs S0 <= H ->
  Rabs (q - s / d) <= u * Rabs (s / d) + eta ->
  Rabs (q - S0 / d) <= ((1 + u) * (1 + g) - 1) * (H / d) + eta.
Proof.
  intros Hu Hg Hd Hs HS Hq.
  assert (Hid : 0 < / d) by (apply Rinv_0_lt_compat; exact Hd).
  assert (HH : 0 <= H) by (pose proof (Rabs_pos S0); lra).
  assert (Hsa : Rabs s <= (1 + g) * H).
  { replace s with ((s - S0) + S0) by ring. eapply Rle_trans; [apply Rabs_triang|]. lra. }
  assert (Hsd : Rabs (s / d) = Rabs s * / d).
  { unfold Rdiv. rewrite Rabs_mult, (Rabs_pos_eq (/ d)) by lra. reflexivity. }
  assert (Hdd : Rabs (s / d - S0 / d) = Rabs (s - S0) * / d).
  { replace (s / d - S0 / d) with ((s - S0) * / d) by (unfold Rdiv; ring).
    rewrite Rabs_mult, (Rabs_pos_eq (/ d)) by lra. reflexivity. }
  replace (q - S0 / d) with ((q - s / d) + (s / d - S0 / d)) by ring.
  eapply Rle_trans; [apply Rabs_triang|]. rewrite Hdd. rewrite Hsd in Hq.
  assert (H1 : Rabs s * / d <= (1 + g) * H * / d) by (apply Rmult_le_compat_r; lra).
  assert (H2 : Rabs (s - S0) * / d <= g * H * / d) by (apply Rmult_le_compat_r; lra).
  assert (H3 : u * (Rabs s * / d) <= u * ((1 + g) * H * / d)) by (apply Rmult_le_compat_l; lra).
  unfold Rdiv. nra.
Qed.

(* ===================================================================================================== *)
(* (1b) binary64: the error of ONE correctly rounded operation, underflow included; IEEE division        *)
(* ===================================================================================================== *)
Definition eta64 : R := bpow radix2 (-1075).            (* half the smallest positive subnormal 2^-1074 *)

Lemma eta64_pos : 0 < eta64.
Proof. apply bpow_gt_0. Qed.
Lemma eta64_value : eta64 = / IZR (2 ^ 1075).
Proof.
  unfold eta64. change (-1075)%Z with (- (1075))%Z. rewrite bpow_opp. reflexivity.
Qed.

(* |fl(x) - x| <= u |x| + eta for EVERY real x (gradual underflow) *)
Lemma rnd64_err x : Rabs (rnd64 x - x) <= u64 * Rabs x + eta64.
Proof.
  destruct (relative_error_N_FLT'_ex radix2 (-1074) 53 prec64_gt_0 (fun z => negb (Z.even z)) x)
    as (eps & eta & He & Ht & _ & Hr).
  unfold rnd64. change ZnearestE with (Znearest (fun z => negb (Z.even z))). rewrite Hr.
  replace (x * (1 + eps) + eta - x) with (x * eps + eta) by ring.
  eapply Rle_trans; [apply Rabs_triang|]. apply Rplus_le_compat.
  - rewrite Rabs_mult, Rmult_comm. apply Rmult_le_compat_r; [apply Rabs_pos|].
    eapply Rle_trans; [exact He|]. rewrite u64_is_u_ro.
    pose proof (u_ro_pos radix2 53) as Hu.
    apply Rle_trans with (u_ro radix2 53 / 1); [|lra].
    unfold Rdiv. apply Rmult_le_compat_l; [exact Hu|]. apply Rinv_le_contravar; lra.
  - eapply Rle_trans; [exact Ht|]. unfold eta64.
    change (-1075)%Z with (-1 + -1074)%Z. rewrite bpow_plus. change (bpow radix2 (-1)) with (/ 2). lra.
Qed.

(* ... and no absolute term when x is in the normal range *)
Lemma rnd64_err_normal x : bpow radix2 (-1022) <= Rabs x -> Rabs (rnd64 x - x) <= u64 * Rabs x.
Proof.
  intros Hx.
  pose proof (relative_error_N_FLT radix2 (-1074) 53 prec64_gt_0 (fun z => negb (Z.even z)) x Hx) as H.
  unfold rnd64. change ZnearestE with (Znearest (fun z => negb (Z.even z))).
  replace u64 with (/ 2 * bpow radix2 (- (53) + 1)); [exact H|].
  change (/ 2) with (bpow radix2 (-1)). rewrite <- bpow_plus. reflexivity.
Qed.

(* a finite quotient by a non-zero divisor has a finite dividend and is the correctly rounded exact quotient *)
Lemma div_finite_val x y :
  ffin (x / y)%float = true -> f2r y <> 0 ->
  ffin x = true /\ f2r (x / y)%float = rnd64 (f2r x / f2r y).
Proof.
  intros Hf Hy. rewrite !ffin_equiv in *. unfold f2r in *. rewrite FP.div_equiv in *.
  pose proof (Bdiv_correct FloatOps.prec FloatOps.emax FP.Hprec FP.Hmax mode_NE (FP.Prim2B x) (FP.Prim2B y) Hy) as HC.
  destruct (Rlt_bool _ _) in HC.
  - destruct HC as (HC & HF & _). split; [rewrite <- HF; exact Hf|exact HC].
  - exfalso. unfold binary_overflow in HC. cbn [overflow_to_inf] in HC.
    match type of HC with B2SF ?z = _ =>
      assert (HF : is_finite z = true) by exact Hf; clear Hf; destruct z; cbn [B2SF is_finite] in HC, HF; discriminate
    end.
Qed.

Lemma INR_IZR_nat n : IZR (Z.of_nat n) = INR n.
Proof. symmetry. apply INR_IZR_INZ. Qed.

(* sum / (n as f64), 1 <= n < 2^53 *)
Lemma div_count_val (s : float) (n : nat) :
  (1 <= n)%nat -> (Z.of_nat n < 2 ^ 53)%Z -> ffin (s / nofnat (A := float) n)%float = true ->
  ffin s = true /\ f2r (s / nofnat (A := float) n)%float = rnd64 (f2r s / INR n).
Proof.
  intros H1 Hn Hf. destruct (nofnat_f64_exact n Hn) as [_ Hv].
  assert (Hnz : f2r (nofnat (A := float) n) <> 0).
  { rewrite Hv, INR_IZR_nat. apply not_0_INR. lia. }
  destruct (div_finite_val _ _ Hf Hnz) as [Hs Hq]. split; [exact Hs|].
  rewrite Hq, Hv, INR_IZR_nat. reflexivity.
Qed.

(* the quotient of a float sum, against the exact mean: m rounded additions, then one rounded division *)
Lemma mean_of_fold_error (s : float) (n m : nat) (S0 H : R) :
  (1 <= n)%nat -> (Z.of_nat n < 2 ^ 53)%Z -> ffin (s / nofnat (A := float) n)%float = true ->
  Rabs (f2r s - S0) <= gam u64 m * H -> Rabs S0 <= H ->
  Rabs (f2r (s / nofnat (A := float) n)%float - S0 / INR n) <= gam u64 (S m) * (H / INR n) + eta64.
Proof.
  intros H1 Hn Hf Hs HS. destruct (div_count_val s n H1 Hn Hf) as [_ Hq]. rewrite Hq, <- gam_S_prod.
  apply (quotient_error u64 eta64 (gam u64 m) (f2r s) S0 H (INR n)); try assumption.
  - apply u64_nonneg.
  - apply gam_nonneg, u64_nonneg.
  - apply lt_0_INR. lia.
  - apply rnd64_err.
Qed.
Lemma mean_of_fold_error_normal (s : float) (n m : nat) (S0 H : R) :
  (1 <= n)%nat -> (Z.of_nat n < 2 ^ 53)%Z -> ffin (s / nofnat (A := float) n)%float = true ->
  bpow radix2 (-1022) <= Rabs (f2r s / INR n) ->
  Rabs (f2r s - S0) <= gam u64 m * H -> Rabs S0 <= H ->
  Rabs (f2r (s / nofnat (A := float) n)%float - S0 / INR n) <= gam u64 (S m) * (H / INR n).
Proof.
  intros H1 Hn Hf Hnorm Hs HS. destruct (div_count_val s n H1 Hn Hf) as [_ Hq]. rewrite Hq, <- gam_S_prod.
  rewrite <- (Rplus_0_r (_ * _)).
  apply (quotient_error u64 0 (gam u64 m) (f2r s) S0 H (INR n)); try assumption.
  - apply u64_nonneg.
  - apply gam_nonneg, u64_nonneg.
  - apply lt_0_INR. lia.
  - rewrite Rplus_0_r. apply rnd64_err_normal, Hnorm.
Qed.

(* ===================================================================================================== *)
(* (1c) the one-pass mean `vmean` of Model/Agg.v at NumF64 (the sum is accumulated in f64, cast = identity) *)
(* ===================================================================================================== *)
Definition idf64 (x : float) : float := x.
Notation vmean64 xs := (vmean (NA := NumF64) (DT := IsNoneF64) (NF := NumF64) idf64 xs).

Lemma vmean_f64_fold xs :
  vmean64 xs = if 1 <=? length (fvals xs)
               then (ffold zero (fvals xs) / nofnat (A := float) (length (fvals xs)))%float else nan.
Proof. unfold vmean. rewrite vfold_n_spec. reflexivity. Qed.

Lemma vmean_finite_count xs : ffin (vmean64 xs) = true -> (1 <= length (fvals xs))%nat.
Proof.
  rewrite vmean_f64_fold. destruct (1 <=? length (fvals xs)) eqn:E; [intros _; apply Nat.leb_le, E|].
  intros H. vm_compute in H. discriminate.
Qed.

(* C11: |vmean_float xs - mean of the valid elements| <= ((1+u)^(n+1) - 1) * (sum |valid|) / n + eta *)
Theorem vmean_binary64_error xs :
  ffin (vmean64 xs) = true -> (Z.of_nat (length (fvals xs)) < 2 ^ 53)%Z ->
  Rabs (f2r (vmean64 xs) - meanR (rvals64 xs))
  <= gam u64 (S (length (rvals64 xs))) * (sumabs (rvals64 xs) / INR (length (rvals64 xs))) + eta64.
Proof.
  intros Hf Hn. pose proof (vmean_finite_count xs Hf) as H1.
  rewrite vmean_f64_fold in *. replace (1 <=? length (fvals xs)) with true in * by (symmetry; apply Nat.leb_le, H1).
  unfold meanR, nR, rvals64. rewrite map_length. fold (rvals64 xs).
  apply mean_of_fold_error; try assumption.
  - destruct (div_count_val _ _ H1 Hn Hf) as [Hs _].
    pose proof (round_sum_fold (fvals xs) Hs) as HE. exact HE.
  - apply sumR_le_sumabs.
Qed.

(* without the absolute term when the computed quotient is in the normal range *)
Theorem vmean_binary64_error_normal xs :
  ffin (vmean64 xs) = true -> (Z.of_nat (length (fvals xs)) < 2 ^ 53)%Z ->
  bpow radix2 (-1022) <= Rabs (f2r (ffold zero (fvals xs)) / INR (length (fvals xs))) ->
  Rabs (f2r (vmean64 xs) - meanR (rvals64 xs))
  <= gam u64 (S (length (rvals64 xs))) * (sumabs (rvals64 xs) / INR (length (rvals64 xs))).
Proof.
  intros Hf Hn Hnorm. pose proof (vmean_finite_count xs Hf) as H1.
  rewrite vmean_f64_fold in *. replace (1 <=? length (fvals xs)) with true in * by (symmetry; apply Nat.leb_le, H1).
  unfold meanR, nR, rvals64. rewrite map_length. fold (rvals64 xs).
  apply mean_of_fold_error_normal; try assumption.
  - destruct (div_count_val _ _ H1 Hn Hf) as [Hs _].
    pose proof (round_sum_fold (fvals xs) Hs) as HE. exact HE.
  - apply sumR_le_sumabs.
Qed.

(* explicit constant (n+1) u (1+u)^(n+1) *)
Corollary vmean_binary64_error_linear xs :
  ffin (vmean64 xs) = true -> (Z.of_nat (length (fvals xs)) < 2 ^ 53)%Z ->
  Rabs (f2r (vmean64 xs) - meanR (rvals64 xs))
  <= INR (S (length (rvals64 xs))) * u64 * (1 + u64) ^ S (length (rvals64 xs))
     * (sumabs (rvals64 xs) / INR (length (rvals64 xs))) + eta64.
Proof.
  intros Hf Hn. eapply Rle_trans; [apply (vmean_binary64_error xs Hf Hn)|].
  apply Rplus_le_compat_r. apply Rmult_le_compat_r; [|apply gam_le_linear, u64_nonneg].
  pose proof (vmean_finite_count xs Hf) as H1.
  apply Rmult_le_pos; [apply sumabs_nonneg|]. apply Rlt_le, Rinv_0_lt_compat, lt_0_INR.
  unfold rvals64. rewrite map_length. lia.
Qed.

(* a finite mean certifies that every valid element was finite *)
Lemma vmean_finite_inputs xs :
  ffin (vmean64 xs) = true -> (Z.of_nat (length (fvals xs)) < 2 ^ 53)%Z ->
  Forall (fun y => ffin y = true) (fvals xs).
Proof.
  intros Hf Hn. pose proof (vmean_finite_count xs Hf) as H1.
  rewrite vmean_f64_fold in Hf. replace (1 <=? length (fvals xs)) with true in * by (symmetry; apply Nat.leb_le, H1).
  destruct (div_count_val _ _ H1 Hn Hf) as [Hs _]. apply (ffold_finite_inv _ _ Hs).
Qed.

(* against the exact model on the same series *)
Lemma vmean_XR_of_float xs :
  vmean (NA := NumXR) (DT := IsNoneXR) (NF := NumXR) (fun x => x) (map fx xs)
  = if (length (rvals64 xs) =? 0)%nat then None else Some (meanR (rvals64 xs)).
Proof.
  unfold vmean. rewrite vfold_n_spec, vals_map_fx, map_length. cbn [fst snd].
  change (@nzero XR NumXR) with (Some 0). rewrite fold_xadd_some, Rplus_0_l.
  destruct (length (rvals64 xs)) as [|k] eqn:E; [reflexivity|].
  cbn [Nat.leb Nat.eqb]. rewrite xofnat, xdiv_some by (apply not_0_INR; lia). unfold meanR, nR. rewrite E. reflexivity.
Qed.

Theorem vmean_float_vs_exact_model xs :
  ffin (vmean64 xs) = true -> (Z.of_nat (length (fvals xs)) < 2 ^ 53)%Z ->
  exists e, vmean (NA := NumXR) (DT := IsNoneXR) (NF := NumXR) (fun x => x) (map fx xs) = Some e /\
            Rabs (f2r (vmean64 xs) - e)
            <= gam u64 (S (length (rvals64 xs))) * (sumabs (rvals64 xs) / INR (length (rvals64 xs))) + eta64.
Proof.
  intros Hf Hn. exists (meanR (rvals64 xs)). split; [|apply (vmean_binary64_error xs Hf Hn)].
  rewrite vmean_XR_of_float. pose proof (vmean_finite_count xs Hf) as H1.
  unfold rvals64. rewrite map_length. destruct (length (fvals xs)); [lia|reflexivity].
Qed.

(* ===================================================================================================== *)
(* (1d) the rolling mean `ts_vmean_f` at NumF64: add -> emit (sum / n) -> remove                          *)
(* ===================================================================================================== *)
Notation ts_vmean64 w mp := (ts_vmean_f (NA := NumF64) (DT := IsNoneF64) w mp).

(* the state behind output i of ANY moment feature: its first power sum is the float fold over the operands in
   program order, its count is the number of valid elements of the window *)
Lemma mom_emit_state (emit : @mom float -> float) w body xs i v :
  (1 <= w)%nat -> nth_error xs i = Some v ->
  exists s : @mom float,
    nth_error (ts_out (mom_feat (NA := NumF64) (DT := IsNoneF64) emit) body w xs) i = Some (emit s) /\
    m_s1 s = ffold zero (emit_ops w xs i) /\ m_n s = length (fvals (win w i xs)).
Proof.
  intros Hw Hv.
  assert (Hi : (i < length xs)%nat) by (apply nth_error_Some; rewrite Hv; discriminate).
  assert (Ha : nth_error (rargs w xs) i = Some (removed w xs i, v)).
  { unfold rargs. rewrite nth_error_mapi, Hv. reflexivity. }
  set (s0 := state_after (feat_cb (mom_feat (NA := NumF64) (DT := IsNoneF64) emit)) mom0 (firstn i (rargs w xs))).
  exists (mom_pre s0 v). split; [|split].
  - unfold ts_out. rewrite ts_run_iter by exact Hw. fold (rargs w xs).
    rewrite (@run_nth _ _ _ _ _ _ _ _ Ha). reflexivity.
  - unfold emit_ops. rewrite Hv, ffold_app.
    assert (Hs : m_s1 s0 = ffold zero (ops_of (firstn i (rargs w xs))))
      by exact (s1_state_after emit mom0 (firstn i (rargs w xs))).
    rewrite <- Hs. exact (s1_pre emit s0 v).
  - pose proof (cnt_state_after emit w xs i Hw ltac:(lia)) as HC.
    change (cnt_abs s0 (seg (i - (w - 1)) i xs)) in HC.
    unfold cnt_abs in HC.
    rewrite win_seg. unfold wstart. replace (S i - w)%nat with (i - (w - 1))%nat by lia.
    rewrite (@seg_snoc _ (i - (w - 1)) i xs v) by (try lia; exact Hv).
    rewrite fvals_app, fvals_single, app_length, <- HC.
    unfold mom_pre, addop. destruct (not_none v); cbn [mom_add m_n length]; lia.
Qed.

Lemma win_length_le {X} w i (xs : list X) : (1 <= w)%nat -> (length (win w i xs) <= w)%nat.
Proof.
  intros Hw. rewrite win_seg. unfold seg, wstart. rewrite firstn_length. lia.
Qed.

(* the quotient behind a finite output i *)
Lemma ts_vmean_output w mp body xs i o :
  (1 <= w)%nat -> nth_error (ts_out (ts_vmean64 w mp) body w xs) i = Some o -> ffin o = true ->
  (i < length xs)%nat /\ (1 <= length (fvals (win w i xs)))%nat /\
  o = (ffold zero (emit_ops w xs i) / nofnat (A := float) (length (fvals (win w i xs))))%float.
Proof.
  intros Hw Ho Hf.
  assert (Hi : (i < length xs)%nat).
  { destruct (ts_run_total (ts_vmean64 w mp) w xs body Hw) as (out & Hrun & Hlen).
    unfold ts_out in Ho. rewrite Hrun in Ho. rewrite <- Hlen. apply nth_error_Some. rewrite Ho. discriminate. }
  split; [exact Hi|].
  destruct (nth_error xs i) as [v|] eqn:Hv; [|apply nth_error_None in Hv; lia].
  destruct (mom_emit_state (emit_mean (mp_eff mp w 0)) w body xs i v Hw Hv) as (s & Hs & Hs1 & Hn).
  change (mom_feat (emit_mean (mp_eff mp w 0))) with (ts_vmean64 w mp) in Hs.
  rewrite Hs in Ho. injection Ho as <-. unfold emit_mean in *. rewrite Hn, Hs1 in *.
  destruct (mp_eff mp w 0 <=? length (fvals (win w i xs))); [|vm_compute in Hf; discriminate].
  split; [|reflexivity].
  destruct (length (fvals (win w i xs))) as [|k]; [|lia].
  (* a zero count: x / 0 is never finite *)
  exfalso. change (nofnat (A := float) 0) with zero in Hf.
  rewrite ffin_equiv, FP.div_equiv in Hf. change (FP.Prim2B zero) with (FP.Prim2B (FP.B2Prim (B754_zero false))) in Hf.
  rewrite FP.Prim2B_B2Prim in Hf. destruct (FP.Prim2B (ffold zero (emit_ops w xs i))) as [sx|sx| |sx mx ex Hx];
    cbn [Bdiv is_finite] in Hf; discriminate.
Qed.

Lemma sumabs_win_le_habs w xs i : sumabs (rvals64 (win w i xs)) <= habs w xs i.
Proof.
  unfold habs. rewrite win_seg. unfold wstart.
  destruct (Nat.le_gt_cases (S i - w) (S i)) as [H|H]; [|lia].
  rewrite (firstn_seg_split (S i - w) (S i) xs H), rvals64_app, sumabs_app.
  pose proof (sumabs_nonneg (rvals64 (firstn (S i - w) xs))). lra.
Qed.

(* C01 / C06: after ANY history the emitted mean differs from the exact window mean by at most
   ((1+u)^(m+1) - 1) * H / n + eta;  m = additions and subtractions performed so far, H = magnitude they moved *)
Theorem ts_vmean_binary64_error w mp body xs i o :
  (1 <= w)%nat -> (Z.of_nat w < 2 ^ 53)%Z ->
  nth_error (ts_out (ts_vmean64 w mp) body w xs) i = Some o -> ffin o = true ->
  Rabs (f2r o - meanR (rvals64 (win w i xs)))
  <= gam u64 (S (nops w xs i)) * (habs w xs i / INR (length (rvals64 (win w i xs)))) + eta64.
Proof.
  intros Hw Hw53 Ho Hf. destruct (ts_vmean_output w mp body xs i o Hw Ho Hf) as (Hi & H1 & ->).
  assert (Hn : (Z.of_nat (length (fvals (win w i xs))) < 2 ^ 53)%Z).
  { pose proof (length_fvals_le (win w i xs)). pose proof (win_length_le w i xs Hw). lia. }
  assert (Hlen : length (rvals64 (win w i xs)) = length (fvals (win w i xs))) by (unfold rvals64; apply map_length).
  unfold meanR, nR. rewrite Hlen.
  apply mean_of_fold_error; try assumption.
  - destruct (div_count_val _ _ H1 Hn Hf) as [Hs _].
    rewrite <- (emit_ops_sum w xs i Hw Hi), <- (emit_ops_length w xs i Hw Hi), <- (emit_ops_sumabs w xs i Hw Hi).
    apply round_sum_fold, Hs.
  - eapply Rle_trans; [apply sumR_le_sumabs|apply sumabs_win_le_habs].
Qed.

(* the drift is bounded by the number of operations: at most 2i+1 of them (+ the division), moving at most twice
   the history *)
Corollary ts_vmean_binary64_drift w mp body xs i o :
  (1 <= w)%nat -> (Z.of_nat w < 2 ^ 53)%Z ->
  nth_error (ts_out (ts_vmean64 w mp) body w xs) i = Some o -> ffin o = true ->
  Rabs (f2r o - meanR (rvals64 (win w i xs)))
  <= INR (2 * i + 2) * u64 * (1 + u64) ^ (2 * i + 2)
     * (2 * sumabs (rvals64 (firstn (S i) xs)) / INR (length (rvals64 (win w i xs)))) + eta64.
Proof.
  intros Hw Hw53 Ho Hf. eapply Rle_trans; [apply (ts_vmean_binary64_error w mp body xs i o Hw Hw53 Ho Hf)|].
  apply Rplus_le_compat_r.
  destruct (ts_vmean_output w mp body xs i o Hw Ho Hf) as (Hi & H1 & _).
  assert (Hc : 0 < / INR (length (rvals64 (win w i xs)))).
  { apply Rinv_0_lt_compat, lt_0_INR. unfold rvals64. rewrite map_length. lia. }
  pose proof (gam_nonneg u64 (S (nops w xs i)) u64_nonneg) as G0.
  assert (Hle : (S (nops w xs i) <= 2 * i + 2)%nat) by (pose proof (nops_le w xs i Hw); lia).
  pose proof (gam_mono u64 _ _ u64_nonneg Hle) as G1.
  pose proof (gam_le_linear u64 (2 * i + 2) u64_nonneg) as G2.
  pose proof (habs_le w xs i) as H2.
  assert (H0 : 0 <= habs w xs i).
  { unfold habs. pose proof (sumabs_nonneg (rvals64 (firstn (S i) xs))).
    pose proof (sumabs_nonneg (rvals64 (firstn (S i - w) xs))). lra. }
  apply Rmult_le_compat; try lra.
  - unfold Rdiv. apply Rmult_le_pos; lra.
  - unfold Rdiv. apply Rmult_le_compat_r; lra.
Qed.

(* without the absolute term when the computed quotient is in the normal range *)
Theorem ts_vmean_binary64_error_normal w mp body xs i o :
  (1 <= w)%nat -> (Z.of_nat w < 2 ^ 53)%Z ->
  nth_error (ts_out (ts_vmean64 w mp) body w xs) i = Some o -> ffin o = true ->
  bpow radix2 (-1022) <= Rabs (f2r (ffold zero (emit_ops w xs i)) / INR (length (fvals (win w i xs)))) ->
  Rabs (f2r o - meanR (rvals64 (win w i xs)))
  <= gam u64 (S (nops w xs i)) * (habs w xs i / INR (length (rvals64 (win w i xs)))).
Proof.
  intros Hw Hw53 Ho Hf Hnorm. destruct (ts_vmean_output w mp body xs i o Hw Ho Hf) as (Hi & H1 & ->).
  assert (Hn : (Z.of_nat (length (fvals (win w i xs))) < 2 ^ 53)%Z).
  { pose proof (length_fvals_le (win w i xs)). pose proof (win_length_le w i xs Hw). lia. }
  assert (Hlen : length (rvals64 (win w i xs)) = length (fvals (win w i xs))) by (unfold rvals64; apply map_length).
  unfold meanR, nR. rewrite Hlen.
  apply mean_of_fold_error_normal; try assumption.
  - destruct (div_count_val _ _ H1 Hn Hf) as [Hs _].
    rewrite <- (emit_ops_sum w xs i Hw Hi), <- (emit_ops_length w xs i Hw Hi), <- (emit_ops_sumabs w xs i Hw Hi).
    apply round_sum_fold, Hs.
  - eapply Rle_trans; [apply sumR_le_sumabs|apply sumabs_win_le_habs].
Qed.

(* C06, quantitatively, for the mean: two histories followed by the same window *)
Theorem ts_vmean_history_independence_up_to_rounding w mp body1 body2 xs ys i j o1 o2 :
  (1 <= w)%nat -> (Z.of_nat w < 2 ^ 53)%Z -> win w i xs = win w j ys ->
  nth_error (ts_out (ts_vmean64 w mp) body1 w xs) i = Some o1 ->
  nth_error (ts_out (ts_vmean64 w mp) body2 w ys) j = Some o2 ->
  ffin o1 = true -> ffin o2 = true ->
  Rabs (f2r o1 - f2r o2)
  <= (gam u64 (S (nops w xs i)) * habs w xs i + gam u64 (S (nops w ys j)) * habs w ys j)
     / INR (length (rvals64 (win w j ys))) + 2 * eta64.
Proof.
  intros Hw Hw53 HW H1 H2 F1 F2.
  pose proof (ts_vmean_binary64_error w mp body1 xs i o1 Hw Hw53 H1 F1) as E1.
  pose proof (ts_vmean_binary64_error w mp body2 ys j o2 Hw Hw53 H2 F2) as E2.
  rewrite HW in E1. set (M := meanR (rvals64 (win w j ys))) in *.
  replace (f2r o1 - f2r o2) with ((f2r o1 - M) + - (f2r o2 - M)) by ring.
  eapply Rle_trans; [apply Rabs_triang|]. rewrite Rabs_Ropp. unfold Rdiv in *. lra.
Qed.

(* ===================================================================================================== *)
(* (2) exactness on a dyadic grid for the power sums of the moment accumulator                           *)
(* ===================================================================================================== *)
(* ---- (2a) reals: powers of grid points ------------------------------------------------------------- *)
Lemma grid_mult a b x y : grid a x -> grid b y -> grid (a + b) (x * y).
Proof. intros (m & ->) (n & ->). exists (m * n)%Z. rewrite mult_IZR, bpow_plus. ring. Qed.

Lemma grid_pow e x k : grid e x -> grid (Z.of_nat k * e) (x ^ k).
Proof.
  intros G. induction k as [|k IH].
  - exists 1%Z. cbn [pow Z.of_nat Z.mul bpow]. ring.
  - replace (Z.of_nat (S k) * e)%Z with (e + Z.of_nat k * e)%Z by lia. cbn [pow]. apply grid_mult; assumption.
Qed.

Lemma grid_sumR g l : Forall (grid g) l -> grid g (sumR l).
Proof.
  induction 1 as [|a l Ha _ IH]; [apply grid_0|]. rewrite sumR_cons. apply grid_plus; assumption.
Qed.
Lemma grid_psum e k l : Forall (grid e) l -> grid (Z.of_nat k * e) (psum k l).
Proof.
  intros H. unfold psum. apply grid_sumR. apply Forall_map. eapply Forall_impl; [|exact H].
  intros a Ha. apply grid_pow, Ha.
Qed.

Lemma bpow_nat_mul e n : bpow radix2 e ^ n = bpow radix2 (Z.of_nat n * e).
Proof.
  induction n as [|n IH]; [reflexivity|].
  replace (Z.of_nat (S n) * e)%Z with (e + Z.of_nat n * e)%Z by lia. rewrite bpow_plus, <- IH. reflexivity.
Qed.

(* sum of |x^k| *)
Definition spow (k : nat) (l : list R) : R := sumabs (map (fun x => x ^ k) l).

Lemma spow_nonneg k l : 0 <= spow k l.
Proof. apply sumabs_nonneg. Qed.
Lemma spow_cons k x l : spow k (x :: l) = Rabs (x ^ k) + spow k l.
Proof. reflexivity. Qed.
Lemma spow_app k l1 l2 : spow k (l1 ++ l2) = spow k l1 + spow k l2.
Proof. unfold spow. rewrite map_app. apply sumabs_app. Qed.
Lemma psum_le_spow k l : Rabs (psum k l) <= spow k l.
Proof. apply sumR_le_sumabs. Qed.

(* an integer is 0 or at least 1 in magnitude: lower powers are dominated by higher ones *)
Lemma int_pow_le (m : Z) (k K : nat) : (1 <= k <= K)%nat -> Rabs (IZR m) ^ k <= Rabs (IZR m) ^ K.
Proof.
  intros Hk. destruct (Z.eq_dec m 0) as [->|Hm].
  - rewrite Rabs_R0, !pow_ne_zero by lia. lra.
  - apply Rle_pow; [|lia]. rewrite <- abs_IZR. apply (IZR_le 1). lia.
Qed.

Lemma grid_pow_le e x k K :
  (1 <= k <= K)%nat -> grid e x -> Rabs (x ^ k) * bpow radix2 e ^ (K - k) <= Rabs (x ^ K).
Proof.
  intros Hk (m & ->). pose proof (bpow_gt_0 radix2 e) as Ht. set (t := bpow radix2 e) in *.
  rewrite !Rpow_mult_distr, !Rabs_mult, <- !RPow_abs, (Rabs_pos_eq t) by lra.
  assert (HtK : t ^ K = t ^ k * t ^ (K - k)) by (rewrite <- pow_add; f_equal; lia).
  rewrite HtK, Rmult_assoc.
  apply Rmult_le_compat_r; [|apply int_pow_le, Hk].
  apply Rmult_le_pos; apply pow_le; lra.
Qed.

Lemma spow_le e l k K :
  (1 <= k <= K)%nat -> Forall (grid e) l -> spow k l * bpow radix2 e ^ (K - k) <= spow K l.
Proof.
  intros Hk. induction 1 as [|a l Ha _ IH]; [unfold spow, sumabs; cbn; lra|].
  rewrite !spow_cons, Rmult_plus_distr_r. pose proof (grid_pow_le e a k K Hk Ha). lra.
Qed.

(* the K-th power bound implies every lower one (K e + 53 against k e + 53) *)
Lemma spow_bound e l k K :
  (1 <= k <= K)%nat -> Forall (grid e) l ->
  spow K l < bpow radix2 (Z.of_nat K * e + 53) -> spow k l < bpow radix2 (Z.of_nat k * e + 53).
Proof.
  intros Hk HG Hb. pose proof (spow_le e l k K Hk HG) as H.
  assert (Ht : 0 < bpow radix2 e ^ (K - k)) by (apply pow_lt, bpow_gt_0).
  apply (Rmult_lt_reg_r (bpow radix2 e ^ (K - k))); [exact Ht|].
  eapply Rle_lt_trans; [exact H|]. eapply Rlt_le_trans; [exact Hb|]. apply Req_le.
  rewrite bpow_nat_mul, <- bpow_plus. f_equal. rewrite Nat2Z.inj_sub by lia. ring.
Qed.

Definition erange (K : nat) (e : Z) : Prop := (-1074 <= Z.of_nat K * e)%Z /\ (Z.of_nat K * e + 53 <= 1024)%Z.
Lemma erange_le K k e : (1 <= k <= K)%nat -> erange K e -> erange k e.
Proof.
  unfold erange. intros Hk [H1 H2].
  assert (Hz : (1 <= Z.of_nat k <= Z.of_nat K)%Z) by lia.
  set (zk := Z.of_nat k) in *. set (zK := Z.of_nat K) in *. clearbody zk zK.
  destruct (Z_le_gt_dec 0 e) as [He|He].
  - assert (0 <= zk * e)%Z by (apply Z.mul_nonneg_nonneg; lia).
    assert (zk * e <= zK * e)%Z by (apply Z.mul_le_mono_nonneg_r; lia). lia.
  - assert (zK * e <= zk * e)%Z by (apply Z.mul_le_mono_nonpos_r; lia).
    assert (zk * e <= 0)%Z by (apply Z.mul_nonneg_nonpos; lia). lia.
Qed.

(* ---- (2b) binary64: exact products and exact accumulation of grid points --------------------------- *)
(* an exactly representable product below the overflow threshold is computed exactly and is finite *)
Lemma mul_exact x y :
  ffin x = true -> ffin y = true -> fmt64 (f2r x * f2r y) -> Rabs (f2r x * f2r y) < bpow radix2 1024 ->
  ffin (x * y)%float = true /\ f2r (x * y)%float = f2r x * f2r y.
Proof.
  intros Hx Hy HF HB. rewrite ffin_equiv in *. unfold f2r in *. rewrite FP.mul_equiv.
  pose proof (Bmult_correct FloatOps.prec FloatOps.emax FP.Hprec FP.Hmax mode_NE (FP.Prim2B x) (FP.Prim2B y)) as HC.
  match type of HC with context [round ?a ?b ?c ?d] =>
    assert (Hr : round a b c d = d) by exact (rnd64_id _ HF); rewrite Hr in HC end.
  rewrite Rlt_bool_true in HC by exact HB.
  destruct HC as (H1 & H2 & _). rewrite H2, Hx, Hy. split; [reflexivity|exact H1].
Qed.

Lemma mul_exact_grid a b x y :
  (-1074 <= a + b)%Z -> (a + b + 53 <= 1024)%Z -> fgrid a x -> fgrid b y ->
  Rabs (f2r x * f2r y) < bpow radix2 (a + b + 53) ->
  fgrid (a + b) (x * y)%float /\ f2r (x * y)%float = f2r x * f2r y.
Proof.
  intros Hlo Hhi [Fx Gx] [Fy Gy] Hb.
  destruct (mul_exact x y Fx Fy) as [H1 H2].
  - apply (grid_fmt (a + b)); [exact Hlo|apply grid_mult; assumption|exact Hb].
  - eapply Rlt_le_trans; [exact Hb|apply bpow_le; exact Hhi].
  - split; [split; [exact H1|rewrite H2; apply grid_mult; assumption]|exact H2].
Qed.

(* the three products of `mom_add` / `mom_sub` for one grid element whose K-th power is in range *)
Lemma elem_pows e K (v : float) :
  (1 <= K)%nat -> erange K e -> fgrid e v -> Rabs (f2r v ^ K) < bpow radix2 (Z.of_nat K * e + 53) ->
  let v2 := (v * v)%float in
  ((2 <= K)%nat -> ffin v2 = true /\ f2r v2 = f2r v ^ 2) /\
  ((3 <= K)%nat -> ffin (v2 * v)%float = true /\ f2r (v2 * v)%float = f2r v ^ 3) /\
  ((4 <= K)%nat -> ffin (v2 * v2)%float = true /\ f2r (v2 * v2)%float = f2r v ^ 4).
Proof.
  intros HK HR Gv Hb v2. pose proof Gv as [Fv Gx]. set (x := f2r v) in *.
  assert (HB : forall k, (1 <= k <= K)%nat -> Rabs (x ^ k) < bpow radix2 (Z.of_nat k * e + 53)).
  { intros k Hk. pose proof (spow_bound e [x] k K Hk (Forall_cons _ Gx (Forall_nil _))) as H.
    unfold spow, sumabs in H. cbn [map sumR fold_right] in H. rewrite !Rplus_0_r in H. apply H, Hb. }
  assert (HE : forall k, (1 <= k <= K)%nat -> erange k e) by (intros k Hk; apply (erange_le K); assumption).
  assert (P2 : (2 <= K)%nat -> fgrid (e + e) v2 /\ f2r v2 = x * x).
  { intros H2. destruct (HE 2%nat ltac:(lia)) as [E1 E2]. pose proof (HB 2%nat ltac:(lia)) as B2.
    apply mul_exact_grid; try assumption; try lia.
    fold x. replace (e + e + 53)%Z with (Z.of_nat 2 * e + 53)%Z by lia. replace (x * x) with (x ^ 2) by ring. exact B2. }
  split; [|split].
  - intros H2. destruct (P2 H2) as [[F2 _] V2]. split; [exact F2|]. rewrite V2. ring.
  - intros H3. destruct (P2 ltac:(lia)) as [G2 V2].
    destruct (HE 3%nat ltac:(lia)) as [E1 E2]. pose proof (HB 3%nat ltac:(lia)) as B3.
    destruct (mul_exact_grid (e + e) e v2 v) as [[F3 _] V3]; try assumption; try lia.
    + rewrite V2. fold x. replace (e + e + e + 53)%Z with (Z.of_nat 3 * e + 53)%Z by lia.
      replace (x * x * x) with (x ^ 3) by ring. exact B3.
    + split; [exact F3|]. rewrite V3, V2. fold x. ring.
  - intros H4. destruct (P2 ltac:(lia)) as [G2 V2].
    destruct (HE 4%nat ltac:(lia)) as [E1 E2]. pose proof (HB 4%nat ltac:(lia)) as B4.
    destruct (mul_exact_grid (e + e) (e + e) v2 v2) as [[F4 _] V4]; try assumption; try lia.
    + rewrite V2. fold x. replace (e + e + (e + e) + 53)%Z with (Z.of_nat 4 * e + 53)%Z by lia.
      replace (x * x * (x * x)) with (x ^ 4) by ring. exact B4.
    + split; [exact F4|]. rewrite V4, V2. fold x. ring.
Qed.

(* one exact accumulation step: the new value is the k-th power sum of a list dominated by a list in range *)
Lemma acc_core e K k (a q : float) (Lbig Lres : list R) :
  erange K e -> (1 <= k <= K)%nat ->
  Forall (grid e) Lbig -> spow K Lbig < bpow radix2 (Z.of_nat K * e + 53) ->
  Forall (grid e) Lres -> spow k Lres <= spow k Lbig ->
  ffin a = true -> ffin q = true -> f2r a + f2r q = psum k Lres ->
  ffin (a + q)%float = true /\ f2r (a + q)%float = psum k Lres.
Proof.
  intros HR Hk GB HB GR Hle Fa Fq Hv.
  destruct (erange_le K k e Hk HR) as [E1 E2].
  pose proof (spow_bound e Lbig k K Hk GB HB) as Hb. pose proof (psum_le_spow k Lres) as Hp.
  assert (Hlt : Rabs (psum k Lres) < bpow radix2 (Z.of_nat k * e + 53)) by lra.
  rewrite <- Hv in *.
  apply add_exact; try assumption.
  - apply (grid_fmt (Z.of_nat k * e)); [exact E1|rewrite Hv; apply grid_psum, GR|exact Hlt].
  - eapply Rlt_le_trans; [exact Hlt|apply bpow_le; exact E2].
Qed.

(* ---- (2c) the generic sliding invariant, with preservation required only on the windows of the run ---- *)
Section SlidingOn.
  Context {T St O : Type}.
  Variable F : feat T St O.
  Variable Abs : St -> list T -> Prop.
  Variable Good : list T -> Prop.
  Hypothesis Abs_init : Abs (f_init F) [].
  Hypothesis Abs_pre : forall s l v, Good (l ++ [v]) -> Abs s l -> Abs (f_pre F s v) (l ++ [v]).
  Hypothesis Abs_post : forall s x l, Good (x :: l) -> Abs s (x :: l) -> Abs (f_post F s (Some x)) l.
  Hypothesis post_none : forall s, f_post F s None = s.
  Variable w : nat.
  Hypothesis Hw : (1 <= w)%nat.
  Variable xs : list T.
  Hypothesis Good_win : forall i, (i < length xs)%nat -> Good (win w i xs).

  Let args := mapi (fun i v => (removed w xs i, v)) xs.

  Lemma win_as_seg k : win w k xs = seg (k - (w - 1)) (S k) xs.
  Proof. rewrite win_seg. unfold wstart. f_equal. lia. Qed.

  Lemma state_after_abs_on k :
    (k <= length xs)%nat ->
    Abs (state_after (feat_cb F) (f_init F) (firstn k args)) (seg (k - (w - 1)) k xs).
  Proof.
    induction k as [|k IH]; intros Hk.
    - rewrite Nat.sub_0_l, seg_nil. cbn. exact Abs_init.
    - specialize (IH ltac:(lia)).
      destruct (nth_error xs k) as [v|] eqn:Hv; [|apply nth_error_None in Hv; lia].
      assert (Ha : nth_error args k = Some (removed w xs k, v)).
      { unfold args. rewrite nth_error_mapi, Hv. reflexivity. }
      rewrite (firstn_S_nth _ _ _ Ha), state_after_app. cbn [state_after feat_cb fst snd].
      set (s := state_after (feat_cb F) (f_init F) (firstn k args)) in *.
      pose proof (Good_win k ltac:(lia)) as HG. rewrite win_as_seg in HG.
      assert (Hpre : Abs (f_pre F s v) (seg (k - (w - 1)) (S k) xs)).
      { rewrite (@seg_snoc _ (k - (w - 1)) k xs v) in * by (try lia; exact Hv). apply Abs_pre; assumption. }
      unfold removed. destruct (k <? w - 1)%nat eqn:E.
      + apply Nat.ltb_lt in E. rewrite post_none.
        replace (S k - (w - 1))%nat with (k - (w - 1))%nat by lia. exact Hpre.
      + apply Nat.ltb_ge in E.
        destruct (nth_error xs (k - (w - 1))) as [x|] eqn:Hx; [|apply nth_error_None in Hx; lia].
        rewrite (@seg_cons _ (k - (w - 1)) (S k) xs x) in Hpre, HG by (try lia; exact Hx).
        replace (S k - (w - 1))%nat with (S (k - (w - 1))) by lia.
        apply Abs_post; assumption.
  Qed.

  Theorem sliding_emit_on body i v :
    nth_error xs i = Some v ->
    exists s, Abs s (win w i xs) /\ nth_error (ts_out F body w xs) i = Some (f_emit F s).
  Proof.
    intros Hv.
    assert (Hi : (i < length xs)%nat) by (apply nth_error_Some; congruence).
    exists (f_pre F (state_after (feat_cb F) (f_init F) (firstn i args)) v). split.
    - pose proof (Good_win i Hi) as HG. rewrite win_as_seg in *.
      rewrite (@seg_snoc _ (i - (w - 1)) i xs v) in * by (try lia; exact Hv).
      apply Abs_pre; [exact HG|]. apply state_after_abs_on. lia.
    - unfold ts_out. rewrite ts_run_iter by exact Hw. fold args.
      rewrite (@run_nth _ _ _ (feat_cb F) (f_init F) args i (removed w xs i, v)).
      + reflexivity.
      + unfold args. rewrite nth_error_mapi, Hv. reflexivity.
  Qed.
End SlidingOn.

(* ---- (2d) the moment accumulator at NumF64 on a grid ------------------------------------------------ *)
Definition msk {A} (k : nat) (s : @mom A) : A :=
  match k with 1%nat => m_s1 s | 2%nat => m_s2 s | 3%nat => m_s3 s | _ => m_s4 s end.

(* the accumulator a holds EXACTLY the k-th power sum of the valid elements of l *)
Definition facc (k : nat) (a : float) (l : list float) : Prop := ffin a = true /\ f2r a = psum k (rvals64 l).
(* the state holds the count and the first K power sums of the window, exactly *)
Definition mabs (K : nat) (s : @mom float) (l : list float) : Prop :=
  m_n s = length (fvals l) /\ forall k, (1 <= k <= K)%nat -> facc k (msk k s) l.
(* a window whose valid elements are on the grid 2^e and whose K-th absolute power sum is below 2^(K e + 53) *)
Definition good (K : nat) (e : Z) (l : list float) : Prop :=
  Forall (fgrid e) (fvals l) /\ spow K (rvals64 l) < bpow radix2 (Z.of_nat K * e + 53).

Lemma Forall_fgrid_grid e fl : Forall (fgrid e) fl -> Forall (grid e) (map f2r fl).
Proof. intros H. apply Forall_map. eapply Forall_impl; [|exact H]. intros a [_ Ha]. exact Ha. Qed.

Lemma rvals64_single_valid v : not_none (H := IsNoneF64) v = true -> rvals64 [v] = [f2r v].
Proof. intros E. unfold rvals64. rewrite fvals_single. unfold addop. rewrite E. reflexivity. Qed.
Lemma rvals64_single_null v : not_none (H := IsNoneF64) v = false -> rvals64 [v] = [].
Proof. intros E. unfold rvals64. rewrite fvals_single. unfold addop. rewrite E. reflexivity. Qed.

Lemma k_cases k K : (1 <= k <= K)%nat -> (K <= 4)%nat -> k = 1%nat \/ k = 2%nat \/ k = 3%nat \/ k = 4%nat.
Proof. lia. Qed.

Section MomentGrid.
  Variable K : nat.
  Variable e : Z.
  Hypothesis HK : (1 <= K <= 4)%nat.
  Hypothesis HR : erange K e.

  Lemma mabs_init : mabs K (mom0 (A := float)) [].
  Proof.
    split; [reflexivity|]. intros k Hk. split.
    - destruct (k_cases k K Hk ltac:(lia)) as [-> | [-> | [-> | ->]]]; reflexivity.
    - replace (msk k (mom0 (A := float))) with zero
        by (destruct (k_cases k K Hk ltac:(lia)) as [-> | [-> | [-> | ->]]]; reflexivity).
      rewrite f2r_zero. reflexivity.
  Qed.

  Lemma mabs_pre (s : @mom float) l v :
    good K e (l ++ [v]) -> mabs K s l -> mabs K (mom_pre (DT := IsNoneF64) s v) (l ++ [v]).
  Proof.
    intros [HG HB] [Hn HA]. unfold mom_pre. rewrite fvals_app, fvals_single in HG. rewrite rvals64_app in HB.
    destruct (not_none v) eqn:E.
    - unfold addop in HG. rewrite E in HG. apply Forall_app in HG. destruct HG as [HGl HGv].
      inversion HGv as [|? ? Gv _]; subst. rewrite (rvals64_single_valid v E) in HB.
      set (L := rvals64 l) in *. set (x := f2r v) in *.
      assert (GL : Forall (grid e) (L ++ [x])).
      { apply Forall_app. split; [apply Forall_fgrid_grid, HGl|]. constructor; [exact (proj2 Gv)|constructor]. }
      assert (HBx : Rabs (x ^ K) < bpow radix2 (Z.of_nat K * e + 53)).
      { rewrite spow_app, spow_cons in HB. pose proof (spow_nonneg K L). pose proof (spow_nonneg K []). lra. }
      destruct (elem_pows e K v ltac:(lia) HR Gv HBx) as (P2 & P3 & P4). cbv zeta in P2, P3, P4.
      change (unwrap v) with v.
      split.
      + cbn [mom_add m_n]. rewrite fvals_app, fvals_single, app_length. unfold addop. rewrite E. cbn [length]. lia.
      + intros k Hk. destruct (HA k Hk) as [Fa Va]. unfold facc. fold L in Va.
        rewrite rvals64_app, (rvals64_single_valid v E). fold L. fold x.
        destruct (k_cases k K Hk ltac:(lia)) as [-> | [-> | [-> | ->]]]; cbn [msk mom_add m_s1 m_s2 m_s3 m_s4] in *.
        * apply (acc_core e K 1 _ _ (L ++ [x]) (L ++ [x])); try assumption; try lra; [exact (proj1 Gv)|].
          rewrite psum_app, psum_single, Va. fold x. ring.
        * destruct (P2 ltac:(lia)) as [F2 V2].
          apply (acc_core e K 2 _ _ (L ++ [x]) (L ++ [x])); try assumption; try lra.
          rewrite psum_app, psum_single, Va. change (nmul v v) with (v * v)%float. rewrite V2. reflexivity.
        * destruct (P3 ltac:(lia)) as [F3 V3].
          apply (acc_core e K 3 _ _ (L ++ [x]) (L ++ [x])); try assumption; try lra.
          rewrite psum_app, psum_single, Va. change (nmul (nmul v v) v) with (v * v * v)%float. rewrite V3. reflexivity.
        * destruct (P4 ltac:(lia)) as [F4 V4].
          apply (acc_core e K 4 _ _ (L ++ [x]) (L ++ [x])); try assumption; try lra.
          rewrite psum_app, psum_single, Va. change (nmul (nmul v v) (nmul v v)) with (v * v * (v * v))%float.
          rewrite V4. reflexivity.
    - assert (E1 : fvals (l ++ [v]) = fvals l)
        by (rewrite fvals_app, fvals_single; unfold addop; rewrite E; apply app_nil_r).
      assert (E2 : rvals64 (l ++ [v]) = rvals64 l)
        by (rewrite rvals64_app, (rvals64_single_null v E); apply app_nil_r).
      unfold mabs, facc. rewrite E1, E2. split; [exact Hn|exact HA].
  Qed.

  Lemma mabs_post (s : @mom float) x l :
    good K e (x :: l) -> mabs K s (x :: l) -> mabs K (mom_post (DT := IsNoneF64) s (Some x)) l.
  Proof.
    change (x :: l) with ([x] ++ l). intros [HG HB] [Hn HA]. unfold mom_post.
    rewrite fvals_app, fvals_single in HG, Hn. rewrite rvals64_app in HB.
    destruct (not_none x) eqn:E.
    - unfold addop in HG, Hn. rewrite E in HG, Hn. apply Forall_app in HG. destruct HG as [HGv HGl].
      inversion HGv as [|? ? Gv _]; subst. rewrite (rvals64_single_valid x E) in HB.
      set (L := rvals64 l) in *. set (y := f2r x) in *.
      assert (GR : Forall (grid e) L) by apply Forall_fgrid_grid, HGl.
      assert (GL : Forall (grid e) ([y] ++ L)) by (constructor; [exact (proj2 Gv)|exact GR]).
      assert (HBx : Rabs (y ^ K) < bpow radix2 (Z.of_nat K * e + 53)).
      { rewrite spow_app, spow_cons in HB. pose proof (spow_nonneg K L). pose proof (spow_nonneg K []). lra. }
      assert (Hle : forall k, spow k L <= spow k ([y] ++ L)).
      { intros k. rewrite spow_app, spow_cons. pose proof (Rabs_pos (y ^ k)). pose proof (spow_nonneg k []). lra. }
      destruct (elem_pows e K x ltac:(lia) HR Gv HBx) as (P2 & P3 & P4). cbv zeta in P2, P3, P4.
      change (unwrap x) with x.
      split.
      + cbn [mom_sub m_n]. rewrite Hn, app_length. cbn [length]. lia.
      + intros k Hk. destruct (HA k Hk) as [Fa Va]. unfold facc. fold L.
        rewrite rvals64_app, (rvals64_single_valid x E) in Va. fold L in Va. fold y in Va.
        change ([y] ++ L) with (y :: L) in Va. rewrite psum_cons in Va.
        destruct (k_cases k K Hk ltac:(lia)) as [-> | [-> | [-> | ->]]]; cbn [msk mom_sub m_s1 m_s2 m_s3 m_s4] in *.
        * change (nsub (m_s1 s) x) with (m_s1 s - x)%float. rewrite sub_is_add_opp.
          apply (acc_core e K 1 _ _ ([y] ++ L) L); try assumption; try apply Hle.
          -- rewrite ffin_opp. exact (proj1 Gv).
          -- rewrite f2r_opp, Va. fold y. ring.
        * destruct (P2 ltac:(lia)) as [F2 V2].
          change (nsub (m_s2 s) (nmul x x)) with (m_s2 s - x * x)%float. rewrite sub_is_add_opp.
          apply (acc_core e K 2 _ _ ([y] ++ L) L); try assumption; try apply Hle.
          -- rewrite ffin_opp. exact F2.
          -- rewrite f2r_opp, Va, V2. fold y. ring.
        * destruct (P3 ltac:(lia)) as [F3 V3].
          change (nsub (m_s3 s) (nmul (nmul x x) x)) with (m_s3 s - x * x * x)%float. rewrite sub_is_add_opp.
          apply (acc_core e K 3 _ _ ([y] ++ L) L); try assumption; try apply Hle.
          -- rewrite ffin_opp. exact F3.
          -- rewrite f2r_opp, Va, V3. fold y. ring.
        * destruct (P4 ltac:(lia)) as [F4 V4].
          change (nsub (m_s4 s) (nmul (nmul x x) (nmul x x))) with (m_s4 s - x * x * (x * x))%float.
          rewrite sub_is_add_opp.
          apply (acc_core e K 4 _ _ ([y] ++ L) L); try assumption; try apply Hle.
          -- rewrite ffin_opp. exact F4.
          -- rewrite f2r_opp, Va, V4. fold y. ring.
    - unfold addop in Hn. rewrite E in Hn. cbn [app] in Hn.
      split; [exact Hn|]. intros k Hk. destruct (HA k Hk) as [Fa Va]. split; [exact Fa|].
      rewrite Va, rvals64_app, (rvals64_single_null x E). reflexivity.
  Qed.
End MomentGrid.

(* ---- (2e) the runs: model(float) state = model(option R) state -------------------------------------- *)
Lemma Forall_fvals_seg (P : float -> Prop) a b xs : Forall P (fvals xs) -> Forall P (fvals (seg a b xs)).
Proof.
  intros H. unfold seg. rewrite <- (firstn_skipn a xs), fvals_app in H. apply Forall_app in H. destruct H as [_ H].
  rewrite <- (firstn_skipn (b - a) (skipn a xs)), fvals_app in H. apply Forall_app in H. exact (proj1 H).
Qed.

(* every window of the run is on the grid and in range: the premise of everything below (window-local) *)
Definition windows_in_range (K : nat) (e : Z) (w : nat) (xs : list float) : Prop :=
  forall i, (i < length xs)%nat -> spow K (rvals64 (win w i xs)) < pow2 (Z.of_nat K * e + 53).

(* the float state behind every output holds the count and the first K power sums of the window EXACTLY *)
Theorem moment_state_float_exact K e (emit : @mom float -> float) w body xs :
  (1 <= K <= 4)%nat -> erange K e -> (1 <= w)%nat ->
  Forall (fgrid e) (fvals xs) -> windows_in_range K e w xs ->
  forall i v, nth_error xs i = Some v ->
    exists s, mabs K s (win w i xs) /\
              nth_error (ts_out (mom_feat (NA := NumF64) (DT := IsNoneF64) emit) body w xs) i = Some (emit s).
Proof.
  intros HK HR Hw HG HW i v Hv.
  apply (sliding_emit_on (mom_feat (NA := NumF64) (DT := IsNoneF64) emit) (mabs K) (good K e)) with (v := v);
    try assumption.
  - apply mabs_init. exact HK.
  - intros s l x. apply mabs_pre; assumption.
  - intros s x l. apply mabs_post; assumption.
  - reflexivity.
  - intros j Hj. split; [rewrite win_seg; apply Forall_fvals_seg, HG|apply HW, Hj].
Qed.

Lemma fx_finite a : ffin a = true -> fx a = Some (f2r a).
Proof. intros H. unfold fx. rewrite (ffin_not_nan _ H). reflexivity. Qed.

(* ... and so it is the image of the state of the exact run on the same series *)
Theorem moment_state_exact_on_grid K e (emit64 : @mom float -> float) (emitX : @mom XR -> XR) w body xs :
  (1 <= K <= 4)%nat -> erange K e -> (1 <= w)%nat ->
  Forall (fgrid e) (fvals xs) -> windows_in_range K e w xs ->
  forall i v, nth_error xs i = Some v ->
    exists (s64 : @mom float) (sX : @mom XR),
      nth_error (ts_out (mom_feat (NA := NumF64) (DT := IsNoneF64) emit64) body w xs) i = Some (emit64 s64) /\
      nth_error (ts_out (mom_feat (NA := NumXR) (DT := IsNoneXR) emitX) body w (map fx xs)) i = Some (emitX sX) /\
      m_n s64 = m_n sX /\ (forall k, (1 <= k <= K)%nat -> fx (msk k s64) = msk k sX) /\
      mom_abs sX (map fx (win w i xs)).
Proof.
  intros HK HR Hw HG HW i v Hv.
  destruct (moment_state_float_exact K e emit64 w body xs HK HR Hw HG HW i v Hv) as (s64 & [Hn HA] & Ho).
  destruct (mom_state_tracks_window emitX body w (map fx xs) Hw) as (outx & Hrun & _ & Hout).
  destruct (Hout i (fx v)) as (sX & HX & HoX); [rewrite nth_error_map, Hv; reflexivity|].
  exists s64, sX. split; [exact Ho|]. split; [unfold ts_out; rewrite Hrun; exact HoX|].
  rewrite win_map in HX. pose proof HX as (Xn & X1 & X2 & X3 & X4).
  unfold nv in Xn. rewrite valid_map_fx in Xn, X1, X2, X3, X4.
  split; [|split; [|exact HX]].
  - rewrite Hn, Xn. unfold rvals64. rewrite map_length. reflexivity.
  - intros k Hk. destruct (HA k Hk) as [Fa Va]. rewrite (fx_finite _ Fa), Va.
    destruct (k_cases k K Hk ltac:(lia)) as [-> | [-> | [-> | ->]]]; cbn [msk]; symmetry; assumption.
Qed.

(* all four power sums: the exact run's state IS the image of the float run's state *)
Definition mom_fx (s : @mom float) : @mom XR :=
  {| m_n := m_n s; m_s1 := fx (m_s1 s); m_s2 := fx (m_s2 s); m_s3 := fx (m_s3 s); m_s4 := fx (m_s4 s) |}.

Corollary moment_state_exact_on_grid_all e (emit64 : @mom float -> float) (emitX : @mom XR -> XR) w body xs :
  erange 4 e -> (1 <= w)%nat -> Forall (fgrid e) (fvals xs) -> windows_in_range 4 e w xs ->
  forall i v, nth_error xs i = Some v ->
    exists s64 : @mom float,
      nth_error (ts_out (mom_feat (NA := NumF64) (DT := IsNoneF64) emit64) body w xs) i = Some (emit64 s64) /\
      nth_error (ts_out (mom_feat (NA := NumXR) (DT := IsNoneXR) emitX) body w (map fx xs)) i
      = Some (emitX (mom_fx s64)).
Proof.
  intros HR Hw HG HW i v Hv.
  destruct (moment_state_exact_on_grid 4 e emit64 emitX w body xs ltac:(lia) HR Hw HG HW i v Hv)
    as (s64 & sX & H1 & H2 & Hn & Hk & _).
  exists s64. split; [exact H1|]. rewrite H2. do 2 f_equal.
  destruct sX as [n a1 a2 a3 a4]. unfold mom_fx. cbn [m_n] in Hn.
  pose proof (Hk 1%nat ltac:(lia)) as K1. pose proof (Hk 2%nat ltac:(lia)) as K2.
  pose proof (Hk 3%nat ltac:(lia)) as K3. pose proof (Hk 4%nat ltac:(lia)) as K4.
  cbn [msk m_s1 m_s2 m_s3 m_s4] in K1, K2, K3, K4. rewrite Hn, K1, K2, K3, K4. reflexivity.
Qed.

(* the rolling SUM under the window-local first-power premise (Proofs/RoundSum.v needs the whole history in range) *)
Lemma fx_emit_sum mp (s64 : @mom float) (sX : @mom XR) :
  m_n s64 = m_n sX -> fx (m_s1 s64) = m_s1 sX -> fx (emit_sum mp s64) = emit_sum mp sX.
Proof. intros Hn H1. unfold emit_sum. rewrite Hn. destruct (mp <=? m_n sX); [exact H1|reflexivity]. Qed.

Theorem ts_vsum_f64_exact_on_grid_local e w mp body xs :
  erange 1 e -> (1 <= w)%nat -> Forall (fgrid e) (fvals xs) -> windows_in_range 1 e w xs ->
  map fx (ts_out (ts_vsum64 w mp) body w xs)
  = ts_out (ts_vsum_f (NA := NumXR) (DT := IsNoneXR) w mp) body w (map fx xs).
Proof.
  intros HR Hw HG HW. apply nth_error_ext. intros i. rewrite nth_error_map.
  destruct (nth_error xs i) as [v|] eqn:Hv.
  - destruct (moment_state_exact_on_grid 1 e (emit_sum (mp_eff mp w 0)) (emit_sum (mp_eff mp w 0)) w body xs
                ltac:(lia) HR Hw HG HW i v Hv) as (s64 & sX & H1 & H2 & Hn & Hk & _).
    change (mom_feat (emit_sum (mp_eff mp w 0))) with (ts_vsum64 w mp) in H1.
    change (mom_feat (emit_sum (mp_eff mp w 0))) with (ts_vsum_f (NA := NumXR) (DT := IsNoneXR) w mp) in H2.
    rewrite H1, H2. cbn [option_map]. f_equal. apply fx_emit_sum; [exact Hn|exact (Hk 1%nat ltac:(lia))].
  - apply nth_error_None in Hv.
    destruct (ts_run_total (ts_vsum64 w mp) w xs body Hw) as (outf & Hrunf & Hlenf).
    destruct (ts_run_total (ts_vsum_f (NA := NumXR) (DT := IsNoneXR) w mp) w (map fx xs) body Hw) as (outx & Hrunx & Hlenx).
    unfold ts_out. rewrite Hrunf, Hrunx.
    replace (nth_error outf i) with (@None float) by (symmetry; apply nth_error_None; lia).
    symmetry. apply nth_error_None. rewrite Hlenx, map_length. exact Hv.
Qed.

(* ---- the premise from a magnitude bound: |x| <= B and w * B^K < 2^(K e + 53) ---------------------------- *)
Lemma spow_le_len K L B : Forall (fun x => Rabs x <= B) L -> spow K L <= INR (length L) * B ^ K.
Proof.
  induction 1 as [|a L Ha _ IH]; [unfold spow, sumabs; cbn; lra|].
  rewrite spow_cons. change (length (a :: L)) with (S (length L)). rewrite S_INR, <- RPow_abs.
  pose proof (pow_incr (Rabs a) B K (conj (Rabs_pos a) Ha)). lra.
Qed.

Lemma windows_in_range_of_bound K e w xs B :
  (1 <= w)%nat -> Forall (fun y => Rabs (f2r y) <= B) (fvals xs) ->
  INR w * B ^ K < pow2 (Z.of_nat K * e + 53) -> windows_in_range K e w xs.
Proof.
  intros Hw HB Hlt i Hi.
  assert (HBw : Forall (fun x => Rabs x <= B) (rvals64 (win w i xs))).
  { unfold rvals64. apply Forall_map. rewrite win_seg. apply (Forall_fvals_seg (fun y => Rabs (f2r y) <= B)), HB. }
  pose proof (spow_le_len K _ B HBw) as H1.
  destruct (rvals64 (win w i xs)) as [|a L] eqn:EL.
  - unfold spow, sumabs. cbn [map sumR fold_right]. apply bpow_gt_0.
  - assert (HB0 : 0 <= B) by (inversion HBw as [|? ? Ha _]; subst; pose proof (Rabs_pos a); lra).
    assert (Hlen : (length (a :: L) <= w)%nat).
    { rewrite <- EL. unfold rvals64. rewrite map_length.
      pose proof (length_fvals_le (win w i xs)). pose proof (win_length_le w i xs Hw). lia. }
    apply le_INR in Hlen. pose proof (pow_le B K HB0) as HBK.
    eapply Rle_lt_trans; [exact H1|]. eapply Rle_lt_trans; [|exact Hlt]. apply Rmult_le_compat_r; assumption.
Qed.

(* ---- (2f) executable premises and the statements as Props/C01.v, Props/C06.v cite them ------------------- *)
(* an executable test for "finite and |x| <= b" (b an integer) *)
Definition abs_le_check (b : Z) (x : float) : bool :=
  match Prim2SF x with
  | S754_zero _ => (0 <=? b)%Z
  | S754_finite _ m ex => if (0 <=? ex)%Z then (Zpos m * 2 ^ ex <=? b)%Z else (Zpos m <=? b * 2 ^ (- ex))%Z
  | _ => false
  end.

Lemma abs_le_check_ok b x : abs_le_check b x = true -> Rabs (f2r x) <= IZR b.
Proof.
  unfold abs_le_check, f2r. rewrite <- FP.B2SF_Prim2B.
  destruct (FP.Prim2B x) as [s|s| |s m ex Hb]; cbn [B2SF B2R]; try discriminate.
  - intros H. apply Z.leb_le in H. rewrite Rabs_R0. apply (IZR_le 0), H.
  - unfold F2R. cbn [Fnum Fexp]. rewrite Rabs_mult, (Rabs_pos_eq (bpow radix2 ex)) by apply bpow_ge_0.
    rewrite <- abs_IZR, abs_cond_Zopp. cbn [Z.abs].
    destruct (0 <=? ex)%Z eqn:E; intros H; apply Z.leb_le in H.
    + apply Z.leb_le in E. rewrite <- (IZR_Zpower radix2) by exact E. rewrite <- mult_IZR. apply IZR_le, H.
    + apply Z.leb_gt in E. apply IZR_le in H. rewrite mult_IZR, (IZR_Zpower radix2) in H by lia.
      pose proof (bpow_gt_0 radix2 ex) as Hp.
      apply Rmult_le_compat_r with (r := bpow radix2 ex) in H; [|lra].
      rewrite Rmult_assoc, <- bpow_plus in H. replace (- ex + ex)%Z with 0%Z in H by lia.
      cbn [bpow] in H. lra.
Qed.
Lemma abs_le_check_all b l : forallb (abs_le_check b) l = true -> Forall (fun y => Rabs (f2r y) <= IZR b) l.
Proof. intros H. apply Forall_forall. intros x Hx. apply abs_le_check_ok. exact (proj1 (forallb_forall _ _) H x Hx). Qed.

(* what `mom_abs` says about the state of the exact run on the image of a float series *)
Lemma mom_abs_fx (sX : @mom XR) l :
  mom_abs sX (map fx l) ->
  m_n sX = length (rvals64 l) /\ forall k, (1 <= k <= 4)%nat -> msk k sX = Some (psum k (rvals64 l)).
Proof.
  intros (Xn & X1 & X2 & X3 & X4). unfold nv in Xn. rewrite valid_map_fx in Xn, X1, X2, X3, X4.
  split; [exact Xn|]. intros k Hk.
  destruct (k_cases k 4 Hk ltac:(lia)) as [-> | [-> | [-> | ->]]]; cbn [msk]; assumption.
Qed.

(* the float accumulators alone *)
Theorem moment_accumulators_float_exact K e (emit : @mom float -> float) w body xs :
  (1 <= K <= 4)%nat -> (-1074 <= Z.of_nat K * e)%Z -> (Z.of_nat K * e + 53 <= 1024)%Z -> (1 <= w)%nat ->
  forallb (grid_check e) (fvals xs) = true ->
  (forall i, (i < length xs)%nat -> spow K (rvals64 (win w i xs)) < pow2 (Z.of_nat K * e + 53)) ->
  forall i v, nth_error xs i = Some v ->
    exists s : @mom float,
      nth_error (ts_out (mom_feat (NA := NumF64) (DT := IsNoneF64) emit) body w xs) i = Some (emit s) /\
      m_n s = length (fvals (win w i xs)) /\
      forall k, (1 <= k <= K)%nat -> ffin (msk k s) = true /\ f2r (msk k s) = psum k (rvals64 (win w i xs)).
Proof.
  intros HK E1 E2 Hw HG HW i v Hv.
  destruct (moment_state_float_exact K e emit w body xs HK (conj E1 E2) Hw (grid_check_all _ _ HG) HW i v Hv)
    as (s & [Hn HA] & Ho).
  exists s. split; [exact Ho|]. split; [exact Hn|exact HA].
Qed.

Theorem moment_state_exact_on_grid_props K e (emit64 : @mom float -> float) (emitX : @mom XR -> XR) w body xs :
  (1 <= K <= 4)%nat -> (-1074 <= Z.of_nat K * e)%Z -> (Z.of_nat K * e + 53 <= 1024)%Z -> (1 <= w)%nat ->
  forallb (grid_check e) (fvals xs) = true ->
  (forall i, (i < length xs)%nat -> spow K (rvals64 (win w i xs)) < pow2 (Z.of_nat K * e + 53)) ->
  forall i v, nth_error xs i = Some v ->
    exists (s64 : @mom float) (sX : @mom XR),
      nth_error (ts_out (mom_feat (NA := NumF64) (DT := IsNoneF64) emit64) body w xs) i = Some (emit64 s64) /\
      nth_error (ts_out (mom_feat (NA := NumXR) (DT := IsNoneXR) emitX) body w (map fx xs)) i = Some (emitX sX) /\
      m_n s64 = m_n sX /\ (forall k, (1 <= k <= K)%nat -> fx (msk k s64) = msk k sX) /\
      m_n sX = length (rvals64 (win w i xs)) /\
      (forall k, (1 <= k <= 4)%nat -> msk k sX = Some (psum k (rvals64 (win w i xs)))).
Proof.
  intros HK E1 E2 Hw HG HW i v Hv.
  destruct (moment_state_exact_on_grid K e emit64 emitX w body xs HK (conj E1 E2) Hw (grid_check_all _ _ HG) HW i v Hv)
    as (s64 & sX & H1 & H2 & Hn & Hk & HX).
  exists s64, sX. destruct (mom_abs_fx sX _ HX) as [Xn Xk]. repeat split; assumption.
Qed.

Theorem moment_state_exact_on_grid_all_props e (emit64 : @mom float -> float) (emitX : @mom XR -> XR) w body xs :
  (-1074 <= 4 * e)%Z -> (4 * e + 53 <= 1024)%Z -> (1 <= w)%nat ->
  forallb (grid_check e) (fvals xs) = true ->
  (forall i, (i < length xs)%nat -> psum 4 (rvals64 (win w i xs)) < pow2 (4 * e + 53)) ->
  forall i v, nth_error xs i = Some v ->
    exists s64 : @mom float,
      nth_error (ts_out (mom_feat (NA := NumF64) (DT := IsNoneF64) emit64) body w xs) i = Some (emit64 s64) /\
      nth_error (ts_out (mom_feat (NA := NumXR) (DT := IsNoneXR) emitX) body w (map fx xs)) i
      = Some (emitX (mom_fx s64)).
Proof.
  intros E1 E2 Hw HG HW.
  apply (moment_state_exact_on_grid_all e emit64 emitX w body xs (conj E1 E2) Hw (grid_check_all _ _ HG)).
  intros i Hi. specialize (HW i Hi). unfold spow, sumabs. rewrite map_map.
  erewrite map_ext; [exact HW|]. intros a. cbn beta. apply Rabs_pos_eq.
  replace (a ^ 4) with ((a * a) * (a * a)) by ring. apply Rle_0_sqr.
Qed.

(* the premise from executable magnitude / grid tests: |x| <= b for every valid element, w * b^K < 2^(K e + 53) *)
Theorem windows_in_range_of_bound_props K e w xs (b : Z) :
  (1 <= w)%nat -> forallb (abs_le_check b) (fvals xs) = true ->
  INR w * IZR b ^ K < pow2 (Z.of_nat K * e + 53) ->
  forall i, (i < length xs)%nat -> spow K (rvals64 (win w i xs)) < pow2 (Z.of_nat K * e + 53).
Proof.
  intros Hw HB Hlt. apply (windows_in_range_of_bound K e w xs (IZR b) Hw (abs_le_check_all _ _ HB) Hlt).
Qed.

(* the sum of squares, as the task states it: grid 2^e, |x| <= b, w * b^2 < 2^(2e+53) *)
Theorem sum_of_squares_exact_on_grid e (b : Z) (emit : @mom float -> float) w body xs :
  (-1074 <= 2 * e)%Z -> (2 * e + 53 <= 1024)%Z -> (1 <= w)%nat ->
  forallb (grid_check e) (fvals xs) = true -> forallb (abs_le_check b) (fvals xs) = true ->
  INR w * IZR b ^ 2 < pow2 (2 * e + 53) ->
  forall i v, nth_error xs i = Some v ->
    exists s : @mom float,
      nth_error (ts_out (mom_feat (NA := NumF64) (DT := IsNoneF64) emit) body w xs) i = Some (emit s) /\
      m_n s = length (fvals (win w i xs)) /\
      ffin (m_s1 s) = true /\ f2r (m_s1 s) = psum 1 (rvals64 (win w i xs)) /\
      ffin (m_s2 s) = true /\ f2r (m_s2 s) = psum 2 (rvals64 (win w i xs)).
Proof.
  intros E1 E2 Hw HG HB Hlt i v Hv.
  destruct (moment_accumulators_float_exact 2 e emit w body xs ltac:(lia) E1 E2 Hw HG
              (windows_in_range_of_bound_props 2 e w xs b Hw HB Hlt) i v Hv) as (s & Ho & Hn & Hk).
  exists s. destruct (Hk 1%nat ltac:(lia)) as [F1 V1]. destruct (Hk 2%nat ltac:(lia)) as [F2 V2].
  repeat split; assumption.
Qed.

(* DESIGN 2.3: the generated inputs are k/4 with |k| <= 400 (grid 2^-2, |x| <= 100) and windows of at most 64 elements:
   every window's fourth-power sum is below 2^45, so all four power sums are exact in binary64 *)
Theorem generated_inputs_in_range w xs :
  (1 <= w <= 64)%nat -> forallb (abs_le_check 100) (fvals xs) = true ->
  forall i, (i < length xs)%nat -> psum 4 (rvals64 (win w i xs)) < pow2 (4 * (-2) + 53).
Proof.
  intros Hw HB i Hi.
  eapply Rle_lt_trans; [eapply Rle_trans; [apply Rle_abs|apply psum_le_spow]|].
  apply (windows_in_range_of_bound_props 4 (-2) w xs 100 ltac:(lia) HB); [|exact Hi].
  assert (H64 : INR w <= 64).
  { replace 64 with (INR 64) by (rewrite INR_IZR_INZ; reflexivity). apply le_INR. lia. }
  change (pow2 (Z.of_nat 4 * -2 + 53)) with (IZR (2 ^ 45)).
  apply Rle_lt_trans with (64 * 100 ^ 4); [apply Rmult_le_compat_r; [apply pow_le; lra|exact H64]|].
  replace (64 * 100 ^ 4) with (IZR (64 * 100 ^ 4)) by (rewrite mult_IZR, pow_IZR; reflexivity).
  apply IZR_lt. reflexivity.
Qed.

Theorem ts_vsum_f64_exact_on_grid_local_props e w mp body xs :
  (-1074 <= e)%Z -> (e + 53 <= 1024)%Z -> (1 <= w)%nat -> forallb (grid_check e) (fvals xs) = true ->
  (forall i, (i < length xs)%nat -> spow 1 (rvals64 (win w i xs)) < pow2 (e + 53)) ->
  map fx (ts_out (ts_vsum64 w mp) body w xs)
  = ts_out (ts_vsum_f (NA := NumXR) (DT := IsNoneXR) w mp) body w (map fx xs).
Proof.
  intros E1 E2 Hw HG HW. apply (ts_vsum_f64_exact_on_grid_local e w mp body xs); try assumption.
  - split; [change (Z.of_nat 1 * e)%Z with (1 * e)%Z|change (Z.of_nat 1 * e)%Z with (1 * e)%Z]; lia.
  - apply grid_check_all, HG.
  - intros i Hi. replace (Z.of_nat 1 * e + 53)%Z with (e + 53)%Z by lia. apply HW, Hi.
Qed.

(* ---- (2g) on grid data the rolling mean is the CORRECTLY ROUNDED exact mean of the window ------------------- *)
Lemma div_zero_not_finite (s : float) : ffin (s / zero)%float = false.
Proof.
  rewrite ffin_equiv, FP.div_equiv. change (FP.Prim2B zero) with (FP.Prim2B (FP.B2Prim (B754_zero false))).
  rewrite FP.Prim2B_B2Prim. destruct (FP.Prim2B s) as [sx|sx| |sx mx ex Hx]; reflexivity.
Qed.

Theorem ts_vmean_correctly_rounded_on_grid e w mp body xs i o :
  (-1074 <= e)%Z -> (e + 53 <= 1024)%Z -> (1 <= w)%nat -> (Z.of_nat w < 2 ^ 53)%Z ->
  forallb (grid_check e) (fvals xs) = true ->
  (forall j, (j < length xs)%nat -> spow 1 (rvals64 (win w j xs)) < pow2 (e + 53)) ->
  nth_error (ts_out (ts_vmean64 w mp) body w xs) i = Some o -> ffin o = true ->
  f2r o = rnd64 (meanR (rvals64 (win w i xs))) /\
  Rabs (f2r o - meanR (rvals64 (win w i xs))) <= u64 * Rabs (meanR (rvals64 (win w i xs))) + eta64.
Proof.
  intros E1 E2 Hw Hw53 HG HW Ho Hf.
  assert (Hv : f2r o = rnd64 (meanR (rvals64 (win w i xs)))); [|split; [exact Hv|rewrite Hv; apply rnd64_err]].
  assert (Hi : (i < length xs)%nat).
  { destruct (ts_run_total (ts_vmean64 w mp) w xs body Hw) as (out & Hrun & Hlen).
    unfold ts_out in Ho. rewrite Hrun in Ho. rewrite <- Hlen. apply nth_error_Some. rewrite Ho. discriminate. }
  destruct (nth_error xs i) as [v|] eqn:Hxi; [|apply nth_error_None in Hxi; lia].
  assert (HW' : forall j, (j < length xs)%nat -> spow 1 (rvals64 (win w j xs)) < pow2 (Z.of_nat 1 * e + 53)).
  { intros j Hj. replace (Z.of_nat 1 * e + 53)%Z with (e + 53)%Z by lia. apply HW, Hj. }
  assert (E1' : (-1074 <= Z.of_nat 1 * e)%Z) by lia. assert (E2' : (Z.of_nat 1 * e + 53 <= 1024)%Z) by lia.
  destruct (moment_accumulators_float_exact 1 e (emit_mean (mp_eff mp w 0)) w body xs ltac:(lia) E1' E2' Hw HG HW' i v Hxi)
    as (s & Hs & Hn & Hk).
  change (mom_feat (emit_mean (mp_eff mp w 0))) with (ts_vmean64 w mp) in Hs.
  rewrite Hs in Ho. injection Ho as <-. destruct (Hk 1%nat ltac:(lia)) as [F1 V1]. cbn [msk] in F1, V1.
  unfold emit_mean in *. rewrite Hn in *.
  destruct (mp_eff mp w 0 <=? length (fvals (win w i xs))); [|vm_compute in Hf; discriminate].
  destruct (length (fvals (win w i xs))) as [|k] eqn:EL.
  { change (nofnat (A := float) 0) with zero in Hf. rewrite div_zero_not_finite in Hf. discriminate. }
  assert (Hn53 : (Z.of_nat (S k) < 2 ^ 53)%Z).
  { pose proof (length_fvals_le (win w i xs)). pose proof (win_length_le w i xs Hw). lia. }
  destruct (div_count_val (m_s1 s) (S k) ltac:(lia) Hn53 Hf) as [_ Hq].
  change (ndiv (m_s1 s) (nofnat (S k))) with (m_s1 s / nofnat (A := float) (S k))%float.
  assert (Hlen : length (rvals64 (win w i xs)) = S k) by (unfold rvals64; rewrite map_length; exact EL).
  rewrite Hq, V1, psum_1. unfold meanR, nR. rewrite Hlen. reflexivity.
Qed.
