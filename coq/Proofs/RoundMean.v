(* Proofs/RoundMean.v — rounding, continued (Proofs/RoundSum.v is the first part):
     (1) the MEANS at binary64: one more rounding, the division  sum / (n as f64).  `n as f64` is exact for
         n < 2^53; binary64 division CAN underflow, so the standard model of a correctly rounded operation is
              |fl(x) - x| <= u |x| + eta,      u = 2^-53,  eta = 2^-1075  (half the smallest subnormal)
         (Flocq: relative_error_N_FLT'_ex), and  eta  disappears when |x| >= 2^-1022 (relative_error_N_FLT).
         Hence   |vmean_float xs - mean (valid xs)| <= ((1+u)^(n+1) - 1) * (sum |x|) / n + eta
         for the one-pass `vmean` (Model/Agg.v) and, with the drift bound of the rolling sum carried through the
         division, for the rolling `ts_vmean_f` (Model/Features.v, `emit_mean`), and the quantitative history
         independence of the rolling mean.
     (2) exactness on a dyadic grid for ALL FOUR power sums of the rolling moment accumulator (`mom_add` /
         `mom_sub`): when every valid element is a multiple of 2^e and every window's fourth-power sum stays below
         2^(4e+53), no product and no addition / subtraction ever rounds; the float state IS the exact state
         (window-local premise: the history does not enter at all).
   Only executable premises about finiteness; no overflow premise (a finite output certifies it).          *)
From Coq Require Import Reals Lra Lia ZArith List Floats Psatz.
From Flocq Require Import Core Relative Plus_error BinarySingleNaN.
From Flocq Require PrimFloat.
From Coq Require Import Permutation.
From Tevec Require Import Base.Prelude Base.Num Base.XR Base.F64 Spec.Stats Spec.Stats2 Model.Driver Proofs.Driver
     Model.Features Proofs.Generic Model.Agg Proofs.AggGeneric Proofs.Sliding Proofs.Features Proofs.RoundSum
     Proofs.QIdxFloat.
Import ListNotations.
Local Open Scope R_scope.

Module FP := Flocq.IEEE754.PrimFloat.
Module CF := Coq.Floats.PrimFloat.

(* ===================================================================================================== *)
(* (1a) real level: a quotient of an approximate sum, rounded once more                                  *)
(* ===================================================================================================== *)
Lemma gam_S_prod u m : (1 + u) * (1 + gam u m) - 1 = gam u (S m).
Proof. unfold gam. cbn [pow]. ring. Qed.

(* s approximates S within g*H, |S| <= H, q is s/d rounded with relative error u and absolute error eta *)
Lemma quotient_error (u eta g s S0 H d q : R) :
  0 <= u -> 0 <= g -> 0 < d ->
  Rabs (s - S0) <= g * H -> Rabs S0 <= H ->
  Rabs (q - s / d) <= u * Rabs (s / d) + eta ->
  Rabs (q - S0 / d) <= ((1 + u) * (1 + g) - 1) * (H / d) + eta.
Proof.
  intros Hu Hg Hd Hs HS Hq.
  assert (Hid : 0 < / d) by (apply Rinv_0_lt_compat; exact Hd).
  assert (HH : 0 <= H) by (pose proof (Rabs_pos S0); lra).
  assert (Hsa : Rabs s <= (1 + g) * H).
  { replace s with ((s - S0) + S0) by ring. eapply Rle_trans; [apply Rabs_triang|]. lra. }
  assert (Hsd : Rabs (s / d) = Rabs s * / d).
  { unfold Rdiv. rewrite Rabs_mult, (Rabs_pos_eq (/ d)) by lra. reflexivity. }
  assert (Hdd : Rabs (s / d - S0 / d) = Rabs (s - S0) * / d).
  { replace (s / d - S0 / d) with ((s - S0) * / d) by (unfold Rdiv; ring).
    rewrite Rabs_mult, (Rabs_pos_eq (/ d)) by lra. reflexivity. }
  replace (q - S0 / d) with ((q - s / d) + (s / d - S0 / d)) by ring.
  eapply Rle_trans; [apply Rabs_triang|]. rewrite Hdd. rewrite Hsd in Hq.
  assert (H1 : Rabs s * / d <= (1 + g) * H * / d) by (apply Rmult_le_compat_r; lra).
  assert (H2 : Rabs (s - S0) * / d <= g * H * / d) by (apply Rmult_le_compat_r; lra).
  assert (H3 : u * (Rabs s * / d) <= u * ((1 + g) * H * / d)) by (apply Rmult_le_compat_l; lra).
  unfold Rdiv. nra.
Qed.

(* ===================================================================================================== *)
(* (1b) binary64: the error of ONE correctly rounded operation, underflow included; IEEE division        *)
(* ===================================================================================================== *)
Definition eta64 : R := bpow radix2 (-1075).            (* half the smallest positive subnormal 2^-1074 *)

Lemma eta64_pos : 0 < eta64.
Proof. apply bpow_gt_0. Qed.
Lemma eta64_value : eta64 = / IZR (2 ^ 1075).
Proof.
  unfold eta64. change (-1075)%Z with (- (1075))%Z. rewrite bpow_opp. reflexivity.
Qed.

(* |fl(x) - x| <= u |x| + eta for EVERY real x (gradual underflow) *)
Lemma rnd64_err x : Rabs (rnd64 x - x) <= u64 * Rabs x + eta64.
Proof.
  destruct (relative_error_N_FLT'_ex radix2 (-1074) 53 prec64_gt_0 (fun z => negb (Z.even z)) x)
    as (eps & eta & He & Ht & _ & Hr).
  unfold rnd64. change ZnearestE with (Znearest (fun z => negb (Z.even z))). rewrite Hr.
  replace (x * (1 + eps) + eta - x) with (x * eps + eta) by ring.
  eapply Rle_trans; [apply Rabs_triang|]. apply Rplus_le_compat.
  - rewrite Rabs_mult, Rmult_comm. apply Rmult_le_compat_r; [apply Rabs_pos|].
    eapply Rle_trans; [exact He|]. rewrite u64_is_u_ro.
    pose proof (u_ro_pos radix2 53) as Hu.
    apply Rle_trans with (u_ro radix2 53 / 1); [|lra].
    unfold Rdiv. apply Rmult_le_compat_l; [exact Hu|]. apply Rinv_le_contravar; lra.
  - eapply Rle_trans; [exact Ht|]. unfold eta64.
    change (-1075)%Z with (-1 + -1074)%Z. rewrite bpow_plus. change (bpow radix2 (-1)) with (/ 2). lra.
Qed.

(* ... and no absolute term when x is in the normal range *)
Lemma rnd64_err_normal x : bpow radix2 (-1022) <= Rabs x -> Rabs (rnd64 x - x) <= u64 * Rabs x.
Proof.
  intros Hx.
  pose proof (relative_error_N_FLT radix2 (-1074) 53 prec64_gt_0 (fun z => negb (Z.even z)) x Hx) as H.
  unfold rnd64. change ZnearestE with (Znearest (fun z => negb (Z.even z))).
  replace u64 with (/ 2 * bpow radix2 (- (53) + 1)); [exact H|].
  change (/ 2) with (bpow radix2 (-1)). rewrite <- bpow_plus. reflexivity.
Qed.

(* a finite quotient by a non-zero divisor has a finite dividend and is the correctly rounded exact quotient *)
Lemma div_finite_val x y :
  ffin (x / y)%float = true -> f2r y <> 0 ->
  ffin x = true /\ f2r (x / y)%float = rnd64 (f2r x / f2r y).
Proof.
  intros Hf Hy. rewrite !ffin_equiv in *. unfold f2r in *. rewrite FP.div_equiv in *.
  pose proof (Bdiv_correct FloatOps.prec FloatOps.emax FP.Hprec FP.Hmax mode_NE (FP.Prim2B x) (FP.Prim2B y) Hy) as HC.
  destruct (Rlt_bool _ _) in HC.
  - destruct HC as (HC & HF & _). split; [rewrite <- HF; exact Hf|exact HC].
  - exfalso. unfold binary_overflow in HC. cbn [overflow_to_inf] in HC.
    match type of HC with B2SF ?z = _ =>
      assert (HF : is_finite z = true) by exact Hf; clear Hf; destruct z; cbn [B2SF is_finite] in HC, HF; discriminate
    end.
Qed.

Lemma INR_IZR_nat n : IZR (Z.of_nat n) = INR n.
Proof. symmetry. apply INR_IZR_INZ. Qed.

(* sum / (n as f64), 1 <= n < 2^53 *)
Lemma div_count_val (s : float) (n : nat) :
  (1 <= n)%nat -> (Z.of_nat n < 2 ^ 53)%Z -> ffin (s / nofnat (A := float) n)%float = true ->
  ffin s = true /\ f2r (s / nofnat (A := float) n)%float = rnd64 (f2r s / INR n).
Proof.
  intros H1 Hn Hf. destruct (nofnat_f64_exact n Hn) as [_ Hv].
  assert (Hnz : f2r (nofnat (A := float) n) <> 0).
  { rewrite Hv, INR_IZR_nat. apply not_0_INR. lia. }
  destruct (div_finite_val _ _ Hf Hnz) as [Hs Hq]. split; [exact Hs|].
  rewrite Hq, Hv, INR_IZR_nat. reflexivity.
Qed.

(* the quotient of a float sum, against the exact mean: m rounded additions, then one rounded division *)
Lemma mean_of_fold_error (s : float) (n m : nat) (S0 H : R) :
  (1 <= n)%nat -> (Z.of_nat n < 2 ^ 53)%Z -> ffin (s / nofnat (A := float) n)%float = true ->
  Rabs (f2r s - S0) <= gam u64 m * H -> Rabs S0 <= H ->
  Rabs (f2r (s / nofnat (A := float) n)%float - S0 / INR n) <= gam u64 (S m) * (H / INR n) + eta64.
Proof.
  intros H1 Hn Hf Hs HS. destruct (div_count_val s n H1 Hn Hf) as [_ Hq]. rewrite Hq, <- gam_S_prod.
  apply (quotient_error u64 eta64 (gam u64 m) (f2r s) S0 H (INR n)); try assumption.
  - apply u64_nonneg.
  - apply gam_nonneg, u64_nonneg.
  - apply lt_0_INR. lia.
  - apply rnd64_err.
Qed.
Lemma mean_of_fold_error_normal (s : float) (n m : nat) (S0 H : R) :
  (1 <= n)%nat -> (Z.of_nat n < 2 ^ 53)%Z -> ffin (s / nofnat (A := float) n)%float = true ->
  bpow radix2 (-1022) <= Rabs (f2r s / INR n) ->
  Rabs (f2r s - S0) <= gam u64 m * H -> Rabs S0 <= H ->
  Rabs (f2r (s / nofnat (A := float) n)%float - S0 / INR n) <= gam u64 (S m) * (H / INR n).
Proof.
  intros H1 Hn Hf Hnorm Hs HS. destruct (div_count_val s n H1 Hn Hf) as [_ Hq]. rewrite Hq, <- gam_S_prod.
  rewrite <- (Rplus_0_r (_ * _)).
  apply (quotient_error u64 0 (gam u64 m) (f2r s) S0 H (INR n)); try assumption.
  - apply u64_nonneg.
  - apply gam_nonneg, u64_nonneg.
  - apply lt_0_INR. lia.
  - rewrite Rplus_0_r. apply rnd64_err_normal, Hnorm.
Qed.

(* ===================================================================================================== *)
(* (1c) the one-pass mean `vmean` of Model/Agg.v at NumF64 (the sum is accumulated in f64, cast = identity) *)
(* ===================================================================================================== *)
Definition idf64 (x : float) : float := x.
Notation vmean64 xs := (vmean (NA := NumF64) (DT := IsNoneF64) (NF := NumF64) idf64 xs).

Lemma vmean_f64_fold xs :
  vmean64 xs = if 1 <=? length (fvals xs)
               then (ffold zero (fvals xs) / nofnat (A := float) (length (fvals xs)))%float else nan.
Proof. unfold vmean. rewrite vfold_n_spec. reflexivity. Qed.

Lemma vmean_finite_count xs : ffin (vmean64 xs) = true -> (1 <= length (fvals xs))%nat.
Proof.
  rewrite vmean_f64_fold. destruct (1 <=? length (fvals xs)) eqn:E; [intros _; apply Nat.leb_le, E|].
  intros H. vm_compute in H. discriminate.
Qed.

(* C11: |vmean_float xs - mean of the valid elements| <= ((1+u)^(n+1) - 1) * (sum |valid|) / n + eta *)
Theorem vmean_binary64_error xs :
  ffin (vmean64 xs) = true -> (Z.of_nat (length (fvals xs)) < 2 ^ 53)%Z ->
  Rabs (f2r (vmean64 xs) - meanR (rvals64 xs))
  <= gam u64 (S (length (rvals64 xs))) * (sumabs (rvals64 xs) / INR (length (rvals64 xs))) + eta64.
Proof.
  intros Hf Hn. pose proof (vmean_finite_count xs Hf) as H1.
  rewrite vmean_f64_fold in *. replace (1 <=? length (fvals xs)) with true in * by (symmetry; apply Nat.leb_le, H1).
  unfold meanR, nR, rvals64. rewrite map_length. fold (rvals64 xs).
  apply mean_of_fold_error; try assumption.
  - destruct (div_count_val _ _ H1 Hn Hf) as [Hs _].
    pose proof (round_sum_fold (fvals xs) Hs) as HE. exact HE.
  - apply sumR_le_sumabs.
Qed.

(* without the absolute term when the computed quotient is in the normal range *)
Theorem vmean_binary64_error_normal xs :
  ffin (vmean64 xs) = true -> (Z.of_nat (length (fvals xs)) < 2 ^ 53)%Z ->
  bpow radix2 (-1022) <= Rabs (f2r (ffold zero (fvals xs)) / INR (length (fvals xs))) ->
  Rabs (f2r (vmean64 xs) - meanR (rvals64 xs))
  <= gam u64 (S (length (rvals64 xs))) * (sumabs (rvals64 xs) / INR (length (rvals64 xs))).
Proof.
  intros Hf Hn Hnorm. pose proof (vmean_finite_count xs Hf) as H1.
  rewrite vmean_f64_fold in *. replace (1 <=? length (fvals xs)) with true in * by (symmetry; apply Nat.leb_le, H1).
  unfold meanR, nR, rvals64. rewrite map_length. fold (rvals64 xs).
  apply mean_of_fold_error_normal; try assumption.
  - destruct (div_count_val _ _ H1 Hn Hf) as [Hs _].
    pose proof (round_sum_fold (fvals xs) Hs) as HE. exact HE.
  - apply sumR_le_sumabs.
Qed.

(* explicit constant (n+1) u (1+u)^(n+1) *)
Corollary vmean_binary64_error_linear xs :
  ffin (vmean64 xs) = true -> (Z.of_nat (length (fvals xs)) < 2 ^ 53)%Z ->
  Rabs (f2r (vmean64 xs) - meanR (rvals64 xs))
  <= INR (S (length (rvals64 xs))) * u64 * (1 + u64) ^ S (length (rvals64 xs))
     * (sumabs (rvals64 xs) / INR (length (rvals64 xs))) + eta64.
Proof.
  intros Hf Hn. eapply Rle_trans; [apply (vmean_binary64_error xs Hf Hn)|].
  apply Rplus_le_compat_r. apply Rmult_le_compat_r; [|apply gam_le_linear, u64_nonneg].
  pose proof (vmean_finite_count xs Hf) as H1.
  apply Rmult_le_pos; [apply sumabs_nonneg|]. apply Rlt_le, Rinv_0_lt_compat, lt_0_INR.
  unfold rvals64. rewrite map_length. lia.
Qed.

(* a finite mean certifies that every valid element was finite *)
Lemma vmean_finite_inputs xs :
  ffin (vmean64 xs) = true -> (Z.of_nat (length (fvals xs)) < 2 ^ 53)%Z ->
  Forall (fun y => ffin y = true) (fvals xs).
Proof.
  intros Hf Hn. pose proof (vmean_finite_count xs Hf) as H1.
  rewrite vmean_f64_fold in Hf. replace (1 <=? length (fvals xs)) with true in * by (symmetry; apply Nat.leb_le, H1).
  destruct (div_count_val _ _ H1 Hn Hf) as [Hs _]. apply (ffold_finite_inv _ _ Hs).
Qed.

(* against the exact model on the same series *)
Lemma vmean_XR_of_float xs :
  vmean (NA := NumXR) (DT := IsNoneXR) (NF := NumXR) (fun x => x) (map fx xs)
  = if (length (rvals64 xs) =? 0)%nat then None else Some (meanR (rvals64 xs)).
Proof.
  unfold vmean. rewrite vfold_n_spec, vals_map_fx, map_length. cbn [fst snd].
  change (@nzero XR NumXR) with (Some 0). rewrite fold_xadd_some, Rplus_0_l.
  destruct (length (rvals64 xs)) as [|k] eqn:E; [reflexivity|].
  cbn [Nat.leb Nat.eqb]. rewrite xofnat, xdiv_some by (apply not_0_INR; lia). unfold meanR, nR. rewrite E. reflexivity.
Qed.

Theorem vmean_float_vs_exact_model xs :
  ffin (vmean64 xs) = true -> (Z.of_nat (length (fvals xs)) < 2 ^ 53)%Z ->
  exists e, vmean (NA := NumXR) (DT := IsNoneXR) (NF := NumXR) (fun x => x) (map fx xs) = Some e /\
            Rabs (f2r (vmean64 xs) - e)
            <= gam u64 (S (length (rvals64 xs))) * (sumabs (rvals64 xs) / INR (length (rvals64 xs))) + eta64.
Proof.
  intros Hf Hn. exists (meanR (rvals64 xs)). split; [|apply (vmean_binary64_error xs Hf Hn)].
  rewrite vmean_XR_of_float. pose proof (vmean_finite_count xs Hf) as H1.
  unfold rvals64. rewrite map_length. destruct (length (fvals xs)); [lia|reflexivity].
Qed.

(* ===================================================================================================== *)
(* (1d) the rolling mean `ts_vmean_f` at NumF64: add -> emit (sum / n) -> remove                          *)
(* ===================================================================================================== *)
Notation ts_vmean64 w mp := (ts_vmean_f (NA := NumF64) (DT := IsNoneF64) w mp).

(* the state behind output i of ANY moment feature: its first power sum is the float fold over the operands in
   program order, its count is the number of valid elements of the window *)
Lemma mom_emit_state (emit : @mom float -> float) w body xs i v :
  (1 <= w)%nat -> nth_error xs i = Some v ->
  exists s : @mom float,
    nth_error (ts_out (mom_feat (NA := NumF64) (DT := IsNoneF64) emit) body w xs) i = Some (emit s) /\
    m_s1 s = ffold zero (emit_ops w xs i) /\ m_n s = length (fvals (win w i xs)).
Proof.
  intros Hw Hv.
  assert (Hi : (i < length xs)%nat) by (apply nth_error_Some; rewrite Hv; discriminate).
  assert (Ha : nth_error (rargs w xs) i = Some (removed w xs i, v)).
  { unfold rargs. rewrite nth_error_mapi, Hv. reflexivity. }
  set (s0 := state_after (feat_cb (mom_feat (NA := NumF64) (DT := IsNoneF64) emit)) mom0 (firstn i (rargs w xs))).
  exists (mom_pre s0 v). split; [|split].
  - unfold ts_out. rewrite ts_run_iter by exact Hw. fold (rargs w xs).
    rewrite (@run_nth _ _ _ _ _ _ _ _ Ha). reflexivity.
  - unfold emit_ops. rewrite Hv, ffold_app.
    assert (Hs : m_s1 s0 = ffold zero (ops_of (firstn i (rargs w xs))))
      by exact (s1_state_after emit mom0 (firstn i (rargs w xs))).
    rewrite <- Hs. exact (s1_pre emit s0 v).
  - pose proof (cnt_state_after emit w xs i Hw ltac:(lia)) as HC.
    change (cnt_abs s0 (seg (i - (w - 1)) i xs)) in HC.
    unfold cnt_abs in HC.
    rewrite win_seg. unfold wstart. replace (S i - w)%nat with (i - (w - 1))%nat by lia.
    rewrite (@seg_snoc _ (i - (w - 1)) i xs v) by (try lia; exact Hv).
    rewrite fvals_app, fvals_single, app_length, <- HC.
    unfold mom_pre, addop. destruct (not_none v); cbn [mom_add m_n length]; lia.
Qed.

Lemma win_length_le {X} w i (xs : list X) : (1 <= w)%nat -> (length (win w i xs) <= w)%nat.
Proof.
  intros Hw. rewrite win_seg. unfold seg, wstart. rewrite firstn_length. lia.
Qed.

(* the quotient behind a finite output i *)
Lemma ts_vmean_output w mp body xs i o :
  (1 <= w)%nat -> nth_error (ts_out (ts_vmean64 w mp) body w xs) i = Some o -> ffin o = true ->
  (i < length xs)%nat /\ (1 <= length (fvals (win w i xs)))%nat /\
  o = (ffold zero (emit_ops w xs i) / nofnat (A := float) (length (fvals (win w i xs))))%float.
Proof.
  intros Hw Ho Hf.
  assert (Hi : (i < length xs)%nat).
  { destruct (ts_run_total (ts_vmean64 w mp) w xs body Hw) as (out & Hrun & Hlen).
    unfold ts_out in Ho. rewrite Hrun in Ho. rewrite <- Hlen. apply nth_error_Some. rewrite Ho. discriminate. }
  split; [exact Hi|].
  destruct (nth_error xs i) as [v|] eqn:Hv; [|apply nth_error_None in Hv; lia].
  destruct (mom_emit_state (emit_mean (mp_eff mp w 0)) w body xs i v Hw Hv) as (s & Hs & Hs1 & Hn).
  change (mom_feat (emit_mean (mp_eff mp w 0))) with (ts_vmean64 w mp) in Hs.
  rewrite Hs in Ho. injection Ho as <-. unfold emit_mean in *. rewrite Hn, Hs1 in *.
  destruct (mp_eff mp w 0 <=? length (fvals (win w i xs))); [|vm_compute in Hf; discriminate].
  split; [|reflexivity].
  destruct (length (fvals (win w i xs))) as [|k]; [|lia].
  (* a zero count: x / 0 is never finite *)
  exfalso. change (nofnat (A := float) 0) with zero in Hf.
  rewrite ffin_equiv, FP.div_equiv in Hf. change (FP.Prim2B zero) with (FP.Prim2B (FP.B2Prim (B754_zero false))) in Hf.
  rewrite FP.Prim2B_B2Prim in Hf. destruct (FP.Prim2B (ffold zero (emit_ops w xs i))) as [sx|sx| |sx mx ex Hx];
    cbn [Bdiv is_finite] in Hf; discriminate.
Qed.

Lemma sumabs_win_le_habs w xs i : sumabs (rvals64 (win w i xs)) <= habs w xs i.
Proof.
  unfold habs. rewrite win_seg. unfold wstart.
  destruct (Nat.le_gt_cases (S i - w) (S i)) as [H|H]; [|lia].
  rewrite (firstn_seg_split (S i - w) (S i) xs H), rvals64_app, sumabs_app.
  pose proof (sumabs_nonneg (rvals64 (firstn (S i - w) xs))). lra.
Qed.

(* C01 / C06: after ANY history the emitted mean differs from the exact window mean by at most
   ((1+u)^(m+1) - 1) * H / n + eta;  m = additions and subtractions performed so far, H = magnitude they moved *)
Theorem ts_vmean_binary64_error w mp body xs i o :
  (1 <= w)%nat -> (Z.of_nat w < 2 ^ 53)%Z ->
  nth_error (ts_out (ts_vmean64 w mp) body w xs) i = Some o -> ffin o = true ->
  Rabs (f2r o - meanR (rvals64 (win w i xs)))
  <= gam u64 (S (nops w xs i)) * (habs w xs i / INR (length (rvals64 (win w i xs)))) + eta64.
Proof.
  intros Hw Hw53 Ho Hf. destruct (ts_vmean_output w mp body xs i o Hw Ho Hf) as (Hi & H1 & ->).
  assert (Hn : (Z.of_nat (length (fvals (win w i xs))) < 2 ^ 53)%Z).
  { pose proof (length_fvals_le (win w i xs)). pose proof (win_length_le w i xs Hw). lia. }
  assert (Hlen : length (rvals64 (win w i xs)) = length (fvals (win w i xs))) by (unfold rvals64; apply map_length).
  unfold meanR, nR. rewrite Hlen.
  apply mean_of_fold_error; try assumption.
  - destruct (div_count_val _ _ H1 Hn Hf) as [Hs _].
    rewrite <- (emit_ops_sum w xs i Hw Hi), <- (emit_ops_length w xs i Hw Hi), <- (emit_ops_sumabs w xs i Hw Hi).
    apply round_sum_fold, Hs.
  - eapply Rle_trans; [apply sumR_le_sumabs|apply sumabs_win_le_habs].
Qed.

(* the drift is bounded by the number of operations: at most 2i+1 of them (+ the division), moving at most twice
   the history *)
Corollary ts_vmean_binary64_drift w mp body xs i o :
  (1 <= w)%nat -> (Z.of_nat w < 2 ^ 53)%Z ->
  nth_error (ts_out (ts_vmean64 w mp) body w xs) i = Some o -> ffin o = true ->
  Rabs (f2r o - meanR (rvals64 (win w i xs)))
  <= INR (2 * i + 2) * u64 * (1 + u64) ^ (2 * i + 2)
     * (2 * sumabs (rvals64 (firstn (S i) xs)) / INR (length (rvals64 (win w i xs)))) + eta64.
Proof.
  intros Hw Hw53 Ho Hf. eapply Rle_trans; [apply (ts_vmean_binary64_error w mp body xs i o Hw Hw53 Ho Hf)|].
  apply Rplus_le_compat_r.
  destruct (ts_vmean_output w mp body xs i o Hw Ho Hf) as (Hi & H1 & _).
  assert (Hc : 0 < / INR (length (rvals64 (win w i xs)))).
  { apply Rinv_0_lt_compat, lt_0_INR. unfold rvals64. rewrite map_length. lia. }
  pose proof (gam_nonneg u64 (S (nops w xs i)) u64_nonneg) as G0.
  assert (Hle : (S (nops w xs i) <= 2 * i + 2)%nat) by (pose proof (nops_le w xs i Hw); lia).
  pose proof (gam_mono u64 _ _ u64_nonneg Hle) as G1.
  pose proof (gam_le_linear u64 (2 * i + 2) u64_nonneg) as G2.
  pose proof (habs_le w xs i) as H2.
  assert (H0 : 0 <= habs w xs i).
  { unfold habs. pose proof (sumabs_nonneg (rvals64 (firstn (S i) xs))).
    pose proof (sumabs_nonneg (rvals64 (firstn (S i - w) xs))). lra. }
  apply Rmult_le_compat; try lra.
  - unfold Rdiv. apply Rmult_le_pos; lra.
  - unfold Rdiv. apply Rmult_le_compat_r; lra.
Qed.

(* without the absolute term when the computed quotient is in the normal range *)
Theorem ts_vmean_binary64_error_normal w mp body xs i o :
  (1 <= w)%nat -> (Z.of_nat w < 2 ^ 53)%Z ->
  nth_error (ts_out (ts_vmean64 w mp) body w xs) i = Some o -> ffin o = true ->
  bpow radix2 (-1022) <= Rabs (f2r (ffold zero (emit_ops w xs i)) / INR (length (fvals (win w i xs)))) ->
  Rabs (f2r o - meanR (rvals64 (win w i xs)))
  <= gam u64 (S (nops w xs i)) * (habs w xs i / INR (length (rvals64 (win w i xs)))).
Proof.
  intros Hw Hw53 Ho Hf Hnorm. destruct (ts_vmean_output w mp body xs i o Hw Ho Hf) as (Hi & H1 & ->).
  assert (Hn : (Z.of_nat (length (fvals (win w i xs))) < 2 ^ 53)%Z).
  { pose proof (length_fvals_le (win w i xs)). pose proof (win_length_le w i xs Hw). lia. }
  assert (Hlen : length (rvals64 (win w i xs)) = length (fvals (win w i xs))) by (unfold rvals64; apply map_length).
  unfold meanR, nR. rewrite Hlen.
  apply mean_of_fold_error_normal; try assumption.
  - destruct (div_count_val _ _ H1 Hn Hf) as [Hs _].
    rewrite <- (emit_ops_sum w xs i Hw Hi), <- (emit_ops_length w xs i Hw Hi), <- (emit_ops_sumabs w xs i Hw Hi).
    apply round_sum_fold, Hs.
  - eapply Rle_trans; [apply sumR_le_sumabs|apply sumabs_win_le_habs].
Qed.

(* C06, quantitatively, for the mean: two histories followed by the same window *)
Theorem ts_vmean_history_independence_up_to_rounding w mp body1 body2 xs ys i j o1 o2 :
  (1 <= w)%nat -> (Z.of_nat w < 2 ^ 53)%Z -> win w i xs = win w j ys ->
  nth_error (ts_out (ts_vmean64 w mp) body1 w xs) i = Some o1 ->
  nth_error (ts_out (ts_vmean64 w mp) body2 w ys) j = Some o2 ->
  ffin o1 = true -> ffin o2 = true ->
  Rabs (f2r o1 - f2r o2)
  <= (gam u64 (S (nops w xs i)) * habs w xs i + gam u64 (S (nops w ys j)) * habs w ys j)
     / INR (length (rvals64 (win w j ys))) + 2 * eta64.
Proof.
  intros Hw Hw53 HW H1 H2 F1 F2.
  pose proof (ts_vmean_binary64_error w mp body1 xs i o1 Hw Hw53 H1 F1) as E1.
  pose proof (ts_vmean_binary64_error w mp body2 ys j o2 Hw Hw53 H2 F2) as E2.
  rewrite HW in E1. set (M := meanR (rvals64 (win w j ys))) in *.
  replace (f2r o1 - f2r o2) with ((f2r o1 - M) + - (f2r o2 - M)) by ring.
  eapply Rle_trans; [apply Rabs_triang|]. rewrite Rabs_Ropp. unfold Rdiv in *. lra.
Qed.
