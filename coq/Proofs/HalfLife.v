(* Proofs/HalfLife.v — half_life terminates, never panics, stays in range, finds the threshold. *)
From Coq Require Import Lia.
From Tevec Require Import Base.Prelude Model.HalfLife.

Section Proofs.
  Variable above : nat -> bool.
  Variable len : nat.
  (* a lag >= len shifts every element out: the lagged series is all null and the correlation is NaN *)
  Hypothesis above_out : forall k, len <= k -> above k = false.
  Hypothesis Hlen : 1 <= len.

  Lemma pow2_gt i : i < 2 ^ i.
  Proof. apply Nat.pow_gt_lin_r. lia. Qed.

  (* doubling: invariant n = 0 /\ i = 0  or  n = 2^(i-1) = last_n, above last_n *)
  Lemma doubling_spec fuel : forall n last_n i,
    len < fuel + i ->
    (i = 0 /\ n = 0 /\ last_n = 0) \/ (exists j, i = S j /\ n = 2 ^ j /\ last_n = n /\ above n = true) ->
    exists n' last', doubling above len fuel n last_n i = Some (n', last') /\
      last' < n' /\ above n' = false /\ (last' = 0 \/ above last' = true) /\ 1 <= n'.
  Proof.
    induction fuel as [|fuel IH]; intros n last_n i Hf Hinv.
    - exfalso. destruct Hinv as [(-> & -> & ->)|(j & -> & -> & -> & Ha)].
      + lia.
      + (* n = 2^j >= S j > len contradicts above n *)
        pose proof (pow2_gt j). rewrite above_out in Ha by lia. discriminate.
    - cbn [doubling].
      assert (Hn : n < len).
      { destruct Hinv as [(-> & -> & ->)|(j & -> & -> & -> & Ha)].
        - lia.
        - destruct (Nat.lt_ge_cases (2 ^ j) len) as [H|H]; [exact H|].
          rewrite above_out in Ha by exact H. discriminate. }
      replace (n <? len) with true by (symmetry; apply Nat.ltb_lt; exact Hn).
      destruct (above (2 ^ i)) eqn:Ea.
      + apply IH; [lia|]. right. exists i. repeat split; try reflexivity. exact Ea.
      + exists (2 ^ i), last_n. split; [reflexivity|].
        assert (Hpos : 1 <= 2 ^ i) by (pose proof (pow2_gt i); lia).
        destruct Hinv as [(-> & -> & ->)|(j & -> & -> & -> & Ha)].
        * cbn [Nat.pow] in *. repeat split; try assumption; try lia; auto.
        * pose proof (pow2_gt j). cbn [Nat.pow] in *. repeat split; try assumption; try lia; auto.
  Qed.

  Lemma bisect_unfold fuel n last :
    bisect above (S fuel) n last =
    match usub n last with
    | Panic k => Some (Panic k)
    | Ok d => if 1 <? d then
                if above ((n + last) / 2) then bisect above fuel n ((n + last) / 2)
                else bisect above fuel ((n + last) / 2) last
              else Some (Ok n)
    end.
  Proof. reflexivity. Qed.

  (* bisection: the bracket stays ordered (no underflow), shrinks, and ends inside itself *)
  Lemma bisect_spec fuel : forall n last,
    last <= n -> n - last <= fuel ->
    exists r, bisect above (S fuel) n last = Some (Ok r) /\ last <= r <= n /\ (last < n -> last < r).
  Proof.
    induction fuel as [|fuel IH]; intros n last Hle Hf.
    - assert (n = last) by lia. subst n. exists last. rewrite bisect_unfold. unfold usub.
      replace (last <=? last) with true by (symmetry; apply Nat.leb_le; lia).
      rewrite Nat.sub_diag. cbn. repeat split; lia.
    - rewrite bisect_unfold. unfold usub.
      replace (last <=? n) with true by (symmetry; apply Nat.leb_le; lia).
      destruct (1 <? n - last) eqn:E.
      + apply Nat.ltb_lt in E.
        assert (Hmid : last < (n + last) / 2 < n).
        { pose proof (Nat.div_mod (n + last) 2 ltac:(lia)) as Hd.
          pose proof (Nat.mod_upper_bound (n + last) 2 ltac:(lia)). lia. }
        destruct (above ((n + last) / 2)).
        * destruct (IH n ((n + last) / 2) ltac:(lia) ltac:(lia)) as (r & Hr & Hb & Hs).
          exists r. split; [exact Hr|]. split; lia.
        * destruct (IH ((n + last) / 2) last ltac:(lia) ltac:(lia)) as (r & Hr & Hb & Hs).
          exists r. split; [exact Hr|]. split; [lia|]. intros _. apply Hs. lia.
      + apply Nat.ltb_ge in E. exists n. split; [reflexivity|]. split; lia.
  Qed.

  (* with a threshold oracle the bisection returns the threshold, capped by the upper end *)
  Lemma bisect_threshold L fuel : forall n last,
    (forall k, above k = (k <? L)) ->
    last <= n -> last < L -> n - last <= fuel ->
    bisect above (S fuel) n last = Some (Ok (Nat.min L n)).
  Proof.
    intros n last Hmono. revert n last.
    induction fuel as [|fuel IH]; intros n last Hle HL Hf.
    - assert (n = last) by lia. subst n. rewrite bisect_unfold. unfold usub.
      replace (last <=? last) with true by (symmetry; apply Nat.leb_le; lia).
      rewrite Nat.sub_diag. cbn. do 2 f_equal. lia.
    - rewrite bisect_unfold. unfold usub.
      replace (last <=? n) with true by (symmetry; apply Nat.leb_le; lia).
      destruct (1 <? n - last) eqn:E.
      + apply Nat.ltb_lt in E.
        assert (Hmid : last < (n + last) / 2 < n).
        { pose proof (Nat.div_mod (n + last) 2 ltac:(lia)) as Hd.
          pose proof (Nat.mod_upper_bound (n + last) 2 ltac:(lia)). lia. }
        rewrite Hmono. destruct ((n + last) / 2 <? L) eqn:EL.
        * apply Nat.ltb_lt in EL. apply IH; lia.
        * apply Nat.ltb_ge in EL. rewrite IH by lia. do 2 f_equal. lia.
      + apply Nat.ltb_ge in E. do 2 f_equal.
        destruct (Nat.le_gt_cases L n); lia.
  Qed.

  (* ---- the whole function ---------------------------------------------------------------- *)
  Theorem half_life_total :
    exists r, half_life above len = Some (Ok r) /\ r <= len - 1 /\ (2 <= len -> 1 <= r).
  Proof.
    unfold half_life. replace (len =? 0) with false by (symmetry; apply Nat.eqb_neq; lia).
    destruct (doubling_spec (S (S len)) 0 0 0 ltac:(lia) ltac:(left; auto))
      as (n' & last' & Hd & Hlt & Hn' & Hl' & Hpos).
    rewrite Hd.
    assert (Hlast : last' <= len - 1).
    { destruct Hl' as [->|Ha]; [lia|].
      destruct (Nat.lt_ge_cases last' len) as [H|H]; [lia|]. rewrite above_out in Ha by exact H. discriminate. }
    destruct (bisect_spec len (Nat.min n' (len - 1)) last' ltac:(lia) ltac:(lia)) as (r & Hr & Hb & Hs).
    exists r. split; [exact Hr|]. split; [lia|]. intros H2.
    destruct (Nat.eq_dec last' 0) as [->|Hne]; [apply Hs; lia|lia].
  Qed.

  Theorem half_life_threshold L :
    1 <= L -> (forall k, above k = (k <? L)) ->
    half_life above len = Some (Ok (Nat.min L (len - 1))).
  Proof.
    intros HL Hmono.
    unfold half_life. replace (len =? 0) with false by (symmetry; apply Nat.eqb_neq; lia).
    destruct (doubling_spec (S (S len)) 0 0 0 ltac:(lia) ltac:(left; auto))
      as (n' & last' & Hd & Hlt & Hn' & Hl' & Hpos).
    rewrite Hd.
    assert (HLn : L <= n'). { rewrite Hmono in Hn'. apply Nat.ltb_ge in Hn'. exact Hn'. }
    assert (HlL : last' < L).
    { destruct Hl' as [->|Ha]; [lia|]. rewrite Hmono in Ha. apply Nat.ltb_lt in Ha. exact Ha. }
    assert (HLlen : L <= len).
    { destruct (Nat.le_gt_cases L len) as [H|H]; [exact H|].
      pose proof (above_out len ltac:(lia)) as Hc. rewrite Hmono in Hc. apply Nat.ltb_ge in Hc. lia. }
    rewrite (bisect_threshold L len) by (try assumption; lia).
    do 2 f_equal. lia.
  Qed.
End Proofs.

(* len = 0 needs no oracle *)
Lemma half_life_empty above : half_life above 0 = Some (Ok 0).
Proof. reflexivity. Qed.

(* before the repair the `above` arm assigned (last_n, n) := (life, last_n): the next `n - last_n`
   underflowed.  Model of that arm and a witness: *)
Fixpoint bisect_old (above : nat -> bool) (fuel n last_n : nat) : option (res nat) :=
  match fuel with
  | O => None
  | S fuel' =>
      match usub n last_n with
      | Panic k => Some (Panic k)
      | Ok d => if 1 <? d then
                  let life := (n + last_n) / 2 in
                  if above life then bisect_old above fuel' last_n life else bisect_old above fuel' life last_n
                else Some (Ok n)
      end
  end.
Lemma half_life_old_refuted :
  exists above n last, last < n /\ bisect_old above 10 n last = Some (Panic Underflow).
Proof. exists (fun k => k <? 7), 8, 4. split; [lia|reflexivity]. Qed.

