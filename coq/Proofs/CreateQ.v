(* Proofs/CreateQ.v — the generators read in exact rational arithmetic: the same polymorphic model
   (Model/Create.v) instantiated at Q.  This is the exact ("real-valued") reading of the float
   statements of C19: what the float code computes when no operation rounds.  Axiom-free. *)
From Coq Require Import QArith Qround Lqa.
From Tevec Require Import Base.Prelude Model.Driver Proofs.Driver Model.Create Proofs.Create.
Set Implicit Arguments.
Local Open Scope Q_scope.

Definition q_ltb (x y : Q) : bool := negb (Qle_bool y x).

(* f64 read exactly: ceil = inject (Qceiling), `as usize` = saturating floor *)
Definition q_ops : num_ops Q :=
  {| n_zero := 0; n_one := 1;
     n_add := Qplus;
     n_sub := fun x y => Ok (x - y);
     n_mul := Qmult;
     n_div := fun x y => Ok (x / y);
     n_ceil := fun x => inject_Z (Qceiling x);
     n_of_usize := fun n => inject_Z (Z.of_nat n);
     n_to_usize := fun x => Ok (Z.to_nat (Qfloor x));
     n_ltb := q_ltb; n_leb := Qle_bool; n_eqb := Qeq_bool |}.

Lemma q_ltb_true x y : q_ltb x y = true <-> x < y.
Proof.
  unfold q_ltb. rewrite negb_true_iff. split.
  - intros H. apply Qnot_le_lt. intros Hle. apply Qle_bool_iff in Hle. congruence.
  - intros H. destruct (Qle_bool y x) eqn:E; [|reflexivity].
    apply Qle_bool_iff in E. exfalso. apply (Qlt_not_le _ _ H E).
Qed.
Lemma q_ltb_false x y : q_ltb x y = false <-> y <= x.
Proof.
  unfold q_ltb. rewrite negb_false_iff. apply Qle_bool_iff.
Qed.
Lemma Qle_bool_false x y : Qle_bool x y = false <-> y < x.
Proof.
  split.
  - intros H. apply Qnot_le_lt. intros Hle. apply Qle_bool_iff in Hle. congruence.
  - intros H. destruct (Qle_bool x y) eqn:E; [|reflexivity].
    apply Qle_bool_iff in E. exfalso. apply (Qlt_not_le _ _ H E).
Qed.

(* x lies strictly before b in the direction of step *)
Definition beforeQ (step x b : Q) : Prop := if q_ltb 0 step then x < b else b < x.

Definition elemQ (a st : Q) (k : nat) : Q := a + st * inject_Z (Z.of_nat k).

Lemma elem_at_Q a st k : elem_at q_ops a st k = elemQ a st k.
Proof. reflexivity. Qed.

(* k < ceil q  <->  k < q, for an integer k *)
Lemma lt_ceiling (q : Q) (k : Z) : (k < Qceiling q)%Z <-> inject_Z k < q.
Proof.
  split; intros H.
  - pose proof (Qceiling_lt q) as Hc.
    assert (inject_Z k <= inject_Z (Qceiling q - 1)) by (rewrite <- Zle_Qle; lia).
    eapply Qle_lt_trans; [exact H0|exact Hc].
  - pose proof (Qle_ceiling q) as Hc. rewrite Zlt_Qlt. eapply Qlt_le_trans; [exact H|exact Hc].
Qed.

Lemma mul_div_pos (span step x : Q) : 0 < step -> (step * x < span <-> x < span / step).
Proof.
  intros Hs. split; intros H.
  - apply Qlt_shift_div_l; [exact Hs|]. rewrite Qmult_comm. exact H.
  - assert (x * step < span / step * step) by (apply Qmult_lt_compat_r; assumption).
    rewrite Qmult_comm. eapply Qlt_le_trans; [exact H0|].
    unfold Qdiv. rewrite <- Qmult_assoc, (Qmult_comm (/ step)), Qmult_inv_r, Qmult_1_r; [apply Qle_refl|].
    intros E. rewrite E in Hs. apply (Qlt_irrefl 0 Hs).
Qed.

Lemma div_opp_opp (x y : Q) : ~ y == 0 -> (- x) / (- y) == x / y.
Proof. intros H. field. exact H. Qed.

Lemma mul_div_neg (span step x : Q) : step < 0 -> (span < step * x <-> x < span / step).
Proof.
  intros Hs.
  assert (Hne : ~ step == 0) by (intros E; rewrite E in Hs; apply (Qlt_irrefl 0 Hs)).
  rewrite <- (div_opp_opp span Hne).
  rewrite <- (@mul_div_pos (- span) (- step) x) by lra.
  split; intros H; nra.
Qed.

Lemma range_new_Q (a b step : Q) :
  ~ step == 0 ->
  exists n : nat,
    range_new q_ops a b step = Ok (LS a step 0%nat n) /\
    forall k : nat, (k < n)%nat <-> beforeQ step (elemQ a step k) b.
Proof.
  intros Hne. unfold range_new, gtb, geb, beforeQ, elemQ.
  cbn [q_ops n_zero n_one n_ltb n_leb n_eqb n_sub n_div n_mul n_add n_ceil n_to_usize bind].
  destruct (q_ltb 0 step) eqn:Epos.
  - apply q_ltb_true in Epos. destruct (Qle_bool b a) eqn:Eba.
    + apply Qle_bool_iff in Eba. exists 0%nat. split; [reflexivity|]. intros k. split; [lia|].
      intros H. exfalso.
      assert (0 <= inject_Z (Z.of_nat k)) by (change 0 with (inject_Z 0); rewrite <- Zle_Qle; lia).
      nra.
    + apply Qle_bool_false in Eba.
      set (span := b - a). set (q := span / step). set (c := Qceiling q).
      assert (Hspan : 0 < span) by (unfold span; lra).
      assert (Hq : q <= inject_Z c) by apply Qle_ceiling.
      assert (Hrest : span - inject_Z c * step <= 0).
      { assert (span == q * step) by (unfold q; field; exact Hne). nra. }
      replace (q_ltb 0 (span - inject_Z c * step)) with false
        by (symmetry; apply q_ltb_false; exact Hrest).
      cbn [Bool.eqb]. rewrite andb_false_r. rewrite Qfloor_Z.
      exists (Z.to_nat c). split; [reflexivity|]. intros k.
      assert (Hk : (k < Z.to_nat c)%nat <-> (Z.of_nat k < c)%Z).
      { split; intros H; [|lia]. destruct (Z_lt_le_dec c 0); lia. }
      rewrite Hk. unfold c. rewrite lt_ceiling. unfold q. rewrite <- mul_div_pos by exact Epos.
      unfold span. split; intros H; lra.
  - apply q_ltb_false in Epos.
    assert (Hneg : step < 0).
    { apply Qle_lteq in Epos. destruct Epos as [H|H]; [exact H|contradiction]. }
    destruct (Qle_bool a b) eqn:Eab.
    + apply Qle_bool_iff in Eab. exists 0%nat. split; [reflexivity|]. intros k. split; [lia|].
      intros H. exfalso.
      assert (0 <= inject_Z (Z.of_nat k)) by (change 0 with (inject_Z 0); rewrite <- Zle_Qle; lia).
      nra.
    + apply Qle_bool_false in Eab.
      set (span := b - a). set (q := span / step). set (c := Qceiling q).
      assert (Hspan : span < 0) by (unfold span; lra).
      assert (Hq : q <= inject_Z c) by apply Qle_ceiling.
      assert (Hrest : 0 <= span - inject_Z c * step).
      { assert (span == q * step) by (unfold q; field; exact Hne). nra. }
      assert (Hcond : (negb (Qeq_bool (span - inject_Z c * step) 0)
                       && Bool.eqb (q_ltb 0 (span - inject_Z c * step)) false)%bool = false).
      { destruct (Qeq_bool (span - inject_Z c * step) 0) eqn:E0; [reflexivity|]. cbn [negb andb].
        replace (q_ltb 0 (span - inject_Z c * step)) with true; [reflexivity|].
        symmetry. apply q_ltb_true. apply Qle_lteq in Hrest. destruct Hrest as [H|H]; [exact H|].
        exfalso. symmetry in H. apply Qeq_bool_iff in H. congruence. }
      rewrite Hcond. rewrite Qfloor_Z.
      exists (Z.to_nat c). split; [reflexivity|]. intros k.
      assert (Hk : (k < Z.to_nat c)%nat <-> (Z.of_nat k < c)%Z).
      { split; intros H; [|lia]. destruct (Z_lt_le_dec c 0); lia. }
      rewrite Hk. unfold c. rewrite lt_ceiling. unfold q. rewrite <- mul_div_neg by exact Hneg.
      unfold span. split; intros H; lra.
Qed.

Definition dfltQ (d : Q) (o : option Q) : Q := match o with Some v => v | None => d end.

Lemma create_range_Q (trusted : bool) (start : option Q) (e : Q) (step : option Q) :
  let a := dfltQ 0 start in
  let st := dfltQ 1 step in
  ~ st == 0 ->
  exists n : nat,
    create_range q_ops trusted start e step = Done (map (elemQ a st) (seq 0 n)) /\
    forall k : nat, (k < n)%nat <-> beforeQ st (elemQ a st k) e.
Proof.
  cbv zeta. intros Hst.
  destruct (@range_new_Q (dfltQ 0 start) e (dfltQ 1 step) Hst) as (n & Hr & Hk).
  exists n. split; [|exact Hk].
  unfold create_range. cbn [q_ops n_zero n_one].
  change (match start with Some v => v | None => 0 end) with (dfltQ 0 start).
  change (match step with Some v => v | None => 1 end) with (dfltQ 1 step).
  fold q_ops. rewrite Hr. apply (collect_ls_fresh q_ops).
Qed.

(* linspace over Q: n terms a + k*(b-a)/(n-1); first == a; last == b for n >= 2 *)
Definition lin_stepQ (a b : Q) (n : nat) : Q :=
  if (1 <? n)%nat then (b - a) / inject_Z (Z.of_nat (n - 1)) else 0.

Lemma create_linspace_Q (trusted : bool) (start : option Q) (e : Q) (n : nat) :
  create_linspace q_ops trusted start e n
  = Done (map (elemQ (dfltQ 0 start) (lin_stepQ (dfltQ 0 start) e n)) (seq 0 n)).
Proof.
  unfold create_linspace, linspace_new. cbn [q_ops n_zero n_sub n_div n_of_usize bind].
  change (match start with Some v => v | None => 0 end) with (dfltQ 0 start).
  fold q_ops. unfold lin_stepQ. destruct (1 <? n)%nat; cbn [bind]; apply (collect_ls_fresh q_ops).
Qed.

Lemma linspace_Q_shape (a b : Q) (n : nat) :
  elemQ a (lin_stepQ a b n) 0 == a /\
  (forall k, elemQ a (lin_stepQ a b n) (S k) - elemQ a (lin_stepQ a b n) k == lin_stepQ a b n) /\
  ((2 <= n)%nat -> elemQ a (lin_stepQ a b n) (n - 1) == b).
Proof.
  unfold elemQ. split; [|split].
  - cbn. ring.
  - intros k. rewrite Nat2Z.inj_succ. unfold Z.succ. rewrite inject_Z_plus. ring.
  - intros Hn. unfold lin_stepQ. replace (1 <? n)%nat with true by (symmetry; apply Nat.ltb_lt; lia).
    field. change 0 with (inject_Z 0). rewrite inject_Z_injective. lia.
Qed.
