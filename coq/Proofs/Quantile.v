(* Proofs/Quantile.v — vquantile / vmedian / vpercentile_of at XR equal the textbook definitions. *)
From Coq Require Import Reals Lra Lia List Sorting Permutation ZArith Bool.
From Tevec Require Import Base.Prelude Base.Num Base.XR Spec.Stats Model.SortCmp Model.Quantile
     Proofs.SortCmp Proofs.OrderXR.
Import ListNotations.
Local Open Scope R_scope.

(* ---- specification ------------------------------------------------------------------------------ *)
(* value at fractional index h = (n-1) q of the ascending arrangement s of the valid elements *)
Definition quantile_spec (s : list R) (q : R) (m : qmethod) : R :=
  let h := INR (length s - 1) * q in
  let lo := nth (Z.to_nat (Rfloor h)) s 0 in
  let hi := nth (Z.to_nat (Rceil h)) s 0 in
  match m with
  | Linear => lo + (hi - lo) * (h - IZR (Rfloor h))
  | Lower => lo
  | Higher => hi
  | MidPoint => (lo + hi) / 2
  end.

(* ---- small facts about the dictionary at XR ------------------------------------------------------- *)
Lemma count_valid_nv (xs : list XR) : count_valid (DT := IsNoneXR) xs = nv xs.
Proof.
  unfold count_valid, nv. induction xs as [|[x|] xs IH]; cbn; try fold (valid xs); [reflexivity| |exact IH].
  f_equal. exact IH.
Qed.

Lemma vfirst_valid (xs : list XR) :
  vfirst (DT := IsNoneXR) xs = match valid xs with x :: _ => Some (Some x) | [] => None end.
Proof. unfold vfirst. induction xs as [|[x|] xs IH]; cbn; try fold (valid xs); [reflexivity|reflexivity|exact IH]. Qed.

Lemma tcast_some (x : R) : tcast (DT := IsNoneXR) (Some x) = Some x.
Proof. reflexivity. Qed.

Lemma q_in_range q : 0 <= q <= 1 -> negb (nleb nzero (Some q) && nleb (Some q) none) = false.
Proof.
  intros Hq. change (@nzero XR NumXR) with (Some 0). change (@none XR NumXR) with (Some 1).
  rewrite !xleb_true by lra. reflexivity.
Qed.
Lemma nhalf_xr : nhalf (A := XR) = Some (1 / 2).
Proof.
  unfold nhalf. change (@none XR NumXR) with (Some 1). change (@ntwo XR NumXR) with (Some 2).
  rewrite xdiv_some by lra. reflexivity.
Qed.

Lemma last_cons_default {X} (l : list X) a v : last (a :: l) v = last l a.
Proof.
  revert a v. induction l as [|b l IH]; intros a v; [reflexivity|].
  change (last (a :: b :: l) v) with (last (b :: l) v). rewrite (IH b v), (IH b a). reflexivity.
Qed.

(* vmax / vmin of a sorted run of valid elements is its last element *)
Lemma vmax_fold_sorted (l : list R) (v : R) :
  Sorted (rle false) (v :: l) ->
  fold_left (fun acc x => if not_none (H := IsNoneXR) x then
                            Some (match acc with None => unwrap x | Some w => max_with w (unwrap x) end)
                          else acc) (map Some l) (Some (Some v))
  = Some (Some (last l v)).
Proof.
  revert v. induction l as [|a l IH]; intros v Hs; [reflexivity|].
  cbn [map fold_left]. change (not_none (H := IsNoneXR) (Some a)) with true. cbn iota.
  change (unwrap (IsNone := IsNoneXR) (Some a)) with (Some a).
  inversion Hs as [|? ? Hs' Hhd]; subst. inversion Hhd as [|? ? Hva]; subst. unfold rle in Hva.
  unfold max_with. change (nltb (Some v) (Some a)) with (xltb (Some v) (Some a)). cbn [xltb].
  destruct (Rlt_dec v a) as [Hlt|Hge].
  - rewrite IH by exact Hs'. rewrite last_cons_default. reflexivity.
  - assert (v = a) by lra. subst a. rewrite IH by exact Hs'. rewrite last_cons_default. reflexivity.
Qed.
Lemma vmax_sorted (l : list R) :
  Sorted (rle false) l -> l <> [] -> vmax (DT := IsNoneXR) (map Some l) = Some (Some (last l 0)).
Proof.
  intros Hs Hne. destruct l as [|v l]; [contradiction|]. unfold vmax. cbn [map fold_left].
  change (not_none (H := IsNoneXR) (Some v)) with true. cbn iota.
  change (unwrap (IsNone := IsNoneXR) (Some v)) with (Some v).
  rewrite vmax_fold_sorted by exact Hs. rewrite last_cons_default. reflexivity.
Qed.

Lemma vmin_fold_sorted (l : list R) (v : R) :
  Sorted (rle true) (v :: l) ->
  fold_left (fun acc x => if not_none (H := IsNoneXR) x then
                            Some (match acc with None => unwrap x | Some w => min_with w (unwrap x) end)
                          else acc) (map Some l) (Some (Some v))
  = Some (Some (last l v)).
Proof.
  revert v. induction l as [|a l IH]; intros v Hs; [reflexivity|].
  cbn [map fold_left]. change (not_none (H := IsNoneXR) (Some a)) with true. cbn iota.
  change (unwrap (IsNone := IsNoneXR) (Some a)) with (Some a).
  inversion Hs as [|? ? Hs' Hhd]; subst. inversion Hhd as [|? ? Hva]; subst. unfold rle in Hva.
  unfold min_with. change (nltb (Some a) (Some v)) with (xltb (Some a) (Some v)). cbn [xltb].
  destruct (Rlt_dec a v) as [Hlt|Hge].
  - rewrite IH by exact Hs'. rewrite last_cons_default. reflexivity.
  - assert (v = a) by lra. subst a. rewrite IH by exact Hs'. rewrite last_cons_default. reflexivity.
Qed.
Lemma vmin_sorted (l : list R) :
  Sorted (rle true) l -> l <> [] -> vmin (DT := IsNoneXR) (map Some l) = Some (Some (last l 0)).
Proof.
  intros Hs Hne. destruct l as [|v l]; [contradiction|]. unfold vmin. cbn [map fold_left].
  change (not_none (H := IsNoneXR) (Some v)) with true. cbn iota.
  change (unwrap (IsNone := IsNoneXR) (Some v)) with (Some v).
  rewrite vmin_fold_sorted by exact Hs. rewrite last_cons_default. reflexivity.
Qed.

Lemma sorted_firstn {X} (le : X -> X -> Prop) k (l : list X) : Sorted le l -> Sorted le (firstn k l).
Proof.
  intros Hs. revert k. induction Hs as [|a l Hl IH Hhd]; intros k; [rewrite firstn_nil; constructor|].
  destruct k as [|k]; [constructor|]. cbn [firstn]. constructor; [apply IH|].
  destruct Hhd; destruct k; cbn; constructor. assumption.
Qed.

Lemma last_firstn (l : list R) k : (1 <= k <= length l)%nat -> last (firstn k l) 0 = nth (k - 1) l 0.
Proof.
  revert k. induction l as [|a l IH]; intros k Hk; [cbn in Hk; lia|].
  destruct k as [|k]; [lia|]. cbn [firstn length] in *.
  destruct k as [|k]; [reflexivity|].
  cbn [last]. destruct l as [|b l]; [cbn in Hk; lia|].
  change (firstn (S k) (b :: l)) with (b :: firstn k l).
  change (last (b :: firstn k l) 0) with (last (firstn (S k) (b :: l)) 0) at 1.
  replace (match firstn k l with [] => _ | _ :: _ => _ end) with (last (firstn (S k) (b :: l)) 0) by reflexivity.
  rewrite IH by (cbn [length] in *; lia).
  replace (S (S k) - 1)%nat with (S (S k - 1)) by lia. reflexivity.
Qed.

(* select_nth on the canonical form *)
Lemma select_nth_canon rev xs s j :
  Sorted (rle rev) s -> Permutation s (valid xs) -> (j < length s)%nat ->
  select_nth (cmp_dir (DT := IsNoneXR) rev) j xs = Ok (map Some (firstn j s), Some (nth j s 0)).
Proof.
  intros Hs HP Hj. unfold select_nth. rewrite (isort_canon rev xs s Hs HP).
  rewrite nth_error_app1 by (rewrite map_length; exact Hj).
  rewrite nth_error_map, (nth_error_nth' s 0 Hj). cbn [option_map].
  rewrite firstn_app, map_length. replace (j - length s)%nat with 0%nat by lia.
  cbn [firstn]. rewrite app_nil_r, firstn_map. reflexivity.
Qed.

(* ---- the main theorem ----------------------------------------------------------------------------- *)
Lemma INR_Ztonat z : (0 <= z)%Z -> INR (Z.to_nat z) = IZR z.
Proof. intros Hz. rewrite INR_IZR_INZ, Z2Nat.id by exact Hz. reflexivity. Qed.

Lemma vquantile_spec (xs : list XR) (q : R) (m : qmethod) (s : list R) :
  0 <= q <= 1 -> Sorted (rle false) s -> Permutation s (valid xs) -> s <> [] ->
  vquantile (Some q) m xs = Ok (Some (Some (quantile_spec s q m))).
Proof.
  intros Hq Hs HP Hne.
  assert (Hn : count_valid (DT := IsNoneXR) xs = length s).
  { rewrite count_valid_nv. unfold nv. symmetry. apply Permutation_length. exact HP. }
  unfold vquantile. rewrite q_in_range by exact Hq. rewrite Hn.
  destruct (length s) as [|n1] eqn:Hlen; [destruct s; [contradiction|discriminate]|].
  cbn [Nat.eqb].
  destruct n1 as [|n2].
  { (* exactly one valid element *)
    cbn [Nat.eqb]. rewrite vfirst_valid.
    destruct s as [|x [|? ?]]; try discriminate.
    apply Permutation_length_1_inv in HP. rewrite HP. rewrite tcast_some.
    unfold quantile_spec. cbn [length Nat.sub INR]. rewrite Rmult_0_l.
    change 0 with (IZR 0). rewrite Rfloor_IZR, Rceil_IZR. cbn [Z.to_nat nth].
    do 3 f_equal. destruct m; lra. }
  cbn [Nat.eqb]. replace (S (S n2) - 1)%nat with (S n2) by lia.
  rewrite xofnat, nhalf_xr.
  set (L := INR (S n2)).
  assert (HL : 1 <= L) by (unfold L; rewrite S_INR; pose proof (pos_INR n2); lra).
  assert (HLZ : L = IZR (Z.of_nat (S n2))) by (unfold L; apply INR_IZR_INZ).
  unfold quantile_spec. rewrite Hlen. replace (S (S n2) - 1)%nat with (S n2) by lia. fold L.
  set (h := L * q).
  assert (Hh : 0 <= h <= IZR (Z.of_nat (S n2))).
  { rewrite <- HLZ. unfold h. split; [apply Rmult_le_pos; lra|]. rewrite <- (Rmult_1_r L) at 2.
    apply Rmult_le_compat_l; lra. }
  pose proof (Rfloor_range h _ Hh) as Hfr. pose proof (Rceil_range h _ Hh) as Hcr.
  destruct (Rle_dec q (1 / 2)) as [Hlo|Hhi].
  - (* ascending branch *)
    rewrite xleb_true by exact Hlo. rewrite xmul_some. fold h.
    cbn [nfloorZ nceilZ NumFloorXR].
    change (@sort_cmp XR NumXR XR IsNoneXR) with (cmp_dir (DT := IsNoneXR) false).
    rewrite (select_nth_canon false xs s (Z.to_nat (Rceil h)) Hs HP) by (rewrite Hlen; lia).
    cbn [bind]. rewrite tcast_some.
    destruct (floor_ceil_cases h) as [[Hint Hcf]|[Hlt Hcf]].
    + rewrite Hcf, Nat.eqb_refl. cbn [negb]. rewrite Hint. do 3 f_equal. destruct m; lra.
    + assert (Hij : Z.to_nat (Rceil h) = S (Z.to_nat (Rfloor h))) by lia.
      rewrite Hij. replace (Z.to_nat (Rfloor h) =? S (Z.to_nat (Rfloor h)))%nat with false
        by (symmetry; apply Nat.eqb_neq; lia).
      cbn [negb].
      rewrite vmax_sorted; [|apply sorted_firstn; exact Hs|].
      2:{ intros E. apply (f_equal (@length R)) in E. rewrite firstn_length, Hlen in E. cbn [length] in E. lia. }
      cbn [opt_cast]. rewrite last_firstn by (rewrite Hlen; lia).
      replace (S (Z.to_nat (Rfloor h)) - 1)%nat with (Z.to_nat (Rfloor h)) by lia.
      set (lo := nth (Z.to_nat (Rfloor h)) s 0). set (hi := nth (S (Z.to_nat (Rfloor h))) s 0).
      destruct m; try reflexivity.
      * (* linear *)
        rewrite !xofnat. rewrite S_INR, INR_Ztonat by lia.
        set (f := IZR (Rfloor h)).
        rewrite !xdiv_some by lra. rewrite !xsub_some.
        rewrite xdiv_some by (intros E; apply (f_equal (fun t => t * L)) in E; field_simplify in E; lra).
        rewrite xmul_some, xadd_some. do 3 f_equal. unfold h. field. lra.
      * change (@ntwo XR NumXR) with (Some 2). rewrite xadd_some, xdiv_some by lra. reflexivity.
  - (* mirrored branch: descending order, 1 - q *)
    rewrite xleb_false by exact Hhi.
    change (@none XR NumXR) with (Some 1). rewrite xsub_some, xmul_some.
    replace (L * (1 - q)) with (IZR (Z.of_nat (S n2)) - h) by (rewrite <- HLZ; unfold h; ring).
    cbn [nfloorZ nceilZ NumFloorXR]. rewrite Rfloor_mirror, Rceil_mirror.
    change (@sort_cmp_rev XR NumXR XR IsNoneXR) with (cmp_dir (DT := IsNoneXR) true).
    assert (Hs' : Sorted (rle true) (rev s)) by (apply sorted_rev; exact Hs).
    assert (HP' : Permutation (rev s) (valid xs)) by (rewrite <- HP; symmetry; apply Permutation_rev).
    rewrite (select_nth_canon true xs (rev s) (Z.to_nat (Z.of_nat (S n2) - Rfloor h)) Hs' HP')
      by (rewrite rev_length, Hlen; lia).
    cbn [bind]. rewrite tcast_some.
    rewrite rev_nth by (rewrite Hlen; lia). rewrite Hlen.
    replace (S (S n2) - S (Z.to_nat (Z.of_nat (S n2) - Rfloor h)))%nat with (Z.to_nat (Rfloor h)) by lia.
    destruct (floor_ceil_cases h) as [[Hint Hcf]|[Hlt Hcf]].
    + rewrite Hcf, Nat.eqb_refl. cbn [negb]. rewrite Hint. do 3 f_equal. destruct m; lra.
    + replace (Z.to_nat (Z.of_nat (S n2) - Rceil h) =? Z.to_nat (Z.of_nat (S n2) - Rfloor h))%nat with false
        by (symmetry; apply Nat.eqb_neq; lia).
      cbn [negb].
      rewrite vmin_sorted; [|apply sorted_firstn; exact Hs'|].
      2:{ intros E. apply (f_equal (@length R)) in E. rewrite firstn_length, rev_length, Hlen in E. cbn [length] in E. lia. }
      cbn [opt_cast]. rewrite last_firstn by (rewrite rev_length, Hlen; lia).
      rewrite rev_nth by (rewrite Hlen; lia). rewrite Hlen.
      replace (S (S n2) - S (Z.to_nat (Z.of_nat (S n2) - Rfloor h) - 1))%nat with (Z.to_nat (Rceil h)) by lia.
      set (lo := nth (Z.to_nat (Rfloor h)) s 0). set (hi := nth (Z.to_nat (Rceil h)) s 0).
      destruct m; try reflexivity.
      * (* linear *)
        rewrite !xofnat. rewrite !INR_Ztonat by lia. rewrite Hcf, !minus_IZR, plus_IZR, <- HLZ.
        set (f := IZR (Rfloor h)).
        rewrite !xdiv_some by lra. rewrite !xsub_some.
        rewrite xdiv_some by (intros E; apply (f_equal (fun t => t * L)) in E; field_simplify in E; lra).
        rewrite xmul_some, xadd_some. do 3 f_equal.
        replace (IZR (Z.of_nat (S n2)) - h) with (L - h) by (rewrite HLZ; reflexivity).
        unfold h. field. lra.
      * change (@ntwo XR NumXR) with (Some 2). rewrite xadd_some, xdiv_some by lra.
        do 3 f_equal. lra.
Qed.

(* null iff no valid element *)
Lemma vquantile_all_null (xs : list XR) (q : R) (m : qmethod) :
  0 <= q <= 1 -> valid xs = [] -> vquantile (Some q) m xs = Ok (Some None).
Proof.
  intros Hq Hv. unfold vquantile. rewrite q_in_range by exact Hq.
  rewrite count_valid_nv. unfold nv. rewrite Hv. reflexivity.
Qed.

Lemma vquantile_bad_q (xs : list XR) (q : R) (m : qmethod) :
  ~ (0 <= q <= 1) -> vquantile (Some q) m xs = Ok None.
Proof.
  intros Hq. unfold vquantile.
  change (@nzero XR NumXR) with (Some 0). change (@none XR NumXR) with (Some 1).
  destruct (Rle_dec 0 q); [rewrite (xleb_true _ _ r)|rewrite (xleb_false _ _ n); reflexivity].
  destruct (Rle_dec q 1); [lra|]. rewrite (xleb_false _ _ n). reflexivity.
Qed.

(* the median: q = 1/2, linear *)
Lemma vmedian_spec (xs : list XR) (s : list R) :
  Sorted (rle false) s -> Permutation s (valid xs) -> s <> [] ->
  vmedian xs = Ok (Some (quantile_spec s (1 / 2) Linear)).
Proof.
  intros Hs HP Hne. unfold vmedian. rewrite nhalf_xr.
  rewrite (vquantile_spec xs (1 / 2) Linear s); try assumption; [reflexivity|lra].
Qed.

(* ---- vpercentile_of -------------------------------------------------------------------------------- *)
Definition count_lt (sc : R) (l : list R) : nat := length (filter (fun x => if Rlt_dec x sc then true else false) l).
Definition count_eq (sc : R) (l : list R) : nat := length (filter (fun x => if Req_EM_T x sc then true else false) l).

(* rank: mean of the percentage ranks of the matching scores, L/N when nothing matches;
   weak: proportion of values <= score; strict: proportion of values < score *)
Definition percentile_spec (l : list R) (sc : R) (m : pmethod) : R :=
  let L := INR (count_lt sc l) in
  let E := INR (count_eq sc l) in
  let N := INR (length l) in
  match m with
  | PRank => if (count_eq sc l =? 0)%nat then L / N else (L + (E + 1) / 2) / N
  | PWeak => (L + E) / N
  | PStrict => L / N
  end.

Lemma pct_counts_spec (sc : R) (xs : list XR) (l0 e0 t0 : nat) :
  fold_left (fun (c : nat * nat * nat) v =>
                 let '(l, e, t) := c in
                 if is_none (IsNone := IsNoneXR) v then c else
                 let x := unwrap (IsNone := IsNoneXR) v in
                 if nltb x (Some sc) then (S l, e, S t)
                 else if neqb x (Some sc) then (l, S e, S t)
                 else (l, e, S t)) xs (l0, e0, t0)
  = ((l0 + count_lt sc (valid xs))%nat, (e0 + count_eq sc (valid xs))%nat, (t0 + length (valid xs))%nat).
Proof.
  revert l0 e0 t0. induction xs as [|[x|] xs IH]; intros l0 e0 t0.
  - cbn. (apply f_equal2; [apply f_equal2|]; lia).
  - cbn [fold_left]. change (is_none (IsNone := IsNoneXR) (Some x)) with false. cbn iota.
    change (unwrap (IsNone := IsNoneXR) (Some x)) with (Some x).
    change (nltb (Some x) (Some sc)) with (xltb (Some x) (Some sc)).
    change (neqb (Some x) (Some sc)) with (xeqb (Some x) (Some sc)). cbn [xltb xeqb].
    unfold count_lt, count_eq. cbn [valid flat_map app filter]. fold (valid xs).
    destruct (Rlt_dec x sc) as [Hlt|Hge].
    + destruct (Req_EM_T x sc); [lra|]. rewrite IH. unfold count_lt, count_eq. cbn [length].
      (apply f_equal2; [apply f_equal2|]; lia).
    + destruct (Req_EM_T x sc).
      * rewrite IH. unfold count_lt, count_eq. cbn [length]. (apply f_equal2; [apply f_equal2|]; lia).
      * rewrite IH. unfold count_lt, count_eq. cbn [length]. (apply f_equal2; [apply f_equal2|]; lia).
  - cbn [fold_left]. change (is_none (IsNone := IsNoneXR) None) with true. cbn iota. apply IH.
Qed.

Lemma vpercentile_of_spec (xs : list XR) (sc : R) (m : pmethod) :
  valid xs <> [] ->
  vpercentile_of (Some sc) m xs = Some (percentile_spec (valid xs) sc m).
Proof.
  intros Hne. unfold vpercentile_of.
  change (is_none (IsNone := IsNoneXR) (Some sc)) with false. cbn iota.
  change (unwrap (IsNone := IsNoneXR) (Some sc)) with (Some sc).
  unfold pct_counts. rewrite pct_counts_spec. cbn [Nat.add].
  set (Lc := count_lt sc (valid xs)). set (Ec := count_eq sc (valid xs)).
  destruct (length (valid xs)) as [|n1] eqn:Hlen; [destruct (valid xs); [contradiction|discriminate]|].
  cbn [Nat.eqb].
  assert (HN : INR (S n1) <> 0) by (rewrite S_INR; pose proof (pos_INR n1); lra).
  unfold percentile_spec. fold Lc Ec. rewrite Hlen.
  destruct m.
  - destruct (1 <? Ec)%nat eqn:E1.
    + apply Nat.ltb_lt in E1. replace (Ec =? 0)%nat with false by (symmetry; apply Nat.eqb_neq; lia).
      rewrite !xofnat, nhalf_xr, xmul_some, xdiv_some by exact HN. do 2 f_equal.
      replace (Lc + 1 + (Lc + 1 + (Ec - 1)))%nat with (Lc + Lc + Ec + 1)%nat by lia.
      rewrite !plus_INR. cbn [INR]. field; exact HN.
    + apply Nat.ltb_ge in E1. rewrite !xofnat, xdiv_some by exact HN.
      destruct Ec as [|[|?]]; [| |lia].
      * cbn [Nat.eqb]. rewrite Nat.add_0_r. reflexivity.
      * cbn [Nat.eqb]. do 2 f_equal. rewrite plus_INR. cbn [INR]. field; exact HN.
  - rewrite !xofnat, xdiv_some by exact HN. rewrite plus_INR. reflexivity.
  - rewrite !xofnat, xdiv_some by exact HN. reflexivity.
Qed.

Lemma vpercentile_of_null_score (xs : list XR) (m : pmethod) : vpercentile_of None m xs = None.
Proof. reflexivity. Qed.

Lemma vpercentile_of_all_null (xs : list XR) (sc : XR) (m : pmethod) :
  valid xs = [] -> vpercentile_of sc m xs = None.
Proof.
  intros Hv. destruct sc as [sc|]; [|reflexivity]. unfold vpercentile_of.
  change (is_none (IsNone := IsNoneXR) (Some sc)) with false. cbn iota.
  change (unwrap (IsNone := IsNoneXR) (Some sc)) with (Some sc).
  unfold pct_counts. rewrite pct_counts_spec, Hv. reflexivity.
Qed.
