(* Proofs/Spearman.v — C20: vcorr(.., Spearman) is Pearson of the average ranks (C12's
   characterisation of vrank) and ranks — hence Spearman — are invariant under strictly increasing
   maps of either series.  Carrier XR.                                                             *)
From Coq Require Import Reals Lra Lia List Sorting Permutation ZArith Bool.
From Tevec Require Import Base.Prelude Model.MapOps.
From Tevec Require Import Base.Num Base.XR Spec.Stats Spec.Stats2 Model.SortCmp Model.Quantile Model.Rank
     Model.Agg Model.Composite
     Proofs.SortCmp Proofs.OrderXR Proofs.Quantile Proofs.Partition Proofs.Rank
     Proofs.AggGeneric Proofs.AggXR Proofs.Agg.
Import ListNotations.
Local Open Scope R_scope.

(* the rank vector of a series: a valid x gets #{valid before x} + (#{valid = x} + 1) / 2
   (a fraction of the valid count when pct), a null stays null *)
Definition ranks (pct rev : bool) (xs : list XR) : list XR :=
  map (fun o => match o with Some x => Some (rank_spec pct rev (valid xs) x) | None => None end) xs.
Definition avg_ranks (xs : list XR) : list XR := ranks false false xs.

Lemma slots_map_Some {A} (l : list A) : slots (map Some l) = Some l.
Proof. induction l as [|a l IH]; [reflexivity|]. cbn [map slots]. rewrite IH. reflexivity. Qed.

(* C12_rank as an equation between lists *)
Lemma vrank_ranks (pct rev : bool) (xs : list XR) :
  vrank (DT := IsNoneXR) (DX := IsNoneXXR) pct rev xs = map Some (ranks pct rev xs).
Proof.
  destruct (vrank_spec pct rev xs) as [Hlen Hnth].
  apply nth_error_ext. intros i.
  destruct (Nat.lt_ge_cases i (length xs)) as [Hi|Hi].
  - rewrite (Hnth i Hi). unfold ranks. rewrite !nth_error_map.
    destruct (nth_error xs i) as [o|] eqn:E; [|apply nth_error_None in E; lia].
    cbn [option_map]. unfold rank_expected. rewrite (nth_error_nth xs i None E). reflexivity.
  - rewrite (proj2 (nth_error_None _ _)) by lia.
    symmetry. apply nth_error_None. unfold ranks. rewrite !map_length. exact Hi.
Qed.

Lemma rank_vec_xr (xs : list XR) :
  rank_vec (DT := IsNoneXR) (DX := IsNoneXXR) xs = Some (avg_ranks xs).
Proof. unfold rank_vec. rewrite vrank_ranks. apply slots_map_Some. Qed.

(* Spearman = Pearson (with its pairwise deletion and min_periods) of the two rank vectors *)
Theorem spearman_is_pearson_of_ranks (mp : option nat) (xs ys : list XR) :
  vcorr (DT := IsNoneXR) (DX := IsNoneXXR) mp true xs ys
  = Some (vcorr_pearson (DT := IsNoneXR) (DT2 := IsNoneXR) (fun x : XR => x)
            (mp_default mp (length xs)) (avg_ranks xs) (avg_ranks ys)).
Proof. unfold vcorr. rewrite !rank_vec_xr. reflexivity. Qed.

(* ... which is Pearson's r of the pairwise-complete rank pairs (C11_vcorr_pearson) *)
Theorem spearman_textbook (mp : option nat) (xs ys : list XR) :
  let P := rpairs (DT := IsNoneXR) (DT2 := IsNoneXR) (fun x : XR => x) (avg_ranks xs) (avg_ranks ys) in
  vcorr (DT := IsNoneXR) (DX := IsNoneXXR) mp true xs ys
  = Some (if (length P <? Nat.max (mp_default mp (length xs)) 2)%nat then None
          else if Rlt_dec EPS (popvarR (xs_of P)) then
                 (if Rlt_dec EPS (popvarR (ys_of P)) then Some (corrR P) else None)
               else None).
Proof.
  intros P. rewrite spearman_is_pearson_of_ranks. f_equal.
  apply (vcorr_textbook (mp_default mp (length xs)) (canonical_float (avg_ranks xs)) (canonical_float (avg_ranks ys))).
Qed.

(* ---- invariance -------------------------------------------------------------------------------- *)
Definition strict_mono (f : R -> R) : Prop := forall x y, x < y -> f x < f y.

Lemma strict_mono_lt f x y : strict_mono f -> (f x < f y <-> x < y).
Proof.
  intros Hf. split; [|apply Hf]. intros H.
  destruct (Rlt_le_dec x y) as [L|L]; [exact L|exfalso].
  destruct L as [L|L]; [pose proof (Hf _ _ L); lra|subst; lra].
Qed.
Lemma strict_mono_inj f x y : strict_mono f -> (f x = f y <-> x = y).
Proof.
  intros Hf. split; [|intros ->; reflexivity]. intros H.
  destruct (Rtotal_order x y) as [L|[E|L]]; [|exact E|]; pose proof (Hf _ _ L); lra.
Qed.

Lemma valid_map (f : R -> R) (xs : list XR) : valid (map (option_map f) xs) = map f (valid xs).
Proof.
  induction xs as [|[x|] xs IH]; [reflexivity| |exact IH].
  cbn [map option_map valid flat_map app]. fold (valid xs) (valid (map (option_map f) xs)). f_equal. exact IH.
Qed.

Lemma filter_map_length {X Y} (p : Y -> bool) (q : X -> bool) (g : X -> Y) l :
  (forall a, p (g a) = q a) -> length (filter p (map g l)) = length (filter q l).
Proof.
  intros H. induction l as [|a l IH]; [reflexivity|]. cbn [map filter]. rewrite H.
  destruct (q a); cbn [length]; rewrite IH; reflexivity.
Qed.

Lemma count_before_map rev f x l :
  strict_mono f -> count_before rev (f x) (map f l) = count_before rev x l.
Proof.
  intros Hf. unfold count_before. apply filter_map_length. intros y. unfold before_b.
  destruct rev.
  - destruct (Rlt_dec (f x) (f y)) as [H|H], (Rlt_dec x y) as [H'|H']; try reflexivity; exfalso;
      apply (strict_mono_lt f x y Hf) in H || (apply H; apply Hf; exact H'); contradiction.
  - destruct (Rlt_dec (f y) (f x)) as [H|H], (Rlt_dec y x) as [H'|H']; try reflexivity; exfalso;
      apply (strict_mono_lt f y x Hf) in H || (apply H; apply Hf; exact H'); contradiction.
Qed.

Lemma count_eq_map f x l : strict_mono f -> count_eq (f x) (map f l) = count_eq x l.
Proof.
  intros Hf. unfold count_eq. apply filter_map_length. intros y.
  destruct (Req_EM_T (f y) (f x)) as [H|H], (Req_EM_T y x) as [H'|H']; try reflexivity; exfalso.
  - apply (strict_mono_inj f y x Hf) in H. contradiction.
  - apply H. rewrite H'. reflexivity.
Qed.

Lemma rank_spec_map pct rev f l x :
  strict_mono f -> rank_spec pct rev (map f l) (f x) = rank_spec pct rev l x.
Proof.
  intros Hf. unfold rank_spec. rewrite count_before_map, count_eq_map, map_length by exact Hf. reflexivity.
Qed.

(* ranks only see the order: rank (map f xs) = rank xs for a strictly increasing f (nulls map to nulls) *)
Theorem ranks_invariant (pct rev : bool) (f : R -> R) (xs : list XR) :
  strict_mono f -> ranks pct rev (map (option_map f) xs) = ranks pct rev xs.
Proof.
  intros Hf. unfold ranks. rewrite map_map, valid_map. apply map_ext. intros [x|]; [|reflexivity].
  cbn [option_map]. rewrite rank_spec_map by exact Hf. reflexivity.
Qed.

Theorem vrank_invariant (pct rev : bool) (f : R -> R) (xs : list XR) :
  strict_mono f ->
  vrank (DT := IsNoneXR) (DX := IsNoneXXR) pct rev (map (option_map f) xs)
  = vrank (DT := IsNoneXR) (DX := IsNoneXXR) pct rev xs.
Proof. intros Hf. rewrite !vrank_ranks, ranks_invariant by exact Hf. reflexivity. Qed.

Theorem spearman_invariant (mp : option nat) (f g : R -> R) (xs ys : list XR) :
  strict_mono f -> strict_mono g ->
  vcorr (DT := IsNoneXR) (DX := IsNoneXXR) mp true (map (option_map f) xs) (map (option_map g) ys)
  = vcorr (DT := IsNoneXR) (DX := IsNoneXXR) mp true xs ys.
Proof.
  intros Hf Hg. rewrite !spearman_is_pearson_of_ranks. unfold avg_ranks.
  rewrite !ranks_invariant by assumption. rewrite map_length. reflexivity.
Qed.
