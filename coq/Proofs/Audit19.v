(* Proofs/Audit19.v — C19 audit: the clauses that had no theorem.
   (a) collectors against an iterator whose announced length (upper size hint) is WRONG in either
       direction — plain, default-backend, raw trusted, explicit length, fallible, write_trust_iter;
   (b) `empty`; the number of items a fallible collector pulls;
   (c) linspace / range for EVERY Number dictionary (in particular the binary64 dictionary the
       correspondence run executes): exactly `len` elements, element k = start + step * k in the
       dictionary's own arithmetic, the empty-span rule, and when the generator panics.
   Stdlib only, axiom-free. *)
From Tevec Require Import Base.Prelude Model.Driver Proofs.Driver Model.Create Model.Collect
     Proofs.Create Proofs.Collect.
Set Implicit Arguments.

(* ---------------------------------------------------------------------------------------------- *)
(* (a) plain collectors ignore the announcement                                                     *)
Lemma collect_from_iter_any_hint {A} (hint : nat) (items : list A) :
  collect_from_iter (TI hint items) = Done items.
Proof. reflexivity. Qed.

Lemma empty_spec {A} : @empty A = Done [].
Proof. reflexivity. Qed.

Lemma collect_from_trusted_default_any_hint {A} (hint : nat) (items : list A) :
  collect_from_trusted BDefault (TI hint items) = Done items.
Proof. reflexivity. Qed.

Lemma collect_from_opt_iter_map {A} (none : A) (items : list (option A)) :
  collect_from_opt_iter none items
  = Done (map (fun o => match o with Some v => v | None => none end) items).
Proof. reflexivity. Qed.

(* raw trusted collector: the three cases of the announcement *)
Lemma collect_trusted_short_hint {A} hint (items : list A) :
  hint < length items -> collect_trusted hint items = Panicked OtherPanic.
Proof.
  intros H. unfold collect_trusted.
  replace (hint <? length items) with true by (symmetry; apply Nat.ltb_lt; exact H). reflexivity.
Qed.

Lemma collect_trusted_trichotomy {A} (hint : nat) (items : list A) :
  (hint = length items -> collect_from_trusted BRaw (TI hint items) = Done items) /\
  (length items < hint ->
     collect_from_trusted BRaw (TI hint items)
     = Uninit (map Some items ++ repeat None (hint - length items))) /\
  (hint < length items -> collect_from_trusted BRaw (TI hint items) = Panicked OtherPanic).
Proof.
  cbn [collect_from_trusted ti_hint ti_items]. split; [|split].
  - intros ->. apply collect_trusted_exact.
  - apply collect_trusted_long_hint.
  - apply collect_trusted_short_hint.
Qed.

Lemma collect_trusted_done_iff {A} (b : backend) (hint : nat) (items : list A) :
  collect_from_trusted b (TI hint items) = Done items <-> (b = BDefault \/ hint = length items).
Proof.
  split.
  - destruct b; [|left; reflexivity]. intros H. right.
    cbn [collect_from_trusted ti_hint ti_items] in H. apply collect_trusted_done in H. tauto.
  - intros [->| ->]; [reflexivity|]. destruct b; [|reflexivity].
    apply collect_trusted_exact.
Qed.

Lemma collect_with_len_any {A} (b : backend) (items : list A) (len : nat) :
  collect_with_len b items len
  = match b with
    | BDefault => Done items
    | BRaw => if len <? length items then Panicked OtherPanic
              else if length items <? len
                   then Uninit (map Some items ++ repeat None (len - length items))
                   else Done items
    end.
Proof.
  unfold collect_with_len, to_trust. destruct b; [|reflexivity].
  destruct (collect_trusted_trichotomy len items) as (H1 & H2 & H3).
  destruct (len <? length items) eqn:E1.
  - apply H3. apply Nat.ltb_lt. exact E1.
  - apply Nat.ltb_ge in E1. destruct (length items <? len) eqn:E2.
    + apply H2. apply Nat.ltb_lt. exact E2.
    + apply Nat.ltb_ge in E2. apply H1. lia.
Qed.

(* ---------------------------------------------------------------------------------------------- *)
(* fallible collectors against any announcement                                                     *)
Section TryAny.
  Context {A E : Type}.

  Lemma fill_finish_exact (xs : list A) :
    finish (fill_from 0 xs (repeat None (length xs))) = Done xs.
  Proof. rewrite fill_from_exact. unfold finish. rewrite assume_init_map_Some. reflexivity. Qed.

  Lemma fill_finish_long (xs : list A) hint :
    length xs < hint ->
    finish (fill_from 0 xs (repeat None hint)) = Uninit (map Some xs ++ repeat None (hint - length xs)).
  Proof.
    intros Hlt. pose proof (fill_from_app xs [] (hint - length xs)) as H. cbn [length app] in H.
    replace (length xs + (hint - length xs)) with hint in H by lia. rewrite H.
    unfold finish. destruct (hint - length xs) as [|k] eqn:Ek; [lia|].
    cbn [repeat]. rewrite assume_init_app_None. reflexivity.
  Qed.

  (* default bodies: the announcement is never read *)
  Lemma try_collect_trusted_default_any (hint : nat) (items : list (A + E)) :
    try_collect_from_trusted BDefault (TI hint items) = try_collect_from_iter (TI hint items).
  Proof. reflexivity. Qed.

  (* raw body, no error among the items *)
  Lemma try_collect_trusted_raw_all_ok (hint : nat) (xs : list A) :
    try_collect_from_trusted BRaw (TI hint (map (@inl A E) xs))
    = if hint <? length xs then TOk (Panicked OtherPanic)
      else if length xs <? hint then TOk (Uninit (map Some xs ++ repeat None (hint - length xs)))
           else TOk (Done xs).
  Proof.
    cbn [try_collect_from_trusted ti_hint ti_items]. rewrite ok_prefix_all, first_err_all.
    destruct (hint <? length xs) eqn:E1; [reflexivity|]. apply Nat.ltb_ge in E1.
    destruct (length xs <? hint) eqn:E2.
    - apply Nat.ltb_lt in E2. rewrite fill_finish_long by exact E2. reflexivity.
    - apply Nat.ltb_ge in E2. replace hint with (length xs) by lia. rewrite fill_finish_exact. reflexivity.
  Qed.

  (* raw body, first error after the Ok items xs: the FIRST error, unless the announcement was so
     short that the writes overran the allocation before the error was reached *)
  Lemma try_collect_trusted_raw_err (hint : nat) (xs : list A) (e : E) (rest : list (A + E)) :
    try_collect_from_trusted BRaw (TI hint (map (@inl A E) xs ++ inr e :: rest))
    = if hint <? length xs then TOk (Panicked OtherPanic) else TErr e.
  Proof.
    cbn [try_collect_from_trusted ti_hint ti_items]. rewrite ok_prefix_err, first_err_err. reflexivity.
  Qed.

  Lemma pulled_shape (xs : list A) (e : E) (rest : list (A + E)) :
    pulled (map (@inl A E) xs) = length xs /\
    pulled (map (@inl A E) xs ++ inr e :: rest) = S (length xs).
  Proof. split; [apply pulled_all|apply pulled_err]. Qed.
End TryAny.

(* ---------------------------------------------------------------------------------------------- *)
(* write_trust_iter against any announcement                                                        *)
Lemma write_each_gen {A} (items : list A) : forall i n,
  write_each i n items
  = (if n <=? length items then WOk else WPanic UnwrapNone,
     combine (seq i (Nat.min n (length items))) (firstn n items)).
Proof.
  induction items as [|x r IH]; intros i n.
  - destruct n; reflexivity.
  - destruct n as [|n]; [reflexivity|]. cbn [write_each length Nat.min firstn seq combine].
    rewrite IH. reflexivity.
Qed.

Lemma apply_writes_prefix {A} (items : list A) : forall (pre old : list (option A)),
  length items <= length old ->
  apply_writes (combine (seq (length pre) (length items)) items) (pre ++ old)
  = pre ++ map Some items ++ skipn (length items) old.
Proof.
  unfold apply_writes.
  induction items as [|x r IH]; intros pre old Hlen; [reflexivity|].
  destruct old as [|c old]; [cbn in Hlen; lia|]. cbn [length seq combine fold_left fst snd map skipn].
  rewrite set_nth_app.
  specialize (IH (pre ++ [Some x]) old ltac:(cbn in Hlen; lia)).
  rewrite app_length in IH. cbn [length] in IH. rewrite Nat.add_1_r in IH.
  rewrite <- app_assoc in IH. cbn [app] in IH. rewrite IH, <- app_assoc. reflexivity.
Qed.

(* every (buffer length, announced length, actual items) *)
Lemma write_trust_iter_any {A} (old : list (option A)) (hint : nat) (items : list A) :
  let len := length old in
  let r := write_trust_iter len (TI hint items) in
  (len = 0 -> r = (WOk, [])) /\
  (len <> 0 -> len = hint -> len <= length items ->
     r = (WOk, combine (seq 0 len) (firstn len items))
     /\ apply_writes (snd r) old = map Some (firstn len items)) /\
  (len <> 0 -> len = hint -> length items < len ->
     r = (WPanic UnwrapNone, combine (seq 0 (length items)) items)
     /\ apply_writes (snd r) old = map Some items ++ skipn (length items) old) /\
  (len <> 0 -> len <> hint -> hint = 1 ->
     match items with
     | [] => r = (WPanic UnwrapNone, [])
     | v :: _ => r = (WOk, map (fun i => (i, v)) (seq 0 len))
                 /\ apply_writes (snd r) old = repeat (Some v) len
     end) /\
  (len <> 0 -> len <> hint -> hint <> 1 -> r = (WErr, []) /\ apply_writes (snd r) old = old).
Proof.
  cbv zeta. unfold write_trust_iter. cbn [ti_hint ti_items].
  split; [intros ->; reflexivity|].
  split.
  { intros H0 He Hle.
    replace (length old =? 0) with false by (symmetry; apply Nat.eqb_neq; exact H0).
    replace (length old =? hint) with true by (symmetry; apply Nat.eqb_eq; exact He).
    rewrite write_each_gen.
    replace (length old <=? length items) with true by (symmetry; apply Nat.leb_le; exact Hle).
    rewrite Nat.min_l by exact Hle. split; [reflexivity|]. cbn [snd].
    pose proof (apply_writes_prefix (firstn (length old) items) [] old) as H.
    rewrite firstn_length, Nat.min_l in H by exact Hle. cbn [length app] in H.
    rewrite H by lia. rewrite skipn_all. apply app_nil_r. }
  split.
  { intros H0 He Hlt.
    replace (length old =? 0) with false by (symmetry; apply Nat.eqb_neq; exact H0).
    replace (length old =? hint) with true by (symmetry; apply Nat.eqb_eq; exact He).
    rewrite write_each_gen.
    replace (length old <=? length items) with false by (symmetry; apply Nat.leb_gt; exact Hlt).
    rewrite Nat.min_r by lia. rewrite firstn_all2 by lia. split; [reflexivity|]. cbn [snd].
    apply (apply_writes_prefix items [] old). lia. }
  split.
  { intros H0 Hne H1.
    replace (length old =? 0) with false by (symmetry; apply Nat.eqb_neq; exact H0).
    replace (length old =? hint) with false by (symmetry; apply Nat.eqb_neq; exact Hne).
    replace (hint =? 1) with true by (symmetry; apply Nat.eqb_eq; exact H1).
    destruct items as [|v rest]; [reflexivity|]. split; [reflexivity|]. cbn [snd].
    apply (apply_writes_broadcast v [] old). reflexivity. }
  intros H0 Hne H1.
  replace (length old =? 0) with false by (symmetry; apply Nat.eqb_neq; exact H0).
  replace (length old =? hint) with false by (symmetry; apply Nat.eqb_neq; exact Hne).
  replace (hint =? 1) with false by (symmetry; apply Nat.eqb_neq; exact H1).
  split; reflexivity.
Qed.

(* Err is returned ONLY with an untouched buffer; a panic can follow a written prefix, but then the
   caller's `assume_init` is never reached *)
Lemma write_trust_iter_err_untouched {A} (old : list (option A)) (it : titer A) :
  fst (write_trust_iter (length old) it) = WErr ->
  snd (write_trust_iter (length old) it) = [] /\ apply_writes (snd (write_trust_iter (length old) it)) old = old.
Proof.
  intros H. destruct (write_trust_iter_slots (length old) it) as (k & _ & Hs & He & _).
  specialize (He H). subst k. cbn [seq] in Hs.
  destruct (snd (write_trust_iter (length old) it)); [split; reflexivity|discriminate].
Qed.

(* ---------------------------------------------------------------------------------------------- *)
(* (c) generators for every Number dictionary                                                       *)
Section GenAny.
  Context {A : Type} (N : num_ops A).

  Definition dflt_zero (o : option A) : A := match o with Some v => v | None => n_zero N end.
  Definition dflt_one (o : option A) : A := match o with Some v => v | None => n_one N end.

  Lemma linspace_new_shape (a b : A) (n : nat) :
    match linspace_new N a b n with
    | Ok s => ls_start s = a /\ ls_index s = 0 /\ ls_len s = n
              /\ (n <= 1 -> ls_step s = n_zero N)
    | Panic _ => 1 < n
    end.
  Proof.
    unfold linspace_new. destruct (1 <? n) eqn:E.
    - apply Nat.ltb_lt in E. destruct (n_sub N b a) as [d|k]; cbn [bind]; [|exact E].
      destruct (n_div N d (n_of_usize N (n - 1))) as [q|k]; cbn [bind]; [|exact E].
      cbn. repeat split; try reflexivity. lia.
    - cbn [bind]. cbn. repeat split; reflexivity.
  Qed.

  (* linspace with n points: exactly n elements, element k = start + step * k — or the panic of the
     step computation, before anything is produced *)
  Lemma create_linspace_any (trusted : bool) (start : option A) (e : A) (n : nat) :
    match linspace_new N (dflt_zero start) e n with
    | Ok s => create_linspace N trusted start e n
              = Done (map (elem_at N (dflt_zero start) (ls_step s)) (seq 0 n))
    | Panic k => create_linspace N trusted start e n = Panicked k
    end.
  Proof.
    unfold create_linspace. fold (dflt_zero start).
    pose proof (linspace_new_shape (dflt_zero start) e n) as H.
    destruct (linspace_new N (dflt_zero start) e n) as [s|k]; [|reflexivity].
    destruct H as (H1 & H2 & H3 & _). destruct s as [a st i m]. cbn in H1, H2, H3. subst a i m.
    apply collect_ls_fresh.
  Qed.

  Lemma range_new_shape (a b step : A) :
    match range_new N a b step with
    | Ok s => ls_start s = a /\ ls_step s = step /\ ls_index s = 0
    | Panic _ => True
    end.
  Proof.
    unfold range_new.
    destruct (if gtb N step (n_zero N) then n_leb N b a else geb N b a); [cbn; auto|].
    destruct (n_sub N b a) as [span|k]; cbn [bind]; [|exact I].
    destruct (n_div N span step) as [q|k]; cbn [bind]; [|exact I].
    destruct (n_sub N span (n_mul N (n_ceil N q) step)) as [rest|k]; cbn [bind]; [|exact I].
    destruct (n_to_usize N _) as [len|k]; cbn [bind]; [|exact I].
    cbn. auto.
  Qed.

  (* range: exactly `count` elements, element k = start + step * k *)
  Lemma create_range_any (trusted : bool) (start : option A) (e : A) (step : option A) :
    match range_new N (dflt_zero start) e (dflt_one step) with
    | Ok s => create_range N trusted start e step
              = Done (map (elem_at N (dflt_zero start) (dflt_one step)) (seq 0 (ls_len s)))
    | Panic k => create_range N trusted start e step = Panicked k
    end.
  Proof.
    unfold create_range. fold (dflt_zero start) (dflt_one step).
    pose proof (range_new_shape (dflt_zero start) e (dflt_one step)) as H.
    destruct (range_new N (dflt_zero start) e (dflt_one step)) as [s|k]; [|reflexivity].
    destruct H as (H1 & H2 & H3). destruct s as [a st i m]. cbn in H1, H2, H3. subst a st i.
    apply collect_ls_fresh.
  Qed.

  (* the empty-span rule, in the dictionary's own comparisons: nothing is computed, [] is returned *)
  Lemma create_range_empty_any (trusted : bool) (start : option A) (e : A) (step : option A) :
    (if gtb N (dflt_one step) (n_zero N) then n_leb N e (dflt_zero start) else geb N e (dflt_zero start)) = true ->
    create_range N trusted start e step = Done [].
  Proof.
    intros H. unfold create_range. fold (dflt_zero start) (dflt_one step). unfold range_new. rewrite H.
    exact (collect_ls_fresh N trusted (dflt_zero start) (dflt_one step) 0).
  Qed.

  Lemma map_elem_length (a st : A) (n : nat) : length (map (elem_at N a st) (seq 0 n)) = n.
  Proof. rewrite map_length, seq_length. reflexivity. Qed.

  Lemma map_elem_nth (a st : A) (n k : nat) :
    k < n -> nth_error (map (elem_at N a st) (seq 0 n)) k = Some (elem_at N a st k).
  Proof.
    intros H. apply map_nth_error.
    rewrite (nth_error_nth' (seq 0 n) 0) by (rewrite seq_length; exact H).
    rewrite seq_nth by exact H. reflexivity.
  Qed.
End GenAny.

(* ---------------------------------------------------------------------------------------------- *)
(* the binary64 dictionary of Run/RunC19.v (the one the correspondence run executes): subtraction and
   division never panic, so linspace ALWAYS returns exactly n elements                              *)
From Coq Require Import Floats.
From Tevec Require Run.RunC19.

Definition f_lin_step (a e : float) (n : nat) : float :=
  if 1 <? n then PrimFloat.div (PrimFloat.sub e a) (Run.RunC19.f_of_usize (n - 1)) else PrimFloat.zero.

Definition f_elem (a st : float) (k : nat) : float :=
  PrimFloat.add a (PrimFloat.mul st (Run.RunC19.f_of_usize k)).

Lemma f_elem_is_elem_at a st k : elem_at Run.RunC19.f_ops a st k = f_elem a st k.
Proof. reflexivity. Qed.

Lemma create_linspace_f64 (trusted : bool) (start : option float) (e : float) (n : nat) :
  let a := match start with Some v => v | None => PrimFloat.zero end in
  Model.Create.create_linspace Run.RunC19.f_ops trusted start e n
  = Done (map (f_elem a (f_lin_step a e n)) (seq 0 n)).
Proof.
  cbv zeta. pose proof (create_linspace_any Run.RunC19.f_ops trusted start e n) as H.
  unfold linspace_new in H. cbn [Run.RunC19.f_ops n_sub n_div bind n_of_usize n_zero] in H.
  unfold f_lin_step. destruct (1 <? n); cbn [bind] in H; exact H.
Qed.

(* range at binary64: a capacity-overflow panic of the count cast, or exactly `count` elements
   start + step * k (rounded as the code rounds them) *)
Lemma create_range_f64 (trusted : bool) (start : option float) (e : float) (step : option float) :
  let a := match start with Some v => v | None => PrimFloat.zero end in
  let st := match step with Some v => v | None => PrimFloat.one end in
  Model.Create.create_range Run.RunC19.f_ops trusted start e step = Panicked Overflow
  \/ exists count : nat,
       Model.Create.create_range Run.RunC19.f_ops trusted start e step = Done (map (f_elem a st) (seq 0 count)).
Proof.
  cbv zeta. pose proof (create_range_any Run.RunC19.f_ops trusted start e step) as H.
  destruct (range_new Run.RunC19.f_ops (dflt_zero Run.RunC19.f_ops start) e (dflt_one Run.RunC19.f_ops step)) as [s|k] eqn:E.
  - right. exists (ls_len s). exact H.
  - left. rewrite H. f_equal.
    revert E. unfold range_new. cbn [Run.RunC19.f_ops n_sub n_div bind n_to_usize].
    destruct (if gtb _ _ _ then _ else _); [discriminate|].
    unfold Run.RunC19.f_to_usize.
    match goal with |- context [Prim2SF ?x] => destruct (Prim2SF x) as [sg|[|]| |[|] m ex] end;
      cbn [bind]; try discriminate; try (intros [= <-]; reflexivity).
    destruct (_ <? _)%Z; cbn [bind]; [intros [= <-]; reflexivity|discriminate].
Qed.
