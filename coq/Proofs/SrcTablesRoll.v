(* Proofs/SrcTablesRoll.v — the translator tie (DESIGN 10.2) extended to the rolling family: conformance of the
   hand-written rolling models with the table `src_min_periods` GENERATED from the Rust source text
   (coq/Gen/SrcTables.v, written by tools/gen_tables.py from the repo's working tree on every run of C05 / C06).

   The table records, for every `fn ts_*` of tea-rolling/src/{features,cmp,norm,binary,reg}.rs and tevec/src/rolling.rs,
   the SHAPE of the first lines of the body that compute the effective min_periods:
       MpShape clamp_first min_window k     [let window = min(self.len(), window);]
                                            let min_periods = min_periods.unwrap_or(window / 2)[.min(window)][.max(k)];
       MpAbsent                             the function takes no min_periods (ts_fdiff).
   Here (1) the shape is given a semantics (`shape_window`, `shape_mp`), related once and for all to `mp_eff` of
   Model/Features.v and `cmp_mp` / `cmp_window` of Model/Cmp.v; (2) a hand-written expected table `model_min_periods` is
   tied, entry by entry, to the MODEL function of that entry point for every window, min_periods, series, carrier and null
   dictionary (`tie_*`; each lemma reads its shape out of the table by name, so table and lemmas cannot drift apart);
   (3) `src_min_periods_conform`: the table extracted from the source IS the expected table; (4) the corollaries
   `src_*`: every model entry point computes its effective min_periods (and, for the cmp family, its window) exactly as
   the shape extracted from the SOURCE says.  Un-commenting the clamp in ts_kurt (seed C05-1 / C06-1), adding a clamp to
   ts_vcov / ts_vcorr (seed C04-1), dropping `.min(window)`, changing `.max(2)` to `.max(1)`: the generated table changes
   and (3) no longer compiles — the proof obligation breaks before any input is run.

   Integer / list statements only: everything here is axiom-free.                                                       *)
From Coq Require Import ZArith List String Lia PeanoNat.
From Tevec Require Import Base.Prelude Base.Num Model.Driver Model.Features Model.Cmp Model.Norm Model.Binary Model.Reg
                          Model.Fdiff Model.Kernels Model.KernelSteps Gen.SrcTables.
Import ListNotations.
Local Open Scope nat_scope.
Local Open Scope string_scope.

(* ---- 1. semantics of a shape ---------------------------------------------------------------------------------------- *)

(* the `window` the rest of the body sees (and hands to the driver), for a series of length len *)
Definition shape_window (s : src_mp_shape) (w len : nat) : nat :=
  match s with
  | MpShape true _ _ => Nat.min len w
  | _ => w
  end.

(* the effective min_periods *)
Definition shape_mp (s : src_mp_shape) (mp : option nat) (w len : nat) : nat :=
  match s with
  | MpShape _ m k =>
      let w' := shape_window s w len in
      let d := match mp with Some x => x | None => w' / 2 end in
      Nat.max (if m then Nat.min d w' else d) k
  | MpAbsent => 0
  end.

(* the two shapes the models use *)
Lemma shape_mp_mp_eff : forall (k : nat) (mp : option nat) (w len : nat),
  shape_mp (MpShape false true k) mp w len = mp_eff mp w k.
Proof. reflexivity. Qed.

Lemma shape_window_unclamped : forall (m : bool) (k w len : nat), shape_window (MpShape false m k) w len = w.
Proof. reflexivity. Qed.

Lemma shape_window_cmp : forall (T : Type) (m : bool) (k w : nat) (xs : list T),
  shape_window (MpShape true m k) w (length xs) = cmp_window w xs.
Proof. reflexivity. Qed.

Lemma shape_mp_cmp : forall (T : Type) (mp : option nat) (w : nat) (xs : list T),
  shape_mp (MpShape true false 0) mp w (length xs) = cmp_mp mp (cmp_window w xs).
Proof. intros T mp w xs. unfold shape_mp, shape_window, cmp_mp, cmp_window. apply Nat.max_0_r. Qed.

(* general facts about every shape *)

(* an explicit or defaulted min_periods is never below the intrinsic minimum k ... *)
Lemma shape_mp_ge_k : forall c m k mp w len, k <= shape_mp (MpShape c m k) mp w len.
Proof. intros c m k mp w len. unfold shape_mp. lia. Qed.

(* ... and with `.min(window)` never above max(window', k): a window full of valid elements is always enough *)
Lemma shape_mp_le_window : forall c k mp w len,
  shape_mp (MpShape c true k) mp w len <= Nat.max (shape_window (MpShape c true k) w len) k.
Proof. intros c k mp w len. unfold shape_mp. lia. Qed.

(* without `.min(window)` an explicit min_periods is taken as it is (raised to k) *)
Lemma shape_mp_explicit_unbounded : forall c k m w len, shape_mp (MpShape c false k) (Some m) w len = Nat.max m k.
Proof. reflexivity. Qed.

(* an omitted min_periods is half the (possibly clamped) window, raised to k *)
Lemma shape_mp_default : forall c m k w len,
  shape_mp (MpShape c m k) None w len = Nat.max (shape_window (MpShape c m k) w len / 2) k.
Proof.
  intros c m k w len. unfold shape_mp. destruct m; [|reflexivity].
  rewrite Nat.min_l; [reflexivity|]. apply Nat.div_le_upper_bound; lia.
Qed.

(* the point of seeds C05-1 / C06-1: a shape that does not clamp first never looks at the series length (so the
   effective min_periods of a prefix is that of the whole series), ... *)
Lemma shape_unclamped_length_independent : forall m k mp w len1 len2,
  shape_mp (MpShape false m k) mp w len1 = shape_mp (MpShape false m k) mp w len2 /\
  shape_window (MpShape false m k) w len1 = shape_window (MpShape false m k) w len2.
Proof. intros; split; reflexivity. Qed.

(* ... a clamping shape does not once the series is at least a window long, or when min_periods is explicit and the
   expression has no `.min(window)` (DESIGN 5.3), ... *)
Lemma shape_clamped_long_series : forall m k mp w len, w <= len ->
  shape_mp (MpShape true m k) mp w len = shape_mp (MpShape false m k) mp w len /\
  shape_window (MpShape true m k) w len = w.
Proof. intros m k mp w len Hle. unfold shape_mp, shape_window. rewrite (Nat.min_r len w Hle). split; reflexivity. Qed.

Lemma shape_clamped_explicit : forall k m w len1 len2,
  shape_mp (MpShape true false k) (Some m) w len1 = shape_mp (MpShape true false k) (Some m) w len2.
Proof. reflexivity. Qed.

(* ... and in general it does depend on the length (the witness: window 10, min_periods omitted, lengths 4 and 10) *)
Lemma shape_clamped_depends_on_length :
  forall m k, k <= 2 -> shape_mp (MpShape true m k) None 10 4 <> shape_mp (MpShape true m k) None 10 10.
Proof.
  intros m k Hk. assert (Hc : k = 0 \/ k = 1 \/ k = 2) by lia.
  destruct Hc as [-> | [-> | ->]]; destruct m; vm_compute; discriminate.
Qed.

(* ---- 2. the expected table, and its tie to the model ------------------------------------------------------------------ *)

Fixpoint mp_lookup {V : Type} (n : string) (l : list (string * V)) : option V :=
  match l with
  | [] => None
  | (k, v) :: r => if String.eqb n k then Some v else mp_lookup n r
  end.

(* hand-written: what the MODEL of each entry point does (sorted by name, like the generated table) *)
Definition model_min_periods : list (string * src_mp_shape) :=
  [("ts_ewm", MpShape false true 0);            (* plain twin: ts_vewm_f at the never-null dictionary *)
   ("ts_fdiff", MpAbsent);                      (* Model/Fdiff.v ts_fdiff: no min_periods argument *)
   ("ts_kurt", MpShape false true 4);           (* plain twin: ts_vkurt_f at IsNone_never *)
   ("ts_mean", MpShape false true 0);
   ("ts_skew", MpShape false true 3);
   ("ts_std", MpShape false true 2);
   ("ts_sum", MpShape false true 0);
   ("ts_var", MpShape false true 2);
   ("ts_vargmax", MpShape true false 0);        (* Model/Cmp.v: cmp_window, cmp_mp *)
   ("ts_vargmin", MpShape true false 0);
   ("ts_vcorr", MpShape false true 0);          (* Model/Binary.v *)
   ("ts_vcov", MpShape false true 2);
   ("ts_vewm", MpShape false true 0);
   ("ts_vfdiff", MpShape false true 0);         (* Model/Fdiff.v *)
   ("ts_vkurt", MpShape false true 4);
   ("ts_vmax", MpShape true false 0);
   ("ts_vmean", MpShape false true 0);
   ("ts_vmin", MpShape true false 0);
   ("ts_vminmaxnorm", MpShape false true 0);    (* Model/Norm.v: "the window is NOT clamped here" *)
   ("ts_vrank", MpShape true false 0);
   ("ts_vreg", MpShape false true 0);           (* Model/Reg.v, trend family *)
   ("ts_vreg_intercept", MpShape false true 0);
   ("ts_vreg_resid_mean", MpShape false true 0);
   ("ts_vreg_slope", MpShape false true 0);
   ("ts_vregx_all", MpShape false true 0);      (* Model/Reg.v, regression on a second series *)
   ("ts_vregx_alpha", MpShape false true 0);
   ("ts_vregx_beta", MpShape false true 0);
   ("ts_vregx_resid_mean", MpShape false true 0);
   ("ts_vregx_resid_skew", MpShape false true 0);
   ("ts_vregx_resid_std", MpShape false true 0);
   ("ts_vskew", MpShape false true 3);
   ("ts_vstd", MpShape false true 2);
   ("ts_vsum", MpShape false true 0);
   ("ts_vtsf", MpShape false true 0);
   ("ts_vvar", MpShape false true 2);
   ("ts_vwma", MpShape false true 0);
   ("ts_vzscore", MpShape false true 0);
   ("ts_wma", MpShape false true 0)].

(* the entry of a table; a missing name gives MpAbsent, under which no tie lemma below would hold *)
Definition shape_in (tbl : list (string * src_mp_shape)) (n : string) : src_mp_shape :=
  match mp_lookup n tbl with Some s => s | None => MpAbsent end.
Definition model_shape : string -> src_mp_shape := shape_in model_min_periods.
Definition src_shape : string -> src_mp_shape := shape_in src_min_periods.

(* Every tie is stated over an arbitrary table-entry function `sh` that agrees with the expected table; it is used
   twice: at `model_shape` (step (a)) and, through the conformance theorem, at `src_shape` (the corollaries).       *)
Section Ties.
  Variable sh : string -> src_mp_shape.
  Hypothesis sh_ok : forall n, sh n = model_shape n.

  Ltac use_sh := intros; rewrite sh_ok; reflexivity.

  (* ---- features.rs: the null-aware moments, ewm, wma — for every carrier and EVERY null dictionary, hence also the
     plain twins ts_sum .. ts_wma, which are the same model functions at IsNone_never (stated separately below) ---- *)
  Section OneSeries.
    Context {A : Type} `{NA : Num A} {T : Type} `{DT : IsNone T A}.

    Lemma tie_ts_vsum : forall w mp len,
      ts_vsum_f (DT := DT) w mp = mom_feat (emit_sum (shape_mp (sh "ts_vsum") mp w len)).
    Proof. use_sh. Qed.
    Lemma tie_ts_vmean : forall w mp len,
      ts_vmean_f (DT := DT) w mp = mom_feat (emit_mean (shape_mp (sh "ts_vmean") mp w len)).
    Proof. use_sh. Qed.
    Lemma tie_ts_vvar : forall w mp len,
      ts_vvar_f (DT := DT) w mp = mom_feat (emit_var (shape_mp (sh "ts_vvar") mp w len)).
    Proof. use_sh. Qed.
    Lemma tie_ts_vstd : forall w mp len,
      ts_vstd_f (DT := DT) w mp = mom_feat (emit_std (shape_mp (sh "ts_vstd") mp w len)).
    Proof. use_sh. Qed.
    Lemma tie_ts_vskew : forall w mp len,
      ts_vskew_f (DT := DT) w mp = mom_feat (emit_skew (shape_mp (sh "ts_vskew") mp w len)).
    Proof. use_sh. Qed.
    Lemma tie_ts_vkurt : forall w mp len,
      ts_vkurt_f (DT := DT) w mp = mom_feat (emit_kurt (shape_mp (sh "ts_vkurt") mp w len)).
    Proof. use_sh. Qed.
    Lemma tie_ts_vewm : forall w mp len,
      ts_vewm_f (DT := DT) w mp =
      {| f_init := {| e_n := 0; e_q := nzero |}; f_pre := ewm_pre w;
         f_emit := ewm_emit w (shape_mp (sh "ts_vewm") mp w len); f_post := ewm_post w |}.
    Proof. use_sh. Qed.
    Lemma tie_ts_vwma : forall w mp len,
      ts_vwma_f (DT := DT) w mp =
      {| f_init := {| w_n := 0; w_sum := nzero; w_xt := nzero |}; f_pre := wma_pre;
         f_emit := wma_emit (shape_mp (sh "ts_vwma") mp w len); f_post := wma_post |}.
    Proof. use_sh. Qed.

    (* norm.rs *)
    Lemma tie_ts_vzscore : forall w mp len,
      ts_vzscore_f (DT := DT) w mp =
      {| f_init := zs0; f_pre := zs_pre; f_emit := zs_emit (shape_mp (sh "ts_vzscore") mp w len); f_post := zs_post |}.
    Proof. use_sh. Qed.
    (* the window handed to the driver is the caller's (no clamp), the callback gets the shape's min_periods *)
    Lemma tie_ts_vminmaxnorm : forall (tmin tmax : A) body w mp (xs : list T),
      ts_vminmaxnorm tmin tmax body w mp xs =
      idx_run body (shape_window (sh "ts_vminmaxnorm") w (length xs))
              (mmnorm_cb tmin tmax (shape_mp (sh "ts_vminmaxnorm") mp w (length xs)) xs) (mm0 tmin tmax) xs.
    Proof. use_sh. Qed.

    (* reg.rs, time-trend family *)
    Lemma tie_ts_vreg : forall w mp len,
      ts_vreg_f (DT := DT) w mp = tr_feat (emit_reg (shape_mp (sh "ts_vreg") mp w len)).
    Proof. use_sh. Qed.
    Lemma tie_ts_vtsf : forall w mp len,
      ts_vtsf_f (DT := DT) w mp = tr_feat (emit_tsf (shape_mp (sh "ts_vtsf") mp w len)).
    Proof. use_sh. Qed.
    Lemma tie_ts_vreg_slope : forall w mp len,
      ts_vreg_slope_f (DT := DT) w mp = tr_feat (emit_slope (shape_mp (sh "ts_vreg_slope") mp w len)).
    Proof. use_sh. Qed.
    Lemma tie_ts_vreg_intercept : forall w mp len,
      ts_vreg_intercept_f (DT := DT) w mp = tr_feat (emit_intercept (shape_mp (sh "ts_vreg_intercept") mp w len)).
    Proof. use_sh. Qed.
    Lemma tie_ts_vreg_resid_mean : forall w mp len,
      ts_vreg_resid_mean_f (DT := DT) w mp = tr_feat (emit_resid_mean (shape_mp (sh "ts_vreg_resid_mean") mp w len)).
    Proof. use_sh. Qed.

    (* tevec/src/rolling.rs: ts_vfdiff (the window is not clamped: the coefficient table is fdiff_coef d w) *)
    Lemma tie_ts_vfdiff : forall body (d : A) w mp (xs : list T),
      ts_vfdiff body d w mp xs =
      let mp' := shape_mp (sh "ts_vfdiff") mp w (length xs) in
      let w' := shape_window (sh "ts_vfdiff") w (length xs) in
      if body then rolling_custom_to w' (ts_vfdiff_cb d w' mp') tt xs
      else rolling_custom_default w' (ts_vfdiff_cb d w' mp') tt xs.
    Proof. use_sh. Qed.

    (* cmp.rs: window AND min_periods come from the clamping shape; w_m1 of ts_vrank is the clamped window - 1 *)
    Lemma tie_ts_vmin : forall body w mp (xs : list T),
      ts_vmin body w mp xs =
      idx_run body (shape_window (sh "ts_vmin") w (length xs))
              (vext_cb sort_cmp (shape_mp (sh "ts_vmin") mp w (length xs)) xs) ext0 xs.
    Proof.
      intros. rewrite sh_ok. unfold ts_vmin, ts_vext. cbv zeta.
      rewrite <- (shape_mp_cmp T mp w xs). reflexivity.
    Qed.
    Lemma tie_ts_vmax : forall body w mp (xs : list T),
      ts_vmax body w mp xs =
      idx_run body (shape_window (sh "ts_vmax") w (length xs))
              (vext_cb sort_cmp_rev (shape_mp (sh "ts_vmax") mp w (length xs)) xs) ext0 xs.
    Proof.
      intros. rewrite sh_ok. unfold ts_vmax, ts_vext. cbv zeta.
      rewrite <- (shape_mp_cmp T mp w xs). reflexivity.
    Qed.
    Lemma tie_ts_vargmin : forall body w mp (xs : list T),
      ts_vargmin body w mp xs =
      idx_run body (shape_window (sh "ts_vargmin") w (length xs))
              (varg_cb sort_cmp (shape_mp (sh "ts_vargmin") mp w (length xs)) xs) ext0 xs.
    Proof.
      intros. rewrite sh_ok. unfold ts_vargmin, ts_varg. cbv zeta.
      rewrite <- (shape_mp_cmp T mp w xs). reflexivity.
    Qed.
    Lemma tie_ts_vargmax : forall body w mp (xs : list T),
      ts_vargmax body w mp xs =
      idx_run body (shape_window (sh "ts_vargmax") w (length xs))
              (varg_cb sort_cmp_rev (shape_mp (sh "ts_vargmax") mp w (length xs)) xs) ext0 xs.
    Proof.
      intros. rewrite sh_ok. unfold ts_vargmax, ts_varg. cbv zeta.
      rewrite <- (shape_mp_cmp T mp w xs). reflexivity.
    Qed.
    Lemma tie_ts_vrank : forall {B : Type} `{NB : Num B} body w mp pct rev (xs : list T),
      ts_vrank (B := B) body w mp pct rev xs =
      let w' := shape_window (sh "ts_vrank") w (length xs) in
      idx_run body w' (vrank_cb (shape_mp (sh "ts_vrank") mp w (length xs)) (w' - 1) pct rev xs) 0 xs.
    Proof.
      intros. rewrite sh_ok. unfold ts_vrank. cbv zeta.
      rewrite <- (shape_mp_cmp T mp w xs). reflexivity.
    Qed.
  End OneSeries.

  (* ---- the plain twins of features.rs (ts_sum .. ts_wma): the SAME model functions at the never-null dictionary;
     each has its own entry in the source table (its own `let min_periods` line), so each gets its own tie ---- *)
  Section Plain.
    Context {A : Type} `{NA : Num A}.
    Notation Dn := (@IsNone_never A).

    Lemma tie_ts_sum : forall w mp len,
      ts_vsum_f (DT := Dn) w mp = mom_feat (DT := Dn) (emit_sum (shape_mp (sh "ts_sum") mp w len)).
    Proof. use_sh. Qed.
    Lemma tie_ts_mean : forall w mp len,
      ts_vmean_f (DT := Dn) w mp = mom_feat (DT := Dn) (emit_mean (shape_mp (sh "ts_mean") mp w len)).
    Proof. use_sh. Qed.
    Lemma tie_ts_var : forall w mp len,
      ts_vvar_f (DT := Dn) w mp = mom_feat (DT := Dn) (emit_var (shape_mp (sh "ts_var") mp w len)).
    Proof. use_sh. Qed.
    Lemma tie_ts_std : forall w mp len,
      ts_vstd_f (DT := Dn) w mp = mom_feat (DT := Dn) (emit_std (shape_mp (sh "ts_std") mp w len)).
    Proof. use_sh. Qed.
    Lemma tie_ts_skew : forall w mp len,
      ts_vskew_f (DT := Dn) w mp = mom_feat (DT := Dn) (emit_skew (shape_mp (sh "ts_skew") mp w len)).
    Proof. use_sh. Qed.
    Lemma tie_ts_kurt : forall w mp len,
      ts_vkurt_f (DT := Dn) w mp = mom_feat (DT := Dn) (emit_kurt (shape_mp (sh "ts_kurt") mp w len)).
    Proof. use_sh. Qed.
    Lemma tie_ts_ewm : forall w mp len,
      ts_vewm_f (DT := Dn) w mp =
      {| f_init := {| e_n := 0; e_q := nzero |}; f_pre := ewm_pre (DT := Dn) w;
         f_emit := ewm_emit w (shape_mp (sh "ts_ewm") mp w len); f_post := ewm_post (DT := Dn) w |}.
    Proof. use_sh. Qed.
    Lemma tie_ts_wma : forall w mp len,
      ts_vwma_f (DT := Dn) w mp =
      {| f_init := {| w_n := 0; w_sum := nzero; w_xt := nzero |}; f_pre := wma_pre (DT := Dn);
         f_emit := wma_emit (shape_mp (sh "ts_wma") mp w len); f_post := wma_post (DT := Dn) |}.
    Proof. use_sh. Qed.
  End Plain.

  (* ---- binary.rs and the regressions on a second series (reg.rs) ---- *)
  Section TwoSeries.
    Context {A : Type} `{NA : Num A} {T1 : Type} {D1 : IsNone T1 A} {T2 : Type} {D2 : IsNone T2 A}.

    Lemma tie_ts_vcov : forall w mp len,
      ts_vcov_f (D1 := D1) (D2 := D2) w mp = csum_feat (emit_cov (shape_mp (sh "ts_vcov") mp w len)).
    Proof. use_sh. Qed.
    Lemma tie_ts_vcorr : forall w mp len,
      ts_vcorr_f (D1 := D1) (D2 := D2) w mp = csum_feat (emit_corr (shape_mp (sh "ts_vcorr") mp w len)).
    Proof. use_sh. Qed.
    Lemma tie_ts_vregx_alpha : forall w mp len,
      ts_vregx_alpha_f (D1 := D1) (D2 := D2) w mp = csum_feat (emit_regx_alpha (shape_mp (sh "ts_vregx_alpha") mp w len)).
    Proof. use_sh. Qed.
    Lemma tie_ts_vregx_beta : forall w mp len,
      ts_vregx_beta_f (D1 := D1) (D2 := D2) w mp = csum_feat (emit_regx_beta (shape_mp (sh "ts_vregx_beta") mp w len)).
    Proof. use_sh. Qed.
    Lemma tie_ts_vregx_all : forall w mp len,
      ts_vregx_all_f (D1 := D1) (D2 := D2) w mp = csum_feat (emit_regx_all (shape_mp (sh "ts_vregx_all") mp w len)).
    Proof. use_sh. Qed.

    (* the three residual statistics share one model function, indexed by the statistic; each source function has its
       own min_periods line, hence three entries *)
    Definition resid_name (k : rstat) : string :=
      match k with RMean => "ts_vregx_resid_mean" | RStd => "ts_vregx_resid_std" | RSkew => "ts_vregx_resid_skew" end.
    Lemma tie_ts_vregx_resid : forall k body w mp (xs : list T1) (ys : list T2),
      ts_vregx_resid k body w mp xs ys =
      let zs := combine xs ys in
      let mp' := shape_mp (sh (resid_name k)) mp w (length xs) in
      let w' := shape_window (sh (resid_name k)) w (length xs) in
      if body then rolling2_apply_idx_to w' (resid_cb k mp' zs) csum0 xs ys
      else rolling2_apply_idx_default w' (resid_cb k mp' zs) csum0 xs ys.
    Proof. intros k; destruct k; use_sh. Qed.
  End TwoSeries.

  (* ---- the second models of the index-form entry points: the read / write traces and the step lists the C10 / C08
     checks compare (Model/Kernels.v, Model/KernelSteps.v) embed the same min_periods expressions ---- *)
  Section Traces.
    Context {A : Type} `{NA : Num A} {T : Type} `{DT : IsNone T A}.
    Lemma tie_trace_ts_vext : forall scmp (name : string) body w mp (xs : list T),
      name = "ts_vmin" \/ name = "ts_vmax" ->
      trace_ts_vext scmp body w mp xs =
      kernel_trace body false (shape_window (sh name) w (length xs))
                   (vext_cb_tr scmp (shape_mp (sh name) mp w (length xs)) xs) ext0 xs
      /\ steps_ts_vext scmp body w mp xs =
         kernel_steps body false (shape_window (sh name) w (length xs))
                      (vext_cb_tr scmp (shape_mp (sh name) mp w (length xs)) xs) ext0 xs.
    Proof.
      intros scmp name body w mp xs [-> | ->]; rewrite sh_ok; unfold trace_ts_vext, steps_ts_vext; cbv zeta;
        rewrite <- (shape_mp_cmp T mp w xs); split; reflexivity.
    Qed.
    Lemma tie_trace_ts_varg : forall scmp (name : string) body w mp (xs : list T),
      name = "ts_vargmin" \/ name = "ts_vargmax" ->
      trace_ts_varg scmp body w mp xs =
      kernel_trace body false (shape_window (sh name) w (length xs))
                   (varg_cb_tr scmp (shape_mp (sh name) mp w (length xs)) xs) ext0 xs
      /\ steps_ts_varg scmp body w mp xs =
         kernel_steps body false (shape_window (sh name) w (length xs))
                      (varg_cb_tr scmp (shape_mp (sh name) mp w (length xs)) xs) ext0 xs.
    Proof.
      intros scmp name body w mp xs [-> | ->]; rewrite sh_ok; unfold trace_ts_varg, steps_ts_varg; cbv zeta;
        rewrite <- (shape_mp_cmp T mp w xs); split; reflexivity.
    Qed.
    Lemma tie_trace_ts_vrank : forall {B : Type} `{NB : Num B} body w mp pct rev (xs : list T),
      let w' := shape_window (sh "ts_vrank") w (length xs) in
      let mp' := shape_mp (sh "ts_vrank") mp w (length xs) in
      trace_ts_vrank (B := B) body w mp pct rev xs =
      kernel_trace body false w' (vrank_cb_tr (B := B) mp' (w' - 1) pct rev xs) 0 xs
      /\ steps_ts_vrank (B := B) body w mp pct rev xs =
         kernel_steps body false w' (vrank_cb_tr (B := B) mp' (w' - 1) pct rev xs) 0 xs.
    Proof.
      intros. subst w' mp'. rewrite sh_ok. unfold trace_ts_vrank, steps_ts_vrank. cbv zeta.
      rewrite <- (shape_mp_cmp T mp w xs). split; reflexivity.
    Qed.
    Lemma tie_trace_ts_vminmaxnorm : forall (tmin tmax : A) body w mp (xs : list T),
      let w' := shape_window (sh "ts_vminmaxnorm") w (length xs) in
      let mp' := shape_mp (sh "ts_vminmaxnorm") mp w (length xs) in
      trace_ts_vminmaxnorm tmin tmax body w mp xs =
      kernel_trace body false w' (mmnorm_cb_tr tmin tmax mp' xs) (mm0 tmin tmax) xs
      /\ steps_ts_vminmaxnorm tmin tmax body w mp xs =
         kernel_steps body false w' (mmnorm_cb_tr tmin tmax mp' xs) (mm0 tmin tmax) xs.
    Proof. intros. subst w' mp'. rewrite sh_ok. split; reflexivity. Qed.
  End Traces.
  Section Traces2.
    Context {A : Type} `{NA : Num A} {T1 : Type} {D1 : IsNone T1 A} {T2 : Type} {D2 : IsNone T2 A}.
    Lemma tie_trace_ts_vregx_resid : forall k body w mp (xs : list T1) (ys : list T2),
      let zs := combine xs ys in
      let w' := shape_window (sh (resid_name k)) w (length xs) in
      let mp' := shape_mp (sh (resid_name k)) mp w (length xs) in
      trace_ts_vregx_resid k body w mp xs ys =
        (if body && Nat.ltb (length ys) (length xs) then [] else kernel_trace body true w' (resid_cb_tr k mp' zs) csum0 zs)
      /\ steps_ts_vregx_resid k body w mp xs ys =
        (if body && Nat.ltb (length ys) (length xs) then [] else kernel_steps body true w' (resid_cb_tr k mp' zs) csum0 zs)
      /\ ts_vregx_resid_chk k body w mp xs ys =
        (if body && Nat.ltb (length ys) (length xs) then Panicked AssertFail
         else if bad_window w xs then Panicked AssertFail
         else idx_run body w' (fun s a => snd (resid_cb_tr k mp' zs s a)) csum0 zs).
    Proof. intros k; destruct k; intros; subst zs w' mp'; rewrite sh_ok; repeat split; reflexivity. Qed.
  End Traces2.
End Ties.

(* ts_fdiff: "no min_periods at all" is a fact about the TYPE of the model function — this definition type-checks only
   as long as Model/Fdiff.v ts_fdiff takes (body, d, window, cast, series) and no `option nat` *)
Definition ts_fdiff_takes_no_min_periods :
  forall {A : Type} `{NA : Num A} {T : Type}, bool -> A -> nat -> (T -> A) -> list T -> outcome A :=
  fun A NA T => @ts_fdiff A NA T.
Lemma model_ts_fdiff_absent : model_shape "ts_fdiff" = MpAbsent.
Proof. reflexivity. Qed.

(* ---- 3. conformance: the table read from the source is the expected table --------------------------------------------- *)

(* stated first because its failure message names the offending entry points: the entries of the source table that are
   missing from, or different in, the expected table — (name, shape in the source, shape the model has) *)
Definition shape_eqb (a b : src_mp_shape) : bool :=
  match a, b with
  | MpShape c1 m1 k1, MpShape c2 m2 k2 => Bool.eqb c1 c2 && Bool.eqb m1 m2 && Nat.eqb k1 k2
  | MpAbsent, MpAbsent => true
  | _, _ => false
  end.
Definition table_diff (src model : list (string * src_mp_shape)) : list (string * src_mp_shape * option src_mp_shape) :=
  flat_map (fun e => match mp_lookup (fst e) model with
                     | Some s => if shape_eqb (snd e) s then [] else [(fst e, snd e, Some s)]
                     | None => [(fst e, snd e, None)]
                     end) src.
Lemma src_min_periods_no_difference : table_diff src_min_periods model_min_periods = [].
Proof. vm_compute. reflexivity. Qed.

Theorem src_min_periods_conform : src_min_periods = model_min_periods.
Proof. vm_compute. reflexivity. Qed.

Corollary src_min_periods_conform_lookup : forall name, mp_lookup name src_min_periods = mp_lookup name model_min_periods.
Proof. intros name. rewrite src_min_periods_conform. reflexivity. Qed.

Corollary src_shape_ok : forall n, src_shape n = model_shape n.
Proof. intros n. unfold src_shape, model_shape. rewrite src_min_periods_conform. reflexivity. Qed.

(* the table covers 38 entry points, each name once, and only the recognised shapes occur *)
Definition shape_is_known (s : src_mp_shape) : bool :=
  match s with
  | MpShape false true k => Nat.eqb k 0 || Nat.eqb k 2 || Nat.eqb k 3 || Nat.eqb k 4
  | MpShape true false 0 => true
  | MpAbsent => true
  | _ => false
  end.
Fixpoint distinctb (l : list string) : bool :=
  match l with [] => true | x :: r => negb (existsb (String.eqb x) r) && distinctb r end.
Lemma distinctb_NoDup : forall l, distinctb l = true -> NoDup l.
Proof.
  induction l as [|x r IH]; cbn [distinctb]; intros H; [constructor|].
  apply andb_prop in H. destruct H as [Hx Hr]. constructor; [|exact (IH Hr)].
  intros Hin. apply Bool.negb_true_iff in Hx.
  assert (He : existsb (String.eqb x) r = true) by (apply existsb_exists; exists x; split; [exact Hin | apply String.eqb_refl]).
  rewrite He in Hx. discriminate Hx.
Qed.

Theorem src_min_periods_table_shape :
  length src_min_periods = 38 /\
  NoDup (map fst src_min_periods) /\
  forallb (fun e => shape_is_known (snd e)) src_min_periods = true.
Proof.
  split; [vm_compute; reflexivity|]. split; [apply distinctb_NoDup|]; vm_compute; reflexivity.
Qed.

(* ---- 4. the ties at the SOURCE table ------------------------------------------------------------------------------------ *)
(* Each model entry point computes its effective min_periods (and the window it hands to the driver) exactly as the
   shape extracted from the Rust source of that function says — for every window, min_periods, series, carrier, null
   dictionary and both driver bodies.                                                                               *)
Section SrcTies.
  Context {A : Type} `{NA : Num A} {T : Type} `{DT : IsNone T A}.
  Definition src_ts_vsum := tie_ts_vsum src_shape src_shape_ok (DT := DT).
  Definition src_ts_vmean := tie_ts_vmean src_shape src_shape_ok (DT := DT).
  Definition src_ts_vvar := tie_ts_vvar src_shape src_shape_ok (DT := DT).
  Definition src_ts_vstd := tie_ts_vstd src_shape src_shape_ok (DT := DT).
  Definition src_ts_vskew := tie_ts_vskew src_shape src_shape_ok (DT := DT).
  Definition src_ts_vkurt := tie_ts_vkurt src_shape src_shape_ok (DT := DT).
  Definition src_ts_vewm := tie_ts_vewm src_shape src_shape_ok (DT := DT).
  Definition src_ts_vwma := tie_ts_vwma src_shape src_shape_ok (DT := DT).
  Definition src_ts_vzscore := tie_ts_vzscore src_shape src_shape_ok (DT := DT).
  Definition src_ts_vminmaxnorm := tie_ts_vminmaxnorm src_shape src_shape_ok (DT := DT).
  Definition src_ts_vreg := tie_ts_vreg src_shape src_shape_ok (DT := DT).
  Definition src_ts_vtsf := tie_ts_vtsf src_shape src_shape_ok (DT := DT).
  Definition src_ts_vreg_slope := tie_ts_vreg_slope src_shape src_shape_ok (DT := DT).
  Definition src_ts_vreg_intercept := tie_ts_vreg_intercept src_shape src_shape_ok (DT := DT).
  Definition src_ts_vreg_resid_mean := tie_ts_vreg_resid_mean src_shape src_shape_ok (DT := DT).
  Definition src_ts_vfdiff := tie_ts_vfdiff src_shape src_shape_ok (DT := DT).
  Definition src_ts_vmin := tie_ts_vmin src_shape src_shape_ok (DT := DT).
  Definition src_ts_vmax := tie_ts_vmax src_shape src_shape_ok (DT := DT).
  Definition src_ts_vargmin := tie_ts_vargmin src_shape src_shape_ok (DT := DT).
  Definition src_ts_vargmax := tie_ts_vargmax src_shape src_shape_ok (DT := DT).
  Definition src_ts_vrank := tie_ts_vrank src_shape src_shape_ok (DT := DT).
  Definition src_trace_ts_vext := tie_trace_ts_vext src_shape src_shape_ok (DT := DT).
  Definition src_trace_ts_varg := tie_trace_ts_varg src_shape src_shape_ok (DT := DT).
  Definition src_trace_ts_vrank := tie_trace_ts_vrank src_shape src_shape_ok (DT := DT).
  Definition src_trace_ts_vminmaxnorm := tie_trace_ts_vminmaxnorm src_shape src_shape_ok (DT := DT).
  Definition src_ts_sum := tie_ts_sum src_shape src_shape_ok (A := A).
  Definition src_ts_mean := tie_ts_mean src_shape src_shape_ok (A := A).
  Definition src_ts_var := tie_ts_var src_shape src_shape_ok (A := A).
  Definition src_ts_std := tie_ts_std src_shape src_shape_ok (A := A).
  Definition src_ts_skew := tie_ts_skew src_shape src_shape_ok (A := A).
  Definition src_ts_kurt := tie_ts_kurt src_shape src_shape_ok (A := A).
  Definition src_ts_ewm := tie_ts_ewm src_shape src_shape_ok (A := A).
  Definition src_ts_wma := tie_ts_wma src_shape src_shape_ok (A := A).
End SrcTies.
Section SrcTies2.
  Context {A : Type} `{NA : Num A} {T1 : Type} {D1 : IsNone T1 A} {T2 : Type} {D2 : IsNone T2 A}.
  Definition src_ts_vcov := tie_ts_vcov src_shape src_shape_ok (D1 := D1) (D2 := D2).
  Definition src_ts_vcorr := tie_ts_vcorr src_shape src_shape_ok (D1 := D1) (D2 := D2).
  Definition src_ts_vregx_alpha := tie_ts_vregx_alpha src_shape src_shape_ok (D1 := D1) (D2 := D2).
  Definition src_ts_vregx_beta := tie_ts_vregx_beta src_shape src_shape_ok (D1 := D1) (D2 := D2).
  Definition src_ts_vregx_all := tie_ts_vregx_all src_shape src_shape_ok (D1 := D1) (D2 := D2).
  Definition src_ts_vregx_resid := tie_ts_vregx_resid src_shape src_shape_ok (D1 := D1) (D2 := D2).
  Definition src_trace_ts_vregx_resid := tie_trace_ts_vregx_resid src_shape src_shape_ok (D1 := D1) (D2 := D2).
End SrcTies2.

(* ---- 5. what the source table says about length (in)dependence, entry by entry ------------------------------------------ *)
(* For every entry point whose SOURCE does not clamp first — everything except the five cmp.rs functions — the effective
   min_periods and the window are those of `mp_eff` for any series length: the quantity under the C05 masks and the C06
   prefix laws is read off the source.                                                                                 *)
Theorem src_unclamped_entries_use_mp_eff :
  forall name m k, mp_lookup name src_min_periods = Some (MpShape false m k) ->
    m = true /\ forall mp w len, shape_mp (src_shape name) mp w len = mp_eff mp w k /\ shape_window (src_shape name) w len = w.
Proof.
  intros name m k Hl.
  assert (Hk : shape_is_known (MpShape false m k) = true).
  { destruct src_min_periods_table_shape as [_ [_ Hall]]. rewrite forallb_forall in Hall.
    assert (Hin : In (name, MpShape false m k) src_min_periods).
    { revert Hl. generalize src_min_periods. intros l. induction l as [|[n v] l IH]; cbn [mp_lookup]; [discriminate|].
      destruct (String.eqb name n) eqn:E; intros Hl.
      - apply String.eqb_eq in E. subst n. injection Hl as ->. left; reflexivity.
      - right; apply IH; exact Hl. }
    exact (Hall _ Hin). }
  destruct m; [|discriminate Hk]. split; [reflexivity|].
  intros mp w len. unfold src_shape, shape_in. rewrite Hl. split; reflexivity.
Qed.

(* The clamping entries are exactly the extrema / rank family of cmp.rs. *)
Theorem src_clamping_entries :
  map fst (filter (fun e => match snd e with MpShape true _ _ => true | _ => false end) src_min_periods)
  = ["ts_vargmax"; "ts_vargmin"; "ts_vmax"; "ts_vmin"; "ts_vrank"].
Proof. vm_compute. reflexivity. Qed.

(* non-vacuity: the premises above are met by concrete entries, and the semantics computes *)
Example src_unclamped_nonvacuous : mp_lookup "ts_kurt" src_min_periods = Some (MpShape false true 4).
Proof. vm_compute. reflexivity. Qed.
Example shape_mp_examples :
  shape_mp (src_shape "ts_vsum") None 10 3 = 5 /\ shape_mp (src_shape "ts_vsum") (Some 20) 10 3 = 10 /\
  shape_mp (src_shape "ts_kurt") (Some 1) 10 3 = 4 /\ shape_mp (src_shape "ts_vcov") None 3 100 = 2 /\
  shape_mp (src_shape "ts_vmin") None 10 3 = 1 /\ shape_window (src_shape "ts_vmin") 10 3 = 3 /\
  shape_mp (src_shape "ts_vmin") (Some 20) 10 3 = 20 /\ shape_mp (src_shape "ts_vrank") None 10 40 = 5.
Proof. vm_compute. repeat split; reflexivity. Qed.

Print Assumptions src_min_periods_conform.
Print Assumptions src_min_periods_table_shape.
Print Assumptions src_unclamped_entries_use_mp_eff.
Print Assumptions src_ts_vsum.
Print Assumptions src_ts_kurt.
Print Assumptions src_ts_vmin.
Print Assumptions src_ts_vrank.
Print Assumptions src_ts_vregx_resid.
Print Assumptions src_ts_vfdiff.
Print Assumptions src_trace_ts_vext.
Print Assumptions src_trace_ts_vregx_resid.
