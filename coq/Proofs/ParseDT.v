(* Proofs/ParseDT.v — round trip of the default date-time text format on the model of
   Model/ParseDT.v: rendering an instant with "%Y-%m-%d %H:%M:%S.%f" and parsing the text back
   (with that format, and through the rule list of DateTime::parse) returns the instant. *)
From Coq Require Import List ZArith Lia Bool.
From Tevec Require Import Base.Prelude Model.Parse Spec.CalendarC18 Model.ParseDT Proofs.CalendarC18.
Import ListNotations.
Local Open Scope Z_scope.

Local Ltac zdm := Z.div_mod_to_equations; lia.

(* ------------------------------------------------------------------ *)
(* digits *)

Definition dg (c : Z) : Prop := is_digit c = true.
Definition dstep (a c : Z) : Z := a * 10 + (c - 48).

Lemma is_digit_48 x : 0 <= x <= 9 -> is_digit (48 + x) = true.
Proof. intros H. unfold is_digit. apply andb_true_iff. split; apply Z.leb_le; lia. Qed.

Lemma dg_range c : dg c -> 48 <= c <= 57.
Proof. unfold dg, is_digit. intros H. apply andb_true_iff in H. destruct H as [H1 H2].
       apply Z.leb_le in H1, H2. lia. Qed.

Lemma dg_not_ws c : dg c -> is_ws c = false.
Proof.
  intros H. apply dg_range in H. unfold is_ws.
  repeat match goal with
         | |- context [?a <=? ?b] => destruct (Z.leb_spec a b); try lia
         | |- context [?a =? ?b] => destruct (Z.eqb_spec a b); try lia
         end; reflexivity.
Qed.

Lemma take_digits_app : forall ds k rest acc n, Forall dg ds ->
  take_digits (length ds + k) (ds ++ rest) acc n
  = take_digits k rest (fold_left dstep ds acc) (n + length ds)%nat.
Proof.
  induction ds as [|c ds IH]; intros k rest acc n H.
  - cbn [length app fold_left plus]. rewrite Nat.add_0_r. reflexivity.
  - inversion H as [|? ? Hc Hr]; subst. cbn [length app fold_left plus take_digits].
    rewrite Hc. rewrite IH by exact Hr. f_equal. lia.
Qed.

Lemma fixed_digits_length w : forall v, length (fixed_digits w v) = w.
Proof. induction w as [|w IH]; intros v; [reflexivity|].
       cbn [fixed_digits]. rewrite app_length, IH. cbn [length]. lia. Qed.

Lemma fixed_digits_dg w : forall v, Forall dg (fixed_digits w v).
Proof.
  induction w as [|w IH]; intros v; [constructor|].
  cbn [fixed_digits]. apply Forall_app. split; [apply IH|].
  constructor; [|constructor]. apply is_digit_48.
  pose proof (Z.mod_pos_bound v 10 ltac:(lia)). lia.
Qed.

Lemma fixed_digits_val w : forall v acc, 0 <= v ->
  fold_left dstep (fixed_digits w v) acc = acc * 10 ^ Z.of_nat w + v mod 10 ^ Z.of_nat w.
Proof.
  induction w as [|w IH]; intros v acc Hv.
  - cbn [fixed_digits fold_left]. change (10 ^ Z.of_nat 0) with 1. rewrite Z.mod_1_r. lia.
  - cbn [fixed_digits]. rewrite fold_left_app. cbn [fold_left]. unfold dstep at 1.
    rewrite IH by (apply Z.div_pos; lia).
    rewrite Nat2Z.inj_succ, Z.pow_succ_r by lia.
    assert (HP : 0 < 10 ^ Z.of_nat w) by (apply Z.pow_pos_nonneg; lia).
    rewrite (Z.rem_mul_r v 10 (10 ^ Z.of_nat w)) by lia.
    set (P := 10 ^ Z.of_nat w) in *. set (q := (v / 10) mod P). set (r := v mod 10). ring.
Qed.

Lemma scan_fixed w v rest : (0 < w)%nat -> 0 <= v < 10 ^ Z.of_nat w -> v <= i64_max ->
  scan_number (fixed_digits w v ++ rest) w = Some (v, rest).
Proof.
  intros Hw Hv Hm. unfold scan_number.
  pose proof (take_digits_app (fixed_digits w v) 0 rest 0 0 (fixed_digits_dg w v)) as H.
  rewrite fixed_digits_length, Nat.add_0_r in H. rewrite H. clear H.
  cbn [take_digits plus]. rewrite fixed_digits_val by lia. rewrite Z.mod_small by lia.
  cbn [Z.mul Z.add].
  replace (w =? 0)%nat with false by (symmetry; apply Nat.eqb_neq; lia).
  replace (in_i64 v) with true; [reflexivity|].
  symmetry. unfold in_i64, i64_min. apply andb_true_iff. split; apply Z.leb_le; lia.
Qed.

Lemma fixed_head w v rest : (0 < w)%nat ->
  exists c r, fixed_digits w v ++ rest = c :: r /\ dg c.
Proof.
  intros Hw. pose proof (fixed_digits_length w v) as HL. pose proof (fixed_digits_dg w v) as HD.
  destruct (fixed_digits w v) as [|c r]; [cbn in HL; lia|].
  inversion HD; subst. do 2 eexists. split; [reflexivity|assumption].
Qed.

Lemma trim_fixed w v rest : (0 < w)%nat -> trim_start (fixed_digits w v ++ rest) = fixed_digits w v ++ rest.
Proof.
  intros Hw. destruct (fixed_head w v rest Hw) as [c [r [E Hc]]]. rewrite E.
  cbn [trim_start]. rewrite (dg_not_ws c Hc). reflexivity.
Qed.

Lemma num_item w v rest : (0 < w)%nat -> 0 <= v < 10 ^ Z.of_nat w -> v <= i64_max ->
  scan_number (trim_start (fixed_digits w v ++ rest)) w = Some (v, rest).
Proof. intros. rewrite trim_fixed by assumption. apply scan_fixed; assumption. Qed.

Lemma set_field_none lo hi v : lo <= v <= hi -> set_field None lo hi v = Some (Some v).
Proof.
  intros H. unfold set_field.
  replace ((lo <=? v) && (v <=? hi)) with true; [reflexivity|].
  symmetry. apply andb_true_iff. split; apply Z.leb_le; lia.
Qed.

(* ------------------------------------------------------------------ *)
(* items *)

Lemma pi_lit c rest p : parse_item (ILit c) (c :: rest) p = Some (rest, p).
Proof. cbn [parse_item]. rewrite Z.eqb_refl. reflexivity. Qed.

Lemma pi_sp w v rest p : (0 < w)%nat ->
  parse_item ISp (32 :: fixed_digits w v ++ rest) p = Some (fixed_digits w v ++ rest, p).
Proof.
  intros Hw. cbn [parse_item trim_start]. change (is_ws 32) with true. cbv iota.
  rewrite trim_fixed by exact Hw. reflexivity.
Qed.

Lemma pi_Y y rest mo d h mi s ns : 0 <= y <= 9999 ->
  parse_item IY (render_year y ++ rest) (mk_parsed None mo d h mi s ns)
  = Some (rest, mk_parsed (Some y) mo d h mi s ns).
Proof.
  intros Hy. unfold render_year.
  replace ((0 <=? y) && (y <=? 9999)) with true
    by (symmetry; apply andb_true_iff; split; apply Z.leb_le; lia).
  cbn [parse_item]. rewrite trim_fixed by lia.
  destruct (fixed_head 4 y rest ltac:(lia)) as [c [r [E Hc]]].
  pose proof (dg_range c Hc) as Hr. rewrite E.
  replace (c =? 45) with false by (symmetry; apply Z.eqb_neq; lia).
  replace (c =? 43) with false by (symmetry; apply Z.eqb_neq; lia).
  rewrite <- E. rewrite scan_fixed; [|lia|change (10 ^ Z.of_nat 4) with 10000; lia|unfold i64_max; lia].
  cbn [p_y p_mo p_d p_h p_mi p_s p_ns].
  rewrite set_field_none by (unfold i32_min, i32_max; lia). reflexivity.
Qed.

Local Ltac num_item_tac :=
  intros; cbn [parse_item];
  rewrite num_item;
  [ cbn [p_y p_mo p_d p_h p_mi p_s p_ns]; rewrite set_field_none by lia; reflexivity
  | lia
  | first [change (10 ^ Z.of_nat 2) with 100 | change (10 ^ Z.of_nat 9) with 1000000000]; lia
  | unfold i64_max; lia ].

Lemma pi_mon v rest y d h mi s ns : 1 <= v <= 12 ->
  parse_item Imon (fixed_digits 2 v ++ rest) (mk_parsed y None d h mi s ns)
  = Some (rest, mk_parsed y (Some v) d h mi s ns).
Proof. num_item_tac. Qed.

Lemma pi_day v rest y mo h mi s ns : 1 <= v <= 31 ->
  parse_item Iday (fixed_digits 2 v ++ rest) (mk_parsed y mo None h mi s ns)
  = Some (rest, mk_parsed y mo (Some v) h mi s ns).
Proof. num_item_tac. Qed.

Lemma pi_H v rest y mo d mi s ns : 0 <= v <= 23 ->
  parse_item IH (fixed_digits 2 v ++ rest) (mk_parsed y mo d None mi s ns)
  = Some (rest, mk_parsed y mo d (Some v) mi s ns).
Proof. num_item_tac. Qed.

Lemma pi_M v rest y mo d h s ns : 0 <= v <= 59 ->
  parse_item IM (fixed_digits 2 v ++ rest) (mk_parsed y mo d h None s ns)
  = Some (rest, mk_parsed y mo d h (Some v) s ns).
Proof. num_item_tac. Qed.

Lemma pi_S v rest y mo d h mi ns : 0 <= v <= 59 ->
  parse_item IS (fixed_digits 2 v ++ rest) (mk_parsed y mo d h mi None ns)
  = Some (rest, mk_parsed y mo d h mi (Some v) ns).
Proof. num_item_tac. Qed.

Lemma pi_f v rest y mo d h mi s : 0 <= v <= 999999999 ->
  parse_item If (fixed_digits 9 v ++ rest) (mk_parsed y mo d h mi s None)
  = Some (rest, mk_parsed y mo d h mi s (Some v)).
Proof. num_item_tac. Qed.

(* ------------------------------------------------------------------ *)
(* the default format "%Y-%m-%d %H:%M:%S.%f" = rule 0 followed by ".%f" *)

Definition rule0 : list item := [IY; dash; Imon; dash; Iday; ISp; IH; colon; IM; colon; IS].

Definition fields_ok (f : dtf) : Prop :=
  0 <= f_y f <= 9999 /\ 1 <= f_mo f <= 12 /\ 1 <= f_d f <= 31 /\ 0 <= f_h f <= 23 /\
  0 <= f_mi f <= 59 /\ 0 <= f_s f <= 59 /\ 0 <= f_ns f <= 999999999.

Lemma render_app a b f : render (a ++ b) f = render a f ++ render b f.
Proof. unfold render. apply flat_map_app. Qed.

Lemma parse_rule0_prefix f tail rest : fields_ok f ->
  parse_items (rule0 ++ tail) (render rule0 f ++ rest) parsed0
  = parse_items tail rest
      (mk_parsed (Some (f_y f)) (Some (f_mo f)) (Some (f_d f)) (Some (f_h f)) (Some (f_mi f))
                 (Some (f_s f)) None).
Proof.
  intros (Hy & Hmo & Hd & Hh & Hmi & Hs & Hns).
  unfold rule0, render, parsed0, dash, colon. cbn [flat_map render_item app].
  repeat (rewrite <- app_assoc; cbn [app]).
  cbn [parse_items]. rewrite pi_Y by lia.
  cbn [parse_items]. rewrite pi_lit.
  cbn [parse_items]. rewrite pi_mon by lia.
  cbn [parse_items]. rewrite pi_lit.
  cbn [parse_items]. rewrite pi_day by lia.
  cbn [parse_items]. rewrite pi_sp by lia.
  cbn [parse_items]. rewrite pi_H by lia.
  cbn [parse_items]. rewrite pi_lit.
  cbn [parse_items]. rewrite pi_M by lia.
  cbn [parse_items]. rewrite pi_lit.
  cbn [parse_items]. rewrite pi_S by lia.
  reflexivity.
Qed.

Lemma parse_items_default f : fields_ok f ->
  parse_items fmt_default (render fmt_default f) parsed0
  = Some (mk_parsed (Some (f_y f)) (Some (f_mo f)) (Some (f_d f)) (Some (f_h f)) (Some (f_mi f))
                    (Some (f_s f)) (Some (f_ns f))).
Proof.
  intros Hf. change fmt_default with (rule0 ++ [dot; If]). rewrite render_app.
  rewrite parse_rule0_prefix by exact Hf.
  destruct Hf as (Hy & Hmo & Hd & Hh & Hmi & Hs & Hns).
  unfold render, dot. cbn [flat_map render_item app].
  cbn [parse_items]. rewrite pi_lit.
  cbn [parse_items]. rewrite pi_f by lia. reflexivity.
Qed.

Lemma parse_items_rule0_rejects f : fields_ok f ->
  parse_items rule0 (render fmt_default f) parsed0 = None.
Proof.
  intros Hf. change fmt_default with (rule0 ++ [dot; If]). rewrite render_app.
  rewrite <- (app_nil_r rule0) at 1. rewrite parse_rule0_prefix by exact Hf.
  unfold render, dot. cbn [flat_map render_item app parse_items]. reflexivity.
Qed.

(* ------------------------------------------------------------------ *)
(* instant -> fields -> instant *)

Definition unit_code (u : Z) : Prop := u = 0 \/ u = 1 \/ u = 2 \/ u = 3.

Lemma sod_fields sod : 0 <= sod < 86400 ->
  0 <= sod / 3600 <= 23 /\ 0 <= sod / 60 mod 60 <= 59 /\ 0 <= sod mod 60 <= 59 /\
  sod / 3600 * 3600 + sod / 60 mod 60 * 60 + sod mod 60 = sod.
Proof. intros H. repeat split; zdm. Qed.

Lemma nanos_bound u x : unit_code u ->
  0 <= (x mod per_sec u) * (giga / per_sec u) <= 999999999.
Proof.
  intros [ -> | [ -> | [ -> | -> ] ] ].
  - change (giga / per_sec 0) with 1000000000. change (per_sec 0) with 1. zdm.
  - change (giga / per_sec 1) with 1000000. change (per_sec 1) with 1000. zdm.
  - change (giga / per_sec 2) with 1000. change (per_sec 2) with 1000000. zdm.
  - change (giga / per_sec 3) with 1. change (per_sec 3) with 1000000000. zdm.
Qed.

Lemma instant_back u x : unit_code u -> in_i64 x = true ->
  let secs := x / per_sec u in
  instant_of u (secs / 86400) (secs mod 86400) (0 + (x mod per_sec u) * (giga / per_sec u)) = x.
Proof.
  intros Hu Hx. unfold instant_of.
  destruct Hu as [ -> | [ -> | [ -> | -> ] ] ].
  - change (per_sec 0) with 1. cbn [Z.eqb Pos.eqb]. rewrite Z.div_1_r. zdm.
  - change (giga / per_sec 1) with 1000000. change (per_sec 1) with 1000. cbn [Z.eqb Pos.eqb]. zdm.
  - change (giga / per_sec 2) with 1000. change (per_sec 2) with 1000000. cbn [Z.eqb Pos.eqb]. zdm.
  - change (giga / per_sec 3) with 1. change (per_sec 3) with 1000000000. cbn [Z.eqb Pos.eqb].
    unfold giga.
    replace ((x / 1000000000 / 86400 * 86400 + x / 1000000000 mod 86400) * 1000000000 +
             (0 + x mod 1000000000 * 1)) with x by zdm.
    rewrite Hx. reflexivity.
Qed.

Theorem dt_default_roundtrip u x f :
  unit_code u -> in_i64 x = true -> x <> i64_min ->
  fields_of_instant u x = Some f -> 0 <= f_y f <= 9999 ->
  dt_format u fmt_default x = Ok (render fmt_default f) /\
  parse_with u fmt_default (render fmt_default f) = Some x /\
  dt_parse u (render fmt_default f) = Some x.
Proof.
  intros Hu Hx Hnat Hf Hy.
  assert (Hfmt : dt_format u fmt_default x = Ok (render fmt_default f)).
  { unfold dt_format. replace (x =? i64_min) with false by (symmetry; apply Z.eqb_neq; exact Hnat).
    rewrite Hf. reflexivity. }
  split; [exact Hfmt|].
  (* the fields *)
  unfold fields_of_instant in Hf.
  set (secs := x / per_sec u) in *. set (days := secs / 86400) in *. set (sod := secs mod 86400) in *.
  pose proof (civil_roundtrip days) as HC.
  destruct (civil_from_days days) as [[y m] d]. destruct HC as [Hv Hd].
  destruct ((cr_min_year <=? y) && (y <=? cr_max_year)) eqn:Hyr; [|discriminate].
  injection Hf as <-. cbn [f_y] in Hy.
  assert (Hsod : 0 <= sod < 86400) by (subst sod; apply Z.mod_pos_bound; lia).
  destruct (sod_fields sod Hsod) as (Hh & Hmi & Hs & Hsum).
  pose proof (valid_date_bounds y m d Hv) as [Hm Hdd].
  pose proof (nanos_bound u x Hu) as Hns.
  set (f := mk_dtf y m d (sod / 3600) (sod / 60 mod 60) (sod mod 60)
                   ((x mod per_sec u) * (giga / per_sec u))).
  assert (Hok : fields_ok f) by (unfold fields_ok, f; cbn [f_y f_mo f_d f_h f_mi f_s f_ns]; tauto).
  assert (Hpw : parse_with u fmt_default (render fmt_default f) = Some x).
  { unfold parse_with. rewrite parse_items_default by exact Hok.
    unfold f. cbn [f_y f_mo f_d f_h f_mi f_s f_ns].
    unfold to_naive_date, to_naive_time. cbn [p_y p_mo p_d p_h p_mi p_s p_ns].
    rewrite Hyr, Hv, Hd. cbn [andb].
    replace (sod mod 60 =? 60) with false by (symmetry; apply Z.eqb_neq; lia).
    rewrite Hsum. f_equal. subst days sod secs. apply instant_back; assumption. }
  split; [exact Hpw|].
  unfold dt_parse, rules. cbn [parse_rules].
  change [IY; dash; Imon; dash; Iday; ISp; IH; colon; IM; colon; IS] with rule0.
  unfold parse_with at 1. rewrite parse_items_rule0_rejects by exact Hok.
  rewrite Hpw. reflexivity.
Qed.

(* ------------------------------------------------------------------ *)
(* the 11 listed formats, parsed back with the format given explicitly *)

Definition fmt_k (k : nat) : list item := nth k rules fmt_default.

(* formats without a time of day / with a sub-second field *)
Definition date_only (k : nat) : bool :=
  match k with 2%nat | 3%nat | 5%nat | 9%nat => true | _ => false end.
Definition has_frac (k : nat) : bool := match k with 1%nat => true | _ => false end.

Lemma parse_items_listed k f : (k < 11)%nat -> fields_ok f ->
  parse_items (fmt_k k) (render (fmt_k k) f) parsed0
  = Some (mk_parsed (Some (f_y f)) (Some (f_mo f)) (Some (f_d f))
                    (if date_only k then None else Some (f_h f))
                    (if date_only k then None else Some (f_mi f))
                    (if date_only k then None else Some (f_s f))
                    (if has_frac k then Some (f_ns f) else None)).
Proof.
  intros Hk (Hy & Hmo & Hd & Hh & Hmi & Hs & Hns).
  do 11 (destruct k as [|k]; [
    unfold fmt_k, rules, fmt_default, render, parsed0, dash, colon, slash, dot;
    cbn [nth flat_map render_item app date_only has_frac];
    repeat (rewrite <- app_assoc; cbn [app]);
    repeat (cbn [parse_items];
            first [ rewrite pi_lit | rewrite pi_sp by lia | rewrite pi_Y by lia | rewrite pi_mon by lia
                  | rewrite pi_day by lia | rewrite pi_H by lia | rewrite pi_M by lia
                  | rewrite pi_S by lia | rewrite pi_f by lia ]);
    reflexivity |]).
  lia.
Qed.

Lemma instant_back_sec u x : unit_code u -> in_i64 x = true -> x mod per_sec u = 0 ->
  let secs := x / per_sec u in
  instant_of u (secs / 86400) (secs mod 86400) 0 = x.
Proof.
  intros Hu Hx. unfold instant_of.
  destruct Hu as [ -> | [ -> | [ -> | -> ] ] ].
  - change (per_sec 0) with 1. cbn [Z.eqb Pos.eqb]. intros _. rewrite Z.div_1_r. zdm.
  - change (giga / per_sec 1) with 1000000. change (per_sec 1) with 1000. cbn [Z.eqb Pos.eqb]. intros H. zdm.
  - change (giga / per_sec 2) with 1000. change (per_sec 2) with 1000000. cbn [Z.eqb Pos.eqb]. intros H. zdm.
  - change (per_sec 3) with 1000000000. cbn [Z.eqb Pos.eqb]. unfold giga. intros H.
    replace ((x / 1000000000 / 86400 * 86400 + x / 1000000000 mod 86400) * 1000000000 + 0) with x by zdm.
    rewrite Hx. reflexivity.
Qed.

Lemma instant_back_day u x : unit_code u -> in_i64 x = true -> x mod (86400 * per_sec u) = 0 ->
  instant_of u (x / per_sec u / 86400) 0 0 = x.
Proof.
  intros Hu Hx. unfold instant_of.
  destruct Hu as [ -> | [ -> | [ -> | -> ] ] ].
  - change (per_sec 0) with 1. cbn [Z.eqb Pos.eqb]. intros H. rewrite Z.div_1_r. zdm.
  - change (giga / per_sec 1) with 1000000. change (per_sec 1) with 1000. cbn [Z.eqb Pos.eqb]. intros H. zdm.
  - change (giga / per_sec 2) with 1000. change (per_sec 2) with 1000000. cbn [Z.eqb Pos.eqb]. intros H. zdm.
  - change (per_sec 3) with 1000000000. cbn [Z.eqb Pos.eqb]. unfold giga. intros H.
    replace ((x / 1000000000 / 86400 * 86400 + 0) * 1000000000 + 0) with x by zdm.
    rewrite Hx. reflexivity.
Qed.

Theorem dt_listed_roundtrip u k x f :
  unit_code u -> (k < 11)%nat -> in_i64 x = true -> x <> i64_min ->
  fields_of_instant u x = Some f -> 0 <= f_y f <= 9999 ->
  (has_frac k = false -> x mod per_sec u = 0) ->
  (date_only k = true -> x mod (86400 * per_sec u) = 0) ->
  dt_format u (fmt_k k) x = Ok (render (fmt_k k) f) /\
  parse_with u (fmt_k k) (render (fmt_k k) f) = Some x.
Proof.
  intros Hu Hk Hx Hnat Hf Hy Hsec Hday.
  split.
  { unfold dt_format. replace (x =? i64_min) with false by (symmetry; apply Z.eqb_neq; exact Hnat).
    rewrite Hf. reflexivity. }
  unfold fields_of_instant in Hf.
  set (secs := x / per_sec u) in *. set (days := secs / 86400) in *. set (sod := secs mod 86400) in *.
  pose proof (civil_roundtrip days) as HC.
  destruct (civil_from_days days) as [[y m] d]. destruct HC as [Hv Hd].
  destruct ((cr_min_year <=? y) && (y <=? cr_max_year)) eqn:Hyr; [|discriminate].
  injection Hf as <-. cbn [f_y] in Hy.
  assert (Hsod : 0 <= sod < 86400) by (subst sod; apply Z.mod_pos_bound; lia).
  destruct (sod_fields sod Hsod) as (Hh & Hmi & Hs & Hsum).
  pose proof (valid_date_bounds y m d Hv) as [Hm Hdd].
  pose proof (nanos_bound u x Hu) as Hns.
  set (f := mk_dtf y m d (sod / 3600) (sod / 60 mod 60) (sod mod 60)
                   ((x mod per_sec u) * (giga / per_sec u))).
  assert (Hok : fields_ok f) by (unfold fields_ok, f; cbn [f_y f_mo f_d f_h f_mi f_s f_ns]; tauto).
  unfold parse_with. rewrite parse_items_listed by assumption.
  unfold f. cbn [f_y f_mo f_d f_h f_mi f_s f_ns].
  unfold to_naive_date, to_naive_time. cbn [p_y p_mo p_d p_h p_mi p_s p_ns].
  rewrite Hyr, Hv, Hd. cbn [andb].
  destruct (date_only k) eqn:Edo.
  - (* date only: midnight *)
    f_equal. subst days secs. apply instant_back_day; auto.
  - replace (sod mod 60 =? 60) with false by (symmetry; apply Z.eqb_neq; lia).
    rewrite Hsum. destruct (has_frac k) eqn:Ehf.
    + f_equal. subst days sod secs. apply instant_back; assumption.
    + f_equal. subst days sod secs. apply instant_back_sec; auto.
Qed.
