(* Proofs/Resid.v — the residual statistics of reg.rs (ts_vregx_resid_mean / std / skew), index-form driver:
   positional sliding invariant for callbacks that re-read the series through (start, end), the three
   aggregations of agg.rs at XR, and the closed form "statistic of the OLS residual list".          *)
From Coq Require Import Reals Lra Lia List.
From Tevec Require Import Base.Prelude Base.Num Base.XR Spec.Stats Spec.Ols Model.Driver Proofs.Driver
     Model.Features Proofs.Sliding Proofs.Features Model.Binary Model.Reg Proofs.Ols Proofs.Binary.
Import ListNotations.
Local Open Scope R_scope.

(* ---- positional variant of the sliding invariant ------------------------------------------ *)
Section SlidingIdx.
  Context {T St O : Type}.
  Variable zs : list T.
  Variable pre : St -> T -> St.
  Variable post : St -> option T -> St.
  Variable emit : St -> option nat -> nat -> O.
  Variable s0 : St.
  (* add the new element; emit reading (start, end); then remove the element at `start` *)
  Definition idx_cb (s : St) (a : option nat * nat * T) : St * O :=
    let '(st, e, v) := a in
    let s1 := pre s v in
    (match st with Some j => post s1 (nth_error zs j) | None => s1 end, emit s1 st e).

  Variable Abs : St -> list T -> Prop.
  Hypothesis Abs_init : Abs s0 [].
  Hypothesis Abs_pre : forall s l v, Abs s l -> Abs (pre s v) (l ++ [v]).
  Hypothesis Abs_post : forall s x l, Abs s (x :: l) -> Abs (post s (Some x)) l.
  Variable w : nat.
  Hypothesis Hw : (1 <= w)%nat.
  (* the start index handed to the callback at each position: equal to the iterator body's except
     possibly at the last position (index body with w > len) *)
  Variable sf : nat -> option nat.
  Hypothesis sf_inner : forall j, (S j < length zs)%nat -> sf j = start_of w j.

  Let args := mapi (fun i v => (sf i, i, v)) zs.

  Lemma idx_firstn_S k a :
    nth_error args k = Some a -> firstn (S k) args = firstn k args ++ [a].
  Proof.
    intros Ha. apply nth_error_ext. intros j.
    rewrite nth_error_firstn, nth_error_app, firstn_length, nth_error_firstn.
    assert (Hk : (k < length args)%nat) by (apply nth_error_Some; congruence).
    replace (Nat.min k (length args)) with k by lia.
    destruct (j <? k)%nat eqn:E1.
    - apply Nat.ltb_lt in E1. replace (j <? S k)%nat with true by (symmetry; apply Nat.ltb_lt; lia).
      reflexivity.
    - apply Nat.ltb_ge in E1. destruct (j - k)%nat as [|d] eqn:Ed.
      + assert (j = k) by lia. subst j.
        replace (k <? S k)%nat with true by (symmetry; apply Nat.ltb_lt; lia). exact Ha.
      + replace (j <? S k)%nat with false by (symmetry; apply Nat.ltb_ge; lia).
        cbn. destruct d; reflexivity.
  Qed.

  (* before step k < len the state abstracts the last min(k, w-1) elements *)
  Lemma idx_state_after_abs k :
    (k < length zs)%nat ->
    Abs (state_after idx_cb s0 (firstn k args)) (seg (k - (w - 1)) k zs).
  Proof.
    induction k as [|k IH]; intros Hk.
    - rewrite Nat.sub_0_l, seg_nil. cbn. exact Abs_init.
    - specialize (IH ltac:(lia)).
      destruct (nth_error zs k) as [v|] eqn:Hv; [|apply nth_error_None in Hv; lia].
      assert (Ha : nth_error args k = Some (sf k, k, v)).
      { unfold args. rewrite nth_error_mapi, Hv. reflexivity. }
      rewrite (idx_firstn_S k _ Ha), state_after_app. cbn [state_after idx_cb fst snd].
      set (s := state_after idx_cb s0 (firstn k args)) in *.
      assert (Hpre : Abs (pre s v) (seg (k - (w - 1)) (S k) zs)).
      { rewrite (@seg_snoc _ (k - (w - 1)) k zs v) by (try lia; exact Hv). apply Abs_pre. exact IH. }
      rewrite (sf_inner k Hk). unfold start_of. destruct (k <? w - 1)%nat eqn:E.
      + apply Nat.ltb_lt in E. cbn [fst].
        replace (S k - (w - 1))%nat with (k - (w - 1))%nat by lia. exact Hpre.
      + apply Nat.ltb_ge in E. cbn [fst].
        destruct (nth_error zs (k - (w - 1))) as [x|] eqn:Hx;
          [|apply nth_error_None in Hx; lia].
        rewrite (@seg_cons _ (k - (w - 1)) (S k) zs x) in Hpre by (try lia; exact Hx).
        replace (S k - (w - 1))%nat with (S (k - (w - 1))) by lia.
        apply Abs_post. exact Hpre.
  Qed.

  Theorem idx_sliding_emit i :
    (i < length zs)%nat ->
    exists s, Abs s (win w i zs) /\
              nth_error (run idx_cb s0 args) i = Some (emit s (sf i) i).
  Proof.
    intros Hi.
    destruct (nth_error zs i) as [v|] eqn:Hv; [|apply nth_error_None in Hv; lia].
    exists (pre (state_after idx_cb s0 (firstn i args)) v). split.
    - rewrite win_seg. unfold wstart. replace (S i - w)%nat with (i - (w - 1))%nat by lia.
      rewrite (@seg_snoc _ (i - (w - 1)) i zs v) by (try lia; exact Hv).
      apply Abs_pre. apply idx_state_after_abs. exact Hi.
    - rewrite (@run_nth _ _ _ idx_cb s0 args i (sf i, i, v)).
      + reflexivity.
      + unfold args. rewrite nth_error_mapi, Hv. reflexivity.
  Qed.
End SlidingIdx.

(* the start handed over by both bodies satisfies the two requirements *)
Lemma start_of_to_inner w len j :
  (S j < len)%nat -> start_of (Nat.min w len) j = start_of w j.
Proof. intros H. apply start_of_min_eq; [lia|right; exact H]. Qed.
Lemma start_of_unwrap w i :
  (1 <= w)%nat -> match start_of w i with Some j => j | None => 0%nat end = wstart w i.
Proof.
  intros Hw. unfold start_of, wstart. destruct (i <? w - 1)%nat eqn:E;
    [apply Nat.ltb_lt in E|apply Nat.ltb_ge in E]; lia.
Qed.
Lemma start_of_to_unwrap w len i :
  (1 <= w)%nat -> (i < len)%nat ->
  match start_of (Nat.min w len) i with Some j => j | None => 0%nat end = wstart w i.
Proof.
  intros Hw Hi. unfold start_of, wstart.
  destruct (i <? Nat.min w len - 1)%nat eqn:E; [apply Nat.ltb_lt in E|apply Nat.ltb_ge in E]; lia.
Qed.

(* ---- the aggregations of agg.rs at XR ------------------------------------------------------ *)
Lemma valid_cons_some x (l : list XR) : valid (Some x :: l) = x :: valid l.
Proof. reflexivity. Qed.
Lemma valid_cons_none (l : list XR) : valid (None :: l) = valid l.
Proof. reflexivity. Qed.

Lemma vmean_fold (l : list XR) : forall n0 s0,
  fold_left (fun (st : nat * XR) (v : XR) => if nisnan v then st else (S (fst st), (snd st + v)%num)) l
            (n0, Some s0)
  = ((n0 + length (valid l))%nat, Some (s0 + sumR (valid l))).
Proof.
  induction l as [|[x|] l IH]; intros n0 s0; cbn [fold_left].
  - cbn. rewrite Nat.add_0_r, Rplus_0_r. reflexivity.
  - cbn [nisnan NumXR xisnan fst snd]. rewrite xadd_some, IH, valid_cons_some.
    cbn [length sumR fold_right]. fold (sumR (valid l)). f_equal; [lia|f_equal; ring].
  - cbn [nisnan NumXR xisnan]. rewrite valid_cons_none. apply IH.
Qed.

Lemma agg_vmean_spec (l : list XR) : agg_vmean l = agg_mean_spec (valid l).
Proof.
  unfold agg_vmean. change (@nzero XR NumXR) with (Some 0). rewrite vmean_fold. cbn [plus].
  rewrite Rplus_0_l. unfold agg_mean_spec. destruct (length (valid l)) as [|k] eqn:E; [reflexivity|].
  cbn [Nat.leb Nat.eqb]. rewrite xofnat, xdiv_some by (apply not_0_INR; lia).
  unfold meanR, nR. rewrite E. reflexivity.
Qed.

Lemma acc3_fold (l : list XR) : forall n0 s1 s2 s3,
  fold_left acc3_step l {| a_n := n0; a_m1 := Some s1; a_m2 := Some s2; a_m3 := Some s3 |}
  = {| a_n := (n0 + length (valid l))%nat; a_m1 := Some (s1 + psum 1 (valid l));
       a_m2 := Some (s2 + psum 2 (valid l)); a_m3 := Some (s3 + psum 3 (valid l)) |}.
Proof.
  induction l as [|[x|] l IH]; intros n0 s1 s2 s3; cbn [fold_left].
  - unfold psum. cbn. rewrite Nat.add_0_r, !Rplus_0_r. reflexivity.
  - unfold acc3_step at 2. cbn [nisnan NumXR xisnan a_n a_m1 a_m2 a_m3].
    rewrite !xmul_some, !xadd_some, IH, valid_cons_some, !psum_cons. cbn [length].
    f_equal; [lia|f_equal; ring..].
  - unfold acc3_step at 2. cbn [nisnan NumXR xisnan]. rewrite valid_cons_none. apply IH.
Qed.

Lemma acc3_of_spec (l : list XR) :
  acc3_of l = {| a_n := length (valid l); a_m1 := Some (psum 1 (valid l));
                 a_m2 := Some (psum 2 (valid l)); a_m3 := Some (psum 3 (valid l)) |}.
Proof.
  unfold acc3_of, acc3_0. change (@nzero XR NumXR) with (Some 0). rewrite acc3_fold. cbn [plus].
  rewrite !Rplus_0_l. reflexivity.
Qed.

Lemma popvar_from_sums_n (V : list R) :
  INR (length V) <> 0 ->
  psum 2 V / INR (length V) - (psum 1 V / INR (length V)) ^ 2 = popvarR V.
Proof. intros H. apply (popvar_from_sums V). exact H. Qed.

Lemma agg_vvar_spec mp (l : list XR) :
  (2 <= mp)%nat ->
  agg_vvar mp l =
  if (length (valid l) <? mp)%nat then None
  else if Rle_dec (popvarR (valid l)) EPS then Some 0 else Some (samplevarR (valid l)).
Proof.
  intros Hmp. unfold agg_vvar. rewrite acc3_of_spec. cbn [a_n a_m1 a_m2].
  set (V := valid l). set (n := length V).
  destruct (n <? mp)%nat eqn:E; [reflexivity|]. apply Nat.ltb_ge in E.
  assert (Hn0 : INR n <> 0) by (apply not_0_INR; lia).
  rewrite xofnat, !xdiv_some by exact Hn0. rewrite powi_some, xsub_some.
  unfold n. rewrite popvar_from_sums_n by exact Hn0. fold n.
  change (@neps XR NumXR) with (Some EPS). cbn [nleb NumXR xleb].
  destruct (Rle_dec (popvarR V) EPS); [reflexivity|].
  replace (2 <=? n)%nat with true by (symmetry; apply Nat.leb_le; lia).
  rewrite xofnat, xmul_some, xdiv_some by (apply not_0_INR; lia). f_equal.
  apply (sample_from_pop l). fold V. fold n. lia.
Qed.

Lemma agg_vstd_spec (l : list XR) : agg_vstd 2 l = agg_std_spec (valid l).
Proof.
  unfold agg_vstd. rewrite agg_vvar_spec by lia. unfold agg_std_spec.
  destruct (length (valid l) <? 2)%nat eqn:E; [reflexivity|]. apply Nat.ltb_ge in E.
  destruct (Rle_dec (popvarR (valid l)) EPS).
  - rewrite xsqrt_some by lra. rewrite sqrt_0. reflexivity.
  - rewrite xsqrt_some by (apply (samplevar_nonneg l); exact E). reflexivity.
Qed.

(* E[x^3]/s^3 - 3 (m/s) - (m/s)^3 is the standardised third central moment *)
Lemma skew_raw_identity (V : list R) :
  INR (length V) <> 0 -> 0 < popvarR V ->
  psum 3 V / INR (length V) / sqrt (popvarR V) ^ 3
  - 3 * (psum 1 V / INR (length V) / sqrt (popvarR V))
  - (psum 1 V / INR (length V) / sqrt (popvarR V)) ^ 3
  = cmom 3 V / sqrt (popvarR V) ^ 3.
Proof.
  intros Hn Hv. set (sd := sqrt (popvarR V)). set (n := INR (length V)) in *.
  assert (Hsd : sd * sd = popvarR V) by (apply sqrt_sqrt; lra).
  assert (Hsd0 : sd <> 0) by (apply Rgt_not_eq, sqrt_lt_R0; exact Hv).
  assert (Hc3 : cmom 3 V = psum 3 V / n - 3 * (psum 1 V / n) * (sd * sd) - (psum 1 V / n) ^ 3).
  { rewrite Hsd. rewrite <- (popvar_from_sums_n V Hn). fold n.
    unfold cmom, meanR. rewrite devsum3_expand, <- psum_1. unfold nR. fold n. field. exact Hn. }
  rewrite Hc3. field. split; assumption.
Qed.

Lemma agg_vskew_spec (l : list XR) : agg_vskew 3 l = agg_skew_spec (valid l).
Proof.
  unfold agg_vskew. rewrite acc3_of_spec. cbn [a_n a_m1 a_m2 a_m3]. unfold agg_skew_spec.
  set (V := valid l). set (n := length V).
  destruct (n <? 3)%nat eqn:E; [reflexivity|]. apply Nat.ltb_ge in E.
  replace (3 <=? n)%nat with true by (symmetry; apply Nat.leb_le; lia).
  assert (Hn0 : INR n <> 0) by (apply not_0_INR; lia).
  rewrite !xofnat, !xdiv_some by exact Hn0. rewrite powi_some, xsub_some.
  unfold n. rewrite popvar_from_sums_n by exact Hn0. fold n.
  change (@neps XR NumXR) with (Some EPS). change (@nzero XR NumXR) with (Some 0).
  cbn [nleb NumXR xleb].
  destruct (Rle_dec (popvarR V) EPS) as [Hle|Hgt].
  - cbn [nisnan neqb NumXR xisnan xeqb negb andb].
    destruct (Req_EM_T 0 0) as [_|C]; [reflexivity|exfalso; apply C; reflexivity].
  - pose proof EPS_pos as He. assert (Hv : 0 < popvarR V) by lra.
    rewrite xsqrt_some by lra. set (sd := sqrt (popvarR V)).
    assert (Hsd0 : sd <> 0) by (apply Rgt_not_eq, sqrt_lt_R0; exact Hv).
    rewrite xdiv_some by exact Hsd0. rewrite !powi_some.
    rewrite xdiv_some by (apply pow_nonzero; exact Hsd0).
    change (@three XR NumXR) with (Some 3). rewrite xmul_some, !xsub_some.
    pose proof (skew_raw_identity V Hn0 Hv) as Hid. fold n sd in Hid. rewrite Hid.
    cbn [nisnan neqb NumXR xisnan xeqb negb andb].
    destruct (Req_EM_T (cmom 3 V / sd ^ 3) 0) as [E0|E0]; cbn [negb].
    + f_equal. unfold skewR. change (cmom 2 V) with (popvarR V). fold sd. rewrite E0. ring.
    + rewrite xsqrt_some by apply pos_INR.
      rewrite xdiv_some by (apply not_0_INR; lia). rewrite xmul_some. f_equal.
      unfold skewR. change (cmom 2 V) with (popvarR V). fold sd. unfold nR. fold n.
      rewrite mult_INR, !minus_INR by lia. cbn [INR]. replace (1 + 1) with 2 by ring. unfold Rdiv. ring.
Qed.

(* ---- the residual list --------------------------------------------------------------------- *)
Lemma resid_valid_some al be (W : list (XR * XR)) :
  valid (map (resid_of (Some al) (Some be)) W) = resids al be (vpairs W).
Proof.
  induction W as [|[[a|] [b|]] W IH]; [reflexivity|..]; cbn [map];
    unfold resid_of at 1, both, not_none;
    cbn [fst snd is_none IsNoneXR IsNone_float nisnan NumXR xisnan negb andb unwrap].
  - rewrite xmul_some, !xsub_some, valid_cons_some, IH. reflexivity.
  - change (@nnan XR NumXR) with (@None R). rewrite valid_cons_none. exact IH.
  - change (@nnan XR NumXR) with (@None R). rewrite valid_cons_none. exact IH.
  - change (@nnan XR NumXR) with (@None R). rewrite valid_cons_none. exact IH.
Qed.
Lemma resid_valid_none (W : list (XR * XR)) : valid (map (resid_of None None) W) = [].
Proof.
  induction W as [|[[a|] [b|]] W IH]; [reflexivity|..]; cbn [map];
    unfold resid_of at 1, both, not_none;
    cbn [fst snd is_none IsNoneXR IsNone_float nisnan NumXR xisnan negb andb unwrap];
    (change (@nnan XR NumXR) with (@None R) || cbn [nsub nmul NumXR xlift2]);
    rewrite valid_cons_none; exact IH.
Qed.

Definition rstat_spec (k : rstat) (V : list R) : XR :=
  match k with RMean => agg_mean_spec V | RStd => agg_std_spec V | RSkew => agg_skew_spec V end.
Lemma rstat_apply_spec k (l : list XR) : rstat_apply k l = rstat_spec k (valid l).
Proof. destruct k; [apply agg_vmean_spec|apply agg_vstd_spec|apply agg_vskew_spec]. Qed.
Lemma rstat_spec_nil k : rstat_spec k [] = None.
Proof. destruct k; reflexivity. Qed.

(* what the residual closures emit, in terms of the window they re-read *)
Definition resid_stat_x (k : rstat) (mp : nat) (P : list (R * R)) : XR :=
  if (mp <=? length P)%nat then
    (if Req_EM_T (detB P) 0 then None else rstat_spec k (resids (ols_alpha P) (ols_beta P) P))
  else None.

Lemma resid_emit_spec k mp zs (s : @csum XR) st e (W : list (XR * XR)) :
  W = seg (match st with Some j => j | None => 0%nat end) (S e) zs ->
  csum_abs s W ->
  resid_emit k mp zs s st e = resid_stat_x k mp (vpairs W).
Proof.
  intros HW HA. unfold resid_emit, resid_stat_x. rewrite <- HW. rewrite (cs_n s W HA).
  destruct (mp <=? length (vpairs W))%nat; [|reflexivity]. cbv zeta.
  assert (Hal : ((c_a s - regx_beta s * c_b s) / nofnat (length (vpairs W)))%num
                = ols_x (vpairs W) (fun al _ => al)).
  { rewrite <- (regx_alpha_spec s W HA). unfold regx_alpha. rewrite (cs_n s W HA). reflexivity. }
  rewrite Hal, (regx_beta_spec s W HA), rstat_apply_spec. unfold ols_x.
  destruct (Req_EM_T (detB (vpairs W)) 0) as [E|E].
  - rewrite resid_valid_none. apply rstat_spec_nil.
  - rewrite resid_valid_some. reflexivity.
Qed.

(* both bodies of rolling2_apply_idx *)
Theorem resid_entry k body (w : nat) (mp : option nat) (xs ys : list XR) :
  (1 <= w)%nat -> length xs = length ys ->
  exists out, ts_vregx_resid k body w mp xs ys = Done out /\ length out = length xs /\
    forall i, (i < length xs)%nat ->
      nth_error out i = Some (resid_stat_x k (mp_eff mp w 0) (pairs (win w i xs) (win w i ys))).
Proof.
  intros Hw Hlen. unfold ts_vregx_resid. set (zs := combine xs ys). set (m := mp_eff mp w 0).
  assert (Hzl : length zs = length xs) by (unfold zs; rewrite combine_length; lia).
  change (resid_cb k m zs) with (idx_cb zs csum_pre csum_post (resid_emit k m zs)).
  assert (Hgen : forall sf : nat -> option nat,
             (forall j, (S j < length zs)%nat -> sf j = start_of w j) ->
             (forall i, (i < length zs)%nat -> match sf i with Some j => j | None => 0%nat end = wstart w i) ->
             let out := run (idx_cb zs csum_pre csum_post (resid_emit k m zs)) csum0
                            (mapi (fun i v => (sf i, i, v)) zs) in
             length out = length xs /\
             forall i, (i < length xs)%nat ->
               nth_error out i = Some (resid_stat_x k m (pairs (win w i xs) (win w i ys)))).
  { intros sf H1 H2 out. split; [unfold out; rewrite run_length, mapi_length; exact Hzl|].
    intros i Hi. rewrite <- Hzl in Hi.
    destruct (@idx_sliding_emit _ _ _ zs csum_pre csum_post (resid_emit k m zs) csum0 csum_abs
                csum_abs_init csum_abs_pre csum_abs_post w Hw sf H1 i Hi) as (s & Habs & Hnth).
    unfold out. rewrite Hnth. f_equal.
    rewrite (resid_emit_spec k m zs s (sf i) i (win w i zs)).
    - unfold pairs. rewrite <- win_combine. reflexivity.
    - rewrite (H2 i Hi). apply win_seg.
    - exact Habs. }
  destruct body.
  - unfold rolling2_apply_idx_to.
    replace (length ys <? length xs)%nat with false by (symmetry; apply Nat.ltb_ge; lia).
    fold zs. rewrite rolling_apply_idx_to_eq by exact Hw. unfold args_to_idx.
    destruct (Hgen (start_of (Nat.min w (length zs)))) as [HL HO].
    + intros j Hj. apply start_of_to_inner. exact Hj.
    + intros i Hi. apply start_of_to_unwrap; assumption.
    + eexists. split; [reflexivity|]. split; [exact HL|exact HO].
  - rewrite rolling2_apply_idx_default_pos by exact Hw. fold zs. rewrite rolling_apply_idx_default_eq by exact Hw.
    destruct (Hgen (start_of w)) as [HL HO].
    + intros j Hj. reflexivity.
    + intros i Hi. apply start_of_unwrap. exact Hw.
    + eexists. split; [reflexivity|]. split; [exact HL|exact HO].
Qed.

(* a perfect linear window: every residual statistic is 0 *)
Lemma perfect_resid_stats k mp c d (P : list (R * R)) :
  detB P <> 0 -> Forall (fun p => fst p = c + d * snd p) P -> (mp <= length P)%nat ->
  (k = RSkew -> (3 <= length P)%nat) ->
  resid_stat_x k mp P = Some 0.
Proof.
  intros HD HL Hmp Hk. unfold resid_stat_x.
  replace (mp <=? length P)%nat with true by (symmetry; apply Nat.leb_le; exact Hmp).
  destruct (Req_EM_T (detB P) 0) as [E|_]; [contradiction|].
  destruct (perfect_fit c d P HD HL) as (_ & _ & _ & HZ).
  pose proof (det_nonzero_two P HD) as H2.
  destruct (zeros_stats _ HZ ltac:(rewrite resids_length; exact H2)) as (Hm & Hs & Hsk).
  destruct k; cbn [rstat_spec]; [exact Hm|exact Hs|].
  apply Hsk. rewrite resids_length. apply Hk. reflexivity.
Qed.
