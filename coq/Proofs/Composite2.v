(* Proofs/Composite2.v — C20 for the other element types.
   1. winsorize and vcorr (Pearson and Spearman) are ENCODING INDEPENDENT: for every carrier A (so also bit for bit
      at binary64), every two null dictionaries D1 / D2 and every two series with the same option view
      (C08's `SameView`), the two runs return EQUAL results (winsorize yields an f64 series whatever the input
      type; vcorr an f64).  No law of the numeric class is used.  Built from the C08 encoding lemmas
      (NullOrder.vquantile_same_view / vmedian_same_view / tcast_view, NullView.vmean_var_vals / vcorr_pairs,
      EncRank.vrank_view).
   2. Instances: the canonical Option<f64> rendering `enc_opt xs` of a float series (Some (Some r) valid, None null)
      and an i32 series rendered through its exact f64 values with the never-null dictionary (`cast_i32 zs`).
   3. Hence every f64 theorem of Proofs/Composite.v and Proofs/Spearman.v holds verbatim for Option<f64> and i32
      series (lemmas *_opt, *_i32).                                                                          *)
From Coq Require Import Reals Lra Lia List Sorting Permutation ZArith Bool.
From Tevec Require Import Base.Prelude Model.MapOps.
From Tevec Require Import Base.Num Base.XR Spec.Stats Spec.Stats2 Model.Features Model.NullView Model.SortCmp
     Model.Quantile Model.Rank Model.Agg Model.HalfLife Model.Composite
     Proofs.SortCmp Proofs.OrderXR Proofs.Quantile Proofs.QuantileMono Proofs.Partition Proofs.Rank
     Proofs.AggGeneric Proofs.AggXR Proofs.Agg Proofs.ViewBase Proofs.NullView Proofs.NullOrder Proofs.EncRank
     Proofs.Composite Proofs.Spearman.
Import ListNotations.

(* ================================================================================================ *)
(* 1. encoding independence, every carrier *)
Section Enc.
  Context {A : Type} {NA : Num A} {NF : NumFloor A} {T1 T2 : Type} (D1 : IsNone T1 A) (D2 : IsNone T2 A).

  Lemma iter_cast_view xs1 xs2 :
    SameView D1 D2 xs1 xs2 -> iter_cast (DT := D1) xs1 = iter_cast (DT := D2) xs2.
  Proof.
    unfold iter_cast. induction 1 as [|a b r1 r2 Hab _ IH]; [reflexivity|]. cbn [map].
    rewrite (NullOrder.tcast_view D1 D2 a b Hab), IH. reflexivity.
  Qed.

  Lemma absdev_view (c : A) xs1 xs2 :
    SameView D1 D2 xs1 xs2 ->
    map (fun v => nabs (nsub (tcast (DT := D1) v) c)) xs1 = map (fun v => nabs (nsub (tcast (DT := D2) v) c)) xs2.
  Proof.
    induction 1 as [|a b r1 r2 Hab _ IH]; [reflexivity|]. cbn [map].
    rewrite (NullOrder.tcast_view D1 D2 a b Hab), IH. reflexivity.
  Qed.

  (* winsorize: all three methods, every parameter (also omitted / out of range / NaN) *)
  Theorem winsorize_view (m : wmethod) (p : option A) xs1 xs2 :
    SameView D1 D2 xs1 xs2 -> winsorize (DT := D1) m p xs1 = winsorize (DT := D2) m p xs2.
  Proof.
    intros HS. unfold winsorize. destruct m.
    - rewrite (NullOrder.vquantile_same_view D1 D2 _ Linear xs1 xs2 HS), (iter_cast_view _ _ HS).
      destruct (Quantile.vquantile (DT := D2) _ Linear xs2) as [[mn|]|k]; try reflexivity. cbn [bind].
      rewrite (NullOrder.vquantile_same_view D1 D2 _ Linear xs1 xs2 HS). reflexivity.
    - rewrite (NullOrder.vmedian_same_view D1 D2 xs1 xs2 HS), (iter_cast_view _ _ HS).
      destruct (Quantile.vmedian (DT := D2) xs2) as [median|k]; [|reflexivity]. cbn [bind].
      rewrite (absdev_view median _ _ HS). reflexivity.
    - rewrite (vmean_var_vals (D1 := D1) (D2 := D2) (@idA A) xs1 xs2 (vals_same_view HS) 2), (iter_cast_view _ _ HS).
      reflexivity.
  Qed.

  Context (X1 : IsNoneX T1 A) (X2 : IsNoneX T2 A).

  Lemma rank_vec_view xs1 xs2 :
    EqbView D1 D2 X1 X2 -> SameView D1 D2 xs1 xs2 ->
    rank_vec (DT := D1) (DX := X1) xs1 = rank_vec (DT := D2) (DX := X2) xs2.
  Proof. intros HE HS. unfold rank_vec. rewrite (EncRank.vrank_view D1 D2 X1 X2 xs1 xs2 HS HE). reflexivity. Qed.

  (* vcorr: Pearson and Spearman, every min_periods (also omitted: the default len / 2 is the same) *)
  Theorem vcorr_view (mp : option nat) (spearman : bool) xs1 xs2 ys1 ys2 :
    EqbView D1 D2 X1 X2 -> SameView D1 D2 xs1 xs2 -> SameView D1 D2 ys1 ys2 ->
    vcorr (DT := D1) (DX := X1) mp spearman xs1 ys1 = vcorr (DT := D2) (DX := X2) mp spearman xs2 ys2.
  Proof.
    intros HE HX HY. unfold vcorr. rewrite (same_view_length HX). destruct spearman.
    - rewrite (rank_vec_view _ _ HE HX), (rank_vec_view _ _ HE HY). reflexivity.
    - f_equal. apply vcorr_pairs. apply (vpairs_same_view HX HY).
  Qed.
End Enc.

(* ================================================================================================ *)
(* 2. the two other element types at option R *)

(* Option<f64>: the canonical rendering of a float series — Some (Some r) valid, None null (no Some(NaN), DESIGN 5.4) *)
Definition enc_opt (xs : list XR) : list (option XR) :=
  map (fun x : XR => match x with Some r => Some (Some r) | None => None end) xs.
(* i32: never null; the series is seen through its exact f64 values *)
Definition cast_i32 (zs : list Z) : list XR := map (fun z => Some (IZR z)) zs.

Definition DOpt : IsNone (option XR) XR := IsNone_option.
Definition DXOpt : IsNoneX (option XR) XR := IsNoneX_option.
Definition DInt : IsNone XR XR := IsNone_never.
Definition DXInt : IsNoneX XR XR := IsNoneX_never.

Lemma enc_opt_view (xs : list XR) : SameView DOpt IsNoneXR (enc_opt xs) xs.
Proof. unfold SameView, enc_opt. induction xs as [|[r|] xs IH]; cbn [map]; constructor; try exact IH; reflexivity. Qed.
Lemma cast_i32_view (zs : list Z) : SameView DInt IsNoneXR (cast_i32 zs) (cast_i32 zs).
Proof. unfold SameView, cast_i32. induction zs as [|z zs IH]; cbn [map]; constructor; try exact IH; reflexivity. Qed.

Lemma eqb_view_opt_xr : EqbView DOpt IsNoneXR DXOpt IsNoneXXR.
Proof. apply EncRank.eqb_view_option_float. Qed.
Lemma eqb_view_int_xr : EqbView DInt IsNoneXR DXInt IsNoneXXR.
Proof.
  intros a1 b1 a2 b2 Ha Hb Na Nb. unfold same_view, to_opt in Ha, Hb.
  cbn [is_none unwrap DInt IsNone_never IsNoneXR IsNone_float] in Ha, Hb, Na, Nb.
  rewrite Na in Ha. rewrite Nb in Hb. injection Ha as ->. injection Hb as ->. reflexivity.
Qed.

(* the transfer equations: the run on the Option<f64> / i32 series IS the run on the f64 series *)
Lemma winsorize_opt m p xs : winsorize (DT := DOpt) m p (enc_opt xs) = winsorize (DT := IsNoneXR) m p xs.
Proof. apply winsorize_view, enc_opt_view. Qed.
Lemma winsorize_i32 m p zs : winsorize (DT := DInt) m p (cast_i32 zs) = winsorize (DT := IsNoneXR) m p (cast_i32 zs).
Proof. apply winsorize_view, cast_i32_view. Qed.
Lemma vcorr_opt mp sp xs ys :
  vcorr (DT := DOpt) (DX := DXOpt) mp sp (enc_opt xs) (enc_opt ys) = vcorr (DT := IsNoneXR) (DX := IsNoneXXR) mp sp xs ys.
Proof. apply vcorr_view; [apply eqb_view_opt_xr|apply enc_opt_view|apply enc_opt_view]. Qed.
Lemma vcorr_i32 mp sp xs ys :
  vcorr (DT := DInt) (DX := DXInt) mp sp (cast_i32 xs) (cast_i32 ys)
  = vcorr (DT := IsNoneXR) (DX := IsNoneXXR) mp sp (cast_i32 xs) (cast_i32 ys).
Proof. apply vcorr_view; [apply eqb_view_int_xr|apply cast_i32_view|apply cast_i32_view]. Qed.
Lemma vrank_opt pct rev xs :
  vrank (DT := DOpt) (DX := DXOpt) pct rev (enc_opt xs) = vrank (DT := IsNoneXR) (DX := IsNoneXXR) pct rev xs.
Proof. apply EncRank.vrank_view; [apply enc_opt_view|apply eqb_view_opt_xr]. Qed.
Lemma vrank_i32 pct rev zs :
  vrank (DT := DInt) (DX := DXInt) pct rev (cast_i32 zs) = vrank (DT := IsNoneXR) (DX := IsNoneXXR) pct rev (cast_i32 zs).
Proof. apply EncRank.vrank_view; [apply cast_i32_view|apply eqb_view_int_xr]. Qed.

(* an integer series has no null: valid (cast) = the values; mapping the values commutes with the renderings *)
Lemma valid_cast_i32 zs : valid (cast_i32 zs) = map IZR zs.
Proof. unfold cast_i32. induction zs as [|z zs IH]; [reflexivity|]. cbn [map valid flat_map app]. fold (valid (map (fun z => Some (IZR z)) zs)). f_equal. exact IH. Qed.
Lemma length_enc_opt xs : length (enc_opt xs) = length xs.
Proof. apply map_length. Qed.
Lemma length_cast_i32 zs : length (cast_i32 zs) = length zs.
Proof. apply map_length. Qed.
Lemma enc_opt_map (f : R -> R) xs : map (option_map (option_map f)) (enc_opt xs) = enc_opt (map (option_map f) xs).
Proof. unfold enc_opt. rewrite !map_map. apply map_ext. intros [r|]; reflexivity. Qed.
(* an integer-valued map of an integer series, seen through the casts *)
Lemma cast_i32_map (f : R -> R) (g : Z -> Z) zs :
  (forall z, IZR (g z) = f (IZR z)) -> cast_i32 (map g zs) = map (option_map f) (cast_i32 zs).
Proof. intros H. unfold cast_i32. rewrite !map_map. apply map_ext. intros z. cbn. rewrite H. reflexivity. Qed.

(* positions of the Option rendering *)
Lemma enc_opt_nth_null xs i : nth_error (enc_opt xs) i = Some None <-> nth_error xs i = Some None.
Proof.
  unfold enc_opt. rewrite nth_error_map. destruct (nth_error xs i) as [[r|]|]; cbn [option_map]; split; intros H; try discriminate; reflexivity.
Qed.
Lemma enc_opt_nth_valid xs i x : nth_error (enc_opt xs) i = Some (Some (Some x)) -> nth_error xs i = Some (Some x).
Proof.
  unfold enc_opt. rewrite nth_error_map. destruct (nth_error xs i) as [[r|]|]; cbn [option_map]; intros H; try discriminate.
  injection H as ->. reflexivity.
Qed.
