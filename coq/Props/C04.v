(* Props/C04.v — property C04: rolling covariance, correlation and regressions equal per-window least
   squares.  Carrier XR = option R (exact reals + one absorbing NaN = null).  Every pair of equal-length
   series, every window w >= 1, every min_periods, every position, both driver bodies.
     P = pairs (win w i xs) (win w i ys)   the pairwise-complete observations (a from the first series,
                                           b from the second) of the window max(0,i-w+1)..=i
     V = valid (win w i xs)                the non-null values of the window (time-trend family),
     trend_pairs V                         = [(x_1, 1); ...; (x_n, n)]
     ols_x P f                             = null when n Sbb = Sb^2 (DESIGN 5.6), else f(alpha, beta) of the
                                             least-squares line a ~ alpha + beta b
   Statements only.                                                                                 *)
From Coq Require Import Reals List Lra.
From Tevec Require Import Base.Prelude Base.Num Base.XR Spec.Stats Spec.Ols Model.Driver Model.Features
     Model.Binary Model.Reg Proofs.Features Proofs.Ols Proofs.Binary Proofs.Trend Proofs.Resid.
Import ListNotations.

(* (0) the accumulator never drifts: at emit time of every step it holds exactly the count and the cross
   power sums of the pairwise-complete observations of the window, whatever is computed from it
   (cov, corr, regx_alpha, regx_beta, regx_all share this accumulator; the residual statistics too) *)
Theorem C04_cross_sums_track_window :
  forall (O : Type) (emit : @csum XR -> O) (body : bool) (w : nat) (xs ys : list XR),
    1 <= w -> length xs = length ys ->
    exists out, ts_run2 (csum_feat emit) body w xs ys = Done out /\ length out = length xs /\
      forall i, i < length xs ->
        let P := pairs (win w i xs) (win w i ys) in
        exists s, nth_error out i = Some (emit s) /\
          c_n s = length P /\ c_a s = Some (SA P) /\ c_b s = Some (SB P) /\ c_ab s = Some (SAB P) /\
          c_a2 s = Some (SAA P) /\ c_b2 s = Some (SBB P).
Proof.
  intros O emit body w xs ys Hw Hlen.
  destruct (csum_state_tracks_window emit body w xs ys Hw Hlen) as (out & H1 & H2 & H3).
  exists out. split; [exact H1|]. split; [exact H2|]. intros i Hi P.
  destruct (H3 i Hi) as (s & Habs & Hn). exists s. split; [exact Hn|exact Habs].
Qed.

(* (1) sample covariance; null below max(min_periods, 2) observations *)
Theorem C04_ts_vcov :
  forall (body : bool) (w : nat) (mp : option nat) (xs ys : list XR),
    1 <= w -> length xs = length ys ->
    exists out, ts_run2 (ts_vcov_f w mp) body w xs ys = Done out /\ length out = length xs /\
      forall i, i < length xs ->
        nth_error out i =
        Some (let P := pairs (win w i xs) (win w i ys) in
              if mp_eff mp w 2 <=? length P then Some (cov_sample P) else None).
Proof.
  intros body w mp xs ys Hw Hlen.
  apply (csum_entry (emit_cov (mp_eff mp w 2))
           (fun P => if mp_eff mp w 2 <=? length P then Some (cov_sample P) else None));
    [exact Hw|exact Hlen|].
  intros s W HA. apply emit_cov_spec; [exact HA|apply mp_eff_ge].
Qed.

(* (2) Pearson correlation; null unless both population variances exceed EPS *)
Theorem C04_ts_vcorr :
  forall (body : bool) (w : nat) (mp : option nat) (xs ys : list XR),
    1 <= w -> length xs = length ys ->
    exists out, ts_run2 (ts_vcorr_f w mp) body w xs ys = Done out /\ length out = length xs /\
      forall i, i < length xs ->
        nth_error out i =
        Some (let P := pairs (win w i xs) (win w i ys) in
              if mp_eff mp w 0 <=? length P then
                (if Rlt_dec EPS (popvarR (map fst P)) then
                   (if Rlt_dec EPS (popvarR (map snd P)) then Some (corrP P) else None)
                 else None)
              else None).
Proof.
  intros body w mp xs ys Hw Hlen.
  apply (csum_entry (emit_corr (mp_eff mp w 0))
           (fun P => if mp_eff mp w 0 <=? length P then
                       (if Rlt_dec EPS (popvarR (map fst P)) then
                          (if Rlt_dec EPS (popvarR (map snd P)) then Some (corrP P) else None)
                        else None)
                     else None)); [exact Hw|exact Hlen|].
  intros s W HA. apply emit_corr_spec. exact HA.
Qed.

(* (3) regression of the first series on the second: intercept, slope, (alpha, beta, SSE) *)
Theorem C04_ts_vregx_alpha :
  forall (body : bool) (w : nat) (mp : option nat) (xs ys : list XR),
    1 <= w -> length xs = length ys ->
    exists out, ts_run2 (ts_vregx_alpha_f w mp) body w xs ys = Done out /\ length out = length xs /\
      forall i, i < length xs ->
        nth_error out i =
        Some (let P := pairs (win w i xs) (win w i ys) in
              if mp_eff mp w 0 <=? length P then ols_x P (fun al _ => al) else None).
Proof.
  intros body w mp xs ys Hw Hlen.
  apply (csum_entry (emit_regx_alpha (mp_eff mp w 0))
           (fun P => if mp_eff mp w 0 <=? length P then ols_x P (fun al _ => al) else None));
    [exact Hw|exact Hlen|].
  intros s W HA. apply emit_regx_alpha_spec. exact HA.
Qed.

Theorem C04_ts_vregx_beta :
  forall (body : bool) (w : nat) (mp : option nat) (xs ys : list XR),
    1 <= w -> length xs = length ys ->
    exists out, ts_run2 (ts_vregx_beta_f w mp) body w xs ys = Done out /\ length out = length xs /\
      forall i, i < length xs ->
        nth_error out i =
        Some (let P := pairs (win w i xs) (win w i ys) in
              if mp_eff mp w 0 <=? length P then ols_x P (fun _ be => be) else None).
Proof.
  intros body w mp xs ys Hw Hlen.
  apply (csum_entry (emit_regx_beta (mp_eff mp w 0))
           (fun P => if mp_eff mp w 0 <=? length P then ols_x P (fun _ be => be) else None));
    [exact Hw|exact Hlen|].
  intros s W HA. apply emit_regx_beta_spec. exact HA.
Qed.

Theorem C04_ts_vregx_all :
  forall (body : bool) (w : nat) (mp : option nat) (xs ys : list XR),
    1 <= w -> length xs = length ys ->
    exists out, ts_run2 (ts_vregx_all_f w mp) body w xs ys = Done out /\ length out = length xs /\
      forall i, i < length xs ->
        nth_error out i =
        Some (let P := pairs (win w i xs) (win w i ys) in
              if mp_eff mp w 0 <=? length P then
                (if Req_EM_T (detB P) 0 then (None, None, None)
                 else (Some (ols_alpha P), Some (ols_beta P), Some (sse (ols_alpha P) (ols_beta P) P)))
              else (None, None, None)).
Proof.
  intros body w mp xs ys Hw Hlen.
  apply (csum_entry (emit_regx_all (mp_eff mp w 0))
           (fun P => if mp_eff mp w 0 <=? length P then
                       (if Req_EM_T (detB P) 0 then (None, None, None)
                        else (Some (ols_alpha P), Some (ols_beta P),
                              Some (sse (ols_alpha P) (ols_beta P) P)))
                     else (None, None, None))); [exact Hw|exact Hlen|].
  intros s W HA. apply emit_regx_all_spec. exact HA.
Qed.

(* (4) what (ols_alpha, ols_beta) are: THE least-squares line.  Normal equations, uniqueness, minimality
   of the sum of squared errors over all lines; the fit is undefined exactly when the regressor is
   constant over the observations (which includes n <= 1). *)
Theorem C04_ols_normal_equations :
  forall P : list (R * R), detB P <> 0%R -> normal_eqs (ols_alpha P) (ols_beta P) P.
Proof. exact ols_normal_eqs. Qed.

Theorem C04_ols_unique :
  forall (al be : R) (P : list (R * R)),
    detB P <> 0%R -> normal_eqs al be P -> al = ols_alpha P /\ be = ols_beta P.
Proof. exact ols_unique. Qed.

Theorem C04_ols_minimises :
  forall (P : list (R * R)) (al' be' : R),
    detB P <> 0%R -> (sse (ols_alpha P) (ols_beta P) P <= sse al' be' P)%R.
Proof. exact ols_minimises. Qed.

Theorem C04_singular_iff_constant_regressor :
  forall P : list (R * R), detB P = 0%R <-> Forall (fun p => snd p = meanB P) P.
Proof. exact detB_zero_iff_constant. Qed.

Theorem C04_defined_needs_two_observations :
  forall P : list (R * R), detB P <> 0%R -> 2 <= length P.
Proof. exact det_nonzero_two. Qed.

(* (5) residual mean / standard deviation / skewness = the aggregation statistic (agg.rs vmean, vstd(2),
   vskew(3)) of the list of least-squares residuals of the pairwise-complete observations.
   rstat_spec RMean = mean, RStd = sample std (0 under the EPS floor), RSkew = adjusted skewness. *)
Theorem C04_ts_vregx_resid :
  forall (k : rstat) (body : bool) (w : nat) (mp : option nat) (xs ys : list XR),
    1 <= w -> length xs = length ys ->
    exists out, ts_vregx_resid k body w mp xs ys = Done out /\ length out = length xs /\
      forall i, i < length xs ->
        nth_error out i =
        Some (let P := pairs (win w i xs) (win w i ys) in
              if mp_eff mp w 0 <=? length P then
                (if Req_EM_T (detB P) 0 then None
                 else rstat_spec k (resids (ols_alpha P) (ols_beta P) P))
              else None).
Proof. exact resid_entry. Qed.

(* the residuals of a least-squares fit with intercept average to zero *)
Theorem C04_ols_resid_mean_zero :
  forall P : list (R * R), detB P <> 0%R -> meanR (resids (ols_alpha P) (ols_beta P) P) = 0%R.
Proof. exact ols_resid_mean_zero. Qed.

(* (6) the time-trend family: least squares of the window's non-null values on t = 1..n *)
Theorem C04_ts_vreg_slope :
  forall (body : bool) (w : nat) (mp : option nat) (xs : list XR), 1 <= w ->
    exists out, ts_run (ts_vreg_slope_f w mp) body w xs = Done out /\ length out = length xs /\
      forall i, i < length xs ->
        nth_error out i =
        Some (let V := valid (win w i xs) in
              if mp_eff mp w 0 <=? length V then ols_x (trend_pairs V) (fun _ be => be) else None).
Proof.
  intros body w mp xs Hw.
  apply (tr_entry (emit_slope (mp_eff mp w 0))
           (fun V => if mp_eff mp w 0 <=? length V then ols_x (trend_pairs V) (fun _ be => be) else None));
    [exact Hw|].
  intros s W HA. apply emit_slope_spec. exact HA.
Qed.

Theorem C04_ts_vreg_intercept :
  forall (body : bool) (w : nat) (mp : option nat) (xs : list XR), 1 <= w ->
    exists out, ts_run (ts_vreg_intercept_f w mp) body w xs = Done out /\ length out = length xs /\
      forall i, i < length xs ->
        nth_error out i =
        Some (let V := valid (win w i xs) in
              if mp_eff mp w 0 <=? length V then ols_x (trend_pairs V) (fun al _ => al) else None).
Proof.
  intros body w mp xs Hw.
  apply (tr_entry (emit_intercept (mp_eff mp w 0))
           (fun V => if mp_eff mp w 0 <=? length V then ols_x (trend_pairs V) (fun al _ => al) else None));
    [exact Hw|].
  intros s W HA. apply emit_intercept_spec. exact HA.
Qed.

(* fitted value at the last point: intercept + slope * n *)
Theorem C04_ts_vreg :
  forall (body : bool) (w : nat) (mp : option nat) (xs : list XR), 1 <= w ->
    exists out, ts_run (ts_vreg_f w mp) body w xs = Done out /\ length out = length xs /\
      forall i, i < length xs ->
        nth_error out i =
        Some (let V := valid (win w i xs) in
              if mp_eff mp w 0 <=? length V
              then ols_x (trend_pairs V) (fun al be => al + be * nP (trend_pairs V))%R else None).
Proof.
  intros body w mp xs Hw.
  apply (tr_entry (emit_reg (mp_eff mp w 0))
           (fun V => if mp_eff mp w 0 <=? length V
                     then ols_x (trend_pairs V) (fun al be => al + be * nP (trend_pairs V))%R else None));
    [exact Hw|].
  intros s W HA. apply emit_reg_spec. exact HA.
Qed.

(* one-step-ahead forecast: intercept + slope * (n + 1) *)
Theorem C04_ts_vtsf :
  forall (body : bool) (w : nat) (mp : option nat) (xs : list XR), 1 <= w ->
    exists out, ts_run (ts_vtsf_f w mp) body w xs = Done out /\ length out = length xs /\
      forall i, i < length xs ->
        nth_error out i =
        Some (let V := valid (win w i xs) in
              if mp_eff mp w 0 <=? length V
              then ols_x (trend_pairs V) (fun al be => al + be * (nP (trend_pairs V) + 1))%R else None).
Proof.
  intros body w mp xs Hw.
  apply (tr_entry (emit_tsf (mp_eff mp w 0))
           (fun V => if mp_eff mp w 0 <=? length V
                     then ols_x (trend_pairs V) (fun al be => al + be * (nP (trend_pairs V) + 1))%R
                     else None)); [exact Hw|].
  intros s W HA. apply emit_tsf_spec. exact HA.
Qed.

(* mean squared residual: sum (x_t - alpha - beta t)^2 / n   (the repaired closed form) *)
Theorem C04_ts_vreg_resid_mean :
  forall (body : bool) (w : nat) (mp : option nat) (xs : list XR), 1 <= w ->
    exists out, ts_run (ts_vreg_resid_mean_f w mp) body w xs = Done out /\ length out = length xs /\
      forall i, i < length xs ->
        nth_error out i =
        Some (let V := valid (win w i xs) in
              if mp_eff mp w 0 <=? length V
              then ols_x (trend_pairs V) (fun al be => sse al be (trend_pairs V) / nP (trend_pairs V))%R
              else None).
Proof.
  intros body w mp xs Hw.
  apply (tr_entry (emit_resid_mean (mp_eff mp w 0))
           (fun V => if mp_eff mp w 0 <=? length V
                     then ols_x (trend_pairs V)
                                (fun al be => sse al be (trend_pairs V) / nP (trend_pairs V))%R
                     else None)); [exact Hw|].
  intros s W HA. apply emit_resid_mean_spec. exact HA.
Qed.

(* the trend fit is defined exactly from two non-null values on *)
Theorem C04_trend_singular_iff :
  forall V : list R, detB (trend_pairs V) = 0%R <-> length V <= 1.
Proof. exact trend_det_zero_iff. Qed.

(* (7) a perfect linear window has zero residual.
   (a) any observations on a line a = c + d b with a non-constant regressor: the fit recovers (c, d),
       SSE = 0, every residual is 0, and every residual statistic is 0 *)
Theorem C04_perfect_fit :
  forall (c d : R) (P : list (R * R)),
    detB P <> 0%R -> Forall (fun p => fst p = c + d * snd p)%R P ->
    ols_alpha P = c /\ ols_beta P = d /\ sse (ols_alpha P) (ols_beta P) P = 0%R /\
    Forall (fun r => r = 0%R) (resids (ols_alpha P) (ols_beta P) P).
Proof. exact perfect_fit. Qed.

Theorem C04_perfect_line_resid_stats :
  forall (k : rstat) (mp : nat) (c d : R) (P : list (R * R)),
    detB P <> 0%R -> Forall (fun p => fst p = c + d * snd p)%R P -> mp <= length P ->
    (k = RSkew -> 3 <= length P) ->
    (if mp <=? length P then
       (if Req_EM_T (detB P) 0 then None else rstat_spec k (resids (ols_alpha P) (ols_beta P) P))
     else None) = Some 0%R.
Proof. exact perfect_resid_stats. Qed.

(*  (b) the time-trend family end to end: if the non-null values of the window at position i are
        c + d*1, ..., c + d*n (n >= 2, n >= min_periods), ts_vreg_resid_mean emits exactly 0, and slope /
        intercept / fitted value / forecast are d, c, c + d n, c + d (n+1) *)
Corollary C04_perfect_line :
  forall (body : bool) (w : nat) (mp : option nat) (xs : list XR) (i n : nat) (c d : R),
    1 <= w -> i < length xs -> 2 <= n -> mp_eff mp w 0 <= n ->
    valid (win w i xs) = line c d n ->
    exists out, ts_run (ts_vreg_resid_mean_f w mp) body w xs = Done out /\
                nth_error out i = Some (Some 0%R).
Proof.
  intros body w mp xs i n c d Hw Hi Hn Hmp HV.
  destruct (C04_ts_vreg_resid_mean body w mp xs Hw) as (out & Hrun & _ & Hout).
  exists out. split; [exact Hrun|]. rewrite (Hout i Hi), HV. f_equal. cbv zeta.
  rewrite (perfect_line_stat c d n (mp_eff mp w 0)
             (fun al be => sse al be (trend_pairs (line c d n)) / nP (trend_pairs (line c d n)))%R Hn Hmp).
  destruct (perfect_line_fit c d n Hn) as (_ & Ha & Hb & Hs). rewrite Ha, Hb in Hs. rewrite Hs.
  f_equal. unfold Rdiv. apply Rmult_0_l.
Qed.

Corollary C04_perfect_line_coefficients :
  forall (body : bool) (w : nat) (mp : option nat) (xs : list XR) (i n : nat) (c d : R),
    1 <= w -> i < length xs -> 2 <= n -> mp_eff mp w 0 <= n ->
    valid (win w i xs) = line c d n ->
    (exists out, ts_run (ts_vreg_slope_f w mp) body w xs = Done out /\ nth_error out i = Some (Some d)) /\
    (exists out, ts_run (ts_vreg_intercept_f w mp) body w xs = Done out /\ nth_error out i = Some (Some c)) /\
    (exists out, ts_run (ts_vreg_f w mp) body w xs = Done out /\
                 nth_error out i = Some (Some (c + d * INR n)%R)) /\
    (exists out, ts_run (ts_vtsf_f w mp) body w xs = Done out /\
                 nth_error out i = Some (Some (c + d * (INR n + 1))%R)).
Proof.
  intros body w mp xs i n c d Hw Hi Hn Hmp HV.
  assert (HnP : nP (trend_pairs (line c d n)) = INR n).
  { unfold trend_pairs. rewrite trend_nP. unfold nR. rewrite line_length. reflexivity. }
  split; [|split; [|split]].
  - destruct (C04_ts_vreg_slope body w mp xs Hw) as (out & Hrun & _ & Hout).
    exists out. split; [exact Hrun|]. rewrite (Hout i Hi), HV. f_equal. cbv zeta.
    apply (perfect_line_stat c d n (mp_eff mp w 0) (fun _ be => be) Hn Hmp).
  - destruct (C04_ts_vreg_intercept body w mp xs Hw) as (out & Hrun & _ & Hout).
    exists out. split; [exact Hrun|]. rewrite (Hout i Hi), HV. f_equal. cbv zeta.
    apply (perfect_line_stat c d n (mp_eff mp w 0) (fun al _ => al) Hn Hmp).
  - destruct (C04_ts_vreg body w mp xs Hw) as (out & Hrun & _ & Hout).
    exists out. split; [exact Hrun|]. rewrite (Hout i Hi), HV. f_equal. cbv zeta.
    rewrite (perfect_line_stat c d n (mp_eff mp w 0)
               (fun al be => al + be * nP (trend_pairs (line c d n)))%R Hn Hmp). rewrite HnP. reflexivity.
  - destruct (C04_ts_vtsf body w mp xs Hw) as (out & Hrun & _ & Hout).
    exists out. split; [exact Hrun|]. rewrite (Hout i Hi), HV. f_equal. cbv zeta.
    rewrite (perfect_line_stat c d n (mp_eff mp w 0)
               (fun al be => al + be * (nP (trend_pairs (line c d n)) + 1))%R Hn Hmp). rewrite HnP. reflexivity.
Qed.

(* ---- non-vacuity ------------------------------------------------------------------------------- *)
(* the premises of the entry theorems hold on a window with nulls in both series, warm-up and expiry *)
Example C04_example_cov :
  exists out, ts_run2 (ts_vcov_f (A := XR) 2 (Some 1)) false 2
                      [Some 1%R; None; Some 3%R; Some 4%R] [Some 2%R; Some 5%R; None; Some 1%R] = Done out
              /\ length out = 4.
Proof.
  destruct (C04_ts_vcov false 2 (Some 1) [Some 1%R; None; Some 3%R; Some 4%R]
              [Some 2%R; Some 5%R; None; Some 1%R] ltac:(auto) ltac:(reflexivity)) as (out & H & L & _).
  exists out. split; assumption.
Qed.
(* a non-singular set of observations on a line: the premises of C04_ols_* and C04_perfect_fit are satisfiable *)
Example C04_example_perfect_fit :
  let P := [(1, 0); (3, 1); (5, 2)]%R in
  detB P <> 0%R /\ Forall (fun p => fst p = 1 + 2 * snd p)%R P /\ ols_beta P = 2%R.
Proof.
  intros P.
  assert (HD : detB P <> 0%R) by (unfold detB, SBB, SB, sumP, nP, P; cbn; lra).
  assert (HL : Forall (fun p => fst p = 1 + 2 * snd p)%R P)
    by (unfold P; repeat constructor; cbn; lra).
  split; [exact HD|]. split; [exact HL|].
  destruct (C04_perfect_fit 1%R 2%R P HD HL) as (_ & Hb & _). exact Hb.
Qed.
(* a window that is a perfect line with a null inside: the premises of C04_perfect_line are satisfiable *)
Example C04_example_perfect_line :
  valid (win 4 3 [Some 3%R; None; Some 5%R; Some 7%R]) = line 1 2 3 /\ mp_eff None 4 0 <= 3.
Proof. split; [unfold line; cbn; repeat f_equal; lra|cbn; lia]. Qed.
(* a constant regressor is singular: the null branch of ols_x is inhabited *)
Example C04_example_singular : detB [(1, 2); (5, 2); (7, 2)]%R = 0%R.
Proof. unfold detB, SBB, SB, sumP, nP. cbn. lra. Qed.

Print Assumptions C04_cross_sums_track_window.
Print Assumptions C04_ts_vcov.
Print Assumptions C04_ts_vcorr.
Print Assumptions C04_ts_vregx_alpha.
Print Assumptions C04_ts_vregx_beta.
Print Assumptions C04_ts_vregx_all.
Print Assumptions C04_ols_normal_equations.
Print Assumptions C04_ols_unique.
Print Assumptions C04_ols_minimises.
Print Assumptions C04_singular_iff_constant_regressor.
Print Assumptions C04_ts_vregx_resid.
Print Assumptions C04_ts_vreg.
Print Assumptions C04_ts_vtsf.
Print Assumptions C04_ts_vreg_slope.
Print Assumptions C04_ts_vreg_intercept.
Print Assumptions C04_ts_vreg_resid_mean.
Print Assumptions C04_perfect_fit.
Print Assumptions C04_perfect_line_resid_stats.
Print Assumptions C04_perfect_line.
Print Assumptions C04_perfect_line_coefficients.
