(* Props/C04.v — property C04: rolling covariance, correlation and regressions equal per-window least
   squares.  Carrier XR = option R (exact reals + one absorbing NaN = null).  Every pair of equal-length
   series, every window w >= 1, every min_periods, every position, both driver bodies.
     P = pairs (win w i xs) (win w i ys)   the pairwise-complete observations (a from the first series,
                                           b from the second) of the window max(0,i-w+1)..=i
     V = valid (win w i xs)                the non-null values of the window (time-trend family),
     trend_pairs V                         = [(x_1, 1); ...; (x_n, n)]
     ols_x P f                             = null when n Sbb = Sb^2 (DESIGN 5.6), else f(alpha, beta) of the
                                             least-squares line a ~ alpha + beta b
   Statements only.                                                                                 *)
From Coq Require Import Reals List Lra Lia Floats.
From Tevec Require Import Base.Prelude Base.Num Base.XR Base.F64 Spec.Stats Spec.Ols Model.Driver Model.Features
     Model.Binary Model.Reg Proofs.Features Proofs.Ols Proofs.Binary Proofs.Trend Proofs.Resid Proofs.Audit04.
Import ListNotations.

(* (0) the accumulator never drifts: at emit time of every step it holds exactly the count and the cross
   power sums of the pairwise-complete observations of the window, whatever is computed from it
   (cov, corr, regx_alpha, regx_beta, regx_all share this accumulator; the residual statistics too) *)
Theorem C04_cross_sums_track_window :
  forall (O : Type) (emit : @csum XR -> O) (body : bool) (w : nat) (xs ys : list XR),
    1 <= w -> length xs = length ys ->
    exists out, ts_run2 (csum_feat emit) body w xs ys = Done out /\ length out = length xs /\
      forall i, i < length xs ->
        let P := pairs (win w i xs) (win w i ys) in
        exists s, nth_error out i = Some (emit s) /\
          c_n s = length P /\ c_a s = Some (SA P) /\ c_b s = Some (SB P) /\ c_ab s = Some (SAB P) /\
          c_a2 s = Some (SAA P) /\ c_b2 s = Some (SBB P).
Proof.
  intros O emit body w xs ys Hw Hlen.
  destruct (csum_state_tracks_window emit body w xs ys Hw Hlen) as (out & H1 & H2 & H3).
  exists out. split; [exact H1|]. split; [exact H2|]. intros i Hi P.
  destruct (H3 i Hi) as (s & Habs & Hn). exists s. split; [exact Hn|exact Habs].
Qed.

(* (1) sample covariance; null below max(min_periods, 2) observations *)
Theorem C04_ts_vcov :
  forall (body : bool) (w : nat) (mp : option nat) (xs ys : list XR),
    1 <= w -> length xs = length ys ->
    exists out, ts_run2 (ts_vcov_f w mp) body w xs ys = Done out /\ length out = length xs /\
      forall i, i < length xs ->
        nth_error out i =
        Some (let P := pairs (win w i xs) (win w i ys) in
              if mp_eff mp w 2 <=? length P then Some (cov_sample P) else None).
Proof.
  intros body w mp xs ys Hw Hlen.
  apply (csum_entry (emit_cov (mp_eff mp w 2))
           (fun P => if mp_eff mp w 2 <=? length P then Some (cov_sample P) else None));
    [exact Hw|exact Hlen|].
  intros s W HA. apply emit_cov_spec; [exact HA|apply mp_eff_ge].
Qed.

(* (2) Pearson correlation; null unless both population variances exceed EPS *)
Theorem C04_ts_vcorr :
  forall (body : bool) (w : nat) (mp : option nat) (xs ys : list XR),
    1 <= w -> length xs = length ys ->
    exists out, ts_run2 (ts_vcorr_f w mp) body w xs ys = Done out /\ length out = length xs /\
      forall i, i < length xs ->
        nth_error out i =
        Some (let P := pairs (win w i xs) (win w i ys) in
              if mp_eff mp w 0 <=? length P then
                (if Rlt_dec EPS (popvarR (map fst P)) then
                   (if Rlt_dec EPS (popvarR (map snd P)) then Some (corrP P) else None)
                 else None)
              else None).
Proof.
  intros body w mp xs ys Hw Hlen.
  apply (csum_entry (emit_corr (mp_eff mp w 0))
           (fun P => if mp_eff mp w 0 <=? length P then
                       (if Rlt_dec EPS (popvarR (map fst P)) then
                          (if Rlt_dec EPS (popvarR (map snd P)) then Some (corrP P) else None)
                        else None)
                     else None)); [exact Hw|exact Hlen|].
  intros s W HA. apply emit_corr_spec. exact HA.
Qed.

(* (3) regression of the first series on the second: intercept, slope, (alpha, beta, SSE) *)
Theorem C04_ts_vregx_alpha :
  forall (body : bool) (w : nat) (mp : option nat) (xs ys : list XR),
    1 <= w -> length xs = length ys ->
    exists out, ts_run2 (ts_vregx_alpha_f w mp) body w xs ys = Done out /\ length out = length xs /\
      forall i, i < length xs ->
        nth_error out i =
        Some (let P := pairs (win w i xs) (win w i ys) in
              if mp_eff mp w 0 <=? length P then ols_x P (fun al _ => al) else None).
Proof.
  intros body w mp xs ys Hw Hlen.
  apply (csum_entry (emit_regx_alpha (mp_eff mp w 0))
           (fun P => if mp_eff mp w 0 <=? length P then ols_x P (fun al _ => al) else None));
    [exact Hw|exact Hlen|].
  intros s W HA. apply emit_regx_alpha_spec. exact HA.
Qed.

Theorem C04_ts_vregx_beta :
  forall (body : bool) (w : nat) (mp : option nat) (xs ys : list XR),
    1 <= w -> length xs = length ys ->
    exists out, ts_run2 (ts_vregx_beta_f w mp) body w xs ys = Done out /\ length out = length xs /\
      forall i, i < length xs ->
        nth_error out i =
        Some (let P := pairs (win w i xs) (win w i ys) in
              if mp_eff mp w 0 <=? length P then ols_x P (fun _ be => be) else None).
Proof.
  intros body w mp xs ys Hw Hlen.
  apply (csum_entry (emit_regx_beta (mp_eff mp w 0))
           (fun P => if mp_eff mp w 0 <=? length P then ols_x P (fun _ be => be) else None));
    [exact Hw|exact Hlen|].
  intros s W HA. apply emit_regx_beta_spec. exact HA.
Qed.

Theorem C04_ts_vregx_all :
  forall (body : bool) (w : nat) (mp : option nat) (xs ys : list XR),
    1 <= w -> length xs = length ys ->
    exists out, ts_run2 (ts_vregx_all_f w mp) body w xs ys = Done out /\ length out = length xs /\
      forall i, i < length xs ->
        nth_error out i =
        Some (let P := pairs (win w i xs) (win w i ys) in
              if mp_eff mp w 0 <=? length P then
                (if Req_EM_T (detB P) 0 then (None, None, None)
                 else (Some (ols_alpha P), Some (ols_beta P), Some (sse (ols_alpha P) (ols_beta P) P)))
              else (None, None, None)).
Proof.
  intros body w mp xs ys Hw Hlen.
  apply (csum_entry (emit_regx_all (mp_eff mp w 0))
           (fun P => if mp_eff mp w 0 <=? length P then
                       (if Req_EM_T (detB P) 0 then (None, None, None)
                        else (Some (ols_alpha P), Some (ols_beta P),
                              Some (sse (ols_alpha P) (ols_beta P) P)))
                     else (None, None, None))); [exact Hw|exact Hlen|].
  intros s W HA. apply emit_regx_all_spec. exact HA.
Qed.

(* (4) what (ols_alpha, ols_beta) are: THE least-squares line.  Normal equations, uniqueness, minimality
   of the sum of squared errors over all lines; the fit is undefined exactly when the regressor is
   constant over the observations (which includes n <= 1). *)
Theorem C04_ols_normal_equations :
  forall P : list (R * R), detB P <> 0%R -> normal_eqs (ols_alpha P) (ols_beta P) P.
Proof. exact ols_normal_eqs. Qed.

Theorem C04_ols_unique :
  forall (al be : R) (P : list (R * R)),
    detB P <> 0%R -> normal_eqs al be P -> al = ols_alpha P /\ be = ols_beta P.
Proof. exact ols_unique. Qed.

Theorem C04_ols_minimises :
  forall (P : list (R * R)) (al' be' : R),
    detB P <> 0%R -> (sse (ols_alpha P) (ols_beta P) P <= sse al' be' P)%R.
Proof. exact ols_minimises. Qed.

Theorem C04_singular_iff_constant_regressor :
  forall P : list (R * R), detB P = 0%R <-> Forall (fun p => snd p = meanB P) P.
Proof. exact detB_zero_iff_constant. Qed.

Theorem C04_defined_needs_two_observations :
  forall P : list (R * R), detB P <> 0%R -> 2 <= length P.
Proof. exact det_nonzero_two. Qed.

(* (5) residual mean / standard deviation / skewness = the aggregation statistic (agg.rs vmean, vstd(2),
   vskew(3)) of the list of least-squares residuals of the pairwise-complete observations.
   rstat_spec RMean = mean, RStd = sample std (0 under the EPS floor), RSkew = adjusted skewness. *)
Theorem C04_ts_vregx_resid :
  forall (k : rstat) (body : bool) (w : nat) (mp : option nat) (xs ys : list XR),
    1 <= w -> length xs = length ys ->
    exists out, ts_vregx_resid k body w mp xs ys = Done out /\ length out = length xs /\
      forall i, i < length xs ->
        nth_error out i =
        Some (let P := pairs (win w i xs) (win w i ys) in
              if mp_eff mp w 0 <=? length P then
                (if Req_EM_T (detB P) 0 then None
                 else rstat_spec k (resids (ols_alpha P) (ols_beta P) P))
              else None).
Proof. exact resid_entry. Qed.

(* the residuals of a least-squares fit with intercept average to zero *)
Theorem C04_ols_resid_mean_zero :
  forall P : list (R * R), detB P <> 0%R -> meanR (resids (ols_alpha P) (ols_beta P) P) = 0%R.
Proof. exact ols_resid_mean_zero. Qed.

(* (6) the time-trend family: least squares of the window's non-null values on t = 1..n *)
Theorem C04_ts_vreg_slope :
  forall (body : bool) (w : nat) (mp : option nat) (xs : list XR), 1 <= w ->
    exists out, ts_run (ts_vreg_slope_f w mp) body w xs = Done out /\ length out = length xs /\
      forall i, i < length xs ->
        nth_error out i =
        Some (let V := valid (win w i xs) in
              if mp_eff mp w 0 <=? length V then ols_x (trend_pairs V) (fun _ be => be) else None).
Proof.
  intros body w mp xs Hw.
  apply (tr_entry (emit_slope (mp_eff mp w 0))
           (fun V => if mp_eff mp w 0 <=? length V then ols_x (trend_pairs V) (fun _ be => be) else None));
    [exact Hw|].
  intros s W HA. apply emit_slope_spec. exact HA.
Qed.

Theorem C04_ts_vreg_intercept :
  forall (body : bool) (w : nat) (mp : option nat) (xs : list XR), 1 <= w ->
    exists out, ts_run (ts_vreg_intercept_f w mp) body w xs = Done out /\ length out = length xs /\
      forall i, i < length xs ->
        nth_error out i =
        Some (let V := valid (win w i xs) in
              if mp_eff mp w 0 <=? length V then ols_x (trend_pairs V) (fun al _ => al) else None).
Proof.
  intros body w mp xs Hw.
  apply (tr_entry (emit_intercept (mp_eff mp w 0))
           (fun V => if mp_eff mp w 0 <=? length V then ols_x (trend_pairs V) (fun al _ => al) else None));
    [exact Hw|].
  intros s W HA. apply emit_intercept_spec. exact HA.
Qed.

(* fitted value at the last point: intercept + slope * n *)
Theorem C04_ts_vreg :
  forall (body : bool) (w : nat) (mp : option nat) (xs : list XR), 1 <= w ->
    exists out, ts_run (ts_vreg_f w mp) body w xs = Done out /\ length out = length xs /\
      forall i, i < length xs ->
        nth_error out i =
        Some (let V := valid (win w i xs) in
              if mp_eff mp w 0 <=? length V
              then ols_x (trend_pairs V) (fun al be => al + be * nP (trend_pairs V))%R else None).
Proof.
  intros body w mp xs Hw.
  apply (tr_entry (emit_reg (mp_eff mp w 0))
           (fun V => if mp_eff mp w 0 <=? length V
                     then ols_x (trend_pairs V) (fun al be => al + be * nP (trend_pairs V))%R else None));
    [exact Hw|].
  intros s W HA. apply emit_reg_spec. exact HA.
Qed.

(* one-step-ahead forecast: intercept + slope * (n + 1) *)
Theorem C04_ts_vtsf :
  forall (body : bool) (w : nat) (mp : option nat) (xs : list XR), 1 <= w ->
    exists out, ts_run (ts_vtsf_f w mp) body w xs = Done out /\ length out = length xs /\
      forall i, i < length xs ->
        nth_error out i =
        Some (let V := valid (win w i xs) in
              if mp_eff mp w 0 <=? length V
              then ols_x (trend_pairs V) (fun al be => al + be * (nP (trend_pairs V) + 1))%R else None).
Proof.
  intros body w mp xs Hw.
  apply (tr_entry (emit_tsf (mp_eff mp w 0))
           (fun V => if mp_eff mp w 0 <=? length V
                     then ols_x (trend_pairs V) (fun al be => al + be * (nP (trend_pairs V) + 1))%R
                     else None)); [exact Hw|].
  intros s W HA. apply emit_tsf_spec. exact HA.
Qed.

(* mean squared residual: sum (x_t - alpha - beta t)^2 / n   (the repaired closed form) *)
Theorem C04_ts_vreg_resid_mean :
  forall (body : bool) (w : nat) (mp : option nat) (xs : list XR), 1 <= w ->
    exists out, ts_run (ts_vreg_resid_mean_f w mp) body w xs = Done out /\ length out = length xs /\
      forall i, i < length xs ->
        nth_error out i =
        Some (let V := valid (win w i xs) in
              if mp_eff mp w 0 <=? length V
              then ols_x (trend_pairs V) (fun al be => sse al be (trend_pairs V) / nP (trend_pairs V))%R
              else None).
Proof.
  intros body w mp xs Hw.
  apply (tr_entry (emit_resid_mean (mp_eff mp w 0))
           (fun V => if mp_eff mp w 0 <=? length V
                     then ols_x (trend_pairs V)
                                (fun al be => sse al be (trend_pairs V) / nP (trend_pairs V))%R
                     else None)); [exact Hw|].
  intros s W HA. apply emit_resid_mean_spec. exact HA.
Qed.

(* the trend fit is defined exactly from two non-null values on *)
Theorem C04_trend_singular_iff :
  forall V : list R, detB (trend_pairs V) = 0%R <-> length V <= 1.
Proof. exact trend_det_zero_iff. Qed.

(* (7) a perfect linear window has zero residual.
   (a) any observations on a line a = c + d b with a non-constant regressor: the fit recovers (c, d),
       SSE = 0, every residual is 0, and every residual statistic is 0 *)
Theorem C04_perfect_fit :
  forall (c d : R) (P : list (R * R)),
    detB P <> 0%R -> Forall (fun p => fst p = c + d * snd p)%R P ->
    ols_alpha P = c /\ ols_beta P = d /\ sse (ols_alpha P) (ols_beta P) P = 0%R /\
    Forall (fun r => r = 0%R) (resids (ols_alpha P) (ols_beta P) P).
Proof. exact perfect_fit. Qed.

Theorem C04_perfect_line_resid_stats :
  forall (k : rstat) (mp : nat) (c d : R) (P : list (R * R)),
    detB P <> 0%R -> Forall (fun p => fst p = c + d * snd p)%R P -> mp <= length P ->
    (k = RSkew -> 3 <= length P) ->
    (if mp <=? length P then
       (if Req_EM_T (detB P) 0 then None else rstat_spec k (resids (ols_alpha P) (ols_beta P) P))
     else None) = Some 0%R.
Proof. exact perfect_resid_stats. Qed.

(*  (b) the time-trend family end to end: if the non-null values of the window at position i are
        c + d*1, ..., c + d*n (n >= 2, n >= min_periods), ts_vreg_resid_mean emits exactly 0, and slope /
        intercept / fitted value / forecast are d, c, c + d n, c + d (n+1) *)
Corollary C04_perfect_line :
  forall (body : bool) (w : nat) (mp : option nat) (xs : list XR) (i n : nat) (c d : R),
    1 <= w -> i < length xs -> 2 <= n -> mp_eff mp w 0 <= n ->
    valid (win w i xs) = line c d n ->
    exists out, ts_run (ts_vreg_resid_mean_f w mp) body w xs = Done out /\
                nth_error out i = Some (Some 0%R).
Proof.
  intros body w mp xs i n c d Hw Hi Hn Hmp HV.
  destruct (C04_ts_vreg_resid_mean body w mp xs Hw) as (out & Hrun & _ & Hout).
  exists out. split; [exact Hrun|]. rewrite (Hout i Hi), HV. f_equal. cbv zeta.
  rewrite (perfect_line_stat c d n (mp_eff mp w 0)
             (fun al be => sse al be (trend_pairs (line c d n)) / nP (trend_pairs (line c d n)))%R Hn Hmp).
  destruct (perfect_line_fit c d n Hn) as (_ & Ha & Hb & Hs). rewrite Ha, Hb in Hs. rewrite Hs.
  f_equal. unfold Rdiv. apply Rmult_0_l.
Qed.

Corollary C04_perfect_line_coefficients :
  forall (body : bool) (w : nat) (mp : option nat) (xs : list XR) (i n : nat) (c d : R),
    1 <= w -> i < length xs -> 2 <= n -> mp_eff mp w 0 <= n ->
    valid (win w i xs) = line c d n ->
    (exists out, ts_run (ts_vreg_slope_f w mp) body w xs = Done out /\ nth_error out i = Some (Some d)) /\
    (exists out, ts_run (ts_vreg_intercept_f w mp) body w xs = Done out /\ nth_error out i = Some (Some c)) /\
    (exists out, ts_run (ts_vreg_f w mp) body w xs = Done out /\
                 nth_error out i = Some (Some (c + d * INR n)%R)) /\
    (exists out, ts_run (ts_vtsf_f w mp) body w xs = Done out /\
                 nth_error out i = Some (Some (c + d * (INR n + 1))%R)).
Proof.
  intros body w mp xs i n c d Hw Hi Hn Hmp HV.
  assert (HnP : nP (trend_pairs (line c d n)) = INR n).
  { unfold trend_pairs. rewrite trend_nP. unfold nR. rewrite line_length. reflexivity. }
  split; [|split; [|split]].
  - destruct (C04_ts_vreg_slope body w mp xs Hw) as (out & Hrun & _ & Hout).
    exists out. split; [exact Hrun|]. rewrite (Hout i Hi), HV. f_equal. cbv zeta.
    apply (perfect_line_stat c d n (mp_eff mp w 0) (fun _ be => be) Hn Hmp).
  - destruct (C04_ts_vreg_intercept body w mp xs Hw) as (out & Hrun & _ & Hout).
    exists out. split; [exact Hrun|]. rewrite (Hout i Hi), HV. f_equal. cbv zeta.
    apply (perfect_line_stat c d n (mp_eff mp w 0) (fun al _ => al) Hn Hmp).
  - destruct (C04_ts_vreg body w mp xs Hw) as (out & Hrun & _ & Hout).
    exists out. split; [exact Hrun|]. rewrite (Hout i Hi), HV. f_equal. cbv zeta.
    rewrite (perfect_line_stat c d n (mp_eff mp w 0)
               (fun al be => al + be * nP (trend_pairs (line c d n)))%R Hn Hmp). rewrite HnP. reflexivity.
  - destruct (C04_ts_vtsf body w mp xs Hw) as (out & Hrun & _ & Hout).
    exists out. split; [exact Hrun|]. rewrite (Hout i Hi), HV. f_equal. cbv zeta.
    rewrite (perfect_line_stat c d n (mp_eff mp w 0)
               (fun al be => al + be * (nP (trend_pairs (line c d n)) + 1))%R Hn Hmp). rewrite HnP. reflexivity.
Qed.

(* ---- non-vacuity ------------------------------------------------------------------------------- *)
(* the premises of the entry theorems hold on a window with nulls in both series, warm-up and expiry *)
Example C04_example_cov :
  exists out, ts_run2 (ts_vcov_f (A := XR) 2 (Some 1)) false 2
                      [Some 1%R; None; Some 3%R; Some 4%R] [Some 2%R; Some 5%R; None; Some 1%R] = Done out
              /\ length out = 4.
Proof.
  destruct (C04_ts_vcov false 2 (Some 1) [Some 1%R; None; Some 3%R; Some 4%R]
              [Some 2%R; Some 5%R; None; Some 1%R] ltac:(auto) ltac:(reflexivity)) as (out & H & L & _).
  exists out. split; assumption.
Qed.
(* a non-singular set of observations on a line: the premises of C04_ols_* and C04_perfect_fit are satisfiable *)
Example C04_example_perfect_fit :
  let P := [(1, 0); (3, 1); (5, 2)]%R in
  detB P <> 0%R /\ Forall (fun p => fst p = 1 + 2 * snd p)%R P /\ ols_beta P = 2%R.
Proof.
  intros P.
  assert (HD : detB P <> 0%R) by (unfold detB, SBB, SB, sumP, nP, P; cbn; lra).
  assert (HL : Forall (fun p => fst p = 1 + 2 * snd p)%R P)
    by (unfold P; repeat constructor; cbn; lra).
  split; [exact HD|]. split; [exact HL|].
  destruct (C04_perfect_fit 1%R 2%R P HD HL) as (_ & Hb & _). exact Hb.
Qed.
(* a window that is a perfect line with a null inside: the premises of C04_perfect_line are satisfiable *)
Example C04_example_perfect_line :
  valid (win 4 3 [Some 3%R; None; Some 5%R; Some 7%R]) = line 1 2 3 /\ mp_eff None 4 0 <= 3.
Proof. split; [unfold line; cbn; repeat f_equal; lra|cbn; lia]. Qed.
(* a constant regressor is singular: the null branch of ols_x is inhabited *)
Example C04_example_singular : detB [(1, 2); (5, 2); (7, 2)]%R = 0%R.
Proof. unfold detB, SBB, SB, sumP, nP. cbn. lra. Qed.

(* ================================================================================================ *)
(* AUDIT (notes/C04.md, "Audit matrix").  Proofs: Proofs/Audit04.v.                                   *)
(* ================================================================================================ *)

(* ---- (8) EVERY input of the two-series entry points, for every feature and every carrier: which check of the
        code fires first (guard_kind: both are assertions), else a fully written output as long as the common
        prefix.  check2 true = index body (caller buffer, Vec / ndarray fast path): `assert!(other.len() >= len)`
        then `assert!(window > 0 || len == 0)`; check2 false = iterator body: the window assertion on the first
        series only. ---- *)
Theorem C04_two_series_first_failing_check :
  forall (T1 T2 St O : Type) (F : feat (T1 * T2) St O) (body : bool) (w : nat) (xs : list T1) (ys : list T2),
    match check2 body w xs ys with
    | Some g => ts_run2 F body w xs ys = Panicked (guard_kind g)
    | None => exists l, ts_run2 F body w xs ys = Done l /\ length l = common xs ys
    end.
Proof. exact (@ts_run2_by_check). Qed.

Theorem C04_accepted_inputs :
  forall (T1 T2 : Type) (body : bool) (w : nat) (xs : list T1) (ys : list T2),
    check2 body w xs ys = None <-> (body = false \/ length xs <= length ys) /\ (1 <= w \/ xs = []).
Proof. exact (@check2_none_iff). Qed.

(* the two rejected classes spelled out: window 0 (both bodies; the FIRST series decides) and a shorter second
   series in the index body *)
Theorem C04_window_zero :
  forall (T1 T2 St O : Type) (F : feat (T1 * T2) St O) (body : bool) (xs : list T1) (ys : list T2),
    ts_run2 F body 0 xs ys = match xs with [] => Done [] | _ :: _ => Panicked AssertFail end.
Proof. exact (@ts_run2_window0). Qed.

Theorem C04_shorter_second_series_index_body :
  forall (T1 T2 St O : Type) (F : feat (T1 * T2) St O) (w : nat) (xs : list T1) (ys : list T2),
    length ys < length xs -> ts_run2 F true w xs ys = Panicked AssertFail.
Proof. exact (@ts_run2_shorter_second). Qed.

(* the residual family (rolling2_apply_idx) has the same checks *)
Theorem C04_resid_first_failing_check :
  forall (A : Type) (NA : Num A) (T1 : Type) (D1 : IsNone T1 A) (T2 : Type) (D2 : IsNone T2 A)
         (k : rstat) (body : bool) (w : nat) (mp : option nat) (xs : list T1) (ys : list T2),
    (match check2 body w xs ys with
     | Some g => ts_vregx_resid k body w mp xs ys = Panicked (guard_kind g)
     | None => exists l, ts_vregx_resid k body w mp xs ys = Done l /\ length l = common xs ys
     end) /\
    ts_vregx_resid k body 0 mp xs ys = match xs with [] => Done [] | _ :: _ => Panicked AssertFail end.
Proof. intros. split; [apply resid_by_check|apply resid_window0]. Qed.

(* the one-series (time-trend) family: window 0 *)
Theorem C04_trend_window_zero :
  forall (T St O : Type) (F : feat T St O) (body : bool) (xs : list T),
    ts_run F body 0 xs = match xs with [] => Done [] | _ :: _ => Panicked AssertFail end.
Proof. exact (@ts_run_window0). Qed.

(* ---- (9) the value theorems WITHOUT `length xs = length ys`: on every accepted input with a positive window
        (iterator body: any two lengths; index body: second series not shorter) the output has the length of the
        common prefix and position i is the statistic of the pairwise-complete observations of the window ---- *)
Theorem C04_cross_sum_family_any_lengths :
  forall (O : Type) (emit : @csum XR -> O) (G : list (R * R) -> O) (body : bool) (w : nat) (xs ys : list XR),
    1 <= w -> (body = false \/ length xs <= length ys) ->
    (forall s W, csum_abs s W -> emit s = G (vpairs W)) ->
    exists out, ts_run2 (csum_feat emit) body w xs ys = Done out /\ length out = common xs ys /\
      forall i, i < common xs ys -> nth_error out i = Some (G (pairs (win w i xs) (win w i ys))).
Proof. intros O emit G body w xs ys. apply csum_entry_any_lengths. Qed.

Theorem C04_ts_vcov_any_lengths :
  forall (body : bool) (w : nat) (mp : option nat) (xs ys : list XR),
    1 <= w -> (body = false \/ length xs <= length ys) ->
    exists out, ts_run2 (ts_vcov_f w mp) body w xs ys = Done out /\ length out = common xs ys /\
      forall i, i < common xs ys ->
        nth_error out i =
        Some (let P := pairs (win w i xs) (win w i ys) in
              if mp_eff mp w 2 <=? length P then Some (cov_sample P) else None).
Proof.
  intros body w mp xs ys Hw Hb.
  apply (csum_entry_any_lengths (emit_cov (mp_eff mp w 2))
           (fun P => if mp_eff mp w 2 <=? length P then Some (cov_sample P) else None)); [exact Hw|exact Hb|].
  intros s W HA. apply emit_cov_spec; [exact HA|apply mp_eff_ge].
Qed.

Theorem C04_ts_vcorr_any_lengths :
  forall (body : bool) (w : nat) (mp : option nat) (xs ys : list XR),
    1 <= w -> (body = false \/ length xs <= length ys) ->
    exists out, ts_run2 (ts_vcorr_f w mp) body w xs ys = Done out /\ length out = common xs ys /\
      forall i, i < common xs ys ->
        nth_error out i =
        Some (let P := pairs (win w i xs) (win w i ys) in
              if mp_eff mp w 0 <=? length P then
                (if Rlt_dec EPS (popvarR (map fst P)) then
                   (if Rlt_dec EPS (popvarR (map snd P)) then Some (corrP P) else None)
                 else None)
              else None).
Proof.
  intros body w mp xs ys Hw Hb.
  apply (csum_entry_any_lengths (emit_corr (mp_eff mp w 0))
           (fun P => if mp_eff mp w 0 <=? length P then
                       (if Rlt_dec EPS (popvarR (map fst P)) then
                          (if Rlt_dec EPS (popvarR (map snd P)) then Some (corrP P) else None)
                        else None)
                     else None)); [exact Hw|exact Hb|].
  intros s W HA. apply emit_corr_spec. exact HA.
Qed.

Theorem C04_ts_vregx_any_lengths :
  forall (body : bool) (w : nat) (mp : option nat) (xs ys : list XR),
    1 <= w -> (body = false \/ length xs <= length ys) ->
    (exists out, ts_run2 (ts_vregx_alpha_f w mp) body w xs ys = Done out /\ length out = common xs ys /\
       forall i, i < common xs ys ->
         nth_error out i = Some (let P := pairs (win w i xs) (win w i ys) in
                                 if mp_eff mp w 0 <=? length P then ols_x P (fun al _ => al) else None)) /\
    (exists out, ts_run2 (ts_vregx_beta_f w mp) body w xs ys = Done out /\ length out = common xs ys /\
       forall i, i < common xs ys ->
         nth_error out i = Some (let P := pairs (win w i xs) (win w i ys) in
                                 if mp_eff mp w 0 <=? length P then ols_x P (fun _ be => be) else None)) /\
    (exists out, ts_run2 (ts_vregx_all_f w mp) body w xs ys = Done out /\ length out = common xs ys /\
       forall i, i < common xs ys ->
         nth_error out i =
         Some (let P := pairs (win w i xs) (win w i ys) in
               if mp_eff mp w 0 <=? length P then
                 (if Req_EM_T (detB P) 0 then (None, None, None)
                  else (Some (ols_alpha P), Some (ols_beta P), Some (sse (ols_alpha P) (ols_beta P) P)))
               else (None, None, None))).
Proof.
  intros body w mp xs ys Hw Hb. split; [|split].
  - apply (csum_entry_any_lengths (emit_regx_alpha (mp_eff mp w 0))
             (fun P => if mp_eff mp w 0 <=? length P then ols_x P (fun al _ => al) else None)); [exact Hw|exact Hb|].
    intros s W HA. apply emit_regx_alpha_spec. exact HA.
  - apply (csum_entry_any_lengths (emit_regx_beta (mp_eff mp w 0))
             (fun P => if mp_eff mp w 0 <=? length P then ols_x P (fun _ be => be) else None)); [exact Hw|exact Hb|].
    intros s W HA. apply emit_regx_beta_spec. exact HA.
  - apply (csum_entry_any_lengths (emit_regx_all (mp_eff mp w 0))
             (fun P => if mp_eff mp w 0 <=? length P then
                         (if Req_EM_T (detB P) 0 then (None, None, None)
                          else (Some (ols_alpha P), Some (ols_beta P),
                                Some (sse (ols_alpha P) (ols_beta P) P)))
                       else (None, None, None))); [exact Hw|exact Hb|].
    intros s W HA. apply emit_regx_all_spec. exact HA.
Qed.

Theorem C04_ts_vregx_resid_any_lengths :
  forall (k : rstat) (body : bool) (w : nat) (mp : option nat) (xs ys : list XR),
    1 <= w -> (body = false \/ length xs <= length ys) ->
    exists out, ts_vregx_resid k body w mp xs ys = Done out /\ length out = common xs ys /\
      forall i, i < common xs ys ->
        nth_error out i =
        Some (let P := pairs (win w i xs) (win w i ys) in
              if mp_eff mp w 0 <=? length P then
                (if Req_EM_T (detB P) 0 then None
                 else rstat_spec k (resids (ols_alpha P) (ols_beta P) P))
              else None).
Proof. exact resid_entry_any_lengths. Qed.

(* ---- (10) the window and the pairwise-complete selection, positionally ---- *)
(* win w i xs is positions max(0, i+1-w) ..= i (w > len included: the window is then the whole prefix) *)
Theorem C04_window_positions :
  forall (X : Type) (w i : nat) (xs : list X), i < length xs ->
    length (win w i xs) = S i - (S i - w) /\
    forall j, j < S i - (S i - w) -> nth_error (win w i xs) j = nth_error xs (S i - w + j).
Proof. exact (@win_positions). Qed.

(* ... and a window at least as long as the prefix (every position when w > len) is the whole prefix 0..=i: the
   statistics are then the expanding ones *)
Theorem C04_window_covers_prefix :
  forall (X : Type) (w i : nat) (xs : list X), S i <= w -> win w i xs = firstn (S i) xs.
Proof. exact (@win_covers_prefix). Qed.

(* (a, b) is an observation iff some position of the window holds a in the first and b in the second series, both
   non-null; the count is the number of such positions, and a null in EITHER series drops the position from both
   coordinates *)
Theorem C04_pairs_positional :
  forall (W1 W2 : list XR) (a b : R),
    In (a, b) (pairs W1 W2) <->
    exists j, nth_error W1 j = Some (Some a) /\ nth_error W2 j = Some (Some b).
Proof. exact pairs_positional. Qed.

Theorem C04_pairs_are_the_complete_positions :
  forall (W1 W2 : list XR),
    let P := pairs W1 W2 in
    length P = length (filter both_some (combine W1 W2)) /\
    map (fun p => Some (fst p)) P = map fst (filter both_some (combine W1 W2)) /\
    map (fun p => Some (snd p)) P = map snd (filter both_some (combine W1 W2)).
Proof.
  intros W1 W2 P. split; [apply vpairs_length|]. apply vpairs_map_fst.
Qed.

(* ---- (11) EVERY numeric carrier (binary64 included) and every pair of null dictionaries: the accumulator's count
         is the number of pairwise-complete positions of the window, so all five statistics are null wherever that
         count is below the effective min_periods.  No law of the arithmetic is used. ---- *)
Theorem C04_count_tracks_window_any_carrier :
  forall (A : Type) (NA : Num A) (T1 : Type) (D1 : IsNone T1 A) (T2 : Type) (D2 : IsNone T2 A)
         (O : Type) (emit : @csum A -> O) (body : bool) (w : nat) (xs : list T1) (ys : list T2),
    1 <= w -> (body = false \/ length xs <= length ys) ->
    exists out, ts_run2 (csum_feat emit) body w xs ys = Done out /\ length out = common xs ys /\
      forall i, i < common xs ys ->
        exists s, nth_error out i = Some (emit s) /\ c_n s = npairs (combine (win w i xs) (win w i ys)).
Proof. intros A NA T1 D1 T2 D2 O emit body w xs ys. apply count_tracks_window. Qed.

Theorem C04_below_min_periods_null_any_carrier :
  forall (A : Type) (NA : Num A) (T1 : Type) (D1 : IsNone T1 A) (T2 : Type) (D2 : IsNone T2 A)
         (body : bool) (w : nat) (mp : option nat) (xs : list T1) (ys : list T2),
    1 <= w -> (body = false \/ length xs <= length ys) ->
    let below k i := npairs (combine (win w i xs) (win w i ys)) < mp_eff mp w k in
    (exists out, ts_run2 (ts_vcov_f w mp) body w xs ys = Done out /\ length out = common xs ys /\
       forall i, i < common xs ys -> below 2 i -> nth_error out i = Some nnan) /\
    (exists out, ts_run2 (ts_vcorr_f w mp) body w xs ys = Done out /\ length out = common xs ys /\
       forall i, i < common xs ys -> below 0 i -> nth_error out i = Some nnan) /\
    (exists out, ts_run2 (ts_vregx_alpha_f w mp) body w xs ys = Done out /\ length out = common xs ys /\
       forall i, i < common xs ys -> below 0 i -> nth_error out i = Some nnan) /\
    (exists out, ts_run2 (ts_vregx_beta_f w mp) body w xs ys = Done out /\ length out = common xs ys /\
       forall i, i < common xs ys -> below 0 i -> nth_error out i = Some nnan) /\
    (exists out, ts_run2 (ts_vregx_all_f w mp) body w xs ys = Done out /\ length out = common xs ys /\
       forall i, i < common xs ys -> below 0 i -> nth_error out i = Some (nnan, nnan, nnan)).
Proof.
  intros A NA T1 D1 T2 D2 body w mp xs ys Hw Hb below.
  split; [|split; [|split; [|split]]].
  - apply (below_min_periods_null (emit_cov (mp_eff mp w 2)) nnan (mp_eff mp w 2)); [apply emit_cov_below|exact Hw|exact Hb].
  - apply (below_min_periods_null (emit_corr (mp_eff mp w 0)) nnan (mp_eff mp w 0)); [apply emit_corr_below|exact Hw|exact Hb].
  - apply (below_min_periods_null (emit_regx_alpha (mp_eff mp w 0)) nnan (mp_eff mp w 0));
      [apply emit_regx_alpha_below|exact Hw|exact Hb].
  - apply (below_min_periods_null (emit_regx_beta (mp_eff mp w 0)) nnan (mp_eff mp w 0));
      [apply emit_regx_beta_below|exact Hw|exact Hb].
  - apply (below_min_periods_null (emit_regx_all (mp_eff mp w 0)) (nnan, nnan, nnan) (mp_eff mp w 0));
      [apply emit_regx_all_below|exact Hw|exact Hb].
Qed.

(* at the proof carrier the generic count is the length of the specification's list of observations *)
Theorem C04_count_at_XR :
  forall (W1 W2 : list XR), npairs (D1 := IsNoneXR) (D2 := IsNoneXR) (combine W1 W2) = length (pairs W1 W2).
Proof. intros W1 W2. apply npairs_XR. Qed.

(* the time-trend family likewise: count of non-null values, null below min_periods, at every carrier *)
Theorem C04_trend_below_min_periods_null_any_carrier :
  forall (A : Type) (NA : Num A) (T : Type) (DT : IsNone T A) (emit : nat -> @tr_st A -> A)
         (body : bool) (w : nat) (mp : option nat) (xs : list T),
    emit = emit_reg \/ emit = emit_tsf \/ emit = emit_slope \/ emit = emit_intercept \/ emit = emit_resid_mean ->
    1 <= w ->
    exists out, ts_run (tr_feat (emit (mp_eff mp w 0))) body w xs = Done out /\ length out = length xs /\
      forall i, i < length xs ->
        (exists s, nth_error out i = Some (emit (mp_eff mp w 0) s) /\ t_n s = nvalid (win w i xs)) /\
        (nvalid (win w i xs) < mp_eff mp w 0 -> nth_error out i = Some nnan).
Proof.
  intros A NA T DT emit body w mp xs He Hw.
  destruct (trend_count_tracks_window (emit (mp_eff mp w 0)) body w xs Hw) as (out & Hrun & Hl & Hout).
  exists out. split; [exact Hrun|]. split; [exact Hl|]. intros i Hi. split; [exact (Hout i Hi)|].
  intros Hn. destruct (Hout i Hi) as (s & Hs & Hc). rewrite Hs. f_equal.
  rewrite <- Hc in Hn. destruct (trend_emits_below (mp_eff mp w 0) s Hn) as (E1 & E2 & E3 & E4 & E5).
  destruct He as [-> |[-> |[-> |[-> | ->]]]]; assumption.
Qed.

(* ... and the three residual statistics (rolling2_apply_idx, both bodies) *)
Theorem C04_resid_below_min_periods_null_any_carrier :
  forall (A : Type) (NA : Num A) (T1 : Type) (D1 : IsNone T1 A) (T2 : Type) (D2 : IsNone T2 A)
         (k : rstat) (body : bool) (w : nat) (mp : option nat) (xs : list T1) (ys : list T2),
    1 <= w -> (body = false \/ length xs <= length ys) ->
    exists out, ts_vregx_resid k body w mp xs ys = Done out /\ length out = common xs ys /\
      forall i, i < common xs ys ->
        npairs (D1 := D1) (D2 := D2) (combine (win w i xs) (win w i ys)) < mp_eff mp w 0 ->
        nth_error out i = Some nnan.
Proof. intros A NA T1 D1 T2 D2 k body w mp xs ys. apply resid_below_min_periods_null. Qed.

(* ---- (12) "a perfect linear window has zero residual", end to end on the two-series model: if the pairwise-complete
         observations of the window at position i lie on a = c + d b with a non-constant regressor, the triple is
         (c, d, 0), alpha = c, beta = d and the residual mean / std / skew (>= 3 observations) are 0 ---- *)
Theorem C04_perfect_window_regx :
  forall (body : bool) (w : nat) (mp : option nat) (xs ys : list XR) (i : nat) (c d : R),
    1 <= w -> length xs = length ys -> i < length xs ->
    let P := pairs (win w i xs) (win w i ys) in
    detB P <> 0%R -> Forall (fun p => fst p = c + d * snd p)%R P -> mp_eff mp w 0 <= length P ->
    (exists out, ts_run2 (ts_vregx_all_f w mp) body w xs ys = Done out /\
                 nth_error out i = Some (Some c, Some d, Some 0%R)) /\
    (exists out, ts_run2 (ts_vregx_alpha_f w mp) body w xs ys = Done out /\ nth_error out i = Some (Some c)) /\
    (exists out, ts_run2 (ts_vregx_beta_f w mp) body w xs ys = Done out /\ nth_error out i = Some (Some d)) /\
    (forall k, (k = RSkew -> 3 <= length P) ->
       exists out, ts_vregx_resid k body w mp xs ys = Done out /\ nth_error out i = Some (Some 0%R)).
Proof. exact perfect_window_regx. Qed.

(* ---- non-vacuity of the audit theorems ---- *)
(* unequal lengths: accepted by the iterator body (common prefix), rejected by the index body; window 0 *)
Example C04_example_unequal_lengths :
  let xs := [Some 1%R; None; Some 3%R] in let ys := [Some 2%R; Some 5%R] in
  check2 false 2 xs ys = None /\ check2 true 2 xs ys = Some GShorter /\ check2 true 2 ys xs = None /\
  check2 false 0 xs ys = Some GWindow /\ common xs ys = 2 /\
  (exists out, ts_run2 (ts_vcov_f (A := XR) 2 (Some 1)) false 2 xs ys = Done out /\ length out = 2) /\
  ts_run2 (ts_vcov_f (A := XR) 2 (Some 1)) true 2 xs ys = Panicked AssertFail.
Proof.
  cbv zeta. split; [reflexivity|]. split; [reflexivity|]. split; [reflexivity|]. split; [reflexivity|].
  split; [reflexivity|]. split.
  - destruct (C04_ts_vcov_any_lengths false 2 (Some 1) [Some 1%R; None; Some 3%R] [Some 2%R; Some 5%R]
                ltac:(auto) ltac:(left; reflexivity)) as (out & H & L & _).
    exists out. split; [exact H|exact L].
  - apply C04_shorter_second_series_index_body. cbn. auto.
Qed.

(* a window below min_periods at binary64 *)
Example C04_example_below_min_periods_binary64 :
  let xs := [1%float; nan; 3%float] in let ys := [Some 2%float; Some 5%float; None] in
  npairs (combine (win 3 2 xs) (win 3 2 ys)) = 1 /\ mp_eff None 3 2 = 2 /\
  ts_run2 (ts_vcov_f (A := float) 3 None) true 3 xs ys = Done [nan; nan; nan] /\
  npairs (combine (win 3 2 xs) (win 3 2 ys)) < mp_eff (Some 2) 3 0 /\
  ts_vregx_resid RStd false 3 (Some 2) xs ys = Done [nan; nan; nan].
Proof. vm_compute. repeat split; repeat constructor. Qed.

(* a perfect linear window with a null in each series: the premises of C04_perfect_window_regx are satisfiable *)
Example C04_example_perfect_window :
  let xs := [Some 1%R; None; Some 5%R; Some 7%R] in let ys := [Some 0%R; Some 9%R; Some 2%R; Some 3%R] in
  let P := pairs (win 4 3 xs) (win 4 3 ys) in
  P = [(1, 0); (5, 2); (7, 3)]%R /\ detB P <> 0%R /\ Forall (fun p => fst p = 1 + 2 * snd p)%R P /\
  mp_eff None 4 0 <= length P.
Proof.
  cbv zeta. split; [reflexivity|].
  change (pairs (win 4 3 [Some 1%R; None; Some 5%R; Some 7%R]) (win 4 3 [Some 0%R; Some 9%R; Some 2%R; Some 3%R]))
    with [(1, 0); (5, 2); (7, 3)]%R.
  split; [unfold detB, SBB, SB, sumP, nP; cbn; lra|]. split; [repeat constructor; cbn; lra|cbn; lia].
Qed.


Print Assumptions C04_cross_sums_track_window.
Print Assumptions C04_ts_vcov.
Print Assumptions C04_ts_vcorr.
Print Assumptions C04_ts_vregx_alpha.
Print Assumptions C04_ts_vregx_beta.
Print Assumptions C04_ts_vregx_all.
Print Assumptions C04_ols_normal_equations.
Print Assumptions C04_ols_unique.
Print Assumptions C04_ols_minimises.
Print Assumptions C04_singular_iff_constant_regressor.
Print Assumptions C04_ts_vregx_resid.
Print Assumptions C04_ts_vreg.
Print Assumptions C04_ts_vtsf.
Print Assumptions C04_ts_vreg_slope.
Print Assumptions C04_ts_vreg_intercept.
Print Assumptions C04_ts_vreg_resid_mean.
Print Assumptions C04_perfect_fit.
Print Assumptions C04_perfect_line_resid_stats.
Print Assumptions C04_perfect_line.
Print Assumptions C04_perfect_line_coefficients.
Print Assumptions C04_defined_needs_two_observations.
Print Assumptions C04_ols_resid_mean_zero.
Print Assumptions C04_trend_singular_iff.
Print Assumptions C04_two_series_first_failing_check.
Print Assumptions C04_accepted_inputs.
Print Assumptions C04_window_zero.
Print Assumptions C04_shorter_second_series_index_body.
Print Assumptions C04_resid_first_failing_check.
Print Assumptions C04_trend_window_zero.
Print Assumptions C04_cross_sum_family_any_lengths.
Print Assumptions C04_ts_vcov_any_lengths.
Print Assumptions C04_ts_vcorr_any_lengths.
Print Assumptions C04_ts_vregx_any_lengths.
Print Assumptions C04_ts_vregx_resid_any_lengths.
Print Assumptions C04_window_positions.
Print Assumptions C04_pairs_positional.
Print Assumptions C04_pairs_are_the_complete_positions.
Print Assumptions C04_count_tracks_window_any_carrier.
Print Assumptions C04_below_min_periods_null_any_carrier.
Print Assumptions C04_count_at_XR.
Print Assumptions C04_trend_below_min_periods_null_any_carrier.
Print Assumptions C04_perfect_window_regx.
Print Assumptions C04_resid_below_min_periods_null_any_carrier.
Print Assumptions C04_window_covers_prefix.
