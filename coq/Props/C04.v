(* Props/C04.v — placeholder while the pipeline is wired; replaced by the real statements. *)
From Tevec Require Import Base.Prelude Model.Driver Model.Features Model.Binary Model.Reg.
Theorem C04_placeholder : forall n : nat, n + 0 = n.
Proof. intros n. lia. Qed.
