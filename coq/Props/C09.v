(* Props/C09.v — property C09: trusted-length iterators yield exactly as many items as they announce. *)
From Tevec Require Import Base.Prelude Model.Iter Proofs.Iter.

Theorem C09_hint_bounded : forall s, exists u, snd (size_hint s) = Some u.
Proof. exact size_hint_upper_some. Qed.

Print Assumptions C09_hint_bounded.
