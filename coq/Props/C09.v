(* Props/C09.v — property C09: trusted-length iterators yield exactly as many items as they announce.
   Only statements, closed by lemmas of Proofs/Iter.v; non-vacuity Examples; Print Assumptions.

   Vocabulary (Model/Iter.v, Proofs/Iter.v):
     it                 iterator states (std adaptors, TrustIter, Linspace, Box)
     consume cs s       the state after the calls cs (false = next(), true = next_back())
     yields s l         plain safe iteration of s (next() until None) produces exactly the items l
     wfb false s        s is built so that every TrustIter below announces its true count (front use)
     wfb true s         same, and no node below is an FnMut map or a padded take (not double-ended)
     build src gs       the pipeline interpreter of the random part of the harness                *)
From Tevec Require Import Base.Prelude Model.Iter Proofs.Iter Model.IterAudit Proofs.Audit09 Proofs.Audit09Collect.
From Tevec Require Model.Collect Model.Driver.

(* (1) the size hint is exact from any point of a front consumption onwards *)
Theorem C09_hint_exact_front :
  forall (s : it) (k : nat) (l : list val),
    wfb false s -> yields (consume (repeat false k) s) l ->
    size_hint (consume (repeat false k) s) = (length l, Some (length l)).
Proof. exact hint_exact_front. Qed.

(* (2) ... and from any point of a consumption from EITHER end, for every state std / the library make
       double-ended: all nodes except the FnMut map (order dependent) and the padded take (not double-ended
       in std); next_back through Take / Skip / Zip / Enumerate (computed from len()) included *)
Theorem C09_hint_exact_both_ends :
  forall (s : it) (cs : list bool) (l : list val),
    wfb true s -> yields (consume cs s) l ->
    size_hint (consume cs s) = (length l, Some (length l)).
Proof. exact hint_exact_both. Qed.

(* (3) every pipeline of the adaptor grammar, arbitrary parameters, any number of next() calls *)
Theorem C09_hint_exact_pipeline :
  forall (src : source) (gs : list stage) (s : it) (k : nat) (l : list val),
    build src gs = Ok s -> yields (consume (repeat false k) s) l ->
    size_hint (consume (repeat false k) s) = (length l, Some (length l)).
Proof. exact hint_exact_pipeline. Qed.

Theorem C09_pipeline_well_formed :
  forall src gs s, build src gs = Ok s -> wfb false s.
Proof. exact build_wf. Qed.

(* well-formedness is an invariant of every admissible step *)
Theorem C09_step_preserves :
  forall (back b : bool) (s : it) (o : option val) (s' : it),
    (back = true -> b = true) -> wfb b s -> nextd back s = (o, s') ->
    wfb b s' /\
    match o with
    | Some x => if back then elems s = elems s' ++ [x] else elems s = x :: elems s'
    | None => elems s = [] /\ elems s' = []
    end.
Proof.
  intros back b s o s' Hd Hw E. destruct (nextd_sound back b s o s' Hd Hw E) as (Hs & Hw' & _).
  split; [exact Hw' | exact Hs].
Qed.

(* plain iteration of a well-formed state yields exactly its abstract sequence *)
Theorem C09_plain_iteration :
  forall s l, wfb false s -> (yields s l <-> l = elems s).
Proof.
  intros s l Hw. split; [apply yields_is_elems; exact Hw | intros ->; apply yields_elems; exact Hw].
Qed.

(* (4) the adaptors: for ALL parameters they return well-formed states, never panic, and the shift-like
       ones preserve the length of their input *)
Theorem C09_len_preserved_shift :
  forall (n : Z) (v : val) (s : it), wfb false s ->
    exists s', shift n v s = Ok s' /\ wfb false s' /\ length (elems s') = length (elems s).
Proof. exact shift_wf. Qed.

Theorem C09_len_preserved_vshift :
  forall (n : Z) (v : option val) (s : it), wfb false s ->
    exists s', vshift n v s = Ok s' /\ wfb false s' /\ length (elems s') = length (elems s).
Proof. exact vshift_wf. Qed.

Theorem C09_len_preserved_vdiff :
  forall (n : Z) (v : option val) (xs : list val),
    exists s', vdiff n v xs = Ok s' /\ wfb false s' /\ length (elems s') = length xs.
Proof. exact vdiff_wf. Qed.

Theorem C09_len_preserved_vpct_change :
  forall (n : Z) (xs : list val),
    exists s', vpct_change n xs = Ok s' /\ wfb false s' /\ length (elems s') = length xs.
Proof. exact vpct_change_wf. Qed.

Theorem C09_len_preserved_fills :
  forall (v : option val) (w lo hi : val) (s : it), wfb false s ->
    (wfb false (ffill v s) /\ length (elems (ffill v s)) = length (elems s)) /\
    (wfb false (fill w s) /\ length (elems (fill w s)) = length (elems s)) /\
    (wfb false (vclip lo hi s) /\ length (elems (vclip lo hi s)) = length (elems s)) /\
    (wfb false (vabs s) /\ length (elems (vabs s)) = length (elems s)).
Proof.
  intros v w lo hi s Hw.
  exact (conj (ffill_wf v s Hw) (conj (fill_wf false w s Hw) (conj (vclip_wf false lo hi s Hw) (vabs_wf false s Hw)))).
Qed.

Theorem C09_len_preserved_bfill :
  forall (v : option val) (s : it), wfb true s ->
    exists s', bfill v s = Ok s' /\ wfb true s' /\ length (elems s') = length (elems s).
Proof. exact bfill_wf. Qed.

Theorem C09_vcut_well_formed :
  forall tmin tmax bins labels right add s s', wfb false s ->
    vcut tmin tmax bins labels right add s = Some s' ->
    wfb false s' /\ length (elems s') = length (elems s).
Proof. exact vcut_wf. Qed.

Theorem C09_partitions_well_formed :
  forall (kth : nat) (sort : bool) (xs : list val),
    wfb false (vpartition kth sort xs) /\
    length (elems (vpartition kth sort xs)) = kth + 1 /\
    wfb false (varg_partition kth sort xs) /\
    length (elems (varg_partition kth sort xs)) = kth + 1.
Proof.
  intros kth sort xs. destruct (vpartition_wf kth sort xs) as [H1 H2].
  split; [exact H1|]. split; [exact H2|]. apply varg_partition_wf.
Qed.

Theorem C09_rolling_iter_well_formed :
  forall (w : nat) (xs : list val), 1 <= w ->
    exists s', rolling_custom_iter w xs = Ok s' /\ wfb false s' /\ length (elems s') = length xs.
Proof. exact rolling_wf. Qed.

Theorem C09_generators_well_formed :
  forall (a b st : Z) (n : nat),
    (wfb true (linspace a b n) /\ length (elems (linspace a b n)) = n) /\
    wfb true (range_f a b st) /\
    (forall s, range_i a b st = Ok s -> wfb true s) /\
    wfb true (winsorize (map VZ [a; b])).
Proof.
  intros a b st n. split; [apply linspace_wf|]. split; [apply range_f_wf|]. split; [apply range_i_wf|].
  apply winsorize_wf.
Qed.

(* the repaired `range` announces (and yields) ceil((b - a) / step) items, none when nothing lies before b *)
Theorem C09_range_count :
  forall (a b st : Z), (st <> 0)%Z ->
    length (elems (range_f a b st)) = range_count a b st /\
    (range_empty a b st = true -> range_count a b st = 0) /\
    (range_empty a b st = false ->
       let c := Z.of_nat (range_count a b st) in
       (0 < c /\ Z.abs st * (c - 1) < Z.abs (b - a) <= Z.abs st * c)%Z).
Proof.
  intros a b st Hst. split; [|exact (range_count_spec a b st Hst)].
  cbn. rewrite map_length, seq_length. lia.
Qed.

(* (5) the raw collector (allocate hint; write the items through a moving pointer; set_len hint):
       on a well-formed state, at any point of its consumption, it returns exactly the items plain
       iteration yields — and `CDone` means: capacity = number of items, slot k written once with item k *)
Theorem C09_collect_safe :
  forall (b : bool) (cs : list bool) (s : it) (l : list val),
    (forall c, In c cs -> c = true -> b = true) -> wfb b s -> yields (consume cs s) l ->
    collect_raw (consume cs s) = CDone l.
Proof. exact collect_after_consume. Qed.

Theorem C09_collect_done_means_exact :
  forall hint items l, collect_items hint items = CDone l -> hint = Some (length items) /\ l = items.
Proof. exact collect_items_done. Qed.

Theorem C09_collect_safe_pipeline :
  forall src gs s l, build src gs = Ok s -> yields s l -> collect_raw s = CDone l.
Proof.
  intros src gs s l Hb Hy.
  exact (collect_after_consume false [] s l (fun c H => match H with end) (build_wf src gs s Hb) Hy).
Qed.

(* ---- non-vacuity and necessity ------------------------------------------------------------------- *)
(* a pipeline that builds, with a lag beyond the series and a partial consumption in the middle *)
Example C09_example_pipeline :
  exists s, build (SVec [VZ 1; VNull; VZ 3]) [GShift 1 (VZ 0); GAdvance 1; GVShift (-5) None; GTrust] = Ok s
            /\ size_hint s = (2, Some 2) /\ drain s = [VNull; VNull].
Proof. eexists. vm_compute. auto. Qed.

(* a state of the double-ended class, consumed from both ends *)
Example C09_example_both_ends_len_based :
  wfb true (IEnum (IZip (ITake (ITrust (IList [VZ 1; VZ 2; VZ 3; VZ 4]) 4) 3) (ISkip (IRange 0 6) 1)) 0)
  /\ drain (consume [true; false]
             (IEnum (IZip (ITake (ITrust (IList [VZ 1; VZ 2; VZ 3; VZ 4]) 4) 3) (ISkip (IRange 0 6) 1)) 0))
     = [VPair (VZ 1) (VPair (VZ 2) (VZ 2))].
Proof. vm_compute. repeat split; auto. Qed.

Example C09_example_both_ends :
  wfb true (IRev (IChain true true (ITrust (IList [VZ 1; VZ 2]) 2) (ILin 5 2 0 3)))
  /\ size_hint (consume [true; false; true]
                  (IRev (IChain true true (ITrust (IList [VZ 1; VZ 2]) 2) (ILin 5 2 0 3)))) = (2, Some 2).
Proof. vm_compute. repeat split; auto. Qed.

(* the hypothesis is needed: a TrustIter announcing a wrong length breaks the law and the collector *)
Example C09_wrong_length_breaks :
  snd (size_hint (ITrust (IList [VZ 1; VZ 2; VZ 3]) 2)) <> Some (length (drain (ITrust (IList [VZ 1; VZ 2; VZ 3]) 2)))
  /\ collect_raw (ITrust (IList [VZ 1; VZ 2; VZ 3]) 2) = COverflow 2 3
  /\ collect_raw (ITrust (IList [VZ 1]) 2) = CUninit [Some (VZ 1); None].
Proof. vm_compute. repeat split; discriminate. Qed.

(* the premises of the adaptor theorems are satisfiable at the critical parameters *)
Example C09_example_shift_band :
  (exists s', shift (-2147483648) (VZ 0) (IList [VZ 1; VZ 2]) = Ok s' /\ drain s' = [VZ 0; VZ 0])
  /\ (exists s', vshift 5 None (IList [VZ 1; VZ 2; VZ 3]) = Ok s' /\ drain s' = [VNull; VNull; VNull])
  /\ (exists s', vdiff (-1) None [VZ 4; VZ 1; VZ 12] = Ok s' /\ drain s' = [VZ 3; VZ (-11); VNull])
  /\ drain (vpartition 4 false [VZ 3; VNull; VZ 1]) = [VZ 3; VZ 1; VNull; VNull; VNull]
  /\ (exists s', vdiff 0 None [VZ 1; VNull] = Ok s' /\ drain s' = [VZ 0; VNull])
  /\ (exists s', vdiff 1 (Some (VZ 9)) [VZ 4; VZ 1; VZ 12] = Ok s' /\ drain s' = [VZ 9; VZ (-3); VZ 11])
  /\ drain (vpartition 3 true [VZ 3; VNull]) = [VZ 3; VNull; VNull; VNull]
  /\ (exists s', range_i 0 5 2 = Ok s' /\ drain s' = [VZ 0; VZ 2; VZ 4])
  /\ (exists s', rolling_custom_iter 2 [VZ 5; VZ 6] = Ok s' /\ length (drain s') = 2)
  /\ rolling_custom_iter 0 [VZ 5] = Panic Underflow.
Proof. vm_compute. repeat split; eexists; split; reflexivity. Qed.

(* ==== nth / nth_back / last / count / fold / skip / step_by (X21) ======================================
   Vocabulary added (Model/Iter.v):
     nthd back k s      Iterator::nth(k) (back = false) / DoubleEndedIterator::nth_back(k) (back = true): std's
                        default bodies, which TrustIter inherits (advance_by(k).ok()?; next())
     calls back k s     k+1 calls of next() / next_back() written by hand, no early exit
     and_next back p    one more call unless the previous one returned None
     exec c s           one instruction INext | INextBack | INth k | INthBack k;  run_script cs s
     last_it, count_it, fold_it    Iterator::last / count / fold (rfold) with the state they leave behind
     stepby, sb_next, sb_size_hint std's StepBy around a state (its next() is nth(step - 1) on the source)   *)

(* (6) the size hint is exact after EVERY script over {next, next_back, nth k, nth_back k}; back instructions
       need a double-ended state (b = true), front ones only a front-well-formed one *)
Theorem C09_hint_exact_scripts :
  forall (b : bool) (s : it) (cs : list instr),
    (forall c, In c cs -> instr_back c = true -> b = true) -> wfb b s ->
    size_hint (run_script cs s)
    = (length (drain (run_script cs s)), Some (length (drain (run_script cs s)))).
Proof. intros b s cs Hc Hw. apply (hint_exact_script_drain b); assumption. Qed.

Theorem C09_hint_exact_scripts_yields :
  forall (b : bool) (s : it) (cs : list instr) (l : list val),
    (forall c, In c cs -> instr_back c = true -> b = true) -> wfb b s -> yields (run_script cs s) l ->
    size_hint (run_script cs s) = (length l, Some (length l)).
Proof. intros b s cs l Hc Hw Hy. apply (hint_exact_script b); assumption. Qed.

(* every pipeline of the adaptor grammar under every front script (next / nth k in any order) *)
Theorem C09_hint_exact_scripts_pipeline :
  forall (src : source) (gs : list stage) (s : it) (cs : list instr),
    build src gs = Ok s -> (forall c, In c cs -> instr_back c = false) ->
    size_hint (run_script cs s)
    = (length (drain (run_script cs s)), Some (length (drain (run_script cs s)))).
Proof.
  intros src gs s cs Hb Hc. apply (hint_exact_script_drain false); [|exact (build_wf src gs s Hb)].
  intros c Hin Hk. rewrite (Hc c Hin) in Hk. discriminate.
Qed.

(* the next / next_back scripts of theorems (1)-(3) are the scripts without Nth *)
Theorem C09_scripts_generalise_consume :
  forall (cs : list bool) (s : it), run_script (map instr_of_bool cs) s = consume cs s.
Proof. exact run_script_of_bools. Qed.

(* the abstract sequence after a script: every instruction cuts k+1 items off the front or the back *)
Theorem C09_script_sequence :
  forall (b : bool) (cs : list instr) (s : it),
    (forall c, In c cs -> instr_back c = true -> b = true) -> wfb b s ->
    elems (run_script cs s) = fold_left (fun l c => cut c l) cs (elems s).
Proof. intros b cs s Hc Hw. apply (run_script_elems b); assumption. Qed.

(* the raw collector is safe after every such script *)
Theorem C09_collect_safe_scripts :
  forall (b : bool) (cs : list instr) (s : it),
    (forall c, In c cs -> instr_back c = true -> b = true) -> wfb b s ->
    collect_raw (run_script cs s) = CDone (drain (run_script cs s)).
Proof. intros b cs s Hc Hw. apply (collect_after_script b); assumption. Qed.

(* (7) nth k = k+1 x next, on EVERY model state (no well-formedness assumed): item and new state.
       Literally with the early exit of advance_by; and equal to k+1 unconditional calls whenever an item
       comes back; when None comes back, nth stopped at the first None among those calls. *)
Theorem C09_nth_is_iterated_next :
  forall (back : bool) (k : nat) (s : it),
    nthd back k s = Nat.iter k (and_next back) (nextd back s) /\
    (forall x s', nthd back k s = (Some x, s') -> calls back k s = (Some x, s')) /\
    (forall s', nthd back k s = (None, s') -> exists j, j <= k /\ calls back j s = (None, s')).
Proof.
  intros back k s. split; [apply nthd_iter|]. split; [apply nthd_some_calls | apply nthd_none_calls].
Qed.

(* std's own formulation of the default: advance_by(k).ok()?; next() *)
Theorem C09_nth_is_advance_then_next :
  forall (back : bool) (k : nat) (s : it),
    nthd back k s = let '(r, s') := advance_by back k s in if r =? 0 then nextd back s' else (None, s').
Proof. exact nthd_advance. Qed.

(* on well-formed states the early exit cannot be observed: same item, same remaining sequence, same hint *)
Theorem C09_nth_early_exit_unobservable :
  forall (back b : bool) (k : nat) (s : it),
    (back = true -> b = true) -> wfb b s ->
    fst (nthd back k s) = fst (calls back k s) /\
    elems (snd (nthd back k s)) = elems (snd (calls back k s)) /\
    size_hint (snd (nthd back k s)) = size_hint (snd (calls back k s)) /\
    wfb b (snd (calls back k s)).
Proof. intros back b k s Hd Hw. apply nthd_calls_wf; assumption. Qed.

(* closed form: nth k returns the k-th item and leaves the items after it; nth_back k mirrors it *)
Theorem C09_nth_closed_form :
  forall (back b : bool) (k : nat) (s : it),
    (back = true -> b = true) -> wfb b s ->
    fst (nthd back k s) = nth_error (if back then rev (elems s) else elems s) k /\
    elems (snd (nthd back k s)) =
      (if back then firstn (length (elems s) - S k) (elems s) else skipn (S k) (elems s)) /\
    wfb b (snd (nthd back k s)).
Proof. intros back b k s Hd Hw. apply nthd_closed; assumption. Qed.

(* (8) full consumption: count() is the announced bound, last() is the last item plain iteration yields
       (= what next_back() returns on a double-ended state), fold visits exactly the yielded items in
       order (rfold: reversed); all leave an exhausted state announcing (0, Some 0) *)
Theorem C09_count_is_hint :
  forall s, wfb false s ->
    fst (count_it s) = length (elems s) /\
    size_hint s = (fst (count_it s), Some (fst (count_it s))) /\
    size_hint (snd (count_it s)) = (0, Some 0).
Proof. exact count_it_sound. Qed.

Theorem C09_last_is_last :
  forall s, wfb false s ->
    fst (last_it s) = nth_error (rev (elems s)) 0 /\ elems (snd (last_it s)) = [] /\
    size_hint (snd (last_it s)) = (0, Some 0).
Proof. exact last_it_sound. Qed.

Theorem C09_last_is_next_back :
  forall s, wfb true s -> fst (last_it s) = fst (next_back s).
Proof. exact last_is_next_back. Qed.

Theorem C09_fold_visits_yielded :
  forall (A : Type) (back b : bool) (f : A -> val -> A) (acc : A) (s : it),
    (back = true -> b = true) -> wfb b s ->
    fst (fold_it back f acc s) = fold_left f (if back then rev (elems s) else elems s) acc /\
    elems (snd (fold_it back f acc s)) = [].
Proof. intros A back b f acc s Hd Hw. apply (fold_it_sound back b); assumption. Qed.

(* (9) the std adaptors built on nth: Skip::next is nth(n) on the source; StepBy's hint is exact at every
       point of its consumption and it yields every step-th item of its source *)
Theorem C09_skip_next_is_nth :
  forall (b : bool) (s : it) (n : nat), wfb b s ->
    next (ISkip s n) = let '(o, s') := nth_it n s in (o, ISkip s' 0).
Proof. exact skip_next_is_nth. Qed.

Theorem C09_step_by_hint_exact :
  forall (n : nat) (s : it) (t : stepby) (k : nat),
    wfb false s -> step_by n s = Ok t ->
    sb_size_hint (sb_consume k t)
    = (length (sb_drain (sb_consume k t)), Some (length (sb_drain (sb_consume k t)))).
Proof. exact sb_hint_exact_consume. Qed.

Theorem C09_step_by_yields :
  forall (n : nat) (s : it) (t : stepby),
    wfb false s -> step_by n s = Ok t ->
    sb_drain t = every_nth (length (elems s)) (n - 1) (elems s).
Proof.
  intros n s t Hw E. rewrite (sb_drain_elems t (step_by_wf n s t Hw E)).
  unfold step_by in E. destruct (n =? 0); [discriminate|]. injection E as <-. reflexivity.
Qed.

(* ---- non-vacuity for (6)-(9) ------------------------------------------------------------------------ *)
(* vshift(2) on 7 items, nth(2): item 1.0 (index 2 of [NaN, NaN, 1, 2, 3, 4, 5]), then 4 announced = 4 yielded;
   README of seeded/C09-3: the overriding nth left 5 announced here *)
Example C09_example_nth_vshift :
  exists s, vshift 2 None (IList [VZ 1; VZ 2; VZ 3; VZ 4; VZ 5; VZ 6; VZ 7]) = Ok s /\ wfb false s
    /\ fst (exec (INth 2) s) = Some (VZ 1)
    /\ size_hint (run_script [INth 2] s) = (4, Some 4)
    /\ drain (run_script [INth 2] s) = [VZ 2; VZ 3; VZ 4; VZ 5]
    /\ size_hint (run_script [INth 0; INth 1; INth 0] s) = (3, Some 3)
    /\ fst (exec (INth 7) s) = None /\ size_hint (run_script [INth 7] s) = (0, Some 0).
Proof. eexists. vm_compute. repeat split; auto. Qed.

(* the padded vpartition arm (TrustIter over a padded take), mixed next / nth *)
Example C09_example_nth_vpartition :
  wfb false (vpartition 4 false [VZ 3; VNull; VZ 1])
  /\ size_hint (run_script [INth 1; INext] (vpartition 4 false [VZ 3; VNull; VZ 1])) = (2, Some 2)
  /\ drain (run_script [INth 1; INext] (vpartition 4 false [VZ 3; VNull; VZ 1])) = [VNull; VNull]
  /\ fst (count_it (vpartition 4 false [VZ 3; VNull; VZ 1])) = 5
  /\ fst (last_it (vpartition 0 false [VZ 3; VNull; VZ 1])) = Some (VZ 3).
Proof. vm_compute. repeat split; auto. Qed.

(* all four instructions on a double-ended state built from a shifted series (vshift(-1) of 5 items) *)
Example C09_example_script_both_ends :
  exists s, vshift (-1) None (IList [VZ 1; VZ 2; VZ 3; VZ 4; VZ 5]) = Ok s /\ wfb true s
    /\ fst (exec (INthBack 1) s) = Some (VZ 5)
    /\ size_hint (run_script [INthBack 1; INth 1; INextBack; INext] s) = (0, Some 0)
    /\ size_hint (run_script [INthBack 1; INth 0] s) = (2, Some 2)
    /\ drain (run_script [INthBack 1; INth 0] s) = [VZ 3; VZ 4]
    /\ fst (last_it s) = fst (next_back s).
Proof. eexists. vm_compute. repeat split; auto. Qed.

(* the hypothesis is needed: the state the seeded `nth` (len -= n, not n + 1) leaves behind is a TrustIter whose
   cached length is one too large; it is not well formed, announces 5 and yields 4, and the collector reads an
   uninitialised slot *)
Example C09_stale_nth_length_breaks :
  ~ wfb false (ITrust (IList [VZ 2; VZ 3; VZ 4; VZ 5]) 5)
  /\ size_hint (ITrust (IList [VZ 2; VZ 3; VZ 4; VZ 5]) 5) = (5, Some 5)
  /\ length (drain (ITrust (IList [VZ 2; VZ 3; VZ 4; VZ 5]) 5)) = 4
  /\ collect_raw (ITrust (IList [VZ 2; VZ 3; VZ 4; VZ 5]) 5)
     = CUninit [Some (VZ 2); Some (VZ 3); Some (VZ 4); Some (VZ 5); None].
Proof. split; [intros [H _]; discriminate H | vm_compute; auto]. Qed.

(* why (7) keeps the early exit and C09_nth_early_exit_unobservable speaks of observations, not of states: a Zip
   whose second side is exhausted keeps consuming its first side on every further call, so nth(2) and three
   hand-written next() calls leave different states (same item, same remaining sequence, same hint) *)
Example C09_early_exit_visible_in_state :
  fst (nthd false 2 (IZip (IList [VZ 1; VZ 2; VZ 3]) (IList []))) = fst (calls false 2 (IZip (IList [VZ 1; VZ 2; VZ 3]) (IList [])))
  /\ snd (nthd false 2 (IZip (IList [VZ 1; VZ 2; VZ 3]) (IList []))) = IZip (IList [VZ 2; VZ 3]) (IList [])
  /\ snd (calls false 2 (IZip (IList [VZ 1; VZ 2; VZ 3]) (IList []))) = IZip (IList []) (IList []).
Proof. vm_compute. auto. Qed.

(* StepBy over a shifted series: vshift(1).step_by(2) on 7 items after 2 x next(): 2 announced, 2 yielded
   (the seeded nth announced 3); step_by(0) panics *)
Example C09_example_step_by :
  exists s t, vshift 1 None (IList [VZ 1; VZ 2; VZ 3; VZ 4; VZ 5; VZ 6; VZ 7]) = Ok s /\ step_by 2 s = Ok t
    /\ sb_size_hint t = (4, Some 4) /\ sb_drain t = [VNull; VZ 2; VZ 4; VZ 6]
    /\ sb_size_hint (sb_consume 2 t) = (2, Some 2) /\ sb_drain (sb_consume 2 t) = [VZ 4; VZ 6]
    /\ sb_size_hint (sb_consume 4 t) = (0, Some 0)
    /\ step_by 0 s = Panic AssertFail
    /\ next (ISkip s 3) = (Some (VZ 3), ISkip (snd (nth_it 3 s)) 0).
Proof.
  (* witnesses computed first, every conjunct closed by its own vm_compute (a VM cast: Qed does not re-normalise lazily) *)
  let r := eval vm_compute in (vshift 1 None (IList [VZ 1; VZ 2; VZ 3; VZ 4; VZ 5; VZ 6; VZ 7])) in
  match r with Ok ?s => exists s;
    let r2 := eval vm_compute in (step_by 2 s) in
    match r2 with Ok ?t => exists t end end.
  repeat split; vm_compute; reflexivity.
Qed.

(* ==== (YA) AUDIT =========================================================================================
   notes/C09.md has the clause-by-clause matrix.  Added vocabulary (Model/IterAudit.v, Proofs/Audit09.v):
     tis_empty, mabs          TrustedLen::is_empty, MapBasic::abs
     itf, f_next, f_size_hint Filter / FilterMap (own hint (0, upper): inexact) with the padded take, TrustIter and
                              Box the library puts on top; f_wf / f_trusted: well formed / the top announces exactly
     vpartition_f, varg_partition_f   the partition arms as the code builds them (over Filter / FilterMap)
     as_titer, as_try_titer   a state as the collectors of Model/Collect.v see it (len() + the items pulled)       *)

(* (10) statements about EVERY model state, no well-formedness: lower bound = upper bound, so TrustedLen::len()
        never panics and ExactSizeIterator::len()'s assert_eq never fires; shift / vshift never panic and keep the
        ANNOUNCED length (also of an input that lies) *)
Theorem C09_hint_lower_is_upper :
  forall s : it, snd (size_hint s) = Some (fst (size_hint s)) /\ tlen s = Ok (fst (size_hint s)).
Proof. intros s. split; [apply hint_lower_is_upper | apply tlen_total]. Qed.

Theorem C09_shift_total :
  forall (n : Z) (v : val) (w : option val) (s : it),
    (exists s', shift n v s = Ok s' /\ size_hint s' = size_hint s) /\
    (exists s', vshift n w s = Ok s' /\ size_hint s' = size_hint s).
Proof. intros. split; [apply shift_total | apply vshift_total]. Qed.

(* (11) fused behaviour: once an instruction returned None, every later instruction returns None, the hint is
        (0, Some 0) and plain iteration yields nothing - after any further script *)
Theorem C09_fused_after_exhaustion :
  forall (b : bool) (c : instr) (s : it) (cs : list instr) (c' : instr),
    (instr_back c = true -> b = true) -> (forall x, In x cs -> instr_back x = true -> b = true) ->
    (instr_back c' = true -> b = true) ->
    wfb b s -> fst (exec c s) = None ->
    fst (exec c' (run_script cs (snd (exec c s)))) = None /\
    size_hint (run_script cs (snd (exec c s))) = (0, Some 0) /\
    drain (run_script cs (snd (exec c s))) = [].
Proof. intros b c s cs c' H1 H2 H3 Hw Hn. apply (fused b); assumption. Qed.

(* an exhausted state stays exhausted and well formed under every instruction *)
Theorem C09_exhausted_stays_exhausted :
  forall (b : bool) (c : instr) (s : it),
    (instr_back c = true -> b = true) -> wfb b s -> elems s = [] ->
    fst (exec c s) = None /\ elems (snd (exec c s)) = [] /\ wfb b (snd (exec c s)).
Proof. intros b c s H Hw He. apply (exhausted_exec b); assumption. Qed.

(* fold / rfold (hence count, last) leave an exhausted, well-formed state: hint (0, Some 0), every later call None *)
Theorem C09_fold_leaves_exhausted :
  forall (A : Type) (back b : bool) (f : A -> val -> A) (acc : A) (s : it),
    (back = true -> b = true) -> wfb b s ->
    size_hint (snd (fold_it back f acc s)) = (0, Some 0) /\ wfb b (snd (fold_it back f acc s)) /\
    (forall c, (instr_back c = true -> b = true) -> fst (exec c (snd (fold_it back f acc s))) = None).
Proof. intros A back b f acc s Hd Hw. apply (fold_leaves_exhausted back b); assumption. Qed.

(* (12) count / last / fold at EVERY point of a consumption (after every admissible script) *)
Theorem C09_count_at_every_point :
  forall (b : bool) (cs : list instr) (s : it),
    (forall c, In c cs -> instr_back c = true -> b = true) -> wfb b s ->
    size_hint (run_script cs s) = (fst (count_it (run_script cs s)), Some (fst (count_it (run_script cs s)))) /\
    fst (count_it (run_script cs s)) = length (fold_left (fun l c => cut c l) cs (elems s)).
Proof. intros b cs s Hc Hw. apply (count_after_script b); assumption. Qed.

Theorem C09_last_at_every_point :
  forall (b : bool) (cs : list instr) (s : it),
    (forall c, In c cs -> instr_back c = true -> b = true) -> wfb b s ->
    fst (last_it (run_script cs s)) = nth_error (rev (fold_left (fun l c => cut c l) cs (elems s))) 0.
Proof. intros b cs s Hc Hw. apply (last_after_script b); assumption. Qed.

Theorem C09_fold_at_every_point :
  forall (A : Type) (back b : bool) (f : A -> val -> A) (acc : A) (cs : list instr) (s : it),
    (back = true -> b = true) -> (forall c, In c cs -> instr_back c = true -> b = true) -> wfb b s ->
    fst (fold_it back f acc (run_script cs s))
    = fold_left f (let l := fold_left (fun l c => cut c l) cs (elems s) in if back then rev l else l) acc.
Proof. intros A back b f acc cs s Hd Hc Hw. apply (fold_after_script back b); assumption. Qed.

Theorem C09_count_from_the_back :
  forall s, wfb true s -> fst (fold_it true (fun n (_ : val) => S n) 0 s) = fst (count_it s).
Proof. exact rcount. Qed.

(* (13) rejected parameters, totally: which inputs an adaptor refuses and how *)
Theorem C09_rolling_iter_total :
  forall (w : nat) (xs : list val),
    (w = 0 -> rolling_custom_iter w xs = Panic Underflow) /\
    (1 <= w -> exists s', rolling_custom_iter w xs = Ok s' /\ wfb true s' /\ length (elems s') = length xs /\
                          size_hint s' = (length xs, Some (length xs))).
Proof. intros w xs. split; [intros ->; apply rolling_custom_iter_window0 | apply rolling_wfb]. Qed.

Theorem C09_vcut_rejects_exactly :
  forall tmin tmax bins labels right add s,
    vcut tmin tmax bins labels right add s = None <->
    (if add then length labels <> length bins + 1 else length labels + 1 <> length bins).
Proof. exact vcut_rejects. Qed.

Theorem C09_range_int_total :
  forall a b st : Z,
    (range_i a b st = Panic OtherPanic <-> range_empty a b st = false /\ st = 0%Z) /\
    (range_i a b st <> Panic OtherPanic -> range_i a b st = Ok (range_f a b st)).
Proof. exact range_i_total. Qed.

Theorem C09_range_zero_step :
  forall a b : Z, elems (range_f a b 0) = [] /\ size_hint (range_f a b 0) = (0, Some 0).
Proof. exact range_zero_step. Qed.

Theorem C09_step_by_rejects_exactly :
  forall (n : nat) (s : it), step_by n s = Panic AssertFail <-> n = 0.
Proof. exact step_by_rejects. Qed.

(* (14) the adaptors on double-ended inputs, and on inputs already consumed from either end *)
Theorem C09_shift_both_ends :
  forall (b : bool) (n : Z) (v : val) (s : it), wfb b s ->
    exists s', shift n v s = Ok s' /\ wfb b s' /\ length (elems s') = length (elems s).
Proof. intros b n v s Hw. apply shift_wfb. exact Hw. Qed.

Theorem C09_shift_after_any_consumption :
  forall (n : Z) (v : val) (s : it) (cs : list bool), wfb true s ->
    exists s', shift n v (consume cs s) = Ok s' /\ wfb true s' /\
               length (elems s') = length (elems (consume cs s)).
Proof. intros n v s cs Hw. apply shift_after_consumption. exact Hw. Qed.

Theorem C09_lag_adaptors_both_ends :
  forall (n : Z) (v : option val) (xs : list val),
    (exists s', vdiff n v xs = Ok s' /\ wfb true s' /\ length (elems s') = length xs) /\
    (exists s', vpct_change n xs = Ok s' /\ wfb true s' /\ length (elems s') = length xs).
Proof. intros. split; [apply vdiff_wfb | apply vpct_change_wfb]. Qed.

Theorem C09_vcut_both_ends :
  forall b tmin tmax bins labels right add s s', wfb b s ->
    vcut tmin tmax bins labels right add s = Some s' -> wfb b s' /\ length (elems s') = length (elems s).
Proof. intros b tmin tmax bins labels right add s s' Hw E. apply (vcut_wfb b tmin tmax bins labels right add s); assumption. Qed.

(* (15) two public functions the model lacked: TrustedLen::is_empty and MapBasic::abs *)
Theorem C09_is_empty :
  forall (b : bool) (s : it),
    tis_empty s = Ok (fst (size_hint s) =? 0) /\
    (wfb b s -> tis_empty s = Ok (match elems s with [] => true | _ => false end) /\
                (tis_empty s = Ok true <-> fst (next s) = None)).
Proof. intros b s. split; [apply tis_empty_total | apply tis_empty_wf]. Qed.

Theorem C09_abs_well_formed :
  forall (b : bool) (s : it), wfb b s ->
    wfb b (mabs s) /\ length (elems (mabs s)) = length (elems s) /\ mabs s = vabs s.
Proof. intros b s Hw. apply mabs_wf. exact Hw. Qed.

(* (16) sources whose OWN hint is inexact.  Filter / FilterMap announce (0, inner count): bounds, not a length ... *)
Theorem C09_filter_hint_is_only_a_bound :
  forall (g : val -> option val) (i : it), wfb false i ->
    f_size_hint (FFilterMap g i) = (0, Some (length (elems i))) /\
    length (f_elems (FFilterMap g i)) <= length (elems i).
Proof. exact filter_hint_is_a_bound. Qed.

(* ... yet under the TrustIter / padded take the library puts on top, the law holds at every point of the
   consumption, provided the declared length is the number of items that pass the filter *)
Theorem C09_hint_exact_over_inexact_source :
  forall (k : nat) (t : itf), f_wf t -> f_trusted t ->
    f_size_hint (f_consume k t) = (length (f_drain (f_consume k t)), Some (length (f_drain (f_consume k t)))).
Proof. exact f_hint_exact_consume. Qed.

Theorem C09_inexact_source_step :
  forall (t : itf) (o : option val) (t' : itf), f_wf t -> f_next t = (o, t') ->
    match o with Some x => f_elems t = x :: f_elems t' | None => f_elems t = [] /\ f_elems t' = [] end /\
    f_wf t' /\ (f_trusted t -> f_trusted t').
Proof. exact f_next_sound. Qed.

(* the partitions as the code builds them (filter(not_none) / enumerate().filter_map(..) under to_trust(kth+1)):
   well formed for ALL kth, sort, inputs; and Model/Iter.v's idealisation `IList (filter ..)` is observationally
   exact - same hint and same remaining items after any number of next() calls *)
Theorem C09_partitions_over_filter_well_formed :
  forall (kth : nat) (sort : bool) (xs : list val),
    (f_wf (vpartition_f kth sort xs) /\ f_trusted (vpartition_f kth sort xs)) /\
    (f_wf (varg_partition_f kth sort xs) /\ f_trusted (varg_partition_f kth sort xs)) /\
    length (f_elems (vpartition_f kth sort xs)) = kth + 1 /\
    length (f_elems (varg_partition_f kth sort xs)) = kth + 1.
Proof.
  intros kth sort xs. split; [apply vpartition_f_wf|]. split; [apply varg_partition_f_wf|].
  rewrite vpartition_f_elems, varg_partition_f_elems.
  split; [exact (proj2 (vpartition_wf kth sort xs)) | exact (proj2 (varg_partition_wf kth sort xs))].
Qed.

Theorem C09_partition_idealisation_exact :
  forall (k kth : nat) (sort : bool) (xs : list val),
    (f_size_hint (f_consume k (vpartition_f kth sort xs)) = size_hint (consume (repeat false k) (vpartition kth sort xs)) /\
     f_drain (f_consume k (vpartition_f kth sort xs)) = drain (consume (repeat false k) (vpartition kth sort xs))) /\
    (f_size_hint (f_consume k (varg_partition_f kth sort xs))
     = size_hint (consume (repeat false k) (varg_partition kth sort xs)) /\
     f_drain (f_consume k (varg_partition_f kth sort xs)) = drain (consume (repeat false k) (varg_partition kth sort xs))).
Proof. intros. split; [apply vpartition_f_observational | apply varg_partition_f_observational]. Qed.

(* (17) "consequently": EVERY trusted collector of Model/Collect.v (raw Vec / VecDeque / ndarray, the defaults,
        collect_with_len, the fallible ones, write_trust_iter) on a well-formed state at any point of its consumption *)
Theorem C09_collect_every_backend :
  forall (bk : Model.Collect.backend) (b : bool) (cs : list instr) (s : it),
    (forall c, In c cs -> instr_back c = true -> b = true) -> wfb b s ->
    Model.Collect.collect_from_trusted bk (as_titer (run_script cs s)) = Model.Driver.Done (drain (run_script cs s)).
Proof. intros bk b cs s Hc Hw. apply (collect_every_backend bk b); assumption. Qed.

Theorem C09_write_into_buffer :
  forall (old : list (option val)) (s : it), wfb false s ->
    fst (Model.Collect.write_trust_iter (length old) (as_titer s))
    = (if orb (length old =? 0) (orb (length old =? length (elems s)) (length (elems s) =? 1))
       then Model.Collect.WOk else Model.Collect.WErr) /\
    (length old = length (elems s) ->
       let r := Model.Collect.write_trust_iter (length old) (as_titer s) in
       map fst (snd r) = seq 0 (length old) /\ Model.Collect.apply_writes (snd r) old = map Some (elems s)).
Proof.
  intros old s Hw. split; [apply write_status; exact Hw|]. intros Hl.
  destruct (write_equal_length old s Hw Hl) as (_ & H2 & H3). split; assumption.
Qed.

Theorem C09_try_collect :
  forall (bk : Model.Collect.backend) (s : it), wfb false s ->
    ((forall v, In v (elems s) -> v <> VErr) ->
       Model.Collect.try_collect_from_trusted bk (as_try_titer s) = Model.Collect.TOk (Model.Driver.Done (elems s))) /\
    (forall xs rest, elems s = xs ++ VErr :: rest -> (forall v, In v xs -> v <> VErr) ->
       Model.Collect.try_collect_from_trusted bk (as_try_titer s) = Model.Collect.TErr tt).
Proof.
  intros bk s Hw. split; [apply try_collect_no_err; exact Hw|].
  intros xs rest He Hn. apply (try_collect_first_err bk s xs rest); assumption.
Qed.

(* (18) winsorize for EVERY input (C09_generators_well_formed states it for two-element inputs only) *)
Theorem C09_winsorize_well_formed :
  forall xs : list val, wfb true (winsorize xs) /\ length (elems (winsorize xs)) = length xs.
Proof. exact winsorize_wf. Qed.

(* ---- non-vacuity for (10)-(17) ------------------------------------------------------------------------- *)
Example C09_example_audit :
  (* a lying TrustIter: shift keeps what is announced *)
  (exists s', shift 1 (VZ 0) (ITrust (IList [VZ 1; VZ 2; VZ 3]) 2) = Ok s' /\ size_hint s' = (2, Some 2))
  (* fused: vshift(1) of 2 items, nth(5) exhausts it; afterwards next / next_back / nth return None *)
  /\ (exists s, vshift 1 None (IList [VZ 1; VZ 2]) = Ok s /\ wfb true s /\ fst (exec (INth 5) s) = None
        /\ fst (exec INext (run_script [INextBack; INth 0] (snd (exec (INth 5) s)))) = None
        /\ size_hint (run_script [INextBack; INth 0] (snd (exec (INth 5) s))) = (0, Some 0))
  /\ fst (count_it (run_script [INth 0; INextBack] (IList [VZ 1; VZ 2; VZ 3; VZ 4]))) = 2
  /\ fst (last_it (run_script [INth 0; INextBack] (IList [VZ 1; VZ 2; VZ 3; VZ 4]))) = Some (VZ 3)
  /\ vcut 0 9 [1; 5]%Z [VZ 7] true true (IList []) = None
  /\ (exists s', vcut 0 9 [1; 5]%Z [VZ 7] true false (IList [VZ 3]) = Some s' /\ drain s' = [VZ 7])
  /\ range_i 5 0 0 = Panic OtherPanic /\ range_i 0 5 0 = Ok (range_f 0 5 0) /\ drain (range_f 0 5 0) = []
  /\ tis_empty (IList []) = Ok true /\ tis_empty (ITake (IList [VZ 1]) 1) = Ok false
  /\ drain (mabs (IList [VZ (-2); VNull])) = [VZ 2; VNull]
  (* Filter alone is inexact: announces (0, Some 3), yields 2 *)
  /\ f_size_hint (FFilterMap keep_valid (IList [VZ 3; VNull; VZ 1])) = (0, Some 3)
  /\ f_drain (FFilterMap keep_valid (IList [VZ 3; VNull; VZ 1])) = [VZ 3; VZ 1]
  (* the partition arms over it: exact at every point *)
  /\ f_size_hint (f_consume 1 (vpartition_f 1 false [VZ 3; VNull; VZ 1])) = (1, Some 1)
  /\ f_drain (f_consume 1 (vpartition_f 1 false [VZ 3; VNull; VZ 1])) = [VZ 1]
  /\ f_drain (vpartition_f 3 false [VZ 3; VNull; VZ 1]) = [VZ 3; VZ 1; VNull; VNull]
  /\ f_drain (varg_partition_f 3 false [VZ 3; VNull; VZ 1]) = [VZ 0; VZ 2; VZ (-1); VZ (-1)]
  /\ f_size_hint (f_consume 3 (varg_partition_f 3 false [VZ 3; VNull; VZ 1])) = (1, Some 1)
  (* a TrustIter over a filter with the WRONG declared length is not well formed and breaks the law *)
  /\ f_size_hint (FTrust (FFilterMap keep_valid (IList [VZ 3; VNull])) 2) = (2, Some 2)
  /\ f_drain (FTrust (FFilterMap keep_valid (IList [VZ 3; VNull])) 2) = [VZ 3]
  (* collectors *)
  /\ Model.Collect.collect_from_trusted Model.Collect.BRaw (as_titer (run_script [INext] (IList [VZ 1; VZ 2])))
     = Model.Driver.Done [VZ 2]
  /\ fst (Model.Collect.write_trust_iter 3 (as_titer (IList [VZ 1; VZ 2]))) = Model.Collect.WErr
  /\ Model.Collect.try_collect_from_trusted Model.Collect.BRaw (as_try_titer (IList [VZ 1; VErr; VZ 2]))
     = Model.Collect.TErr tt.
Proof. vm_compute. repeat split; try (eexists; repeat split; reflexivity). Qed.

Print Assumptions C09_hint_exact_front.
Print Assumptions C09_hint_exact_both_ends.
Print Assumptions C09_hint_exact_pipeline.
Print Assumptions C09_pipeline_well_formed.
Print Assumptions C09_step_preserves.
Print Assumptions C09_plain_iteration.
Print Assumptions C09_len_preserved_shift.
Print Assumptions C09_len_preserved_vshift.
Print Assumptions C09_len_preserved_vdiff.
Print Assumptions C09_len_preserved_vpct_change.
Print Assumptions C09_len_preserved_fills.
Print Assumptions C09_len_preserved_bfill.
Print Assumptions C09_vcut_well_formed.
Print Assumptions C09_partitions_well_formed.
Print Assumptions C09_rolling_iter_well_formed.
Print Assumptions C09_generators_well_formed.
Print Assumptions C09_range_count.
Print Assumptions C09_collect_safe.
Print Assumptions C09_collect_done_means_exact.
Print Assumptions C09_collect_safe_pipeline.
Print Assumptions C09_hint_exact_scripts.
Print Assumptions C09_hint_exact_scripts_yields.
Print Assumptions C09_hint_exact_scripts_pipeline.
Print Assumptions C09_scripts_generalise_consume.
Print Assumptions C09_script_sequence.
Print Assumptions C09_collect_safe_scripts.
Print Assumptions C09_nth_is_iterated_next.
Print Assumptions C09_nth_is_advance_then_next.
Print Assumptions C09_nth_early_exit_unobservable.
Print Assumptions C09_nth_closed_form.
Print Assumptions C09_count_is_hint.
Print Assumptions C09_last_is_last.
Print Assumptions C09_last_is_next_back.
Print Assumptions C09_fold_visits_yielded.
Print Assumptions C09_skip_next_is_nth.
Print Assumptions C09_step_by_hint_exact.
Print Assumptions C09_step_by_yields.
Print Assumptions C09_hint_lower_is_upper.
Print Assumptions C09_shift_total.
Print Assumptions C09_fused_after_exhaustion.
Print Assumptions C09_exhausted_stays_exhausted.
Print Assumptions C09_fold_leaves_exhausted.
Print Assumptions C09_count_at_every_point.
Print Assumptions C09_last_at_every_point.
Print Assumptions C09_fold_at_every_point.
Print Assumptions C09_count_from_the_back.
Print Assumptions C09_rolling_iter_total.
Print Assumptions C09_vcut_rejects_exactly.
Print Assumptions C09_range_int_total.
Print Assumptions C09_range_zero_step.
Print Assumptions C09_step_by_rejects_exactly.
Print Assumptions C09_shift_both_ends.
Print Assumptions C09_shift_after_any_consumption.
Print Assumptions C09_lag_adaptors_both_ends.
Print Assumptions C09_vcut_both_ends.
Print Assumptions C09_is_empty.
Print Assumptions C09_abs_well_formed.
Print Assumptions C09_filter_hint_is_only_a_bound.
Print Assumptions C09_hint_exact_over_inexact_source.
Print Assumptions C09_inexact_source_step.
Print Assumptions C09_partitions_over_filter_well_formed.
Print Assumptions C09_partition_idealisation_exact.
Print Assumptions C09_collect_every_backend.
Print Assumptions C09_write_into_buffer.
Print Assumptions C09_try_collect.
Print Assumptions C09_winsorize_well_formed.

(* ==== MapValidBasic::drop_none (tea-map/src/valid_iter.rs: `self.filter(T::not_none)`) — Model/IterAudit.v `drop_none`
   (the bare std Filter node under the audit above, nothing on top: the result is `impl Iterator`, NOT a TrustedLen),
   Proofs/LooseEnds.v.  `after_valid k xs` = the source items behind the k-th non-null one (what the filter has not
   pulled yet after k calls of next()).  Interpreter: Run/RunC09.v `obs_drop_none`; cases: c09.rs section N. ============ *)
From Tevec Require Import Proofs.LooseEnds.
Local Open Scope nat_scope.

(* (20) drop_none yields exactly the non-null items of its receiver, in order — as one equation, at every point of the
        consumption, per call (the first non-null item left, or None), and spelled out: a subsequence of the source,
        containing x iff x is a non-null source item, of length count_valid *)
Theorem C09_drop_none_items :
  forall (s : it), wfb false s ->
    f_drain (drop_none s) = filter not_none (elems s)
    /\ (forall k, f_drain (f_consume k (drop_none s)) = skipn k (filter not_none (elems s)))
    /\ fst (f_next (drop_none s)) = hd_error (filter not_none (elems s))
    /\ f_drain (snd (f_next (drop_none s))) = tl (filter not_none (elems s))
    /\ subseq (f_drain (drop_none s)) (elems s)
    /\ (forall x, In x (f_drain (drop_none s)) <-> In x (elems s) /\ not_none x = true)
    /\ length (f_drain (drop_none s)) = count_valid (elems s).
Proof.
  intros s Hw. split; [apply drop_none_items; exact Hw|]. split; [intros k; apply drop_none_items_consume; exact Hw|].
  split; [apply drop_none_next; exact Hw|]. split; [apply drop_none_next; exact Hw|]. apply drop_none_spec. exact Hw.
Qed.

(* ... and `filter not_none` is not the implementation restated: ANY subsequence of the source whose items are all
   non-null and that is as long as the number of non-null source items is that list *)
Theorem C09_drop_none_items_characterised :
  forall (s : it) (l : list val), wfb false s ->
    subseq l (elems s) -> (forall x, In x l -> not_none x = true) -> length l = count_valid (elems s) ->
    l = f_drain (drop_none s).
Proof.
  intros s l Hw Hs Hall Hlen. rewrite (drop_none_items s Hw). apply subseq_filter_unique; assumption.
Qed.

(* (21) its size hint, after ANY number k of next() calls: lower bound 0; upper bound = the number of SOURCE items still
        to come (a suffix of the source: nulls included), never fewer than it goes on to yield, and equal to that exactly
        when no null is left in the source *)
Theorem C09_drop_none_hint_is_only_a_bound :
  forall (k : nat) (s : it), wfb false s ->
    f_size_hint (f_consume k (drop_none s)) = (0, Some (length (after_valid k (elems s))))
    /\ (exists pre, elems s = pre ++ after_valid k (elems s))
    /\ length (f_drain (f_consume k (drop_none s))) <= length (after_valid k (elems s))
    /\ (length (f_drain (f_consume k (drop_none s))) = length (after_valid k (elems s))
        <-> forall x, In x (after_valid k (elems s)) -> not_none x = true).
Proof. exact drop_none_hint. Qed.

(* the state after k calls is again a drop_none, of the source advanced behind the k-th non-null item *)
Theorem C09_drop_none_after_consumption :
  forall (k : nat) (s : it), wfb false s ->
    exists s', f_consume k (drop_none s) = drop_none s' /\ wfb false s' /\ elems s' = after_valid k (elems s).
Proof. exact drop_none_consume. Qed.

(* (22) idempotent (the result has to be collected before drop_none applies again: it is not a TrustedLen) *)
Theorem C09_drop_none_idempotent :
  forall (s : it), wfb false s ->
    f_drain (drop_none (IList (f_drain (drop_none s)))) = f_drain (drop_none s).
Proof. exact drop_none_idempotent. Qed.

(* (23) on a null-free receiver: the identity on items, at every point; the upper bound is then the exact count (the
        lower bound is still 0: the type never becomes a TrustedLen) *)
Theorem C09_drop_none_null_free_is_identity :
  forall (s : it), wfb false s -> (forall x, In x (elems s) -> not_none x = true) ->
    f_drain (drop_none s) = elems s
    /\ forall k, f_drain (f_consume k (drop_none s)) = skipn k (elems s)
                 /\ f_size_hint (f_consume k (drop_none s)) = (0, Some (length (skipn k (elems s)))).
Proof. exact drop_none_null_free. Qed.

(* non-vacuity: nulls in front / between / behind; the hint after each call (3 source items left after the first item
   although only 1 will come); all null; null-free; a pre-consumed, mapped receiver *)
Example C09_drop_none_examples :
  let xs := [VNull; VZ 1; VNull; VNull; VZ 2; VNull] in
  f_drain (drop_none (IList xs)) = [VZ 1; VZ 2]
  /\ f_size_hint (drop_none (IList xs)) = (0, Some 6)
  /\ f_size_hint (f_consume 1 (drop_none (IList xs))) = (0, Some 4)
  /\ f_drain (f_consume 1 (drop_none (IList xs))) = [VZ 2]
  /\ f_size_hint (f_consume 2 (drop_none (IList xs))) = (0, Some 1)
  /\ f_size_hint (f_consume 3 (drop_none (IList xs))) = (0, Some 0)
  /\ after_valid 1 xs = [VNull; VNull; VZ 2; VNull]
  /\ f_drain (drop_none (IList [VNull; VNull])) = [] /\ f_size_hint (drop_none (IList [VNull; VNull])) = (0, Some 2)
  /\ f_size_hint (f_consume 1 (drop_none (IList [VNull; VNull]))) = (0, Some 0)
  /\ f_drain (drop_none (IList [VZ 4; VZ 5])) = [VZ 4; VZ 5]
  /\ f_size_hint (f_consume 1 (drop_none (IList [VZ 4; VZ 5]))) = (0, Some 1)
  /\ wfb false (mabs (consume [false; true] (IList xs)))
  /\ f_drain (drop_none (mabs (consume [false; true] (IList (VZ 0 :: VZ (-1) :: xs))))) = [VZ 1; VZ 1; VZ 2]
  /\ subseq [VZ 1; VZ 2] xs /\ count_valid xs = 2.
Proof.
  cbv zeta. repeat split; try (vm_compute; reflexivity).
  apply sub_skip, sub_take, sub_skip, sub_skip, sub_take, sub_skip, sub_nil.
Qed.

Print Assumptions C09_drop_none_items.
Print Assumptions C09_drop_none_items_characterised.
Print Assumptions C09_drop_none_hint_is_only_a_bound.
Print Assumptions C09_drop_none_after_consumption.
Print Assumptions C09_drop_none_idempotent.
Print Assumptions C09_drop_none_null_free_is_identity.
