(* Props/C09.v — property C09: trusted-length iterators yield exactly as many items as they announce.
   Only statements, closed by lemmas of Proofs/Iter.v; non-vacuity Examples; Print Assumptions.

   Vocabulary (Model/Iter.v, Proofs/Iter.v):
     it                 iterator states (std adaptors, TrustIter, Linspace, Box)
     consume cs s       the state after the calls cs (false = next(), true = next_back())
     yields s l         plain safe iteration of s (next() until None) produces exactly the items l
     wfb false s        s is built so that every TrustIter below announces its true count (front use)
     wfb true s         same, and no node below is an FnMut map or a padded take (not double-ended)
     build src gs       the pipeline interpreter of the random part of the harness                *)
From Tevec Require Import Base.Prelude Model.Iter Proofs.Iter.

(* (1) the size hint is exact from any point of a front consumption onwards *)
Theorem C09_hint_exact_front :
  forall (s : it) (k : nat) (l : list val),
    wfb false s -> yields (consume (repeat false k) s) l ->
    size_hint (consume (repeat false k) s) = (length l, Some (length l)).
Proof. exact hint_exact_front. Qed.

(* (2) ... and from any point of a consumption from EITHER end, for every state std / the library make
       double-ended: all nodes except the FnMut map (order dependent) and the padded take (not double-ended
       in std); next_back through Take / Skip / Zip / Enumerate (computed from len()) included *)
Theorem C09_hint_exact_both_ends :
  forall (s : it) (cs : list bool) (l : list val),
    wfb true s -> yields (consume cs s) l ->
    size_hint (consume cs s) = (length l, Some (length l)).
Proof. exact hint_exact_both. Qed.

(* (3) every pipeline of the adaptor grammar, arbitrary parameters, any number of next() calls *)
Theorem C09_hint_exact_pipeline :
  forall (src : source) (gs : list stage) (s : it) (k : nat) (l : list val),
    build src gs = Ok s -> yields (consume (repeat false k) s) l ->
    size_hint (consume (repeat false k) s) = (length l, Some (length l)).
Proof. exact hint_exact_pipeline. Qed.

Theorem C09_pipeline_well_formed :
  forall src gs s, build src gs = Ok s -> wfb false s.
Proof. exact build_wf. Qed.

(* well-formedness is an invariant of every admissible step *)
Theorem C09_step_preserves :
  forall (back b : bool) (s : it) (o : option val) (s' : it),
    (back = true -> b = true) -> wfb b s -> nextd back s = (o, s') ->
    wfb b s' /\
    match o with
    | Some x => if back then elems s = elems s' ++ [x] else elems s = x :: elems s'
    | None => elems s = [] /\ elems s' = []
    end.
Proof.
  intros back b s o s' Hd Hw E. destruct (nextd_sound back b s o s' Hd Hw E) as (Hs & Hw' & _).
  split; [exact Hw' | exact Hs].
Qed.

(* plain iteration of a well-formed state yields exactly its abstract sequence *)
Theorem C09_plain_iteration :
  forall s l, wfb false s -> (yields s l <-> l = elems s).
Proof.
  intros s l Hw. split; [apply yields_is_elems; exact Hw | intros ->; apply yields_elems; exact Hw].
Qed.

(* (4) the adaptors: for ALL parameters they return well-formed states, never panic, and the shift-like
       ones preserve the length of their input *)
Theorem C09_len_preserved_shift :
  forall (n : Z) (v : val) (s : it), wfb false s ->
    exists s', shift n v s = Ok s' /\ wfb false s' /\ length (elems s') = length (elems s).
Proof. exact shift_wf. Qed.

Theorem C09_len_preserved_vshift :
  forall (n : Z) (v : option val) (s : it), wfb false s ->
    exists s', vshift n v s = Ok s' /\ wfb false s' /\ length (elems s') = length (elems s).
Proof. exact vshift_wf. Qed.

Theorem C09_len_preserved_vdiff :
  forall (n : Z) (v : option val) (xs : list val),
    exists s', vdiff n v xs = Ok s' /\ wfb false s' /\ length (elems s') = length xs.
Proof. exact vdiff_wf. Qed.

Theorem C09_len_preserved_vpct_change :
  forall (n : Z) (xs : list val),
    exists s', vpct_change n xs = Ok s' /\ wfb false s' /\ length (elems s') = length xs.
Proof. exact vpct_change_wf. Qed.

Theorem C09_len_preserved_fills :
  forall (v : option val) (w lo hi : val) (s : it), wfb false s ->
    (wfb false (ffill v s) /\ length (elems (ffill v s)) = length (elems s)) /\
    (wfb false (fill w s) /\ length (elems (fill w s)) = length (elems s)) /\
    (wfb false (vclip lo hi s) /\ length (elems (vclip lo hi s)) = length (elems s)) /\
    (wfb false (vabs s) /\ length (elems (vabs s)) = length (elems s)).
Proof.
  intros v w lo hi s Hw.
  exact (conj (ffill_wf v s Hw) (conj (fill_wf false w s Hw) (conj (vclip_wf false lo hi s Hw) (vabs_wf false s Hw)))).
Qed.

Theorem C09_len_preserved_bfill :
  forall (v : option val) (s : it), wfb true s ->
    exists s', bfill v s = Ok s' /\ wfb true s' /\ length (elems s') = length (elems s).
Proof. exact bfill_wf. Qed.

Theorem C09_vcut_well_formed :
  forall tmin tmax bins labels right add s s', wfb false s ->
    vcut tmin tmax bins labels right add s = Some s' ->
    wfb false s' /\ length (elems s') = length (elems s).
Proof. exact vcut_wf. Qed.

Theorem C09_partitions_well_formed :
  forall (kth : nat) (sort : bool) (xs : list val),
    wfb false (vpartition kth sort xs) /\
    length (elems (vpartition kth sort xs)) = kth + 1 /\
    wfb false (varg_partition kth sort xs) /\
    length (elems (varg_partition kth sort xs)) = kth + 1.
Proof.
  intros kth sort xs. destruct (vpartition_wf kth sort xs) as [H1 H2].
  split; [exact H1|]. split; [exact H2|]. apply varg_partition_wf.
Qed.

Theorem C09_rolling_iter_well_formed :
  forall (w : nat) (xs : list val), 1 <= w ->
    exists s', rolling_custom_iter w xs = Ok s' /\ wfb false s' /\ length (elems s') = length xs.
Proof. exact rolling_wf. Qed.

Theorem C09_generators_well_formed :
  forall (a b st : Z) (n : nat),
    (wfb true (linspace a b n) /\ length (elems (linspace a b n)) = n) /\
    wfb true (range_f a b st) /\
    (forall s, range_i a b st = Ok s -> wfb true s) /\
    wfb true (winsorize (map VZ [a; b])).
Proof.
  intros a b st n. split; [apply linspace_wf|]. split; [apply range_f_wf|]. split; [apply range_i_wf|].
  apply winsorize_wf.
Qed.

(* the repaired `range` announces (and yields) ceil((b - a) / step) items, none when nothing lies before b *)
Theorem C09_range_count :
  forall (a b st : Z), (st <> 0)%Z ->
    length (elems (range_f a b st)) = range_count a b st /\
    (range_empty a b st = true -> range_count a b st = 0) /\
    (range_empty a b st = false ->
       let c := Z.of_nat (range_count a b st) in
       (0 < c /\ Z.abs st * (c - 1) < Z.abs (b - a) <= Z.abs st * c)%Z).
Proof.
  intros a b st Hst. split; [|exact (range_count_spec a b st Hst)].
  cbn. rewrite map_length, seq_length. lia.
Qed.

(* (5) the raw collector (allocate hint; write the items through a moving pointer; set_len hint):
       on a well-formed state, at any point of its consumption, it returns exactly the items plain
       iteration yields — and `CDone` means: capacity = number of items, slot k written once with item k *)
Theorem C09_collect_safe :
  forall (b : bool) (cs : list bool) (s : it) (l : list val),
    (forall c, In c cs -> c = true -> b = true) -> wfb b s -> yields (consume cs s) l ->
    collect_raw (consume cs s) = CDone l.
Proof. exact collect_after_consume. Qed.

Theorem C09_collect_done_means_exact :
  forall hint items l, collect_items hint items = CDone l -> hint = Some (length items) /\ l = items.
Proof. exact collect_items_done. Qed.

Theorem C09_collect_safe_pipeline :
  forall src gs s l, build src gs = Ok s -> yields s l -> collect_raw s = CDone l.
Proof.
  intros src gs s l Hb Hy.
  exact (collect_after_consume false [] s l (fun c H => match H with end) (build_wf src gs s Hb) Hy).
Qed.

(* ---- non-vacuity and necessity ------------------------------------------------------------------- *)
(* a pipeline that builds, with a lag beyond the series and a partial consumption in the middle *)
Example C09_example_pipeline :
  exists s, build (SVec [VZ 1; VNull; VZ 3]) [GShift 1 (VZ 0); GAdvance 1; GVShift (-5) None; GTrust] = Ok s
            /\ size_hint s = (2, Some 2) /\ drain s = [VNull; VNull].
Proof. eexists. vm_compute. auto. Qed.

(* a state of the double-ended class, consumed from both ends *)
Example C09_example_both_ends_len_based :
  wfb true (IEnum (IZip (ITake (ITrust (IList [VZ 1; VZ 2; VZ 3; VZ 4]) 4) 3) (ISkip (IRange 0 6) 1)) 0)
  /\ drain (consume [true; false]
             (IEnum (IZip (ITake (ITrust (IList [VZ 1; VZ 2; VZ 3; VZ 4]) 4) 3) (ISkip (IRange 0 6) 1)) 0))
     = [VPair (VZ 1) (VPair (VZ 2) (VZ 2))].
Proof. vm_compute. repeat split; auto. Qed.

Example C09_example_both_ends :
  wfb true (IRev (IChain true true (ITrust (IList [VZ 1; VZ 2]) 2) (ILin 5 2 0 3)))
  /\ size_hint (consume [true; false; true]
                  (IRev (IChain true true (ITrust (IList [VZ 1; VZ 2]) 2) (ILin 5 2 0 3)))) = (2, Some 2).
Proof. vm_compute. repeat split; auto. Qed.

(* the hypothesis is needed: a TrustIter announcing a wrong length breaks the law and the collector *)
Example C09_wrong_length_breaks :
  snd (size_hint (ITrust (IList [VZ 1; VZ 2; VZ 3]) 2)) <> Some (length (drain (ITrust (IList [VZ 1; VZ 2; VZ 3]) 2)))
  /\ collect_raw (ITrust (IList [VZ 1; VZ 2; VZ 3]) 2) = COverflow 2 3
  /\ collect_raw (ITrust (IList [VZ 1]) 2) = CUninit [Some (VZ 1); None].
Proof. vm_compute. repeat split; discriminate. Qed.

(* the premises of the adaptor theorems are satisfiable at the critical parameters *)
Example C09_example_shift_band :
  (exists s', shift (-2147483648) (VZ 0) (IList [VZ 1; VZ 2]) = Ok s' /\ drain s' = [VZ 0; VZ 0])
  /\ (exists s', vshift 5 None (IList [VZ 1; VZ 2; VZ 3]) = Ok s' /\ drain s' = [VNull; VNull; VNull])
  /\ (exists s', vdiff (-1) None [VZ 4; VZ 1; VZ 12] = Ok s' /\ drain s' = [VZ 3; VZ (-11); VNull])
  /\ drain (vpartition 4 false [VZ 3; VNull; VZ 1]) = [VZ 3; VZ 1; VNull; VNull; VNull]
  /\ (exists s', vdiff 0 None [VZ 1; VNull] = Ok s' /\ drain s' = [VZ 0; VNull])
  /\ (exists s', vdiff 1 (Some (VZ 9)) [VZ 4; VZ 1; VZ 12] = Ok s' /\ drain s' = [VZ 9; VZ (-3); VZ 11])
  /\ drain (vpartition 3 true [VZ 3; VNull]) = [VZ 3; VNull; VNull; VNull]
  /\ (exists s', range_i 0 5 2 = Ok s' /\ drain s' = [VZ 0; VZ 2; VZ 4])
  /\ (exists s', rolling_custom_iter 2 [VZ 5; VZ 6] = Ok s' /\ length (drain s') = 2)
  /\ rolling_custom_iter 0 [VZ 5] = Panic Underflow.
Proof. vm_compute. repeat split; eexists; split; reflexivity. Qed.

Print Assumptions C09_hint_exact_front.
Print Assumptions C09_hint_exact_both_ends.
Print Assumptions C09_hint_exact_pipeline.
Print Assumptions C09_pipeline_well_formed.
Print Assumptions C09_step_preserves.
Print Assumptions C09_plain_iteration.
Print Assumptions C09_len_preserved_shift.
Print Assumptions C09_len_preserved_vshift.
Print Assumptions C09_len_preserved_vdiff.
Print Assumptions C09_len_preserved_vpct_change.
Print Assumptions C09_len_preserved_fills.
Print Assumptions C09_len_preserved_bfill.
Print Assumptions C09_vcut_well_formed.
Print Assumptions C09_partitions_well_formed.
Print Assumptions C09_rolling_iter_well_formed.
Print Assumptions C09_generators_well_formed.
Print Assumptions C09_range_count.
Print Assumptions C09_collect_safe.
Print Assumptions C09_collect_done_means_exact.
Print Assumptions C09_collect_safe_pipeline.
