(* Props/C05.v — property C05: rolling outputs are input-length and null exactly during warm-up. *)
From Coq Require Import Reals List.
From Tevec Require Import Base.Prelude Base.Num Base.XR Spec.Stats Model.Driver Model.Features
     Proofs.Generic Proofs.Mask.
Import ListNotations.

(* (1) one output per input, for EVERY add-emit-remove rolling feature, any carrier, both driver
   bodies (returned / caller buffer / fast path), every window >= 1: never a panic, never an
   unwritten slot; empty in, empty out whatever the window *)
Theorem C05_one_output_per_input :
  forall (T St O : Type) (F : feat T St O) (w : nat) (xs : list T) (body : bool),
    1 <= w -> exists out, ts_run F body w xs = Done out /\ length out = length xs.
Proof. exact @ts_run_total. Qed.

Theorem C05_empty_in_empty_out :
  forall (T St O : Type) (F : feat T St O) (w : nat) (body : bool), ts_run F body w [] = Done [].
Proof. exact @ts_run_empty. Qed.

(* (2) the effective min_periods: omitted means floor(w/2); clamped to w; raised to the intrinsic
   minimum k (0 sum/mean, 2 variance-type, 3 skewness, 4 kurtosis) *)
Theorem C05_effective_min_periods :
  forall (mp : option nat) (w k : nat),
    mp_eff mp w k = Nat.max (Nat.min (match mp with Some m => m | None => w / 2 end) w) k.
Proof. exact mp_eff_value. Qed.

(* (3) the mask: output i is null exactly when the window holds fewer valid observations than the
   effective min_periods (for the mean: or none at all) — and non-null otherwise *)
Theorem C05_mask_ts_vsum :
  forall (body : bool) (w : nat) (mp : option nat) (xs : list XR), 1 <= w ->
    exists out, ts_run (ts_vsum_f w mp) body w xs = Done out /\ length out = length xs /\
      forall i, i < length xs ->
        exists o, nth_error out i = Some o /\ is_null o = below (mp_eff mp w 0) (valid (win w i xs)).
Proof. exact mask_vsum. Qed.

Theorem C05_mask_ts_vmean :
  forall (body : bool) (w : nat) (mp : option nat) (xs : list XR), 1 <= w ->
    exists out, ts_run (ts_vmean_f w mp) body w xs = Done out /\ length out = length xs /\
      forall i, i < length xs ->
        exists o, nth_error out i = Some o /\
          is_null o = orb (below (mp_eff mp w 0) (valid (win w i xs))) (below 1 (valid (win w i xs))).
Proof. exact mask_vmean. Qed.

Theorem C05_mask_ts_vvar :
  forall (body : bool) (w : nat) (mp : option nat) (xs : list XR), 1 <= w ->
    exists out, ts_run (ts_vvar_f w mp) body w xs = Done out /\ length out = length xs /\
      forall i, i < length xs ->
        exists o, nth_error out i = Some o /\ is_null o = below (mp_eff mp w 2) (valid (win w i xs)).
Proof. exact mask_vvar. Qed.

Theorem C05_mask_ts_vstd :
  forall (body : bool) (w : nat) (mp : option nat) (xs : list XR), 1 <= w ->
    exists out, ts_run (ts_vstd_f w mp) body w xs = Done out /\ length out = length xs /\
      forall i, i < length xs ->
        exists o, nth_error out i = Some o /\ is_null o = below (mp_eff mp w 2) (valid (win w i xs)).
Proof. exact mask_vstd. Qed.

Theorem C05_mask_ts_vskew :
  forall (body : bool) (w : nat) (mp : option nat) (xs : list XR), 1 <= w ->
    exists out, ts_run (ts_vskew_f w mp) body w xs = Done out /\ length out = length xs /\
      forall i, i < length xs ->
        exists o, nth_error out i = Some o /\ is_null o = below (mp_eff mp w 3) (valid (win w i xs)).
Proof. exact mask_vskew. Qed.

Theorem C05_mask_ts_vkurt :
  forall (body : bool) (w : nat) (mp : option nat) (xs : list XR), 1 <= w ->
    exists out, ts_run (ts_vkurt_f w mp) body w xs = Done out /\ length out = length xs /\
      forall i, i < length xs ->
        exists o, nth_error out i = Some o /\ is_null o = below (mp_eff mp w 4) (valid (win w i xs)).
Proof. exact mask_vkurt. Qed.

(* non-vacuity: a window of 2 over [1, NaN, 3] with min_periods 2 *)
Example C05_example :
  exists out, ts_run (ts_vsum_f (A := XR) 2 (Some 2)) true 2 [Some 1%R; None; Some 3%R] = Done out /\ length out = 3.
Proof. apply C05_one_output_per_input. auto. Qed.

Print Assumptions C05_one_output_per_input.
Print Assumptions C05_empty_in_empty_out.
Print Assumptions C05_effective_min_periods.
Print Assumptions C05_mask_ts_vsum.
Print Assumptions C05_mask_ts_vmean.
Print Assumptions C05_mask_ts_vvar.
Print Assumptions C05_mask_ts_vstd.
Print Assumptions C05_mask_ts_vskew.
Print Assumptions C05_mask_ts_vkurt.
