(* Props/C05.v — property C05: rolling outputs are input-length and null exactly during warm-up. *)
From Coq Require Import ZArith Reals List.
From Tevec Require Import Base.Prelude Base.Num Base.XR Spec.Stats Spec.Ols Spec.Extrema Model.Driver
     Model.Features Model.Cmp Model.Norm Model.Binary Model.Reg Model.Fdiff Proofs.Generic Proofs.Norm
     Proofs.Mask Proofs.Mask2 Proofs.Mask3 Proofs.Mask4.
Import ListNotations.

(* (1) one output per input, for EVERY add-emit-remove rolling feature, any carrier, both driver
   bodies (returned / caller buffer / fast path), every window >= 1: never a panic, never an
   unwritten slot; empty in, empty out whatever the window *)
Theorem C05_one_output_per_input :
  forall (T St O : Type) (F : feat T St O) (w : nat) (xs : list T) (body : bool),
    1 <= w -> exists out, ts_run F body w xs = Done out /\ length out = length xs.
Proof. exact @ts_run_total. Qed.

Theorem C05_empty_in_empty_out :
  forall (T St O : Type) (F : feat T St O) (w : nat) (body : bool), ts_run F body w [] = Done [].
Proof. exact @ts_run_empty. Qed.

(* (2) the effective min_periods: omitted means floor(w/2); clamped to w; raised to the intrinsic
   minimum k (0 sum/mean, 2 variance-type, 3 skewness, 4 kurtosis) *)
Theorem C05_effective_min_periods :
  forall (mp : option nat) (w k : nat),
    mp_eff mp w k = Nat.max (Nat.min (match mp with Some m => m | None => w / 2 end) w) k.
Proof. exact mp_eff_value. Qed.

(* (3) the mask: output i is null exactly when the window holds fewer valid observations than the
   effective min_periods (for the mean: or none at all) — and non-null otherwise *)
Theorem C05_mask_ts_vsum :
  forall (body : bool) (w : nat) (mp : option nat) (xs : list XR), 1 <= w ->
    exists out, ts_run (ts_vsum_f w mp) body w xs = Done out /\ length out = length xs /\
      forall i, i < length xs ->
        exists o, nth_error out i = Some o /\ is_null o = below (mp_eff mp w 0) (valid (win w i xs)).
Proof. exact mask_vsum. Qed.

Theorem C05_mask_ts_vmean :
  forall (body : bool) (w : nat) (mp : option nat) (xs : list XR), 1 <= w ->
    exists out, ts_run (ts_vmean_f w mp) body w xs = Done out /\ length out = length xs /\
      forall i, i < length xs ->
        exists o, nth_error out i = Some o /\
          is_null o = orb (below (mp_eff mp w 0) (valid (win w i xs))) (below 1 (valid (win w i xs))).
Proof. exact mask_vmean. Qed.

Theorem C05_mask_ts_vvar :
  forall (body : bool) (w : nat) (mp : option nat) (xs : list XR), 1 <= w ->
    exists out, ts_run (ts_vvar_f w mp) body w xs = Done out /\ length out = length xs /\
      forall i, i < length xs ->
        exists o, nth_error out i = Some o /\ is_null o = below (mp_eff mp w 2) (valid (win w i xs)).
Proof. exact mask_vvar. Qed.

Theorem C05_mask_ts_vstd :
  forall (body : bool) (w : nat) (mp : option nat) (xs : list XR), 1 <= w ->
    exists out, ts_run (ts_vstd_f w mp) body w xs = Done out /\ length out = length xs /\
      forall i, i < length xs ->
        exists o, nth_error out i = Some o /\ is_null o = below (mp_eff mp w 2) (valid (win w i xs)).
Proof. exact mask_vstd. Qed.

Theorem C05_mask_ts_vskew :
  forall (body : bool) (w : nat) (mp : option nat) (xs : list XR), 1 <= w ->
    exists out, ts_run (ts_vskew_f w mp) body w xs = Done out /\ length out = length xs /\
      forall i, i < length xs ->
        exists o, nth_error out i = Some o /\ is_null o = below (mp_eff mp w 3) (valid (win w i xs)).
Proof. exact mask_vskew. Qed.

Theorem C05_mask_ts_vkurt :
  forall (body : bool) (w : nat) (mp : option nat) (xs : list XR), 1 <= w ->
    exists out, ts_run (ts_vkurt_f w mp) body w xs = Done out /\ length out = length xs /\
      forall i, i < length xs ->
        exists o, nth_error out i = Some o /\ is_null o = below (mp_eff mp w 4) (valid (win w i xs)).
Proof. exact mask_vkurt. Qed.

(* ================================================================================================== *)
(* (4) the remaining families.  Notation used below:
       V = valid (win w i xs)                    the non-null values of the window max(0,i-w+1)..=i
       P = pairs (win w i xs) (win w i ys)       its pairwise-complete observations (two-series functions)
       below k V = (length V <? k)               "fewer than k valid observations"
   Count-only masks are boolean equations; masks with an undefinedness condition on reals (DESIGN 5.6)
   are stated  is_null o = true <-> below-threshold \/ undefined,  i.e. both directions.               *)

(* (4a) weighted means: null iff below min_periods or no valid element.  For ewm the code's condition is
   "1 - (1 - 2/w)^n = 0"; within a window (n <= w) that is exactly n = 0 (DESIGN 5.6) *)
Theorem C05_ewm_undefined_iff_no_valid :
  forall w n : nat, 1 <= w -> n <= w -> ((1 - (1 - 2 / INR w) ^ n = 0)%R <-> n = 0).
Proof. exact ewm_undefined_iff. Qed.

Theorem C05_mask_ts_vewm :
  forall (body : bool) (w : nat) (mp : option nat) (xs : list XR), 1 <= w ->
    exists out, ts_run (ts_vewm_f w mp) body w xs = Done out /\ length out = length xs /\
      forall i, i < length xs ->
        exists o, nth_error out i = Some o /\
          is_null o = orb (below (mp_eff mp w 0) (valid (win w i xs))) (below 1 (valid (win w i xs))).
Proof. exact mask_vewm. Qed.

Theorem C05_mask_ts_vwma :
  forall (body : bool) (w : nat) (mp : option nat) (xs : list XR), 1 <= w ->
    exists out, ts_run (ts_vwma_f w mp) body w xs = Done out /\ length out = length xs /\
      forall i, i < length xs ->
        exists o, nth_error out i = Some o /\
          is_null o = orb (below (mp_eff mp w 0) (valid (win w i xs))) (below 1 (valid (win w i xs))).
Proof. exact mask_vwma. Qed.

(* (4b) the time-trend regressions (values regressed on t = 1..n): the normal equations are singular exactly
   for n <= 1, so the output is null iff fewer than max(min_periods', 2) valid values *)
Theorem C05_mask_ts_vreg :
  forall (body : bool) (w : nat) (mp : option nat) (xs : list XR), 1 <= w ->
    exists out, ts_run (ts_vreg_f w mp) body w xs = Done out /\ length out = length xs /\
      forall i, i < length xs ->
        exists o, nth_error out i = Some o /\
          is_null o = orb (below (mp_eff mp w 0) (valid (win w i xs))) (below 2 (valid (win w i xs))).
Proof. exact mask_vreg. Qed.

Theorem C05_mask_ts_vtsf :
  forall (body : bool) (w : nat) (mp : option nat) (xs : list XR), 1 <= w ->
    exists out, ts_run (ts_vtsf_f w mp) body w xs = Done out /\ length out = length xs /\
      forall i, i < length xs ->
        exists o, nth_error out i = Some o /\
          is_null o = orb (below (mp_eff mp w 0) (valid (win w i xs))) (below 2 (valid (win w i xs))).
Proof. exact mask_vtsf. Qed.

Theorem C05_mask_ts_vreg_slope :
  forall (body : bool) (w : nat) (mp : option nat) (xs : list XR), 1 <= w ->
    exists out, ts_run (ts_vreg_slope_f w mp) body w xs = Done out /\ length out = length xs /\
      forall i, i < length xs ->
        exists o, nth_error out i = Some o /\
          is_null o = orb (below (mp_eff mp w 0) (valid (win w i xs))) (below 2 (valid (win w i xs))).
Proof. exact mask_vreg_slope. Qed.

Theorem C05_mask_ts_vreg_intercept :
  forall (body : bool) (w : nat) (mp : option nat) (xs : list XR), 1 <= w ->
    exists out, ts_run (ts_vreg_intercept_f w mp) body w xs = Done out /\ length out = length xs /\
      forall i, i < length xs ->
        exists o, nth_error out i = Some o /\
          is_null o = orb (below (mp_eff mp w 0) (valid (win w i xs))) (below 2 (valid (win w i xs))).
Proof. exact mask_vreg_intercept. Qed.

Theorem C05_mask_ts_vreg_resid_mean :
  forall (body : bool) (w : nat) (mp : option nat) (xs : list XR), 1 <= w ->
    exists out, ts_run (ts_vreg_resid_mean_f w mp) body w xs = Done out /\ length out = length xs /\
      forall i, i < length xs ->
        exists o, nth_error out i = Some o /\
          is_null o = orb (below (mp_eff mp w 0) (valid (win w i xs))) (below 2 (valid (win w i xs))).
Proof. exact mask_vreg_resid_mean. Qed.

(* (4c) z-score: null iff the current element is null, or below min_periods, or zero spread in the code's
   sense (population variance <= EPS = 1e-14; a window with <= 1 valid value has variance 0) *)
Theorem C05_mask_ts_vzscore :
  forall (body : bool) (w : nat) (mp : option nat) (xs : list XR), 1 <= w ->
    exists out, ts_vzscore body w mp xs = Done out /\ length out = length xs /\
      forall i, i < length xs ->
        exists o, nth_error out i = Some o /\
          (is_null o = true <->
           nth_error xs i = Some None \/ length (valid (win w i xs)) < mp_eff mp w 0 \/
           (popvarR (valid (win w i xs)) <= EPS)%R).
Proof. exact mask_vzscore. Qed.

Theorem C05_zero_spread_below_two :
  forall V : list R, length V <= 1 -> (popvarR V <= EPS)%R.
Proof. exact popvar_le_eps_single. Qed.

(* (4d) min-max normalisation (lo / hi: the sentinels T::Inner::min_() / max_(), DESIGN 5.2): null iff the
   current element is null, or below min_periods, or greatest = least valid element of the window *)
Theorem C05_mask_ts_vminmaxnorm :
  forall (lo hi : R) (body : bool) (w : nat) (mp : option nat) (xs : list XR), 1 <= w ->
    (forall r, In (Some r) xs -> (lo <= r <= hi)%R) ->
    exists out, ts_vminmaxnorm (Some lo) (Some hi) body w mp xs = Done out /\ length out = length xs /\
      forall i, i < length xs ->
        exists o, nth_error out i = Some o /\
          (is_null o = true <->
           nth_error xs i = Some None \/ length (valid (win w i xs)) < mp_eff mp w 0 \/
           lmaxR (valid (win w i xs)) = lminR (valid (win w i xs))).
Proof. exact mask_vminmaxnorm. Qed.

(* (4e) two-series statistics over the pairwise-complete observations P *)
Theorem C05_mask_ts_vcov :
  forall (body : bool) (w : nat) (mp : option nat) (xs ys : list XR), 1 <= w -> length xs = length ys ->
    exists out, ts_run2 (ts_vcov_f w mp) body w xs ys = Done out /\ length out = length xs /\
      forall i, i < length xs ->
        exists o, nth_error out i = Some o /\
          is_null o = (length (pairs (win w i xs) (win w i ys)) <? mp_eff mp w 2).
Proof. exact mask_vcov. Qed.

(* correlation: undefined when either population variance is <= EPS (zero spread) *)
Theorem C05_mask_ts_vcorr :
  forall (body : bool) (w : nat) (mp : option nat) (xs ys : list XR), 1 <= w -> length xs = length ys ->
    exists out, ts_run2 (ts_vcorr_f w mp) body w xs ys = Done out /\ length out = length xs /\
      forall i, i < length xs ->
        let P := pairs (win w i xs) (win w i ys) in
        exists o, nth_error out i = Some o /\
          (is_null o = true <->
           length P < mp_eff mp w 0 \/ (popvarR (map fst P) <= EPS)%R \/ (popvarR (map snd P) <= EPS)%R).
Proof. exact mask_vcorr. Qed.

(* regressions of the first series on the second: undefined iff the normal equations are singular,
   detB P = n Sbb - Sb^2 = 0, i.e. the regressor is constant over P (C04_singular_iff_constant_regressor;
   in particular whenever P has <= 1 observation, C04_defined_needs_two_observations) *)
Theorem C05_mask_ts_vregx_alpha :
  forall (body : bool) (w : nat) (mp : option nat) (xs ys : list XR), 1 <= w -> length xs = length ys ->
    exists out, ts_run2 (ts_vregx_alpha_f w mp) body w xs ys = Done out /\ length out = length xs /\
      forall i, i < length xs ->
        let P := pairs (win w i xs) (win w i ys) in
        exists o, nth_error out i = Some o /\
          (is_null o = true <-> length P < mp_eff mp w 0 \/ detB P = 0%R).
Proof. exact mask_vregx_alpha. Qed.

Theorem C05_mask_ts_vregx_beta :
  forall (body : bool) (w : nat) (mp : option nat) (xs ys : list XR), 1 <= w -> length xs = length ys ->
    exists out, ts_run2 (ts_vregx_beta_f w mp) body w xs ys = Done out /\ length out = length xs /\
      forall i, i < length xs ->
        let P := pairs (win w i xs) (win w i ys) in
        exists o, nth_error out i = Some o /\
          (is_null o = true <-> length P < mp_eff mp w 0 \/ detB P = 0%R).
Proof. exact mask_vregx_beta. Qed.

(* ts_vregx_all emits (alpha, beta, SSE): each component has the same mask *)
Theorem C05_mask_ts_vregx_all :
  forall (body : bool) (w : nat) (mp : option nat) (xs ys : list XR), 1 <= w -> length xs = length ys ->
    exists out, ts_run2 (ts_vregx_all_f w mp) body w xs ys = Done out /\ length out = length xs /\
      forall i, i < length xs ->
        let P := pairs (win w i xs) (win w i ys) in
        exists o, nth_error out i = Some o /\
          (is_null (fst (fst o)) = true <-> length P < mp_eff mp w 0 \/ detB P = 0%R) /\
          (is_null (snd (fst o)) = true <-> length P < mp_eff mp w 0 \/ detB P = 0%R) /\
          (is_null (snd o) = true <-> length P < mp_eff mp w 0 \/ detB P = 0%R).
Proof. exact mask_vregx_all. Qed.

(* residual mean / std / skew (index-form driver): additionally the skewness needs 3 observations *)
Theorem C05_mask_ts_vregx_resid :
  forall (k : rstat) (body : bool) (w : nat) (mp : option nat) (xs ys : list XR),
    1 <= w -> length xs = length ys ->
    exists out, ts_vregx_resid k body w mp xs ys = Done out /\ length out = length xs /\
      forall i, i < length xs ->
        let P := pairs (win w i xs) (win w i ys) in
        exists o, nth_error out i = Some o /\
          (is_null o = true <->
           length P < mp_eff mp w 0 \/ detB P = 0%R \/ (k = RSkew /\ length P < 3)).
Proof. exact mask_vregx_resid. Qed.

(* (4f) extrema and arg-extrema: integer carrier, ANY null dictionary, axiom-free.  The effective min_periods
   of this family is cmp_mp mp (cmp_window w xs) = mp or min(len, w)/2 (DESIGN 5.3); null iff the valid count
   is below it or the window has no valid element.  onull = is_null for any option type. *)
Theorem C05_cmp_effective_min_periods :
  forall (T : Type) (mp : option nat) (w : nat) (xs : list T),
    cmp_mp mp (cmp_window w xs) = match mp with Some m => m | None => Nat.min (length xs) w / 2 end.
Proof. intros T. exact (@cmp_mp_value T). Qed.

Theorem C05_cmp_effective_min_periods_stable :
  forall (T : Type) (mp : option nat) (w : nat) (xs : list T),
    (mp <> None \/ w <= length xs) ->
    cmp_mp mp (cmp_window w xs) = match mp with Some m => m | None => w / 2 end.
Proof. intros T. exact (@cmp_mp_stable T). Qed.

Theorem C05_mask_ts_vmin :
  forall (T : Type) (DT : IsNone T Z) (body : bool) (w : nat) (mp : option nat) (xs : list T),
    1 <= w -> 1 <= length xs ->
    exists out, ts_vmin body w mp xs = Done out /\ length out = length xs /\
      forall i, i < length xs ->
        exists o, nth_error out i = Some o /\
          onull o = orb (length (validZ (win w i (map to_opt xs))) <? cmp_mp mp (cmp_window w xs))
                        (length (validZ (win w i (map to_opt xs))) <? 1).
Proof. intros T DT. exact mask_vmin. Qed.

Theorem C05_mask_ts_vmax :
  forall (T : Type) (DT : IsNone T Z) (body : bool) (w : nat) (mp : option nat) (xs : list T),
    1 <= w -> 1 <= length xs ->
    exists out, ts_vmax body w mp xs = Done out /\ length out = length xs /\
      forall i, i < length xs ->
        exists o, nth_error out i = Some o /\
          onull o = orb (length (validZ (win w i (map to_opt xs))) <? cmp_mp mp (cmp_window w xs))
                        (length (validZ (win w i (map to_opt xs))) <? 1).
Proof. intros T DT. exact mask_vmax. Qed.

Theorem C05_mask_ts_vargmin :
  forall (T : Type) (DT : IsNone T Z) (body : bool) (w : nat) (mp : option nat) (xs : list T),
    1 <= w -> 1 <= length xs ->
    exists out, ts_vargmin body w mp xs = Done out /\ length out = length xs /\
      forall i, i < length xs ->
        exists o, nth_error out i = Some o /\
          onull o = orb (length (validZ (win w i (map to_opt xs))) <? cmp_mp mp (cmp_window w xs))
                        (length (validZ (win w i (map to_opt xs))) <? 1).
Proof. intros T DT. exact mask_vargmin. Qed.

Theorem C05_mask_ts_vargmax :
  forall (T : Type) (DT : IsNone T Z) (body : bool) (w : nat) (mp : option nat) (xs : list T),
    1 <= w -> 1 <= length xs ->
    exists out, ts_vargmax body w mp xs = Done out /\ length out = length xs /\
      forall i, i < length xs ->
        exists o, nth_error out i = Some o /\
          onull o = orb (length (validZ (win w i (map to_opt xs))) <? cmp_mp mp (cmp_window w xs))
                        (length (validZ (win w i (map to_opt xs))) <? 1).
Proof. intros T DT. exact mask_vargmax. Qed.

(* rolling rank (rank arithmetic in XR): null iff the current element is null (null_at) or the valid count of
   the window, current element included, is below the effective min_periods *)
Theorem C05_mask_ts_vrank :
  forall (T : Type) (DT : IsNone T Z) (body : bool) (w : nat) (mp : option nat) (pct rev : bool)
         (xs : list T),
    1 <= w -> 1 <= length xs ->
    exists out, ts_vrank (B := XR) body w mp pct rev xs = Done out /\ length out = length xs /\
      forall i, i < length xs ->
        exists o, nth_error out i = Some o /\
          is_null o = orb (null_at (map to_opt xs) i)
                          (length (validZ (win w i (map to_opt xs))) <? cmp_mp mp (cmp_window w xs)).
Proof. intros T DT. exact mask_vrank. Qed.

(* DESIGN 5.3 corollaries: explicit min_periods (any length) or omitted with len >= w -> the property's
   threshold `min_periods or floor(w/2)` *)
Corollary C05_mask_ts_vmin_stable :
  forall (T : Type) (DT : IsNone T Z) (body : bool) (w : nat) (mp : option nat) (xs : list T),
    1 <= w -> 1 <= length xs -> (mp <> None \/ w <= length xs) ->
    exists out, ts_vmin body w mp xs = Done out /\ length out = length xs /\
      forall i, i < length xs ->
        exists o, nth_error out i = Some o /\
          onull o = orb (length (validZ (win w i (map to_opt xs))) <? match mp with Some m => m | None => w / 2 end)
                        (length (validZ (win w i (map to_opt xs))) <? 1).
Proof. intros T DT. exact mask_vmin_stable. Qed.

Corollary C05_mask_ts_vmax_stable :
  forall (T : Type) (DT : IsNone T Z) (body : bool) (w : nat) (mp : option nat) (xs : list T),
    1 <= w -> 1 <= length xs -> (mp <> None \/ w <= length xs) ->
    exists out, ts_vmax body w mp xs = Done out /\ length out = length xs /\
      forall i, i < length xs ->
        exists o, nth_error out i = Some o /\
          onull o = orb (length (validZ (win w i (map to_opt xs))) <? match mp with Some m => m | None => w / 2 end)
                        (length (validZ (win w i (map to_opt xs))) <? 1).
Proof. intros T DT. exact mask_vmax_stable. Qed.

Corollary C05_mask_ts_vargmin_stable :
  forall (T : Type) (DT : IsNone T Z) (body : bool) (w : nat) (mp : option nat) (xs : list T),
    1 <= w -> 1 <= length xs -> (mp <> None \/ w <= length xs) ->
    exists out, ts_vargmin body w mp xs = Done out /\ length out = length xs /\
      forall i, i < length xs ->
        exists o, nth_error out i = Some o /\
          onull o = orb (length (validZ (win w i (map to_opt xs))) <? match mp with Some m => m | None => w / 2 end)
                        (length (validZ (win w i (map to_opt xs))) <? 1).
Proof. intros T DT. exact mask_vargmin_stable. Qed.

Corollary C05_mask_ts_vargmax_stable :
  forall (T : Type) (DT : IsNone T Z) (body : bool) (w : nat) (mp : option nat) (xs : list T),
    1 <= w -> 1 <= length xs -> (mp <> None \/ w <= length xs) ->
    exists out, ts_vargmax body w mp xs = Done out /\ length out = length xs /\
      forall i, i < length xs ->
        exists o, nth_error out i = Some o /\
          onull o = orb (length (validZ (win w i (map to_opt xs))) <? match mp with Some m => m | None => w / 2 end)
                        (length (validZ (win w i (map to_opt xs))) <? 1).
Proof. intros T DT. exact mask_vargmax_stable. Qed.

Corollary C05_mask_ts_vrank_stable :
  forall (T : Type) (DT : IsNone T Z) (body : bool) (w : nat) (mp : option nat) (pct rev : bool)
         (xs : list T),
    1 <= w -> 1 <= length xs -> (mp <> None \/ w <= length xs) ->
    exists out, ts_vrank (B := XR) body w mp pct rev xs = Done out /\ length out = length xs /\
      forall i, i < length xs ->
        exists o, nth_error out i = Some o /\
          is_null o = orb (null_at (map to_opt xs) i)
                          (length (validZ (win w i (map to_opt xs))) <? match mp with Some m => m | None => w / 2 end).
Proof. intros T DT. exact mask_vrank_stable. Qed.

(* (4g) fractional difference.  Plain ts_fdiff on a null-free series: one output per input, never null;
   ts_vfdiff: null exactly below min_periods (the weighted sum over the valid elements is never null) *)
Theorem C05_mask_ts_fdiff :
  forall (body : bool) (d : R) (w : nat) (rs : list R), 1 <= w ->
    exists out, ts_fdiff body (Some d) w (fun x : XR => x) (map Some rs) = Done out /\
      length out = length rs /\
      forall i, i < length rs -> exists o, nth_error out i = Some o /\ is_null o = false.
Proof. exact mask_fdiff. Qed.

Theorem C05_mask_ts_vfdiff :
  forall (body : bool) (d : R) (w : nat) (mp : option nat) (xs : list XR), 1 <= w ->
    exists out, ts_vfdiff body (Some d) w mp xs = Done out /\ length out = length xs /\
      forall i, i < length xs ->
        exists o, nth_error out i = Some o /\
          is_null o = below (mp_eff mp w 0) (valid (win w i xs)).
Proof. exact mask_vfdiff. Qed.

(* (5) length / no panic / empty input for the index-form drivers (window-index callbacks).
   (a) empty series: the empty result for EVERY window (0 included), every carrier and null dictionary,
       both bodies — nothing is evaluated, in particular no `window - 1` underflow (repaired ts_vrank) *)
Theorem C05_index_form_empty_in_empty_out :
  forall (A : Type) (NA : Num A) (T : Type) (DT : IsNone T A) (body : bool) (w : nat) (mp : option nat),
    ts_vmin body w mp (@nil T) = Done [] /\ ts_vmax body w mp (@nil T) = Done [] /\
    ts_vargmin body w mp (@nil T) = Done [] /\ ts_vargmax body w mp (@nil T) = Done [] /\
    (forall (B : Type) (NB : Num B) (pct rev : bool), ts_vrank (B := B) body w mp pct rev (@nil T) = Done []) /\
    (forall tmin tmax : A, ts_vminmaxnorm tmin tmax body w mp (@nil T) = Done []) /\
    (forall (T2 : Type) (D2 : IsNone T2 A) (k : rstat) (ys : list T2),
        ts_vregx_resid k body w mp (@nil T) ys = Done []).
Proof. exact index_form_empty. Qed.

(* (b) every series (empty or not), every window >= 1 — window > len included: this family clamps the window
       to the length — both bodies: a fully written output of the input length.  Axiom-free for the extrema. *)
Theorem C05_extrema_one_output_per_input :
  forall (T : Type) (DT : IsNone T Z) (body : bool) (w : nat) (mp : option nat) (xs : list T), 1 <= w ->
    (exists out, ts_vmin body w mp xs = Done out /\ length out = length xs) /\
    (exists out, ts_vmax body w mp xs = Done out /\ length out = length xs) /\
    (exists out, ts_vargmin body w mp xs = Done out /\ length out = length xs) /\
    (exists out, ts_vargmax body w mp xs = Done out /\ length out = length xs).
Proof. intros T DT. exact extrema_total. Qed.

Theorem C05_rank_one_output_per_input :
  forall (T : Type) (DT : IsNone T Z) (body : bool) (w : nat) (mp : option nat) (pct rev : bool)
         (xs : list T), 1 <= w ->
    exists out, ts_vrank (B := XR) body w mp pct rev xs = Done out /\ length out = length xs.
Proof. intros T DT. exact rank_total. Qed.

(* (c) a window of 0 over a non-empty series is rejected by the driver's `assert!(window > 0)` — for any
       window-index callback, both bodies (the statements above therefore require 1 <= w) *)
Theorem C05_index_form_window_zero_rejected :
  forall (T St O : Type) (body : bool) (cb : St -> option nat * nat * T -> res (St * O)) (s0 : St)
         (xs : list T),
    1 <= length xs -> idx_run body 0 cb s0 xs = Panicked AssertFail.
Proof. exact @idx_run_window0. Qed.

(* (6) the plain families ts_sum .. ts_kurt, ts_ewm, ts_wma (the same closures with the never-null dictionary,
   theorems C01_plain_family_...) on a null-free series: the same masks, the valid count being the window length *)
Theorem C05_mask_ts_sum :
  forall (body : bool) (w : nat) (mp : option nat) (rs : list R), 1 <= w ->
    exists out, ts_run (ts_vsum_f (DT := IsNone_never) w mp) body w (map Some rs) = Done out /\
      length out = length rs /\
      forall i, i < length rs ->
        exists o, nth_error out i = Some o /\ is_null o = below (mp_eff mp w 0) (win w i rs).
Proof. exact mask_plain_sum. Qed.

Theorem C05_mask_ts_mean :
  forall (body : bool) (w : nat) (mp : option nat) (rs : list R), 1 <= w ->
    exists out, ts_run (ts_vmean_f (DT := IsNone_never) w mp) body w (map Some rs) = Done out /\
      length out = length rs /\
      forall i, i < length rs ->
        exists o, nth_error out i = Some o /\ is_null o = orb (below (mp_eff mp w 0) (win w i rs)) (below 1 (win w i rs)).
Proof. exact mask_plain_mean. Qed.

Theorem C05_mask_ts_var :
  forall (body : bool) (w : nat) (mp : option nat) (rs : list R), 1 <= w ->
    exists out, ts_run (ts_vvar_f (DT := IsNone_never) w mp) body w (map Some rs) = Done out /\
      length out = length rs /\
      forall i, i < length rs ->
        exists o, nth_error out i = Some o /\ is_null o = below (mp_eff mp w 2) (win w i rs).
Proof. exact mask_plain_var. Qed.

Theorem C05_mask_ts_std :
  forall (body : bool) (w : nat) (mp : option nat) (rs : list R), 1 <= w ->
    exists out, ts_run (ts_vstd_f (DT := IsNone_never) w mp) body w (map Some rs) = Done out /\
      length out = length rs /\
      forall i, i < length rs ->
        exists o, nth_error out i = Some o /\ is_null o = below (mp_eff mp w 2) (win w i rs).
Proof. exact mask_plain_std. Qed.

Theorem C05_mask_ts_skew :
  forall (body : bool) (w : nat) (mp : option nat) (rs : list R), 1 <= w ->
    exists out, ts_run (ts_vskew_f (DT := IsNone_never) w mp) body w (map Some rs) = Done out /\
      length out = length rs /\
      forall i, i < length rs ->
        exists o, nth_error out i = Some o /\ is_null o = below (mp_eff mp w 3) (win w i rs).
Proof. exact mask_plain_skew. Qed.

Theorem C05_mask_ts_kurt :
  forall (body : bool) (w : nat) (mp : option nat) (rs : list R), 1 <= w ->
    exists out, ts_run (ts_vkurt_f (DT := IsNone_never) w mp) body w (map Some rs) = Done out /\
      length out = length rs /\
      forall i, i < length rs ->
        exists o, nth_error out i = Some o /\ is_null o = below (mp_eff mp w 4) (win w i rs).
Proof. exact mask_plain_kurt. Qed.

Theorem C05_mask_ts_ewm :
  forall (body : bool) (w : nat) (mp : option nat) (rs : list R), 1 <= w ->
    exists out, ts_run (ts_vewm_f (DT := IsNone_never) w mp) body w (map Some rs) = Done out /\
      length out = length rs /\
      forall i, i < length rs ->
        exists o, nth_error out i = Some o /\ is_null o = orb (below (mp_eff mp w 0) (win w i rs)) (below 1 (win w i rs)).
Proof. exact mask_plain_ewm. Qed.

Theorem C05_mask_ts_wma :
  forall (body : bool) (w : nat) (mp : option nat) (rs : list R), 1 <= w ->
    exists out, ts_run (ts_vwma_f (DT := IsNone_never) w mp) body w (map Some rs) = Done out /\
      length out = length rs /\
      forall i, i < length rs ->
        exists o, nth_error out i = Some o /\ is_null o = orb (below (mp_eff mp w 0) (win w i rs)) (below 1 (win w i rs)).
Proof. exact mask_plain_wma. Qed.

Example C05_example_plain_sum :
  exists out, ts_run (ts_vsum_f (A := XR) (DT := IsNone_never) 2 None) true 2 (map Some [1%R; 2%R; 3%R]) = Done out /\
    (exists o, nth_error out 0 = Some o /\ is_null o = false).
Proof.
  destruct (C05_mask_ts_sum true 2 None [1%R; 2%R; 3%R] ltac:(auto)) as (out & H1 & _ & H3).
  exists out. split; [exact H1|exact (H3 0 ltac:(cbn; auto))].
Qed.

(* non-vacuity: a window of 2 over [1, NaN, 3] with min_periods 2 *)
Example C05_example :
  exists out, ts_run (ts_vsum_f (A := XR) 2 (Some 2)) true 2 [Some 1%R; None; Some 3%R] = Done out /\ length out = 3.
Proof. apply C05_one_output_per_input. auto. Qed.

(* non-vacuity of (4)-(5): every premise combination is satisfiable and the masks take both values *)
(* ewm / trend: [NaN, 1, 3], window 2, min_periods 0 — position 0 has no valid value (null), position 2 has two *)
Example C05_example_ewm_both_values :
  exists out, ts_run (ts_vewm_f (A := XR) 2 (Some 0)) false 2 [None; Some 1%R; Some 3%R] = Done out /\
    (exists o, nth_error out 0 = Some o /\ is_null o = true) /\
    (exists o, nth_error out 2 = Some o /\ is_null o = false).
Proof.
  destruct (C05_mask_ts_vewm false 2 (Some 0) [None; Some 1%R; Some 3%R] ltac:(auto)) as (out & H1 & _ & H3).
  exists out. split; [exact H1|]. split; [exact (H3 0 ltac:(cbn; auto))|exact (H3 2 ltac:(cbn; auto))].
Qed.
Example C05_example_trend_both_values :
  exists out, ts_run (ts_vreg_slope_f (A := XR) 2 (Some 0)) true 2 [None; Some 1%R; Some 3%R] = Done out /\
    (exists o, nth_error out 1 = Some o /\ is_null o = true) /\
    (exists o, nth_error out 2 = Some o /\ is_null o = false).
Proof.
  destruct (C05_mask_ts_vreg_slope true 2 (Some 0) [None; Some 1%R; Some 3%R] ltac:(auto)) as (out & H1 & _ & H3).
  exists out. split; [exact H1|]. split; [exact (H3 1 ltac:(cbn; auto))|exact (H3 2 ltac:(cbn; auto))].
Qed.
(* two series of equal length with nulls in both: the premises of (4e) *)
Example C05_example_cov :
  exists out, ts_run2 (ts_vcov_f (A := XR) 2 None) true 2
                      [Some 1%R; None; Some 3%R; Some 4%R] [Some 2%R; Some 5%R; Some 0%R; Some 1%R] = Done out /\
    (exists o, nth_error out 1 = Some o /\ is_null o = true) /\
    (exists o, nth_error out 3 = Some o /\ is_null o = false).
Proof.
  destruct (C05_mask_ts_vcov true 2 None [Some 1%R; None; Some 3%R; Some 4%R]
              [Some 2%R; Some 5%R; Some 0%R; Some 1%R] ltac:(auto) ltac:(reflexivity)) as (out & H1 & _ & H3).
  exists out. split; [exact H1|]. split; [exact (H3 1 ltac:(cbn; auto))|exact (H3 3 ltac:(cbn; auto))].
Qed.
Example C05_example_resid_premises :
  exists out, ts_vregx_resid (A := XR) RSkew false 3 (Some 1) [Some 1%R; None] [Some 2%R; Some 5%R] = Done out /\
    length out = 2.
Proof.
  destruct (C05_mask_ts_vregx_resid RSkew false 3 (Some 1) [Some 1%R; None] [Some 2%R; Some 5%R]
              ltac:(auto) ltac:(reflexivity)) as (out & H1 & H2 & _).
  exists out. split; assumption.
Qed.
(* the bounds premise of the min-max normalisation *)
Example C05_example_minmaxnorm_premise :
  forall r, In (Some r) [Some 1%R; None; Some 3%R] -> (0 <= r <= 4)%R.
Proof. intros r [H|[H|[H|[]]]]; try discriminate; injection H as <-; split; Lra.lra. Qed.
(* extrema family, Option<i32>-like elements: w = 3 > len = 2 with explicit min_periods (5.3 premise, left
   disjunct), and len >= w with omitted min_periods (right disjunct); the mask takes both values *)
Definition C05_Dopt : IsNone (option Z) Z := IsNone_option.
Example C05_example_vmin_both_values :
  ts_vmin (DT := C05_Dopt) true 3 (Some 1) [None; Some 2%Z] = Done [None; Some 2%Z] /\
  (Some 1 <> None \/ 3 <= length [None; Some 2%Z]).
Proof. split; [vm_compute; reflexivity|left; discriminate]. Qed.
Example C05_example_vrank_premises :
  1 <= 2 /\ 1 <= length [Some 5%Z; None; Some 2%Z] /\ ((@None nat) <> None \/ 2 <= length [Some 5%Z; None; Some 2%Z]).
Proof. split; [auto|]. split; [cbn; auto|right; cbn; auto]. Qed.
Example C05_example_window_zero :
  ts_vmin (DT := C05_Dopt) false 0 None [Some 1%Z] = Panicked AssertFail /\
  ts_vmin (DT := C05_Dopt) false 0 None [] = Done [].
Proof. split; vm_compute; reflexivity. Qed.
(* vfdiff: [1, NaN, 3], window 2, min_periods 2: position 1 holds one valid value (null), d = 1/2 *)
Example C05_example_vfdiff :
  exists out, ts_vfdiff (A := XR) true (Some (1 / 2)%R) 2 (Some 2) [Some 1%R; None; Some 3%R] = Done out /\
    (exists o, nth_error out 1 = Some o /\ is_null o = true).
Proof.
  destruct (C05_mask_ts_vfdiff true (1 / 2)%R 2 (Some 2) [Some 1%R; None; Some 3%R] ltac:(auto))
    as (out & H1 & _ & H3).
  exists out. split; [exact H1|exact (H3 1 ltac:(cbn; auto))].
Qed.

Print Assumptions C05_one_output_per_input.
Print Assumptions C05_empty_in_empty_out.
Print Assumptions C05_effective_min_periods.
Print Assumptions C05_mask_ts_vsum.
Print Assumptions C05_mask_ts_vmean.
Print Assumptions C05_mask_ts_vvar.
Print Assumptions C05_mask_ts_vstd.
Print Assumptions C05_mask_ts_vskew.
Print Assumptions C05_mask_ts_vkurt.
Print Assumptions C05_ewm_undefined_iff_no_valid.
Print Assumptions C05_mask_ts_vewm.
Print Assumptions C05_mask_ts_vwma.
Print Assumptions C05_mask_ts_vreg.
Print Assumptions C05_mask_ts_vtsf.
Print Assumptions C05_mask_ts_vreg_slope.
Print Assumptions C05_mask_ts_vreg_intercept.
Print Assumptions C05_mask_ts_vreg_resid_mean.
Print Assumptions C05_mask_ts_vzscore.
Print Assumptions C05_zero_spread_below_two.
Print Assumptions C05_mask_ts_vminmaxnorm.
Print Assumptions C05_mask_ts_vcov.
Print Assumptions C05_mask_ts_vcorr.
Print Assumptions C05_mask_ts_vregx_alpha.
Print Assumptions C05_mask_ts_vregx_beta.
Print Assumptions C05_mask_ts_vregx_all.
Print Assumptions C05_mask_ts_vregx_resid.
Print Assumptions C05_cmp_effective_min_periods.
Print Assumptions C05_cmp_effective_min_periods_stable.
Print Assumptions C05_mask_ts_vmin.
Print Assumptions C05_mask_ts_vmax.
Print Assumptions C05_mask_ts_vargmin.
Print Assumptions C05_mask_ts_vargmax.
Print Assumptions C05_mask_ts_vrank.
Print Assumptions C05_mask_ts_vmin_stable.
Print Assumptions C05_mask_ts_vmax_stable.
Print Assumptions C05_mask_ts_vargmin_stable.
Print Assumptions C05_mask_ts_vargmax_stable.
Print Assumptions C05_mask_ts_vrank_stable.
Print Assumptions C05_mask_ts_fdiff.
Print Assumptions C05_mask_ts_vfdiff.
Print Assumptions C05_index_form_empty_in_empty_out.
Print Assumptions C05_extrema_one_output_per_input.
Print Assumptions C05_rank_one_output_per_input.
Print Assumptions C05_index_form_window_zero_rejected.
Print Assumptions C05_mask_ts_sum.
Print Assumptions C05_mask_ts_mean.
Print Assumptions C05_mask_ts_var.
Print Assumptions C05_mask_ts_std.
Print Assumptions C05_mask_ts_skew.
Print Assumptions C05_mask_ts_kurt.
Print Assumptions C05_mask_ts_ewm.
Print Assumptions C05_mask_ts_wma.

(* ---- (7) X28: the extrema / arg-extrema / rank family at EVERY ordered carrier, incl. binary64 -----------------
   The masks (4f) above are at the integer carrier.  Spec/ExtremaOrd.v states the order laws `OrdLaws A` (a strict weak
   order on the non-NaN elements of the carrier; hypotheses, proved for Z, option R and Coq's primitive binary64 `float`
   in Proofs/CmpOrdInst.v / CmpOrdFloat.v) and Props/C03.v has the closed forms for every such carrier.  Below: the
   null mask, "one output per input / no panic" as corollaries of those closed forms (Proofs/MaskOrd.v), for every null
   dictionary `IsNone T A`, every series whose valid elements are not NaN (`valid_not_nan`: automatic when NaN IS the
   null; for Option<f64> it excludes Some(NaN), DESIGN 5.4), every window >= 1, min_periods, position, both bodies.
   `gvalid W` = the non-null elements of the window.  For ts_vmin / ts_vmax a non-null output is moreover never NaN
   (so for an f64 result "the output is NaN" is exactly the mask).  The DESIGN 5.3 form of the threshold follows by
   rewriting with C05_cmp_effective_min_periods_stable, which is carrier-independent.                            *)
From Tevec Require Import Spec.ExtremaOrd Proofs.CmpOrd Base.F64 Proofs.MaskOrd.
From Coq Require Import PrimFloat.

Theorem C05_mask_ts_vmin_ordered :
  forall (A : Type) (NA : Num A), OrdLaws A ->
  forall (T : Type) (DT : IsNone T A) (body : bool) (w : nat) (mp : option nat) (xs : list T),
    valid_not_nan xs -> 1 <= w -> 1 <= length xs ->
    exists out, ts_vmin body w mp xs = Done out /\ length out = length xs /\
      forall i, i < length xs ->
        exists o, nth_error out i = Some o /\
          onull o = orb (length (gvalid (win w i (map to_opt xs))) <? cmp_mp mp (cmp_window w xs))
                        (length (gvalid (win w i (map to_opt xs))) <? 1) /\
          (forall x, o = Some x -> nisnan x = false).
Proof. intros A NA OL T DT. exact (mask_vmin_ord OL). Qed.

Theorem C05_mask_ts_vmax_ordered :
  forall (A : Type) (NA : Num A), OrdLaws A ->
  forall (T : Type) (DT : IsNone T A) (body : bool) (w : nat) (mp : option nat) (xs : list T),
    valid_not_nan xs -> 1 <= w -> 1 <= length xs ->
    exists out, ts_vmax body w mp xs = Done out /\ length out = length xs /\
      forall i, i < length xs ->
        exists o, nth_error out i = Some o /\
          onull o = orb (length (gvalid (win w i (map to_opt xs))) <? cmp_mp mp (cmp_window w xs))
                        (length (gvalid (win w i (map to_opt xs))) <? 1) /\
          (forall x, o = Some x -> nisnan x = false).
Proof. intros A NA OL T DT. exact (mask_vmax_ord OL). Qed.

Theorem C05_mask_ts_vargmin_ordered :
  forall (A : Type) (NA : Num A), OrdLaws A ->
  forall (T : Type) (DT : IsNone T A) (body : bool) (w : nat) (mp : option nat) (xs : list T),
    valid_not_nan xs -> 1 <= w -> 1 <= length xs ->
    exists out, ts_vargmin body w mp xs = Done out /\ length out = length xs /\
      forall i, i < length xs ->
        exists o, nth_error out i = Some o /\
          onull o = orb (length (gvalid (win w i (map to_opt xs))) <? cmp_mp mp (cmp_window w xs))
                        (length (gvalid (win w i (map to_opt xs))) <? 1).
Proof. intros A NA OL T DT. exact (mask_vargmin_ord OL). Qed.

Theorem C05_mask_ts_vargmax_ordered :
  forall (A : Type) (NA : Num A), OrdLaws A ->
  forall (T : Type) (DT : IsNone T A) (body : bool) (w : nat) (mp : option nat) (xs : list T),
    valid_not_nan xs -> 1 <= w -> 1 <= length xs ->
    exists out, ts_vargmax body w mp xs = Done out /\ length out = length xs /\
      forall i, i < length xs ->
        exists o, nth_error out i = Some o /\
          onull o = orb (length (gvalid (win w i (map to_opt xs))) <? cmp_mp mp (cmp_window w xs))
                        (length (gvalid (win w i (map to_opt xs))) <? 1).
Proof. intros A NA OL T DT. exact (mask_vargmax_ord OL). Qed.

(* rolling rank, comparisons of the carrier A, rank arithmetic in option R *)
Theorem C05_mask_ts_vrank_ordered :
  forall (A : Type) (NA : Num A), OrdLaws A ->
  forall (T : Type) (DT : IsNone T A) (body : bool) (w : nat) (mp : option nat) (pct rev : bool) (xs : list T),
    valid_not_nan xs -> 1 <= w -> 1 <= length xs ->
    exists out, ts_vrank (B := XR) body w mp pct rev xs = Done out /\ length out = length xs /\
      forall i, i < length xs ->
        exists o, nth_error out i = Some o /\
          is_null o = orb (null_at (map to_opt xs) i)
                          (length (gvalid (win w i (map to_opt xs))) <? cmp_mp mp (cmp_window w xs)).
Proof. intros A NA OL T DT. exact (mask_vrank_ord OL). Qed.

(* every series (the empty one included), every window >= 1 (window > len included), both bodies: a fully written
   output of the input length, no panic *)
Theorem C05_extrema_one_output_per_input_ordered :
  forall (A : Type) (NA : Num A), OrdLaws A ->
  forall (T : Type) (DT : IsNone T A) (body : bool) (w : nat) (mp : option nat) (xs : list T),
    valid_not_nan xs -> 1 <= w ->
    (exists out, ts_vmin body w mp xs = Done out /\ length out = length xs) /\
    (exists out, ts_vmax body w mp xs = Done out /\ length out = length xs) /\
    (exists out, ts_vargmin body w mp xs = Done out /\ length out = length xs) /\
    (exists out, ts_vargmax body w mp xs = Done out /\ length out = length xs).
Proof. intros A NA OL T DT. exact (extrema_total_ord OL). Qed.

(* ts_vrank needs NO law and NO premise on the series for this, and holds for every OUTPUT carrier B too (in
   particular input and output binary64): its counter is the valid count of the window, a fact about `not_none` alone.
   This closes "ts_vrank length / no-panic is proved with the output arithmetic in XR only". *)
Theorem C05_rank_one_output_per_input_any_carrier :
  forall (A : Type) (NA : Num A) (T : Type) (DT : IsNone T A) (B : Type) (NB : Num B)
         (body : bool) (w : nat) (mp : option nat) (pct rev : bool) (xs : list T),
    1 <= w -> exists out, ts_vrank (B := B) body w mp pct rev xs = Done out /\ length out = length xs.
Proof. intros A NA T DT B NB. exact rank_total_any. Qed.

(* binary64, f64 series with NaN as the null: no premise on the series *)
Theorem C05_mask_ts_vmin_binary64 :
  forall (body : bool) (w : nat) (mp : option nat) (xs : list float),
    1 <= w -> 1 <= length xs ->
    exists out, ts_vmin (DT := IsNoneF64) body w mp xs = Done out /\ length out = length xs /\
      forall i, i < length xs ->
        exists o, nth_error out i = Some o /\
          onull o = orb (length (gvalid (win w i (map to_opt xs))) <? cmp_mp mp (cmp_window w xs))
                        (length (gvalid (win w i (map to_opt xs))) <? 1) /\
          (forall x, o = Some x -> nisnan x = false).
Proof. exact mask_vmin_f64. Qed.

Theorem C05_mask_ts_vmax_binary64 :
  forall (body : bool) (w : nat) (mp : option nat) (xs : list float),
    1 <= w -> 1 <= length xs ->
    exists out, ts_vmax (DT := IsNoneF64) body w mp xs = Done out /\ length out = length xs /\
      forall i, i < length xs ->
        exists o, nth_error out i = Some o /\
          onull o = orb (length (gvalid (win w i (map to_opt xs))) <? cmp_mp mp (cmp_window w xs))
                        (length (gvalid (win w i (map to_opt xs))) <? 1) /\
          (forall x, o = Some x -> nisnan x = false).
Proof. exact mask_vmax_f64. Qed.

Theorem C05_mask_ts_vargmin_binary64 :
  forall (body : bool) (w : nat) (mp : option nat) (xs : list float),
    1 <= w -> 1 <= length xs ->
    exists out, ts_vargmin (DT := IsNoneF64) body w mp xs = Done out /\ length out = length xs /\
      forall i, i < length xs ->
        exists o, nth_error out i = Some o /\
          onull o = orb (length (gvalid (win w i (map to_opt xs))) <? cmp_mp mp (cmp_window w xs))
                        (length (gvalid (win w i (map to_opt xs))) <? 1).
Proof. exact mask_vargmin_f64. Qed.

Theorem C05_mask_ts_vargmax_binary64 :
  forall (body : bool) (w : nat) (mp : option nat) (xs : list float),
    1 <= w -> 1 <= length xs ->
    exists out, ts_vargmax (DT := IsNoneF64) body w mp xs = Done out /\ length out = length xs /\
      forall i, i < length xs ->
        exists o, nth_error out i = Some o /\
          onull o = orb (length (gvalid (win w i (map to_opt xs))) <? cmp_mp mp (cmp_window w xs))
                        (length (gvalid (win w i (map to_opt xs))) <? 1).
Proof. exact mask_vargmax_f64. Qed.

Theorem C05_mask_ts_vrank_binary64_input :
  forall (body : bool) (w : nat) (mp : option nat) (pct rev : bool) (xs : list float),
    1 <= w -> 1 <= length xs ->
    exists out, ts_vrank (DT := IsNoneF64) (B := XR) body w mp pct rev xs = Done out /\ length out = length xs /\
      forall i, i < length xs ->
        exists o, nth_error out i = Some o /\
          is_null o = orb (null_at (map to_opt xs) i)
                          (length (gvalid (win w i (map to_opt xs))) <? cmp_mp mp (cmp_window w xs)).
Proof. exact mask_vrank_f64_input. Qed.

Theorem C05_extrema_one_output_per_input_binary64 :
  forall (body : bool) (w : nat) (mp : option nat) (xs : list float), 1 <= w ->
    (exists out, ts_vmin (DT := IsNoneF64) body w mp xs = Done out /\ length out = length xs) /\
    (exists out, ts_vmax (DT := IsNoneF64) body w mp xs = Done out /\ length out = length xs) /\
    (exists out, ts_vargmin (DT := IsNoneF64) body w mp xs = Done out /\ length out = length xs) /\
    (exists out, ts_vargmax (DT := IsNoneF64) body w mp xs = Done out /\ length out = length xs).
Proof. exact extrema_total_f64. Qed.

(* binary64, Option<f64> series (only `None` is null) under the premise of DESIGN 5.4: no element is Some(NaN) *)
Theorem C05_mask_cmp_family_option_binary64 :
  forall (body : bool) (w : nat) (mp : option nat) (xs : list (option float)),
    valid_not_nan (DT := IsNoneOptF64) xs -> 1 <= w -> 1 <= length xs ->
    (exists out, ts_vmin (DT := IsNoneOptF64) body w mp xs = Done out /\ length out = length xs /\
       forall i, i < length xs ->
         exists o, nth_error out i = Some o /\
           onull o = orb (length (gvalid (win w i (map to_opt xs))) <? cmp_mp mp (cmp_window w xs))
                         (length (gvalid (win w i (map to_opt xs))) <? 1) /\
           (forall x, o = Some x -> nisnan x = false)) /\
    (exists out, ts_vmax (DT := IsNoneOptF64) body w mp xs = Done out /\ length out = length xs /\
       forall i, i < length xs ->
         exists o, nth_error out i = Some o /\
           onull o = orb (length (gvalid (win w i (map to_opt xs))) <? cmp_mp mp (cmp_window w xs))
                         (length (gvalid (win w i (map to_opt xs))) <? 1) /\
           (forall x, o = Some x -> nisnan x = false)) /\
    (exists out, ts_vargmin (DT := IsNoneOptF64) body w mp xs = Done out /\ length out = length xs /\
       forall i, i < length xs ->
         exists o, nth_error out i = Some o /\
           onull o = orb (length (gvalid (win w i (map to_opt xs))) <? cmp_mp mp (cmp_window w xs))
                         (length (gvalid (win w i (map to_opt xs))) <? 1)) /\
    (exists out, ts_vargmax (DT := IsNoneOptF64) body w mp xs = Done out /\ length out = length xs /\
       forall i, i < length xs ->
         exists o, nth_error out i = Some o /\
           onull o = orb (length (gvalid (win w i (map to_opt xs))) <? cmp_mp mp (cmp_window w xs))
                         (length (gvalid (win w i (map to_opt xs))) <? 1)) /\
    (forall pct rev,
     exists out, ts_vrank (DT := IsNoneOptF64) (B := XR) body w mp pct rev xs = Done out /\ length out = length xs /\
       forall i, i < length xs ->
         exists o, nth_error out i = Some o /\
           is_null o = orb (null_at (map to_opt xs) i)
                           (length (gvalid (win w i (map to_opt xs))) <? cmp_mp mp (cmp_window w xs))).
Proof. exact mask_cmp_optf64. Qed.

Theorem C05_extrema_one_output_per_input_option_binary64 :
  forall (body : bool) (w : nat) (mp : option nat) (xs : list (option float)),
    valid_not_nan (DT := IsNoneOptF64) xs -> 1 <= w ->
    (exists out, ts_vmin (DT := IsNoneOptF64) body w mp xs = Done out /\ length out = length xs) /\
    (exists out, ts_vmax (DT := IsNoneOptF64) body w mp xs = Done out /\ length out = length xs) /\
    (exists out, ts_vargmin (DT := IsNoneOptF64) body w mp xs = Done out /\ length out = length xs) /\
    (exists out, ts_vargmax (DT := IsNoneOptF64) body w mp xs = Done out /\ length out = length xs).
Proof. exact extrema_total_optf64. Qed.

(* the premise cannot be dropped: on Some(NaN) elements the model of ts_vargmin does not return at all (cf.
   C03_some_nan_is_outside_the_property), so there is no output to have a length or a mask *)
Theorem C05_some_nan_is_outside_the_property :
  ~ (exists out, ts_vargmin (DT := IsNoneOptF64) true 2 (Some 0) [Some nan; Some nan; Some nan] = Done out) /\
  ~ valid_not_nan (DT := IsNoneOptF64) [Some nan; Some nan; Some nan].
Proof. exact optf64_some_nan_no_output. Qed.

(* non-vacuity.  Premise `OrdLaws A`: C03_order_laws_Z / _real / _binary64 (here: binary64).  Premise `valid_not_nan`
   on an Option<f64> series; the f64 masks evaluated: the mask takes both values, +0 / -0 tie, expiring extreme *)
Example C05_example_ordered_premises_binary64 :
  OrdLaws float /\
  valid_not_nan (DT := IsNoneOptF64) [Some 1%float; None; Some 3%float] /\ 1 <= 2 /\
  1 <= length [Some 1%float; None; Some 3%float].
Proof.
  split; [exact Proofs.CmpOrdFloat.ordlaws_F64|]. split; [|split; repeat constructor].
  intros v [<-|[<-|[<-|[]]]] H; try discriminate; reflexivity.
Qed.
Example C05_example_mask_binary64_both_values :
  let xs := [nan; 1%float; nan; nan; (-0)%float; 0%float] in
  1 <= 2 /\ 1 <= length xs /\
  ts_vmin (DT := IsNoneF64) true 2 (Some 1) xs = Done [None; Some 1%float; Some 1%float; None; Some (-0)%float; Some 0%float] /\
  map (fun i => orb (length (gvalid (win 2 i (map (to_opt (H := IsNoneF64)) xs))) <? 1)
                    (length (gvalid (win 2 i (map (to_opt (H := IsNoneF64)) xs))) <? 1)) (seq 0 6)
  = [true; false; false; true; false; false].
Proof. intros xs. split; [repeat constructor|]. split; [repeat constructor|]. split; vm_compute; reflexivity. Qed.
Example C05_example_mask_option_binary64 :
  ts_vargmax (DT := IsNoneOptF64) false 2 None [None; Some 2%float; None; None] = Done [None; Some 2; Some 1; None] /\
  ts_vrank (DT := IsNoneOptF64) (B := float) false 2 (Some 2) false false [Some 2%float; Some 1%float; None]
  = Done [nan; 1%float; nan].
Proof. split; vm_compute; reflexivity. Qed.

Print Assumptions C05_mask_ts_vmin_ordered.
Print Assumptions C05_mask_ts_vmax_ordered.
Print Assumptions C05_mask_ts_vargmin_ordered.
Print Assumptions C05_mask_ts_vargmax_ordered.
Print Assumptions C05_mask_ts_vrank_ordered.
Print Assumptions C05_extrema_one_output_per_input_ordered.
Print Assumptions C05_rank_one_output_per_input_any_carrier.
Print Assumptions C05_mask_ts_vmin_binary64.
Print Assumptions C05_mask_ts_vmax_binary64.
Print Assumptions C05_mask_ts_vargmin_binary64.
Print Assumptions C05_mask_ts_vargmax_binary64.
Print Assumptions C05_mask_ts_vrank_binary64_input.
Print Assumptions C05_extrema_one_output_per_input_binary64.
Print Assumptions C05_mask_cmp_family_option_binary64.
Print Assumptions C05_extrema_one_output_per_input_option_binary64.
Print Assumptions C05_some_nan_is_outside_the_property.

(* ==================================================================================================================
   (8) AUDIT (notes/C05.md "Audit matrix"; proofs: Proofs/Audit05.v).  What the clause-by-clause audit found missing:
       (8a) window 0 for every entry point;  (8b) huge windows: every window beyond the length behaves like len + 1
       (this is the equivalence the correspondence run relies on when it runs the code at w = 2^40 .. usize::MAX and the
       model at w = len + 1);  (8c) the two-series functions on series of unequal length;  (8d) "null below
       min_periods" at EVERY carrier without any order law for the entry points that had it at ordered carriers or
       option R only;  (8e) min_periods above the window;  (8f) the outcome shape of every entry point.
   ================================================================================================================== *)
From Tevec Require Import Proofs.IdxRun Proofs.Kernels3 Proofs.Features2 Proofs.Audit01 Proofs.Audit03 Proofs.Audit04 Proofs.Audit05.

(* (8a) window 0.  Every add-emit-remove entry point (the 8 null-aware and 8 plain moments / weighted means, z-score,
   the 5 time-trend regressions: any feature F), the 5 two-series cross-sum entry points (any F over pairs), the 3
   residual statistics, and the index-form family: the empty result iff the (first) series is empty, else the driver's
   `assert!(window > 0 || len == 0)` — both bodies, every carrier.  The two fractional differences are the exception:
   their iterator body computes `window - 1` first and panics with "subtract with overflow" EVEN ON THE EMPTY SERIES. *)
Theorem C05_window_zero_every_entry_point :
  forall (A : Type) (NA : Num A) (T : Type) (DT : IsNone T A) (T2 : Type) (D2 : IsNone T2 A),
    (forall (St O : Type) (F : feat T St O) (body : bool) (xs : list T),
        ts_run F body 0 xs = match xs with [] => Done [] | _ :: _ => Panicked AssertFail end) /\
    (forall (St O : Type) (F : feat (T * T2) St O) (body : bool) (xs : list T) (ys : list T2),
        ts_run2 F body 0 xs ys = match xs with [] => Done [] | _ :: _ => Panicked AssertFail end) /\
    (forall (k : rstat) (body : bool) (mp : option nat) (xs : list T) (ys : list T2),
        ts_vregx_resid k body 0 mp xs ys = match xs with [] => Done [] | _ :: _ => Panicked AssertFail end) /\
    (forall (B : Type) (NB : Num B) (body : bool) (mp : option nat) (pct rev : bool) (tmin tmax : A) (xs : list T),
        xs <> [] ->
        ts_vmin body 0 mp xs = Panicked AssertFail /\ ts_vmax body 0 mp xs = Panicked AssertFail /\
        ts_vargmin body 0 mp xs = Panicked AssertFail /\ ts_vargmax body 0 mp xs = Panicked AssertFail /\
        ts_vrank (B := B) body 0 mp pct rev xs = Panicked AssertFail /\
        ts_vminmaxnorm tmin tmax body 0 mp xs = Panicked AssertFail) /\
    (forall (d : A) (cast : T -> A) (mp : option nat) (xs : list T),
        ts_fdiff false d 0 cast xs = Panicked Underflow /\ ts_vfdiff false d 0 mp xs = Panicked Underflow /\
        (xs <> [] -> ts_fdiff true d 0 cast xs = Panicked AssertFail /\ ts_vfdiff true d 0 mp xs = Panicked AssertFail)).
Proof.
  intros A NA T DT T2 D2.
  split; [intros St O F body xs; apply Audit01.ts_run_window0|].
  split; [intros St O F body xs ys; apply ts_run2_window0|].
  split; [intros k body mp xs ys; apply resid_window0|].
  split.
  - intros B NB body mp pct rev tmin tmax xs Hx.
    split; [apply (cmp_family_window0 sort_cmp); exact Hx|]. split; [apply (cmp_family_window0 sort_cmp_rev); exact Hx|].
    split; [apply (cmp_family_window0 sort_cmp); exact Hx|]. split; [apply (cmp_family_window0 sort_cmp_rev); exact Hx|].
    split; [apply vrank_window0; exact Hx|apply minmaxnorm_window0; exact Hx].
  - intros d cast mp xs. apply fdiff_window0.
Qed.

(* (8b) huge windows.  (i) The driver: a feature run under ANY two windows beyond the length gives the same outcome (no
   element is ever removed) and its window at position i is the whole prefix 0..=i.  (ii) The closures: with an EXPLICIT
   min_periods the gate `min(mp, w) raised to k <= n` cannot tell two such windows apart, since n <= len < w.  Hence
   for every w > len — w = 2^40, usize::MAX included — the call IS the call at w = len + 1: same panic / same outputs, for
   every carrier (binary64 bit for bit), null dictionary (the plain twins are the instance IsNone_never) and both bodies. *)
Theorem C05_huge_window_same_feature :
  forall (T St O : Type) (F : feat T St O) (body : bool) (w1 w2 : nat) (xs : list T),
    length xs < w1 -> length xs < w2 -> ts_run F body w1 xs = ts_run F body w2 xs.
Proof. exact @ts_run_large_window. Qed.

Theorem C05_huge_window_is_expanding :
  forall (T : Type) (w i : nat) (xs : list T), length xs < w -> i < length xs -> win w i xs = firstn (S i) xs.
Proof. exact @win_large. Qed.

Theorem C05_huge_window_moments :
  forall (A : Type) (NA : Num A) (T : Type) (DT : IsNone T A) (body : bool) (w1 w2 m : nat) (xs : list T),
    length xs < w1 -> length xs < w2 ->
    ts_run (ts_vsum_f w1 (Some m)) body w1 xs = ts_run (ts_vsum_f w2 (Some m)) body w2 xs /\
    ts_run (ts_vmean_f w1 (Some m)) body w1 xs = ts_run (ts_vmean_f w2 (Some m)) body w2 xs /\
    ts_run (ts_vvar_f w1 (Some m)) body w1 xs = ts_run (ts_vvar_f w2 (Some m)) body w2 xs /\
    ts_run (ts_vstd_f w1 (Some m)) body w1 xs = ts_run (ts_vstd_f w2 (Some m)) body w2 xs /\
    ts_run (ts_vskew_f w1 (Some m)) body w1 xs = ts_run (ts_vskew_f w2 (Some m)) body w2 xs /\
    ts_run (ts_vkurt_f w1 (Some m)) body w1 xs = ts_run (ts_vkurt_f w2 (Some m)) body w2 xs.
Proof. intros A NA T DT. exact huge_window_moments. Qed.

Theorem C05_huge_window_wma_zscore :
  forall (A : Type) (NA : Num A) (T : Type) (DT : IsNone T A) (body : bool) (w1 w2 m : nat) (xs : list T),
    length xs < w1 -> length xs < w2 ->
    ts_run (ts_vwma_f w1 (Some m)) body w1 xs = ts_run (ts_vwma_f w2 (Some m)) body w2 xs /\
    ts_vzscore body w1 (Some m) xs = ts_vzscore body w2 (Some m) xs.
Proof.
  intros A NA T DT body w1 w2 m xs H1 H2. split; [apply huge_window_wma|apply huge_window_zscore]; assumption.
Qed.

Theorem C05_huge_window_trend :
  forall (A : Type) (NA : Num A) (T : Type) (DT : IsNone T A) (body : bool) (w1 w2 m : nat) (xs : list T),
    length xs < w1 -> length xs < w2 ->
    ts_run (ts_vreg_f w1 (Some m)) body w1 xs = ts_run (ts_vreg_f w2 (Some m)) body w2 xs /\
    ts_run (ts_vtsf_f w1 (Some m)) body w1 xs = ts_run (ts_vtsf_f w2 (Some m)) body w2 xs /\
    ts_run (ts_vreg_slope_f w1 (Some m)) body w1 xs = ts_run (ts_vreg_slope_f w2 (Some m)) body w2 xs /\
    ts_run (ts_vreg_intercept_f w1 (Some m)) body w1 xs = ts_run (ts_vreg_intercept_f w2 (Some m)) body w2 xs /\
    ts_run (ts_vreg_resid_mean_f w1 (Some m)) body w1 xs = ts_run (ts_vreg_resid_mean_f w2 (Some m)) body w2 xs.
Proof. intros A NA T DT. exact huge_window_trends. Qed.

Theorem C05_huge_window_two_series :
  forall (A : Type) (NA : Num A) (T1 : Type) (D1 : IsNone T1 A) (T2 : Type) (D2 : IsNone T2 A)
         (body : bool) (w1 w2 m : nat) (xs : list T1) (ys : list T2),
    length xs < w1 -> length xs < w2 ->
    ts_run2 (ts_vcov_f (D1 := D1) (D2 := D2) w1 (Some m)) body w1 xs ys
      = ts_run2 (ts_vcov_f (D1 := D1) (D2 := D2) w2 (Some m)) body w2 xs ys /\
    ts_run2 (ts_vcorr_f (D1 := D1) (D2 := D2) w1 (Some m)) body w1 xs ys
      = ts_run2 (ts_vcorr_f (D1 := D1) (D2 := D2) w2 (Some m)) body w2 xs ys /\
    ts_run2 (ts_vregx_alpha_f (D1 := D1) (D2 := D2) w1 (Some m)) body w1 xs ys
      = ts_run2 (ts_vregx_alpha_f (D1 := D1) (D2 := D2) w2 (Some m)) body w2 xs ys /\
    ts_run2 (ts_vregx_beta_f (D1 := D1) (D2 := D2) w1 (Some m)) body w1 xs ys
      = ts_run2 (ts_vregx_beta_f (D1 := D1) (D2 := D2) w2 (Some m)) body w2 xs ys /\
    ts_run2 (ts_vregx_all_f (D1 := D1) (D2 := D2) w1 (Some m)) body w1 xs ys
      = ts_run2 (ts_vregx_all_f (D1 := D1) (D2 := D2) w2 (Some m)) body w2 xs ys.
Proof. intros A NA T1 D1 T2 D2. exact huge_window_two_series. Qed.

(* the index-form entry points whose window is not clamped *)
Theorem C05_huge_window_minmaxnorm_resid :
  forall (A : Type) (NA : Num A) (T1 : Type) (D1 : IsNone T1 A) (T2 : Type) (D2 : IsNone T2 A)
         (body : bool) (w1 w2 m : nat) (xs : list T1) (ys : list T2),
    length xs < w1 -> length xs < w2 ->
    (forall tmin tmax : A, ts_vminmaxnorm tmin tmax body w1 (Some m) xs = ts_vminmaxnorm tmin tmax body w2 (Some m) xs) /\
    (forall k : rstat, ts_vregx_resid (D1 := D1) (D2 := D2) k body w1 (Some m) xs ys
                       = ts_vregx_resid (D1 := D1) (D2 := D2) k body w2 (Some m) xs ys).
Proof.
  intros A NA T1 D1 T2 D2 body w1 w2 m xs ys H1 H2.
  split; [intros tmin tmax; apply huge_window_minmaxnorm|intros k; apply huge_window_resid]; assumption.
Qed.

(* the extrema / arg-extrema / rank family clamps the window to the length: EVERY w >= len is w = len — for an omitted
   min_periods too (this is also C03_window_clamped_to_length) *)
Theorem C05_huge_window_cmp_family :
  forall (A : Type) (NA : Num A) (T : Type) (DT : IsNone T A) (body : bool) (w : nat) (mp : option nat) (xs : list T),
    length xs <= w ->
    ts_vmin body w mp xs = ts_vmin body (length xs) mp xs /\
    ts_vmax body w mp xs = ts_vmax body (length xs) mp xs /\
    ts_vargmin body w mp xs = ts_vargmin body (length xs) mp xs /\
    ts_vargmax body w mp xs = ts_vargmax body (length xs) mp xs /\
    (forall (B : Type) (NB : Num B) (pct rev : bool),
        ts_vrank (B := B) body w mp pct rev xs = ts_vrank (B := B) body (length xs) mp pct rev xs).
Proof. intros A NA T DT. exact huge_window_cmp_family. Qed.

(* the two restrictions are needed: an omitted min_periods is floor(w/2) and grows with the window (so for w >= 2 len + 2
   every output is null), and the weights of the exponentially weighted mean are powers of 1 - 2/w *)
Theorem C05_huge_window_needs_explicit_min_periods :
  ts_run (ts_vsum_f (A := Z) (DT := IsNone_option) 3 None) true 3 [Some 1%Z; Some 2%Z]
  <> ts_run (ts_vsum_f (A := Z) (DT := IsNone_option) 9 None) true 9 [Some 1%Z; Some 2%Z].
Proof. exact huge_window_omitted_differs. Qed.
Theorem C05_huge_window_not_for_ewm :
  ts_run (ts_vewm_f (A := Z) (DT := IsNone_option) 2 (Some 1)) true 2 [Some 5%Z]
  <> ts_run (ts_vewm_f (A := Z) (DT := IsNone_option) 3 (Some 1)) true 3 [Some 5%Z].
Proof. exact huge_window_ewm_differs. Qed.

(* (8c) two-series functions on series of UNEQUAL length.  Accepted inputs: the iterator body (returned result of a
   non-Vec backend) takes any lengths and silently stops at the shorter series; the index body (Vec / ndarray / caller
   buffer) asserts `other.len() >= len` first (C04_two_series_first_failing_check has the order of the checks).  On
   every accepted input the masks (4e) hold on the common prefix — the hypothesis `length xs = length ys` is dropped. *)
Theorem C05_two_series_every_input :
  forall (T1 T2 St O : Type) (F : feat (T1 * T2) St O) (body : bool) (w : nat) (xs : list T1) (ys : list T2),
    match check2 body w xs ys with
    | Some g => ts_run2 F body w xs ys = Panicked (guard_kind g)
    | None => exists l, ts_run2 F body w xs ys = Done l /\ length l = Nat.min (length xs) (length ys)
    end.
Proof. exact @ts_run2_by_check. Qed.

(* "exactly one output per input element" is therefore FALSE of the first series when the second is shorter and the
   iterator body runs: fewer outputs than inputs, no panic (replayed on the real code by the C04 / C05 runs) *)
Theorem C05_shorter_second_series_iterator_body_fewer_outputs :
  forall (T1 T2 St O : Type) (F : feat (T1 * T2) St O) (w : nat) (xs : list T1) (ys : list T2),
    1 <= w -> length ys < length xs ->
    exists out, ts_run2 F false w xs ys = Done out /\ length out = length ys /\ length out < length xs.
Proof. exact @shorter_second_iterator_truncates. Qed.

Theorem C05_mask_ts_vcov_any_lengths :
  forall (body : bool) (w : nat) (mp : option nat) (xs ys : list XR),
    1 <= w -> (body = false \/ length xs <= length ys) ->
    exists out, ts_run2 (ts_vcov_f w mp) body w xs ys = Done out /\ length out = Nat.min (length xs) (length ys) /\
      forall i, i < Nat.min (length xs) (length ys) ->
        exists o, nth_error out i = Some o /\
          is_null o = (length (pairs (win w i xs) (win w i ys)) <? mp_eff mp w 2).
Proof. exact mask_vcov_any_lengths. Qed.

Theorem C05_mask_ts_vcorr_any_lengths :
  forall (body : bool) (w : nat) (mp : option nat) (xs ys : list XR),
    1 <= w -> (body = false \/ length xs <= length ys) ->
    exists out, ts_run2 (ts_vcorr_f w mp) body w xs ys = Done out /\ length out = Nat.min (length xs) (length ys) /\
      forall i, i < Nat.min (length xs) (length ys) ->
        exists o, nth_error out i = Some o /\
          (is_null o = true <->
           length (pairs (win w i xs) (win w i ys)) < mp_eff mp w 0 \/
           (popvarR (map fst (pairs (win w i xs) (win w i ys))) <= EPS)%R \/
           (popvarR (map snd (pairs (win w i xs) (win w i ys))) <= EPS)%R).
Proof. exact mask_vcorr_any_lengths. Qed.

Theorem C05_mask_ts_vregx_any_lengths :
  forall (body : bool) (w : nat) (mp : option nat) (xs ys : list XR),
    1 <= w -> (body = false \/ length xs <= length ys) ->
    (exists out, ts_run2 (ts_vregx_alpha_f w mp) body w xs ys = Done out /\ length out = Nat.min (length xs) (length ys) /\
       forall i, i < Nat.min (length xs) (length ys) ->
         exists o, nth_error out i = Some o /\
           (is_null o = true <->
            length (pairs (win w i xs) (win w i ys)) < mp_eff mp w 0 \/ detB (pairs (win w i xs) (win w i ys)) = 0%R)) /\
    (exists out, ts_run2 (ts_vregx_beta_f w mp) body w xs ys = Done out /\ length out = Nat.min (length xs) (length ys) /\
       forall i, i < Nat.min (length xs) (length ys) ->
         exists o, nth_error out i = Some o /\
           (is_null o = true <->
            length (pairs (win w i xs) (win w i ys)) < mp_eff mp w 0 \/ detB (pairs (win w i xs) (win w i ys)) = 0%R)) /\
    (exists out, ts_run2 (ts_vregx_all_f w mp) body w xs ys = Done out /\ length out = Nat.min (length xs) (length ys) /\
       forall i, i < Nat.min (length xs) (length ys) ->
         exists o, nth_error out i = Some o /\
           (is_null (fst (fst o)) = true <->
            length (pairs (win w i xs) (win w i ys)) < mp_eff mp w 0 \/ detB (pairs (win w i xs) (win w i ys)) = 0%R) /\
           (is_null (snd (fst o)) = true <->
            length (pairs (win w i xs) (win w i ys)) < mp_eff mp w 0 \/ detB (pairs (win w i xs) (win w i ys)) = 0%R) /\
           (is_null (snd o) = true <->
            length (pairs (win w i xs) (win w i ys)) < mp_eff mp w 0 \/ detB (pairs (win w i xs) (win w i ys)) = 0%R)).
Proof. exact mask_vregx_any_lengths. Qed.

Theorem C05_mask_ts_vregx_resid_any_lengths :
  forall (k : rstat) (body : bool) (w : nat) (mp : option nat) (xs ys : list XR),
    1 <= w -> (body = false \/ length xs <= length ys) ->
    exists out, ts_vregx_resid k body w mp xs ys = Done out /\ length out = Nat.min (length xs) (length ys) /\
      forall i, i < Nat.min (length xs) (length ys) ->
        exists o, nth_error out i = Some o /\
          (is_null o = true <->
           length (pairs (win w i xs) (win w i ys)) < mp_eff mp w 0 \/ detB (pairs (win w i xs) (win w i ys)) = 0%R \/
           (k = RSkew /\ length (pairs (win w i xs) (win w i ys)) < 3)).
Proof. exact mask_vregx_resid_any_lengths. Qed.

(* (8d) "null below min_periods" at EVERY carrier — no order law, no premise on the data.  `nvalid_win w i xs` = number of
   non-null elements of the window.  ts_vmin / ts_vmax: in particular on Option<f64> series WITH Some(NaN) elements (which
   the ordered theorems (7) exclude); ts_vargmin / ts_vargmax need that a non-null element equals itself (`self_eq_on`:
   every integer, every f64 series with NaN as the null; false only for Some(NaN), where the model does not return);
   ts_vminmaxnorm: whatever the sentinels; ts_vfdiff: whatever the order d (a null d included).  For the other families
   the same statement is C01_below_min_periods_is_nan_every_carrier (8 moment / weighted entry points),
   C03_zscore_nan_every_carrier, C04_below_min_periods_null_any_carrier (cov, corr, regx alpha / beta / all),
   C04_trend_below_min_periods_null_any_carrier, C04_resid_below_min_periods_null_any_carrier; ts_vrank:
   C06_ts_vrank_is_a_function_of_the_window. *)
Theorem C05_below_min_periods_null_every_carrier_extrema :
  forall (A : Type) (NA : Num A) (T : Type) (DT : IsNone T A) (body : bool) (w : nat) (mp : option nat) (xs : list T),
    1 <= w ->
    (exists out, ts_vmin body w mp xs = Done out /\ length out = length xs /\
       forall i, i < length xs -> nvalid_win w i xs < cmp_mp mp (cmp_window w xs) -> nth_error out i = Some None) /\
    (exists out, ts_vmax body w mp xs = Done out /\ length out = length xs /\
       forall i, i < length xs -> nvalid_win w i xs < cmp_mp mp (cmp_window w xs) -> nth_error out i = Some None).
Proof. intros A NA T DT body w mp xs Hw. split; apply ts_vext_below_null; exact Hw. Qed.

Theorem C05_below_min_periods_null_every_carrier_arg_extrema :
  forall (A : Type) (NA : Num A) (T : Type) (DT : IsNone T A) (body : bool) (w : nat) (mp : option nat) (xs : list T),
    1 <= w -> self_eq_on xs ->
    (exists out, ts_vargmin body w mp xs = Done out /\ length out = length xs /\
       forall i, i < length xs -> nvalid_win w i xs < cmp_mp mp (cmp_window w xs) -> nth_error out i = Some None) /\
    (exists out, ts_vargmax body w mp xs = Done out /\ length out = length xs /\
       forall i, i < length xs -> nvalid_win w i xs < cmp_mp mp (cmp_window w xs) -> nth_error out i = Some None).
Proof.
  intros A NA T DT body w mp xs Hw Hs.
  split; apply ts_varg_below_null; try exact Hw; [apply sort_cmp_refl_on|apply sort_cmp_rev_refl_on]; exact Hs.
Qed.

Theorem C05_below_min_periods_null_every_carrier_minmaxnorm :
  forall (A : Type) (NA : Num A) (T : Type) (DT : IsNone T A) (tmin tmax : A) (body : bool) (w : nat)
         (mp : option nat) (xs : list T),
    1 <= w ->
    exists out, ts_vminmaxnorm tmin tmax body w mp xs = Done out /\ length out = length xs /\
      forall i, i < length xs -> nvalid_win w i xs < mp_eff mp w 0 -> nth_error out i = Some nnan.
Proof. intros A NA T DT. exact ts_vminmaxnorm_below_null. Qed.

Theorem C05_below_min_periods_null_every_carrier_vfdiff :
  forall (A : Type) (NA : Num A) (T : Type) (DT : IsNone T A) (body : bool) (d : A) (w : nat) (mp : option nat)
         (xs : list T),
    1 <= w ->
    exists out, ts_vfdiff body d w mp xs = Done out /\ length out = length xs /\
      forall i, i < length xs -> nvalid_win w i xs < mp_eff mp w 0 -> nth_error out i = Some nnan.
Proof. intros A NA T DT. exact ts_vfdiff_below_null. Qed.

(* (8e) min_periods above the window.  Every entry point with `.min(window)` treats it as min_periods = window (the 8
   moment / weighted entry points: C01_min_periods_above_window; here the other 17): the SAME feature record / the same
   call.  The extrema / rank family does not clamp: every output is null (C03_min_periods_above_window_all_null). *)
Theorem C05_min_periods_above_window :
  forall (A : Type) (NA : Num A) (T : Type) (DT : IsNone T A) (T2 : Type) (D2 : IsNone T2 A) (w m : nat),
    w <= m ->
    ts_vzscore_f (DT := DT) w (Some m) = ts_vzscore_f w (Some w) /\
    ts_vreg_f (DT := DT) w (Some m) = ts_vreg_f w (Some w) /\
    ts_vtsf_f (DT := DT) w (Some m) = ts_vtsf_f w (Some w) /\
    ts_vreg_slope_f (DT := DT) w (Some m) = ts_vreg_slope_f w (Some w) /\
    ts_vreg_intercept_f (DT := DT) w (Some m) = ts_vreg_intercept_f w (Some w) /\
    ts_vreg_resid_mean_f (DT := DT) w (Some m) = ts_vreg_resid_mean_f w (Some w) /\
    ts_vcov_f (D1 := DT) (D2 := D2) w (Some m) = ts_vcov_f w (Some w) /\
    ts_vcorr_f (D1 := DT) (D2 := D2) w (Some m) = ts_vcorr_f w (Some w) /\
    ts_vregx_alpha_f (D1 := DT) (D2 := D2) w (Some m) = ts_vregx_alpha_f w (Some w) /\
    ts_vregx_beta_f (D1 := DT) (D2 := D2) w (Some m) = ts_vregx_beta_f w (Some w) /\
    ts_vregx_all_f (D1 := DT) (D2 := D2) w (Some m) = ts_vregx_all_f w (Some w) /\
    (forall tmin tmax body xs, ts_vminmaxnorm (DT := DT) tmin tmax body w (Some m) xs
                               = ts_vminmaxnorm tmin tmax body w (Some w) xs) /\
    (forall k body xs ys, ts_vregx_resid (D1 := DT) (D2 := D2) k body w (Some m) xs ys
                          = ts_vregx_resid k body w (Some w) xs ys) /\
    (forall body d xs, ts_vfdiff (DT := DT) body d w (Some m) xs = ts_vfdiff body d w (Some w) xs).
Proof. intros A NA T DT T2 D2. exact min_periods_above_window_rest. Qed.

(* (8f) the outcome shape of the one-series entry points on EVERY input and carrier: a fully written result with one output
   per input, or — only for window 0 on a non-empty series — the driver's assertion; never a panic inside a closure,
   never an unwritten slot.  Any add-emit-remove feature (26 entry points); ts_vmin / ts_vmax / ts_vrank / ts_vminmaxnorm
   with no premise (also C10_ts_v*_safe); ts_vargmin / ts_vargmax need `self_eq_on` (C05_some_nan_is_outside_the_property
   is the counterexample otherwise). *)
Theorem C05_every_one_series_entry_point_outcome :
  forall (A : Type) (NA : Num A) (T : Type) (DT : IsNone T A) (body : bool) (w : nat) (mp : option nat) (xs : list T),
    (forall (St O : Type) (F : feat T St O), kernel_safe w xs (ts_run F body w xs)) /\
    kernel_safe w xs (ts_vmin body w mp xs) /\ kernel_safe w xs (ts_vmax body w mp xs) /\
    (forall (B : Type) (NB : Num B) (pct rev : bool), kernel_safe w xs (ts_vrank (B := B) body w mp pct rev xs)) /\
    (forall tmin tmax : A, kernel_safe w xs (ts_vminmaxnorm tmin tmax body w mp xs)) /\
    (self_eq_on xs -> kernel_safe w xs (ts_vargmin body w mp xs) /\ kernel_safe w xs (ts_vargmax body w mp xs)).
Proof.
  intros A NA T DT body w mp xs.
  split; [intros St O F; apply ts_run_safe|]. split; [apply ts_vmin_safe|]. split; [apply ts_vmax_safe|].
  split; [intros B NB pct rev; apply ts_vrank_safe|]. split; [intros tmin tmax; apply ts_vminmaxnorm_safe|].
  intros Hs. split; [apply ts_vargmin_safe|apply ts_vargmax_safe]; exact Hs.
Qed.

(* non-vacuity of (8).  Huge windows: premises and both sides evaluated at binary64 (w = 3 = len + 1 against w = 50); unequal
   lengths: second series shorter (iterator body) and longer (both bodies); below min_periods on an Option<f64> series that
   holds Some(NaN): ts_vmin returns, null exactly where the theorem says (positions 0, 1: one valid element < 2) *)
Example C05_example_huge_window_binary64 :
  let xs := [1%float; nan; 3%float] in
  length xs < 4 /\ length xs < 50 /\
  ts_run (ts_vstd_f (NA := NumF64) (DT := IsNoneF64) 4 (Some 2)) false 4 xs
  = ts_run (ts_vstd_f (NA := NumF64) (DT := IsNoneF64) 50 (Some 2)) false 50 xs /\
  ts_vminmaxnorm (DT := IsNoneF64) (-0x1.fffffffffffffp+1023)%float 0x1.fffffffffffffp+1023%float true 4 (Some 7) xs
  = ts_vminmaxnorm (DT := IsNoneF64) (-0x1.fffffffffffffp+1023)%float 0x1.fffffffffffffp+1023%float true 50 (Some 7) xs.
Proof. intros xs. split; [cbn; lia|]. split; [cbn; lia|]. split; vm_compute; reflexivity. Qed.
Example C05_example_unequal_lengths :
  (false = false \/ length [Some 1%R; None; Some 3%R] <= length [Some 2%R; Some 5%R]) /\
  (true = false \/ length [Some 1%R; None] <= length [Some 2%R; Some 5%R; Some 0%R]) /\
  check2 true 2 [Some 1%R; None; Some 3%R] [Some 2%R; Some 5%R] = Some GShorter /\
  check2 false 2 [Some 1%R; None; Some 3%R] [Some 2%R; Some 5%R] = None.
Proof. split; [left; reflexivity|]. split; [right; cbn; lia|]. split; reflexivity. Qed.
Example C05_example_below_min_periods_some_nan :
  ts_vmin (DT := IsNoneOptF64) true 2 (Some 2) [Some nan; None; Some 1%float; Some 2%float]
  = Done [None; None; None; Some 1%float] /\
  map (fun i => nvalid_win (DT := IsNoneOptF64) 2 i [Some nan; None; Some 1%float; Some 2%float]) (seq 0 4) = [1; 1; 1; 2] /\
  self_eq_on (DT := IsNone_option (A := Z)) [Some 1%Z; None].
Proof. split; [vm_compute; reflexivity|]. split; [vm_compute; reflexivity|apply self_eq_on_Z]. Qed.

Print Assumptions C05_window_zero_every_entry_point.
Print Assumptions C05_huge_window_same_feature.
Print Assumptions C05_huge_window_is_expanding.
Print Assumptions C05_huge_window_moments.
Print Assumptions C05_huge_window_wma_zscore.
Print Assumptions C05_huge_window_trend.
Print Assumptions C05_huge_window_two_series.
Print Assumptions C05_huge_window_minmaxnorm_resid.
Print Assumptions C05_huge_window_cmp_family.
Print Assumptions C05_huge_window_needs_explicit_min_periods.
Print Assumptions C05_huge_window_not_for_ewm.
Print Assumptions C05_two_series_every_input.
Print Assumptions C05_shorter_second_series_iterator_body_fewer_outputs.
Print Assumptions C05_mask_ts_vcov_any_lengths.
Print Assumptions C05_mask_ts_vcorr_any_lengths.
Print Assumptions C05_mask_ts_vregx_any_lengths.
Print Assumptions C05_mask_ts_vregx_resid_any_lengths.
Print Assumptions C05_below_min_periods_null_every_carrier_extrema.
Print Assumptions C05_below_min_periods_null_every_carrier_arg_extrema.
Print Assumptions C05_below_min_periods_null_every_carrier_minmaxnorm.
Print Assumptions C05_below_min_periods_null_every_carrier_vfdiff.
Print Assumptions C05_min_periods_above_window.
Print Assumptions C05_every_one_series_entry_point_outcome.
