(* Props/C08.v — property C08 (first milestone; extended below). *)
From Coq Require Import List.
From Tevec Require Import Base.Prelude Base.Num Model.Driver Model.Features Proofs.Generic.
Import ListNotations.

Theorem C08_encoding_rolling_moments :
  forall {A} {NA : Num A} (emit : @mom A -> A) {T1 T2} (D1 : IsNone T1 A) (D2 : IsNone T2 A)
         (xs1 : list T1) (xs2 : list T2) (w : nat) (body : bool),
    1 <= w -> Forall2 (fun a b => to_opt a = to_opt b) xs1 xs2 ->
    ts_run (mom_feat (DT := D1) emit) body w xs1 = ts_run (mom_feat (DT := D2) emit) body w xs2.
Proof. intros. apply mom_encoding_independent; assumption. Qed.
Print Assumptions C08_encoding_rolling_moments.
