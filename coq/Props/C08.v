(* Props/C08.v — property C08: NaN and None are the same null, and nulls are transparent to the valid
   aggregations.  Statements only (proofs in Proofs/ViewBase.v, NullView.v, NullOrder.v, EncRolling.v,
   EncMaps.v, CastOutput.v, EncRank.v, TransQuantile.v, TransRank.v, TransPartition.v).

   Reading guide.  A : the inner numeric type (any carrier: the theorems use no law of the numeric class, so
   they hold bit for bit at binary64 as well as at option R and Z);  T with D : IsNone T A : an element type
   with its null dictionary — IsNone_float (NaN is the null, unwrap = id), IsNone_option (None), the option
   view's own dictionary IsNone_view (what `.opt()` / OptIter iterates over).
     same_view D1 D2 a b   to_opt a = to_opt b : the two elements encode the same logical value
     SameView D1 D2 xs ys  pointwise (Forall2): the two series encode the same logical series
     vals xs               the non-null elements, unwrapped, in order
     NullInsert xs ys      ys is xs with null elements inserted at arbitrary positions
     PairInsert zs zs'     zs' is the zipped pair series zs with pairs inserted that are not pairwise complete
                           ((null, null), (null, v), (v, null) with v arbitrary): pairwise deletion
   Groups: C08_encoding_* (a), C08_output_encoding (b), C08_transparent_* (c).                               *)
From Coq Require Import Reals List ZArith.
From Tevec Require Import Base.Prelude Base.Num Base.XR Model.Driver Model.Features Model.Cmp Model.Norm
     Model.Binary Model.Reg Model.Fdiff Model.Agg Model.NullView
     Proofs.AggGeneric Proofs.ViewBase Proofs.NullView Proofs.EncRolling.
From Tevec Require Model.SortCmp Model.Quantile Model.Rank Model.Partition Model.MapOps Model.Cast Proofs.Cast Proofs.NullOrder
     Proofs.EncMaps Proofs.CastOutput Proofs.EncRank Proofs.TransQuantile Proofs.TransRank Proofs.TransPartition.
Import ListNotations.

(* ======================= (a) re-encoding the input ======================================================= *)

(* what "the same logical series" means: equal option views; the view `.opt()` itself is such an encoding, and
   so is the Option<f64> rendering of a float series *)
Theorem C08_encoding_same_view_iff :
  forall {A T1 T2} (D1 : IsNone T1 A) (D2 : IsNone T2 A) (xs1 : list T1) (xs2 : list T2),
    SameView D1 D2 xs1 xs2 <-> opt_view xs1 = opt_view xs2.
Proof. intros. apply same_view_opt_view. Qed.

Theorem C08_encoding_option_view :
  forall {A T} (D : IsNone T A) (dflt : A) (xs : list T), SameView D (IsNone_view dflt) xs (opt_view xs).
Proof. intros. apply view_same_view. Qed.

Theorem C08_encoding_float_vs_option :
  forall {A} {NA : Num A} (xs : list A),
    SameView IsNone_float IsNone_option xs (map (fun x => if nisnan x then None else Some x) xs).
Proof.
  intros A NA xs. unfold SameView. induction xs as [|x xs IH]; [constructor|]. cbn [map]. constructor; [|exact IH].
  unfold same_view, to_opt. cbn [is_none unwrap IsNone_float IsNone_option]. destruct (nisnan x); reflexivity.
Qed.

(* the valid elements are the same *)
Theorem C08_encoding_valid_elements :
  forall {A T1 T2} (D1 : IsNone T1 A) (D2 : IsNone T2 A) (xs1 : list T1) (xs2 : list T2),
    SameView D1 D2 xs1 xs2 -> vals xs1 = vals xs2 /\ length xs1 = length xs2.
Proof. intros A T1 T2 D1 D2 xs1 xs2 H. split; [apply (vals_same_view H)|apply (same_view_length H)]. Qed.

(* ---- aggregations (Model/Agg.v), every carrier, every statistic carrier F and cast tof, every min_periods *)
Theorem C08_encoding_aggregations :
  forall {A} {NA : Num A} {T1 T2} (D1 : IsNone T1 A) (D2 : IsNone T2 A) {F} {NF : Num F} (tof : A -> F)
         (xs1 : list T1) (xs2 : list T2),
    SameView D1 D2 xs1 xs2 ->
    count_valid xs1 = count_valid xs2 /\ count_none xs1 = count_none xs2 /\
    vsum xs1 = vsum xs2 /\ vmean tof xs1 = vmean tof xs2 /\
    vmin xs1 = vmin xs2 /\ vmax xs1 = vmax xs2 /\
    vargmin xs1 = vargmin xs2 /\ vargmax xs1 = vargmax xs2 /\
    option_map (to_opt (H := D1)) (vfirst xs1) = option_map (to_opt (H := D2)) (vfirst xs2) /\
    option_map (to_opt (H := D1)) (vlast xs1) = option_map (to_opt (H := D2)) (vlast xs2) /\
    (forall mp, vmean_var tof mp xs1 = vmean_var tof mp xs2 /\ vvar tof mp xs1 = vvar tof mp xs2 /\
                vstd tof mp xs1 = vstd tof mp xs2 /\ vskew tof mp xs1 = vskew tof mp xs2 /\
                vkurt tof mp xs1 = vkurt tof mp xs2) /\
    (forall (v1 : T1) (v2 : T2), same_view D1 D2 v1 v2 -> vcount_value v1 xs1 = vcount_value v2 xs2).
Proof.
  intros A NA T1 T2 D1 D2 F NF tof xs1 xs2 HS. pose proof (vals_same_view HS) as HV.
  split; [apply count_valid_vals; exact HV|]. split; [apply count_none_same_view; exact HS|].
  split; [apply vsum_vals; exact HV|]. split; [apply vmean_vals; exact HV|].
  split; [apply vmin_vals; exact HV|]. split; [apply vmax_vals; exact HV|].
  split; [apply vargmin_same_view; exact HS|]. split; [apply vargmax_same_view; exact HS|].
  split; [apply vfirst_same_view; exact HS|]. split; [apply vlast_same_view; exact HS|].
  split.
  - intros mp. split; [apply vmean_var_vals; exact HV|]. split; [apply vvar_vals; exact HV|].
    split; [apply vstd_vals; exact HV|]. split; [apply vskew_vals; exact HV|apply vkurt_vals; exact HV].
  - intros v1 v2 E. apply vcount_value_same_view; assumption.
Qed.

(* two series, each re-encoded independently (f64 x Option<f64>, ...) *)
Theorem C08_encoding_two_series :
  forall {A} {NA : Num A} {F} {NF : Num F} (tof : A -> F) {T1 T2 U1 U2}
         (D1 : IsNone T1 A) (D2 : IsNone T2 A) (E1 : IsNone U1 A) (E2 : IsNone U2 A)
         (xs : list T1) (ys : list T2) (xs' : list U1) (ys' : list U2) (mp : nat),
    SameView D1 E1 xs xs' -> SameView D2 E2 ys ys' ->
    vcov tof mp xs ys = vcov tof mp xs' ys' /\ vcorr_pearson tof mp xs ys = vcorr_pearson tof mp xs' ys'.
Proof.
  intros A NA F NF tof T1 T2 U1 U2 D1 D2 E1 E2 xs ys xs' ys' mp HX HY.
  pose proof (vpairs_same_view HX HY) as HP. split; [apply vcov_pairs; exact HP|apply vcorr_pairs; exact HP].
Qed.

(* ---- order statistics (Model/Quantile.v): every q (also out of range / NaN), every method *)
Theorem C08_encoding_order_statistics :
  forall {A} {NA : Num A} {NF : SortCmp.NumFloor A} {T1 T2} (D1 : IsNone T1 A) (D2 : IsNone T2 A)
         (xs1 : list T1) (xs2 : list T2),
    SameView D1 D2 xs1 xs2 ->
    (forall q m, Quantile.vquantile (DT := D1) q m xs1 = Quantile.vquantile (DT := D2) q m xs2) /\
    Quantile.vmedian (DT := D1) xs1 = Quantile.vmedian (DT := D2) xs2 /\
    (forall (sc1 : T1) (sc2 : T2) m, same_view D1 D2 sc1 sc2 ->
       Quantile.vpercentile_of (DT := D1) sc1 m xs1 = Quantile.vpercentile_of (DT := D2) sc2 m xs2).
Proof.
  intros A NA NF T1 T2 D1 D2 xs1 xs2 HS. split; [|split].
  - intros q m. apply NullOrder.vquantile_same_view. exact HS.
  - apply NullOrder.vmedian_same_view. exact HS.
  - intros sc1 sc2 m E. apply NullOrder.vpercentile_of_same_view; assumption.
Qed.

(* ---- rolling families: both driver bodies, EVERY window (0 included), every min_periods ------------------ *)
(* the generic statement: two add-emit-remove features whose steps agree on related elements *)
Theorem C08_encoding_rolling_generic :
  forall {T1 T2 St O} (Rel : T1 -> T2 -> Prop) (F1 : feat T1 St O) (F2 : feat T2 St O),
    f_init F1 = f_init F2 -> (forall s, f_emit F1 s = f_emit F2 s) ->
    (forall s a b, Rel a b -> f_pre F1 s a = f_pre F2 s b) ->
    (forall s, f_post F1 s None = f_post F2 s None) ->
    (forall s a b, Rel a b -> f_post F1 s (Some a) = f_post F2 s (Some b)) ->
    forall xs1 xs2 w body, Forall2 Rel xs1 xs2 -> ts_run F1 body w xs1 = ts_run F2 body w xs2.
Proof. intros T1 T2 St O Rel F1 F2 H1 H2 H3 H4 H5 xs1 xs2 w body HF. apply (ts_run_rel (R := Rel)); assumption. Qed.

(* ts_vsum ts_vmean ts_vvar ts_vstd ts_vskew ts_vkurt (any emit function of the power sums), ts_vewm, ts_vwma *)
Theorem C08_encoding_rolling_moments :
  forall {A} {NA : Num A} {T1 T2} (D1 : IsNone T1 A) (D2 : IsNone T2 A) (xs1 : list T1) (xs2 : list T2) (w : nat) (body : bool),
    SameView D1 D2 xs1 xs2 ->
    (forall emit, ts_run (mom_feat (DT := D1) emit) body w xs1 = ts_run (mom_feat (DT := D2) emit) body w xs2) /\
    (forall w0 mp, ts_run (ts_vewm_f (DT := D1) w0 mp) body w xs1 = ts_run (ts_vewm_f (DT := D2) w0 mp) body w xs2) /\
    (forall w0 mp, ts_run (ts_vwma_f (DT := D1) w0 mp) body w xs1 = ts_run (ts_vwma_f (DT := D2) w0 mp) body w xs2).
Proof.
  intros A NA T1 T2 D1 D2 xs1 xs2 w body HS. split; [|split].
  - intros emit. apply mom_same_view. exact HS.
  - intros w0 mp. apply ewm_same_view. exact HS.
  - intros w0 mp. apply wma_same_view. exact HS.
Qed.

(* ts_vzscore, ts_vreg ts_vtsf ts_vreg_slope ts_vreg_intercept ts_vreg_resid_mean (any emit function of the trend sums) *)
Theorem C08_encoding_rolling_zscore_trend :
  forall {A} {NA : Num A} {T1 T2} (D1 : IsNone T1 A) (D2 : IsNone T2 A) (xs1 : list T1) (xs2 : list T2) (w : nat) (body : bool),
    SameView D1 D2 xs1 xs2 ->
    (forall mp, ts_vzscore (DT := D1) body w mp xs1 = ts_vzscore (DT := D2) body w mp xs2) /\
    (forall emit, ts_run (tr_feat (DT := D1) emit) body w xs1 = ts_run (tr_feat (DT := D2) emit) body w xs2).
Proof.
  intros A NA T1 T2 D1 D2 xs1 xs2 w body HS. split.
  - intros mp. apply zscore_same_view. exact HS.
  - intros emit. apply trend_same_view. exact HS.
Qed.

(* ts_vmin ts_vmax ts_vargmin ts_vargmax ts_vrank ts_vminmaxnorm: the window-index family *)
Theorem C08_encoding_rolling_cmp :
  forall {A} {NA : Num A} {T1 T2} (D1 : IsNone T1 A) (D2 : IsNone T2 A) (xs1 : list T1) (xs2 : list T2)
         (w : nat) (mp : option nat) (body : bool),
    SameView D1 D2 xs1 xs2 ->
    ts_vmin (DT := D1) body w mp xs1 = ts_vmin (DT := D2) body w mp xs2 /\
    ts_vmax (DT := D1) body w mp xs1 = ts_vmax (DT := D2) body w mp xs2 /\
    ts_vargmin (DT := D1) body w mp xs1 = ts_vargmin (DT := D2) body w mp xs2 /\
    ts_vargmax (DT := D1) body w mp xs1 = ts_vargmax (DT := D2) body w mp xs2 /\
    (forall {B} {NB : Num B} pct rev,
       ts_vrank (DT := D1) (B := B) body w mp pct rev xs1 = ts_vrank (DT := D2) (B := B) body w mp pct rev xs2) /\
    (forall tmin tmax, ts_vminmaxnorm (DT := D1) tmin tmax body w mp xs1 = ts_vminmaxnorm (DT := D2) tmin tmax body w mp xs2).
Proof.
  intros A NA T1 T2 D1 D2 xs1 xs2 w mp body HS.
  split; [apply ts_vext_same_view; exact HS|]. split; [apply ts_vext_same_view; exact HS|].
  split; [apply ts_varg_same_view; exact HS|]. split; [apply ts_varg_same_view; exact HS|].
  split.
  - intros B NB pct rev. apply ts_vrank_same_view. exact HS.
  - intros tmin tmax. apply ts_vminmaxnorm_same_view. exact HS.
Qed.

(* ts_vcov ts_vcorr ts_vregx_alpha ts_vregx_beta ts_vregx_all (any emit function of the cross sums) and the three
   residual statistics; the two series are re-encoded independently *)
Theorem C08_encoding_rolling_two_series :
  forall {A} {NA : Num A} {T1 T2 U1 U2} (D1 : IsNone T1 A) (D2 : IsNone T2 A) (E1 : IsNone U1 A) (E2 : IsNone U2 A)
         (xs : list T1) (ys : list T2) (xs' : list U1) (ys' : list U2) (w : nat) (body : bool),
    SameView D1 E1 xs xs' -> SameView D2 E2 ys ys' ->
    (forall {O} (emit : @csum A -> O),
       ts_run2 (csum_feat (D1 := D1) (D2 := D2) emit) body w xs ys =
       ts_run2 (csum_feat (D1 := E1) (D2 := E2) emit) body w xs' ys') /\
    (forall k mp, ts_vregx_resid (D1 := D1) (D2 := D2) k body w mp xs ys =
                  ts_vregx_resid (D1 := E1) (D2 := E2) k body w mp xs' ys').
Proof.
  intros A NA T1 T2 U1 U2 D1 D2 E1 E2 xs ys xs' ys' w body HX HY. split.
  - intros O emit. apply csum_same_view; assumption.
  - intros k mp. apply resid_same_view; assumption.
Qed.

Theorem C08_encoding_rolling_vfdiff :
  forall {A} {NA : Num A} {T1 T2} (D1 : IsNone T1 A) (D2 : IsNone T2 A) (d : A) (xs1 : list T1) (xs2 : list T2)
         (w : nat) (mp : option nat) (body : bool),
    SameView D1 D2 xs1 xs2 -> ts_vfdiff (DT := D1) body d w mp xs1 = ts_vfdiff (DT := D2) body d w mp xs2.
Proof. intros. apply vfdiff_same_view. assumption. Qed.

(* ---- maps (Model/MapOps.v): the results are element-wise related (same nullness, same unwrapped value) *)
Theorem C08_encoding_maps :
  forall {T1 T2 I} (d1 : MapOps.NullDict T1 I) (d2 : MapOps.NullDict T2 I),
    EncMaps.none_rel d1 d2 ->
    forall (xs1 : list T1) (xs2 : list T2), Forall2 (EncMaps.mrel d1 d2) xs1 xs2 ->
    (forall n v1 v2, EncMaps.opt_mrel d1 d2 v1 v2 ->
       EncMaps.res_rel d1 d2 (MapOps.vshift d1 n v1 xs1) (MapOps.vshift d2 n v2 xs2)) /\
    (forall v1 v2, EncMaps.opt_mrel d1 d2 v1 v2 ->
       EncMaps.res_rel d1 d2 (MapOps.ffill d1 v1 xs1) (MapOps.ffill d2 v2 xs2) /\
       EncMaps.res_rel d1 d2 (MapOps.bfill d1 v1 xs1) (MapOps.bfill d2 v2 xs2)) /\
    (forall v1 v2, EncMaps.mrel d1 d2 v1 v2 ->
       Forall2 (EncMaps.mrel d1 d2) (MapOps.fill d1 v1 xs1) (MapOps.fill d2 v2 xs2)) /\
    (forall ltb lo1 lo2 hi1 hi2, EncMaps.mrel d1 d2 lo1 lo2 -> EncMaps.mrel d1 d2 hi1 hi2 ->
       EncMaps.res_rel d1 d2 (MapOps.vclip d1 ltb lo1 hi1 xs1) (MapOps.vclip d2 ltb lo2 hi2 xs2)) /\
    (forall {F} (o : MapOps.FOps F) cast1 cast2 n, EncMaps.cast_rel d1 d2 o cast1 cast2 ->
       MapOps.vpct_change d1 o cast1 n xs1 = MapOps.vpct_change d2 o cast2 n xs2) /\
    (forall iabs, EncMaps.imap_rel d1 d2 iabs ->
       EncMaps.res_rel d1 d2 (MapOps.vabs d1 iabs xs1) (MapOps.vabs d2 iabs xs2)).
Proof.
  intros T1 T2 I d1 d2 Hn xs1 xs2 HS.
  split; [intros; apply EncMaps.vshift_rel; assumption|].
  split; [intros v1 v2 Hv; split; [apply EncMaps.ffill_rel|apply EncMaps.bfill_rel]; assumption|].
  split; [intros; apply EncMaps.fill_rel; assumption|].
  split; [intros; apply EncMaps.vclip_rel; assumption|].
  split; [intros F o cast1 cast2 n Hc; apply EncMaps.vpct_rel; assumption|].
  intros iabs Hi. apply EncMaps.vabs_rel; assumption.
Qed.

(* the relation is satisfied by the two real dictionaries (f64 with NaN, Option<f64>) on canonical encodings *)
Theorem C08_encoding_maps_instances :
  forall {A} (inan : A -> bool) (nanv : A), inan nanv = true ->
    EncMaps.none_rel (MapOps.dict_float inan nanv) (MapOps.dict_opt inan) /\
    (forall xs : list A, Forall2 (EncMaps.mrel (MapOps.dict_float inan nanv) (MapOps.dict_opt inan)) xs
                                 (map (fun x => if inan x then None else Some x) xs)) /\
    (forall f : A -> A, (forall x, inan x = true -> inan (f x) = true) ->
                        EncMaps.imap_rel (MapOps.dict_float inan nanv) (MapOps.dict_opt inan) f).
Proof.
  intros A inan nanv H. split; [apply EncMaps.none_rel_float_opt; exact H|].
  split; [apply EncMaps.mrel_float_opt|apply EncMaps.imap_rel_float_opt].
Qed.

(* ---- the rank map `vrank` (vec_map.rs:112-276, Model/Rank.v) and the partitions (Model/Partition.v) ------------- *)
(* The first version of this file kept the following statement as "expected to hold, not proved".  It quantifies over
   ARBITRARY `IsNoneX` instances, i.e. over an arbitrary `==` (PartialEq) on the two element types, and the run-length
   loop of vrank detects ties with `==`: as it stands the statement is FALSE (C08_encoding_vrank_statement_refuted
   below: same series, same dictionary, two different `==`).  This is a defect of the recorded statement, not of the
   code or of the model: the missing hypothesis is that `==` agrees under the two encodings on non-null elements
   (EncRank.EqbView — true for f64 `==` vs Option<f64> `==`, C08_encoding_vrank_instances).  With it the statement holds
   for every carrier, every pct / rev: C08_encoding_vrank.                                                              *)
Definition C08_encoding_vrank_statement : Prop :=
  forall (A : Type) (NA : Num A) (T1 T2 : Type) (D1 : IsNone T1 A) (D2 : IsNone T2 A)
         (DX1 : SortCmp.IsNoneX T1 A) (DX2 : SortCmp.IsNoneX T2 A) (pct rev : bool) (xs1 : list T1) (xs2 : list T2),
    SameView D1 D2 xs1 xs2 ->
    Tevec.Model.Rank.vrank (DT := D1) (DX := DX1) pct rev xs1 = Tevec.Model.Rank.vrank (DT := D2) (DX := DX2) pct rev xs2.

Theorem C08_encoding_vrank_statement_refuted : ~ C08_encoding_vrank_statement.
Proof.
  intros H.
  specialize (H Z NumZ Z Z IsNone_float IsNone_float
                {| SortCmp.tnone := Ok 0%Z; SortCmp.teqb := fun _ _ => true |}
                {| SortCmp.tnone := Ok 0%Z; SortCmp.teqb := fun _ _ => false |}
                false false [1%Z; 2%Z] [1%Z; 2%Z]).
  assert (HS : SameView (IsNone_float (H := NumZ)) (IsNone_float (H := NumZ)) [1%Z; 2%Z] [1%Z; 2%Z])
    by (repeat constructor).
  specialize (H HS). vm_compute in H. discriminate H.
Qed.

(* vrank under re-encoding: EQUAL outputs (same nullness, same rank value at every position), every carrier, every
   pair of dictionaries whose `==` agree on non-null elements, every pct / rev, every series (also length 0 / 1, all
   null, ties) *)
Theorem C08_encoding_vrank :
  forall (A : Type) (NA : Num A) (T1 T2 : Type) (D1 : IsNone T1 A) (D2 : IsNone T2 A)
         (DX1 : SortCmp.IsNoneX T1 A) (DX2 : SortCmp.IsNoneX T2 A) (pct rev : bool) (xs1 : list T1) (xs2 : list T2),
    EncRank.EqbView D1 D2 DX1 DX2 -> SameView D1 D2 xs1 xs2 ->
    Tevec.Model.Rank.vrank (DT := D1) (DX := DX1) pct rev xs1 = Tevec.Model.Rank.vrank (DT := D2) (DX := DX2) pct rev xs2.
Proof. intros A NA T1 T2 D1 D2 DX1 DX2 pct rev xs1 xs2 HE HS. apply EncRank.vrank_view; assumption. Qed.

(* the hypotheses on `==` and on `T::none()` hold for the real dictionaries, in every combination *)
Theorem C08_encoding_vrank_instances :
  forall (A : Type) (NA : Num A),
    EncRank.EqbView (IsNone_float (A := A)) IsNone_option SortCmp.IsNoneX_float SortCmp.IsNoneX_option /\
    EncRank.EqbView (IsNone_option (A := A)) IsNone_float SortCmp.IsNoneX_option SortCmp.IsNoneX_float /\
    EncRank.EqbView (IsNone_float (A := A)) IsNone_float SortCmp.IsNoneX_float SortCmp.IsNoneX_float /\
    EncRank.EqbView (IsNone_option (A := A)) IsNone_option SortCmp.IsNoneX_option SortCmp.IsNoneX_option /\
    (nisnan (nnan (A := A)) = true ->
     EncRank.tnone_rel (IsNone_float (A := A)) IsNone_option SortCmp.IsNoneX_float SortCmp.IsNoneX_option /\
     EncRank.tnone_rel (IsNone_option (A := A)) IsNone_float SortCmp.IsNoneX_option SortCmp.IsNoneX_float).
Proof.
  intros A NA. split; [apply EncRank.eqb_view_float_option|]. split; [apply EncRank.eqb_view_option_float|].
  split; [apply EncRank.eqb_view_float_float|]. split; [apply EncRank.eqb_view_option_option|].
  intros H. split; [apply EncRank.tnone_rel_float_option|apply EncRank.tnone_rel_option_float]; exact H.
Qed.

(* the concrete reading: a float series (NaN = null) and its Option rendering have the same ranks, for EVERY carrier *)
Theorem C08_encoding_vrank_float_vs_option :
  forall (A : Type) (NA : Num A) (pct rev : bool) (xs : list A),
    Tevec.Model.Rank.vrank (DT := IsNone_float) (DX := SortCmp.IsNoneX_float) pct rev xs =
    Tevec.Model.Rank.vrank (DT := IsNone_option) (DX := SortCmp.IsNoneX_option) pct rev
                           (map (fun x => if nisnan x then None else Some x) xs).
Proof.
  intros A NA pct rev xs. apply EncRank.vrank_view; [apply C08_encoding_float_vs_option|apply EncRank.eqb_view_float_option].
Qed.

(* vpartition returns elements of the input type: same panic, or outputs with pointwise equal option views — stated
   both ways; varg_partition returns indices: EQUAL outputs.  Every kth, sort, rev.  (The order of ties is unspecified
   in std; this is about the model's deterministic stable sort, whose ties keep the input order under both encodings.) *)
Theorem C08_encoding_partition :
  forall (A : Type) (NA : Num A) (T1 T2 : Type) (D1 : IsNone T1 A) (D2 : IsNone T2 A)
         (DX1 : SortCmp.IsNoneX T1 A) (DX2 : SortCmp.IsNoneX T2 A) (kth : nat) (sort rev : bool)
         (xs1 : list T1) (xs2 : list T2),
    SameView D1 D2 xs1 xs2 ->
    Tevec.Model.Partition.varg_partition (DT := D1) kth sort rev xs1
      = Tevec.Model.Partition.varg_partition (DT := D2) kth sort rev xs2 /\
    (EncRank.tnone_rel D1 D2 DX1 DX2 ->
     EncRank.res_view D1 D2 (Tevec.Model.Partition.vpartition (DT := D1) (DX := DX1) kth sort rev xs1)
                            (Tevec.Model.Partition.vpartition (DT := D2) (DX := DX2) kth sort rev xs2) /\
     EncRank.res_opt_view (D := D1) (Tevec.Model.Partition.vpartition (DT := D1) (DX := DX1) kth sort rev xs1)
       = EncRank.res_opt_view (D := D2) (Tevec.Model.Partition.vpartition (DT := D2) (DX := DX2) kth sort rev xs2)).
Proof.
  intros A NA T1 T2 D1 D2 DX1 DX2 kth sort rev xs1 xs2 HS. split; [apply EncRank.varg_partition_view; exact HS|].
  intros HT. pose proof (EncRank.vpartition_view D1 D2 DX1 DX2 xs1 xs2 HS kth sort rev HT) as H.
  split; [exact H|apply EncRank.res_view_opt_view; exact H].
Qed.

(* ======================= (b) the encoding of the output ================================================== *)
(* a result (f64, or Option<f64> for the rolling extrema) cast into f64 / f32 / Option<f64> / Option<i32>: null goes
   to null (None for the optional outputs), non-null to non-null; the casts never panic *)
Theorem C08_output_encoding :
  forall (F : Type) (X : Model.Cast.Ext F), Proofs.Cast.ExtLaws X ->
  forall (s t : Model.Cast.ty) (v : Model.Cast.val s) (w : Model.Cast.val t),
    In s CastOutput.result_tys -> In t CastOutput.output_tys -> Model.Cast.cast X s t v = Ok w ->
    (Model.Cast.is_none X s v = true -> Model.Cast.is_none X t w = true) /\
    (Model.Cast.canonical X s v = true -> Model.Cast.is_none X s v = false -> Model.Cast.is_none X t w = false) /\
    (Model.Cast.is_none X s v = true ->
     forall b (E : t = Model.Cast.Opt b), eq_rect t Model.Cast.val w (Model.Cast.Opt b) E = None).
Proof. exact CastOutput.output_encoding. Qed.

Theorem C08_output_cast_total :
  forall (F : Type) (X : Model.Cast.Ext F) (s t : Model.Cast.ty) (v : Model.Cast.val s),
    In s CastOutput.result_tys -> In t CastOutput.output_tys -> exists w, Model.Cast.cast X s t v = Ok w.
Proof. exact CastOutput.output_cast_total. Qed.

(* ======================= (c) nulls are transparent ======================================================== *)
Theorem C08_transparent_valid :
  forall {A T} {D : IsNone T A} (xs ys : list T), NullInsert xs ys -> vals ys = vals xs.
Proof. intros. apply vals_null_insert. assumption. Qed.

(* insertion by a boolean pattern (true = a null here) is an insertion; deleting every null is the extreme case *)
Theorem C08_transparent_patterns :
  forall {A T} {D : IsNone T A} (nl : T) (p : list bool) (xs : list T),
    is_none nl = true -> NullInsert xs (insert_pat nl p xs) /\ NullInsert (valid_elems xs) xs.
Proof. intros A T D nl p xs H. split; [apply insert_pat_insert; exact H|apply null_insert_valid_elems]. Qed.

(* counts of valid elements, sums, means, variances, higher moments, extrema, first / last valid value, counting a
   non-null value: every carrier, every dictionary, every insertion pattern, every min_periods *)
Theorem C08_transparent_aggregations :
  forall {A} {NA : Num A} {T} {D : IsNone T A} {F} {NF : Num F} (tof : A -> F) (xs ys : list T),
    NullInsert xs ys ->
    count_valid ys = count_valid xs /\ vsum ys = vsum xs /\ vmean tof ys = vmean tof xs /\
    vmin ys = vmin xs /\ vmax ys = vmax xs /\
    option_map unwrap (vfirst ys) = option_map unwrap (vfirst xs) /\
    option_map unwrap (vlast ys) = option_map unwrap (vlast xs) /\
    (forall mp, vmean_var tof mp ys = vmean_var tof mp xs /\ vvar tof mp ys = vvar tof mp xs /\
                vstd tof mp ys = vstd tof mp xs /\ vskew tof mp ys = vskew tof mp xs /\
                vkurt tof mp ys = vkurt tof mp xs) /\
    (forall v : T, not_none v = true -> vcount_value v ys = vcount_value v xs).
Proof.
  intros A NA T D F NF tof xs ys H. pose proof (vals_null_insert H) as HV.
  split; [apply count_valid_vals; exact HV|]. split; [apply vsum_vals; exact HV|]. split; [apply vmean_vals; exact HV|].
  split; [apply vmin_vals; exact HV|]. split; [apply vmax_vals; exact HV|].
  split; [apply vfirst_vals; exact HV|]. split; [apply vlast_vals; exact HV|].
  split.
  - intros mp. split; [apply vmean_var_vals; exact HV|]. split; [apply vvar_vals; exact HV|].
    split; [apply vstd_vals; exact HV|]. split; [apply vskew_vals; exact HV|apply vkurt_vals; exact HV].
  - intros v Hv. apply vcount_value_vals; [exact HV|exact eq_refl|exact Hv].
Qed.

(* percentile rank of a score: every carrier, every score (null or not), every method *)
Theorem C08_transparent_percentile_of :
  forall {A} {NA : Num A} {T} {D : IsNone T A} (sc : T) (m : Quantile.pmethod) (xs ys : list T),
    NullInsert xs ys -> Quantile.vpercentile_of sc m ys = Quantile.vpercentile_of sc m xs.
Proof. intros. apply NullOrder.vpercentile_of_insert. assumption. Qed.

(* quantiles and the median of a float series (exact reals, via the C12 characterisation): every q — in range, out
   of range, NaN — every method *)
Theorem C08_transparent_quantile :
  forall (q : XR) (m : Quantile.qmethod) (xs ys : list XR),
    NullInsert (D := IsNoneXR) xs ys ->
    Quantile.vquantile q m ys = Quantile.vquantile q m xs /\ Quantile.vmedian ys = Quantile.vmedian xs.
Proof. intros q m xs ys H. split; [apply NullOrder.vquantile_insert|apply NullOrder.vmedian_insert]; exact H. Qed.

(* ---- quantile / median transparency at EVERY carrier (no Reals, no order law) ------------------------------------ *)
(* the model of std's sort under sort_cmp / sort_cmp_rev puts the sorted non-null elements first and the nulls last,
   whatever the comparison of two non-null values does; the sorted non-null part is literally the same term for a series
   and for the series with nulls inserted *)
Theorem C08_transparent_sort :
  forall {A} {NA : Num A} {T} {D : IsNone T A} (rev : bool) (xs ys : list T),
    SortCmp.isort (SortCmp.cmp_dir rev) ys
      = SortCmp.isort (SortCmp.cmp_dir rev) (filter not_none ys) ++ filter is_none ys /\
    (NullInsert xs ys -> filter not_none ys = filter not_none xs).
Proof. intros A NA T D rev xs ys. split; [apply TransQuantile.isort_split|apply TransQuantile.filter_valid_insert]. Qed.

(* every successful quantile / median of the original series is the quantile / median of the series with nulls
   inserted — the same term, hence bit for bit at binary64: every carrier, every dictionary, every q (in range, out of
   range, NaN), every method, every insertion pattern.  (For an index j = ceil((n-1) q) >= n — which the law-free
   `NumFloor` class does not exclude — select_nth_unstable_by may panic on the shorter series only; hence `Ok r`.) *)
Theorem C08_transparent_quantile_generic :
  forall {A} {NA : Num A} {NF : SortCmp.NumFloor A} {T} {D : IsNone T A} (q : A) (m : Quantile.qmethod) (xs ys : list T),
    NullInsert xs ys ->
    (forall r, Quantile.vquantile q m xs = Ok r -> Quantile.vquantile q m ys = Ok r) /\
    (forall r, Quantile.vmedian xs = Ok r -> Quantile.vmedian ys = Ok r).
Proof.
  intros A NA NF T D q m xs ys H. split; intros r Hr.
  - apply (TransQuantile.vquantile_insert_ok _ _ _ _ _ H Hr).
  - apply (TransQuantile.vmedian_insert_ok _ _ _ H Hr).
Qed.

(* outright equality for every carrier whose ceil satisfies the index law ceil((n-1) q) <= n-1 for q in [0, 1] *)
Theorem C08_transparent_quantile_index_law :
  forall {A} {NA : Num A} {NF : SortCmp.NumFloor A} {T} {D : IsNone T A},
    TransQuantile.QIdxLaw (A := A) ->
    forall (q : A) (m : Quantile.qmethod) (xs ys : list T),
      NullInsert xs ys ->
      Quantile.vquantile q m ys = Quantile.vquantile q m xs /\ Quantile.vmedian ys = Quantile.vmedian xs.
Proof. intros A NA NF T D HL q m xs ys H. apply TransQuantile.vquantile_insert_law; assumption. Qed.

(* the index law holds at option R (so C08_transparent_quantile is also an instance of the generic theorem) *)
Theorem C08_quantile_index_law_real : TransQuantile.QIdxLaw (A := XR) (NF := OrderXR.NumFloorXR).
Proof. exact TransRank.qidx_law_xr. Qed.

(* re-encoding and insertion composed, for the order statistics: a float series against an optional series with extra
   Nones, every carrier *)
Theorem C08_transparent_quantile_across_encodings :
  forall {A} {NA : Num A} {NF : SortCmp.NumFloor A} {T1 T2} (D1 : IsNone T1 A) (D2 : IsNone T2 A)
         (q : A) (m : Quantile.qmethod) (xs : list T1) (xs' ys : list T2),
    SameView D1 D2 xs xs' -> NullInsert xs' ys ->
    (forall r, Quantile.vquantile (DT := D1) q m xs = Ok r -> Quantile.vquantile (DT := D2) q m ys = Ok r) /\
    (forall (sc1 : T1) (sc2 : T2) pm, same_view D1 D2 sc1 sc2 ->
       Quantile.vpercentile_of (DT := D2) sc2 pm ys = Quantile.vpercentile_of (DT := D1) sc1 pm xs).
Proof.
  intros A NA NF T1 T2 D1 D2 q m xs xs' ys HS HI. split.
  - intros r Hr. apply (TransQuantile.vquantile_insert_ok _ _ _ _ _ HI).
    rewrite <- (NullOrder.vquantile_same_view D1 D2 q m _ _ HS). exact Hr.
  - intros sc1 sc2 pm E. rewrite (NullOrder.vpercentile_of_insert sc2 pm _ _ HI). symmetry.
    apply NullOrder.vpercentile_of_same_view; assumption.
Qed.

(* ---- vpartition under null insertion: every carrier ------------------------------------------------------------------ *)
(* read through the option view, the partition (the kth + 1 first elements of the sorted series, padded with T::none())
   is a function of the non-null elements only, so inserting nulls does not change it; T::none() must be a null (on the
   integer types it panics, and then a short series panics where a longer one needs no padding) *)
Theorem C08_transparent_partition :
  forall {A} {NA : Num A} {T} {D : IsNone T A} {DX : SortCmp.IsNoneX T A} (kth : nat) (sort rev : bool) (pad : T)
         (xs ys : list T),
    SortCmp.tnone = Ok pad -> is_none pad = true -> NullInsert xs ys ->
    EncRank.res_opt_view (Tevec.Model.Partition.vpartition kth sort rev ys)
    = EncRank.res_opt_view (Tevec.Model.Partition.vpartition kth sort rev xs) /\
    EncRank.res_opt_view (Tevec.Model.Partition.vpartition kth sort rev xs)
    = Ok (TransPartition.part_of_valid kth sort rev pad (filter not_none xs)).
Proof.
  intros A NA T D DX kth sort rev pad xs ys HT HP HI.
  split; [apply (TransPartition.vpartition_insert kth sort rev pad); assumption|
          apply TransPartition.vpartition_by_valid; assumption].
Qed.

(* ---- the rank map under null insertion (option R, from the C12 characterisation) --------------------------------- *)
(* the ranks of the original elements are unchanged and the inserted positions carry the null rank: the output for the
   series with nulls inserted by pattern p is the output for the original series with null ranks inserted by p *)
Theorem C08_transparent_rank :
  forall (pct rev : bool) (p : list bool) (xs : list XR),
    Tevec.Model.Rank.vrank (DX := Proofs.Partition.IsNoneXXR) pct rev (insert_pat None p xs)
    = insert_pat (Some None) p (Tevec.Model.Rank.vrank (DX := Proofs.Partition.IsNoneXXR) pct rev xs).
Proof. exact TransRank.vrank_insert_pat. Qed.

(* the same for the inductive relation: every insertion is a pattern insertion, and an original element found at
   position i of xs and at position j of ys has the same rank slot *)
Theorem C08_transparent_rank_insert :
  forall (pct rev : bool) (xs ys : list XR),
    NullInsert (D := IsNoneXR) xs ys ->
    (exists p, ys = insert_pat None p xs /\
               Tevec.Model.Rank.vrank (DX := Proofs.Partition.IsNoneXXR) pct rev ys
               = insert_pat (Some None) p (Tevec.Model.Rank.vrank (DX := Proofs.Partition.IsNoneXXR) pct rev xs)) /\
    (forall i j x, nth_error xs i = Some x -> nth_error ys j = Some x ->
       nth_error (Tevec.Model.Rank.vrank (DX := Proofs.Partition.IsNoneXXR) pct rev ys) j
       = nth_error (Tevec.Model.Rank.vrank (DX := Proofs.Partition.IsNoneXXR) pct rev xs) i).
Proof.
  intros pct rev xs ys H. split; [apply TransRank.vrank_null_insert; exact H|].
  intros i j x Hi Hj. apply (TransRank.vrank_insert_same_slot pct rev xs ys i j x H Hi Hj).
Qed.

(* The rank map under null insertion at a generic carrier — recorded unproved by extension X4, PROVED by extension X28 at
   the end of this file (C08_transparent_rank_generic, C08_transparent_rank_generic_closes_full_statement).  Without a
   law it is false: a series with ONE valid element of length 1 takes the early return and gets the literal 1.0 (`none`),
   the same element in a longer series gets `1 as f64 / 1 as f64` from the loop (C08_transparent_rank_law_necessary);
   with that one law the statement holds: relational induction through the run-length loop along the position
   embedding, Proofs/RankTransparent.v. *)
Definition C08_transparent_rank_generic_full_statement : Prop :=
  forall (A : Type) (NA : Num A) (T : Type) (D : IsNone T A) (DX : SortCmp.IsNoneX T A),
    ndiv (nofnat (A := A) 1) (nofnat 1) = none ->
    forall (pct rev : bool) (nl : T) (p : list bool) (xs : list T), is_none nl = true ->
      Tevec.Model.Rank.vrank pct rev (insert_pat nl p xs) = insert_pat (Some nnan) p (Tevec.Model.Rank.vrank pct rev xs).

(* two series with pairwise deletion: inserting pairs that are not pairwise complete *)
Theorem C08_transparent_two_series :
  forall {A} {NA : Num A} {F} {NF : Num F} (tof : A -> F) {T1 T2} {D1 : IsNone T1 A} {D2 : IsNone T2 A}
         (xs xs' : list T1) (ys ys' : list T2) (mp : nat),
    PairInsert (combine xs ys) (combine xs' ys') ->
    vcov tof mp xs' ys' = vcov tof mp xs ys /\ vcorr_pearson tof mp xs' ys' = vcorr_pearson tof mp xs ys.
Proof.
  intros A NA F NF tof T1 T2 D1 D2 xs xs' ys ys' mp H. pose proof (vpairs_pair_insert H) as HP.
  split; [apply vcov_pairs; exact HP|apply vcorr_pairs; exact HP].
Qed.

(* re-encoding and insertion compose: e.g. a float series against an optional series with extra Nones *)
Theorem C08_transparent_across_encodings :
  forall {A} {NA : Num A} {T1 T2} (D1 : IsNone T1 A) (D2 : IsNone T2 A) {F} {NF : Num F} (tof : A -> F)
         (xs : list T1) (xs' ys : list T2) (mp : nat),
    SameView D1 D2 xs xs' -> NullInsert xs' ys ->
    count_valid ys = count_valid xs /\ vsum ys = vsum xs /\ vmean tof ys = vmean tof xs /\
    vvar tof mp ys = vvar tof mp xs /\ vskew tof mp ys = vskew tof mp xs /\ vkurt tof mp ys = vkurt tof mp xs /\
    vmin ys = vmin xs /\ vmax ys = vmax xs.
Proof.
  intros A NA T1 T2 D1 D2 F NF tof xs xs' ys mp HS HI.
  assert (HV : vals ys = vals xs) by (rewrite (vals_null_insert HI); symmetry; apply vals_same_view; exact HS).
  split; [apply count_valid_vals; exact HV|]. split; [apply vsum_vals; exact HV|]. split; [apply vmean_vals; exact HV|].
  split; [apply vvar_vals; exact HV|]. split; [apply vskew_vals; exact HV|]. split; [apply vkurt_vals; exact HV|].
  split; [apply vmin_vals; exact HV|apply vmax_vals; exact HV].
Qed.

(* ======================= non-vacuity ========================================================================= *)
Example C08_ex_same_view :
  SameView (IsNone_float (H := NumZ)) (IsNone_option (H := NumZ)) [3%Z; 5%Z] [Some 3%Z; Some 5%Z].
Proof. repeat constructor. Qed.
(* a carrier with a null: option R, None is the NaN *)
Example C08_ex_same_view_null :
  SameView IsNoneXR (IsNone_view (Some 0%R)) [Some 1%R; None; Some 2%R] [Some (Some 1%R); None; Some (Some 2%R)].
Proof. repeat constructor. Qed.
Example C08_ex_null_insert :
  NullInsert (D := IsNoneXR) [Some 1%R; Some 2%R] [None; Some 1%R; None; None; Some 2%R; None].
Proof. repeat (first [apply ni_nil | apply ni_keep | apply ni_null; [reflexivity|]]). Qed.
Example C08_ex_insert_pat :
  insert_pat None [true; false; true; true] [Some 1%R; Some 2%R] = [None; Some 1%R; None; None; Some 2%R].
Proof. reflexivity. Qed.
Example C08_ex_pair_insert :
  PairInsert (D1 := IsNoneXR) (D2 := IsNoneXR)
             (combine [Some 1%R; Some 2%R] [Some 5%R; Some 7%R])
             (combine [Some 1%R; None; Some 9%R; Some 2%R] [Some 5%R; Some 4%R; None; Some 7%R]).
Proof. cbn [combine]. apply pi_keep. apply pi_null; [reflexivity|]. apply pi_null; [reflexivity|]. apply pi_keep. apply pi_nil. Qed.
(* insertion changes the positional aggregations (which is why they are not in C08_transparent_aggregations) *)
Example C08_ex_positional_not_transparent :
  vargmin (NA := AggNumZ) (DT := IsNone_opt 0%Z) [Some 1%Z] = Some 0 /\
  vargmin (NA := AggNumZ) (DT := IsNone_opt 0%Z) [None; Some 1%Z] = Some 1.
Proof. split; reflexivity. Qed.
Example C08_ex_output_types :
  In (Model.Cast.Plain (Model.Cast.N Model.Cast.F64)) CastOutput.result_tys /\
  In (Model.Cast.Opt (Model.Cast.N Model.Cast.I32)) CastOutput.output_tys.
Proof. split; cbn; auto. Qed.

(* the hypotheses of the new theorems are satisfiable: `==` / T::none() at option R; a successful quantile on an
   integer carrier with an identity floor / ceil (q = 1: the maximum) *)
Example C08_ex_tnone_rel :
  EncRank.tnone_rel (IsNone_float (A := XR)) IsNone_option SortCmp.IsNoneX_float SortCmp.IsNoneX_option.
Proof. apply EncRank.tnone_rel_float_option. reflexivity. Qed.
Example C08_ex_vrank_tie :
  Tevec.Model.Rank.vrank (DT := IsNone_option (H := NumZ)) (DX := SortCmp.IsNoneX_option) false false
                         [Some 7%Z; None; Some 7%Z; Some 7%Z; Some 3%Z]
  = [Some 3%Z; Some 0%Z; Some 3%Z; Some 3%Z; Some 1%Z] /\
  Tevec.Model.Partition.varg_partition (DT := IsNone_option (H := NumZ)) 1 true false [Some 7%Z; None; Some 7%Z; Some 7%Z; Some 3%Z]
  = [4%Z; 0%Z].
Proof. split; vm_compute; reflexivity. Qed.
Example C08_ex_quantile_ok :
  Quantile.vquantile (NA := NumZ) (NF := {| SortCmp.nfloorZ := fun z => z; SortCmp.nceilZ := fun z => z |})
                     (DT := IsNone_option (H := NumZ)) 1%Z Quantile.Lower [Some 3%Z; None; Some 5%Z]
  = Ok (Some 5%Z).
Proof. vm_compute. reflexivity. Qed.
Example C08_ex_rank_pattern :
  insert_pat (Some (@None R)) [true; false; true] [Some (Some 1%R); Some (Some 2%R)]
  = [Some None; Some (Some 1%R); Some None; Some (Some 2%R)].
Proof. reflexivity. Qed.

Example C08_ex_tnone_null :
  SortCmp.tnone (IsNoneX := SortCmp.IsNoneX_option (H := NumZ)) = Ok None /\
  is_none (IsNone := IsNone_option (H := NumZ)) None = true.
Proof. split; reflexivity. Qed.

Print Assumptions C08_encoding_aggregations.
Print Assumptions C08_encoding_order_statistics.
Print Assumptions C08_encoding_rolling_cmp.
Print Assumptions C08_encoding_rolling_two_series.
Print Assumptions C08_encoding_maps.
Print Assumptions C08_output_encoding.
Print Assumptions C08_transparent_aggregations.
Print Assumptions C08_transparent_quantile.
Print Assumptions C08_transparent_two_series.
Print Assumptions C08_encoding_vrank_statement_refuted.
Print Assumptions C08_encoding_vrank.
Print Assumptions C08_encoding_vrank_instances.
Print Assumptions C08_encoding_vrank_float_vs_option.
Print Assumptions C08_encoding_partition.
Print Assumptions C08_transparent_sort.
Print Assumptions C08_transparent_quantile_generic.
Print Assumptions C08_transparent_quantile_index_law.
Print Assumptions C08_quantile_index_law_real.
Print Assumptions C08_transparent_rank.
Print Assumptions C08_transparent_rank_insert.
Print Assumptions C08_transparent_quantile_across_encodings.
Print Assumptions C08_transparent_partition.

(* ==== extension: null transparency of the quantile AT BINARY64, outright ======================================
   Carrier: Coq's primitive `float` (IEEE 754 binary64, instance NumF64 — what the correspondence run evaluates);
   floor / ceiling: QIdxFloat.NumFloorF64 = the instance of Run/RunC12.v.  The index law that
   C08_transparent_quantile_index_law needs is proved in Proofs/QIdxFloat.v (Flocq's specification of IEEE
   arithmetic: (n-1) as f64 * q is rounded monotonically; on either branch the factor is at most 0.5).
   Axioms: the Reals axioms + the standard library's specification of the primitive float operations.           *)
From Coq Require Floats.
From Tevec Require Base.F64 Proofs.QIdxFloat.

Theorem C08_quantile_index_law_binary64 :
  TransQuantile.QIdxLaw (A := PrimFloat.float) (NA := F64.NumF64) (NF := QIdxFloat.NumFloorF64).
Proof. exact QIdxFloat.qidx_law_f64. Qed.

(* inserting nulls anywhere changes neither vquantile nor vmedian at binary64 — the same result bit for bit, the same
   Err, never a panic on either side: every q, every method, every null dictionary over f64 (NaN, Option<f64>) *)
Theorem C08_transparent_quantile_binary64 :
  forall {T} {D : IsNone T PrimFloat.float} (q : PrimFloat.float) (m : Quantile.qmethod) (xs ys : list T),
    NullInsert xs ys ->
    Quantile.vquantile (NF := QIdxFloat.NumFloorF64) q m ys = Quantile.vquantile (NF := QIdxFloat.NumFloorF64) q m xs /\
    Quantile.vmedian (NF := QIdxFloat.NumFloorF64) ys = Quantile.vmedian (NF := QIdxFloat.NumFloorF64) xs.
Proof. intros T D q m xs ys H. apply QIdxFloat.vquantile_null_transparent_f64. exact H. Qed.

(* ---- non-vacuity ---- *)
From Coq Require Import Floats.   (* float literals *)
Example C08_ex_null_insert_binary64 :
  NullInsert (D := F64.IsNoneF64) [3%float; 1%float; 2%float] [PrimFloat.nan; 3%float; 1%float; PrimFloat.nan; 2%float] /\
  Quantile.vquantile (NF := QIdxFloat.NumFloorF64) (DT := F64.IsNoneF64) 0.25%float Quantile.Linear
                     [PrimFloat.nan; 3%float; 1%float; PrimFloat.nan; 2%float] = Ok (Some 1.5%float).
Proof.
  split; [|vm_compute; reflexivity].
  apply ni_null; [reflexivity|]. apply ni_keep, ni_keep. apply ni_null; [reflexivity|]. apply ni_keep, ni_nil.
Qed.

Print Assumptions C08_quantile_index_law_binary64.
Print Assumptions C08_transparent_quantile_binary64.

(* ==== extension X28: rank transparency at a GENERIC carrier ======================================================
   `C08_transparent_rank_generic_full_statement` (above, recorded unproved by extension X4) is now a theorem.
   Carrier: every `Num A`; dictionary: every `IsNone T A` with every `IsNoneX T A` (an arbitrary `==`); no order law on
   the comparison of two non-null values; the ONE law used is `RankUnitLaw A`: `1 as f64 / 1 as f64 = 1.0`
   (`nofnat 1 / nofnat 1 = none`), which reconciles the literal `1.0` of the length-1 early return with the
   `sum_rank / repeat_num` that the loop writes for a lone valid element followed by nulls.  The law holds at Z,
   option R and binary64 (by computation there: no float axiom), and it is necessary (a carrier where it fails and the
   transparency fails with it).  Proofs: Proofs/RankTransparent.v (axiom-free).                                   *)
From Tevec Require Proofs.RankTransparent.

Theorem C08_rank_unit_law_instances :
  RankTransparent.RankUnitLaw Z (NA := NumZ) /\
  RankTransparent.RankUnitLaw XR (NA := NumXR) /\
  RankTransparent.RankUnitLaw PrimFloat.float (NA := F64.NumF64).
Proof.
  split; [exact RankTransparent.rank_unit_law_Z|].
  split; [exact RankTransparent.rank_unit_law_xr|exact RankTransparent.rank_unit_law_f64].
Qed.

(* step (1) of the plan: the sorted index vector of a series is the sorted index vector of its valid elements,
   re-indexed by the positions of the valid elements (`vphi ys k` = position in ys of the k-th valid element), followed
   by the null positions in input order — whatever the comparator does on two non-null values *)
Theorem C08_transparent_argsort :
  forall {A} {NA : Num A} {T} {D : IsNone T A} (rev : bool) (ys : list T),
    SortCmp.isort (SortCmp.cmp_idx (SortCmp.cmp_dir rev) ys) (seq 0 (length ys))
    = map (RankTransparent.vphi ys)
          (SortCmp.isort (SortCmp.cmp_idx (SortCmp.cmp_dir rev) (filter not_none ys)) (seq 0 (SortCmp.count_valid ys)))
      ++ RankTransparent.npos ys.
Proof. intros A NA T D rev ys. apply RankTransparent.argsort_split. Qed.

(* deleting every null: the ranks of a series are the ranks of its valid elements, put back at the valid slots in order
   (`scatter`), and NaN at the null slots — the rank map is a function of the valid elements and of the null mask *)
Theorem C08_transparent_rank_valid_only :
  forall {A} {NA : Num A} {T} {D : IsNone T A} {DX : SortCmp.IsNoneX T A},
    RankTransparent.RankUnitLaw A ->
    forall (pct rev : bool) (ys : list T),
      Tevec.Model.Rank.vrank pct rev ys
        = RankTransparent.scatter ys (Tevec.Model.Rank.vrank pct rev (filter not_none ys)) /\
      length (Tevec.Model.Rank.vrank pct rev (filter not_none ys)) = SortCmp.count_valid ys.
Proof. intros A NA T D DX HL pct rev ys. apply RankTransparent.vrank_delete_nulls. exact HL. Qed.

(* the recorded statement: inserting nulls by ANY pattern leaves the rank of every original element unchanged — the
   same term, hence bit for bit — and gives the inserted positions the null rank; pct and plain ranks, both directions *)
Theorem C08_transparent_rank_generic :
  forall (A : Type) (NA : Num A) (T : Type) (D : IsNone T A) (DX : SortCmp.IsNoneX T A),
    ndiv (nofnat (A := A) 1) (nofnat 1) = none ->
    forall (pct rev : bool) (nl : T) (p : list bool) (xs : list T), is_none nl = true ->
      Tevec.Model.Rank.vrank pct rev (insert_pat nl p xs) = insert_pat (Some nnan) p (Tevec.Model.Rank.vrank pct rev xs).
Proof. intros A NA T D DX HL pct rev nl p xs Hn. apply RankTransparent.vrank_insert_pat_generic; assumption. Qed.

Theorem C08_transparent_rank_generic_closes_full_statement : C08_transparent_rank_generic_full_statement.
Proof. exact C08_transparent_rank_generic. Qed.

(* the inductive insertion (the inserted nulls may be different null elements: NaNs with different payloads, None):
   the pattern is read off the option views *)
Theorem C08_transparent_rank_insert_generic :
  forall {A} {NA : Num A} {T} {D : IsNone T A} {DX : SortCmp.IsNoneX T A},
    RankTransparent.RankUnitLaw A ->
    forall (pct rev : bool) (xs ys : list T),
      NullInsert xs ys ->
      exists p, opt_view ys = insert_pat None p (opt_view xs) /\
                Tevec.Model.Rank.vrank pct rev ys = insert_pat (Some nnan) p (Tevec.Model.Rank.vrank pct rev xs).
Proof. intros A NA T D DX HL pct rev xs ys H. apply RankTransparent.vrank_null_insert_generic; assumption. Qed.

(* re-encoding and insertion composed: e.g. a float series against its Option rendering with extra Nones *)
Theorem C08_transparent_rank_across_encodings :
  forall {A} {NA : Num A} {T1 T2} (D1 : IsNone T1 A) (D2 : IsNone T2 A)
         (DX1 : SortCmp.IsNoneX T1 A) (DX2 : SortCmp.IsNoneX T2 A) (pct rev : bool) (xs : list T1) (xs' ys : list T2),
    RankTransparent.RankUnitLaw A -> EncRank.EqbView D1 D2 DX1 DX2 -> SameView D1 D2 xs xs' -> NullInsert (D := D2) xs' ys ->
    exists p, opt_view (D := D2) ys = insert_pat None p (opt_view (D := D1) xs) /\
              Tevec.Model.Rank.vrank (DT := D2) (DX := DX2) pct rev ys
              = insert_pat (Some nnan) p (Tevec.Model.Rank.vrank (DT := D1) (DX := DX1) pct rev xs).
Proof. intros A NA T1 T2 D1 D2 DX1 DX2 pct rev xs xs' ys HL HE HS HI.
  apply (RankTransparent.vrank_insert_across_encodings D1 D2 DX1 DX2 pct rev xs xs' ys HL HE HS HI).
Qed.

(* AT BINARY64 (Coq's primitive float, the instance the correspondence run evaluates), outright: every null dictionary
   over f64 (NaN is the null; Option<f64>), every `==`; no float axiom is needed — the law is a computation *)
Theorem C08_transparent_rank_binary64 :
  forall {T} {D : IsNone T PrimFloat.float} {DX : SortCmp.IsNoneX T PrimFloat.float}
         (pct rev : bool) (nl : T) (p : list bool) (xs : list T), is_none nl = true ->
    Tevec.Model.Rank.vrank (NA := F64.NumF64) pct rev (insert_pat nl p xs)
    = insert_pat (Some PrimFloat.nan) p (Tevec.Model.Rank.vrank (NA := F64.NumF64) pct rev xs).
Proof.
  intros T D DX pct rev nl p xs Hn.
  apply (RankTransparent.vrank_insert_pat_generic RankTransparent.rank_unit_law_f64 pct rev nl p xs Hn).
Qed.

(* at the integer carrier (ranks computed with the integer arithmetic of NumZ; dictionaries with a null, e.g. Option<i32>) *)
Theorem C08_transparent_rank_integer :
  forall {T} {D : IsNone T Z} {DX : SortCmp.IsNoneX T Z} (pct rev : bool) (nl : T) (p : list bool) (xs : list T),
    is_none nl = true ->
    Tevec.Model.Rank.vrank (NA := NumZ) pct rev (insert_pat nl p xs)
    = insert_pat (Some 0%Z) p (Tevec.Model.Rank.vrank (NA := NumZ) pct rev xs).
Proof.
  intros T D DX pct rev nl p xs Hn.
  apply (RankTransparent.vrank_insert_pat_generic RankTransparent.rank_unit_law_Z pct rev nl p xs Hn).
Qed.

(* the law is necessary: the integers with a division returning 0 — the law fails, and a lone valid element gets rank
   1 alone and rank 0 next to an inserted null *)
Theorem C08_transparent_rank_law_necessary :
  exists (NA : Num Z),
    ~ RankTransparent.RankUnitLaw Z (NA := NA) /\
    Tevec.Model.Rank.vrank (NA := NA) (DT := IsNone_option (H := NA)) (DX := SortCmp.IsNoneX_option (H := NA))
          false false (insert_pat None [true] [Some 5%Z])
    <> insert_pat (Some (nnan (Num := NA))) [true]
         (Tevec.Model.Rank.vrank (NA := NA) (DT := IsNone_option (H := NA)) (DX := SortCmp.IsNoneX_option (H := NA))
                false false [Some 5%Z]).
Proof. exists RankTransparent.NumZ_baddiv. exact RankTransparent.rank_unit_law_necessary. Qed.

(* ---- non-vacuity ---- *)
(* a null element, a pattern, ties, both dictionaries over binary64: the ranks of 3, 1, 3 are 2.5, 1, 2.5 wherever
   the NaNs / Nones are inserted *)
Example C08_ex_rank_insert_binary64 :
  is_none (IsNone := F64.IsNoneF64) PrimFloat.nan = true /\
  insert_pat PrimFloat.nan [true; false; true; false] [3%float; 1%float; 3%float]
    = [PrimFloat.nan; 3%float; PrimFloat.nan; 1%float; 3%float] /\
  Tevec.Model.Rank.vrank (DT := F64.IsNoneF64) (DX := SortCmp.IsNoneX_float) false false
      [PrimFloat.nan; 3%float; PrimFloat.nan; 1%float; 3%float]
    = [Some PrimFloat.nan; Some 2.5%float; Some PrimFloat.nan; Some 1%float; Some 2.5%float] /\
  Tevec.Model.Rank.vrank (DT := F64.IsNoneOptF64) (DX := SortCmp.IsNoneX_option) true true
      [Some 3%float; None; Some 1%float; None]
    = [Some 0.5%float; Some PrimFloat.nan; Some 1%float; Some PrimFloat.nan].
Proof. repeat split; vm_compute; reflexivity. Qed.
(* the lone valid element: early return (`1.0`) vs loop (`1 / 1`) — the case the law is for *)
Example C08_ex_rank_lone_valid_binary64 :
  Tevec.Model.Rank.vrank (DT := F64.IsNoneF64) (DX := SortCmp.IsNoneX_float) true false [7%float] = [Some 1%float] /\
  Tevec.Model.Rank.vrank (DT := F64.IsNoneF64) (DX := SortCmp.IsNoneX_float) true false [PrimFloat.nan; 7%float; PrimFloat.nan]
    = [Some PrimFloat.nan; Some 1%float; Some PrimFloat.nan].
Proof. split; vm_compute; reflexivity. Qed.
(* premises of the across-encodings form *)
Example C08_ex_rank_across_premises :
  SameView (IsNone_float (H := F64.NumF64)) (IsNone_option (H := F64.NumF64)) [3%float; PrimFloat.nan] [Some 3%float; None] /\
  NullInsert (D := IsNone_option (H := F64.NumF64)) [Some 3%float; None] [None; Some 3%float; None].
Proof. split; [repeat constructor|]. apply ni_null; [reflexivity|]. apply ni_keep, ni_keep, ni_nil. Qed.

Print Assumptions C08_rank_unit_law_instances.
Print Assumptions C08_transparent_argsort.
Print Assumptions C08_transparent_rank_valid_only.
Print Assumptions C08_transparent_rank_generic.
Print Assumptions C08_transparent_rank_generic_closes_full_statement.
Print Assumptions C08_transparent_rank_insert_generic.
Print Assumptions C08_transparent_rank_across_encodings.
Print Assumptions C08_transparent_rank_binary64.
Print Assumptions C08_transparent_rank_integer.
Print Assumptions C08_transparent_rank_law_necessary.

(* ==== AUDIT (notes/C08.md "Audit matrix"; proofs in Proofs/Audit08.v, Audit08Float.v) ===============================
   (A1)-(A2) the mechanism: the null-skipping folds of iter_traits.rs with an ARBITRARY callback; (A3)-(A4) the boolean
   aggregations vany / vall; (A5)-(A7) the masked family of tea-agg; (A8)-(A9) what insertion DOES change, exactly;
   (A10) re-encoding and insertion composed for the whole family; (A11) the canonical-null assumption is necessary;
   (A12)-(A14) binary64 instances. *)
From Tevec Require Proofs.Audit08 Proofs.Audit08Float.

(* (A1) vfold_n / vapply_n (callback on the unwrapped value): any callback, any accumulator; vfold (callback on the
   element): callbacks that agree on elements with equal option views *)
Theorem C08_fold_mechanism_encoding :
  forall {A T1 T2} (D1 : IsNone T1 A) (D2 : IsNone T2 A) (xs1 : list T1) (xs2 : list T2), SameView D1 D2 xs1 xs2 ->
    (forall {U} (f : U -> A -> U) init,
       vfold_n (DT := D1) f init xs1 = vfold_n (DT := D2) f init xs2 /\ vapply_n (DT := D1) f init xs1 = vapply_n (DT := D2) f init xs2)
    /\ (forall {U} (f1 : U -> T1 -> U) (f2 : U -> T2 -> U) init,
          (forall acc a b, same_view D1 D2 a b -> not_none b = true -> f1 acc a = f2 acc b) ->
          vfold (DT := D1) f1 init xs1 = vfold (DT := D2) f2 init xs2).
Proof.
  intros A T1 T2 D1 D2 xs1 xs2 H. split.
  - intros U f init. split; [apply Audit08.vfold_n_same_view|apply Audit08.vapply_n_same_view]; exact H.
  - intros U f1 f2 init Hf. apply Audit08.vfold_same_view; assumption.
Qed.
(* (A2) ... and under null insertion *)
Theorem C08_fold_mechanism_transparent :
  forall {A T} {D : IsNone T A} (xs ys : list T), NullInsert xs ys ->
    (forall {U} (f : U -> A -> U) init, vfold_n f init ys = vfold_n f init xs /\ vapply_n f init ys = vapply_n f init xs)
    /\ (forall {U} (f : U -> T -> U) init, vfold f init ys = vfold f init xs).
Proof.
  intros A T D xs ys H. split.
  - intros U f init. split; [apply Audit08.vfold_n_insert|apply Audit08.vapply_n_insert]; exact H.
  - intros U f init. apply Audit08.vfold_insert. exact H.
Qed.
(* (A3) vany / vall (agg.rs:168, 200): Vec<bool> against Vec<Option<bool>> against the option view *)
Theorem C08_encoding_bool_aggregations :
  forall {T1 T2} (D1 : IsNone T1 bool) (D2 : IsNone T2 bool) (xs1 : list T1) (xs2 : list T2), SameView D1 D2 xs1 xs2 ->
    vany (DB := D1) xs1 = vany (DB := D2) xs2 /\ vall (DB := D1) xs1 = vall (DB := D2) xs2.
Proof. intros T1 T2 D1 D2 xs1 xs2 H. split; [apply Audit08.vany_same_view|apply Audit08.vall_same_view]; exact H. Qed.
(* (A4) nulls are neither true nor false *)
Theorem C08_transparent_bool_aggregations :
  forall {T} (D : IsNone T bool) (xs ys : list T),
    (NullInsert xs ys -> vany (DB := D) ys = vany (DB := D) xs /\ vall (DB := D) ys = vall (DB := D) xs)
    /\ ((forall v, In v xs -> is_none v = true) -> vany (DB := D) xs = false /\ vall (DB := D) xs = true).
Proof.
  intros T D xs ys. split.
  - intros H. split; [apply Audit08.vany_insert|apply Audit08.vall_insert]; exact H.
  - apply Audit08.bool_aggs_all_null.
Qed.
(* (A5) the masked sum / count / mean (tea-agg/src/lib.rs:26-99): data and mask re-encoded independently *)
Theorem C08_encoding_masked :
  forall {A} {NA : Num A} {F} {NF : Num F} (tof : A -> F) {T1 T2 U1 U2}
         (D1 : IsNone T1 A) (D2 : IsNone T2 A) (E1 : IsNone U1 bool) (E2 : IsNone U2 bool)
         (xs1 : list T1) (xs2 : list T2) (m1 : list U1) (m2 : list U2) (mp : nat),
    SameView D1 D2 xs1 xs2 -> SameView E1 E2 m1 m2 ->
    n_vsum_filter (DT := D1) (DU := E1) xs1 m1 = n_vsum_filter (DT := D2) (DU := E2) xs2 m2
    /\ n_sum_filter (DT := D1) (DU := E1) xs1 m1 = n_sum_filter (DT := D2) (DU := E2) xs2 m2
    /\ vmean_filter (DT := D1) (DU := E1) tof mp xs1 m1 = vmean_filter (DT := D2) (DU := E2) tof mp xs2 m2.
Proof. intros. apply Audit08.masked_same_view; assumption. Qed.
(* (A6) ... transparent to inserted observations that do not count: flag null, flag false, or value null *)
Theorem C08_transparent_masked :
  forall {A} {NA : Num A} {F} {NF : Num F} (tof : A -> F) {T U} {DT : IsNone T A} {DU : IsNone U bool}
         (xs xs' : list T) (m m' : list U) (mp : nat),
    Audit08.MaskInsert (combine xs m) (combine xs' m') ->
    n_vsum_filter xs' m' = n_vsum_filter xs m /\ n_sum_filter xs' m' = n_sum_filter xs m
    /\ vmean_filter tof mp xs' m' = vmean_filter tof mp xs m.
Proof. intros A NA F NF tof T U DT DU xs xs' m m' mp H. exact (Audit08.masked_insert tof xs xs' m m' mp H). Qed.
(* (A7) an all-true mask selects everything: the masked family is then the valid family of the whole series *)
Theorem C08_masked_all_true :
  forall {T} (xs : list T), mask_filter (DU := IsNone_plain) xs (map (fun _ => true) xs) = xs.
Proof. intros. apply Audit08.masked_all_true. Qed.
(* (A8) what insertion changes, exactly: the length and the number of nulls grow by the number of inserted elements,
   the number of valid elements does not, and count_valid + count_none = len stays true *)
Theorem C08_insertion_changes_exactly :
  forall {A} {NA : Num A} {T} {D : IsNone T A} (xs ys : list T), NullInsert xs ys ->
    length xs <= length ys /\ count_valid ys = count_valid xs
    /\ count_none ys = count_none xs + (length ys - length xs) /\ count_valid ys + count_none ys = length ys.
Proof. intros A NA T D xs ys H. exact (Audit08.insert_counts H). Qed.
(* (A9) counting the NULL value counts the nulls (it is not transparent, and must not be) *)
Theorem C08_count_null_value :
  forall {A} {NA : Num A} {T} {D : IsNone T A} (nl : T) (xs ys : list T), is_none nl = true ->
    vcount_value nl xs = count_none xs
    /\ (NullInsert xs ys -> vcount_value nl ys = vcount_value nl xs + (length ys - length xs)).
Proof.
  intros A NA T D nl xs ys Hn. split; [apply Audit08.vcount_null_is_count_none; exact Hn|].
  intros H. apply Audit08.vcount_null_insert; assumption.
Qed.
(* (A10) re-encoding and insertion composed: the whole aggregation family and every vfold_n-based aggregation *)
Theorem C08_transparent_across_encodings_full :
  forall {A} {NA : Num A} {T1 T2} (D1 : IsNone T1 A) (D2 : IsNone T2 A) {F} {NF : Num F} (tof : A -> F)
         (xs : list T1) (xs' ys : list T2),
    SameView D1 D2 xs xs' -> NullInsert xs' ys ->
    vals ys = vals xs /\
    count_valid ys = count_valid xs /\ vsum ys = vsum xs /\ vmean tof ys = vmean tof xs /\
    vmin ys = vmin xs /\ vmax ys = vmax xs /\
    option_map unwrap (vfirst ys) = option_map unwrap (vfirst xs) /\
    option_map unwrap (vlast ys) = option_map unwrap (vlast xs) /\
    (forall mp, vmean_var tof mp ys = vmean_var tof mp xs /\ vvar tof mp ys = vvar tof mp xs /\
                vstd tof mp ys = vstd tof mp xs /\ vskew tof mp ys = vskew tof mp xs /\
                vkurt tof mp ys = vkurt tof mp xs) /\
    (forall (v1 : T1) (v2 : T2), same_view D1 D2 v1 v2 -> not_none v1 = true -> vcount_value v2 ys = vcount_value v1 xs) /\
    (forall {U} (f : U -> A -> U) init, vfold_n f init ys = vfold_n f init xs).
Proof. intros A NA T1 T2 D1 D2 F NF tof xs xs' ys HS HI. exact (Audit08.across_encodings_full tof HS HI). Qed.
(* (A11) canonical nulls only (DESIGN 5.4) is a NECESSARY assumption: on every carrier with a NaN, Some(NaN) in an
   optional series is not the null of the float series — it is counted and summed as a valid element *)
Theorem C08_noncanonical_null_excluded :
  forall {A} {NA : Num A}, nisnan (nnan : A) = true ->
    ~ same_view (IsNone_float (A := A)) IsNone_option nnan (Some nnan)
    /\ count_valid (DT := IsNone_float (A := A)) [nnan] = 0 /\ count_valid (DT := IsNone_option (A := A)) [Some nnan] = 1
    /\ vsum (DT := IsNone_float (A := A)) [nnan] = None /\ vsum (DT := IsNone_option (A := A)) [Some nnan] = Some (nadd nzero nnan).
Proof.
  intros A NA H. split; [exact (Audit08.some_nan_not_same_view H)|]. exact (Audit08.some_nan_counts_as_valid H).
Qed.
(* (A12)-(A14) at binary64 (NumF64, what the correspondence evaluates), outright, bit for bit *)
Theorem C08_encoding_aggregations_binary64 :
  forall xs : list PrimFloat.float,
  let ys := map Audit08Float.opt_of_f64 xs in
  count_valid xs = count_valid ys /\ count_none xs = count_none ys /\ vsum xs = vsum ys
  /\ vmean (fun x : PrimFloat.float => x) xs = vmean (fun x : PrimFloat.float => x) ys /\ vmin xs = vmin ys /\ vmax xs = vmax ys
  /\ vargmin xs = vargmin ys /\ vargmax xs = vargmax ys
  /\ (forall mp, vmean_var (fun x : PrimFloat.float => x) mp xs = vmean_var (fun x : PrimFloat.float => x) mp ys
                 /\ vstd (fun x : PrimFloat.float => x) mp xs = vstd (fun x : PrimFloat.float => x) mp ys
                 /\ vskew (fun x : PrimFloat.float => x) mp xs = vskew (fun x : PrimFloat.float => x) mp ys
                 /\ vkurt (fun x : PrimFloat.float => x) mp xs = vkurt (fun x : PrimFloat.float => x) mp ys).
Proof. exact Audit08Float.f64_encoding_aggregations. Qed.
Theorem C08_nan_insertion_binary64 :
  forall (p : list bool) (xs : list PrimFloat.float),
  let ys := insert_pat PrimFloat.nan p xs in
  count_valid ys = count_valid xs /\ vsum ys = vsum xs
  /\ vmean (fun x : PrimFloat.float => x) ys = vmean (fun x : PrimFloat.float => x) xs
  /\ vmin ys = vmin xs /\ vmax ys = vmax xs
  /\ (forall mp, vmean_var (fun x : PrimFloat.float => x) mp ys = vmean_var (fun x : PrimFloat.float => x) mp xs
                 /\ vstd (fun x : PrimFloat.float => x) mp ys = vstd (fun x : PrimFloat.float => x) mp xs
                 /\ vskew (fun x : PrimFloat.float => x) mp ys = vskew (fun x : PrimFloat.float => x) mp xs
                 /\ vkurt (fun x : PrimFloat.float => x) mp ys = vkurt (fun x : PrimFloat.float => x) mp xs)
  /\ count_none ys = (count_none xs + (length ys - length xs))%nat.
Proof. exact Audit08Float.f64_nan_insertion. Qed.
Theorem C08_some_nan_binary64 :
  ~ same_view F64.IsNoneF64 F64.IsNoneOptF64 PrimFloat.nan (Some PrimFloat.nan)
  /\ count_valid (DT := F64.IsNoneF64) [PrimFloat.nan] = 0%nat /\ count_valid (DT := F64.IsNoneOptF64) [Some PrimFloat.nan] = 1%nat.
Proof. exact Audit08Float.f64_some_nan_is_not_null. Qed.

(* ---- non-vacuity ---- *)
Example C08_ex_audit_bool :
  SameView (IsNone_plain (A := bool)) (IsNone_opt false) [true; false] [Some true; Some false]
  /\ vany (DB := IsNone_opt false) [None; Some false; None] = false /\ vall (DB := IsNone_opt false) [None; Some false; None] = false
  /\ vall (DB := IsNone_opt false) [None; None] = true /\ vany (DB := IsNone_opt false) [None; None] = false.
Proof. split; [repeat constructor|]. vm_compute. auto. Qed.
Example C08_ex_audit_mask_insert :
  (* base: values [1; 2] with flags [true; true]; inserted: (9, false), (null, true), (7, null flag) *)
  Audit08.MaskInsert (D := IsNone_opt 0%Z) (DU := IsNone_opt false)
    (combine [Some 1%Z; Some 2%Z] [Some true; Some true])
    (combine [Some 9%Z; Some 1%Z; None; Some 7%Z; Some 2%Z] [Some false; Some true; Some true; None; Some true])
  /\ n_vsum_filter (NA := AggNumZ) (DT := IsNone_opt 0%Z) (DU := IsNone_opt false)
       [Some 9%Z; Some 1%Z; None; Some 7%Z; Some 2%Z] [Some false; Some true; Some true; None; Some true] = (2, 3%Z).
Proof.
  split; [|vm_compute; reflexivity]. cbn [combine].
  apply Audit08.mi_skip; [reflexivity|]. apply Audit08.mi_keep. apply Audit08.mi_skip; [reflexivity|].
  apply Audit08.mi_skip; [reflexivity|]. apply Audit08.mi_keep. apply Audit08.mi_nil.
Qed.
Example C08_ex_audit_binary64 :
  Audit08Float.opt_of_f64 PrimFloat.nan = None /\ Audit08Float.opt_of_f64 1%float = Some 1%float
  /\ vsum (NA := F64.NumF64) (DT := F64.IsNoneF64) (insert_pat PrimFloat.nan [true; false; true] [1%float; 2.5%float]) = Some 3.5%float.
Proof. vm_compute. auto. Qed.

Print Assumptions C08_fold_mechanism_encoding.
Print Assumptions C08_fold_mechanism_transparent.
Print Assumptions C08_encoding_bool_aggregations.
Print Assumptions C08_transparent_bool_aggregations.
Print Assumptions C08_encoding_masked.
Print Assumptions C08_transparent_masked.
Print Assumptions C08_masked_all_true.
Print Assumptions C08_insertion_changes_exactly.
Print Assumptions C08_count_null_value.
Print Assumptions C08_transparent_across_encodings_full.
Print Assumptions C08_noncanonical_null_excluded.
Print Assumptions C08_encoding_aggregations_binary64.
Print Assumptions C08_nan_insertion_binary64.
Print Assumptions C08_some_nan_binary64.
