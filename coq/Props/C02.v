(* Props/C02.v — property C02: rolling drivers call back once per position with exactly the right
   window.  Only theorem statements, closed by `exact`; `Check` pins; `Print Assumptions`.       *)
From Tevec Require Import Base.Prelude Model.Driver Proofs.Driver.

(* (1) once per position, in increasing order, carrying x_i — for EVERY stateful callback:
       both bodies perform the call list  mapi (fun i x_i => (removed_i, x_i)) xs. *)
Theorem C02_once_in_order_returned :
  forall (T St O : Type) (f : St -> option T * T -> St * O) (s0 : St) (xs : list T) (w : nat),
    1 <= w ->
    rolling_apply_default w f s0 xs = Done (run f s0 (mapi (fun i v => (removed w xs i, v)) xs)).
Proof. intros; apply rolling_apply_default_eq; assumption. Qed.

Theorem C02_once_in_order_buffer :
  forall (T St O : Type) (f : St -> option T * T -> St * O) (s0 : St) (xs : list T) (w : nat),
    1 <= w ->
    rolling_apply_to w f s0 xs = Done (run f s0 (mapi (fun i v => (removed_to w xs i, v)) xs)).
Proof. intros; apply rolling_apply_to_eq; assumption. Qed.

Theorem C02_once_in_order_idx_returned :
  forall (T St O : Type) (f : St -> option nat * nat * T -> St * O) (s0 : St) (xs : list T) (w : nat),
    1 <= w ->
    rolling_apply_idx_default w f s0 xs
    = Done (run f s0 (mapi (fun i v => (start_of w i, i, v)) xs)).
Proof. intros; apply rolling_apply_idx_default_eq; assumption. Qed.

Theorem C02_once_in_order_idx_buffer :
  forall (T St O : Type) (f : St -> option nat * nat * T -> St * O) (s0 : St) (xs : list T) (w : nat),
    1 <= w ->
    rolling_apply_idx_to w f s0 xs
    = Done (run f s0 (mapi (fun i v => (start_of (Nat.min w (length xs)) i, i, v)) xs)).
Proof. intros; apply rolling_apply_idx_to_eq; assumption. Qed.

(* (2) the removed argument: element i-(w-1) from position w-1 on, nothing during warm-up *)
Theorem C02_removed_arg_returned :
  forall (T : Type) (w : nat) (xs : list T) (i : nat),
    1 <= w -> i < length xs ->
    (w - 1 <= i -> removed w xs i = nth_error xs (i - (w - 1)) /\ removed w xs i <> None) /\
    (i < w - 1 -> removed w xs i = None).
Proof. exact (@removed_spec). Qed.

Theorem C02_removed_arg_buffer :
  forall (T : Type) (w : nat) (xs : list T) (i : nat),
    1 <= w -> i < length xs ->
    (w - 1 <= i -> removed_to w xs i = nth_error xs (i - (w - 1))) /\
    (i < Nat.min w (length xs) - 1 -> removed_to w xs i = None).
Proof. exact (@removed_to_spec). Qed.

Theorem C02_start_index :
  forall (w len i : nat), i < len -> (w <= len \/ S i < len) ->
    start_of (Nat.min w len) i = start_of w i.
Proof. exact start_of_min_eq. Qed.

(* (3) slice forms pass exactly win w i xs = positions max(0,i-w+1)..=i, on both bodies *)
Theorem C02_slice_arg_returned :
  forall (T St O : Type) (f : St -> list T -> St * O) (s0 : St) (xs : list T) (w : nat),
    1 <= w ->
    rolling_custom_default w f s0 xs
    = Done (run f s0 (map (fun i => win w i xs) (seq 0 (length xs)))).
Proof. intros; apply rolling_custom_default_eq; assumption. Qed.

Theorem C02_slice_arg_buffer :
  forall (T St O : Type) (f : St -> list T -> St * O) (s0 : St) (xs : list T) (w : nat),
    1 <= w ->
    rolling_custom_to w f s0 xs = Done (run f s0 (map (fun i => win w i xs) (seq 0 (length xs)))).
Proof. intros; apply rolling_custom_to_eq; assumption. Qed.

(* (4) output placement: result k of the run is stored at position k; the output is as long as the input *)
Theorem C02_output_placement :
  forall (St X O : Type) (g : St -> X -> St * O) (s0 : St) (args : list X) (i : nat) (a : X),
    nth_error args i = Some a ->
    nth_error (run g s0 args) i = Some (snd (g (state_after g s0 (firstn i args)) a)).
Proof. exact (@run_placement). Qed.

Theorem C02_output_length :
  forall (St X O : Type) (g : St -> X -> St * O) (s0 : St) (args : list X),
    length (run g s0 args) = length args.
Proof. exact (@run_length). Qed.

(* (5) the two bodies differ only in the removed value at the final position when w > len ... *)
Theorem C02_bodies_same_removed :
  forall (T : Type) (w : nat) (xs : list T) (i : nat),
    i < length xs -> (w <= length xs \/ S i < length xs) -> removed_to w xs i = removed w xs i.
Proof. exact (@removed_to_eq). Qed.

(* ... which no output can depend on: for every add-emit-remove callback the two bodies agree *)
Theorem C02_bodies_agree :
  forall (T St O : Type) (pre : St -> T -> St) (emit : St -> O) (post : St -> option T -> St)
         (w : nat) (s0 : St) (xs : list T),
    1 <= w ->
    rolling_apply_to w (aer pre emit post) s0 xs = rolling_apply_default w (aer pre emit post) s0 xs.
Proof. exact (@rolling_apply_bodies_agree). Qed.

(* non-vacuity: a concrete run exercising w > len and w <= len *)
Example C02_example :
  rolling_apply_to 2 (fun (s : nat) (a : option nat * nat) => (s + 1, (s, a))) 0 [7; 8; 9]
  = Done [(0, (None, 7)); (1, (Some 7, 8)); (2, (Some 8, 9))]
  /\ rolling_apply_default 5 (fun (s : nat) (a : option nat * nat) => (s + 1, (s, a))) 0 [7; 8]
  = Done [(0, (None, 7)); (1, (None, 8))]
  /\ rolling_apply_to 5 (fun (s : nat) (a : option nat * nat) => (s + 1, (s, a))) 0 [7; 8]
  = Done [(0, (None, 7)); (1, (Some 7, 8))].
Proof. vm_compute. auto. Qed.

(* ======================================================================================================
   (X12) EVERY window, 0 included, and the two-series entry points in every combination of lengths.
   `bad_window w xs` = (w = 0 and xs non-empty) - the assertion `window > 0 || len == 0`.  The statements
   are equalities between the entry point and a closed form with the panics in the order of the code.     *)
Theorem C02_every_window_returned :
  forall (T St O : Type) (w : nat) (f : St -> option T * T -> St * O) (s0 : St) (xs : list T),
    rolling_apply_default w f s0 xs =
    if bad_window w xs then Panicked AssertFail
    else Done (run f s0 (mapi (fun i v => (removed w xs i, v)) xs)).
Proof. exact @rolling_apply_default_total. Qed.

Theorem C02_every_window_buffer :
  forall (T St O : Type) (w : nat) (f : St -> option T * T -> St * O) (s0 : St) (xs : list T),
    rolling_apply_to w f s0 xs =
    if bad_window w xs then Panicked AssertFail
    else Done (run f s0 (mapi (fun i v => (removed_to w xs i, v)) xs)).
Proof. exact @rolling_apply_to_total. Qed.

Theorem C02_every_window_idx_returned :
  forall (T St O : Type) (w : nat) (f : St -> option nat * nat * T -> St * O) (s0 : St) (xs : list T),
    rolling_apply_idx_default w f s0 xs =
    if bad_window w xs then Panicked AssertFail
    else Done (run f s0 (mapi (fun i v => (start_of w i, i, v)) xs)).
Proof. exact @rolling_apply_idx_default_total. Qed.

Theorem C02_every_window_idx_buffer :
  forall (T St O : Type) (w : nat) (f : St -> option nat * nat * T -> St * O) (s0 : St) (xs : list T),
    rolling_apply_idx_to w f s0 xs =
    if bad_window w xs then Panicked AssertFail
    else Done (run f s0 (mapi (fun i v => (start_of (Nat.min w (length xs)) i, i, v)) xs)).
Proof. exact @rolling_apply_idx_to_total. Qed.

(* slice forms: the returned path computes `window - 1` first - underflow at window 0 even on an empty series *)
Theorem C02_every_window_slice_returned :
  forall (T St O : Type) (w : nat) (f : St -> list T -> St * O) (s0 : St) (xs : list T),
    rolling_custom_default w f s0 xs =
    if w =? 0 then Panicked Underflow else Done (run f s0 (windows w xs)).
Proof. exact @rolling_custom_default_total. Qed.

Theorem C02_every_window_slice_buffer :
  forall (T St O : Type) (w : nat) (f : St -> list T -> St * O) (s0 : St) (xs : list T),
    rolling_custom_to w f s0 xs =
    if bad_window w xs then Panicked AssertFail else Done (run f s0 (windows w xs)).
Proof. exact @rolling_custom_to_total. Qed.

Theorem C02_bodies_agree_every_window :
  forall (T St O : Type) (pre : St -> T -> St) (emit : St -> O) (post : St -> option T -> St)
         (w : nat) (s0 : St) (xs : list T),
    rolling_apply_to w (aer pre emit post) s0 xs = rolling_apply_default w (aer pre emit post) s0 xs.
Proof. exact @rolling_apply_bodies_agree_total. Qed.

(* ---- two series.  Returned path (default trait method): the window is asserted on the FIRST series only,
   then the two series are zipped (one call per pair, the result has min(len xs, len ys) entries). ---- *)
Theorem C02_two_series_returned :
  forall (T1 T2 St O : Type) (w : nat) (f : St -> option (T1 * T2) * (T1 * T2) -> St * O) (s0 : St)
         (xs : list T1) (ys : list T2),
    rolling2_apply_default w f s0 xs ys =
    if bad_window w xs then Panicked AssertFail
    else Done (run f s0 (mapi (fun i v => (removed w (combine xs ys) i, v)) (combine xs ys))).
Proof. exact @rolling2_apply_default_total. Qed.

(* caller buffer / Vec, ndarray fast path: `other.len() >= len` is asserted first, then the window *)
Theorem C02_two_series_buffer :
  forall (T1 T2 St O : Type) (w : nat) (f : St -> option (T1 * T2) * (T1 * T2) -> St * O) (s0 : St)
         (xs : list T1) (ys : list T2),
    rolling2_apply_to w f s0 xs ys =
    if length ys <? length xs then Panicked AssertFail
    else if bad_window w xs then Panicked AssertFail
    else Done (run f s0 (mapi (fun i v => (removed_to w (combine xs ys) i, v)) (combine xs ys))).
Proof. exact @rolling2_apply_to_total. Qed.

Theorem C02_two_series_idx_returned :
  forall (T1 T2 St O : Type) (w : nat) (f : St -> option nat * nat * (T1 * T2) -> St * O) (s0 : St)
         (xs : list T1) (ys : list T2),
    rolling2_apply_idx_default w f s0 xs ys =
    if bad_window w xs then Panicked AssertFail
    else Done (run f s0 (mapi (fun i v => (start_of w i, i, v)) (combine xs ys))).
Proof. exact @rolling2_apply_idx_default_total. Qed.

Theorem C02_two_series_idx_buffer :
  forall (T1 T2 St O : Type) (w : nat) (f : St -> option nat * nat * (T1 * T2) -> St * O) (s0 : St)
         (xs : list T1) (ys : list T2),
    rolling2_apply_idx_to w f s0 xs ys =
    if length ys <? length xs then Panicked AssertFail
    else if bad_window w xs then Panicked AssertFail
    else Done (run f s0 (mapi (fun i v => (start_of (Nat.min w (length (combine xs ys))) i, i, v))
                              (combine xs ys))).
Proof. exact @rolling2_apply_idx_to_total. Qed.

(* rolling2_custom (both paths): the lengths, then `window - 1`; the callback gets the two windows *)
Theorem C02_two_series_slice :
  forall (T1 T2 St O : Type) (w : nat) (f : St -> list T1 * list T2 -> St * O) (s0 : St)
         (xs : list T1) (ys : list T2),
    rolling2_custom_default w f s0 xs ys =
    if length ys <? length xs then Panicked AssertFail
    else if w =? 0 then Panicked Underflow
    else Done (run f s0 (map (fun i => (win w i xs, win w i ys)) (seq 0 (length xs)))).
Proof. exact @rolling2_custom_default_total. Qed.

(* the start iterator of rolling2_apply_idx counts to len SELF; zipped it is the one-series argument list *)
Theorem C02_two_series_start_iterator :
  forall (T1 T2 : Type) (w : nat) (xs : list T1) (ys : list T2),
    args_iter_idx2 w xs ys = args_iter_idx w (combine xs ys).
Proof. exact @args_iter_idx2_eq. Qed.

(* where "the window check on the zipped series" (the model before X12) and the check of the code differ *)
Theorem C02_window_check_first_vs_zipped :
  forall (T1 T2 : Type) (w : nat) (xs : list T1) (ys : list T2),
    bad_window w (combine xs ys) <> bad_window w xs <-> w = 0 /\ xs <> [] /\ ys = [].
Proof. exact @bad_window_combine_differs. Qed.

Theorem C02_two_series_returned_window0 :
  forall (T1 T2 St O : Type) (f : St -> option (T1 * T2) * (T1 * T2) -> St * O)
         (g : St -> option nat * nat * (T1 * T2) -> St * O) (s0 : St) (xs : list T1) (ys : list T2),
    xs <> [] ->
    rolling2_apply_default 0 f s0 xs ys = Panicked AssertFail /\
    rolling2_apply_idx_default 0 g s0 xs ys = Panicked AssertFail.
Proof.
  intros; split; [apply rolling2_apply_default_window0|apply rolling2_apply_idx_default_window0]; assumption.
Qed.

(* the first failing check, in the order of the code (compared with the panic MESSAGE by the harness) *)
Theorem C02_two_series_check_returned :
  forall (T1 T2 : Type) (w : nat) (xs : list T1) (ys : list T2),
    (check2_default w xs ys = Some GWindow <-> w = 0 /\ xs <> []) /\
    (check2_default w xs ys = None <-> 1 <= w \/ xs = []).
Proof. exact @check2_default_spec. Qed.

Theorem C02_two_series_check_buffer :
  forall (T1 T2 : Type) (w : nat) (xs : list T1) (ys : list T2),
    (check2_to w xs ys = Some GShorter <-> length ys < length xs) /\
    (check2_to w xs ys = Some GWindow <-> length xs <= length ys /\ w = 0 /\ xs <> []) /\
    (check2_to w xs ys = None <-> length xs <= length ys /\ (1 <= w \/ xs = [])).
Proof. exact @check2_to_spec. Qed.

Theorem C02_two_series_bodies_agree :
  forall (T1 T2 St O : Type) (pre : St -> T1 * T2 -> St) (emit : St -> O) (post : St -> option (T1 * T2) -> St)
         (w : nat) (s0 : St) (xs : list T1) (ys : list T2),
    length xs <= length ys ->
    rolling2_apply_to w (aer pre emit post) s0 xs ys = rolling2_apply_default w (aer pre emit post) s0 xs ys.
Proof. intros; apply rolling2_apply_bodies_agree; assumption. Qed.

Theorem C02_two_series_idx_bodies_agree :
  forall (T1 T2 St O : Type) (pre : St -> nat -> T1 * T2 -> St) (emit : St -> O) (post : St -> option nat -> St)
         (w : nat) (s0 : St) (xs : list T1) (ys : list T2),
    w <= length xs <= length ys ->
    rolling2_apply_idx_to w (aer_idx pre emit post) s0 xs ys
    = rolling2_apply_idx_default w (aer_idx pre emit post) s0 xs ys.
Proof. intros; apply rolling2_apply_idx_bodies_agree; assumption. Qed.

(* a shorter second series is where the two paths differ by design *)
Theorem C02_two_series_shorter_second :
  forall (T1 T2 St O : Type) (w : nat) (f : St -> option (T1 * T2) * (T1 * T2) -> St * O) (s0 : St)
         (xs : list T1) (ys : list T2),
    length ys < length xs -> 1 <= w ->
    rolling2_apply_to w f s0 xs ys = Panicked AssertFail /\
    exists l, rolling2_apply_default w f s0 xs ys = Done l /\ length l = length ys.
Proof. intros; apply rolling2_shorter_second; assumption. Qed.

(* non-vacuity of the X12 implications; the corner the model had wrong: window 0, empty second series *)
Example C02_example_two_series :
  let f := fun (s : nat) (a : option (nat * nat) * (nat * nat)) => (s + 1, (s, a)) in
  let g := fun (s : nat) (a : option nat * nat * (nat * nat)) => (s + 1, (s, a)) in
  rolling2_apply_default 0 f 0 [7; 8] (@nil nat) = Panicked AssertFail
  /\ rolling2_apply_idx_default 0 g 0 [7; 8] (@nil nat) = Panicked AssertFail
  /\ rolling2_apply_default 0 f 0 (@nil nat) [1] = Done []
  /\ rolling2_apply_default 2 f 0 [7; 8; 9] [1; 2] = Done [(0, (None, (7, 1))); (1, (Some (7, 1), (8, 2)))]
  /\ rolling2_apply_to 2 f 0 [7; 8; 9] [1; 2] = Panicked AssertFail
  /\ rolling2_apply_to 2 f 0 [7; 8] [1; 2; 3] = Done [(0, (None, (7, 1))); (1, (Some (7, 1), (8, 2)))]
  /\ rolling2_apply_idx_to 1 g 0 [7; 8] [1; 2; 3] = rolling2_apply_idx_default 1 g 0 [7; 8] [1; 2; 3]
  /\ (bad_window 0 (combine [7] (@nil nat)) = false /\ bad_window 0 [7] = true)
  /\ check2_to 0 [7; 8] [1] = Some GShorter /\ check2_to 0 [7; 8] [1; 2] = Some GWindow
  /\ check2_default 0 [7; 8] [1] = Some GWindow /\ check2_custom 0 (@nil nat) (@nil nat) = Some GUnderflow
  /\ rolling_custom_default 0 (fun (s : nat) (l : list nat) => (s, l)) 0 (@nil nat) = Panicked Underflow.
Proof. vm_compute. repeat split. Qed.

Print Assumptions C02_once_in_order_returned.
Print Assumptions C02_once_in_order_buffer.
Print Assumptions C02_once_in_order_idx_returned.
Print Assumptions C02_once_in_order_idx_buffer.
Print Assumptions C02_removed_arg_returned.
Print Assumptions C02_removed_arg_buffer.
Print Assumptions C02_start_index.
Print Assumptions C02_slice_arg_returned.
Print Assumptions C02_slice_arg_buffer.
Print Assumptions C02_output_placement.
Print Assumptions C02_output_length.
Print Assumptions C02_bodies_same_removed.
Print Assumptions C02_bodies_agree.
Print Assumptions C02_every_window_returned.
Print Assumptions C02_every_window_buffer.
Print Assumptions C02_every_window_idx_returned.
Print Assumptions C02_every_window_idx_buffer.
Print Assumptions C02_every_window_slice_returned.
Print Assumptions C02_every_window_slice_buffer.
Print Assumptions C02_bodies_agree_every_window.
Print Assumptions C02_two_series_returned.
Print Assumptions C02_two_series_buffer.
Print Assumptions C02_two_series_idx_returned.
Print Assumptions C02_two_series_idx_buffer.
Print Assumptions C02_two_series_slice.
Print Assumptions C02_two_series_start_iterator.
Print Assumptions C02_window_check_first_vs_zipped.
Print Assumptions C02_two_series_returned_window0.
Print Assumptions C02_two_series_check_returned.
Print Assumptions C02_two_series_check_buffer.
Print Assumptions C02_two_series_bodies_agree.
Print Assumptions C02_two_series_idx_bodies_agree.
Print Assumptions C02_two_series_shorter_second.
