(* Props/C02.v — property C02: rolling drivers call back once per position with exactly the right
   window.  Only theorem statements, closed by `exact`; `Check` pins; `Print Assumptions`.       *)
From Tevec Require Import Base.Prelude Model.Driver Proofs.Driver.

(* (1) once per position, in increasing order, carrying x_i — for EVERY stateful callback:
       both bodies perform the call list  mapi (fun i x_i => (removed_i, x_i)) xs. *)
Theorem C02_once_in_order_returned :
  forall (T St O : Type) (f : St -> option T * T -> St * O) (s0 : St) (xs : list T) (w : nat),
    1 <= w ->
    rolling_apply_default w f s0 xs = Done (run f s0 (mapi (fun i v => (removed w xs i, v)) xs)).
Proof. intros; apply rolling_apply_default_eq; assumption. Qed.

Theorem C02_once_in_order_buffer :
  forall (T St O : Type) (f : St -> option T * T -> St * O) (s0 : St) (xs : list T) (w : nat),
    1 <= w ->
    rolling_apply_to w f s0 xs = Done (run f s0 (mapi (fun i v => (removed_to w xs i, v)) xs)).
Proof. intros; apply rolling_apply_to_eq; assumption. Qed.

Theorem C02_once_in_order_idx_returned :
  forall (T St O : Type) (f : St -> option nat * nat * T -> St * O) (s0 : St) (xs : list T) (w : nat),
    1 <= w ->
    rolling_apply_idx_default w f s0 xs
    = Done (run f s0 (mapi (fun i v => (start_of w i, i, v)) xs)).
Proof. intros; apply rolling_apply_idx_default_eq; assumption. Qed.

Theorem C02_once_in_order_idx_buffer :
  forall (T St O : Type) (f : St -> option nat * nat * T -> St * O) (s0 : St) (xs : list T) (w : nat),
    1 <= w ->
    rolling_apply_idx_to w f s0 xs
    = Done (run f s0 (mapi (fun i v => (start_of (Nat.min w (length xs)) i, i, v)) xs)).
Proof. intros; apply rolling_apply_idx_to_eq; assumption. Qed.

(* (2) the removed argument: element i-(w-1) from position w-1 on, nothing during warm-up *)
Theorem C02_removed_arg_returned :
  forall (T : Type) (w : nat) (xs : list T) (i : nat),
    1 <= w -> i < length xs ->
    (w - 1 <= i -> removed w xs i = nth_error xs (i - (w - 1)) /\ removed w xs i <> None) /\
    (i < w - 1 -> removed w xs i = None).
Proof. exact (@removed_spec). Qed.

Theorem C02_removed_arg_buffer :
  forall (T : Type) (w : nat) (xs : list T) (i : nat),
    1 <= w -> i < length xs ->
    (w - 1 <= i -> removed_to w xs i = nth_error xs (i - (w - 1))) /\
    (i < Nat.min w (length xs) - 1 -> removed_to w xs i = None).
Proof. exact (@removed_to_spec). Qed.

Theorem C02_start_index :
  forall (w len i : nat), i < len -> (w <= len \/ S i < len) ->
    start_of (Nat.min w len) i = start_of w i.
Proof. exact start_of_min_eq. Qed.

(* (3) slice forms pass exactly win w i xs = positions max(0,i-w+1)..=i, on both bodies *)
Theorem C02_slice_arg_returned :
  forall (T St O : Type) (f : St -> list T -> St * O) (s0 : St) (xs : list T) (w : nat),
    1 <= w ->
    rolling_custom_default w f s0 xs
    = Done (run f s0 (map (fun i => win w i xs) (seq 0 (length xs)))).
Proof. intros; apply rolling_custom_default_eq; assumption. Qed.

Theorem C02_slice_arg_buffer :
  forall (T St O : Type) (f : St -> list T -> St * O) (s0 : St) (xs : list T) (w : nat),
    1 <= w ->
    rolling_custom_to w f s0 xs = Done (run f s0 (map (fun i => win w i xs) (seq 0 (length xs)))).
Proof. intros; apply rolling_custom_to_eq; assumption. Qed.

(* (4) output placement: result k of the run is stored at position k; the output is as long as the input *)
Theorem C02_output_placement :
  forall (St X O : Type) (g : St -> X -> St * O) (s0 : St) (args : list X) (i : nat) (a : X),
    nth_error args i = Some a ->
    nth_error (run g s0 args) i = Some (snd (g (state_after g s0 (firstn i args)) a)).
Proof. exact (@run_placement). Qed.

Theorem C02_output_length :
  forall (St X O : Type) (g : St -> X -> St * O) (s0 : St) (args : list X),
    length (run g s0 args) = length args.
Proof. exact (@run_length). Qed.

(* (5) the two bodies differ only in the removed value at the final position when w > len ... *)
Theorem C02_bodies_same_removed :
  forall (T : Type) (w : nat) (xs : list T) (i : nat),
    i < length xs -> (w <= length xs \/ S i < length xs) -> removed_to w xs i = removed w xs i.
Proof. exact (@removed_to_eq). Qed.

(* ... which no output can depend on: for every add-emit-remove callback the two bodies agree *)
Theorem C02_bodies_agree :
  forall (T St O : Type) (pre : St -> T -> St) (emit : St -> O) (post : St -> option T -> St)
         (w : nat) (s0 : St) (xs : list T),
    1 <= w ->
    rolling_apply_to w (aer pre emit post) s0 xs = rolling_apply_default w (aer pre emit post) s0 xs.
Proof. exact (@rolling_apply_bodies_agree). Qed.

(* non-vacuity: a concrete run exercising w > len and w <= len *)
Example C02_example :
  rolling_apply_to 2 (fun (s : nat) (a : option nat * nat) => (s + 1, (s, a))) 0 [7; 8; 9]
  = Done [(0, (None, 7)); (1, (Some 7, 8)); (2, (Some 8, 9))]
  /\ rolling_apply_default 5 (fun (s : nat) (a : option nat * nat) => (s + 1, (s, a))) 0 [7; 8]
  = Done [(0, (None, 7)); (1, (None, 8))]
  /\ rolling_apply_to 5 (fun (s : nat) (a : option nat * nat) => (s + 1, (s, a))) 0 [7; 8]
  = Done [(0, (None, 7)); (1, (Some 7, 8))].
Proof. vm_compute. auto. Qed.

Print Assumptions C02_once_in_order_returned.
Print Assumptions C02_once_in_order_buffer.
Print Assumptions C02_once_in_order_idx_returned.
Print Assumptions C02_once_in_order_idx_buffer.
Print Assumptions C02_removed_arg_returned.
Print Assumptions C02_removed_arg_buffer.
Print Assumptions C02_start_index.
Print Assumptions C02_slice_arg_returned.
Print Assumptions C02_slice_arg_buffer.
Print Assumptions C02_output_placement.
Print Assumptions C02_output_length.
Print Assumptions C02_bodies_same_removed.
Print Assumptions C02_bodies_agree.
